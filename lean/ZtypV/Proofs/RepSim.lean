/-
C04 — one step of the object machine (`stepM`) against one step of the value machine
(`stepV`), operation by operation: same output, and the stores stay `Sim`-related.
Assembled in Props/C04.lean (`C04_step`).
-/
import ZtypV.Proofs.RepSimProp
import ZtypV.Proofs.DecodeSound
namespace ZtypV
open ZtypV.View ZtypV.Sim

/-- the conclusion of every step lemma -/
def StepAgree (h : HashFn) (rm : Store × Out) (rv : VStore × Out) : Prop :=
  rm.2 = rv.2 ∧ Sim h rm.1 rv.1

theorem outOfErr_ne_panic {e : Err} (he : e ≠ .panic) : outOfErr e = .err := by
  cases e <;> first | rfl | exact absurd rfl he

/-- the mutator specification shared by `set_rep`, `append_rep`, `pop_rep`, `change_rep` -/
def MutAgree (h : HashFn) (t : Ty) (ov : Option Val) (r : R Node) : Prop :=
  match ov with
  | some v' => ∃ n', r = .ok n' ∧ Rep h t v' n' ∧ hasType t v' = true
  | none => ∃ e, r = .error e ∧ e ≠ .panic

/-- a mutator result applied with propagation, on both machines -/
theorem mutate_sim (h : HashFn) {ms : Store} {vs : VStore} (hs : Sim h ms vs) {id : Nat} {o : VObj}
    {vo : VObjV} (hm : ms[id]? = some o) (hv : vs[id]? = some vo) (r : R Node)
    (f : VObjV → Option Val) (hspec : MutAgree h o.ty (f vo) r) :
    StepAgree h (mutateM h ms id r) (mutateV vs id f) := by
  unfold mutateV
  simp only [hv]
  cases hf : f vo with
  | none =>
    rw [hf] at hspec
    obtain ⟨e, rfl, hne⟩ := hspec
    exact ⟨outOfErr_ne_panic hne, hs⟩
  | some nv =>
    rw [hf] at hspec
    obtain ⟨b, rfl, hr, ht⟩ := hspec
    have hlt := lookup_lt hm
    obtain ⟨hsim, hout⟩ := propagate h (ms.size + 1) ms vs id o vo b nv hs hm hv (by omega) hr ht
    unfold mutateM
    rw [← hs.1]
    refine ⟨?_, hsim⟩
    rcases hout with ⟨h1, h2⟩ | ⟨e, h1, h2, h3⟩
    · simp only [h1, h2, if_true]
    · simp only [h1, h3, outOfErr_ne_panic h2]; rfl

theorem mutateV_none {vs : VStore} {id : Nat} (hv : vs[id]? = none) (f : VObjV → Option Val) :
    mutateV vs id f = (vs, .nohandle) := by
  unfold mutateV; simp only [hv]

theorem mutateV_err {vs : VStore} {id : Nat} {vo : VObjV} (hv : vs[id]? = some vo)
    (f : VObjV → Option Val) (hf : f vo = none) : mutateV vs id f = (vs, .err) := by
  unfold mutateV; simp only [hv, hf]

/-! ### `Set` family -/

theorem step_set (h : HashFn) {ms : Store} {vs : VStore} (hs : Sim h ms vs) (id i : Nat) (x : Val)
    (hok : OpOk ms (.set id i x)) :
    StepAgree h (stepM h ms (.set id i x)) (stepV h vs (.set id i x)) := by
  simp only [stepM, stepV]
  cases hm : ms[id]? with
  | none => rw [mutateV_none (hs.lookup_none hm)]; exact ⟨rfl, hs⟩
  | some o =>
    obtain ⟨vo, hv, hrel, _⟩ := hs.lookup hm
    have hx := hok o hm
    have hwS := slotTy_wf o.ty hrel.good.wf i
    obtain ⟨en, hen⟩ := construct_total h x (slotTy o.ty i) hwS hx
    simp only [hen]
    apply mutate_sim h hs hm hv
    show MutAgree h o.ty (valSet vo.ty vo.val i x) _
    rw [hrel.ty_eq]
    exact set_rep h o.ty vo.val o.node i x en hrel.good.wf hrel.good.depthOk hrel.typed hrel.rep hx
      (fun _ => construct_rep h hwS hx hen)

/-- the value read off a source view (`setv` / `appv`) is the source's plain value -/
theorem srcVal_eq (h : HashFn) {so : VObj} {vso : VObjV} (hrel : ObjRel h so vso) :
    (match viewVal so.ty so.node with | .ok v => v | .error _ => Val.none) = vso.val := by
  rw [rep_getters h hrel.good.wf hrel.good.inRange hrel.typed hrel.rep]

theorem step_setv (h : HashFn) {ms : Store} {vs : VStore} (hs : Sim h ms vs) (id i s : Nat)
    (hok : OpOk ms (.setv id i s)) :
    StepAgree h (stepM h ms (.setv id i s)) (stepV h vs (.setv id i s)) := by
  simp only [stepM, stepV]
  cases hsrc : ms[s]? with
  | none =>
    rw [hs.lookup_none hsrc]
    cases hm : ms[id]? <;> exact ⟨rfl, hs⟩
  | some so =>
    obtain ⟨vso, hvs, hsrel, _⟩ := hs.lookup hsrc
    simp only [hvs]
    cases hm : ms[id]? with
    | none => rw [mutateV_none (hs.lookup_none hm)]; exact ⟨rfl, hs⟩
    | some o =>
      obtain ⟨vo, hv, hrel, _⟩ := hs.lookup hm
      have hty := hok o so hm hsrc
      have hvv := rep_getters h hsrel.good.wf hsrel.good.inRange hsrel.typed hsrel.rep
      simp only [hvv]
      apply mutate_sim h hs hm hv
      show MutAgree h o.ty (valSet vo.ty vo.val i vso.val) _
      rw [hrel.ty_eq]
      exact set_rep h o.ty vo.val o.node i vso.val so.node hrel.good.wf hrel.good.depthOk hrel.typed
        hrel.rep (by rw [← hty]; exact hsrel.typed) (fun _ => by rw [← hty]; exact hsrel.rep)

theorem step_setd (h : HashFn) {ms : Store} {vs : VStore} (hs : Sim h ms vs) (id i : Nat) :
    StepAgree h (stepM h ms (.setd id i)) (stepV h vs (.setd id i)) := by
  simp only [stepM, stepV]
  cases hm : ms[id]? with
  | none => rw [mutateV_none (hs.lookup_none hm)]; exact ⟨rfl, hs⟩
  | some o =>
    obtain ⟨vo, hv, hrel, _⟩ := hs.lookup hm
    have hwS := slotTy_wf o.ty hrel.good.wf i
    obtain ⟨en, hen, _⟩ := defaultNode_root h (slotTy o.ty i) hwS (slotTy_noBool o.ty hrel.good.noBool i)
    simp only [hen]
    apply mutate_sim h hs hm hv
    show MutAgree h o.ty (valSet vo.ty vo.val i (defaultVal (slotTyV vo.ty i))) _
    rw [hrel.ty_eq, slotTyV_eq]
    exact set_rep h o.ty vo.val o.node i _ en hrel.good.wf hrel.good.depthOk hrel.typed hrel.rep
      (defaultVal_hasType _ hwS) (fun _ => default_rep h hwS hen)

/-! ### `Append` family, `Pop` -/

theorem step_app (h : HashFn) {ms : Store} {vs : VStore} (hs : Sim h ms vs) (id : Nat) (x : Val)
    (hok : OpOk ms (.app id x)) :
    StepAgree h (stepM h ms (.app id x)) (stepV h vs (.app id x)) := by
  simp only [stepM, stepV]
  cases hm : ms[id]? with
  | none => rw [mutateV_none (hs.lookup_none hm)]; exact ⟨rfl, hs⟩
  | some o =>
    obtain ⟨vo, hv, hrel, _⟩ := hs.lookup hm
    have hx := hok o hm
    have hwS := slotTy_wf o.ty hrel.good.wf 0
    obtain ⟨en, hen⟩ := construct_total h x (slotTy o.ty 0) hwS hx
    simp only [hen]
    apply mutate_sim h hs hm hv
    show MutAgree h o.ty (valAppend vo.ty vo.val x) _
    rw [hrel.ty_eq]
    exact append_rep h o.ty vo.val o.node x en hrel.good.wf hrel.good.depthOk hrel.typed hrel.rep hx
      (fun _ => construct_rep h hwS hx hen)

theorem step_appv (h : HashFn) {ms : Store} {vs : VStore} (hs : Sim h ms vs) (id s : Nat)
    (hok : OpOk ms (.appv id s)) :
    StepAgree h (stepM h ms (.appv id s)) (stepV h vs (.appv id s)) := by
  simp only [stepM, stepV]
  cases hsrc : ms[s]? with
  | none =>
    rw [hs.lookup_none hsrc]
    cases hm : ms[id]? <;> exact ⟨rfl, hs⟩
  | some so =>
    obtain ⟨vso, hvs, hsrel, _⟩ := hs.lookup hsrc
    simp only [hvs]
    cases hm : ms[id]? with
    | none => rw [mutateV_none (hs.lookup_none hm)]; exact ⟨rfl, hs⟩
    | some o =>
      obtain ⟨vo, hv, hrel, _⟩ := hs.lookup hm
      have hty := hok o so hm hsrc
      have hvv := rep_getters h hsrel.good.wf hsrel.good.inRange hsrel.typed hsrel.rep
      simp only [hvv]
      apply mutate_sim h hs hm hv
      show MutAgree h o.ty (valAppend vo.ty vo.val vso.val) _
      rw [hrel.ty_eq]
      exact append_rep h o.ty vo.val o.node vso.val so.node hrel.good.wf hrel.good.depthOk hrel.typed
        hrel.rep (by rw [← hty]; exact hsrel.typed) (fun _ => by rw [← hty]; exact hsrel.rep)

theorem valAppend_not_list (t : Ty) (v x : Val) (hl : ∀ e lim, t ≠ .list e lim)
    (hb : ∀ lim, t ≠ .bitlist lim) : valAppend t v x = none := by
  cases t <;> cases v <;> first | rfl | exact absurd rfl (hl _ _) | exact absurd rfl (hb _)

theorem step_appd (h : HashFn) {ms : Store} {vs : VStore} (hs : Sim h ms vs) (id : Nat) :
    StepAgree h (stepM h ms (.appd id)) (stepV h vs (.appd id)) := by
  simp only [stepM, stepV]
  cases hm : ms[id]? with
  | none => rw [mutateV_none (hs.lookup_none hm)]; exact ⟨rfl, hs⟩
  | some o =>
    obtain ⟨vo, hv, hrel, _⟩ := hs.lookup hm
    have hwS := slotTy_wf o.ty hrel.good.wf 0
    obtain ⟨en, hen, _⟩ := defaultNode_root h (slotTy o.ty 0) hwS (slotTy_noBool o.ty hrel.good.noBool 0)
    have hmain : StepAgree h
        (mutateM h ms id (Mut.append h o.ty o.node (defaultVal (slotTy o.ty 0)) en))
        (mutateV vs id fun o => valAppend o.ty o.val (defaultVal (slotTyV o.ty 0))) := by
      apply mutate_sim h hs hm hv
      show MutAgree h o.ty (valAppend vo.ty vo.val (defaultVal (slotTyV vo.ty 0))) _
      rw [hrel.ty_eq, slotTyV_eq]
      exact append_rep h o.ty vo.val o.node _ en hrel.good.wf hrel.good.depthOk hrel.typed hrel.rep
        (defaultVal_hasType _ hwS) (fun _ => default_rep h hwS hen)
    have hother : (∀ e lim, o.ty ≠ .list e lim) → (∀ lim, o.ty ≠ .bitlist lim) →
        StepAgree h (ms, Out.err)
          (mutateV vs id fun o => valAppend o.ty o.val (defaultVal (slotTyV o.ty 0))) := by
      intro h1 h2
      rw [mutateV_err hv _ (by
        show valAppend vo.ty vo.val _ = none
        rw [hrel.ty_eq]; exact valAppend_not_list _ _ _ h1 h2)]
      exact ⟨rfl, hs⟩
    dsimp only
    cases hty : o.ty with
    | list e lim => rw [hty] at hen hmain; simp only [hen]; exact hmain
    | bitlist lim => rw [hty] at hen hmain; simp only [hen]; exact hmain
    | uint _ => exact hother (by rw [hty]; intro _ _ hc; cases hc) (by rw [hty]; intro _ hc; cases hc)
    | bool => exact hother (by rw [hty]; intro _ _ hc; cases hc) (by rw [hty]; intro _ hc; cases hc)
    | bytesN _ => exact hother (by rw [hty]; intro _ _ hc; cases hc) (by rw [hty]; intro _ hc; cases hc)
    | bitvector _ => exact hother (by rw [hty]; intro _ _ hc; cases hc) (by rw [hty]; intro _ hc; cases hc)
    | vector _ _ => exact hother (by rw [hty]; intro _ _ hc; cases hc) (by rw [hty]; intro _ hc; cases hc)
    | container _ => exact hother (by rw [hty]; intro _ _ hc; cases hc) (by rw [hty]; intro _ hc; cases hc)
    | union _ _ => exact hother (by rw [hty]; intro _ _ hc; cases hc) (by rw [hty]; intro _ hc; cases hc)

theorem step_pop (h : HashFn) {ms : Store} {vs : VStore} (hs : Sim h ms vs) (id : Nat) :
    StepAgree h (stepM h ms (.pop id)) (stepV h vs (.pop id)) := by
  simp only [stepM, stepV]
  cases hm : ms[id]? with
  | none => rw [mutateV_none (hs.lookup_none hm)]; exact ⟨rfl, hs⟩
  | some o =>
    obtain ⟨vo, hv, hrel, _⟩ := hs.lookup hm
    apply mutate_sim h hs hm hv
    show MutAgree h o.ty (valPop vo.ty vo.val) _
    rw [hrel.ty_eq]
    exact pop_rep h o.ty vo.val o.node hrel.good.wf hrel.good.depthOk hrel.typed hrel.rep

/-! ### `Change` -/

theorem valChange_not_union (t : Ty) (sel : Nat) (x : Val) (hnu : ∀ hn o, t ≠ .union hn o) :
    valChange t sel x = none := (change_rep_other t sel x none hnu).1

/-- type of the view the harness builds for `Change(sel, x)`: the selected option, or the first
    option when the selector is out of range (to exercise the library's range check) -/
theorem chgTy_wf {hasNone : Bool} {opts : List Ty} (hg : TyGood (.union hasNone opts)) (sel : Nat) :
    ((unionOpt hasNone opts sel).getD (opts.headD .bool)).wf = true := by
  cases ho : unionOpt hasNone opts sel with
  | some ot => exact (hg.opt ho).wf
  | none =>
    simp only [Option.getD_none]
    have hw := hg.wf
    simp only [Ty.wf, Bool.and_eq_true] at hw
    cases opts with
    | nil => rfl
    | cons a _ =>
      have := hw.1.2
      simp only [Ty.wfAll, Bool.and_eq_true] at this
      exact this.1

theorem step_chg (h : HashFn) {ms : Store} {vs : VStore} (hs : Sim h ms vs) (id sel : Nat) (x : Val)
    (hok : OpOk ms (.chg id sel x)) :
    StepAgree h (stepM h ms (.chg id sel x)) (stepV h vs (.chg id sel x)) := by
  simp only [stepM, stepV]
  cases hm : ms[id]? with
  | none => rw [mutateV_none (hs.lookup_none hm)]; exact ⟨rfl, hs⟩
  | some o =>
    obtain ⟨vo, hv, hrel, _⟩ := hs.lookup hm
    have hother : (∀ hn op, o.ty ≠ .union hn op) →
        StepAgree h (ms, Out.err) (mutateV vs id fun o => valChange o.ty sel x) := by
      intro h1
      rw [mutateV_err hv _ (by
        show valChange vo.ty sel x = none
        rw [hrel.ty_eq]; exact valChange_not_union _ _ _ h1)]
      exact ⟨rfl, hs⟩
    dsimp only
    cases hty : o.ty with
    | union hasNone opts =>
      dsimp only
      obtain ⟨hsel, hfitA, hfitB, hxt⟩ := hok o hasNone opts hm hty
      have hgood : TyGood (.union hasNone opts) := hty ▸ hrel.good
      have key : ∀ (content : Option Node), (x = .none → content = none) →
          (x ≠ .none → ∃ c, content = some c ∧
            construct h ((unionOpt hasNone opts sel).getD (opts.headD .bool)) x = .ok c) →
          StepAgree h (mutateM h ms id (Mut.change (.union hasNone opts) sel content))
            (mutateV vs id fun o => valChange o.ty sel x) := by
        intro content hnil hval
        apply mutate_sim h hs hm hv
        show MutAgree h o.ty (valChange vo.ty sel x) _
        rw [hrel.ty_eq, hty]
        refine change_rep h hasNone opts sel x content hgood.wf hsel hnil ?_ hfitA hfitB
        intro hxn
        obtain ⟨c, hc, hcon⟩ := hval hxn
        refine ⟨c, hc, ?_⟩
        intro ot hot
        rw [hot, Option.getD_some] at hcon
        have hT := hxt hxn
        rw [hot, Option.getD_some] at hT
        exact ⟨hT, construct_rep h (hgood.opt hot).wf hT hcon⟩
      cases x with
      | none => exact key none (fun _ => rfl) (fun hne => absurd rfl hne)
      | _ =>
        obtain ⟨c, hc⟩ := construct_total h _ _ (chgTy_wf hgood sel) (hxt (by intro hh; cases hh))
        simp only [hc, Except.map]
        exact key (some c) (fun hh => by cases hh) (fun _ => ⟨c, rfl, hc⟩)
    | uint _ => exact hother (by rw [hty]; intro _ _ hc; cases hc)
    | bool => exact hother (by rw [hty]; intro _ _ hc; cases hc)
    | bytesN _ => exact hother (by rw [hty]; intro _ _ hc; cases hc)
    | bitvector _ => exact hother (by rw [hty]; intro _ _ hc; cases hc)
    | bitlist _ => exact hother (by rw [hty]; intro _ _ hc; cases hc)
    | vector _ _ => exact hother (by rw [hty]; intro _ _ hc; cases hc)
    | list _ _ => exact hother (by rw [hty]; intro _ _ hc; cases hc)
    | container _ => exact hother (by rw [hty]; intro _ _ hc; cases hc)

/-! ### creation of new objects: `Get`, union `Value`, `Copy` -/

theorem slotTy_of_valElem {t : Ty} {v : Val} {i : Nat} {et : Ty} {x : Val}
    (hp : hookParent t = true) (he : valElem t v i = some (et, x)) : slotTy t i = et := by
  cases t <;> cases v <;> simp only [valElem] at he <;>
    first | (cases he; done) | (simp [hookParent] at hp; done) | skip
  · simp only [Option.map_eq_some_iff, Prod.mk.injEq] at he
    obtain ⟨_, _, rfl, _⟩ := he; rfl
  · simp only [Option.map_eq_some_iff, Prod.mk.injEq] at he
    obtain ⟨_, _, rfl, _⟩ := he; rfl
  · rename_i fs vs
    cases hf : fs[i]? with
    | none => simp [hf] at he
    | some ft =>
      cases hv : vs[i]? with
      | none => simp [hf, hv] at he
      | some y =>
        simp only [hf, hv, Option.bind_eq_bind, Option.bind_some, Option.pure_def, Option.some.injEq,
          Prod.mk.injEq] at he
        obtain ⟨rfl, _⟩ := he
        simp only [slotTy, hf, Option.getD_some]

theorem step_get (h : HashFn) {ms : Store} {vs : VStore} (hs : Sim h ms vs) (p i : Nat) :
    StepAgree h (stepM h ms (.get p i)) (stepV h vs (.get p i)) := by
  simp only [stepM, stepV]
  cases hm : ms[p]? with
  | none => rw [hs.lookup_none hm]; exact ⟨rfl, hs⟩
  | some po =>
    obtain ⟨vpo, hv, hrel, _⟩ := hs.lookup hm
    simp only [hv]
    have hspec := getElem_rep h po.ty vpo.val po.node i hrel.good.wf hrel.good.depthOk hrel.typed
      hrel.rep
    rw [hrel.ty_eq]
    cases he : valElem po.ty vpo.val i with
    | none =>
      rw [he] at hspec
      obtain ⟨e, hge, hne⟩ := hspec
      simp only [hge]
      exact ⟨outOfErr_ne_panic hne, hs⟩
    | some r =>
      obtain ⟨et, x⟩ := r
      rw [he] at hspec
      obtain ⟨en, hge, hrep, hvok, hxt⟩ := hspec
      simp only [hge, hvok, Bool.not_true, Bool.false_eq_true, if_false]
      refine ⟨rfl, hs.push ⟨rfl, rfl, hrel.good.valElem he, hxt, hrep⟩ ?_⟩
      intro p' slot hp'
      by_cases hhk : hooked po.ty et = true
      · simp only [hhk, if_true, Option.some.injEq, Prod.mk.injEq] at hp'
        obtain ⟨rfl, rfl⟩ := hp'
        exact ⟨lookup_lt hm, po, hm, hooked_hookParent hhk,
          slotTy_of_valElem (hooked_hookParent hhk) he⟩
      · simp only [hhk] at hp'; cases hp'

theorem step_copy (h : HashFn) {ms : Store} {vs : VStore} (hs : Sim h ms vs) (s : Nat) :
    StepAgree h (stepM h ms (.copy s)) (stepV h vs (.copy s)) := by
  simp only [stepM, stepV]
  cases hm : ms[s]? with
  | none => rw [hs.lookup_none hm]; exact ⟨rfl, hs⟩
  | some o =>
    obtain ⟨vo, hv, hrel, _⟩ := hs.lookup hm
    simp only [hv]
    refine ⟨rfl, hs.push ⟨hrel.ty_eq, rfl, hrel.good, hrel.typed, hrel.rep⟩ ?_⟩
    intro p' slot hp'; cases hp'

theorem step_val (h : HashFn) {ms : Store} {vs : VStore} (hs : Sim h ms vs) (p : Nat) :
    StepAgree h (stepM h ms (.val p)) (stepV h vs (.val p)) := by
  simp only [stepM, stepV]
  cases hm : ms[p]? with
  | none => rw [hs.lookup_none hm]; exact ⟨rfl, hs⟩
  | some po =>
    obtain ⟨vpo, hv, hrel, _⟩ := hs.lookup hm
    simp only [hv]
    obtain ⟨ty, node, hook⟩ := po
    obtain ⟨vty, val, par⟩ := vpo
    have hte := hrel.ty_eq
    have htyped := hrel.typed
    have hrep := hrel.rep
    have hg := hrel.good
    dsimp only at hte htyped hrep hg ⊢
    subst hte
    cases vty with
    | union hasNone opts =>
      cases val <;> try (simp [hasType] at htyped; done)
      rename_i sel x
      dsimp only
      have hw := hg.wf
      simp only [Ty.wf, Bool.and_eq_true, decide_eq_true_eq] at hw
      simp only [hasType] at htyped
      cases ho : unionOpt hasNone opts sel with
      | none =>
        simp only [ho, Bool.and_eq_true, beq_iff_eq] at htyped
        obtain ⟨⟨hn, hsel⟩, hx⟩ := htyped
        subst hn; subst hsel
        cases x <;> simp at hx
        obtain ⟨_, _, hn⟩ := rep_union_none.mp hrep
        subst hn
        simp only [getNode_pair_true, getNode_pair_false, getNode_nil, R.bind_ok, asLeaf_leaf,
          chunkOf_single_drop, Bool.false_eq_true, if_false, chunkOf_single_getD]
        have h0 : (UInt8.ofNat 0).toNat = 0 := rfl
        rw [h0, if_neg (by simp)]
        exact ⟨rfl, hs⟩
      | some t =>
        simp only [ho] at htyped
        obtain ⟨hlt, hnz, hget⟩ := unionOpt_lt ho
        have hxn : x ≠ .none := by
          intro hx; subst hx; rw [View.hasType_none] at htyped; cases htyped
        have hsel : (UInt8.ofNat sel).toNat = sel := by
          rw [UInt8.toNat_ofNat']; apply Nat.mod_eq_of_lt; omega
        obtain ⟨c, hrc, hn⟩ := (rep_union_some ho hxn).mp hrep
        subst hn
        simp only [getNode_pair_true, getNode_pair_false, getNode_nil, R.bind_ok, asLeaf_leaf,
          chunkOf_single_drop, Bool.false_eq_true, if_false, chunkOf_single_getD, hsel, ho]
        rw [if_neg (by omega)]
        simp only [RepMut.rep_viewOk h t x c hrc, if_true]
        refine ⟨rfl, hs.push ⟨rfl, rfl, hg.opt ho, htyped, hrc⟩ ?_⟩
        intro p' slot hp'; cases hp'
    | uint _ => cases val <;> exact ⟨rfl, hs⟩
    | bool => cases val <;> exact ⟨rfl, hs⟩
    | bytesN _ => cases val <;> exact ⟨rfl, hs⟩
    | bitvector _ => cases val <;> exact ⟨rfl, hs⟩
    | bitlist _ => cases val <;> exact ⟨rfl, hs⟩
    | vector _ _ => cases val <;> exact ⟨rfl, hs⟩
    | list _ _ => cases val <;> exact ⟨rfl, hs⟩
    | container _ => cases val <;> exact ⟨rfl, hs⟩

/-! ### reads: observation, length, element read, byte length -/

theorem step_obs (h : HashFn) {ms : Store} {vs : VStore} (hs : Sim h ms vs) (id : Nat)
    (hok : OpOk ms (.obs id)) :
    StepAgree h (stepM h ms (.obs id)) (stepV h vs (.obs id)) := by
  simp only [stepM, stepV]
  cases hm : ms[id]? with
  | none => rw [hs.lookup_none hm]; exact ⟨rfl, hs⟩
  | some o =>
    obtain ⟨vo, hv, hrel, _⟩ := hs.lookup hm
    have hg := hrel.good
    have hsz : SizeOk o.ty vo.val := by
      rcases hok o hm with h1 | h1 | ⟨n, hn, hlt⟩
      · exact Or.inl h1
      · exact Or.inr (h1.serLt hrel.typed)
      · rw [rep_len h hg.wf hg.inRange hrel.typed hrel.rep] at hn
        cases hn
        exact Or.inr hlt
    simp only [hv, hrel.ty_eq,
      rep_ser_sizeOk h hg.wf hg.inRange hrel.typed hsz hrel.rep,
      rep_getters h hg.wf hg.inRange hrel.typed hrel.rep,
      rep_root h hg.wf hg.noBool hrel.typed hrel.rep]
    exact ⟨rfl, hs⟩

theorem step_blen (h : HashFn) {ms : Store} {vs : VStore} (hs : Sim h ms vs) (id : Nat) :
    StepAgree h (stepM h ms (.blen id)) (stepV h vs (.blen id)) := by
  simp only [stepM, stepV]
  cases hm : ms[id]? with
  | none => rw [hs.lookup_none hm]; exact ⟨rfl, hs⟩
  | some o =>
    obtain ⟨vo, hv, hrel, _⟩ := hs.lookup hm
    have hg := hrel.good
    simp only [hv, hrel.ty_eq, rep_len h hg.wf hg.inRange hrel.typed hrel.rep]
    exact ⟨rfl, hs⟩

theorem step_rd (h : HashFn) {ms : Store} {vs : VStore} (hs : Sim h ms vs) (id i : Nat) :
    StepAgree h (stepM h ms (.rd id i)) (stepV h vs (.rd id i)) := by
  simp only [stepM, stepV]
  cases hm : ms[id]? with
  | none => rw [hs.lookup_none hm]; exact ⟨rfl, hs⟩
  | some o =>
    obtain ⟨vo, hv, hrel, _⟩ := hs.lookup hm
    simp only [hv]
    have hspec := getElem_rep h o.ty vo.val o.node i hrel.good.wf hrel.good.depthOk hrel.typed
      hrel.rep
    rw [hrel.ty_eq]
    cases he : valElem o.ty vo.val i with
    | none =>
      rw [he] at hspec
      obtain ⟨e, hge, hne⟩ := hspec
      simp only [hge, R.bind_error]
      exact ⟨outOfErr_ne_panic hne, hs⟩
    | some r =>
      obtain ⟨et, x⟩ := r
      rw [he] at hspec
      obtain ⟨en, hge, hrep, hvok, hxt⟩ := hspec
      have hge' := hrel.good.valElem he
      simp only [hge, R.bind_ok, hvok, Bool.not_true, Bool.false_eq_true, if_false,
        rep_getters h hge'.wf hge'.inRange hxt hrep]
      exact ⟨rfl, hs⟩

/-- `Length()` of a list / bitlist view whose backing represents the value -/
theorem rep_listLength (h : HashFn) {e : Ty} {lim : Nat} {vs : List Val} {n : Node}
    (hd : DepthOk (.list e lim)) (hr : Rep h (.list e lim) (.seq vs) n) :
    listLength n lim = .ok vs.length := by
  cases hbe : isBasicElem e with
  | false => exact (RepMut.rep_list_complex_inv h hd hbe hr).2.2.1
  | true =>
    cases e <;> try (simp [isBasicElem] at hbe; done)
    exact (RepMut.rep_list_basic_inv h hd hr).2.2.1

theorem step_len (h : HashFn) {ms : Store} {vs : VStore} (hs : Sim h ms vs) (id : Nat) :
    StepAgree h (stepM h ms (.len id)) (stepV h vs (.len id)) := by
  simp only [stepM, stepV]
  cases hm : ms[id]? with
  | none => rw [hs.lookup_none hm]; exact ⟨rfl, hs⟩
  | some o =>
    obtain ⟨vo, hv, hrel, _⟩ := hs.lookup hm
    simp only [hv]
    obtain ⟨ty, node, hook⟩ := o
    obtain ⟨vty, val, par⟩ := vo
    have htyped := hrel.typed
    have hrep := hrel.rep
    have hd := hrel.good.depthOk
    dsimp only at htyped hrep hd ⊢
    cases ty <;> cases val <;> try (simp [hasType] at htyped; done)
    · exact ⟨rfl, hs⟩
    · exact ⟨rfl, hs⟩
    · exact ⟨rfl, hs⟩
    · -- bitvector
      simp only [hasType, beq_iff_eq] at htyped
      dsimp only; rw [htyped]; exact ⟨rfl, hs⟩
    · -- bitlist
      dsimp only
      rw [(RepMut.rep_bitlist_inv h hd hrep).2.2.1]
      exact ⟨rfl, hs⟩
    · -- vector
      simp only [hasType, Bool.and_eq_true, beq_iff_eq] at htyped
      dsimp only; rw [htyped.1]; exact ⟨rfl, hs⟩
    · -- list
      dsimp only
      rw [rep_listLength h hd hrep]
      exact ⟨rfl, hs⟩
    · -- container
      simp only [hasType] at htyped
      dsimp only; rw [← ViewRoot.fieldsHaveType_length _ _ htyped]; exact ⟨rfl, hs⟩
    · exact ⟨rfl, hs⟩

/-! ### erring mutations of a root handle -/

/-- the handle a mutation operation is applied to -/
def Sim.Op.target : Op → Option Nat
  | .set id _ _ | .setv id _ _ | .app id _ | .pop id | .chg id _ _ | .appd id | .setd id _
  | .appv id _ => some id
  | _ => none

/-- a mutation step of the value machine either leaves the store alone or is `mutateV` -/
theorem stepV_shape (h : HashFn) (vs : VStore) (op : Op) (id : Nat) (ht : op.target = some id) :
    (∃ out, stepV h vs op = (vs, out)) ∨ (∃ f, stepV h vs op = mutateV vs id f) := by
  cases op <;> simp only [Sim.Op.target, Option.some.injEq] at ht <;> try (cases ht; done)
  all_goals subst ht
  all_goals simp only [stepV]
  · exact Or.inr ⟨_, rfl⟩
  · split
    · exact Or.inl ⟨_, rfl⟩
    · exact Or.inr ⟨_, rfl⟩
  · exact Or.inr ⟨_, rfl⟩
  · exact Or.inr ⟨_, rfl⟩
  · exact Or.inr ⟨_, rfl⟩
  · exact Or.inr ⟨_, rfl⟩
  · exact Or.inr ⟨_, rfl⟩
  · split
    · exact Or.inl ⟨_, rfl⟩
    · exact Or.inr ⟨_, rfl⟩

/-- a mutation step of the object machine either leaves the store alone or is `mutateM` -/
theorem stepM_shape (h : HashFn) (ms : Store) (op : Op) (id : Nat) (ht : op.target = some id) :
    (∃ out, stepM h ms op = (ms, out)) ∨ (∃ r, stepM h ms op = mutateM h ms id r) := by
  cases op <;> simp only [Sim.Op.target, Option.some.injEq] at ht <;> try (cases ht; done)
  all_goals subst ht
  all_goals simp only [stepM]
  all_goals repeat' split
  all_goals first | exact Or.inl ⟨_, rfl⟩ | exact Or.inr ⟨_, rfl⟩

theorem mutateV_root {vs : VStore} {id : Nat} {vo : VObjV} (hv : vs[id]? = some vo)
    (hp : vo.parent = none) (f : VObjV → Option Val) (he : (mutateV vs id f).2 = .err) :
    (mutateV vs id f).1 = vs := by
  unfold mutateV at he ⊢
  simp only [hv] at he ⊢
  cases hf : f vo with
  | none => rfl
  | some nv =>
    exfalso
    simp only [hf] at he
    have hlt := lookup_lt hv
    have hv1 : (vs.set! id { vo with val := nv })[id]? = some { vo with val := nv } := by
      rw [Array.set!_eq_setIfInBounds, Array.getElem?_setIfInBounds_self, if_pos hlt]
    rw [writeBack_succ _ _ id _ hv1] at he
    simp only [hp] at he
    cases he

theorem mutateM_root (h : HashFn) {ms : Store} {id : Nat} {o : VObj} (hm : ms[id]? = some o)
    (hp : o.hook = none) (r : R Node) (he : (mutateM h ms id r).2 = .err) :
    (mutateM h ms id r).1 = ms := by
  unfold mutateM at he ⊢
  cases r with
  | error e => rfl
  | ok b =>
    exfalso
    simp only [setBacking_succ h _ ms id b o hm, hp] at he
    cases he

/-! ### an executable check of `OpOk` (usable by the driver; used by the non-vacuity examples) -/

-- structural equality test on types (the derived `BEq Ty` comes without a soundness lemma)
mutual
def tyEqB : Ty → Ty → Bool
  | .uint a, .uint b => a == b
  | .bool, .bool => true
  | .bytesN a, .bytesN b => a == b
  | .bitvector a, .bitvector b => a == b
  | .bitlist a, .bitlist b => a == b
  | .vector e a, .vector f b => a == b && tyEqB e f
  | .list e a, .list f b => a == b && tyEqB e f
  | .container fs, .container gs => tysEqB fs gs
  | .union h fs, .union k gs => h == k && tysEqB fs gs
  | _, _ => false
def tysEqB : List Ty → List Ty → Bool
  | [], [] => true
  | a :: as, b :: bs => tyEqB a b && tysEqB as bs
  | _, _ => false
end

mutual
theorem tyEqB_sound : (a b : Ty) → tyEqB a b = true → a = b
  | .uint a, b, h => by cases b <;> simp [tyEqB] at h; rw [h]
  | .bool, b, h => by cases b <;> simp [tyEqB] at h; rfl
  | .bytesN a, b, h => by cases b <;> simp [tyEqB] at h; rw [h]
  | .bitvector a, b, h => by cases b <;> simp [tyEqB] at h; rw [h]
  | .bitlist a, b, h => by cases b <;> simp [tyEqB] at h; rw [h]
  | .vector e a, b, h => by
    cases b <;> simp [tyEqB] at h
    rw [h.1, tyEqB_sound e _ h.2]
  | .list e a, b, h => by
    cases b <;> simp [tyEqB] at h
    rw [h.1, tyEqB_sound e _ h.2]
  | .container fs, b, h => by
    cases b <;> simp [tyEqB] at h
    rw [tysEqB_sound fs _ h]
  | .union k fs, b, h => by
    cases b <;> simp [tyEqB] at h
    rw [h.1, tysEqB_sound fs _ h.2]
theorem tysEqB_sound : (as bs : List Ty) → tysEqB as bs = true → as = bs
  | [], bs, h => by cases bs <;> simp [tysEqB] at h; rfl
  | a :: as, bs, h => by
    cases bs <;> simp [tysEqB] at h
    rw [tyEqB_sound a _ h.1, tysEqB_sound as _ h.2]
end

def isNoneVal : Val → Bool
  | .none => true
  | _ => false

theorem isNoneVal_iff (x : Val) : isNoneVal x = true ↔ x = .none := by
  cases x <;> simp [isNoneVal]

def opOkB (ms : Store) : Op → Bool
  | .set id i x => match ms[id]? with | some o => hasType (slotTy o.ty i) x | none => true
  | .app id x => match ms[id]? with | some o => hasType (slotTy o.ty 0) x | none => true
  | .setv id i s =>
    match ms[id]?, ms[s]? with
    | some o, some so => tyEqB so.ty (slotTy o.ty i)
    | _, _ => true
  | .appv id s =>
    match ms[id]?, ms[s]? with
    | some o, some so => tyEqB so.ty (slotTy o.ty 0)
    | _, _ => true
  | .chg id sel x =>
    match ms[id]? with
    | some o =>
      match o.ty with
      | .union hasNone opts =>
        decide (sel < 256) &&
          (if isNoneVal x then (sel != 0 || hasNone)
           else (!(hasNone && sel == 0) &&
             hasType ((unionOpt hasNone opts sel).getD (opts.headD .bool)) x))
      | _ => true
    | none => true
  | .obs id =>
    match ms[id]? with
    | some o =>
      offsetFree o.ty || decide (TySmall o.ty) ||
        (match valueByteLength o.ty o.node with | .ok n => decide (n < 2 ^ 32) | .error _ => false)
    | none => true
  | _ => true

theorem opOkB_sound (ms : Store) (op : Op) (hb : opOkB ms op = true) : OpOk ms op := by
  cases op <;> simp only [OpOk] <;> simp only [opOkB] at hb
  · intro o hm; simpa only [hm] using hb
  · intro o so hm hsrc; simp only [hm, hsrc] at hb; exact tyEqB_sound _ _ hb
  · intro o hm; simpa only [hm] using hb
  · rename_i id sel x
    intro o hasNone opts hm hty
    simp only [hm, hty, Bool.and_eq_true, decide_eq_true_eq] at hb
    obtain ⟨hsel, hrest⟩ := hb
    by_cases hx : isNoneVal x = true
    · have hxn := (isNoneVal_iff x).mp hx
      simp only [hx, if_true, Bool.or_eq_true, bne_iff_ne, ne_eq] at hrest
      refine ⟨hsel, ?_, fun hne => absurd hxn hne, fun hne => absurd hxn hne⟩
      intro _ h0
      rcases hrest with h1 | h1
      · exact absurd h0 h1
      · exact h1
    · have hxn : x ≠ .none := fun hc => hx ((isNoneVal_iff x).mpr hc)
      simp only [hx, Bool.false_eq_true, if_false, Bool.and_eq_true, Bool.not_eq_true',
        Bool.and_eq_false_iff, beq_eq_false_iff_ne, ne_eq] at hrest
      refine ⟨hsel, fun hc => absurd hc hxn, ?_, fun _ => hrest.2⟩
      intro _ hc
      rcases hrest.1 with h1 | h1
      · rw [hc.1] at h1; cases h1
      · exact h1 hc.2
  · intro o hm
    simp only [hm, Bool.or_eq_true, decide_eq_true_eq] at hb
    rcases hb with (h1 | h1) | h1
    · exact Or.inl h1
    · exact Or.inr (Or.inl h1)
    · cases hl : valueByteLength o.ty o.node with
      | error e => simp [hl] at h1
      | ok n =>
        simp only [hl, decide_eq_true_eq] at h1
        exact Or.inr (Or.inr ⟨n, hl, h1⟩)
  · intro o so hm hsrc; simp only [hm, hsrc] at hb; exact tyEqB_sound _ _ hb

def opsOkB (h : HashFn) : Store → List Op → Bool
  | _, [] => true
  | st, op :: ops => opOkB st op && opsOkB h (stepM h st op).1 ops

theorem opsOkB_sound (h : HashFn) : ∀ (ops : List Op) (ms : Store), opsOkB h ms ops = true →
    OpsOk h ms ops
  | [], _, _ => trivial
  | op :: ops, ms, hb => by
    simp only [opsOkB, Bool.and_eq_true] at hb
    exact ⟨opOkB_sound ms op hb.1, opsOkB_sound h ops _ hb.2⟩

end ZtypV

/-! ### concrete data for the non-vacuity examples of Props/C04.lean (hash: `rvExH`) -/

namespace ZtypV.C04Ex
open ZtypV ZtypV.View ZtypV.Sim

/-- `List[List[uint64, 4], 3]` holding `[[1, 2]]` -/
def exT : Ty := .list (.list (.uint 8) 4) 3
def exV : Val := .seq [.seq [.num 1, .num 2]]
def exN : Node := match construct rvExH exT exV with | .ok n => n | .error _ => .leaf z0
theorem exN_eq : construct rvExH exT exV = .ok exN := by rfl
def exMs : Store := #[{ ty := exT, node := exN, hook := none }]
def exVs : VStore := #[{ ty := exT, val := exV, parent := none }]

/-- sub-view of element 0; append through the sub-view (propagates to the root); observe the
    root; pop the root (the sub-view becomes stale); append through the stale sub-view (error:
    its slot no longer exists; it keeps its own new value); read it; out-of-range `Set` on the root -/
def exOps : List Op :=
  [.get 0 0, .app 1 (.num 3), .obs 0, .len 0, .pop 0, .app 1 (.num 4), .rd 1 3, .set 0 7 (.seq [])]

theorem exT_good : TyGood exT := by decide
theorem exV_typed : hasType exT exV = true := by decide
theorem exOps_ok : opsOkB rvExH exMs exOps = true := by decide

/-- `List[uint64, 4]` holding `[1, 2]` (packed elements) -/
def exT1 : Ty := .list (.uint 8) 4
def exV1 : Val := .seq [.num 1, .num 2]
def exN1 : Node := match construct rvExH exT1 exV1 with | .ok n => n | .error _ => .leaf z0
theorem exN1_eq : construct rvExH exT1 exV1 = .ok exN1 := by rfl
def exMs1 : Store := #[{ ty := exT1, node := exN1, hook := none }]
def exVs1 : VStore := #[{ ty := exT1, val := exV1, parent := none }]
def exOps1 : List Op := [.app 0 (.num 3), .set 0 0 (.num 9), .obs 0, .pop 0, .rd 0 5, .blen 0]
theorem exOps1_ok : opsOkB rvExH exMs1 exOps1 = true := by decide

end ZtypV.C04Ex
