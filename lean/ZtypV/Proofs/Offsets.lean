/-
C03, offset tables: an accepted offset table whose items each consume exactly their sub-scope
is the table `serialize` writes (`offsetsOf`, `serVarParts`).  Used by the decoders of lists
and vectors of variable-size elements.
-/
import ZtypV.Proofs.DecodeSeries
namespace ZtypV.DecodeProofs
open ZtypV ZtypV.View

/-- `os` is non-decreasing and starts at or above `p` -/
def Mono : Nat → List Nat → Prop
  | _, [] => True
  | p, o :: os => p ≤ o ∧ Mono o os

theorem serList_length (e : Ty) (vs : List Val) : (serList e vs).length = vs.length := by
  induction vs with
  | nil => rfl
  | cons v vs ih => simp [serList, ih]

theorem isFixed_of_isLeafTy {e : Ty} (h : isLeafTy e = true) : e.isFixed = true := by
  cases e <;> simp [isLeafTy] at h <;> simp [Ty.isFixed]

theorem readOffsets_ok : ∀ (n prev : Nat) (dr : DR) (os : List Nat) (dr' : DR),
    readOffsets n prev dr = .ok (os, dr') →
    os.length = n ∧ Mono prev os ∧ (os.map (leBytes 4)).flatten = dr.avail.take (4 * n) ∧
      4 * n ≤ dr.avail.length ∧ dr'.avail = dr.avail.drop (4 * n) := by
  intro n
  induction n with
  | zero =>
    intro prev dr os dr' hd
    rw [readOffsets] at hd
    cases hd
    simp [Mono]
  | succ n ih =>
    intro prev dr os dr' hd
    rw [readOffsets] at hd
    obtain ⟨⟨o, d1⟩, h1, hd⟩ := bind_eq_ok hd
    simp only at hd
    obtain ⟨hmono, hd⟩ := ite_err_eq_ok hd
    obtain ⟨⟨os', d2⟩, h2, hd⟩ := bind_eq_ok hd
    cases hd
    obtain ⟨hl4, hb, hav⟩ := readOffset_ok h1
    obtain ⟨hlen, hm, htab, hle, hav2⟩ := ih _ _ _ _ h2
    rw [hav] at htab hle hav2
    rw [List.length_drop] at hle
    have hmul : 4 * (n + 1) = 4 + 4 * n := by omega
    refine ⟨by simp [hlen], ⟨by omega, hm⟩, ?_, by omega, ?_⟩
    · rw [hmul, List.take_add]
      simp only [List.map_cons, List.flatten_cons, hb, htab]
    · rw [hmul, hav2, List.drop_drop]

theorem readOffsets_ne_panic : ∀ (n prev : Nat) (dr : DR), readOffsets n prev dr ≠ .error .panic := by
  intro n
  induction n with
  | zero => intro prev dr; rw [readOffsets]; exact ok_ne_panic _
  | succ n ih =>
    intro prev dr
    rw [readOffsets]
    apply bind_ne_panic (readOffset_ne_panic dr)
    rintro ⟨o, d1⟩ _
    simp only
    apply ite_ne_panic (fun _ => other_ne_panic); intro _
    apply bind_ne_panic (ih _ _)
    rintro ⟨os, d2⟩ _
    exact ok_ne_panic _

/-- items delimited by a monotone offset list: each consumed exactly its span, so the spans are
    the lengths of the parts and `offsetsOf` reproduces the offsets -/
theorem offsetItems_sound {h : HashFn} {e : Ty} (he : Sound h e) (hnl : isLeafTy e = false)
    (scope : Nat) :
    ∀ (os : List Nat) (o : Nat) (dr : DR) (ns : List Node) (dr' : DR), Mono o os →
      decodeOffsetItems (fun d => decode h e d) scope (o :: os) dr = .ok (ns, dr') →
      ∃ vs : List Val, vs.length = os.length + 1 ∧ allHaveType e vs = true ∧
        constructList h e vs = .ok ns ∧ o ≤ scope ∧
        (serList e vs).flatten = dr.avail.take (scope - o) ∧ scope - o ≤ dr.avail.length ∧
        dr'.avail = dr.avail.drop (scope - o) ∧
        offsetsOf o (serList e vs) = (o :: os).map (leBytes 4) := by
  have hleaf : ∀ c : Nat, isLeafTy e = true → c = e.fixedSize := by
    intro c hc; rw [hnl] at hc; cases hc
  intro os
  induction os with
  | nil =>
    intro o dr ns dr' _ hd
    rw [decodeOffsetItems] at hd
    obtain ⟨hle, hd⟩ := ite_err_eq_ok hd
    obtain ⟨⟨x, d1⟩, h1, hd⟩ := bind_eq_ok hd
    cases hd
    obtain ⟨v, hv, hser, hl, hav, hcon⟩ := inSub_sound he (hleaf _) h1
    refine ⟨[v], rfl, by simp [allHaveType, hv], by simp [constructList, hcon, bind, Except.bind],
      by omega, by simp [serList, hser], hl, hav, by simp [serList, offsetsOf]⟩
  | cons o' rest ih =>
    intro o dr ns dr' hm hd
    obtain ⟨hoo, hm'⟩ := hm
    rw [decodeOffsetItems] at hd
    obtain ⟨⟨x, d1⟩, h1, hd⟩ := bind_eq_ok hd
    obtain ⟨⟨xs, d2⟩, h2, hd⟩ := bind_eq_ok hd
    cases hd
    obtain ⟨v, hv, hser, hl, hav, hcon⟩ := inSub_sound he (hleaf _) h1
    obtain ⟨vs, hvl, hvt, hcon2, hos, hfl, hl2, hav2, htab⟩ := ih o' d1 xs _ hm' h2
    rw [hav] at hfl hl2 hav2
    rw [List.length_drop] at hl2
    have hplen : (serialize e v).length = o' - o := by rw [hser, List.length_take]; omega
    have hsum : scope - o = (o' - o) + (scope - o') := by omega
    refine ⟨v :: vs, by simp [hvl], by simp [allHaveType, hv, hvt],
      by simp [constructList, hcon, hcon2, bind, Except.bind], by omega, ?_, by omega, ?_, ?_⟩
    · rw [hsum, List.take_add]
      simp only [serList, List.flatten_cons, hser, hfl]
    · rw [hsum, hav2, List.drop_drop]
    · simp only [serList, offsetsOf, hplen, List.map_cons]
      have : o + (o' - o) = o' := by omega
      rw [this, htab]; rfl

theorem offsetItems_length {f : DR → R (Node × DR)} {scope : Nat} :
    ∀ (os : List Nat) (o : Nat) (dr : DR) (ns : List Node) (dr' : DR),
      decodeOffsetItems f scope (o :: os) dr = .ok (ns, dr') → ns.length = os.length + 1 := by
  intro os
  induction os with
  | nil =>
    intro o dr ns dr' hd
    rw [decodeOffsetItems] at hd
    obtain ⟨_, hd⟩ := ite_err_eq_ok hd
    obtain ⟨⟨x, d1⟩, h1, hd⟩ := bind_eq_ok hd
    cases hd; rfl
  | cons o' rest ih =>
    intro o dr ns dr' hd
    rw [decodeOffsetItems] at hd
    obtain ⟨⟨x, d1⟩, h1, hd⟩ := bind_eq_ok hd
    obtain ⟨⟨xs, d2⟩, h2, hd⟩ := bind_eq_ok hd
    cases hd
    simp [ih _ _ _ _ h2]

theorem offsetItems_ne_panic {f : DR → R (Node × DR)} (hf : ∀ d, f d ≠ .error .panic) {scope : Nat} :
    ∀ (os : List Nat) (dr : DR), decodeOffsetItems f scope os dr ≠ .error .panic := by
  intro os
  induction os with
  | nil => intro dr; rw [decodeOffsetItems]; exact ok_ne_panic _
  | cons o rest ih =>
    intro dr
    cases rest with
    | nil =>
      rw [decodeOffsetItems]
      apply ite_ne_panic (fun _ => other_ne_panic); intro _
      apply bind_ne_panic (inSub_ne_panic _ _ _ hf)
      rintro ⟨x, d1⟩ _
      exact ok_ne_panic _
    | cons o' rest =>
      rw [decodeOffsetItems]
      apply bind_ne_panic (inSub_ne_panic _ _ _ hf)
      rintro ⟨x, d1⟩ _
      apply bind_ne_panic (ih d1)
      rintro ⟨xs, d2⟩ _
      exact ok_ne_panic _

/-- THE offset-table lemma: first offset `4 * m`, `m - 1` further monotone offsets, items decoded
    in the spans they delimit (the last one ending at `scope`): the bytes consumed are exactly
    `serVarParts` of the item encodings -/
theorem varSeries_sound {h : HashFn} {e : Ty} (he : Sound h e) (hnl : isLeafTy e = false)
    {scope first m : Nat} {dr dr1 dr2 dr3 : DR} {os : List Nat} {ns : List Node}
    (hm : 1 ≤ m) (hfirst : first = 4 * m)
    (h1 : dr.readOffset = .ok (first, dr1))
    (h2 : readOffsets (m - 1) first dr1 = .ok (os, dr2))
    (h3 : decodeOffsetItems (fun d => decode h e d) scope (first :: os) dr2 = .ok (ns, dr3)) :
    ∃ vs : List Val, vs.length = m ∧ allHaveType e vs = true ∧ constructList h e vs = .ok ns ∧
      serVarParts (serList e vs) = dr.avail.take scope ∧ scope ≤ dr.avail.length ∧
      dr3.avail = dr.avail.drop scope := by
  obtain ⟨hl4, hb, hav1⟩ := readOffset_ok h1
  obtain ⟨hlen, hmono, htab, hle, hav2⟩ := readOffsets_ok _ _ _ _ _ h2
  obtain ⟨vs, hvl, hvt, hcon, hfs, hfl, hl3, hav3, hoff⟩ :=
    offsetItems_sound he hnl scope os first dr2 ns dr3 hmono h3
  rw [hav1] at htab hle hav2
  rw [List.length_drop] at hle
  have h4m : 4 + 4 * (m - 1) = first := by omega
  rw [List.drop_drop, h4m] at hav2
  rw [hav2] at hfl hl3 hav3
  rw [List.length_drop] at hl3
  have hvm : vs.length = m := by omega
  have htable : ((first :: os).map (leBytes 4)).flatten = dr.avail.take first := by
    conv => rhs; rw [← h4m, List.take_add]
    simp only [List.map_cons, List.flatten_cons, hb, htab]
  have hsum : scope = first + (scope - first) := by omega
  refine ⟨vs, hvm, hvt, hcon, ?_, by omega, ?_⟩
  · unfold serVarParts
    rw [serList_length, hvm, ← hfirst, hoff, htable, hfl]
    conv => rhs; rw [hsum, List.take_add]
  · rw [hav3, List.drop_drop, ← hsum]

end ZtypV.DecodeProofs
