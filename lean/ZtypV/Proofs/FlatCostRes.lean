/-
C20, flat side, part 1: the result component of the instrumented flat decoder `flatDecodeM`
(Model/FlatCost.lean) is the validated flat decoder `flatDecode` (Model/Flat.lean).
Helpers that take deserializers take `DesC`s on the twin side; `DesC.erase` forgets the units:
`(helperC items … dr).res = helper (items.map DesC.erase) … dr`.
-/
import ZtypV.Model.FlatCost
import ZtypV.Proofs.DecodeCost
import ZtypV.Proofs.FlatSound
namespace ZtypV.FlatCostProofs
open ZtypV ZtypV.View ZtypV.Flat ZtypV.DecodeProofs ZtypV.CostProofs

variable {α β : Type}

/-! ### leaves of the codec -/

theorem res_resizeC (s : Slice) (n : Nat) : (s.resizeC n).res = .ok (s.resize n) := rfl

theorem decByteVectorC_res (dst : Slice) (n : Nat) (dr : DR) :
    (decByteVectorC dst n dr).res = decByteVector dst n dr := by
  unfold decByteVectorC decByteVector; res_tac [res_resizeC]

theorem decByteListC_res (dst : Slice) (n : Nat) (dr : DR) :
    (decByteListC dst n dr).res = decByteList dst n dr := by
  unfold decByteListC decByteList; res_tac [res_resizeC]

theorem decBitVectorC_res (dst : Slice) (n : Nat) (dr : DR) :
    (decBitVectorC dst n dr).res = decBitVector dst n dr := by
  unfold decBitVectorC decBitVector; res_tac [res_resizeC]

theorem decBitListC_res (dst : Slice) (n : Nat) (dr : DR) :
    (decBitListC dst n dr).res = decBitList dst n dr := by
  unfold decBitListC decBitList; res_tac [res_resizeC]

theorem readRootsC_res (dst : RSlice) (n : Nat) (dr : DR) :
    (readRootsC dst n dr).res = readRoots dst n dr := by
  unfold readRootsC; res_tac

theorem readRootsLimitedC_res (dst : RSlice) (n : Nat) (dr : DR) :
    (readRootsLimitedC dst n dr).res = readRootsLimited dst n dr := by
  unfold readRootsLimitedC readRootsLimited; res_tac [readRootsC_res]

theorem res_readOffsetsNC (n : Nat) (dr : DR) : (readOffsetsNC n dr).res = readOffsetsN n dr := rfl

/-! ### loops over deserializers -/

theorem erase_run (c : DesC) (d : DR) : (c.run d).res = c.erase.run d := rfl
theorem erase_fixedLength (c : DesC) : c.erase.fixedLength = c.fixedLength := rfl

theorem inSubC_erase (dr : DR) (count : Nat) (c : DesC) :
    (dr.inSubC count c.run).res = dr.inSub count c.erase.run :=
  inSubC_res dr count c.run c.erase.run (fun _ => rfl)

theorem decFixedItemsC_res (pre size : Nat) : ∀ (items : List DesC) (dr : DR),
    (decFixedItemsC pre size items dr).res = decFixedItems size (items.map DesC.erase) dr
  | [], dr => rfl
  | it :: its, dr => by
    rw [decFixedItemsC, List.map_cons, decFixedItems]
    res_tac [inSubC_erase, decFixedItemsC_res pre size its]

theorem decOffsetItemsC_res (pre : Nat) (vec : Bool) (scope : Nat) :
    ∀ (offs : List Nat) (items : List DesC) (prev : Nat) (dr : DR),
    (decOffsetItemsC pre vec scope prev offs items dr).res =
      decOffsetItems vec scope prev offs (items.map DesC.erase) dr
  | [], items, prev, dr => by rw [decOffsetItemsC, decOffsetItems]; rfl
  | _ :: _, [], prev, dr => by rw [decOffsetItemsC, List.map_nil, decOffsetItems]; rfl
  | off :: rest, it :: its, prev, dr => by
    rw [decOffsetItemsC, List.map_cons, decOffsetItems]
    res_tac [inSubC_erase, decOffsetItemsC_res pre vec scope rest its]

theorem decVectorC_res (items : List DesC) (fl : Nat) (dr : DR) :
    (decVectorC items fl dr).res = decVector (items.map DesC.erase) fl dr := by
  unfold decVectorC decVector
  res_tac [decFixedItemsC_res, decOffsetItemsC_res, res_readOffsetsNC, List.length_map]

theorem map_erase_replicate (k fl : Nat) (add : DR → CR (Val × DR)) :
    (List.replicate k (⟨fl, add⟩ : DesC)).map DesC.erase =
      List.replicate k (⟨fl, fun d => (add d).res⟩ : Des) := by
  rw [List.map_replicate]; rfl

theorem decListC_res (addCost : Nat) (add : DR → CR (Val × DR)) (fl lim : Nat) (dr : DR) :
    (decListC addCost add fl lim dr).res = decList (fun d => (add d).res) fl lim dr := by
  unfold decListC decList
  res_tac [decFixedItemsC_res, decOffsetItemsC_res, res_readOffsetsNC, map_erase_replicate]

theorem decFixedLenContainerC_res : ∀ (fields : List DesC) (dr : DR),
    (decFixedLenContainerC fields dr).res = decFixedLenContainer (fields.map DesC.erase) dr
  | [], dr => rfl
  | f :: fs, dr => by
    rw [decFixedLenContainerC, List.map_cons, decFixedLenContainer]
    res_tac [erase_run, decFixedLenContainerC_res fs]

theorem containerFixedLenC_eq : ∀ (fields : List DesC),
    containerFixedLenC fields = containerFixedLen (fields.map DesC.erase)
  | [] => rfl
  | f :: fs => by
    rw [containerFixedLenC, List.map_cons, containerFixedLen, containerFixedLenC_eq fs]; rfl

/-- the first container loop also hands the dynamic fields on: erase them in the result -/
def eraseFixed (r : List (Option Val) × List Nat × List DesC × DR) :
    List (Option Val) × List Nat × List Des × DR :=
  (r.1, r.2.1, r.2.2.1.map DesC.erase, r.2.2.2)

theorem decContainerFixedC_res : ∀ (fields : List DesC) (dr : DR),
    (decContainerFixedC fields dr).res.map eraseFixed = decContainerFixed (fields.map DesC.erase) dr
  | [], dr => rfl
  | f :: fs, dr => by
    have ih := decContainerFixedC_res fs
    rw [decContainerFixedC, List.map_cons, decContainerFixed]
    by_cases hf : f.fixedLength ≠ 0
    · rw [if_pos hf, if_pos (by exact hf)]
      simp only [res_bind, inSubC_erase, erase_fixedLength]
      cases h1 : dr.inSub f.fixedLength f.erase.run with
      | error e => rfl
      | ok p =>
        obtain ⟨x, d1⟩ := p
        simp only [ebind_ok]
        rw [← ih d1]
        generalize (decContainerFixedC fs d1).res = r
        cases r with
        | error e => rfl
        | ok q => rfl
    · rw [if_neg hf, if_neg (by exact hf)]
      simp only [res_bind, res_lift]
      cases h1 : dr.readOffset with
      | error e => rfl
      | ok p =>
        obtain ⟨o, d1⟩ := p
        simp only [ebind_ok, res_tick]
        rw [← ih d1]
        generalize (decContainerFixedC fs d1).res = r
        cases r with
        | error e => rfl
        | ok q => rfl

theorem decContainerDynC_res (scope : Nat) : ∀ (offs : List Nat) (dyn : List DesC) (dr : DR),
    (decContainerDynC scope offs dyn dr).res = decContainerDyn scope offs (dyn.map DesC.erase) dr
  | [], dyn, dr => by rw [decContainerDynC, decContainerDyn]; rfl
  | _ :: _, [], dr => by rw [decContainerDynC, List.map_nil, decContainerDyn]; rfl
  | off :: rest, f :: fs, dr => by
    rw [decContainerDynC, List.map_cons, decContainerDyn]
    res_tac [inSubC_erase, decContainerDynC_res scope rest fs]

theorem decContainerC_res (fields : List DesC) (dr : DR) :
    (decContainerC fields dr).res = decContainer (fields.map DesC.erase) dr := by
  unfold decContainerC decContainer
  simp only [res_bind]
  rw [← decContainerFixedC_res, containerFixedLenC_eq]
  generalize (decContainerFixedC fields dr).res = r
  cases r with
  | error e => rfl
  | ok q =>
    obtain ⟨slots, offs, dyn, d1⟩ := q
    simp only [ebind_ok, Except.map, eraseFixed, List.isEmpty_map]
    res_tac [decContainerDynC_res]

/-! ### unions -/

/-- forget the units of the destination a `selectFn` returned -/
def eraseSel (r : R (Option DesC)) : R (Option Des) :=
  match r with
  | .ok (some c) => .ok (some c.erase)
  | .ok Option.none => .ok Option.none
  | .error e => .error e

theorem decUnionC_res (select : Nat → CR (Option DesC)) (dr : DR) :
    (decUnionC select dr).res = decUnion (fun s => eraseSel (select s).res) dr := by
  unfold decUnionC decUnion
  simp only [res_bind, res_lift]
  refine ebind_congr ?_
  rintro ⟨sb, dr1⟩ _
  dsimp only
  generalize (select (sb.headD 0).toNat).res = r
  cases r with
  | error e => rfl
  | ok dest =>
    cases dest with
    | none => simp only [ebind_ok, eraseSel]; res_tac
    | some d => simp only [ebind_ok, eraseSel]; res_tac [erase_run, erase_fixedLength]

/-! ### type by type -/

theorem desC_erase_eq {fl : Nat} {f : DR → CR (Val × DR)} {g : DR → R (Val × DR)}
    (h : ∀ d, (f d).res = g d) : (⟨fl, f⟩ : DesC).erase = ⟨fl, g⟩ := by
  have : (fun d => (f d).res) = g := funext h
  simp only [DesC.erase, this]

theorem uint_res (b : Nat) (p : Val) (dr : DR) :
    (flatDecodeM (.uint b) p dr).res = flatDecode (.uint b) p dr := by
  rw [flatDecodeM, flatDecode]; rfl
theorem bool_res (p : Val) (dr : DR) : (flatDecodeM .bool p dr).res = flatDecode .bool p dr := by
  rw [flatDecodeM, flatDecode]; rfl
theorem bytesN_res (n : Nat) (p : Val) (dr : DR) :
    (flatDecodeM (.bytesN n) p dr).res = flatDecode (.bytesN n) p dr := by
  rw [flatDecodeM, flatDecode]; res_tac [decByteVectorC_res]
theorem bitvector_res (n : Nat) (p : Val) (dr : DR) :
    (flatDecodeM (.bitvector n) p dr).res = flatDecode (.bitvector n) p dr := by
  rw [flatDecodeM, flatDecode]; res_tac [decBitVectorC_res]
theorem bitlist_res (n : Nat) (p : Val) (dr : DR) :
    (flatDecodeM (.bitlist n) p dr).res = flatDecode (.bitlist n) p dr := by
  rw [flatDecodeM, flatDecode]; res_tac [decBitListC_res]

theorem vector_res {e : Ty} (ih : ∀ q d, (flatDecodeM e q d).res = flatDecode e q d) (n : Nat)
    (p : Val) (dr : DR) : (flatDecodeM (.vector e n) p dr).res = flatDecode (.vector e n) p dr := by
  rw [flatDecodeM, flatDecode]
  have hitems : ((List.range n).map fun i =>
      (⟨flatFixedLength e, fun d => flatDecodeM e (priorElem p i) d⟩ : DesC)).map DesC.erase =
      (List.range n).map fun i => (⟨flatFixedLength e, fun d => flatDecode e (priorElem p i) d⟩ : Des) := by
    rw [List.map_map]
    apply List.map_congr_left
    intro i _
    exact desC_erase_eq (fun d => ih _ d)
  res_tac [decByteVectorC_res, readRootsC_res, decVectorC_res, hitems]

theorem list_res {e : Ty} (ih : ∀ q d, (flatDecodeM e q d).res = flatDecode e q d) (lim : Nat)
    (p : Val) (dr : DR) : (flatDecodeM (.list e lim) p dr).res = flatDecode (.list e lim) p dr := by
  rw [flatDecodeM, flatDecode]
  have hadd : (fun d => (flatDecodeM e Val.none d).res) = fun d => flatDecode e Val.none d :=
    funext (fun d => ih _ d)
  res_tac [decByteListC_res, readRootsLimitedC_res, decListC_res, hadd]

theorem flatFieldDesM_erase : ∀ (fs : List Ty),
    (∀ t ∈ fs, ∀ q d, (flatDecodeM t q d).res = flatDecode t q d) → ∀ (p : Val) (i : Nat),
    (flatFieldDesM fs p i).map DesC.erase = flatFieldDes fs p i
  | [], _, p, i => by rw [flatFieldDesM, flatFieldDes]; rfl
  | t :: ts, ih, p, i => by
    rw [flatFieldDesM, flatFieldDes, List.map_cons,
      flatFieldDesM_erase ts (fun t' ht' => ih t' (by simp [ht'])) p (i + 1),
      desC_erase_eq (fun d => ih t (by simp) _ d)]

theorem container_res {fs : List Ty} (ih : ∀ t ∈ fs, ∀ q d, (flatDecodeM t q d).res = flatDecode t q d)
    (p : Val) (dr : DR) : (flatDecodeM (.container fs) p dr).res = flatDecode (.container fs) p dr := by
  rw [flatDecodeM, flatDecode]
  res_tac [decFixedLenContainerC_res, decContainerC_res, flatFieldDesM_erase fs ih]

theorem flatSelectM_res : ∀ (opts : List Ty),
    (∀ t ∈ opts, ∀ q d, (flatDecodeM t q d).res = flatDecode t q d) → ∀ (k : Nat),
    eraseSel (flatSelectM opts k).res = flatSelect opts k
  | [], _, k => by rw [flatSelectM, flatSelect]; rfl
  | t :: ts, ih, 0 => by
    rw [flatSelectM, flatSelect]
    simp only [res_bind, res_tick, ebind_ok, res_pure, eraseSel]
    rw [desC_erase_eq (fun d => ih t (by simp) _ d)]
  | t :: ts, ih, k + 1 => by
    rw [flatSelectM, flatSelect]
    exact flatSelectM_res ts (fun t' ht' => ih t' (by simp [ht'])) k

theorem union_res {hasNone : Bool} {opts : List Ty}
    (ih : ∀ t ∈ opts, ∀ q d, (flatDecodeM t q d).res = flatDecode t q d) (p : Val) (dr : DR) :
    (flatDecodeM (.union hasNone opts) p dr).res = flatDecode (.union hasNone opts) p dr := by
  rw [flatDecodeM, flatDecode]
  have hsel : (fun s => eraseSel ((fun sel =>
        if sel ≥ opts.length + (if hasNone = true then 1 else 0) then (CR.fail .other : CR (Option DesC))
        else if (hasNone && sel == 0) = true then pure Option.none
        else flatSelectM opts (if hasNone = true then sel - 1 else sel)) s).res) =
      fun sel =>
        if sel ≥ opts.length + (if hasNone = true then 1 else 0) then (Flat.err : R (Option Des))
        else if (hasNone && sel == 0) = true then .ok Option.none
        else flatSelect opts (if hasNone = true then sel - 1 else sel) := by
    funext s
    dsimp only
    by_cases h1 : s ≥ opts.length + (if hasNone = true then 1 else 0)
    · rw [if_pos h1, if_pos h1]; rfl
    rw [if_neg h1, if_neg h1]
    by_cases h2 : (hasNone && s == 0) = true
    · rw [if_pos h2, if_pos h2]; rfl
    rw [if_neg h2, if_neg h2]
    exact flatSelectM_res opts ih _
  dsimp only
  simp only [res_bind, decUnionC_res, hsel]
  res_tac

/-- the instrumented twin computes exactly the validated flat decoder -/
theorem flatDecodeM_res : (t : Ty) → ∀ (prior : Val) (dr : DR),
    (flatDecodeM t prior dr).res = flatDecode t prior dr
  | .uint b => uint_res b
  | .bool => bool_res
  | .bytesN n => bytesN_res n
  | .bitvector n => bitvector_res n
  | .bitlist n => bitlist_res n
  | .vector e n => vector_res (flatDecodeM_res e) n
  | .list e lim => list_res (flatDecodeM_res e) lim
  | .container fs => container_res (fun t _ht => flatDecodeM_res t)
  | .union _ opts => union_res (fun t _ht => flatDecodeM_res t)
termination_by t => sizeOf t
decreasing_by
  all_goals simp_wf
  · omega
  · omega
  · have := List.sizeOf_lt_of_mem _ht; omega
  · have := List.sizeOf_lt_of_mem _ht; omega

theorem flatDecodeC_fst (t : Ty) (prior : Val) (dr : DR) :
    (flatDecodeC t prior dr).1 = flatDecode t prior dr :=
  flatDecodeM_res t prior dr

end ZtypV.FlatCostProofs
