/-
The constructor route never fails on a typed value of a well-formed type (no side condition on
limits; also for `Vector/List` of `boolean`): makes the C02 theorems non-vacuous for every
supported type and value.
-/
import ZtypV.Proofs.ViewShape
namespace ZtypV.View

theorem le_two_pow_coverDepth (v : Nat) : v ≤ 2 ^ coverDepth v := by
  unfold coverDepth
  split
  · rename_i h
    have : 0 < 2 ^ 0 := Nat.two_pow_pos 0
    simp; omega
  · have := Nat.lt_log2_self (n := v - 1)
    omega

def ConstructOk (h : HashFn) (v : Val) : Prop :=
  ∀ (t : Ty), t.wf = true → hasType t v = true → ∃ n, construct h t v = .ok n

theorem constructList_total (h : HashFn) (e : Ty) : ∀ (vs : List Val),
    (∀ v ∈ vs, ConstructOk h v) → e.wf = true → allHaveType e vs = true →
    ∃ ns, constructList h e vs = .ok ns ∧ ns.length = vs.length := by
  intro vs
  induction vs with
  | nil => intro _ _ _; exact ⟨[], by simp only [constructList], rfl⟩
  | cons v vs ih =>
    intro hall hw ht
    simp only [allHaveType, Bool.and_eq_true] at ht
    obtain ⟨n, hn⟩ := hall v List.mem_cons_self e hw ht.1
    obtain ⟨ns, hns, hl⟩ := ih (fun w hw' => hall w (List.mem_cons_of_mem _ hw')) hw ht.2
    exact ⟨n :: ns, by simp only [constructList, hn, hns, R.bind_ok], by simp [hl]⟩

theorem constructFields_total (h : HashFn) : ∀ (fs : List Ty) (vs : List Val),
    (∀ v ∈ vs, ConstructOk h v) → Ty.wfAll fs = true → fieldsHaveType fs vs = true →
    ∃ ns, constructFields h fs vs = .ok ns ∧ ns.length = fs.length := by
  intro fs
  induction fs with
  | nil =>
    intro vs _ _ ht
    cases vs with
    | nil => exact ⟨[], by simp only [constructFields], rfl⟩
    | cons _ _ => simp [fieldsHaveType] at ht
  | cons t ts ih =>
    intro vs hall hw ht
    cases vs with
    | nil => simp [fieldsHaveType] at ht
    | cons v vs =>
      simp only [fieldsHaveType, Bool.and_eq_true] at ht
      simp only [Ty.wfAll, Bool.and_eq_true] at hw
      obtain ⟨n, hn⟩ := hall v List.mem_cons_self t hw.1 ht.1
      obtain ⟨ns, hns, hl⟩ := ih vs (fun w hw' => hall w (List.mem_cons_of_mem _ hw')) hw.2 ht.2
      exact ⟨n :: ns, by simp only [constructFields, hn, hns, R.bind_ok], by simp [hl]⟩

theorem bytes_fill_total (h : HashFn) (d : Nat) (bs : Bytes) (hfit : (bs.length + 31) / 32 ≤ 2 ^ d) :
    ∃ n, fillToContents h d (bytesIntoNodes bs) = .ok n :=
  fill_ok_of_length h d _ (by simpa [bytesIntoNodes] using hfit)

/-- the constructors succeed on every typed value of a well-formed type -/
theorem construct_total (h : HashFn) : ∀ v, ConstructOk h v := by
  intro v
  induction v using Val.induct with
  | num k =>
    intro t hw ht
    cases t <;> simp [hasType] at ht
    exact ⟨_, by simp only [construct]; rfl⟩
  | bool b =>
    intro t hw ht
    cases t <;> simp [hasType] at ht
    exact ⟨_, by simp only [construct]; rfl⟩
  | bytes bs =>
    intro t hw ht
    cases t <;> simp [hasType] at ht
    exact ⟨_, by simp only [construct]; rfl⟩
  | bits bs =>
    intro t hw ht
    cases t <;> try (simp [hasType] at ht; done)
    · rename_i k
      simp only [hasType, beq_iff_eq] at ht
      have hp := le_two_pow_coverDepth ((k + 255) / 256)
      obtain ⟨n, hn⟩ := bytes_fill_total h (bitDepth k) (packBits bs)
        (by rw [packBits_length]; unfold bitDepth; omega)
      refine ⟨n, ?_⟩
      simp only [construct, bitsToBytes]
      rw [if_neg (by omega), hn]; rfl
    · rename_i lim
      simp only [hasType, decide_eq_true_eq] at ht
      have hp := le_two_pow_coverDepth ((lim + 255) / 256)
      obtain ⟨n, hn⟩ := bytes_fill_total h (bitDepth lim) (packBits bs)
        (by rw [packBits_length]; unfold bitDepth; omega)
      refine ⟨.pair n (lengthNode bs.length), ?_⟩
      simp only [construct, bitsToBytes]
      rw [if_neg (by omega), hn]; rfl
  | seq vs ih =>
    intro t hw ht
    cases t <;> try (simp [hasType] at ht; done)
    · rename_i e k
      simp only [hasType, Bool.and_eq_true, beq_iff_eq] at ht
      simp only [Ty.wf, Bool.and_eq_true, decide_eq_true_eq] at hw
      cases hb : isBasicElem e
      · obtain ⟨ns, hns, hl⟩ := constructList_total h e vs ih hw.2 ht.2
        have hp := le_two_pow_coverDepth k
        obtain ⟨n, hn⟩ := fill_ok_of_length h (coverDepth k) ns (by omega)
        refine ⟨n, ?_⟩
        simp only [construct, hb, Bool.false_eq_true, if_false]
        rw [if_neg (by omega), hns, R.bind_ok, hn]; rfl
      · obtain ⟨b, rfl⟩ := isBasicElem_uint hb
        have hbw := uint_wf_le hw.2
        have hfl := basic_flatten_length b vs ht.2
        have hp := le_two_pow_coverDepth (bottomNodes b k)
        obtain ⟨n, hn⟩ := bytes_fill_total h (seriesDepth (.uint b) k) (serList (.uint b) vs).flatten
          (by
            rw [hfl, ht.1, ← bottomNodes_eq b k hbw]
            simpa [seriesDepth, isBasicElem, Ty.fixedSize] using hp)
        refine ⟨n, ?_⟩
        simp only [construct, isBasicElem, if_true]
        rw [if_neg (by omega), hn]; rfl
    · rename_i e lim
      simp only [hasType, Bool.and_eq_true, decide_eq_true_eq] at ht
      simp only [Ty.wf] at hw
      cases hb : isBasicElem e
      · obtain ⟨ns, hns, hl⟩ := constructList_total h e vs ih hw ht.2
        have hp := le_two_pow_coverDepth lim
        obtain ⟨n, hn⟩ := fill_ok_of_length h (coverDepth lim) ns (by omega)
        refine ⟨.pair n (lengthNode vs.length), ?_⟩
        simp only [construct, hb, Bool.false_eq_true, if_false]
        rw [if_neg (by omega), hns, R.bind_ok, hn]; rfl
      · obtain ⟨b, rfl⟩ := isBasicElem_uint hb
        have hbw := uint_wf_le hw
        have hfl := basic_flatten_length b vs ht.2
        have hp := le_two_pow_coverDepth (bottomNodes b lim)
        have hmono : (vs.length * b + 31) / 32 ≤ bottomNodes b lim := by
          rw [bottomNodes_eq b lim hbw]
          have := ht.1
          rcases hbw with rfl | rfl | rfl | rfl | rfl <;> omega
        obtain ⟨n, hn⟩ := bytes_fill_total h (seriesDepth (.uint b) lim) (serList (.uint b) vs).flatten
          (by
            rw [hfl]
            have : seriesDepth (.uint b) lim = coverDepth (bottomNodes b lim) := by
              simp [seriesDepth, isBasicElem, Ty.fixedSize]
            rw [this]; omega)
        refine ⟨.pair n (lengthNode vs.length), ?_⟩
        simp only [construct, isBasicElem, if_true]
        rw [if_neg (by omega), hn]; rfl
    · rename_i fs
      simp only [hasType] at ht
      simp only [Ty.wf, Bool.and_eq_true] at hw
      have hlen := fieldsHaveType_length fs vs ht
      obtain ⟨ns, hns, hl⟩ := constructFields_total h fs vs ih hw.2 ht
      have hp := le_two_pow_coverDepth fs.length
      obtain ⟨n, hn⟩ := fill_ok_of_length h (coverDepth fs.length) ns (by omega)
      refine ⟨n, ?_⟩
      simp only [construct]
      rw [if_neg (by omega), hns, R.bind_ok, hn]
  | none =>
    intro t hw ht
    rw [hasType_none] at ht; cases ht
  | union sel v ih =>
    intro t hw ht
    cases t <;> try (simp [hasType] at ht; done)
    rename_i hasNone opts
    simp only [Ty.wf, Bool.and_eq_true, decide_eq_true_eq] at hw
    simp only [hasType] at ht
    cases ho : unionOpt hasNone opts sel with
    | none =>
      simp only [ho, Bool.and_eq_true, beq_iff_eq] at ht
      obtain ⟨_, hv⟩ := ht
      cases v <;> simp at hv
      exact ⟨_, by simp only [construct]; rfl⟩
    | some t =>
      simp only [ho] at ht
      obtain ⟨hlt, hnz, hget⟩ := unionOpt_lt ho
      obtain ⟨c, hc⟩ := ih t (wfAll_get opts _ t hw.1.2 hget) ht
      refine ⟨.pair c (.leaf (chunkOf [UInt8.ofNat sel])), ?_⟩
      cases v <;> first
        | (rw [hasType_none] at ht; cases ht)
        | (simp only [construct, ho, hc, R.bind_ok])

end ZtypV.View
