/-
C20, flat side, part 5: allocation bounds of `FixedLenContainer`, `Container` (both loops) and
`Union`, generic in the field / option deserializers (`Good`).
-/
import ZtypV.Proofs.FlatCostHelpers
namespace ZtypV.FlatCostProofs
open ZtypV ZtypV.View ZtypV.Flat ZtypV.DecodeProofs ZtypV.CostProofs ZtypV.FlatProofs

variable {α β : Type}

/-- the field deserializers report the fixed length of their type and satisfy the invariants -/
def FieldsGood (r F : Nat) : List Ty → List DesC → Prop
  | [], [] => True
  | t :: ts, f :: fs => f.fixedLength = flatFixedLength t ∧ Good t r F f.run ∧ FieldsGood r F ts fs
  | _, _ => False

theorem FieldsGood.length {r F : Nat} : ∀ {ts : List Ty} {fs : List DesC}, FieldsGood r F ts fs →
    fs.length = ts.length
  | [], [], _ => rfl
  | [], _ :: _, h => by cases h
  | _ :: _, [], h => by cases h
  | t :: ts, f :: fs, h => by simp [FieldsGood.length h.2.2]

/-! ### `FixedLenContainer`: the fields on the container's own reader -/

theorem fixedLenG_ok {r F : Nat} : ∀ (ts : List Ty) (fields : List DesC) (dr : DR) (vs : List Val)
    (dr' : DR), FieldsGood r F ts fields → Ty.allFixed ts = true →
    (decFixedLenContainerC fields dr).res = .ok (vs, dr') →
    dr'.avail.length ≤ dr.avail.length ∧
      (decFixedLenContainerC fields dr).cost + r * dr'.avail.length ≤ r * dr.avail.length
  | [], [], dr, vs, dr', _, _, hr => by
    rw [decFixedLenContainerC] at hr ⊢
    cases hr
    simp [cost_pure]
  | [], _ :: _, _, _, _, hs, _, _ => by cases hs
  | _ :: _, [], _, _, _, hs, _, _ => by cases hs
  | t :: ts, f :: fs, dr, vs, dr', hs, hf, hr => by
    obtain ⟨_, hg, hss⟩ := hs
    simp only [Ty.allFixed, Bool.and_eq_true] at hf
    rw [decFixedLenContainerC] at hr ⊢
    obtain ⟨⟨x, d1⟩, h1, hr, hc1⟩ := bind_ok_inv hr
    rw [hc1]
    dsimp only at hr ⊢
    obtain ⟨⟨xs, d2⟩, h2, hr, hc2⟩ := bind_ok_inv hr
    rw [hc2]
    dsimp only at hr ⊢
    obtain ⟨b1, b2⟩ := fixedLenG_ok ts fs d1 xs d2 hss hf.2 h2
    cases hr
    obtain ⟨_, _, s1, s2⟩ := hg.sound _ _ _ h1
    have hk := hg.ok _ _ _ h1
    have hv : d1.avail.length = dr.avail.length - need t dr := by rw [s2, List.length_drop]
    have e1 := mul_split r (need t dr) dr.avail.length s1
    rw [← hv] at e1
    rw [cost_pure]
    refine ⟨by omega, by omega⟩

theorem fixedLenG_any {r F : Nat} : ∀ (ts : List Ty) (fields : List DesC) (dr : DR),
    FieldsGood r F ts fields → Ty.allFixed ts = true →
    (decFixedLenContainerC fields dr).cost ≤ r * dr.avail.length + r * dr.scope + F
  | [], [], dr, _, _ => by rw [decFixedLenContainerC, cost_pure]; omega
  | [], _ :: _, _, hs, _ => by cases hs
  | _ :: _, [], _, hs, _ => by cases hs
  | t :: ts, f :: fs, dr, hs, hf => by
    obtain ⟨_, hg, hss⟩ := hs
    simp only [Ty.allFixed, Bool.and_eq_true] at hf
    rw [decFixedLenContainerC]
    have hA := hg.any dr
    cases h1 : (f.run dr).res with
    | error err => rw [cost_bind_err h1]; exact hA
    | ok p =>
      obtain ⟨x, d1⟩ := p
      rw [cost_bind_ok h1]
      dsimp only
      obtain ⟨_, _, s1, s2⟩ := hg.sound _ _ _ h1
      have hk := hg.ok _ _ _ h1
      have hm := hg.mono _ _ _ h1
      have hv : d1.avail.length = dr.avail.length - need t dr := by rw [s2, List.length_drop]
      have e1 := mul_split r (need t dr) dr.avail.length s1
      rw [← hv] at e1
      have hrest := fixedLenG_any ts fs d1 hss hf.2
      have e3 : r * d1.scope ≤ r * dr.scope := Nat.mul_le_mul_left r hm
      rw [cost_bind_zero _ _ (fun _ => rfl)]
      omega

/-! ### `Container` -/

theorem rate_step {r ρ s : Nat} (h : 96 + r ≤ ρ) (hs : 1 ≤ s) : 96 + r * s ≤ ρ * s := by
  have h1 : (96 + r) * s ≤ ρ * s := Nat.mul_le_mul_right s h
  have h2 : (96 + r) * s = 96 * s + r * s := Nat.add_mul _ _ _
  omega

/-- first loop: a fixed-size field pays its `SubScope` with its own bytes; a dynamic field pays
    its two appends AND the `SubScope` of the second loop with the 4 bytes of its offset -/
theorem containerFixedG_ok {r F ρ : Nat} (hρ : 96 + r ≤ ρ) : ∀ (ts : List Ty) (fields : List DesC)
    (dr : DR) (slots : List (Option Val)) (offs : List Nat) (dyn : List DesC) (dr' : DR),
    Ty.wfAll ts = true → FieldsGood r F ts fields →
    (decContainerFixedC fields dr).res = .ok (slots, offs, dyn, dr') →
    dr'.avail.length ≤ dr.avail.length ∧ dr'.scope ≤ dr.scope ∧ FieldsGood r F (varTys ts) dyn ∧
      (decContainerFixedC fields dr).cost + 96 * dyn.length + ρ * dr'.avail.length ≤
        ρ * dr.avail.length
  | [], [], dr, slots, offs, dyn, dr', _, _, hr => by
    rw [decContainerFixedC] at hr ⊢
    cases hr
    simp [cost_pure, varTys, FieldsGood]
  | [], _ :: _, _, _, _, _, _, _, hs, _ => by cases hs
  | _ :: _, [], _, _, _, _, _, _, hs, _ => by cases hs
  | t :: ts, f :: fs, dr, slots, offs, dyn, dr', hw, hs, hr => by
    obtain ⟨hfl, hg, hss⟩ := hs
    simp only [Ty.wfAll, Bool.and_eq_true] at hw
    rw [decContainerFixedC] at hr ⊢
    cases hf : t.isFixed with
    | true =>
      have hfix := flatFixedLength_fixed hw.1 hf
      have hpos := FlatProofs.fixedSize_pos hw.1 hf
      rw [if_pos (by rw [hfl, hfix]; omega)] at hr ⊢
      obtain ⟨⟨x, d1⟩, h1, hr, hc1⟩ := bind_ok_inv hr
      rw [hc1]
      dsimp only at hr ⊢
      obtain ⟨⟨sl, os, dy, d2⟩, h2, hr, hc2⟩ := bind_ok_inv hr
      rw [hc2]
      dsimp only at hr ⊢
      obtain ⟨b1, b2, b3, b4⟩ := containerFixedG_ok hρ ts fs d1 sl os dy d2 hw.2 hss h2
      cases hr
      obtain ⟨a1, a2, a3, a4⟩ := inSubG_ok hg (fun _ => by rw [hfl, hfix]) h1
      have hst := rate_step (s := f.fixedLength) hρ (by rw [hfl, hfix]; omega)
      have e2 : ρ * d1.avail.length + ρ * f.fixedLength = ρ * dr.avail.length := by
        rw [← Nat.mul_add, a2]
      rw [cost_pure]
      refine ⟨by omega, by omega, ?_, by omega⟩
      unfold varTys; simp only [hf, if_true]; exact b3
    | false =>
      have hvar := flatFixedLength_var hw.1 hf
      rw [if_neg (by rw [hfl, hvar]; simp)] at hr ⊢
      obtain ⟨⟨o, d1⟩, h1, hr, hc1⟩ := bind_ok_inv hr
      rw [hc1, cost_lift]
      dsimp only at hr ⊢
      rw [res_bind_ok (a := ()) rfl, res_bind_ok (a := ()) rfl] at hr
      rw [cost_bind_ok (a := ()) rfl, cost_bind_ok (a := ()) rfl, cost_tick]
      obtain ⟨⟨sl, os, dy, d2⟩, h2, hr, hc2⟩ := bind_ok_inv hr
      rw [hc2]
      dsimp only at hr ⊢
      obtain ⟨b1, b2, b3, b4⟩ := containerFixedG_ok hρ ts fs d1 sl os dy d2 hw.2 hss h2
      cases hr
      rw [res_lift] at h1
      obtain ⟨a1, a2⟩ := readOffset_ok' h1
      have e2 : ρ * d1.avail.length + 4 * ρ = ρ * dr.avail.length := by
        rw [← a2, Nat.mul_add, Nat.mul_comm ρ 4]
      rw [cost_pure]
      simp only [List.length_cons]
      refine ⟨by omega, by omega, ?_, by omega⟩
      unfold varTys; simp only [hf, Bool.false_eq_true, if_false]
      exact ⟨hfl, hg, b3⟩

theorem containerFixedG_any {r F ρ : Nat} (hρ : 96 + r ≤ ρ) : ∀ (ts : List Ty) (fields : List DesC)
    (dr : DR), Ty.wfAll ts = true → FieldsGood r F ts fields →
    (decContainerFixedC fields dr).cost ≤ 96 + ρ * dr.avail.length + ρ * dr.scope + F
  | [], [], dr, _, _ => by rw [decContainerFixedC, cost_pure]; omega
  | [], _ :: _, _, _, hs => by cases hs
  | _ :: _, [], _, _, hs => by cases hs
  | t :: ts, f :: fs, dr, hw, hs => by
    obtain ⟨hfl, hg, hss⟩ := hs
    simp only [Ty.wfAll, Bool.and_eq_true] at hw
    rw [decContainerFixedC]
    have m1 : r * dr.avail.length ≤ ρ * dr.avail.length := Nat.mul_le_mul_right _ (by omega)
    have m2 : r * dr.scope ≤ ρ * dr.scope := Nat.mul_le_mul_right _ (by omega)
    cases hf : t.isFixed with
    | true =>
      have hfix := flatFixedLength_fixed hw.1 hf
      have hpos := FlatProofs.fixedSize_pos hw.1 hf
      rw [if_pos (by rw [hfl, hfix]; omega)]
      have hA := inSubG_any hg dr f.fixedLength
      cases h1 : (dr.inSubC f.fixedLength f.run).res with
      | error err => rw [cost_bind_err h1]; omega
      | ok p =>
        obtain ⟨x, d1⟩ := p
        rw [cost_bind_ok h1]
        dsimp only
        obtain ⟨a1, a2, a3, a4⟩ := inSubG_ok hg (fun _ => by rw [hfl, hfix]) h1
        have hst := rate_step (s := f.fixedLength) hρ (by rw [hfl, hfix]; omega)
        have e2 : ρ * d1.avail.length + ρ * f.fixedLength = ρ * dr.avail.length := by
          rw [← Nat.mul_add, a2]
        have hrest := containerFixedG_any hρ ts fs d1 hw.2 hss
        rw [a3] at hrest
        rw [cost_bind_zero _ _ (fun _ => rfl)]
        omega
    | false =>
      have hvar := flatFixedLength_var hw.1 hf
      rw [if_neg (by rw [hfl, hvar]; simp)]
      cases h1 : (CR.lift dr.readOffset).res with
      | error err => rw [cost_bind_err h1, cost_lift]; omega
      | ok p =>
        obtain ⟨o, d1⟩ := p
        rw [cost_bind_ok h1, cost_lift]
        dsimp only
        rw [cost_bind_ok (a := ()) rfl, cost_bind_ok (a := ()) rfl, cost_tick]
        rw [res_lift] at h1
        obtain ⟨a1, a2⟩ := readOffset_ok' h1
        have e2 : ρ * d1.avail.length + 4 * ρ = ρ * dr.avail.length := by
          rw [← a2, Nat.mul_add, Nat.mul_comm ρ 4]
        have e3 : ρ * d1.scope ≤ ρ * dr.scope := Nat.mul_le_mul_left ρ (by omega)
        have hrest := containerFixedG_any hρ ts fs d1 hw.2 hss
        rw [cost_bind_zero _ _ (fun _ => rfl)]
        omega

/-- second loop: the `SubScope`s were paid by the offsets -/
theorem containerDynG_ok {r F ρ : Nat} (hρ : 96 + r ≤ ρ) (S : Nat) : ∀ (offs : List Nat)
    (dyn : List DesC) (ts : List Ty) (dr : DR) (vs : List Val) (dr' : DR),
    (∀ t ∈ ts, t.isFixed = false) → FieldsGood r F ts dyn →
    (decContainerDynC S offs dyn dr).res = .ok (vs, dr') →
    dr'.avail.length ≤ dr.avail.length ∧
      (decContainerDynC S offs dyn dr).cost + ρ * dr'.avail.length ≤
        96 * dyn.length + ρ * dr.avail.length
  | [], dyn, ts, dr, vs, dr', _, _, hr => by
    rw [decContainerDynC] at hr ⊢
    cases hr
    rw [cost_pure]; omega
  | _ :: _, [], ts, dr, vs, dr', _, _, hr => by
    rw [decContainerDynC] at hr
    cases hr
  | off :: rest, f :: fs, [], dr, vs, dr', _, hs, hr => by cases hs
  | off :: rest, f :: fs, t :: ts, dr, vs, dr', hv, hs, hr => by
    obtain ⟨_, hg, hss⟩ := hs
    have hvt := hv t (by simp)
    rw [decContainerDynC] at hr ⊢
    dsimp only at hr ⊢
    by_cases c1 : rest.headD S < off
    · rw [if_pos c1] at hr; cases hr
    rw [if_neg c1] at hr ⊢
    obtain ⟨⟨x, d1⟩, h1, hr, hc1⟩ := bind_ok_inv hr
    rw [hc1]
    dsimp only at hr ⊢
    obtain ⟨⟨xs, d2⟩, h2, hr, hc2⟩ := bind_ok_inv hr
    rw [hc2]
    dsimp only at hr ⊢
    obtain ⟨b1, b2⟩ := containerDynG_ok hρ S rest fs ts d1 xs d2
      (fun t' ht' => hv t' (by simp [ht'])) hss h2
    cases hr
    obtain ⟨a1, a2, a3, a4⟩ := inSubG_ok hg (not_fixed_elim hvt) h1
    have e2 : ρ * d1.avail.length + ρ * (rest.headD S - off) = ρ * dr.avail.length := by
      rw [← Nat.mul_add, a2]
    have e3 : r * (rest.headD S - off) ≤ ρ * (rest.headD S - off) :=
      Nat.mul_le_mul_right _ (by omega)
    rw [cost_pure]
    simp only [List.length_cons]
    refine ⟨by omega, by omega⟩

theorem containerDynG_any {r F ρ : Nat} (hρ : 96 + r ≤ ρ) (S : Nat) : ∀ (offs : List Nat)
    (dyn : List DesC) (ts : List Ty) (dr : DR),
    (∀ t ∈ ts, t.isFixed = false) → FieldsGood r F ts dyn →
    (decContainerDynC S offs dyn dr).cost ≤
      96 * dyn.length + ρ * dr.avail.length + ρ * dr.scope + F
  | [], dyn, ts, dr, _, _ => by rw [decContainerDynC, cost_pure]; omega
  | _ :: _, [], ts, dr, _, _ => by rw [decContainerDynC, cost_fail]; omega
  | off :: rest, f :: fs, [], dr, _, hs => by cases hs
  | off :: rest, f :: fs, t :: ts, dr, hv, hs => by
    obtain ⟨_, hg, hss⟩ := hs
    have hvt := hv t (by simp)
    rw [decContainerDynC]
    dsimp only
    simp only [List.length_cons]
    by_cases c1 : rest.headD S < off
    · rw [if_pos c1, cost_fail]; omega
    rw [if_neg c1]
    have hA := inSubG_any hg dr (rest.headD S - off)
    have m1 : r * dr.avail.length ≤ ρ * dr.avail.length := Nat.mul_le_mul_right _ (by omega)
    have m2 : r * dr.scope ≤ ρ * dr.scope := Nat.mul_le_mul_right _ (by omega)
    cases h1 : (dr.inSubC (rest.headD S - off) f.run).res with
    | error err => rw [cost_bind_err h1]; omega
    | ok p =>
      obtain ⟨x, d1⟩ := p
      rw [cost_bind_ok h1]
      dsimp only
      obtain ⟨a1, a2, a3, a4⟩ := inSubG_ok hg (not_fixed_elim hvt) h1
      have e2 : ρ * d1.avail.length + ρ * (rest.headD S - off) = ρ * dr.avail.length := by
        rw [← Nat.mul_add, a2]
      have e3 : r * (rest.headD S - off) ≤ ρ * (rest.headD S - off) :=
        Nat.mul_le_mul_right _ (by omega)
      have hrest := containerDynG_any hρ S rest fs ts d1 (fun t' ht' => hv t' (by simp [ht'])) hss
      rw [a3] at hrest
      rw [cost_bind_zero _ _ (fun _ => rfl)]
      omega

theorem decContainerC_ok {r F ρ : Nat} (hρ : 96 + r ≤ ρ) {ts : List Ty} {fields : List DesC}
    (hw : Ty.wfAll ts = true) (hs : FieldsGood r F ts fields) {dr dr' : DR} {vs : List Val}
    (hr : (decContainerC fields dr).res = .ok (vs, dr')) :
    dr'.avail.length ≤ dr.avail.length ∧
      (decContainerC fields dr).cost + ρ * dr'.avail.length ≤ ρ * dr.avail.length := by
  unfold decContainerC at hr ⊢
  dsimp only at hr ⊢
  obtain ⟨⟨slots, offs, dyn, d1⟩, h1, hr, hc1⟩ := bind_ok_inv hr
  rw [hc1]
  dsimp only at hr ⊢
  obtain ⟨a1, a2, a3, a4⟩ := containerFixedG_ok hρ ts fields dr slots offs dyn d1 hw hs h1
  by_cases c1 : dyn.isEmpty = true ∨ offs.isEmpty = true
  · rw [if_pos c1] at hr ⊢
    cases hr
    rw [cost_pure]
    exact ⟨a1, by omega⟩
  rw [if_neg c1] at hr ⊢
  by_cases c2 : containerFixedLenC fields ≠ offs.headD 0
  · rw [if_pos c2] at hr; cases hr
  rw [if_neg c2] at hr ⊢
  obtain ⟨⟨dvs, d2⟩, h2, hr, hc2⟩ := bind_ok_inv hr
  rw [hc2]
  dsimp only at hr ⊢
  obtain ⟨b1, b2⟩ := containerDynG_ok hρ dr.scope offs dyn (varTys ts) d1 dvs d2 (varTys_var ts) a3 h2
  cases hr
  rw [cost_pure]
  exact ⟨by omega, by omega⟩

theorem decContainerC_any {r F ρ : Nat} (hρ : 96 + r ≤ ρ) {ts : List Ty} {fields : List DesC}
    (hw : Ty.wfAll ts = true) (hs : FieldsGood r F ts fields) (dr : DR) :
    (decContainerC fields dr).cost ≤ 96 + ρ * dr.avail.length + ρ * dr.scope + F := by
  unfold decContainerC
  dsimp only
  apply bind_le
  · exact containerFixedG_any hρ ts fields dr hw hs
  rintro ⟨slots, offs, dyn, d1⟩ h1
  obtain ⟨a1, a2, a3, a4⟩ := containerFixedG_ok hρ ts fields dr slots offs dyn d1 hw hs h1
  dsimp only
  split
  · rw [cost_pure]; omega
  split
  · rw [cost_fail]; omega
  have := containerDynG_any hρ dr.scope offs dyn (varTys ts) d1 (varTys_var ts) a3
  have e3 : ρ * d1.scope ≤ ρ * dr.scope := Nat.mul_le_mul_left ρ a2
  rw [cost_bind_zero _ _ (fun _ => rfl)]
  omega

/-! ### `Union` -/

/-- what the `selectFn` delivers: at most `Z` units; a destination is a `Good` decoder of a
    well-formed type reporting that type's fixed length -/
def SelGood (r F Z : Nat) (select : Nat → CR (Option DesC)) : Prop :=
  ∀ s, (select s).cost ≤ Z ∧ ∀ d, (select s).res = .ok (some d) →
    ∃ t : Ty, t.wf = true ∧ d.fixedLength = flatFixedLength t ∧ Good t r F d.run

theorem need_of_union_check {t : Ty} (hw : t.wf = true) {dr : DR}
    (hc : ¬ (flatFixedLength t ≠ 0 ∧ flatFixedLength t ≠ dr.scope)) : need t dr = dr.scope := by
  cases hf : t.isFixed with
  | false => exact need_var hf dr
  | true =>
    rw [need_fixed hf]
    have h1 := flatFixedLength_fixed hw hf
    have h2 := FlatProofs.fixedSize_pos hw hf
    by_cases hc' : flatFixedLength t = dr.scope
    · omega
    · exact absurd ⟨by omega, hc'⟩ hc

theorem decUnionC_ok {r F Z : Nat} {select : Nat → CR (Option DesC)} (hsel : SelGood r F Z select)
    {dr dr' : DR} {p : Nat × Option Val} (hr : (decUnionC select dr).res = .ok (p, dr')) :
    1 ≤ dr.scope ∧ (decUnionC select dr).cost ≤ Z + r * (dr.scope - 1) := by
  unfold decUnionC at hr ⊢
  obtain ⟨⟨sb, d1⟩, h1, hr, hc1⟩ := bind_ok_inv hr
  rw [hc1, cost_lift]
  dsimp only at hr ⊢
  rw [res_lift] at h1
  obtain ⟨s1, v1, _⟩ := read_ok' h1
  obtain ⟨dest, h2, hr, hc2⟩ := bind_ok_inv hr
  rw [hc2]
  obtain ⟨hZ, hd⟩ := hsel (sb.headD 0).toNat
  refine ⟨by omega, ?_⟩
  cases dest with
  | none =>
    dsimp only
    split
    · rw [cost_fail]; omega
    split
    · rw [cost_fail]; omega
    · rw [cost_pure]; omega
  | some d =>
    obtain ⟨t, hw, hfl, hg⟩ := hd d h2
    dsimp only at hr ⊢
    by_cases c1 : d.fixedLength ≠ 0 ∧ d.fixedLength ≠ d1.scope
    · rw [if_pos c1] at hr; cases hr
    rw [if_neg c1] at hr ⊢
    obtain ⟨⟨v, d2⟩, h3, hr, hc3⟩ := bind_ok_inv hr
    rw [hc3]
    dsimp only
    rw [cost_pure]
    have hk := hg.ok _ _ _ h3
    rw [hfl] at c1
    rw [need_of_union_check hw c1] at hk
    have : d1.scope = dr.scope - 1 := by omega
    rw [this] at hk
    omega

theorem decUnionC_any {r F Z : Nat} {select : Nat → CR (Option DesC)} (hsel : SelGood r F Z select)
    (dr : DR) :
    (decUnionC select dr).cost ≤ (Z + r) * dr.avail.length + (Z + r) * dr.scope + F := by
  unfold decUnionC
  rw [Nat.add_mul, Nat.add_mul]
  apply bind_le
  · rw [cost_lift]; omega
  rintro ⟨sb, d1⟩ h1
  rw [cost_lift]
  dsimp only
  rw [res_lift] at h1
  obtain ⟨s1, v1, _⟩ := read_ok' h1
  obtain ⟨hZ, hd⟩ := hsel (sb.headD 0).toNat
  have hZs : Z ≤ Z * dr.scope := Nat.le_mul_of_pos_right Z (by omega)
  apply acc_bind_le
  · omega
  intro dest h2
  cases dest with
  | none =>
    dsimp only
    split
    · rw [cost_fail]; omega
    split
    · rw [cost_fail]; omega
    · rw [cost_pure]; omega
  | some d =>
    obtain ⟨t, hw, hfl, hg⟩ := hd d h2
    dsimp only
    split
    · rw [cost_fail]; omega
    have hA := hg.any d1
    have e2 : r * d1.avail.length ≤ r * dr.avail.length := Nat.mul_le_mul_left r (by omega)
    have e3 : r * d1.scope ≤ r * dr.scope := Nat.mul_le_mul_left r (by omega)
    rw [cost_bind_zero _ _ (fun _ => rfl)]
    omega

end ZtypV.FlatCostProofs
