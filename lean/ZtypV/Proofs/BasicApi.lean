/-
Helper lemmas for Props/C09b.lean: the basic value API (Model/BasicApi.lean) against
Spec.lean and against the abstractions the other models use for the same Go code
(`View.construct / viewVal / decode` leaf cases, `basicIntoChunk`, `basicFromChunk`,
`bitIntoChunk`, `bitFromChunk`, `bytesIntoNodes`, `Flat.decUint / decBool / decRoot`).
-/
import ZtypV.Model.BasicApi
import ZtypV.Model.Machine
import ZtypV.Model.Flat
import ZtypV.Proofs.SerLemmas
import ZtypV.Proofs.DecodeBasic
import ZtypV.Proofs.DecodeLeaf
import ZtypV.Proofs.RepMutBytes
namespace ZtypV.BasicApi
open ZtypV ZtypV.View ZtypV.RepMut ZtypV.DecodeProofs

/-! ### little-endian words -/

theorem leBytes_mod (k n : Nat) : leBytes k (n % 256 ^ k) = leBytes k n := by
  induction k generalizing n with
  | zero => rfl
  | succ k ih =>
    simp only [leBytes]
    have h1 : n % 256 ^ (k + 1) % 256 = n % 256 := by
      rw [Nat.pow_succ, Nat.mul_comm]; exact Nat.mod_mul_right_mod n 256 (256 ^ k)
    have h2 : n % 256 ^ (k + 1) / 256 = (n / 256) % 256 ^ k := by
      rw [Nat.pow_succ, Nat.mul_comm, Nat.mod_mul_right_div_self]
    rw [h1, h2, ih]

theorem leBytes_add (a b n : Nat) : leBytes (a + b) n = leBytes a n ++ leBytes b (n / 256 ^ a) := by
  induction a generalizing n with
  | zero => simp [leBytes]
  | succ a ih =>
    rw [show a + 1 + b = (a + b) + 1 by omega]
    simp only [leBytes, List.cons_append, ih]
    rw [Nat.div_div_eq_div_mul, Nat.pow_succ, Nat.mul_comm]

theorem leNat_append (x y : Bytes) : leNat (x ++ y) = leNat x + 256 ^ x.length * leNat y := by
  induction x with
  | nil => simp [leNat]
  | cons b bs ih =>
    simp only [List.cons_append, leNat, ih, List.length_cons, Nat.pow_succ]
    rw [Nat.mul_add, Nat.add_assoc, ← Nat.mul_assoc, Nat.mul_comm 256 (256 ^ bs.length)]

theorem u8_ofNat_mod (v : UInt8) : UInt8.ofNat (v.toNat % 256) = v := by
  have := v.toNat_lt
  rw [Nat.mod_eq_of_lt (by omega)]; simp

theorem leBytes_one (v : UInt8) : leBytes 1 v.toNat = [v] := by
  simp only [leBytes, u8_ofNat_mod]

theorem leNat_single (v : UInt8) : leNat [v] = v.toNat := by simp [leNat]

@[simp] theorem putUint16_length (v : UInt16) : (putUint16 v).length = 2 := by simp [putUint16]
@[simp] theorem putUint32_length (v : UInt32) : (putUint32 v).length = 4 := by simp [putUint32]
@[simp] theorem putUint64_length (v : UInt64) : (putUint64 v).length = 8 := by simp [putUint64]

theorem getUint16_put (v : UInt16) (rest : Bytes) : getUint16 (putUint16 v ++ rest) = v := by
  unfold getUint16
  rw [List.take_left' (putUint16_length v), putUint16, leNat_leBytes]
  have := v.toNat_lt
  rw [Nat.mod_eq_of_lt (by omega)]; simp

theorem getUint32_put (v : UInt32) (rest : Bytes) : getUint32 (putUint32 v ++ rest) = v := by
  unfold getUint32
  rw [List.take_left' (putUint32_length v), putUint32, leNat_leBytes]
  have := v.toNat_lt
  rw [Nat.mod_eq_of_lt (by omega)]; simp

theorem getUint64_put (v : UInt64) (rest : Bytes) : getUint64 (putUint64 v ++ rest) = v := by
  unfold getUint64
  rw [List.take_left' (putUint64_length v), putUint64, leNat_leBytes]
  have := v.toNat_lt
  rw [Nat.mod_eq_of_lt (by omega)]; simp

theorem getUint16_put' (v : UInt16) : getUint16 (putUint16 v) = v := by
  simpa using getUint16_put v []
theorem getUint32_put' (v : UInt32) : getUint32 (putUint32 v) = v := by
  simpa using getUint32_put v []
theorem getUint64_put' (v : UInt64) : getUint64 (putUint64 v) = v := by
  simpa using getUint64_put v []

/-- reading a word and writing it back reproduces the bytes -/
theorem putUint16_get (x : Bytes) (h : x.length = 2) : putUint16 (getUint16 x) = x := by
  unfold putUint16 getUint16
  rw [List.take_of_length_le (by omega), UInt16.toNat_ofNat']
  have := leBytes_mod 2 (leNat x)
  rw [show (256 : Nat) ^ 2 = 2 ^ 16 by decide] at this
  rw [this, ← h, leBytes_leNat]

theorem putUint32_get (x : Bytes) (h : x.length = 4) : putUint32 (getUint32 x) = x := by
  unfold putUint32 getUint32
  rw [List.take_of_length_le (by omega), UInt32.toNat_ofNat']
  have := leBytes_mod 4 (leNat x)
  rw [show (256 : Nat) ^ 4 = 2 ^ 32 by decide] at this
  rw [this, ← h, leBytes_leNat]

theorem putUint64_get (x : Bytes) (h : x.length = 8) : putUint64 (getUint64 x) = x := by
  unfold putUint64 getUint64
  rw [List.take_of_length_le (by omega), UInt64.toNat_ofNat']
  have := leBytes_mod 8 (leNat x)
  rw [show (256 : Nat) ^ 8 = 2 ^ 64 by decide] at this
  rw [this, ← h, leBytes_leNat]

/-- the value of a word read from bytes is their little-endian number -/
theorem getUint16_toNat (x : Bytes) (h : x.length = 2) : (getUint16 x).toNat = leNat x := by
  unfold getUint16
  rw [List.take_of_length_le (by omega), UInt16.toNat_ofNat']
  have := leNat_lt x
  rw [h] at this
  exact Nat.mod_eq_of_lt (by rw [show (2:Nat) ^ 16 = 256 ^ 2 by decide]; exact this)

theorem getUint32_toNat (x : Bytes) (h : x.length = 4) : (getUint32 x).toNat = leNat x := by
  unfold getUint32
  rw [List.take_of_length_le (by omega), UInt32.toNat_ofNat']
  have := leNat_lt x
  rw [h] at this
  exact Nat.mod_eq_of_lt (by rw [show (2:Nat) ^ 32 = 256 ^ 4 by decide]; exact this)

theorem getUint64_toNat (x : Bytes) (h : x.length = 8) : (getUint64 x).toNat = leNat x := by
  unfold getUint64
  rw [List.take_of_length_le (by omega), UInt64.toNat_ofNat']
  have := leNat_lt x
  rw [h] at this
  exact Nat.mod_eq_of_lt (by rw [show (2:Nat) ^ 64 = 256 ^ 8 by decide]; exact this)


/-! ### 256-bit values -/

theorem U256.toNat_lt (v : U256) : v.toNat < 256 ^ 32 := by
  unfold U256.toNat
  have h0 := v.l0.toNat_lt; have h1 := v.l1.toNat_lt
  have h2 := v.l2.toNat_lt; have h3 := v.l3.toNat_lt
  omega

theorem putUint64_mod (n : Nat) (l : UInt64) (h : n % 2 ^ 64 = l.toNat) : leBytes 8 n = putUint64 l := by
  unfold putUint64
  rw [← h, show (2 : Nat) ^ 64 = 256 ^ 8 by decide, leBytes_mod]

/-- `Bytes32()` is the 32-byte little-endian encoding of the number the limbs stand for -/
theorem U256.bytes32_eq (v : U256) : v.bytes32 = leBytes 32 v.toNat := by
  have h0 := v.l0.toNat_lt; have h1 := v.l1.toNat_lt
  have h2 := v.l2.toNat_lt; have h3 := v.l3.toNat_lt
  rw [show (32 : Nat) = 8 + (8 + (8 + 8)) by rfl, leBytes_add, leBytes_add, leBytes_add]
  rw [Nat.div_div_eq_div_mul, Nat.div_div_eq_div_mul]
  unfold U256.bytes32
  rw [putUint64_mod v.toNat v.l0 (by unfold U256.toNat; omega),
      putUint64_mod (v.toNat / 256 ^ 8) v.l1 (by unfold U256.toNat; omega),
      putUint64_mod (v.toNat / (256 ^ 8 * 256 ^ 8)) v.l2 (by unfold U256.toNat; omega),
      putUint64_mod (v.toNat / (256 ^ 8 * 256 ^ 8 * 256 ^ 8)) v.l3 (by unfold U256.toNat; omega)]
  simp only [List.append_assoc]

@[simp] theorem U256.bytes32_length (v : U256) : v.bytes32.length = 32 := by
  simp [U256.bytes32]

theorem U256.setBytes32_bytes32 (v : U256) (rest : Bytes) : U256.setBytes32 (v.bytes32 ++ rest) = v := by
  unfold U256.setBytes32 U256.bytes32
  have e0 : ((putUint64 v.l0 ++ putUint64 v.l1 ++ putUint64 v.l2 ++ putUint64 v.l3 ++ rest).drop 0).take 8
      = putUint64 v.l0 := by
    simp only [List.drop_zero, List.append_assoc]
    exact List.take_left' (putUint64_length _)
  have e1 : ((putUint64 v.l0 ++ putUint64 v.l1 ++ putUint64 v.l2 ++ putUint64 v.l3 ++ rest).drop 8).take 8
      = putUint64 v.l1 := by
    simp only [List.append_assoc]
    rw [List.drop_left' (putUint64_length _)]
    exact List.take_left' (putUint64_length _)
  have e2 : ((putUint64 v.l0 ++ putUint64 v.l1 ++ putUint64 v.l2 ++ putUint64 v.l3 ++ rest).drop 16).take 8
      = putUint64 v.l2 := by
    rw [show putUint64 v.l0 ++ putUint64 v.l1 ++ putUint64 v.l2 ++ putUint64 v.l3 ++ rest
        = (putUint64 v.l0 ++ putUint64 v.l1) ++ (putUint64 v.l2 ++ (putUint64 v.l3 ++ rest)) by
          simp only [List.append_assoc]]
    rw [List.drop_left' (by simp)]
    exact List.take_left' (putUint64_length _)
  have e3 : ((putUint64 v.l0 ++ putUint64 v.l1 ++ putUint64 v.l2 ++ putUint64 v.l3 ++ rest).drop 24).take 8
      = putUint64 v.l3 := by
    rw [show putUint64 v.l0 ++ putUint64 v.l1 ++ putUint64 v.l2 ++ putUint64 v.l3 ++ rest
        = (putUint64 v.l0 ++ putUint64 v.l1 ++ putUint64 v.l2) ++ (putUint64 v.l3 ++ rest) by
          simp only [List.append_assoc]]
    rw [List.drop_left' (by simp)]
    exact List.take_left' (putUint64_length _)
  rw [e0, e1, e2, e3, getUint64_put', getUint64_put', getUint64_put', getUint64_put']

theorem U256.setBytes32_bytes32' (v : U256) : U256.setBytes32 v.bytes32 = v := by
  simpa using U256.setBytes32_bytes32 v []

theorem drop_split8 (x : Bytes) (a : Nat) : x.drop a = (x.drop a).take 8 ++ x.drop (a + 8) := by
  have := (List.take_append_drop 8 (x.drop a)).symm
  rwa [List.drop_drop] at this

/-- `setBytes32` then `Bytes32` reproduces any 32 bytes -/
theorem U256.bytes32_setBytes32 (x : Bytes) (h : x.length = 32) : (U256.setBytes32 x).bytes32 = x := by
  unfold U256.setBytes32 U256.bytes32
  simp only
  rw [putUint64_get _ (by simp; omega), putUint64_get _ (by simp; omega),
      putUint64_get _ (by simp; omega), putUint64_get _ (by simp; omega)]
  have h32 : x.drop 32 = [] := List.drop_eq_nil_of_le (by omega)
  have e := drop_split8 x 0
  rw [drop_split8 x (0 + 8), drop_split8 x (0 + 8 + 8), drop_split8 x (0 + 8 + 8 + 8)] at e
  simp only [Nat.zero_add, Nat.reduceAdd, h32, List.append_nil, List.drop_zero] at e
  simp only [List.drop_zero, List.append_assoc]
  exact e.symm

theorem U256.toNat_setBytes32 (x : Bytes) (h : x.length = 32) : (U256.setBytes32 x).toNat = leNat x := by
  have hb := U256.bytes32_setBytes32 x h
  rw [U256.bytes32_eq] at hb
  have := congrArg leNat hb
  rw [leNat_leBytes, Nat.mod_eq_of_lt (U256.toNat_lt _)] at this
  exact this

theorem U256.toNat_ofNat (n : Nat) : (U256.ofNat n).toNat = n % 2 ^ 256 := by
  unfold U256.toNat U256.ofNat
  simp only [UInt64.toNat_ofNat']
  omega


/-! ### writing into a zeroed root -/

theorem z0_getD (q : Nat) : z0.getD q 0 = 0 := getD_replicate_self 32 q 0

@[simp] theorem z0_length : z0.length = 32 := by simp [z0]

theorem goCopy_z0 (bs : Bytes) : goCopy z0 bs = chunkOf bs := by
  apply ext_getD 0
  · simp [goCopy]; omega
  · intro q hq
    have hq' : q < 32 := by simp [goCopy] at hq; omega
    rw [chunkOf_getD _ _ hq']
    unfold goCopy
    rw [getD_append', getD_take', getD_drop', z0_getD]
    simp only [List.length_take, z0_length]
    by_cases h : q < bs.length
    · rw [if_pos (by omega), if_pos hq']
    · rw [if_neg (by omega), getD_ge _ _ _ (by omega)]

theorem putAt_z0 (bs : Bytes) (h : bs.length ≤ 32) : putAt z0 0 bs = chunkOf bs := by
  rw [← goCopy_z0]
  unfold putAt goCopy
  simp only [List.take_zero, List.nil_append, Nat.zero_add, z0_length]
  rw [List.take_of_length_le h]

theorem putAt_length (r : Root) (a : Nat) (bs : Bytes) (hr : r.length = 32) (h : a + bs.length ≤ 32) :
    (putAt r a bs).length = 32 := by
  simp [putAt, hr]; omega

theorem putAt_eq_splice (r : Root) (a : Nat) (bs : Bytes) : putAt r a bs = spliceRoot r a bs := rfl

/-- the written piece reads back -/
theorem putAt_read (r : Root) (a : Nat) (bs : Bytes) (hr : a ≤ r.length) :
    ((putAt r a bs).drop a).take bs.length = bs := by
  unfold putAt
  rw [List.append_assoc, List.drop_left' (by simp; omega)]
  exact List.take_left' rfl

/-- every piece that does not overlap the written one is unchanged -/
theorem putAt_read_other (r : Root) (a : Nat) (bs : Bytes) (c k : Nat) (hfit : a + bs.length ≤ r.length)
    (hdis : c + k ≤ a ∨ a + bs.length ≤ c) :
    ((putAt r a bs).drop c).take k = (r.drop c).take k := by
  have hu := upd_splice r a bs hfit
  apply ext_getD 0
  · simp [putAt]; omega
  · intro q hq
    rw [getD_take', getD_take', getD_drop', getD_drop']
    split
    · have := hu (c + q)
      unfold putAt
      rw [this, if_neg (by omega)]
    · rfl

theorem trueRoot_eq : trueRoot = chunkOf [1] := by decide
theorem z0_eq_chunk : z0 = chunkOf [0] := by decide


/-! ### values against the specification -/

theorem BasicV.hasType_val (v : BasicV) : hasType v.ty v.val = true := by
  cases v with
  | u8 x => have := x.toNat_lt; simp [BasicV.ty, BasicV.type, Meta.ty, BasicV.val, hasType]; omega
  | u16 x => have := x.toNat_lt; simp [BasicV.ty, BasicV.type, Meta.ty, BasicV.val, hasType]; omega
  | u32 x => have := x.toNat_lt; simp [BasicV.ty, BasicV.type, Meta.ty, BasicV.val, hasType]; omega
  | u64 x => have := x.toNat_lt; simp [BasicV.ty, BasicV.type, Meta.ty, BasicV.val, hasType]; omega
  | u256 x => have := U256.toNat_lt x; simp [BasicV.ty, BasicV.type, Meta.ty, BasicV.val, hasType]; omega
  | bool x => simp [BasicV.ty, BasicV.type, Meta.ty, BasicV.val, hasType]

theorem BasicV.encode_eq (v : BasicV) : v.encode = serialize v.ty v.val := by
  cases v with
  | u8 x => simp [BasicV.ty, BasicV.type, Meta.ty, BasicV.val, serialize, BasicV.encode, leBytes_one]
  | u16 x => simp [BasicV.ty, BasicV.type, Meta.ty, BasicV.val, serialize, BasicV.encode, putUint16]
  | u32 x => simp [BasicV.ty, BasicV.type, Meta.ty, BasicV.val, serialize, BasicV.encode, putUint32]
  | u64 x => simp [BasicV.ty, BasicV.type, Meta.ty, BasicV.val, serialize, BasicV.encode, putUint64]
  | u256 x => simp [BasicV.ty, BasicV.type, Meta.ty, BasicV.val, serialize, BasicV.encode, U256.bytes32_eq]
  | bool x => cases x <;> simp [BasicV.ty, BasicV.type, Meta.ty, BasicV.val, serialize, BasicV.encode, boolByte]

theorem BasicV.serializeW_eq (v : BasicV) : v.serializeW = v.encode := by cases v <;> rfl

theorem BasicV.encode_length (v : BasicV) : v.encode.length = v.byteLength := by
  cases v <;> simp [BasicV.encode, BasicV.byteLength]

theorem BasicV.fixedLength_eq (v : BasicV) : v.fixedLength = v.byteLength := by cases v <;> rfl
theorem BasicV.valueByteLength_eq (v : BasicV) : v.valueByteLength = .ok v.byteLength := by cases v <;> rfl
theorem BasicV.typeByteLength_eq (v : BasicV) : v.type.typeByteLength = v.byteLength := by cases v <;> rfl
theorem BasicV.fixedSize_eq (v : BasicV) : v.ty.fixedSize = v.byteLength := by cases v <;> rfl

theorem BasicV.byteLength_le (v : BasicV) : v.byteLength ≤ 32 := by cases v <;> simp [BasicV.byteLength]

theorem BasicV.hashTreeRoot_eq_chunk (v : BasicV) : v.hashTreeRoot = chunkOf v.encode := by
  cases v with
  | u8 x => exact putAt_z0 _ (by simp)
  | u16 x => exact putAt_z0 _ (by simp)
  | u32 x => exact putAt_z0 _ (by simp)
  | u64 x => exact putAt_z0 _ (by simp)
  | u256 x =>
    simp only [BasicV.hashTreeRoot, BasicV.encode]
    rw [chunkOf_of_ge _ (by simp), List.take_of_length_le (by simp)]
  | bool x => exact putAt_z0 _ (by simp)

theorem BasicV.backing_eq (v : BasicV) : v.backing = .leaf v.hashTreeRoot := by
  cases v with
  | bool x => cases x <;> simp [BasicV.backing, BasicV.hashTreeRoot] <;> decide
  | _ => rfl

theorem htr_basic (h : HashFn) (v : BasicV) : htr h v.ty v.val = chunkOf (serialize v.ty v.val) := by
  cases v with
  | bool x => simp [BasicV.ty, BasicV.type, Meta.ty, BasicV.val, htr, serialize]
  | _ => simp [BasicV.ty, BasicV.type, Meta.ty, BasicV.val, htr, serialize]


/-! ### `uint8` sub-index arithmetic -/

theorem u8_ge_iff (i : UInt8) (n : Nat) (hn : n < 256) : (i ≥ UInt8.ofNat n) ↔ n ≤ i.toNat := by
  rw [ge_iff_le, UInt8.le_iff_toNat_le, UInt8.toNat_ofNat', Nat.mod_eq_of_lt (by omega)]

theorem u8_shl1 (i : UInt8) (h : i.toNat < 16) :
    (i <<< 1).toNat = 2 * i.toNat ∧ ((i <<< 1) + 2).toNat = 2 * i.toNat + 2 := by
  have h1 : (i <<< 1).toNat = 2 * i.toNat := by
    simp [UInt8.toNat_shiftLeft, Nat.shiftLeft_eq]; omega
  refine ⟨h1, ?_⟩
  rw [UInt8.toNat_add, h1]; simp; omega

theorem u8_mulr (i : UInt8) (c : Nat) (hc : c = 4 ∨ c = 8) (h : c * i.toNat + c ≤ 32) :
    (i * UInt8.ofNat c).toNat = c * i.toNat ∧ (i * UInt8.ofNat c + UInt8.ofNat c).toNat = c * i.toNat + c := by
  have h1 : (i * UInt8.ofNat c).toNat = c * i.toNat := by
    rw [UInt8.toNat_mul, UInt8.toNat_ofNat']
    rcases hc with rfl | rfl <;> omega
  refine ⟨h1, ?_⟩
  rw [UInt8.toNat_add, h1, UInt8.toNat_ofNat']
  rcases hc with rfl | rfl <;> omega

theorem u8_mull (i : UInt8) (c : Nat) (hc : c = 2 ∨ c = 4 ∨ c = 8) (h : c * i.toNat + c ≤ 32) :
    (UInt8.ofNat c * i).toNat = c * i.toNat ∧ (UInt8.ofNat c * i + UInt8.ofNat c).toNat = c * i.toNat + c := by
  have h1 : (UInt8.ofNat c * i).toNat = c * i.toNat := by
    rw [UInt8.toNat_mul, UInt8.toNat_ofNat']
    rcases hc with rfl | rfl | rfl <;> omega
  refine ⟨h1, ?_⟩
  rw [UInt8.toNat_add, h1, UInt8.toNat_ofNat']
  rcases hc with rfl | rfl | rfl <;> omega

theorem u8_shr3 (i : UInt8) : (i >>> 3).toNat = i.toNat / 8 ∧ (i &&& 7).toNat = i.toNat % 8 := by
  constructor
  · simp [UInt8.toNat_shiftRight, Nat.shiftRight_eq_div_pow]
  · rw [UInt8.toNat_and]
    exact Nat.and_two_pow_sub_one_eq_mod i.toNat 3

theorem u8_mask (i : UInt8) : (1 : UInt8) <<< (i &&& 7) = UInt8.ofNat (2 ^ (i.toNat % 8)) := by
  apply UInt8.toNat_inj.mp
  rw [UInt8.toNat_shiftLeft, (u8_shr3 i).2, UInt8.toNat_ofNat']
  simp [Nat.shiftLeft_eq]

/-! ### a basic value from its bytes -/

/-- the uint value of `td` bytes (what `BasicViewFromBacking / Decode / Deserialize` build) -/
def BasicV.ofBytes (td : Nat) (x : Bytes) : BasicV :=
  match td with
  | 1 => .u8 (x.getD 0 0)
  | 2 => .u16 (getUint16 x)
  | 4 => .u32 (getUint32 x)
  | 8 => .u64 (getUint64 x)
  | _ => .u256 (U256.setBytes32 x)

def uintSize (td : Nat) : Prop := td = 1 ∨ td = 2 ∨ td = 4 ∨ td = 8 ∨ td = 32

theorem single_of_length_one (x : Bytes) (h : x.length = 1) : x = [x.getD 0 0] := by
  match x, h with
  | [a], _ => rfl

theorem BasicV.ofBytes_type (td : Nat) (h : uintSize td) (x : Bytes) : (BasicV.ofBytes td x).type = .uint td := by
  rcases h with rfl | rfl | rfl | rfl | rfl <;> rfl

theorem BasicV.ofBytes_encode (td : Nat) (h : uintSize td) (x : Bytes) (hx : x.length = td) :
    (BasicV.ofBytes td x).encode = x := by
  rcases h with rfl | rfl | rfl | rfl | rfl
  · exact (single_of_length_one x hx).symm
  · exact putUint16_get x hx
  · exact putUint32_get x hx
  · exact putUint64_get x hx
  · exact U256.bytes32_setBytes32 x hx

theorem BasicV.ofBytes_of_encode (v : BasicV) (td : Nat) (h : v.type = .uint td) (rest : Bytes) :
    BasicV.ofBytes td (v.encode ++ rest) = v := by
  cases v with
  | u8 x => cases h; rfl
  | u16 x => cases h; exact congrArg BasicV.u16 (getUint16_put x rest)
  | u32 x => cases h; exact congrArg BasicV.u32 (getUint32_put x rest)
  | u64 x => cases h; exact congrArg BasicV.u64 (getUint64_put x rest)
  | u256 x => cases h; exact congrArg BasicV.u256 (U256.setBytes32_bytes32 x rest)
  | bool x => cases h

theorem BasicV.ofBytes_val (td : Nat) (h : uintSize td) (x : Bytes) (hx : x.length = td) :
    (BasicV.ofBytes td x).val = .num (leNat x) := by
  rcases h with rfl | rfl | rfl | rfl | rfl
  · rw [single_of_length_one x hx]; simp [BasicV.ofBytes, BasicV.val, leNat]
  · exact congrArg Val.num (getUint16_toNat x hx)
  · exact congrArg Val.num (getUint32_toNat x hx)
  · exact congrArg Val.num (getUint64_toNat x hx)
  · exact congrArg Val.num (U256.toNat_setBytes32 x hx)

theorem BasicV.byteLength_of_type (v : BasicV) (td : Nat) (h : v.type = .uint td) : v.byteLength = td ∧ uintSize td := by
  cases v <;> cases h <;> simp [BasicV.byteLength, uintSize]

/-! ### `Decode` -/

theorem BasicV.decode_uint (dst : BasicV) (td : Nat) (h : dst.type = .uint td) (x : Bytes) :
    dst.decode x = if x.length ≠ td then .error .other else .ok (BasicV.ofBytes td x) := by
  cases dst <;> cases h <;> rfl

theorem BasicV.decode_bool (b : Bool) (x : Bytes) :
    (BasicV.bool b).decode x =
      if x.length ≠ 1 then .error .other
      else if x.getD 0 0 > 1 then .error .other else .ok (.bool (x.getD 0 0 > 0)) := rfl

/-- `Decode(Encode(v))` gives `v` back, whatever the destination of the same type held -/
theorem BasicV.decode_encode (dst v : BasicV) (ht : dst.type = v.type) : dst.decode v.encode = .ok v := by
  cases v with
  | bool b =>
    cases dst <;> cases ht
    cases b <;> simp [BasicV.decode_bool, BasicV.encode, boolByte]
  | _ =>
    all_goals
      rw [BasicV.decode_uint dst _ ht, if_neg (by simp [BasicV.encode])]
      exact congrArg _ (by simpa using BasicV.ofBytes_of_encode _ _ rfl [])

/-- a wrong length is refused -/
theorem BasicV.decode_wrong_length (dst : BasicV) (x : Bytes) (h : x.length ≠ dst.byteLength) :
    dst.decode x = .error .other := by
  cases dst <;> simp [BasicV.decode, BasicV.byteLength] at * <;> simp [h]

/-- whatever `Decode` accepts is the encoding of the value it stores (no second preimage) -/
theorem BasicV.decode_sound (dst v : BasicV) (x : Bytes) (h : dst.decode x = .ok v) :
    v.encode = x ∧ v.type = dst.type := by
  cases dst with
  | bool b =>
    rw [BasicV.decode_bool] at h
    split at h; · cases h
    split at h; · cases h
    rename_i h1 h2
    cases h
    have hx := single_of_length_one x (by omega)
    rcases byte_le_one _ h2 with h0 | h0
    · rw [hx, h0]; exact ⟨rfl, rfl⟩
    · rw [hx, h0]; exact ⟨rfl, rfl⟩
  | _ =>
    all_goals
      rw [BasicV.decode_uint _ _ rfl] at h
      split at h
      · cases h
      · rename_i h1
        cases h
        exact ⟨BasicV.ofBytes_encode _ (by simp [uintSize]) x (by omega), rfl⟩

theorem BasicV.decode_ne_panic (dst : BasicV) (x : Bytes) : dst.decode x ≠ .error .panic := by
  cases dst <;> simp only [BasicV.decode] <;> (repeat' split) <;> simp


/-! ### `BackingFromBase` -/

theorem rootPut_ok (r : Root) (a b : Nat) (bs : Bytes) (h : a + bs.length = b) (hb : b ≤ 32) :
    rootPut r a b bs = .ok (putAt r a bs) := by
  unfold rootPut
  rw [if_pos ⟨by omega, hb⟩, if_neg (by omega)]

theorem rootSetIdx_ok (r : Root) (i : Nat) (x : UInt8) (h : i < 32) : rootSetIdx r i x = .ok (putAt r i [x]) := by
  unfold rootSetIdx; rw [if_pos h]

theorem rootAt_ok (r : Root) (i : Nat) (h : i < 32) : rootAt r i = .ok (r.getD i 0) := by
  unfold rootAt; rw [if_pos h]

theorem rootSlice_ok (r : Root) (a b : Nat) (h : a ≤ b) (hb : b ≤ 32) :
    rootSlice r a b = .ok ((r.drop a).take (b - a)) := by
  unfold rootSlice; rw [if_pos ⟨h, hb⟩]

/-- complete description of `BackingFromBase`: no panic; nil exactly for a sub-index outside the
    chunk; otherwise the base with the value's encoding written at `size * i` -/
theorem BasicV.backingFromBase_eq (v : BasicV) (base : Root) (hb : base.length = 32) (i : UInt8) :
    v.backingFromBase base i =
      .ok (if i.toNat < 32 / v.byteLength then some (putAt base (v.byteLength * i.toNat) v.encode) else none) := by
  cases v with
  | u8 x =>
    simp only [BasicV.backingFromBase, BasicV.byteLength, BasicV.encode]
    have hg := u8_ge_iff i 32 (by omega)
    by_cases h : i.toNat < 32
    · rw [if_neg (by rw [show (32 : UInt8) = UInt8.ofNat 32 from rfl, hg]; omega), rootSetIdx_ok _ _ _ h]
      simp [h]
    · rw [if_pos (by rw [show (32 : UInt8) = UInt8.ofNat 32 from rfl, hg]; omega)]
      simp [h]
  | u16 x =>
    simp only [BasicV.backingFromBase, BasicV.byteLength, BasicV.encode]
    have hg := u8_ge_iff i 16 (by omega)
    by_cases h : i.toNat < 16
    · obtain ⟨e1, e2⟩ := u8_shl1 i h
      rw [if_neg (by rw [show (16 : UInt8) = UInt8.ofNat 16 from rfl, hg]; omega), e1, e2,
        rootPut_ok _ _ _ _ (by simp) (by omega)]
      simp [h]
    · rw [if_pos (by rw [show (16 : UInt8) = UInt8.ofNat 16 from rfl, hg]; omega)]
      simp [h]
  | u32 x =>
    simp only [BasicV.backingFromBase, BasicV.byteLength, BasicV.encode]
    have hg := u8_ge_iff i 8 (by omega)
    by_cases h : i.toNat < 8
    · obtain ⟨e1, e2⟩ := u8_mulr i 4 (by simp) (by omega)
      rw [if_neg (by rw [show (8 : UInt8) = UInt8.ofNat 8 from rfl, hg]; omega),
        show (4 : UInt8) = UInt8.ofNat 4 from rfl, e1, e2, rootPut_ok _ _ _ _ (by simp) (by omega)]
      simp [h]
    · rw [if_pos (by rw [show (8 : UInt8) = UInt8.ofNat 8 from rfl, hg]; omega)]
      simp [h]
  | u64 x =>
    simp only [BasicV.backingFromBase, BasicV.byteLength, BasicV.encode]
    have hg := u8_ge_iff i 4 (by omega)
    by_cases h : i.toNat < 4
    · obtain ⟨e1, e2⟩ := u8_mulr i 8 (by simp) (by omega)
      rw [if_neg (by rw [show (4 : UInt8) = UInt8.ofNat 4 from rfl, hg]; omega),
        show (8 : UInt8) = UInt8.ofNat 8 from rfl, e1, e2, rootPut_ok _ _ _ _ (by simp) (by omega)]
      simp [h]
    · rw [if_pos (by rw [show (4 : UInt8) = UInt8.ofNat 4 from rfl, hg]; omega)]
      simp [h]
  | u256 x =>
    simp only [BasicV.backingFromBase, BasicV.byteLength, BasicV.encode]
    by_cases h : i = 0
    · subst h
      have : putAt base 0 x.bytes32 = x.bytes32 := by
        simp [putAt, List.drop_eq_nil_of_le (by omega : base.length ≤ 32)]
      simp [this]
    · have : ¬ i.toNat < 1 := by
        intro hh
        exact h (UInt8.toNat_inj.mp (by simp; omega))
      simp [h]; omega
  | bool x =>
    simp only [BasicV.backingFromBase, BasicV.byteLength, BasicV.encode]
    have hg := u8_ge_iff i 32 (by omega)
    by_cases h : i.toNat < 32
    · rw [if_neg (by rw [show (32 : UInt8) = UInt8.ofNat 32 from rfl, hg]; omega), rootSetIdx_ok _ _ _ h]
      cases x <;> simp [h, boolByte]
    · rw [if_pos (by rw [show (32 : UInt8) = UInt8.ofNat 32 from rfl, hg]; omega)]
      simp [h]


/-! ### `BasicViewFromBacking`, `SubViewFromBacking` -/

/-- complete description of `UintMeta.BasicViewFromBacking` for the supported sizes: no panic;
    an error exactly for a sub-index outside the chunk; otherwise the value of the `td` bytes
    at `td * i` -/
theorem basicViewFromBacking_eq (td : Nat) (htd : uintSize td) (r : Root) (i : UInt8) :
    Meta.basicViewFromBacking td r i =
      if i.toNat < 32 / td then .ok (BasicV.ofBytes td ((r.drop (td * i.toNat)).take td))
      else .error .other := by
  unfold Meta.basicViewFromBacking
  rcases htd with rfl | rfl | rfl | rfl | rfl
  · by_cases h : i.toNat < 32
    · simp only [show ¬ (1 = 0) by omega, if_false, show ¬ (i.toNat ≥ 32 / 1) by omega, if_pos (show i.toNat < 32 / 1 by omega)]
      rw [rootAt_ok _ _ h]
      simp only [R.bind_ok, BasicV.ofBytes, Nat.one_mul]
      congr 2
      simp
    · simp only [show ¬ (1 = 0) by omega, if_false, if_pos (show i.toNat ≥ 32 / 1 by omega), if_neg (show ¬ i.toNat < 32 / 1 by omega)]
  · by_cases h : i.toNat < 16
    · obtain ⟨e1, e2⟩ := u8_mull i 2 (by simp) (by omega)
      simp only [show ¬ (2 = 0) by omega, if_false, show ¬ (i.toNat ≥ 32 / 2) by omega, if_pos (show i.toNat < 32 / 2 by omega)]
      rw [show (2 : UInt8) = UInt8.ofNat 2 from rfl, e1, e2, rootSlice_ok _ _ _ (by omega) (by omega)]
      simp only [R.bind_ok, BasicV.ofBytes, Nat.add_sub_cancel_left]
    · simp only [show ¬ (2 = 0) by omega, if_false, if_pos (show i.toNat ≥ 32 / 2 by omega), if_neg (show ¬ i.toNat < 32 / 2 by omega)]
  · by_cases h : i.toNat < 8
    · obtain ⟨e1, e2⟩ := u8_mull i 4 (by simp) (by omega)
      simp only [show ¬ (4 = 0) by omega, if_false, show ¬ (i.toNat ≥ 32 / 4) by omega, if_pos (show i.toNat < 32 / 4 by omega)]
      rw [show (4 : UInt8) = UInt8.ofNat 4 from rfl, e1, e2, rootSlice_ok _ _ _ (by omega) (by omega)]
      simp only [R.bind_ok, BasicV.ofBytes, Nat.add_sub_cancel_left]
    · simp only [show ¬ (4 = 0) by omega, if_false, if_pos (show i.toNat ≥ 32 / 4 by omega), if_neg (show ¬ i.toNat < 32 / 4 by omega)]
  · by_cases h : i.toNat < 4
    · obtain ⟨e1, e2⟩ := u8_mull i 8 (by simp) (by omega)
      simp only [show ¬ (8 = 0) by omega, if_false, show ¬ (i.toNat ≥ 32 / 8) by omega, if_pos (show i.toNat < 32 / 8 by omega)]
      rw [show (8 : UInt8) = UInt8.ofNat 8 from rfl, e1, e2, rootSlice_ok _ _ _ (by omega) (by omega)]
      simp only [R.bind_ok, BasicV.ofBytes, Nat.add_sub_cancel_left]
    · simp only [show ¬ (8 = 0) by omega, if_false, if_pos (show i.toNat ≥ 32 / 8 by omega), if_neg (show ¬ i.toNat < 32 / 8 by omega)]
  · by_cases h : i.toNat < 1
    · have h0 : i.toNat = 0 := by omega
      simp only [show ¬ (32 = 0) by omega, if_false, show ¬ (i.toNat ≥ 32 / 32) by omega, if_pos (show i.toNat < 32 / 32 by omega)]
      simp only [BasicV.ofBytes, h0, Nat.mul_zero, List.drop_zero]
      congr 2
      unfold U256.setBytes32
      simp only [List.drop_zero, List.take_drop, List.take_take]
      rfl
    · simp only [show ¬ (32 = 0) by omega, if_false, if_pos (show i.toNat ≥ 32 / 32 by omega), if_neg (show ¬ i.toNat < 32 / 32 by omega)]

theorem subViewFromBacking_eq (r : Root) (i : UInt8) :
    Meta.subViewFromBacking r i =
      .ok (if i.toNat < 32 then
             (if r.getD i.toNat 0 > 1 then none else some (.bool (r.getD i.toNat 0 == 1)))
           else none) := by
  unfold Meta.subViewFromBacking
  have hg := u8_ge_iff i 32 (by omega)
  by_cases h : i.toNat < 32
  · rw [if_neg (by rw [show (32 : UInt8) = UInt8.ofNat 32 from rfl, hg]; omega), rootAt_ok _ _ h, if_pos h]
    simp only [R.bind_ok]
    split <;> rfl
  · rw [if_pos (by rw [show (32 : UInt8) = UInt8.ofNat 32 from rfl, hg]; omega), if_neg h]

/-! ### bit fields: the link to `bitIntoChunk` / `bitFromChunk` (Model/Machine.lean, Model/View.lean) -/

theorem backingFromBitfieldBase_eq (v : Bool) (base : Root) (i : UInt8) :
    BasicV.backingFromBitfieldBase v base i = .ok (bitIntoChunk base i.toNat v) := by
  unfold BasicV.backingFromBitfieldBase bitIntoChunk
  obtain ⟨e1, _⟩ := u8_shr3 i
  have hi := i.toNat_lt
  have h32 : i.toNat / 8 < 32 := by omega
  rw [e1, rootAt_ok _ _ h32]
  simp only [R.bind_ok]
  rw [rootSetIdx_ok _ _ _ h32, u8_mask, Nat.mod_eq_of_lt (by omega : i.toNat < 256)]
  rfl

theorem boolViewFromBitfieldBacking_eq (r : Root) (i : UInt8) :
    Meta.boolViewFromBitfieldBacking r i = .ok (bitFromChunk r i.toNat) := by
  unfold Meta.boolViewFromBitfieldBacking bitFromChunk
  obtain ⟨e1, e2⟩ := u8_shr3 i
  have hi := i.toNat_lt
  have h32 : i.toNat / 8 < 32 := by omega
  rw [e1, rootAt_ok _ _ h32]
  simp only [R.bind_ok, Nat.mod_eq_of_lt (by omega : i.toNat < 256)]
  congr 1
  have hb : ((r.getD (i.toNat / 8) 0 >>> (i &&& 7)) &&& 1).toNat
      = (r.getD (i.toNat / 8) 0).toNat / 2 ^ (i.toNat % 8) % 2 := by
    rw [UInt8.toNat_and, UInt8.toNat_shiftRight, e2, Nat.mod_mod_of_dvd _ (by decide : 8 ∣ 8),
      Nat.shiftRight_eq_div_pow]
    exact Nat.and_two_pow_sub_one_eq_mod _ 1
  rw [← hb]
  generalize (r.getD (i.toNat / 8) 0 >>> (i &&& 7)) &&& 1 = w
  by_cases hw : w = 1
  · subst hw; rfl
  · have : ¬ w.toNat = 1 := fun h => hw (UInt8.toNat_inj.mp (by simpa using h))
    rw [beq_eq_false_iff_ne.mpr hw, beq_eq_false_iff_ne.mpr this]


/-! ### all views: lengths, roots, `ViewFromBacking` -/

theorem BV.hasType_val (v : BV) (hw : v.wf) : hasType v.ty v.val = true := by
  cases v with
  | basic b => exact BasicV.hasType_val b
  | root r => simp only [BV.wf] at hw; simp [BV.ty, BV.type, Meta.ty, BV.val, hasType, hw]
  | small bs => simp [BV.ty, BV.type, Meta.ty, BV.val, hasType]

/-- `hasType` for a root view is its Go type invariant `len = 32` -/
theorem BV.hasType_root (r : Root) : hasType (.bytesN 32) (.bytes r) = true ↔ (BV.root r).wf := by
  simp [hasType, BV.wf]

theorem BV.serializeW_eq (v : BV) : v.serializeW = serialize v.ty v.val := by
  cases v with
  | basic b => exact (BasicV.serializeW_eq b).trans (BasicV.encode_eq b)
  | root r => simp [BV.ty, BV.type, Meta.ty, BV.val, serialize, BV.serializeW]
  | small bs => simp [BV.ty, BV.type, Meta.ty, BV.val, serialize, BV.serializeW]

theorem BV.valueByteLength_eq (v : BV) (hw : v.wf) : v.valueByteLength = .ok (serialize v.ty v.val).length := by
  cases v with
  | basic b =>
    simp only [BV.valueByteLength, BasicV.valueByteLength_eq]
    rw [← BasicV.encode_length, BasicV.encode_eq]; rfl
  | root r =>
    simp only [BV.wf] at hw
    simp [BV.ty, BV.type, Meta.ty, BV.val, serialize, BV.valueByteLength, hw]
  | small bs => simp [BV.ty, BV.type, Meta.ty, BV.val, serialize, BV.valueByteLength]

theorem BV.typeByteLength_eq (v : BV) (hw : v.wf) :
    v.type.typeByteLength = (serialize v.ty v.val).length ∧ v.type.minByteLength = (serialize v.ty v.val).length ∧
    v.type.maxByteLength = (serialize v.ty v.val).length ∧ v.type.isFixedByteLength = true := by
  cases v with
  | basic b =>
    have := BasicV.typeByteLength_eq b
    have e : (serialize (BV.basic b).ty (BV.basic b).val).length = b.byteLength := by
      rw [← BasicV.encode_length, BasicV.encode_eq]; rfl
    rw [e]
    cases b <;> exact ⟨rfl, rfl, rfl, rfl⟩
  | root r =>
    simp only [BV.wf] at hw
    simp [BV.ty, BV.type, Meta.ty, BV.val, serialize, Meta.typeByteLength, Meta.minByteLength, Meta.maxByteLength,
      Meta.isFixedByteLength, hw]
  | small bs =>
    simp [BV.ty, BV.type, Meta.ty, BV.val, serialize, Meta.typeByteLength, Meta.minByteLength, Meta.maxByteLength,
      Meta.isFixedByteLength]

theorem chunkOf_32 (r : Root) (h : r.length = 32) : chunkOf r = r := by
  rw [chunkOf_of_ge r (by omega), List.take_of_length_le (by omega)]

theorem BV.hashTreeRoot_eq_chunk (v : BV) (hw : v.wf) : v.hashTreeRoot = chunkOf (serialize v.ty v.val) := by
  cases v with
  | basic b =>
    show b.hashTreeRoot = chunkOf (serialize b.ty b.val)
    rw [← BasicV.encode_eq]; exact BasicV.hashTreeRoot_eq_chunk b
  | root r =>
    simp only [BV.wf] at hw
    simp [BV.ty, BV.type, Meta.ty, BV.val, serialize, BV.hashTreeRoot, chunkOf_32 r hw]
  | small bs => simp [BV.ty, BV.type, Meta.ty, BV.val, serialize, BV.hashTreeRoot, goCopy_z0]

theorem BV.backing_eq (v : BV) : v.backing = .leaf v.hashTreeRoot := by
  cases v with
  | basic b => exact BasicV.backing_eq b
  | root r => rfl
  | small bs => rfl

/-- the spec's `hash_tree_root` of a byte vector of at most 32 bytes is its padded chunk -/
theorem htr_bytesN (h : HashFn) (bs : Bytes) (hl : bs.length ≤ 32) :
    htr h (.bytesN bs.length) (.bytes bs) = chunkOf bs := by
  simp only [htr]
  by_cases h0 : bs.length = 0
  · have : bs = [] := List.eq_nil_of_length_eq_zero h0
    subst this
    show merk h (coverDepth ((0 + 31) / 32)) (chunks []) = chunkOf []
    rw [chunks_nil, merk_nil]
    rfl
  · have hc : (bs.length + 31) / 32 = 1 := by omega
    rw [hc, chunks_cons bs (by omega), List.drop_eq_nil_of_le (by omega), chunks_nil]
    rfl

theorem htr_any (h : HashFn) (v : BV) (hw : v.wf) : htr h v.ty v.val = chunkOf (serialize v.ty v.val) := by
  cases v with
  | basic b => exact htr_basic h b
  | root r =>
    simp only [BV.wf] at hw
    have := htr_bytesN h r (by omega)
    rw [hw] at this
    simpa [BV.ty, BV.type, Meta.ty, BV.val, serialize] using this
  | small bs =>
    simp only [BV.wf] at hw
    simpa [BV.ty, BV.type, Meta.ty, BV.val, serialize] using htr_bytesN h bs hw

/-- `ViewFromBacking(Backing(v)) = v` -/
theorem viewFromBacking_backing (v : BV) (hw : v.wf) : Meta.viewFromBacking v.type v.backing = .ok v := by
  cases v with
  | basic b =>
    cases b with
    | u8 x => simp [BV.type, BasicV.type, BV.backing, BasicV.backing, Meta.viewFromBacking, putAt]
    | u16 x =>
      simp only [BV.type, BasicV.type, BV.backing, BasicV.backing, Meta.viewFromBacking]
      rw [show (putAt z0 0 (putUint16 x)).take 2 = putUint16 x by simp [putAt], getUint16_put']
    | u32 x =>
      simp only [BV.type, BasicV.type, BV.backing, BasicV.backing, Meta.viewFromBacking]
      rw [show (putAt z0 0 (putUint32 x)).take 4 = putUint32 x by simp [putAt], getUint32_put']
    | u64 x =>
      simp only [BV.type, BasicV.type, BV.backing, BasicV.backing, Meta.viewFromBacking]
      rw [show (putAt z0 0 (putUint64 x)).take 8 = putUint64 x by simp [putAt], getUint64_put']
    | u256 x =>
      simp only [BV.type, BasicV.type, BV.backing, BasicV.backing, Meta.viewFromBacking]
      rw [U256.setBytes32_bytes32']
    | bool x => cases x <;> simp [BV.type, BasicV.type, BV.backing, BasicV.backing, Meta.viewFromBacking, trueRoot, z0]
  | root r => rfl
  | small bs =>
    simp only [BV.wf] at hw
    simp only [BV.type, BV.backing, Meta.viewFromBacking, if_neg (by omega : ¬ bs.length > 32)]
    congr 2
    rw [goCopy_z0]
    unfold goCopy
    simp only [List.length_replicate, chunkOf_length]
    rw [chunkOf_take_self bs hw, List.drop_eq_nil_of_le (by simp; omega), List.append_nil]

/-- `ViewFromBacking` reads exactly what the typed getters of Model/View.lean read (`viewVal`) -/
theorem viewFromBacking_viewVal (m : Meta) (hm : match m with | .uint td => uintSize td | .small td => td ≤ 32 | _ => True)
    (r : Root) (hr : r.length = 32) :
    (Meta.viewFromBacking m (.leaf r)).map BV.val = viewVal m.ty (.leaf r) := by
  cases m with
  | uint td =>
    rcases hm with rfl | rfl | rfl | rfl | rfl
    · simp only [Meta.viewFromBacking, Meta.ty, viewVal, asLeaf, Except.map, BV.val, BasicV.val, R.bind_ok]
      have : r.take 1 = [r.getD 0 0] := single_of_length_one _ (by simp; omega) |>.trans (by simp)
      rw [this]; simp [leNat]
    · simp only [Meta.viewFromBacking, Meta.ty, viewVal, asLeaf, Except.map, BV.val, BasicV.val, R.bind_ok]
      rw [getUint16_toNat _ (by simp; omega)]
    · simp only [Meta.viewFromBacking, Meta.ty, viewVal, asLeaf, Except.map, BV.val, BasicV.val, R.bind_ok]
      rw [getUint32_toNat _ (by simp; omega)]
    · simp only [Meta.viewFromBacking, Meta.ty, viewVal, asLeaf, Except.map, BV.val, BasicV.val, R.bind_ok]
      rw [getUint64_toNat _ (by simp; omega)]
    · simp only [Meta.viewFromBacking, Meta.ty, viewVal, asLeaf, Except.map, BV.val, BasicV.val, R.bind_ok]
      rw [U256.toNat_setBytes32 _ hr, List.take_of_length_le (by omega)]
  | bool => rfl
  | root =>
    simp only [Meta.viewFromBacking, Meta.ty, viewVal, asLeaf, Except.map, BV.val, R.bind_ok]
    rw [List.take_of_length_le (by omega)]
  | small td =>
    simp only at hm
    simp only [Meta.viewFromBacking, Meta.ty, viewVal, asLeaf, Except.map, BV.val, R.bind_ok,
      if_neg (by omega : ¬ td > 32)]
    unfold goCopy
    simp only [List.length_replicate]
    rw [List.drop_eq_nil_of_le (by simp; omega), List.append_nil]

/-- `Backing()` is what the constructor route of Model/View.lean builds for the leaf types -/
theorem construct_backing (h : HashFn) (v : BV) (hw : v.wf) : construct h v.ty v.val = .ok v.backing := by
  rw [BV.backing_eq, BV.hashTreeRoot_eq_chunk v hw]
  cases v with
  | basic b =>
    cases b with
    | bool x => simp [BV.ty, BV.type, BasicV.type, Meta.ty, BV.val, BasicV.val, construct, serialize]
    | _ => simp [BV.ty, BV.type, BasicV.type, Meta.ty, BV.val, BasicV.val, construct, serialize]
  | root r => simp [BV.ty, BV.type, Meta.ty, BV.val, construct, serialize]
  | small bs => simp [BV.ty, BV.type, Meta.ty, BV.val, construct, serialize]


/-! ### `Deserialize` -/

theorem read_len {dr dr' : DR} {n : Nat} {bs : Bytes} (h : dr.read n = .ok (bs, dr')) : bs.length = n := by
  obtain ⟨h1, h2, _⟩ := read_ok h
  rw [h2, List.length_take]; omega

theorem Meta.deserialize_uint (td : Nat) (h : uintSize td) (dr : DR) :
    Meta.deserialize (.uint td) dr = (dr.read td >>= fun p => .ok (.basic (BasicV.ofBytes td p.1), p.2)) := by
  rcases h with rfl | rfl | rfl | rfl | rfl
  · simp only [Meta.deserialize, BasicV.readByte]
    cases dr.read 1 with
    | error e => rfl
    | ok p => obtain ⟨bs, dr'⟩ := p; cases bs <;> rfl
  · simp only [Meta.deserialize]
    cases dr.read 2 with
    | error e => rfl
    | ok p => rfl
  · simp only [Meta.deserialize]
    cases dr.read 4 with
    | error e => rfl
    | ok p => rfl
  · simp only [Meta.deserialize]
    cases dr.read 8 with
    | error e => rfl
    | ok p => rfl
  · simp only [Meta.deserialize, BasicV.deserialize]
    cases dr.read 32 with
    | error e => rfl
    | ok p => rfl

theorem BasicV.deserialize_uint (dst : BasicV) (td : Nat) (h : dst.type = .uint td) (dr : DR) :
    dst.deserialize dr = (dr.read td >>= fun p => .ok (BasicV.ofBytes td p.1, p.2)) := by
  cases dst <;> cases h
  · simp only [BasicV.deserialize, BasicV.readByte]
    cases dr.read 1 with
    | error e => rfl
    | ok p => obtain ⟨bs, dr'⟩ := p; cases bs <;> rfl
  all_goals
    simp only [BasicV.deserialize]
    cases dr.read _ with
    | error e => rfl
    | ok p => rfl

theorem ofBytes_backing (td : Nat) (h : uintSize td) (x : Bytes) (hx : x.length = td) :
    (BasicV.ofBytes td x).backing = .leaf (chunkOf x) := by
  rw [BasicV.backing_eq, BasicV.hashTreeRoot_eq_chunk, BasicV.ofBytes_encode td h x hx]

/-- the leaf decoders of this API and of Model/Decode.lean are the same function -/
theorem deserialize_eq_decode (h : HashFn) (m : Meta)
    (hm : match m with | .uint td => uintSize td | _ => True) (dr : DR) :
    (Meta.deserialize m dr).map (fun r => (r.1.backing, r.2)) = View.decode h m.ty dr := by
  cases m with
  | uint td =>
    rw [Meta.deserialize_uint td hm]
    simp only [Meta.ty, View.decode]
    cases hr : dr.read td with
    | error e => rfl
    | ok p =>
      obtain ⟨bs, dr'⟩ := p
      simp only [R.bind_ok, Except.map]
      rw [show (BV.basic (BasicV.ofBytes td bs)).backing = (BasicV.ofBytes td bs).backing from rfl,
        ofBytes_backing td hm bs (read_len hr)]
  | bool =>
    simp only [Meta.ty, View.decode, Meta.deserialize, BasicV.readByte]
    cases hr : dr.read 1 with
    | error e => rfl
    | ok p =>
      obtain ⟨bs, dr'⟩ := p
      have hl := read_len hr
      match bs, hl with
      | [x], _ =>
        simp only [R.bind_ok, List.headD_cons]
        by_cases hx : x > 1
        · simp [hx, Except.map]
        · simp only [hx, if_false, Except.map]
          rcases byte_le_one x hx with rfl | rfl
          · exact congrArg (fun n => Except.ok (n, dr')) (show (BV.basic (.bool ((0:UInt8) == 1))).backing = Node.leaf (chunkOf [0]) by decide)
          · exact congrArg (fun n => Except.ok (n, dr')) (show (BV.basic (.bool ((1:UInt8) == 1))).backing = Node.leaf (chunkOf [1]) by decide)
  | root =>
    simp only [Meta.ty, View.decode, Meta.deserialize]
    cases hr : dr.read 32 with
    | error e => rfl
    | ok p =>
      obtain ⟨bs, dr'⟩ := p
      simp only [R.bind_ok, Except.map, BV.backing, chunkOf_32 bs (read_len hr)]
  | small td =>
    simp only [Meta.ty, View.decode, Meta.deserialize]
    cases hr : dr.read td with
    | error e => rfl
    | ok p =>
      obtain ⟨bs, dr'⟩ := p
      simp only [R.bind_ok, Except.map, BV.backing, goCopy_z0]


/-- the pointer deserializers are the flat codec's leaf decoders (Model/Flat.lean) -/
theorem deserialize_eq_decUint (dst : BasicV) (td : Nat) (h : dst.type = .uint td) (dr : DR) :
    (dst.deserialize dr).map (fun r => (r.1.val, r.2)) = Flat.decUint td dr := by
  rw [BasicV.deserialize_uint dst td h]
  unfold Flat.decUint
  cases hr : dr.read td with
  | error e => rfl
  | ok p =>
    obtain ⟨bs, dr'⟩ := p
    simp only [R.bind_ok, Except.map]
    rw [BasicV.ofBytes_val td (BasicV.byteLength_of_type dst td h).2 bs (read_len hr)]

theorem deserialize_eq_decBool (b : Bool) (dr : DR) :
    ((BasicV.bool b).deserialize dr).map (fun r => (r.1.val, r.2)) = Flat.decBool dr := by
  simp only [BasicV.deserialize, BasicV.readByte, Flat.decBool]
  cases hr : dr.read 1 with
  | error e => rfl
  | ok p =>
    obtain ⟨bs, dr'⟩ := p
    simp only [R.bind_ok]
    generalize bs.headD 0 = d
    by_cases hx : d > 1
    · have : d.toNat > 1 := by simpa [UInt8.lt_iff_toNat_lt] using hx
      rw [if_pos hx, if_pos this]; rfl
    · have : ¬ d.toNat > 1 := by simpa [UInt8.lt_iff_toNat_lt] using hx
      rw [if_neg hx, if_neg this]
      simp only [Except.map, BasicV.val]
      congr 3

theorem deserialize_eq_decRoot (dr : DR) :
    (Meta.deserialize .root dr).map (fun r => (r.1.val, r.2)) = Flat.decRoot dr := by
  simp only [Meta.deserialize, Flat.decRoot]
  cases hr : dr.read 32 with
  | error e => rfl
  | ok p => rfl

/-- `Meta.Deserialize` and `(*T).Deserialize` read the same value -/
theorem meta_deserialize_eq (dst : BasicV) (dr : DR) :
    Meta.deserialize dst.type dr = (dst.deserialize dr).map (fun r => (BV.basic r.1, r.2)) := by
  cases dst with
  | bool b =>
    simp only [BasicV.type, Meta.deserialize, BasicV.deserialize, BasicV.readByte]
    cases hr : dr.read 1 with
    | error e => rfl
    | ok p =>
      obtain ⟨bs, dr'⟩ := p
      simp only [R.bind_ok]
      generalize bs.headD 0 = d
      by_cases hx : d > 1
      · rw [if_pos hx, if_pos hx]; rfl
      · rw [if_neg hx, if_neg hx]
        rcases byte_le_one _ hx with h0 | h0 <;> rw [h0] <;> rfl
  | u8 x => 
    show Meta.deserialize (.uint 1) dr = _
    rw [Meta.deserialize_uint _ (by simp [uintSize]), BasicV.deserialize_uint _ _ rfl]
    cases dr.read _ <;> rfl
  | u16 x => 
    show Meta.deserialize (.uint 2) dr = _
    rw [Meta.deserialize_uint _ (by simp [uintSize]), BasicV.deserialize_uint _ _ rfl]
    cases dr.read _ <;> rfl
  | u32 x => 
    show Meta.deserialize (.uint 4) dr = _
    rw [Meta.deserialize_uint _ (by simp [uintSize]), BasicV.deserialize_uint _ _ rfl]
    cases dr.read _ <;> rfl
  | u64 x => 
    show Meta.deserialize (.uint 8) dr = _
    rw [Meta.deserialize_uint _ (by simp [uintSize]), BasicV.deserialize_uint _ _ rfl]
    cases dr.read _ <;> rfl
  | u256 x => 
    show Meta.deserialize (.uint 32) dr = _
    rw [Meta.deserialize_uint _ (by simp [uintSize]), BasicV.deserialize_uint _ _ rfl]
    cases dr.read _ <;> rfl



/-! ### `PackViews` -/

/-- appending a piece right behind the bytes a zero-padded chunk already holds -/
theorem putAt_chunkOf (pre new : Bytes) (h : pre.length + new.length ≤ 32) :
    putAt (chunkOf pre) pre.length new = chunkOf (pre ++ new) := by
  have hu := upd_splice (chunkOf pre) pre.length new (by simp; omega)
  apply ext_getD 0
  · rw [putAt_length _ _ _ (by simp) h]; simp
  · intro q hq
    have hq' : q < 32 := by rw [putAt_length _ _ _ (by simp) h] at hq; exact hq
    unfold putAt
    rw [hu q, chunkOf_getD _ _ hq', chunkOf_getD _ _ hq', getD_append']
    by_cases h1 : q < pre.length
    · rw [if_neg (by omega), if_pos h1]
    · rw [if_neg h1]
      by_cases h2 : q < pre.length + new.length
      · rw [if_pos ⟨by omega, h2⟩]
      · rw [if_neg (by omega), getD_ge _ _ _ (by omega), getD_ge _ _ _ (by omega)]

/-- the concatenated encodings -/
def encs (vs : List BasicV) : List Bytes := vs.map BasicV.encode

def allOfType (td : Nat) (vs : List BasicV) : Prop := ∀ v ∈ vs, v.type = .uint td

theorem encs_uniform (td : Nat) (vs : List BasicV) (h : allOfType td vs) : ∀ l ∈ encs vs, l.length = td := by
  intro l hl
  obtain ⟨v, hv, rfl⟩ := List.mem_map.mp hl
  rw [BasicV.encode_length, (BasicV.byteLength_of_type v td (h v hv)).1]

theorem encs_flatten_length (td : Nat) (vs : List BasicV) (h : allOfType td vs) :
    (encs vs).flatten.length = vs.length * td := by
  rw [flatten_uniform_length td _ (encs_uniform td vs h)]; simp [encs]

theorem packInner_eq (td p : Nat) (htd : uintSize td) (hp : p * td = 32) :
    ∀ (fuel j : Nat) (pre : Bytes) (vs : List BasicV), fuel + j = p → pre.length = td * j → allOfType td vs →
      Meta.packInner fuel j (chunkOf pre) vs
        = .ok (chunkOf (pre ++ (encs (vs.take fuel)).flatten), vs.drop fuel) := by
  intro fuel
  induction fuel with
  | zero => intro j pre vs _ _ _; simp [Meta.packInner, encs]
  | succ fuel ih =>
    intro j pre vs hj hpre hall
    cases vs with
    | nil => simp [Meta.packInner, encs]
    | cons v vs =>
      have hv := BasicV.byteLength_of_type v td (hall v List.mem_cons_self)
      have hjp : j < p := by omega
      have hp32 : p ≤ 32 := by
        rcases htd with rfl | rfl | rfl | rfl | rfl <;> omega
      have hi : (UInt8.ofNat j).toNat = j := by
        rw [UInt8.toNat_ofNat', Nat.mod_eq_of_lt (by omega)]
      have hdiv : 32 / td = p := by
        rcases htd with rfl | rfl | rfl | rfl | rfl <;> omega
      have hfit : td * j + td ≤ 32 := by
        have : td * (j + 1) ≤ td * p := Nat.mul_le_mul_left td (by omega)
        rw [Nat.mul_comm td p, hp, Nat.mul_succ] at this; exact this
      simp only [Meta.packInner]
      rw [BasicV.backingFromBase_eq v (chunkOf pre) (by simp) (UInt8.ofNat j), hi, hv.1, hdiv, if_pos hjp]
      simp only [R.bind_ok]
      rw [← hpre, putAt_chunkOf pre v.encode (by rw [BasicV.encode_length, hv.1]; omega)]
      rw [ih (j + 1) (pre ++ v.encode) vs (by omega)
        (by rw [List.length_append, BasicV.encode_length, hv.1, hpre, Nat.mul_succ])
        (fun w hw => hall w (List.mem_cons_of_mem _ hw))]
      simp [encs]


theorem encs_split (vs : List BasicV) (p : Nat) :
    (encs vs).flatten = (encs (vs.take p)).flatten ++ (encs (vs.drop p)).flatten := by
  unfold encs
  rw [← List.flatten_append, ← List.map_append, List.take_append_drop]

theorem packOuter_eq (td p : Nat) (htd : uintSize td) (hp : p * td = 32) :
    ∀ (c : Nat) (vs : List BasicV), allOfType td vs → c = (vs.length + p - 1) / p →
      Meta.packOuter p c vs = .ok (bytesIntoNodes (encs vs).flatten) := by
  have hp5 : p = 32 ∨ p = 16 ∨ p = 8 ∨ p = 4 ∨ p = 1 := by
    rcases htd with rfl | rfl | rfl | rfl | rfl <;> omega
  intro c
  induction c with
  | zero =>
    intro vs _ hc
    have : vs.length = 0 := by rcases hp5 with rfl | rfl | rfl | rfl | rfl <;> omega
    have : vs = [] := List.eq_nil_of_length_eq_zero this
    subst this
    rfl
  | succ c ih =>
    intro vs hall hc
    have hne : 0 < vs.length := by rcases hp5 with rfl | rfl | rfl | rfl | rfl <;> omega
    have hc' : c = ((vs.drop p).length + p - 1) / p := by
      rw [List.length_drop]
      rcases hp5 with rfl | rfl | rfl | rfl | rfl <;> omega
    have hallT : allOfType td (vs.take p) := fun w hw => hall w (List.mem_of_mem_take hw)
    have hallD : allOfType td (vs.drop p) := fun w hw => hall w (List.mem_of_mem_drop hw)
    simp only [Meta.packOuter]
    have h0 : z0 = chunkOf [] := rfl
    rw [h0, packInner_eq td p htd hp p 0 [] vs (by omega) (by simp) hall]
    simp only [R.bind_ok, List.nil_append]
    rw [ih (vs.drop p) hallD hc']
    simp only [R.bind_ok]
    congr 1
    -- the spec side: first chunk and the rest
    have hlen := encs_flatten_length td vs hall
    have hlenT := encs_flatten_length td (vs.take p) hallT
    have htdpos : 0 < td := by rcases htd with rfl | rfl | rfl | rfl | rfl <;> omega
    unfold bytesIntoNodes
    rw [chunks_cons (encs vs).flatten (by rw [hlen]; exact Nat.mul_pos hne htdpos), List.map_cons]
    congr 1
    · congr 1
      by_cases hge : p ≤ vs.length
      · have h32 : (encs (vs.take p)).flatten.length = 32 := by
          rw [hlenT, List.length_take, Nat.min_eq_left hge, hp]
        have hA : chunkOf ((encs (vs.take p)).flatten ++ (encs (vs.drop p)).flatten)
            = (encs (vs.take p)).flatten := by
          rw [chunkOf_of_ge _ (by rw [List.length_append]; omega), List.take_left' h32]
        rw [encs_split vs p, hA, chunkOf_32 _ h32]
      · rw [List.take_of_length_le (by omega)]
    · congr 1
      by_cases hge : p ≤ vs.length
      · have h32 : (encs (vs.take p)).flatten.length = 32 := by
          rw [hlenT, List.length_take, Nat.min_eq_left hge, hp]
        rw [encs_split vs p, List.drop_left' h32]
      · have hlt : vs.length * td < 32 := by
          rw [← hp]; exact Nat.mul_lt_mul_of_pos_right (by omega) htdpos
        rw [List.drop_eq_nil_of_le (by omega : vs.length ≤ p), List.drop_eq_nil_of_le (by rw [hlen]; omega)]
        rfl

/-- `PackViews` builds exactly the chunks of the concatenated little-endian encodings:
    `BytesIntoNodes` of what `construct` packs for a basic series -/
theorem packViews_eq (td : Nat) (htd : uintSize td) (vs : List BasicV) (hall : allOfType td vs) :
    Meta.packViews td vs = .ok (bytesIntoNodes (encs vs).flatten) := by
  unfold Meta.packViews
  have hp : (32 / td) % 256 * td = 32 ∧ (32 / td) % 256 ≠ 0 ∧ td ≠ 0 := by
    rcases htd with rfl | rfl | rfl | rfl | rfl <;> decide
  rw [if_neg hp.2.2]
  simp only [if_neg hp.2.1]
  exact packOuter_eq td _ htd hp.1 _ vs hall rfl

/-- the encodings are the spec's serialisations of the values -/
theorem encs_eq_serList (td : Nat) (vs : List BasicV) (hall : allOfType td vs) :
    encs vs = serList (.uint td) (vs.map BasicV.val) := by
  induction vs with
  | nil => rfl
  | cons v vs ih =>
    have hv := hall v List.mem_cons_self
    simp only [encs, List.map_cons, serList]
    rw [show vs.map BasicV.encode = encs vs from rfl, ih (fun w hw => hall w (List.mem_cons_of_mem _ hw)),
      BasicV.encode_eq]
    congr 2
    unfold BasicV.ty
    rw [hv]; rfl

theorem allHaveType_vals (td : Nat) (vs : List BasicV) (hall : allOfType td vs) :
    allHaveType (.uint td) (vs.map BasicV.val) = true := by
  induction vs with
  | nil => rfl
  | cons v vs ih =>
    have hv := hall v List.mem_cons_self
    simp only [List.map_cons, allHaveType, Bool.and_eq_true]
    refine ⟨?_, ih (fun w hw => hall w (List.mem_cons_of_mem _ hw))⟩
    have := BasicV.hasType_val v
    unfold BasicV.ty at this
    rwa [hv] at this



/-! ### construction from numbers, defaults, copies -/

/-- total version of `BasicV.ofNat` for the supported sizes -/
def BasicV.ofNatD (td n : Nat) : BasicV := (BasicV.ofNat td n).getD (.u8 0)

theorem BasicV.ofNatD_type (td n : Nat) (h : uintSize td) : (BasicV.ofNatD td n).type = .uint td := by
  rcases h with rfl | rfl | rfl | rfl | rfl <;> rfl

/-- the value built from `n` encodes as the `td` low bytes of `n`, little-endian -/
theorem BasicV.ofNatD_encode (td n : Nat) (h : uintSize td) : (BasicV.ofNatD td n).encode = leBytes td n := by
  rcases h with rfl | rfl | rfl | rfl | rfl
  · show [UInt8.ofNat n] = leBytes 1 n
    simp only [leBytes]
    congr 1
    apply UInt8.toNat_inj.mp
    simp
  · show putUint16 (UInt16.ofNat n) = _
    rw [putUint16, UInt16.toNat_ofNat', show (2:Nat) ^ 16 = 256 ^ 2 by decide, leBytes_mod]
  · show putUint32 (UInt32.ofNat n) = _
    rw [putUint32, UInt32.toNat_ofNat', show (2:Nat) ^ 32 = 256 ^ 4 by decide, leBytes_mod]
  · show putUint64 (UInt64.ofNat n) = _
    rw [putUint64, UInt64.toNat_ofNat', show (2:Nat) ^ 64 = 256 ^ 8 by decide, leBytes_mod]
  · show (U256.ofNat n).bytes32 = _
    rw [U256.bytes32_eq, U256.toNat_ofNat, show (2:Nat) ^ 256 = 256 ^ 32 by decide, leBytes_mod]

theorem BasicV.ofNatD_val (td n : Nat) (h : uintSize td) : (BasicV.ofNatD td n).val = .num (n % 256 ^ td) := by
  rcases h with rfl | rfl | rfl | rfl | rfl
  · show Val.num (UInt8.ofNat n).toNat = _
    rw [UInt8.toNat_ofNat']
  · show Val.num (UInt16.ofNat n).toNat = _
    rw [UInt16.toNat_ofNat']
  · show Val.num (UInt32.ofNat n).toNat = _
    rw [UInt32.toNat_ofNat']
  · show Val.num (UInt64.ofNat n).toNat = _
    rw [UInt64.toNat_ofNat']
  · show Val.num (U256.ofNat n).toNat = _
    rw [U256.toNat_ofNat]

theorem encs_ofNat (td : Nat) (h : uintSize td) (ns : List Nat) :
    encs (ns.map (BasicV.ofNatD td)) = ns.map (leBytes td) := by
  simp only [encs, List.map_map]
  apply List.map_congr_left
  intro n _
  exact BasicV.ofNatD_encode td n h

theorem goCopy_self (bs : Bytes) : goCopy (List.replicate bs.length 0) bs = bs := by
  unfold goCopy
  simp

theorem BV.copy_eq (v : BV) : v.copy = .ok v := by
  cases v with
  | basic b => rfl
  | root r => rfl
  | small bs => simp [BV.copy, goCopy_self]

def Meta.supported : Meta → Prop
  | .uint td => uintSize td
  | .small td => td ≤ 32
  | _ => True

/-- `Default` is the spec's default value, `DefaultNode` its backing, `New` the same value -/
theorem Meta.default_spec (m : Meta) (hm : m.supported) :
    ∃ v, m.defaultView = some v ∧ v.type = m ∧ v.wf ∧ v.val = defaultVal m.ty ∧ m.defaultNode = v.backing ∧
      (m ≠ .root → m.new = some v) := by
  cases m with
  | uint td =>
    rcases hm with rfl | rfl | rfl | rfl | rfl
    · exact ⟨_, rfl, rfl, trivial, rfl, by decide, fun _ => rfl⟩
    · exact ⟨_, rfl, rfl, trivial, rfl, by decide, fun _ => rfl⟩
    · exact ⟨_, rfl, rfl, trivial, rfl, by decide, fun _ => rfl⟩
    · exact ⟨_, rfl, rfl, trivial, rfl, by decide, fun _ => rfl⟩
    · exact ⟨_, rfl, rfl, trivial, rfl, by decide, fun _ => rfl⟩
  | bool => exact ⟨_, rfl, rfl, trivial, rfl, rfl, fun _ => rfl⟩
  | root => exact ⟨_, rfl, rfl, by simp [BV.wf], rfl, rfl, fun h => absurd rfl h⟩
  | small td =>
    refine ⟨_, rfl, by simp [BV.type], by simpa [BV.wf, Meta.supported] using hm, rfl, ?_, fun _ => rfl⟩
    simp only [Meta.defaultNode, BV.backing, goCopy_z0]
    congr 1
    apply ext_getD 0 (by simp)
    intro q hq
    have hq' : q < 32 := by simpa using hq
    rw [chunkOf_getD _ _ hq', z0_getD, getD_replicate_self]


end ZtypV.BasicApi
