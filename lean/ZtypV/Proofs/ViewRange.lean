/-
`View.inRange` (the depth / uint64 side condition of the C02 theorems) holds for every
well-formed type whose lengths, limits and field counts are at most `2^62`.
-/
import ZtypV.Proofs.ViewSer
namespace ZtypV

namespace View

mutual
/-- every vector length, bitvector length, list / bitlist limit and field count is `≤ B` -/
def limitsLe (B : Nat) : Ty → Bool
  | .uint _ | .bool | .bytesN _ => true
  | .bitvector n => n ≤ B
  | .bitlist lim => lim ≤ B
  | .vector e n => n ≤ B && limitsLe B e
  | .list e lim => lim ≤ B && limitsLe B e
  | .container fs => fs.length ≤ B && limitsLeAll B fs
  | .union _ opts => limitsLeAll B opts
def limitsLeAll (B : Nat) : List Ty → Bool
  | [] => true
  | t :: ts => limitsLe B t && limitsLeAll B ts
end

theorem coverDepth_le (v d : Nat) (h : v ≤ 2 ^ d) : coverDepth v ≤ d := by
  unfold coverDepth
  split
  · omega
  · have hp : 0 < 2 ^ d := Nat.two_pow_pos d
    have : (v - 1).log2 < d := (Nat.log2_lt (by omega)).mpr (by omega)
    omega

theorem coverDepth_mono (a b : Nat) (h : a ≤ b) : coverDepth a ≤ coverDepth b := by
  apply coverDepth_le
  have := le_two_pow_coverDepth' b
  omega
where
  le_two_pow_coverDepth' (v : Nat) : v ≤ 2 ^ coverDepth v := by
    unfold coverDepth
    split
    · rename_i h
      have : 0 < 2 ^ 0 := Nat.two_pow_pos 0
      simp; omega
    · have := Nat.lt_log2_self (n := v - 1)
      omega

theorem bitDepth_le (n : Nat) (h : n ≤ 2 ^ 62) : bitDepth n ≤ 62 := by
  unfold bitDepth
  apply coverDepth_le
  omega

theorem seriesDepth_le (e : Ty) (n : Nat) (hw : e.wf = true) (h : n ≤ 2 ^ 62) :
    seriesDepth e n ≤ 62 := by
  unfold seriesDepth
  split
  · rename_i hb
    cases e <;> simp [isBasicElem] at hb
    have hbw := uint_wf_le hw
    apply coverDepth_le
    simp only [Ty.fixedSize]
    unfold bottomNodes perNode
    rcases hbw with rfl | rfl | rfl | rfl | rfl <;> simp <;> omega
  · exact coverDepth_le _ _ h

theorem limitsLeAll_mem (B : Nat) : ∀ (ts : List Ty), limitsLeAll B ts = true → ∀ t ∈ ts,
    limitsLe B t = true := by
  intro ts
  induction ts with
  | nil => intro _ t ht; cases ht
  | cons a ts ih =>
    intro h t ht
    simp only [limitsLeAll, Bool.and_eq_true] at h
    rcases List.mem_cons.mp ht with rfl | ht
    · exact h.1
    · exact ih h.2 t ht

theorem wfAll_mem : ∀ (ts : List Ty), Ty.wfAll ts = true → ∀ t ∈ ts, t.wf = true := by
  intro ts
  induction ts with
  | nil => intro _ t ht; cases ht
  | cons a ts ih =>
    intro h t ht
    simp only [Ty.wfAll, Bool.and_eq_true] at h
    rcases List.mem_cons.mp ht with rfl | ht
    · exact h.1
    · exact ih h.2 t ht

theorem inRangeAll_of_mem : ∀ (ts : List Ty), (∀ t ∈ ts, inRange t = true) →
    inRangeAll ts = true := by
  intro ts
  induction ts with
  | nil => intro _; rfl
  | cons a ts ih =>
    intro h
    simp only [inRangeAll, Bool.and_eq_true]
    exact ⟨h a List.mem_cons_self, ih (fun t ht => h t (List.mem_cons_of_mem _ ht))⟩

/-- all limits `≤ 2^62` ⇒ the type is in the range the view code can navigate -/
theorem inRange_of_small : ∀ (t : Ty), t.wf = true → limitsLe (2 ^ 62) t = true →
    inRange t = true := by
  intro t
  induction t using Ty.induct with
  | uint b => intro _ _; rfl
  | bool => intro _ _; rfl
  | bytesN n => intro _ _; rfl
  | bitvector n =>
    intro _ hl
    simp only [limitsLe, decide_eq_true_eq] at hl
    have := bitDepth_le n hl
    simp only [inRange, decide_eq_true_eq]; omega
  | bitlist n =>
    intro _ hl
    simp only [limitsLe, decide_eq_true_eq] at hl
    have := bitDepth_le n hl
    simp only [inRange, Bool.and_eq_true, decide_eq_true_eq]; omega
  | vector e n ih =>
    intro hw hl
    simp only [limitsLe, Bool.and_eq_true, decide_eq_true_eq] at hl
    simp only [Ty.wf, Bool.and_eq_true, decide_eq_true_eq] at hw
    have := seriesDepth_le e n hw.2 hl.1
    simp only [inRange, Bool.and_eq_true, decide_eq_true_eq]
    exact ⟨by omega, ih hw.2 hl.2⟩
  | list e n ih =>
    intro hw hl
    simp only [limitsLe, Bool.and_eq_true, decide_eq_true_eq] at hl
    simp only [Ty.wf] at hw
    have := seriesDepth_le e n hw hl.1
    simp only [inRange, Bool.and_eq_true, decide_eq_true_eq]
    exact ⟨⟨by omega, by omega⟩, ih hw hl.2⟩
  | container fs ih =>
    intro hw hl
    simp only [limitsLe, Bool.and_eq_true, decide_eq_true_eq] at hl
    simp only [Ty.wf, Bool.and_eq_true] at hw
    have := coverDepth_le fs.length 62 hl.1
    simp only [inRange, Bool.and_eq_true, decide_eq_true_eq]
    exact ⟨by omega, inRangeAll_of_mem fs (fun t ht =>
      ih t ht (wfAll_mem fs hw.2 t ht) (limitsLeAll_mem _ fs hl.2 t ht))⟩
  | union hn opts ih =>
    intro hw hl
    simp only [limitsLe] at hl
    simp only [Ty.wf, Bool.and_eq_true] at hw
    simp only [inRange]
    exact inRangeAll_of_mem opts (fun t ht =>
      ih t ht (wfAll_mem opts hw.1.2 t ht) (limitsLeAll_mem _ opts hl t ht))

end View
end ZtypV
