/-
C20, flat side, part 2: the remaining scope of the reader never grows during a successful run of
the flat decoder (`flatDecode_mono`).  Needed by the cost bound because `FixedLenContainer` and
`Union` hand their OWN reader to the fields / the option: the bound of a later field is stated in
terms of the scope the earlier fields left.  (Sub-scopes leave the parent's index alone; reads
advance it.)
-/
import ZtypV.Proofs.DecodeCostLoops
import ZtypV.Proofs.FlatSound
namespace ZtypV.FlatCostProofs
open ZtypV ZtypV.View ZtypV.Flat ZtypV.DecodeProofs ZtypV.CostProofs

variable {α : Type}

/-- a successful run does not enlarge the remaining scope -/
def Mono (f : DR → R (α × DR)) : Prop :=
  ∀ (dr : DR) (a : α) (dr' : DR), f dr = .ok (a, dr') → dr'.scope ≤ dr.scope

theorem read_scope {dr dr' : DR} {n : Nat} {bs : Bytes} (h : dr.read n = .ok (bs, dr')) :
    dr'.scope ≤ dr.scope := by
  have := (read_ok' h).1; omega

theorem readOffset_scope {dr dr' : DR} {o : Nat} (h : dr.readOffset = .ok (o, dr')) :
    dr'.scope ≤ dr.scope := by
  have := (readOffset_ok' h).1; omega

theorem readFull_scope {s s' : Slice} {dr dr' : DR} (h : s.readFull dr = .ok (s', dr')) :
    dr'.scope ≤ dr.scope := by
  unfold Slice.readFull at h
  obtain ⟨⟨bs, d⟩, h1, h⟩ := bind_eq_ok h
  cases h
  exact read_scope h1

/-- a sub-scope leaves the parent's index alone -/
theorem inSub_scope {dr dr' : DR} {count : Nat} {f : DR → R (α × DR)} {a : α}
    (h : dr.inSub count f = .ok (a, dr')) : dr'.scope = dr.scope := by
  unfold DR.inSub at h
  obtain ⟨c0, _, h⟩ := bind_eq_ok h
  obtain ⟨⟨a', c1⟩, _, h⟩ := bind_eq_ok h
  cases h
  rfl

theorem readRootsLoop_scope : ∀ (n : Nat) (dr dr' : DR) (rs : List Bytes),
    readRootsLoop n dr = .ok (rs, dr') → dr'.scope ≤ dr.scope
  | 0, dr, dr', rs, h => by unfold readRootsLoop at h; cases h; exact Nat.le_refl _
  | n + 1, dr, dr', rs, h => by
    unfold readRootsLoop at h
    obtain ⟨⟨r, d1⟩, h1, h⟩ := bind_eq_ok h
    obtain ⟨⟨rs', d2⟩, h2, h⟩ := bind_eq_ok h
    have := read_scope h1
    have := readRootsLoop_scope n d1 d2 rs' h2
    cases h
    omega

theorem readRoots_scope {dst s : RSlice} {n : Nat} {dr dr' : DR}
    (h : readRoots dst n dr = .ok (s, dr')) : dr'.scope ≤ dr.scope := by
  unfold readRoots at h
  obtain ⟨⟨rs, d⟩, h1, h⟩ := bind_eq_ok h
  cases h
  exact readRootsLoop_scope _ _ _ _ h1

theorem readRootsLimited_scope {dst s : RSlice} {n : Nat} {dr dr' : DR}
    (h : readRootsLimited dst n dr = .ok (s, dr')) : dr'.scope ≤ dr.scope := by
  unfold readRootsLimited at h
  dsimp only at h
  split at h; · cases h
  split at h; · cases h
  exact readRoots_scope h

theorem decFixedItems_scope (size : Nat) : ∀ (items : List Des) (dr dr' : DR) (vs : List Val),
    decFixedItems size items dr = .ok (vs, dr') → dr'.scope = dr.scope
  | [], dr, dr', vs, h => by unfold decFixedItems at h; cases h; rfl
  | it :: its, dr, dr', vs, h => by
    unfold decFixedItems at h
    obtain ⟨⟨x, d1⟩, h1, h⟩ := bind_eq_ok h
    obtain ⟨⟨xs, d2⟩, h2, h⟩ := bind_eq_ok h
    have e1 := decFixedItems_scope size its d1 d2 xs h2
    cases h
    rw [e1, inSub_scope h1]

theorem readOffsetsN_ok' : ∀ (n : Nat) (dr dr' : DR) (os : List Nat),
    readOffsetsN n dr = .ok (os, dr') →
    os.length = n ∧ dr'.scope + 4 * n = dr.scope ∧ dr'.avail.length + 4 * n = dr.avail.length
  | 0, dr, dr', os, h => by unfold readOffsetsN at h; cases h; simp
  | n + 1, dr, dr', os, h => by
    unfold readOffsetsN at h
    obtain ⟨⟨o, d1⟩, h1, h⟩ := bind_eq_ok h
    obtain ⟨⟨os', d2⟩, h2, h⟩ := bind_eq_ok h
    obtain ⟨a1, a2⟩ := readOffset_ok' h1
    obtain ⟨b1, b2, b3⟩ := readOffsetsN_ok' n d1 d2 os' h2
    cases h
    simp only [List.length_cons]
    omega

theorem decOffsetItems_scope (vec : Bool) (S : Nat) : ∀ (offs : List Nat) (items : List Des)
    (prev : Nat) (dr dr' : DR) (vs : List Val),
    decOffsetItems vec S prev offs items dr = .ok (vs, dr') → dr'.scope = dr.scope
  | [], items, prev, dr, dr', vs, h => by unfold decOffsetItems at h; cases h; rfl
  | _ :: _, [], prev, dr, dr', vs, h => by unfold decOffsetItems at h; cases h
  | off :: rest, it :: its, prev, dr, dr', vs, h => by
    unfold decOffsetItems at h
    split at h; · cases h
    dsimp only at h
    split at h; · cases h
    obtain ⟨⟨x, d1⟩, h1, h⟩ := bind_eq_ok h
    obtain ⟨⟨xs, d2⟩, h2, h⟩ := bind_eq_ok h
    have e1 := decOffsetItems_scope vec S rest its _ d1 d2 xs h2
    cases h
    rw [e1, inSub_scope h1]

theorem decVector_scope {items : List Des} {fl : Nat} {dr dr' : DR} {vs : List Val}
    (h : decVector items fl dr = .ok (vs, dr')) : dr'.scope ≤ dr.scope := by
  unfold decVector at h
  split at h
  · rw [decFixedItems_scope _ _ _ _ _ h]; exact Nat.le_refl _
  · dsimp only at h
    obtain ⟨⟨offs, d1⟩, h1, h⟩ := bind_eq_ok h
    dsimp only at h
    split at h; · cases h
    rw [decOffsetItems_scope _ _ _ _ _ _ _ _ h]
    have := (readOffsetsN_ok' _ _ _ _ h1).2.1
    omega

theorem decList_scope {add : DR → R (Val × DR)} {fl lim : Nat} {dr dr' : DR} {vs : List Val}
    (h : decList add fl lim dr = .ok (vs, dr')) : dr'.scope ≤ dr.scope := by
  unfold decList at h
  dsimp only at h
  split at h
  · cases h; exact Nat.le_refl _
  split at h
  · split at h; · cases h
    split at h; · cases h
    rw [decFixedItems_scope _ _ _ _ _ h]; exact Nat.le_refl _
  · obtain ⟨⟨first, d1⟩, h1, h⟩ := bind_eq_ok h
    dsimp only at h
    split at h; · cases h
    split at h; · cases h
    split at h; · cases h
    obtain ⟨⟨os, d2⟩, h2, h⟩ := bind_eq_ok h
    dsimp only at h
    rw [decOffsetItems_scope _ _ _ _ _ _ _ _ h]
    have := (readOffsetsN_ok' _ _ _ _ h2).2.1
    have := readOffset_scope h1
    omega

theorem decFixedLenContainer_scope : ∀ (fields : List Des) (dr dr' : DR) (vs : List Val),
    (∀ f ∈ fields, Mono f.run) → decFixedLenContainer fields dr = .ok (vs, dr') → dr'.scope ≤ dr.scope
  | [], dr, dr', vs, _, h => by unfold decFixedLenContainer at h; cases h; exact Nat.le_refl _
  | f :: fs, dr, dr', vs, hm, h => by
    unfold decFixedLenContainer at h
    obtain ⟨⟨x, d1⟩, h1, h⟩ := bind_eq_ok h
    obtain ⟨⟨xs, d2⟩, h2, h⟩ := bind_eq_ok h
    have := hm f (by simp) _ _ _ h1
    have := decFixedLenContainer_scope fs d1 d2 xs (fun g hg => hm g (by simp [hg])) h2
    cases h
    omega

theorem decContainerFixed_scope : ∀ (fields : List Des) (dr dr' : DR) (slots : List (Option Val))
    (offs : List Nat) (dyn : List Des),
    decContainerFixed fields dr = .ok (slots, offs, dyn, dr') → dr'.scope ≤ dr.scope
  | [], dr, dr', slots, offs, dyn, h => by unfold decContainerFixed at h; cases h; exact Nat.le_refl _
  | f :: fs, dr, dr', slots, offs, dyn, h => by
    unfold decContainerFixed at h
    split at h
    · obtain ⟨⟨x, d1⟩, h1, h⟩ := bind_eq_ok h
      obtain ⟨⟨sl, os, dy, d2⟩, h2, h⟩ := bind_eq_ok h
      have := decContainerFixed_scope fs d1 d2 sl os dy h2
      have := inSub_scope h1
      cases h
      omega
    · obtain ⟨⟨o, d1⟩, h1, h⟩ := bind_eq_ok h
      obtain ⟨⟨sl, os, dy, d2⟩, h2, h⟩ := bind_eq_ok h
      have := decContainerFixed_scope fs d1 d2 sl os dy h2
      have := readOffset_scope h1
      cases h
      omega

theorem decContainerDyn_scope (S : Nat) : ∀ (offs : List Nat) (dyn : List Des) (dr dr' : DR)
    (vs : List Val), decContainerDyn S offs dyn dr = .ok (vs, dr') → dr'.scope = dr.scope
  | [], dyn, dr, dr', vs, h => by unfold decContainerDyn at h; cases h; rfl
  | _ :: _, [], dr, dr', vs, h => by unfold decContainerDyn at h; cases h
  | off :: rest, f :: fs, dr, dr', vs, h => by
    unfold decContainerDyn at h
    dsimp only at h
    split at h; · cases h
    obtain ⟨⟨x, d1⟩, h1, h⟩ := bind_eq_ok h
    obtain ⟨⟨xs, d2⟩, h2, h⟩ := bind_eq_ok h
    have e1 := decContainerDyn_scope S rest fs d1 d2 xs h2
    cases h
    rw [e1, inSub_scope h1]

theorem decContainer_scope {fields : List Des} {dr dr' : DR} {vs : List Val}
    (h : decContainer fields dr = .ok (vs, dr')) : dr'.scope ≤ dr.scope := by
  unfold decContainer at h
  dsimp only at h
  obtain ⟨⟨slots, offs, dyn, d1⟩, h1, h⟩ := bind_eq_ok h
  dsimp only at h
  have := decContainerFixed_scope _ _ _ _ _ _ h1
  split at h
  · cases h; exact this
  split at h; · cases h
  obtain ⟨⟨dvs, d2⟩, h2, h⟩ := bind_eq_ok h
  cases h
  rw [decContainerDyn_scope _ _ _ _ _ _ h2]; exact this

theorem decUnion_scope {select : Nat → R (Option Des)} {dr dr' : DR} {r : Nat × Option Val}
    (hsel : ∀ s d, select s = .ok (some d) → Mono d.run)
    (h : decUnion select dr = .ok (r, dr')) : dr'.scope ≤ dr.scope := by
  unfold decUnion at h
  obtain ⟨⟨sb, d1⟩, h1, h⟩ := bind_eq_ok h
  dsimp only at h
  obtain ⟨dest, h2, h⟩ := bind_eq_ok h
  have := read_scope h1
  cases dest with
  | none =>
    dsimp only at h
    split at h; · cases h
    split at h; · cases h
    cases h; exact this
  | some d =>
    dsimp only at h
    split at h; · cases h
    obtain ⟨⟨v, d2⟩, h3, h⟩ := bind_eq_ok h
    have := hsel _ _ h2 _ _ _ h3
    cases h
    show d2.scope ≤ dr.scope
    omega

/-! ### the flat composition -/

theorem flatFieldDes_mono : ∀ (fs : List Ty) (p : Val) (i : Nat),
    (∀ t ∈ fs, ∀ q, Mono (flatDecode t q)) → ∀ f ∈ flatFieldDes fs p i, Mono f.run
  | [], p, i, _, f, hf => by rw [flatFieldDes] at hf; cases hf
  | t :: ts, p, i, h, f, hf => by
    rw [flatFieldDes] at hf
    rcases List.mem_cons.mp hf with rfl | hf'
    · exact h t (by simp) _
    · exact flatFieldDes_mono ts p (i + 1) (fun t' ht' => h t' (by simp [ht'])) f hf'

theorem flatSelect_mono : ∀ (opts : List Ty) (k : Nat) (d : Des),
    (∀ t ∈ opts, ∀ q, Mono (flatDecode t q)) → flatSelect opts k = .ok (some d) → Mono d.run
  | [], k, d, _, h => by rw [flatSelect] at h; cases h
  | t :: ts, 0, d, hm, h => by
    rw [flatSelect] at h
    cases h
    exact hm t (by simp) _
  | t :: ts, k + 1, d, hm, h => by
    rw [flatSelect] at h
    exact flatSelect_mono ts k d (fun t' ht' => hm t' (by simp [ht'])) h

/-- the remaining scope never grows during a successful run of the flat decoder -/
theorem flatDecode_mono : (t : Ty) → ∀ (prior : Val), Mono (flatDecode t prior)
  | .uint b, p => by
    intro dr v dr' h
    rw [flatDecode] at h
    unfold decUint at h
    obtain ⟨⟨bs, d⟩, h1, h⟩ := bind_eq_ok h
    cases h; exact read_scope h1
  | .bool, p => by
    intro dr v dr' h
    rw [flatDecode] at h
    unfold decBool at h
    obtain ⟨⟨bs, d⟩, h1, h⟩ := bind_eq_ok h
    dsimp only at h
    split at h; · cases h
    cases h; exact read_scope h1
  | .bytesN n, p => by
    intro dr v dr' h
    rw [flatDecode] at h
    split at h
    · unfold decRoot at h
      obtain ⟨⟨bs, d⟩, h1, h⟩ := bind_eq_ok h
      cases h; exact read_scope h1
    · obtain ⟨⟨s, d⟩, h1, h⟩ := bind_eq_ok h
      cases h
      exact readFull_scope h1
  | .bitvector n, p => by
    intro dr v dr' h
    rw [flatDecode] at h
    obtain ⟨⟨s, d⟩, h1, h⟩ := bind_eq_ok h
    cases h
    unfold decBitVector at h1
    obtain ⟨⟨s', d'⟩, h2, h1⟩ := bind_eq_ok h1
    dsimp only at h1
    split at h1
    · cases h1; exact readFull_scope h2
    · cases h1
  | .bitlist n, p => by
    intro dr v dr' h
    rw [flatDecode] at h
    obtain ⟨⟨s, d⟩, h1, h⟩ := bind_eq_ok h
    cases h
    unfold decBitList at h1
    dsimp only at h1
    split at h1; · cases h1
    obtain ⟨⟨s', d'⟩, h2, h1⟩ := bind_eq_ok h1
    dsimp only at h1
    split at h1
    · cases h1; exact readFull_scope h2
    · cases h1
  | .vector e n, p => by
    intro dr v dr' h
    rw [flatDecode] at h
    split at h
    · obtain ⟨⟨s, d⟩, h1, h⟩ := bind_eq_ok h
      cases h; exact readFull_scope h1
    split at h
    · obtain ⟨⟨s, d⟩, h1, h⟩ := bind_eq_ok h
      cases h; exact readRoots_scope h1
    · dsimp only at h
      obtain ⟨⟨vs, d⟩, h1, h⟩ := bind_eq_ok h
      cases h; exact decVector_scope h1
  | .list e lim, p => by
    intro dr v dr' h
    rw [flatDecode] at h
    split at h
    · obtain ⟨⟨s, d⟩, h1, h⟩ := bind_eq_ok h
      cases h
      unfold decByteList at h1
      dsimp only at h1
      split at h1; · cases h1
      exact readFull_scope h1
    split at h
    · obtain ⟨⟨s, d⟩, h1, h⟩ := bind_eq_ok h
      cases h; exact readRootsLimited_scope h1
    · obtain ⟨⟨vs, d⟩, h1, h⟩ := bind_eq_ok h
      cases h; exact decList_scope h1
  | .container fs, p => by
    intro dr v dr' h
    rw [flatDecode] at h
    split at h
    · obtain ⟨⟨vs, d⟩, h1, h⟩ := bind_eq_ok h
      cases h
      exact decFixedLenContainer_scope _ _ _ _
        (flatFieldDes_mono fs p 0 (fun t _ht => flatDecode_mono t)) h1
    · obtain ⟨⟨vs, d⟩, h1, h⟩ := bind_eq_ok h
      cases h; exact decContainer_scope h1
  | .union hasNone opts, p => by
    intro dr v dr' h
    rw [flatDecode] at h
    obtain ⟨⟨⟨sel, ov⟩, d⟩, h1, h⟩ := bind_eq_ok h
    have hd : d = dr' := by
      cases ov <;> (cases h; rfl)
    subst hd
    refine decUnion_scope ?_ h1
    intro s d' hs
    by_cases c1 : s ≥ opts.length + (if hasNone = true then 1 else 0)
    · rw [if_pos c1] at hs; cases hs
    rw [if_neg c1] at hs
    by_cases c2 : (hasNone && s == 0) = true
    · rw [if_pos c2] at hs; cases hs
    rw [if_neg c2] at hs
    exact flatSelect_mono opts _ d' (fun t _ht => flatDecode_mono t) hs
termination_by t => sizeOf t
decreasing_by
  all_goals simp_wf
  · have := List.sizeOf_lt_of_mem _ht; omega
  · have := List.sizeOf_lt_of_mem _ht; omega

end ZtypV.FlatCostProofs
