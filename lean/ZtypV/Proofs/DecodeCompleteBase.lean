/-
C02 round trip, decoder completeness (the converse of Proofs/DecodeSound.lean): forward lemmas
about the reader model `DR`, the statement `Complete` proved type by type, and the leaf and
bitfield cases (uint, bool, bytesN, bitvector, bitlist).
-/
import ZtypV.Proofs.DecodeSound
import ZtypV.Proofs.SerSize
import ZtypV.Proofs.Sizes
namespace ZtypV.DecodeProofs
open ZtypV ZtypV.View

/-! ### forward `Except` plumbing -/

/-- the computation succeeds and its result satisfies `P` -/
def Ok {α : Type} (x : R α) (P : α → Prop) : Prop := ∃ a, x = .ok a ∧ P a

theorem Ok.pure {α : Type} {a : α} {P : α → Prop} (h : P a) : Ok (.ok a) P := ⟨a, rfl, h⟩

theorem Ok.bind {α β : Type} {x : R α} {f : α → R β} {Q : α → Prop} {P : β → Prop}
    (hx : Ok x Q) (hf : ∀ a, Q a → Ok (f a) P) : Ok (x >>= f) P := by
  obtain ⟨a, rfl, ha⟩ := hx
  exact hf a ha

theorem Ok.ite_err {α : Type} {c : Prop} [Decidable c] {e : Err} {b : R α} {P : α → Prop}
    (hc : ¬ c) (hb : Ok b P) : Ok (if c then .error e else b) P := by
  rw [if_neg hc]; exact hb

theorem Ok.mono {α : Type} {x : R α} {P Q : α → Prop} (hx : Ok x P) (h : ∀ a, P a → Q a) :
    Ok x Q := by
  obtain ⟨a, ha, hp⟩ := hx
  exact ⟨a, ha, h a hp⟩

theorem Ok.orNil {r : R Node} (h : ∃ n, r = .ok n) : Ok (orNil r) (fun _ => True) := by
  obtain ⟨n, rfl⟩ := h
  exact ⟨n, rfl, trivial⟩

/-! ### the reader, forward direction -/

/-- a read of a prefix of the stream that fits the scope succeeds -/
theorem read_complete {dr : DR} {bs rest : Bytes} (hav : dr.avail = bs ++ rest)
    (hsc : dr.i + bs.length ≤ dr.max) :
    Ok (dr.read bs.length) (fun r => r.1 = bs ∧ r.2.avail = rest ∧ r.2.i = dr.i + bs.length ∧
      r.2.max = dr.max) := by
  unfold DR.read
  by_cases h0 : bs.length = 0
  · have : bs = [] := List.eq_nil_of_length_eq_zero h0
    subst this
    exact ⟨([], dr), by simp, rfl, by simpa using hav, by simp, rfl⟩
  · have ht : dr.avail.take bs.length = bs := by rw [hav]; simp
    have hd : dr.avail.drop bs.length = rest := by rw [hav]; simp
    rw [if_neg h0, if_neg (by omega), if_neg (by rw [hav, List.length_append]; omega), ht, hd]
    exact ⟨_, rfl, rfl, rfl, rfl, rfl⟩

theorem leNat_leBytes_4 {o : Nat} (ho : o < 2 ^ 32) : leNat (leBytes 4 o) = o := by
  rw [leNat_leBytes]
  exact Nat.mod_eq_of_lt (by have : (256 : Nat) ^ 4 = 2 ^ 32 := by decide
                             omega)

/-- reading an offset word: the 32-bit little-endian word decodes to the number written -/
theorem readOffset_complete {dr : DR} {o : Nat} {rest : Bytes}
    (hav : dr.avail = leBytes 4 o ++ rest) (ho : o < 2 ^ 32) (hsc : dr.i + 4 ≤ dr.max) :
    Ok dr.readOffset (fun r => r.1 = o ∧ r.2.avail = rest ∧ r.2.i = dr.i + 4 ∧
      r.2.max = dr.max) := by
  have hr := read_complete (bs := leBytes 4 o) hav (by simpa using hsc)
  rw [leBytes_length] at hr
  unfold DR.readOffset
  apply Ok.bind hr
  rintro ⟨bs, dr'⟩ ⟨h1, h2, h3, h4⟩
  simp only at h1 h2 h3 h4
  subst h1
  exact Ok.pure ⟨leNat_leBytes_4 ho, h2, h3, h4⟩

/-- running a child in a sub-scope that is a prefix of the stream, the child consuming all of it -/
theorem inSub_complete {α : Type} {dr : DR} {bs rest : Bytes} {f : DR → R (α × DR)}
    {P : α → Prop} (hav : dr.avail = bs ++ rest) (hsc : bs.length ≤ dr.scope)
    (hf : Ok (f { i := 0, max := bs.length, avail := bs }) (fun r => P r.1 ∧ r.2.avail = [])) :
    Ok (dr.inSub bs.length f) (fun r => P r.1 ∧ r.2.avail = rest ∧ r.2.i = dr.i ∧
      r.2.max = dr.max) := by
  have ht : dr.avail.take bs.length = bs := by rw [hav]; simp
  unfold DR.inSub
  have hsub : dr.sub bs.length = .ok { i := 0, max := bs.length, avail := bs } := by
    unfold DR.sub
    rw [if_neg (by omega), ht]
  rw [hsub]
  apply Ok.bind hf
  rintro ⟨a, c1⟩ ⟨hp, hc1⟩
  simp only at hp hc1
  refine Ok.pure ⟨hp, ?_, rfl, rfl⟩
  simp [DR.after, hc1, hav]

/-! ### the statement proved type by type -/

/-- completeness of the decoder of one type: a reader whose stream starts with the encoding of
    a typed value and whose scope is exactly the encoding's length is accepted, and the decoder
    consumes exactly the encoding -/
def Complete (h : HashFn) (t : Ty) : Prop :=
  ∀ (v : Val) (dr : DR) (rest : Bytes), hasType t v = true → (serialize t v).length < 2 ^ 32 →
    dr.scope = (serialize t v).length → dr.i ≤ dr.max → dr.avail = serialize t v ++ rest →
    Ok (decode h t dr) (fun r => r.2.avail = rest)

/-- what the decoder of a leaf type needs: any scope of at least `fixedSize` bytes -/
def LeafComplete (h : HashFn) (t : Ty) : Prop :=
  ∀ (v : Val) (dr : DR) (rest : Bytes), hasType t v = true →
    dr.i + t.fixedSize ≤ dr.max → dr.avail = serialize t v ++ rest →
    Ok (decode h t dr) (fun r => r.2.avail = rest)

theorem LeafComplete.complete {h : HashFn} {t : Ty} (hl : LeafComplete h t)
    (hfx : t.isFixed = true) : Complete h t := by
  intro v dr rest hv hlt hsc hi hav
  apply hl v dr rest hv _ hav
  rw [serialize_fixed_length v t hfx hv] at hsc
  simp only [DR.scope] at hsc
  omega

/-- a child decoder run in the sub-scope holding exactly the child's encoding -/
theorem inSub_decode_complete {h : HashFn} {t : Ty} (hc : Complete h t) {v : Val} {dr : DR}
    {rest : Bytes} (hv : hasType t v = true) (hlt : (serialize t v).length < 2 ^ 32)
    (hav : dr.avail = serialize t v ++ rest) (hsc : (serialize t v).length ≤ dr.scope) :
    Ok (dr.inSub (serialize t v).length (fun d => decode h t d)) (fun r => r.2.avail = rest ∧
      r.2.i = dr.i ∧ r.2.max = dr.max) := by
  have hd := hc v { i := 0, max := (serialize t v).length, avail := serialize t v } []
    hv hlt (by simp [DR.scope]) (Nat.zero_le _) (by simp)
  have := inSub_complete (f := fun d => decode h t d) (P := fun _ => True) hav hsc
    (hd.mono (fun r hr => ⟨trivial, hr⟩))
  exact this.mono (fun r hr => hr.2)

/-! ### leaf types -/

theorem uint_leafComplete (h : HashFn) (b : Nat) : LeafComplete h (.uint b) := by
  intro v dr rest hv hsc hav
  cases v <;> simp [hasType] at hv
  rename_i n
  simp only [serialize] at hav
  simp only [Ty.fixedSize] at hsc
  have hr := read_complete hav (by simpa using hsc)
  rw [leBytes_length] at hr
  rw [decode]
  apply Ok.bind hr
  rintro ⟨bs, dr'⟩ ⟨_, h2, _, _⟩
  exact Ok.pure h2

theorem bytesN_leafComplete (h : HashFn) (k : Nat) : LeafComplete h (.bytesN k) := by
  intro v dr rest hv hsc hav
  cases v <;> simp [hasType] at hv
  rename_i bs
  simp only [serialize] at hav
  simp only [Ty.fixedSize] at hsc
  have hr := read_complete hav (by omega)
  rw [hv] at hr
  rw [decode]
  apply Ok.bind hr
  rintro ⟨bs, dr'⟩ ⟨_, h2, _, _⟩
  exact Ok.pure h2

theorem bool_leafComplete (h : HashFn) : LeafComplete h .bool := by
  intro v dr rest hv hsc hav
  cases v <;> simp [hasType] at hv
  rename_i b
  simp only [serialize] at hav
  simp only [Ty.fixedSize] at hsc
  have hr := read_complete hav (by simpa using hsc)
  simp only [List.length_singleton] at hr
  rw [decode]
  apply Ok.bind hr
  rintro ⟨bs, dr'⟩ ⟨h1, h2, _, _⟩
  simp only at h1 h2
  subst h1
  simp only []
  cases b <;> exact Ok.ite_err (by decide) (Ok.pure h2)

/-! ### bit packing: the last byte -/

theorem packBits_getLast? (bs : List Bool) (hne : 0 < bs.length) :
    (packBits bs).getLast? =
      some (byteOfBits ((bs.drop (8 * ((bs.length + 7) / 8 - 1))).take 8)) := by
  have hlen := packBits_length bs
  have hlt : (packBits bs).length - 1 < (packBits bs).length := by omega
  rw [List.getLast?_eq_getElem?, List.getElem?_eq_getElem hlt, packBits_getElem, hlen]

/-- the padding bits of a packed bitvector are zero -/
theorem byteOfBits_mod (l : List Bool) (h8 : l.length ≤ 8) :
    (byteOfBits l).toNat % 2 ^ l.length = (byteOfBits l).toNat := by
  rw [byteOfBits_toNat l h8]
  exact Nat.mod_eq_of_lt (bitsVal_lt l)

/-- the delimiter byte: non-zero, its highest set bit is the number of data bits in it -/
theorem byteOfBits_delim (l : List Bool) (h8 : l.length < 8) :
    byteOfBits (l ++ [true]) ≠ 0 ∧ byteBitIndex (byteOfBits (l ++ [true])) = l.length ∧
      (byteOfBits (l ++ [true])).toNat - 2 ^ l.length = bitsVal l := by
  have hn : (byteOfBits (l ++ [true])).toNat = bitsVal l + 2 ^ l.length := by
    rw [byteOfBits_toNat _ (by simp; omega), bitsVal_snoc_true]
  have hlt := bitsVal_lt l
  have hpos : 0 < 2 ^ l.length := Nat.two_pow_pos _
  refine ⟨?_, ?_, by omega⟩
  · intro h0
    rw [h0] at hn
    simp at hn
    omega
  · unfold byteBitIndex
    rw [hn]
    apply (Nat.log2_eq_iff (by omega)).mpr
    rw [Nat.pow_succ]
    omega

/-! ### bitvector -/

theorem bitvector_complete (h : HashFn) (k : Nat) : Complete h (.bitvector k) := by
  intro v dr rest hv hlt hsc hi hav
  cases v <;> simp [hasType] at hv
  rename_i bits
  simp only [serialize] at hsc hav
  have hlen : (packBits bits).length = (k + 7) / 8 := by rw [packBits_length, hv]
  rw [hlen] at hsc
  have hr := read_complete hav (by simp only [DR.scope] at hsc; omega)
  rw [hlen, ← hsc] at hr
  rw [decode]
  simp only []
  apply Ok.ite_err (by omega)
  apply Ok.bind hr
  rintro ⟨bs, dr'⟩ ⟨h1, h2, _, _⟩
  simp only at h1 h2
  subst h1
  simp only []
  apply Ok.ite_err
  · by_cases hr8 : k % 8 = 0
    · simp [hr8]
    · have hpos : 0 < bits.length := by omega
      have hcl : ((bits.drop (8 * ((bits.length + 7) / 8 - 1))).take 8).length = k % 8 := by
        rw [List.length_take, List.length_drop, hv]; omega
      have hm := byteOfBits_mod _ (Nat.le_of_lt (by rw [hcl]; omega : _ < 8))
      rw [hcl] at hm
      rw [packBits_getLast? bits hpos]
      simp [hm]
  · apply Ok.bind (Ok.orNil (fill_bytes_ok h (packBits bits) ((k + 255) / 256)
      (by rw [hlen, bitvector_chunks]; exact Nat.le_refl _)))
    intro n _
    exact Ok.pure h2

/-! ### bitlist -/

theorem bitlist_complete (h : HashFn) (lim : Nat) : Complete h (.bitlist lim) := by
  intro v dr rest hv hlt hsc hi hav
  cases v <;> simp [hasType] at hv
  rename_i bits
  simp only [serialize] at hsc hav
  have hlen : (packBits (bits ++ [true])).length = bits.length / 8 + 1 := by
    rw [packBits_length, List.length_append, List.length_singleton]; omega
  rw [hlen] at hsc
  have hr := read_complete hav (by simp only [DR.scope] at hsc; omega)
  rw [hlen, ← hsc] at hr
  -- the last byte holds the remaining data bits and the delimiter
  have htl : (bits.drop (8 * (bits.length / 8))).length = bits.length % 8 := by
    rw [List.length_drop]; omega
  have hlast : (packBits (bits ++ [true])).getLast? =
      some (byteOfBits (bits.drop (8 * (bits.length / 8)) ++ [true])) := by
    rw [packBits_getLast? _ (by simp)]
    have h1 : ((bits ++ [true]).length + 7) / 8 - 1 = bits.length / 8 := by
      rw [List.length_append, List.length_singleton]; omega
    rw [h1, List.drop_append_of_le_length (by omega),
      List.take_of_length_le (by rw [List.length_append, htl, List.length_singleton]; omega)]
  obtain ⟨hne, hdbi, _⟩ := byteOfBits_delim (bits.drop (8 * (bits.length / 8))) (by omega)
  rw [decode]
  simp only []
  apply Ok.ite_err (by omega)
  apply Ok.ite_err (by omega)
  apply Ok.bind hr
  rintro ⟨bs, dr'⟩ ⟨h1, h2, _, _⟩
  simp only at h1 h2
  subst h1
  simp only [hlast]
  apply Ok.ite_err hne
  split
  · exact Ok.pure h2
  · simp only [hdbi]
    apply Ok.ite_err (by omega)
    refine Ok.bind (Q := fun _ => True) (Ok.orNil ?_) (fun c _ => Ok.pure h2)
    apply fill_bytes_ok
    split
    · rw [List.length_dropLast, hlen]; omega
    · rw [List.length_append, List.length_dropLast, hlen]
      simp only [List.length_cons, List.length_nil]
      omega

end ZtypV.DecodeProofs
