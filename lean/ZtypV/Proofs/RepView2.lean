/-
The representation relation `Rep`, part 2: the typed getters on any `Rep` backing return the
components of the value (`rep_getters`).  Navigation goes through `shape_get` /
`listShape_get` / `listShape_length` of Proofs/Shape.lean only.
-/
import ZtypV.Proofs.RepView1
import ZtypV.Proofs.ViewGetMain
namespace ZtypV
open View

/-! ### reads through an abstract getter

`get i` stands for `subtreeGet n d i` (vector-like views, via `shape_get`) or
`subtreeGet n (d + 1) i` (list-like views, via `listShape_get`). -/

theorem packedNodes_length (bs : Bytes) : (packedNodes bs).length = (bs.length + 31) / 32 := by
  simp [packedNodes, bytesIntoNodes]

theorem packedNodes_getElem (bs : Bytes) (i : Nat) (hi : i < (packedNodes bs).length) :
    (packedNodes bs)[i] = .leaf (chunkOf (bs.drop (32 * i))) := by
  simp only [packedNodes, bytesIntoNodes, List.getElem_map, chunks_getElem]

/-- all bits of a bitfield whose packed nodes are served by `get` -/
theorem bits_read_get (get : Nat → R Node) (bs : List Bool)
    (hget : ∀ i (hi : i < (packedNodes (packBits bs)).length),
      get i = .ok (packedNodes (packBits bs))[i]) :
    (List.range bs.length).mapM (fun i => do
      let x ← get (i / 256)
      let r ← asLeaf x
      (Except.ok (bitFromChunk r i) : R Bool)) = .ok bs := by
  apply mapM_range_ok
  intro i hi
  have hi' : i / 256 < (packedNodes (packBits bs)).length := by
    rw [packedNodes_length, packBits_length]; omega
  rw [hget _ hi', packedNodes_getElem]
  simp only [R.bind_ok, asLeaf_leaf, bitFromChunk]
  rw [packed_bit, List.getD_eq_getElem?_getD, List.getElem?_eq_getElem hi]; rfl

/-- all packed elements of a uint series whose packed nodes are served by `get` -/
theorem basics_read_get (get : Nat → R Node) (b : Nat) (vs : List Val)
    (hb : b = 1 ∨ b = 2 ∨ b = 4 ∨ b = 8 ∨ b = 32) (hall : allHaveType (.uint b) vs = true)
    (hget : ∀ i (hi : i < (packedNodes (serList (.uint b) vs).flatten).length),
      get i = .ok (packedNodes (serList (.uint b) vs).flatten)[i]) :
    (List.range vs.length).mapM (fun i => do
      let x ← get (i / perNode b)
      let r ← asLeaf x
      basicFromChunk b r (i % perNode b)) = .ok vs := by
  apply mapM_range_ok
  intro i hi
  obtain ⟨h1, h2⟩ := basic_read b vs i hi hb hall
  have hi' : i / perNode b < (packedNodes (serList (.uint b) vs).flatten).length := by
    rw [packedNodes_length]; exact h1
  rw [hget _ hi', packedNodes_getElem]
  simp only [R.bind_ok, asLeaf_leaf]
  exact h2

/-- every element of a complex series whose element nodes are served by `get` -/
theorem elems_get {β : Type} (get : Nat → R Node) (f : Node → R β) (xs : List Node)
    (out : List β) (hlen : xs.length = out.length)
    (hget : ∀ i (hi : i < xs.length), get i = .ok xs[i])
    (helem : ∀ i (h1 : i < xs.length) (h2 : i < out.length), f xs[i] = .ok out[i]) :
    (List.range out.length).mapM (fun i => do let c ← get i; f c) = .ok out := by
  apply mapM_range_ok
  intro i hi
  have hi' : i < xs.length := by omega
  rw [hget i hi']
  exact helem i hi' hi

/-! ### 4. getters -/

/-- induction predicate of `rep_getters` -/
def RepGet (h : HashFn) (v : Val) : Prop :=
  ∀ (t : Ty) (n : Node), t.wf = true → inRange t = true → hasType t v = true →
    Rep h t v n → viewVal t n = .ok v

theorem repGet_elems (h : HashFn) (e : Ty) (vs : List Val) (xs : List Node)
    (get : Nat → R Node) (ih : ∀ v ∈ vs, RepGet h v) (hwe : e.wf = true)
    (hre : inRange e = true) (hall : allHaveType e vs = true) (hrl : RepList h e vs xs)
    (hget : ∀ i (hi : i < xs.length), get i = .ok xs[i]) :
    (List.range vs.length).mapM (fun i => do let c ← get i; viewVal e c) = .ok vs :=
  elems_get get (viewVal e) xs vs (repList_length hrl) hget (fun i h1 h2 =>
    ih vs[i] (List.getElem_mem h2) e xs[i] hwe hre (allHaveType_getElem e vs hall i h2)
      (repList_getElem hrl i h2 h1))

theorem repGet_vector (h : HashFn) (e : Ty) (k : Nat) (vs : List Val) (n : Node)
    (ih : ∀ v ∈ vs, RepGet h v) (hw : (Ty.vector e k).wf = true)
    (hr : inRange (.vector e k) = true) (ht : hasType (.vector e k) (.seq vs) = true)
    (hrep : Rep h (.vector e k) (.seq vs) n) : viewVal (.vector e k) n = .ok (.seq vs) := by
  simp only [hasType, Bool.and_eq_true, beq_iff_eq] at ht
  simp only [Ty.wf, Bool.and_eq_true, decide_eq_true_eq] at hw
  simp only [inRange, Bool.and_eq_true, decide_eq_true_eq] at hr
  obtain ⟨hlen, hall⟩ := ht
  cases hb : isBasicElem e
  · simp only [Rep, hb, Bool.false_eq_true, if_false] at hrep
    obtain ⟨_, xs, hrl, hs⟩ := hrep
    have hd : coverDepth k < 64 := by rw [← seriesDepth_complex hb k]; exact hr.1
    have hm := repGet_elems h e vs xs (subtreeGet n (coverDepth k)) ih hw.2 hr.2 hall hrl
      (fun i hi => shape_get h hs hi hd)
    rw [hlen] at hm
    simp only [viewVal, hb, Bool.false_eq_true, if_false, hm, R.bind_ok]
  · obtain ⟨b, rfl⟩ := isBasicElem_uint hb
    simp only [Rep, isBasicElem, if_true] at hrep
    have hm := basics_read_get (subtreeGet n (seriesDepth (.uint b) k)) b vs (uint_wf_le hw.2) hall
      (fun i hi => shape_get h hrep.2 hi hr.1)
    rw [hlen] at hm
    simp only [viewVal, isBasicElem, if_true, readBasics, Ty.fixedSize, hm, R.bind_ok]

theorem repGet_list (h : HashFn) (e : Ty) (lim : Nat) (vs : List Val) (n : Node)
    (ih : ∀ v ∈ vs, RepGet h v) (hw : (Ty.list e lim).wf = true)
    (hr : inRange (.list e lim) = true) (ht : hasType (.list e lim) (.seq vs) = true)
    (hrep : Rep h (.list e lim) (.seq vs) n) : viewVal (.list e lim) n = .ok (.seq vs) := by
  simp only [hasType, Bool.and_eq_true, decide_eq_true_eq] at ht
  simp only [Ty.wf] at hw
  simp only [inRange, Bool.and_eq_true, decide_eq_true_eq] at hr
  obtain ⟨hlen, hall⟩ := ht
  cases hb : isBasicElem e
  · simp only [Rep, hb, Bool.false_eq_true, if_false] at hrep
    obtain ⟨_, xs, hrl, hs⟩ := hrep
    have hsd := seriesDepth_complex hb lim
    have hd : coverDepth lim + 1 < 64 := by rw [← hsd]; omega
    have hm := repGet_elems h e vs xs (subtreeGet n (coverDepth lim + 1)) ih hw hr.2 hall hrl
      (fun i hi => listShape_get h hs hi hd)
    simp only [viewVal, hb, Bool.false_eq_true, if_false]
    rw [listShape_length h hs hlen (by omega), R.bind_ok, hm, R.bind_ok]
  · obtain ⟨b, rfl⟩ := isBasicElem_uint hb
    simp only [Rep, isBasicElem, if_true] at hrep
    have hm := basics_read_get (subtreeGet n (seriesDepth (.uint b) lim + 1)) b vs (uint_wf_le hw)
      hall (fun i hi => listShape_get h hrep.2 hi hr.1.2)
    simp only [viewVal, isBasicElem, if_true, Ty.fixedSize]
    rw [listShape_length h hrep.2 hlen (by omega), R.bind_ok, hm, R.bind_ok]

theorem repGet_container (h : HashFn) (fs : List Ty) (vs : List Val) (n : Node)
    (ih : ∀ v ∈ vs, RepGet h v) (hw : (Ty.container fs).wf = true)
    (hr : inRange (.container fs) = true) (ht : hasType (.container fs) (.seq vs) = true)
    (hrep : Rep h (.container fs) (.seq vs) n) : viewVal (.container fs) n = .ok (.seq vs) := by
  simp only [hasType] at ht
  simp only [Ty.wf, Bool.and_eq_true] at hw
  simp only [inRange, Bool.and_eq_true, decide_eq_true_eq] at hr
  simp only [Rep] at hrep
  obtain ⟨xs, hrf, hs⟩ := hrep
  obtain ⟨hl, hlen⟩ := repFields_length hrf
  have hfields : viewFields fs n (coverDepth fs.length) 0 = .ok vs := by
    apply viewFields_ok n _ fs vs 0 hlen
    intro j h1 h2
    have h3 : j < xs.length := by omega
    refine ⟨xs[j], ?_, ?_⟩
    · rw [Nat.zero_add]; exact shape_get h hs h3 hr.1
    · exact ih vs[j] (List.getElem_mem h2) fs[j] xs[j]
        (wfAll_get fs j _ hw.2 (getElem?_of_lt fs j h1))
        (inRangeAll_get fs j _ hr.2 (getElem?_of_lt fs j h1))
        (fieldsHaveType_getElem fs vs ht j h1 h2) (repFields_getElem hrf j h1 h2 h3)
  simp only [viewVal, hfields, R.bind_ok]

theorem repGet_union (h : HashFn) (hasNone : Bool) (opts : List Ty) (sel : Nat) (v : Val)
    (n : Node) (ih : RepGet h v) (hw : (Ty.union hasNone opts).wf = true)
    (hr : inRange (.union hasNone opts) = true)
    (ht : hasType (.union hasNone opts) (.union sel v) = true)
    (hrep : Rep h (.union hasNone opts) (.union sel v) n) :
    viewVal (.union hasNone opts) n = .ok (.union sel v) := by
  simp only [Ty.wf, Bool.and_eq_true, decide_eq_true_eq] at hw
  simp only [inRange] at hr
  simp only [hasType] at ht
  cases ho : unionOpt hasNone opts sel with
  | none =>
    simp only [ho, Bool.and_eq_true, beq_iff_eq] at ht
    obtain ⟨⟨hn, hsel⟩, hv⟩ := ht
    subst hn; subst hsel
    cases v <;> simp at hv
    obtain ⟨_, _, hn⟩ := rep_union_none.mp hrep
    subst hn
    simp only [viewVal, getNode_pair_true, getNode_pair_false, getNode_nil,
      R.bind_ok, asLeaf_leaf, chunkOf_single_drop, Bool.false_eq_true, if_false, chunkOf_single_getD]
    simp
  | some t =>
    simp only [ho] at ht
    obtain ⟨hlt, hnz, hget⟩ := unionOpt_lt ho
    have hvn : v ≠ .none := by
      intro hv; subst hv; rw [View.hasType_none] at ht; cases ht
    have hsel : (UInt8.ofNat sel).toNat = sel := by
      rw [UInt8.toNat_ofNat']; apply Nat.mod_eq_of_lt; omega
    obtain ⟨c, hrc, hn⟩ := (rep_union_some ho hvn).mp hrep
    subst hn
    have hrec := ih t c (wfAll_get opts _ t hw.1.2 hget) (inRangeAll_get opts _ t hr hget) ht hrc
    simp only [viewVal, getNode_pair_true, getNode_pair_false, getNode_nil,
      R.bind_ok, asLeaf_leaf, chunkOf_single_drop, Bool.false_eq_true, if_false,
      chunkOf_single_getD, hsel]
    rw [if_neg (by omega)]
    simp only [hnz, Bool.false_eq_true, if_false, viewOpt_get opts _ t c hget, hrec, R.bind_ok]

theorem repGet_all (h : HashFn) : ∀ v, RepGet h v := by
  intro v
  induction v using Val.induct with
  | num k =>
    intro t n hw hr ht hrep
    cases t <;> simp [hasType] at ht
    rename_i b
    simp only [Rep] at hrep
    subst hrep
    have hb := uint_wf_le hw
    have h1 := chunkOf_take_self (leBytes b k) (by simp; omega)
    rw [leBytes_length] at h1
    have h2 : leNat (leBytes b k) = k := by rw [leNat_leBytes]; exact Nat.mod_eq_of_lt ht
    simp only [viewVal, asLeaf_leaf, R.bind_ok, h1, h2]
  | bool b =>
    intro t n hw hr ht hrep
    cases t <;> simp [hasType] at ht
    simp only [Rep] at hrep
    subst hrep
    simp only [viewVal, asLeaf_leaf, R.bind_ok, chunkOf_single_getD]
    cases b <;> simp
  | bytes bs =>
    intro t n hw hr ht hrep
    cases t <;> simp [hasType] at ht
    simp only [Rep] at hrep
    subst hrep
    simp only [Ty.wf, Bool.and_eq_true, decide_eq_true_eq] at hw
    have := chunkOf_take_self bs (by omega)
    rw [ht] at this
    simp only [viewVal, asLeaf_leaf, R.bind_ok, this]
  | bits bs =>
    intro t n hw hr ht hrep
    cases t <;> try (simp [hasType] at ht; done)
    · rename_i k
      simp only [hasType, beq_iff_eq] at ht
      simp only [inRange, decide_eq_true_eq] at hr
      simp only [Rep] at hrep
      have hm := bits_read_get (subtreeGet n (bitDepth k)) bs
        (fun i hi => shape_get h hrep.2 hi hr)
      rw [ht] at hm
      simp only [viewVal, readBits, hm, R.bind_ok]
    · rename_i lim
      simp only [hasType, decide_eq_true_eq] at ht
      simp only [inRange, Bool.and_eq_true, decide_eq_true_eq] at hr
      simp only [Rep] at hrep
      have hm := bits_read_get (subtreeGet n (bitDepth lim + 1)) bs
        (fun i hi => listShape_get h hrep.2 hi hr.2)
      simp only [viewVal]
      rw [listShape_length h hrep.2 ht (by omega), R.bind_ok, hm, R.bind_ok]
  | seq vs ih =>
    intro t n hw hr ht hrep
    cases t <;> try (simp [hasType] at ht; done)
    · exact repGet_vector h _ _ vs n ih hw hr ht hrep
    · exact repGet_list h _ _ vs n ih hw hr ht hrep
    · exact repGet_container h _ vs n ih hw hr ht hrep
  | none =>
    intro t n hw hr ht hrep
    rw [View.hasType_none] at ht; cases ht
  | union sel v ih =>
    intro t n hw hr ht hrep
    cases t <;> try (simp [hasType] at ht; done)
    exact repGet_union h _ _ sel v n ih hw hr ht hrep

/-- 4. reading any `Rep` backing through the typed getters returns the value -/
theorem rep_getters (h : HashFn) {t : Ty} {v : Val} {n : Node} (hwf : t.wf = true)
    (hr : inRange t = true) (hty : hasType t v = true) (hrep : Rep h t v n) :
    viewVal t n = .ok v :=
  repGet_all h v t n hwf hr hty hrep

end ZtypV
