/-
Bit packing facts for the bitvector / bitlist decoders (C03): every byte string with clean
padding is `packBits` of a bit list; a byte string whose last byte is non-zero is
`packBits (bits ++ [true])`.  Byte-level facts are decided over the whole 8-bit table.
-/
import ZtypV.Model.Decode
namespace ZtypV.DecodeProofs
open ZtypV ZtypV.View

def bitsOfByte (b : UInt8) : List Bool := (List.range 8).map fun i => b.toNat.testBit i

def unpackBits : Bytes → List Bool
  | [] => []
  | b :: bs => bitsOfByte b ++ unpackBits bs

@[simp] theorem bitsOfByte_length (b : UInt8) : (bitsOfByte b).length = 8 := by
  simp [bitsOfByte]

theorem unpackBits_length (bs : Bytes) : (unpackBits bs).length = 8 * bs.length := by
  induction bs with
  | nil => rfl
  | cons b bs ih => simp only [unpackBits, List.length_append, bitsOfByte_length, ih, List.length_cons]; omega

theorem unpackBits_append (a b : Bytes) : unpackBits (a ++ b) = unpackBits a ++ unpackBits b := by
  induction a with
  | nil => rfl
  | cons x xs ih => simp [unpackBits, ih]

/-! ### packBits structure -/

theorem packBits_nil : packBits [] = [] := by
  simp [packBits]

theorem packBits_append8 (l rest : List Bool) (hl : l.length = 8) :
    packBits (l ++ rest) = byteOfBits l :: packBits rest := by
  unfold packBits
  have h1 : ((l ++ rest).length + 7) / 8 = (rest.length + 7) / 8 + 1 := by
    rw [List.length_append, hl]; omega
  rw [h1, List.range_succ_eq_map, List.map_cons, List.map_map]
  congr 1
  · simp [hl]
  · apply List.map_congr_left
    intro i _
    simp only [Function.comp]
    have : 8 * (i + 1) = l.length + 8 * i := by omega
    rw [this, List.drop_length_add_append]

theorem packBits_short (l : List Bool) (h0 : 0 < l.length) (h8 : l.length ≤ 8) :
    packBits l = [byteOfBits l] := by
  unfold packBits
  have h1 : (l.length + 7) / 8 = 1 := by omega
  rw [h1]
  simp [List.range_succ, List.take_of_length_le h8]

theorem packBits_unpack_append (init : Bytes) (tail : List Bool)
    (hb : ∀ b : UInt8, byteOfBits (bitsOfByte b) = b) :
    packBits (unpackBits init ++ tail) = init ++ packBits tail := by
  induction init with
  | nil => rfl
  | cons b bs ih =>
    simp only [unpackBits, List.append_assoc, List.cons_append]
    rw [packBits_append8 _ _ (bitsOfByte_length b), ih, hb]

/-! ### byte tables -/

set_option maxRecDepth 100000 in
theorem tbl_full : ∀ n : Fin 256, byteOfBits (bitsOfByte (UInt8.ofNat n.val)) = UInt8.ofNat n.val := by
  decide

theorem byteOfBits_bitsOfByte (b : UInt8) : byteOfBits (bitsOfByte b) = b := by
  have := tbl_full ⟨b.toNat, UInt8.toNat_lt b⟩
  simpa [UInt8.ofNat_toNat] using this

set_option maxRecDepth 100000 in
theorem tbl_pad : ∀ r : Fin 8, ∀ n : Fin 256, n.val % 2 ^ r.val = n.val →
    byteOfBits ((bitsOfByte (UInt8.ofNat n.val)).take r.val) = UInt8.ofNat n.val := by
  decide

theorem byteOfBits_take (b : UInt8) (r : Nat) (hr : r < 8) (hp : b.toNat % 2 ^ r = b.toNat) :
    byteOfBits ((bitsOfByte b).take r) = b := by
  have := tbl_pad ⟨r, hr⟩ ⟨b.toNat, UInt8.toNat_lt b⟩ hp
  simpa [UInt8.ofNat_toNat] using this

set_option maxRecDepth 100000 in
theorem tbl_delim : ∀ n : Fin 256, n.val ≠ 0 →
    Nat.log2 n.val < 8 ∧
    byteOfBits ((bitsOfByte (UInt8.ofNat n.val)).take (Nat.log2 n.val) ++ [true]) = UInt8.ofNat n.val ∧
    byteOfBits ((bitsOfByte (UInt8.ofNat n.val)).take (Nat.log2 n.val))
      = UInt8.ofNat (n.val - 2 ^ Nat.log2 n.val) := by
  decide

theorem byte_delim (b : UInt8) (hne : b ≠ 0) :
    byteBitIndex b < 8 ∧
    byteOfBits ((bitsOfByte b).take (byteBitIndex b) ++ [true]) = b ∧
    byteOfBits ((bitsOfByte b).take (byteBitIndex b)) = UInt8.ofNat (b.toNat - 2 ^ byteBitIndex b) := by
  have hn : b.toNat ≠ 0 := by
    intro h0
    apply hne
    have : UInt8.ofNat b.toNat = UInt8.ofNat 0 := by rw [h0]
    rw [UInt8.ofNat_toNat] at this
    exact this
  have := tbl_delim ⟨b.toNat, UInt8.toNat_lt b⟩ hn
  simpa [UInt8.ofNat_toNat, byteBitIndex] using this

/-! ### decoding bit strings -/

theorem eq_dropLast_append_of_getLast? {α : Type} {l : List α} {a : α} (h : l.getLast? = some a) :
    l = l.dropLast ++ [a] := by
  have hne : l ≠ [] := by
    intro hn; subst hn; cases h
  have h2 := List.dropLast_concat_getLast hne
  rw [List.getLast?_eq_some_getLast hne] at h
  cases h
  exact h2.symm

/-- a byte string of the right length with clean padding is the packing of `k` bits -/
theorem bitvector_bits (k : Nat) (bs : Bytes) (hlen : bs.length = (k + 7) / 8)
    (hpad : k % 8 ≠ 0 → ∀ last, bs.getLast? = some last → last.toNat % 2 ^ (k % 8) = last.toNat) :
    ∃ bits : List Bool, bits.length = k ∧ packBits bits = bs := by
  by_cases hr : k % 8 = 0
  · refine ⟨unpackBits bs, ?_, ?_⟩
    · rw [unpackBits_length, hlen]; omega
    · have := packBits_unpack_append bs [] byteOfBits_bitsOfByte
      simpa [packBits_nil] using this
  · have hne : bs ≠ [] := by
      intro hn; subst hn; simp at hlen; omega
    have hl : bs.getLast? = some (bs.getLast hne) := List.getLast?_eq_some_getLast hne
    generalize bs.getLast hne = last at hl
    have hsplit := eq_dropLast_append_of_getLast? hl
    have hp := hpad hr last hl
    have hr8 : k % 8 < 8 := Nat.mod_lt _ (by omega)
    refine ⟨unpackBits bs.dropLast ++ (bitsOfByte last).take (k % 8), ?_, ?_⟩
    · rw [List.length_append, unpackBits_length, List.length_dropLast, List.length_take,
        bitsOfByte_length, hlen]
      omega
    · rw [packBits_unpack_append _ _ byteOfBits_bitsOfByte,
        packBits_short _ (by rw [List.length_take, bitsOfByte_length]; omega)
          (by rw [List.length_take, bitsOfByte_length]; omega),
        byteOfBits_take last _ hr8 hp]
      exact hsplit.symm

/-- a byte string with non-zero last byte is a delimited bit string -/
theorem bitlist_bits (bs : Bytes) (last : UInt8) (hl : bs.getLast? = some last) (hne : last ≠ 0) :
    ∃ bits : List Bool, bits.length = (bs.length - 1) * 8 + byteBitIndex last ∧
      packBits (bits ++ [true]) = bs ∧
      packBits bits = (if byteBitIndex last = 0 then bs.dropLast
        else bs.dropLast ++ [UInt8.ofNat (last.toNat - 2 ^ byteBitIndex last)]) := by
  obtain ⟨h8, hd1, hd2⟩ := byte_delim last hne
  have hsplit := eq_dropLast_append_of_getLast? hl
  refine ⟨unpackBits bs.dropLast ++ (bitsOfByte last).take (byteBitIndex last), ?_, ?_, ?_⟩
  · rw [List.length_append, unpackBits_length, List.length_dropLast, List.length_take,
      bitsOfByte_length]
    omega
  · rw [List.append_assoc, packBits_unpack_append _ _ byteOfBits_bitsOfByte,
      packBits_short _ (by simp) (by simp [List.length_take]; omega), hd1]
    exact hsplit.symm
  · rw [packBits_unpack_append _ _ byteOfBits_bitsOfByte]
    split
    · rename_i h0
      rw [h0]; simp [packBits_nil]
    · rename_i h0
      rw [packBits_short _ (by rw [List.length_take, bitsOfByte_length]; omega)
          (by rw [List.length_take, bitsOfByte_length]; omega), hd2]

end ZtypV.DecodeProofs
