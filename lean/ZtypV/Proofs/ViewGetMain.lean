/-
C02, getters half: reading a constructed view through the typed getters (`Get`, `Length`,
`Selector`, `Value`, bit and packed-element reads) returns the components of the value.
-/
import ZtypV.Proofs.ViewShape
namespace ZtypV.View

def GetOk (h : HashFn) (v : Val) : Prop :=
  ∀ (t : Ty) (n : Node), t.wf = true → inRange t = true → hasType t v = true →
    construct h t v = .ok n → viewVal t n = .ok v

theorem viewOpt_get : ∀ (opts : List Ty) (k : Nat) (t : Ty) (c : Node), opts[k]? = some t →
    viewOpt opts k c = viewVal t c := by
  intro opts
  induction opts with
  | nil => intro k t c h; simp at h
  | cons a opts ih =>
    intro k t c h
    cases k with
    | zero => simp at h; subst h; simp only [viewOpt]
    | succ k => simp only [viewOpt]; exact ih k t c (by simpa using h)

theorem viewFields_ok (n : Node) (d : Nat) : ∀ (ts : List Ty) (vs : List Val) (i : Nat),
    ts.length = vs.length →
    (∀ j (h1 : j < ts.length) (h2 : j < vs.length), ∃ c, subtreeGet n d (i + j) = .ok c ∧
      viewVal ts[j] c = .ok vs[j]) →
    viewFields ts n d i = .ok vs := by
  intro ts
  induction ts with
  | nil =>
    intro vs i hl _
    cases vs with
    | nil => simp only [viewFields]
    | cons _ _ => simp at hl
  | cons t ts ih =>
    intro vs i hl hj
    cases vs with
    | nil => simp at hl
    | cons v vs =>
      obtain ⟨c, hc1, hc2⟩ := hj 0 (by simp) (by simp)
      simp only [Nat.add_zero, List.getElem_cons_zero] at hc1 hc2
      have hrest := ih vs (i + 1) (by simpa using hl) (fun j h1 h2 => by
        obtain ⟨c, h3, h4⟩ := hj (j + 1) (by simp; omega) (by simp; omega)
        refine ⟨c, ?_, by simpa using h4⟩
        rw [← h3]; congr 1; omega)
      simp only [viewFields, hc1, hc2, hrest, R.bind_ok]

theorem hasType_uint_inv {b : Nat} {v : Val} (h : hasType (.uint b) v = true) :
    ∃ m, v = .num m ∧ m < 256 ^ b := by
  cases v <;> simp [hasType] at h
  exact ⟨_, rfl, h⟩

/-- all bits of a bitfield contents subtree -/
theorem bits_read (h : HashFn) (d : Nat) (bs : List Bool) (c : Node)
    (hf : fillToContents h d (bytesIntoNodes (packBits bs)) = .ok c) (hd : d < 64) :
    (List.range bs.length).mapM (fun i => do
      let x ← subtreeGet c d (i / 256)
      let r ← asLeaf x
      (Except.ok (bitFromChunk r i) : R Bool)) = .ok bs := by
  apply mapM_range_ok
  intro i hi
  have hi' : i / 256 < (bytesIntoNodes (packBits bs)).length := by
    simp [bytesIntoNodes]; omega
  rw [get_fill hf hi' hd]
  simp only [bytesIntoNodes, List.getElem_map, chunks_getElem, R.bind_ok, asLeaf_leaf, bitFromChunk]
  rw [packed_bit, List.getD_eq_getElem?_getD, List.getElem?_eq_getElem hi]; rfl

/-- packed element `i` of a uint series read from the chunk that holds it -/
theorem basic_read (b : Nat) (vs : List Val) (i : Nat) (hi : i < vs.length)
    (hb : b = 1 ∨ b = 2 ∨ b = 4 ∨ b = 8 ∨ b = 32) (hall : allHaveType (.uint b) vs = true) :
    i / perNode b < ((serList (.uint b) vs).flatten.length + 31) / 32 ∧
    basicFromChunk b (chunkOf ((serList (.uint b) vs).flatten.drop (32 * (i / perNode b))))
      (i % perNode b) = .ok vs[i] := by
  have hfl := basic_flatten_length b vs hall
  obtain ⟨m, hm, hlt⟩ := hasType_uint_inv (allHaveType_getElem _ vs hall i hi)
  have hpiece : ((serList (.uint b) vs).flatten.drop (b * i)).take b = leBytes b m := by
    rw [flatten_uniform_drop_take b (serList (.uint b) vs) i (by simpa using hi)]
    · rw [serList_getElem _ vs i hi, hm]; simp only [serialize]
    · intro l hl
      obtain ⟨w, hw, rfl⟩ := mem_serList _ vs l hl
      have := serialize_fixed_length w (.uint b) (uint_isFixed b) (allHaveType_mem _ vs hall w hw)
      simpa [Ty.fixedSize] using this
  have hval : leNat (leBytes b m) = m := by rw [leNat_leBytes]; exact Nat.mod_eq_of_lt hlt
  generalize (serList (.uint b) vs).flatten = bytes at hfl hpiece
  unfold basicFromChunk perNode
  rcases hb with rfl | rfl | rfl | rfl | rfl
  all_goals
    simp only [Nat.reduceDiv, Nat.div_one, Nat.mod_one]
    refine ⟨by omega, ?_⟩
    rw [if_neg (by omega), chunkOf_drop_take _ _ _ (by simp; omega) (by omega), List.drop_drop]
    rw [hm, ← hval, ← hpiece]
    congr 5 <;> omega

theorem basics_read (h : HashFn) (d b : Nat) (vs : List Val) (c : Node)
    (hb : b = 1 ∨ b = 2 ∨ b = 4 ∨ b = 8 ∨ b = 32) (hall : allHaveType (.uint b) vs = true)
    (hf : fillToContents h d (bytesIntoNodes (serList (.uint b) vs).flatten) = .ok c) (hd : d < 64) :
    (List.range vs.length).mapM (fun i => do
      let x ← subtreeGet c d (i / perNode b)
      let r ← asLeaf x
      basicFromChunk b r (i % perNode b)) = .ok vs := by
  apply mapM_range_ok
  intro i hi
  obtain ⟨h1, h2⟩ := basic_read b vs i hi hb hall
  have hi' : i / perNode b < (bytesIntoNodes (serList (.uint b) vs).flatten).length := by
    simpa [bytesIntoNodes] using h1
  rw [get_fill hf hi' hd]
  simp only [bytesIntoNodes, List.getElem_map, chunks_getElem, R.bind_ok, asLeaf_leaf]
  exact h2

theorem get_elems (h : HashFn) (e : Ty) (vs : List Val) (ns : List Node) (n : Node) (d : Nat)
    (ih : ∀ v ∈ vs, GetOk h v) (hwe : e.wf = true) (hre : inRange e = true)
    (hall : allHaveType e vs = true)
    (hcl : constructList h e vs = .ok ns) (hf : fillToContents h d ns = .ok n) (hd : d < 64) :
    (List.range vs.length).mapM (fun i => do let c ← subtreeGet n d i; viewVal e c) = .ok vs := by
  obtain ⟨hl, hel⟩ := constructList_ok h e vs ns hcl
  exact mapM_series (viewVal e) vs hf hd hl (by
    intro i h1 h2
    exact ih vs[i] (List.getElem_mem h2) e ns[i] hwe hre (allHaveType_getElem e vs hall i h2)
      (hel i h2 h1))

theorem mapM_congr_mem {α β : Type} (f g : α → R β) : ∀ (l : List α), (∀ x ∈ l, f x = g x) →
    l.mapM f = l.mapM g := by
  intro l
  induction l with
  | nil => intro _; rfl
  | cons a l ih =>
    intro hfg
    rw [List.mapM_cons, List.mapM_cons, hfg a List.mem_cons_self,
      ih (fun x hx => hfg x (List.mem_cons_of_mem _ hx))]

/-- the same reads through a list view root (one level above the contents) -/
theorem mapM_pair_left {β : Type} (c m : Node) (d k : Nat) (g : Nat → Nat) (f : Nat → Node → R β)
    (hd : d + 1 < 64) (hg : ∀ i, i < k → g i < 2 ^ d) :
    (List.range k).mapM (fun i => do let x ← subtreeGet (.pair c m) (d + 1) (g i); f i x)
      = (List.range k).mapM (fun i => do let x ← subtreeGet c d (g i); f i x) := by
  apply mapM_congr_mem
  intro i hi
  rw [subtreeGet_pair_left c m d (g i) hd (hg i (by simpa using hi))]

theorem get_vector (h : HashFn) (e : Ty) (k : Nat) (vs : List Val) (n : Node)
    (ih : ∀ v ∈ vs, GetOk h v) (hw : (Ty.vector e k).wf = true)
    (hr : inRange (.vector e k) = true) (ht : hasType (.vector e k) (.seq vs) = true)
    (hc : construct h (.vector e k) (.seq vs) = .ok n) :
    viewVal (.vector e k) n = .ok (.seq vs) := by
  simp only [hasType, Bool.and_eq_true, beq_iff_eq] at ht
  simp only [Ty.wf, Bool.and_eq_true, decide_eq_true_eq] at hw
  simp only [inRange, Bool.and_eq_true, decide_eq_true_eq] at hr
  obtain ⟨hlen, hall⟩ := ht
  cases hb : isBasicElem e
  · obtain ⟨ns, hcl, hf⟩ := construct_vector_complex_shape hb hlen hc
    have hd : coverDepth k < 64 := by rw [← seriesDepth_complex hb k]; exact hr.1
    have hm := get_elems h e vs ns n _ ih hw.2 hr.2 hall hcl hf hd
    rw [hlen] at hm
    simp only [viewVal, hb, Bool.false_eq_true, if_false, hm, R.bind_ok]
  · obtain ⟨b, rfl⟩ := isBasicElem_uint hb
    have hf := construct_vector_basic_shape hlen hc
    have hm := basics_read h _ b vs n (uint_wf_le hw.2) hall hf hr.1
    rw [hlen] at hm
    simp only [viewVal, isBasicElem, if_true, readBasics, Ty.fixedSize, hm, R.bind_ok]

theorem get_list (h : HashFn) (e : Ty) (lim : Nat) (vs : List Val) (n : Node)
    (ih : ∀ v ∈ vs, GetOk h v) (hw : (Ty.list e lim).wf = true)
    (hr : inRange (.list e lim) = true) (ht : hasType (.list e lim) (.seq vs) = true)
    (hc : construct h (.list e lim) (.seq vs) = .ok n) :
    viewVal (.list e lim) n = .ok (.seq vs) := by
  simp only [hasType, Bool.and_eq_true, decide_eq_true_eq] at ht
  simp only [Ty.wf] at hw
  simp only [inRange, Bool.and_eq_true, decide_eq_true_eq] at hr
  obtain ⟨hlen, hall⟩ := ht
  cases hb : isBasicElem e
  · obtain ⟨c, ns, hn, hcl, hf⟩ := construct_list_complex_shape hb hlen hc
    subst hn
    have hsd := seriesDepth_complex hb lim
    have hd : coverDepth lim + 1 < 64 := by rw [← hsd]; omega
    have hm := get_elems h e vs ns c _ ih hw hr.2 hall hcl hf (by omega)
    obtain ⟨hl, _⟩ := constructList_ok h e vs ns hcl
    have hfit := fill_ok_length hf
    simp only [viewVal, hb, Bool.false_eq_true, if_false]
    rw [listLength_pair c _ lim hlen hr.1.1, R.bind_ok]
    rw [mapM_pair_left c _ (coverDepth lim) vs.length (fun i => i) (fun _ x => viewVal e x) hd
      (fun i hi => by omega), hm, R.bind_ok]
  · obtain ⟨b, rfl⟩ := isBasicElem_uint hb
    obtain ⟨c, hn, hf⟩ := construct_list_basic_shape hlen hc
    subst hn
    have hbw := uint_wf_le hw
    have hm := basics_read h _ b vs c hbw hall hf (by omega)
    have hfit := fill_ok_length hf
    simp only [bytesIntoNodes, List.length_map, chunks_length] at hfit
    simp only [viewVal, isBasicElem, if_true, Ty.fixedSize]
    rw [listLength_pair c _ lim hlen hr.1.1, R.bind_ok]
    rw [mapM_pair_left c _ (seriesDepth (.uint b) lim) vs.length (fun i => i / perNode b)
      (fun i x => do let r ← asLeaf x; basicFromChunk b r (i % perNode b)) hr.1.2
      (fun i hi => by
        have := (basic_read b vs i hi hbw hall).1
        omega), hm, R.bind_ok]

theorem get_container (h : HashFn) (fs : List Ty) (vs : List Val) (n : Node)
    (ih : ∀ v ∈ vs, GetOk h v) (hw : (Ty.container fs).wf = true)
    (hr : inRange (.container fs) = true) (ht : hasType (.container fs) (.seq vs) = true)
    (hc : construct h (.container fs) (.seq vs) = .ok n) :
    viewVal (.container fs) n = .ok (.seq vs) := by
  simp only [hasType] at ht
  simp only [Ty.wf, Bool.and_eq_true] at hw
  simp only [inRange, Bool.and_eq_true, decide_eq_true_eq] at hr
  have hlen := fieldsHaveType_length fs vs ht
  obtain ⟨ns, hcl, hf⟩ := construct_container_shape hlen hc
  obtain ⟨hl, hel⟩ := constructFields_ok h fs vs ns hlen hcl
  have hfields : viewFields fs n (coverDepth fs.length) 0 = .ok vs := by
    apply viewFields_ok n _ fs vs 0 hlen
    intro j h1 h2
    have h3 : j < ns.length := by omega
    refine ⟨ns[j], ?_, ?_⟩
    · rw [Nat.zero_add]; exact get_fill hf h3 hr.1
    · exact ih vs[j] (List.getElem_mem h2) fs[j] ns[j]
        (wfAll_get fs j _ hw.2 (getElem?_of_lt fs j h1))
        (inRangeAll_get fs j _ hr.2 (getElem?_of_lt fs j h1))
        (fieldsHaveType_getElem fs vs ht j h1 h2) (hel j h1 h2 h3)
  simp only [viewVal, hfields, R.bind_ok]

theorem get_union (h : HashFn) (hasNone : Bool) (opts : List Ty) (sel : Nat) (v : Val) (n : Node)
    (ih : GetOk h v) (hw : (Ty.union hasNone opts).wf = true)
    (hr : inRange (.union hasNone opts) = true)
    (ht : hasType (.union hasNone opts) (.union sel v) = true)
    (hc : construct h (.union hasNone opts) (.union sel v) = .ok n) :
    viewVal (.union hasNone opts) n = .ok (.union sel v) := by
  simp only [Ty.wf, Bool.and_eq_true, decide_eq_true_eq] at hw
  simp only [inRange] at hr
  simp only [hasType] at ht
  cases ho : unionOpt hasNone opts sel with
  | none =>
    simp only [ho, Bool.and_eq_true, beq_iff_eq] at ht
    obtain ⟨⟨hn, hsel⟩, hv⟩ := ht
    subst hn; subst hsel
    cases v <;> simp at hv
    have := construct_union_none_shape hc
    subst this
    simp only [viewVal, getNode_pair_true, getNode_pair_false, getNode_nil,
      R.bind_ok, asLeaf_leaf, chunkOf_single_drop, Bool.false_eq_true, if_false, chunkOf_single_getD]
    simp
  | some t =>
    simp only [ho] at ht
    obtain ⟨hlt, hnz, hget⟩ := unionOpt_lt ho
    have hvn : v ≠ .none := by
      intro hv; subst hv; rw [hasType_none] at ht; cases ht
    have hsel : (UInt8.ofNat sel).toNat = sel := by
      rw [UInt8.toNat_ofNat']; apply Nat.mod_eq_of_lt; omega
    obtain ⟨c, hcv, hn⟩ := construct_union_some_shape ho hvn hc
    subst hn
    have hrec := ih t c (wfAll_get opts _ t hw.1.2 hget) (inRangeAll_get opts _ t hr hget) ht hcv
    simp only [viewVal, getNode_pair_true, getNode_pair_false, getNode_nil,
      R.bind_ok, asLeaf_leaf, chunkOf_single_drop, Bool.false_eq_true, if_false,
      chunkOf_single_getD, hsel]
    rw [if_neg (by omega)]
    simp only [hnz, Bool.false_eq_true, if_false, viewOpt_get opts _ t c hget, hrec, R.bind_ok]

/-- C02 (getters): the typed getters on a constructed view return the value's components -/
theorem get_ok (h : HashFn) : ∀ v, GetOk h v := by
  intro v
  induction v using Val.induct with
  | num k =>
    intro t n hw hr ht hc
    cases t <;> simp [hasType] at ht
    rename_i b
    simp only [construct] at hc
    cases hc
    have hb := uint_wf_le hw
    have h1 := chunkOf_take_self (leBytes b k) (by simp; omega)
    rw [leBytes_length] at h1
    have h2 : leNat (leBytes b k) = k := by rw [leNat_leBytes]; exact Nat.mod_eq_of_lt ht
    simp only [viewVal, asLeaf_leaf, R.bind_ok, h1, h2]
  | bool b =>
    intro t n hw hr ht hc
    cases t <;> simp [hasType] at ht
    simp only [construct] at hc
    cases hc
    simp only [viewVal, asLeaf_leaf, R.bind_ok, chunkOf_single_getD]
    cases b <;> simp
  | bytes bs =>
    intro t n hw hr ht hc
    cases t <;> simp [hasType] at ht
    simp only [construct] at hc
    cases hc
    simp only [Ty.wf, Bool.and_eq_true, decide_eq_true_eq] at hw
    have := chunkOf_take_self bs (by omega)
    rw [ht] at this
    simp only [viewVal, asLeaf_leaf, R.bind_ok, this]
  | bits bs =>
    intro t n hw hr ht hc
    cases t <;> try (simp [hasType] at ht; done)
    · simp only [hasType, beq_iff_eq] at ht
      simp only [inRange, decide_eq_true_eq] at hr
      have hf := construct_bitvector_shape ht hc
      have hm := bits_read h _ bs n hf hr
      rw [ht] at hm
      simp only [viewVal, readBits, hm, R.bind_ok]
    · rename_i lim
      simp only [hasType, decide_eq_true_eq] at ht
      simp only [inRange, Bool.and_eq_true, decide_eq_true_eq] at hr
      obtain ⟨c, hn, hf⟩ := construct_bitlist_shape ht hc
      subst hn
      have hm := bits_read h _ bs c hf (by omega)
      have hfit := fill_ok_length hf
      simp only [bytesIntoNodes, List.length_map, chunks_length, packBits_length] at hfit
      simp only [viewVal]
      rw [listLength_pair c _ lim ht hr.1, R.bind_ok]
      rw [mapM_pair_left c _ (bitDepth lim) bs.length (fun i => i / 256)
        (fun i x => do let r ← asLeaf x; (Except.ok (bitFromChunk r i) : R Bool)) hr.2
        (fun i hi => by omega), hm, R.bind_ok]
  | seq vs ih =>
    intro t n hw hr ht hc
    cases t <;> try (simp [hasType] at ht; done)
    · exact get_vector h _ _ vs n ih hw hr ht hc
    · exact get_list h _ _ vs n ih hw hr ht hc
    · exact get_container h _ vs n ih hw hr ht hc
  | none =>
    intro t n hw hr ht hc
    rw [hasType_none] at ht; cases ht
  | union sel v ih =>
    intro t n hw hr ht hc
    cases t <;> try (simp [hasType] at ht; done)
    exact get_union h _ _ sel v n ih hw hr ht hc

end ZtypV.View
