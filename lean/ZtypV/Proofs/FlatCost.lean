/-
C20, flat side: DECODING MEMORY IS BOUNDED BY INPUT SIZE for the flat codec
(`codec.DecodingReader` helpers composed as in harness/flat.go), on the instrumented twin
`flatDecodeM` / `flatDecodeC` of Model/FlatCost.lean.

Results (all for every well-formed type `t`, every prior destination content, every input `bs`):

* `flatDecodeM_res`, `flatDecodeC_fst` (Proofs/FlatCostRes.lean): the result component of the
  twin IS the validated flat decoder `flatDecode`.
* `flatDecodeM_good`: the two invariants, by recursion over the type
     successful runs   cost ≤ flatRate t · (bytes consumed)
     every run         cost ≤ flatRate t · (bytes available) + flatRate t · scope + 128 · flatFootprint t
* `C20_flat_rate`:  units ≤ 2 · flatRate t · |bs| + 128 · flatFootprint t          (every run)
  `C20_flat_ok`:    units ≤ flatRate t · |bs|                                      (successful runs)
* `C20_flat : C20_flat_full`:  units ≤ 512 · (|bs| + 1) · flatFootprint t · (1 + nest t).
* `C20_flat_declared_scope`: for `NewDecodingReader(input, scope)` with any declared scope:
  units ≤ flatRate t · min(scope, |bs|) + flatRate t · scope + 128 · flatFootprint t.

WHICH SHAPE WAS PROVED, AND WHY.  The closed form is the LOOSER, product shape: the type
constant `flatFootprint t` MULTIPLIES the length term.  The tighter shape of the view side,
`K · (|bs| + footprint t) · (1 + depth)`, is FALSE for this cost model: the caller-side constants
`add()` = `selectFn` = `64 + 64 · footprint e` are charged per list element / per union value, and
an element of a VARIABLE-size type `e` can be as short as the 4 bytes of its offset whatever
`footprint e` is (e.g. `List[List[Vector[uint64, N], 1], L]` fed `L` offsets of empty inner
lists costs ≥ `16 · |bs| · N`).  For FIXED-size `e` every slot has at least one byte, so
`footprint e ≤ (1 + nest e) · fixedSize e` and the charge is paid by the element's own bytes, but
we do not split the statement: the honest uniform bound is `flatRate`, a structural function of
the type alone (no limit, no offset value, no input), and its closed form `rate_closed`.
The second type constant: `flatFootprint` is `View.footprint` except that a bit vector counts its
byte length, because `DecodingReader.BitVector` sizes the destination by the TYPE before it reads
(`bitvector_needs_its_length`: `Bitvector[8000]` on the empty input requests 1000 units), so no
bound in terms of `View.footprint` alone can hold.  Neither constant is input-controlled.

Contrast (`listOffsets_unrepaired_cost`): the ORIGINAL upstream `DecodingReader.List` without the
`firstOffset > scope` check requests ≥ 2^28 units for the 4 input bytes fc ff ff ff.
-/
import ZtypV.Proofs.FlatCostBound
namespace ZtypV.FlatCostProofs
open ZtypV ZtypV.View ZtypV.Flat ZtypV.DecodeProofs ZtypV.CostProofs ZtypV.FlatProofs

/-! ### the master theorem -/

theorem mem_flatRates : ∀ (fs : List Ty) (t : Ty), t ∈ fs → flatRate t ≤ flatRates fs
  | [], t, ht => by cases ht
  | a :: as, t, ht => by
    rw [flatRates]
    rcases List.mem_cons.mp ht with rfl | ht'
    · exact Nat.le_max_left _ _
    · exact Nat.le_trans (mem_flatRates as t ht') (Nat.le_max_right _ _)

theorem mem_flatFootprints : ∀ (fs : List Ty) (t : Ty), t ∈ fs → flatFootprint t ≤ flatFootprints fs
  | [], t, ht => by cases ht
  | a :: as, t, ht => by
    rw [flatFootprints]
    rcases List.mem_cons.mp ht with rfl | ht'
    · omega
    · have := mem_flatFootprints as t ht'; omega

/-- allocation bound of the instrumented flat decoder, for every well-formed type and every
    prior content of the destination: successful runs and all runs -/
theorem flatDecodeM_good : (t : Ty) → t.wf = true → ∀ (p : Val),
    Good t (flatRate t) (128 * flatFootprint t) (fun d => flatDecodeM t p d)
  | .uint b, hw, p => (uint_good b hw p).weaken (Nat.zero_le _) (Nat.zero_le _)
  | .bool, _, p => (bool_good p).weaken (Nat.zero_le _) (Nat.zero_le _)
  | .bytesN n, hw, p =>
    (bytesN_good n hw p).weaken (by simp only [flatRate]; omega) (by simp only [flatFootprint]; omega)
  | .bitvector n, hw, p =>
    (bitvector_good n hw p).weaken (by simp only [flatRate]; omega) (by simp only [flatFootprint]; omega)
  | .bitlist n, _, p =>
    (bitlist_good n p).weaken (by simp only [flatRate]; omega) (Nat.zero_le _)
  | .vector e n, hw, p => by
    simp only [Ty.wf, Bool.and_eq_true, decide_eq_true_eq] at hw
    have h := vector_good hw.2 hw.1 (fun q => flatDecodeM_good e hw.2 q) p
    exact h.weaken (by simp only [flatRate]; omega) (by simp only [flatFootprint]; omega)
  | .list e lim, hw, p => by
    simp only [Ty.wf] at hw
    have h := list_good (lim := lim) hw (fun q => flatDecodeM_good e hw q) p
    exact h.weaken (by simp only [flatRate]; omega) (by simp only [flatFootprint]; omega)
  | .container fs, hw, p => by
    simp only [Ty.wf, Bool.and_eq_true] at hw
    have hwf := FlatProofs.wfAll_mem fs hw.2
    have hne : fs.isEmpty = false := by simpa using hw.1
    have hlen : 1 ≤ fs.length := by
      cases fs with
      | nil => simp at hne
      | cons a as => simp
    have h := container_good hne hw.2 (fun t ht q =>
      (flatDecodeM_good t (hwf t ht) q).weaken (mem_flatRates fs t ht)
        (Nat.mul_le_mul_left 128 (mem_flatFootprints fs t ht))) p
    exact h.weaken (by simp only [flatRate]; omega) (by simp only [flatFootprint]; omega)
  | .union hasNone opts, hw, p => by
    have hwT := hw
    simp only [Ty.wf, Bool.and_eq_true] at hw
    have hwf := FlatProofs.wfAll_mem opts hw.1.2
    have h := union_good hwT hw.1.2 (fun t ht q =>
      (flatDecodeM_good t (hwf t ht) q).weaken (mem_flatRates opts t ht)
        (Nat.mul_le_mul_left 128 (mem_flatFootprints opts t ht))) p
    exact h.weaken (by simp only [flatRate]; omega) (by simp only [flatFootprint]; omega)
termination_by t => sizeOf t
decreasing_by
  all_goals simp_wf
  all_goals first
    | omega
    | (have := List.sizeOf_lt_of_mem ‹_›; omega)

/-! ### the closed form of the rate -/

theorem closed_step {a a' c m x : Nat} (hx : x ≤ a * (1 + m)) (ha : a ≤ a') (hc : c ≤ a') :
    c + x ≤ a' * (1 + (1 + m)) := by
  have h1 : a * (1 + m) ≤ a' * (1 + m) := Nat.mul_le_mul_right _ ha
  have h2 : a' * (1 + (1 + m)) = a' + a' * (1 + m) := by rw [Nat.mul_add a' 1, Nat.mul_one]
  omega

theorem rates_closed : ∀ (fs : List Ty),
    (∀ t ∈ fs, flatRate t ≤ (168 + 64 * footprint t) * (1 + nest t)) →
    flatRates fs ≤ (168 + 64 * footprints fs) * (1 + nests fs)
  | [], _ => by rw [flatRates]; exact Nat.zero_le _
  | t :: ts, h => by
    have ht := h t (by simp)
    have ih := rates_closed ts (fun t' ht' => h t' (by simp [ht']))
    rw [flatRates, footprints, nests]
    apply Nat.max_le.mpr
    constructor
    · exact Nat.le_trans ht (Nat.mul_le_mul (by omega) (by omega))
    · exact Nat.le_trans ih (Nat.mul_le_mul (by omega) (by omega))

/-- `flatRate` is at most linear in the footprint and in the nesting depth of the type -/
theorem rate_closed : (t : Ty) → flatRate t ≤ (168 + 64 * footprint t) * (1 + nest t)
  | .uint _ => by simp [flatRate]
  | .bool => by simp [flatRate]
  | .bytesN _ => by simp [flatRate, footprint, nest]
  | .bitvector _ => by simp [flatRate, footprint, nest]
  | .bitlist _ => by simp [flatRate, footprint, nest]
  | .vector e n => by
    simp only [flatRate, footprint, nest]
    exact closed_step (rate_closed e) (by omega) (by omega)
  | .list e lim => by
    simp only [flatRate, footprint, nest, zeroCost]
    have := closed_step (c := 168 + 64 * footprint e) (a' := 168 + 64 * (1 + footprint e))
      (rate_closed e) (by omega) (by omega)
    omega
  | .container fs => by
    simp only [flatRate, footprint, nest]
    exact closed_step (rates_closed fs (fun t _ht => rate_closed t)) (by omega) (by omega)
  | .union _ fs => by
    simp only [flatRate, footprint, nest]
    exact closed_step (rates_closed fs (fun t _ht => rate_closed t)) (by omega) (by omega)
termination_by t => sizeOf t
decreasing_by
  all_goals simp_wf
  all_goals first
    | omega
    | (have := List.sizeOf_lt_of_mem ‹_›; omega)

theorem footprints_le_flat : ∀ (fs : List Ty), (∀ t ∈ fs, footprint t ≤ flatFootprint t) →
    footprints fs ≤ flatFootprints fs
  | [], _ => by rw [footprints, flatFootprints]; exact Nat.le_refl _
  | t :: ts, h => by
    have := h t (by simp)
    have := footprints_le_flat ts (fun t' ht' => h t' (by simp [ht']))
    rw [footprints, flatFootprints]; omega

/-- the flat footprint dominates the view footprint (they differ on bit vectors only) -/
theorem footprint_le_flat : (t : Ty) → t.wf = true → footprint t ≤ flatFootprint t
  | .uint _, _ => by simp [footprint, flatFootprint]
  | .bool, _ => by simp [footprint, flatFootprint]
  | .bytesN _, _ => by simp [footprint, flatFootprint]
  | .bitlist _, _ => by simp [footprint, flatFootprint]
  | .bitvector n, hw => by
    simp only [Ty.wf, decide_eq_true_eq] at hw
    simp only [footprint, flatFootprint]; omega
  | .vector e n, hw => by
    simp only [Ty.wf, Bool.and_eq_true, decide_eq_true_eq] at hw
    have := footprint_le_flat e hw.2
    simp only [footprint, flatFootprint]; omega
  | .list e _, hw => by
    simp only [Ty.wf] at hw
    have := footprint_le_flat e hw
    simp only [footprint, flatFootprint]; omega
  | .container fs, hw => by
    simp only [Ty.wf, Bool.and_eq_true] at hw
    have hwf := FlatProofs.wfAll_mem fs hw.2
    have := footprints_le_flat fs (fun t ht => footprint_le_flat t (hwf t ht))
    simp only [footprint, flatFootprint]; omega
  | .union _ fs, hw => by
    simp only [Ty.wf, Bool.and_eq_true] at hw
    have hwf := FlatProofs.wfAll_mem fs hw.1.2
    have := footprints_le_flat fs (fun t ht => footprint_le_flat t (hwf t ht))
    simp only [footprint, flatFootprint]; omega
termination_by t => sizeOf t
decreasing_by
  all_goals simp_wf
  all_goals first
    | omega
    | (have := List.sizeOf_lt_of_mem ‹_›; omega)

/-- closed form used in `C20_flat` -/
theorem rate_le_product (t : Ty) (hw : t.wf = true) :
    flatRate t ≤ 232 * (flatFootprint t * (1 + nest t)) := by
  have h1 := rate_closed t
  have h2 := footprint_pos t hw
  have h3 := footprint_le_flat t hw
  have h4 : 168 + 64 * footprint t ≤ 232 * flatFootprint t := by omega
  have h5 := Nat.mul_le_mul_right (1 + nest t) h4
  rw [Nat.mul_assoc] at h5
  omega

/-! ### C20, flat side -/

/-- every run on an input of `|bs|` bytes: twice the rate per input byte plus the type constant -/
theorem C20_flat_rate (t : Ty) (prior : Val) (bs : Bytes) (hw : t.wf = true) :
    (flatDecodeC t prior (DR.new bs bs.length)).2 ≤
      2 * flatRate t * bs.length + 128 * flatFootprint t := by
  have h := (flatDecodeM_good t hw prior).any (DR.new bs bs.length)
  rw [FlatProofs.new_scope, FlatProofs.new_avail] at h
  show (flatDecodeM t prior (DR.new bs bs.length)).cost ≤ _
  have e : 2 * flatRate t * bs.length = flatRate t * bs.length + flatRate t * bs.length := by
    rw [Nat.mul_assoc, Nat.two_mul]
  omega

/-- the same for a reader whose DECLARED scope differs from the length of the stream
    (`NewDecodingReader(input, scope)` trusts its caller): the bound is in terms of the declared
    scope, not of the bytes that are really there -/
theorem C20_flat_declared_scope (t : Ty) (prior : Val) (bs : Bytes) (scope : Nat) (hw : t.wf = true) :
    (flatDecodeC t prior (DR.new bs scope)).2 ≤
      flatRate t * min scope bs.length + flatRate t * scope + 128 * flatFootprint t := by
  have h := (flatDecodeM_good t hw prior).any (DR.new bs scope)
  have e1 : (DR.new bs scope).avail.length = min scope bs.length := by simp [DR.new]
  have e2 : (DR.new bs scope).scope = scope := by simp [DR.new, DR.scope]
  rw [e1, e2] at h
  exact h

/-- successful runs: the rate per input byte, no additive constant -/
theorem C20_flat_ok (t : Ty) (prior : Val) (bs : Bytes) (hw : t.wf = true) (v : Val) (dr' : DR)
    (hr : (flatDecodeC t prior (DR.new bs bs.length)).1 = .ok (v, dr')) :
    (flatDecodeC t prior (DR.new bs bs.length)).2 ≤ flatRate t * bs.length := by
  have g := flatDecodeM_good t hw prior
  have h := g.ok (DR.new bs bs.length) v dr' hr
  obtain ⟨_, _, s1, _⟩ := g.sound (DR.new bs bs.length) v dr' hr
  rw [FlatProofs.new_avail] at s1
  exact Nat.le_trans h (Nat.mul_le_mul_left _ s1)

/-- C20 for the flat decoder, closed form: the allocation units of one `Deserialize` call are
    bounded by the input length times two type constants (no list limit, no offset value) -/
def C20_flat_full : Prop :=
  ∀ (t : Ty) (prior : Val) (bs : Bytes), t.wf = true →
    (flatDecodeC t prior (DR.new bs bs.length)).2 ≤ flatCostBound t bs.length

theorem C20_flat : C20_flat_full := by
  intro t prior bs hw
  have h1 := C20_flat_rate t prior bs hw
  have h2 := rate_le_product t hw
  unfold flatCostBound flatCostK
  generalize hX : flatFootprint t * (1 + nest t) = X at h2
  have hg : flatFootprint t ≤ X := by
    rw [← hX]; exact Nat.le_mul_of_pos_right _ (by omega)
  have h3 : flatRate t * bs.length ≤ 232 * X * bs.length := Nat.mul_le_mul_right _ h2
  have e1 : 2 * flatRate t * bs.length = 2 * (flatRate t * bs.length) := Nat.mul_assoc _ _ _
  have e2 : 232 * X * bs.length = 232 * (X * bs.length) := Nat.mul_assoc _ _ _
  have e3 : 512 * (bs.length + 1) * flatFootprint t * (1 + nest t) = 512 * (X * bs.length + X) := by
    rw [Nat.mul_assoc, Nat.mul_assoc, hX, Nat.add_mul, Nat.one_mul, Nat.mul_comm bs.length X]
  rw [e3]
  omega

/-! ### contrast: the upstream `List` without the first-offset bound -/

theorem unrepaired_readOffset :
    (DR.new [0xfc, 0xff, 0xff, 0xff] 4).readOffset = .ok (4294967292, ⟨4, 4, []⟩) := by
  rfl

/-- 4 input bytes make the ORIGINAL `DecodingReader.List` (offsets branch, limit 2^30) request
    more than 2^28 units: `offsets := make([]uint64, 0, firstOffset/4)` -/
theorem listOffsets_unrepaired_cost :
    2 ^ 28 ≤ (listOffsetsCostUnrepaired (2 ^ 30) (DR.new [0xfc, 0xff, 0xff, 0xff] 4)).cost := by
  unfold listOffsetsCostUnrepaired
  dsimp only
  rw [if_neg (by decide)]
  rw [cost_bind_ok (a := ((4294967292 : Nat), (⟨4, 4, []⟩ : DR)))
    (by rw [res_lift]; exact unrepaired_readOffset)]
  dsimp only
  rw [if_neg (by decide), if_neg (by decide)]
  rw [cost_bind_ok (a := ()) rfl, cost_tick, cost_lift]
  exact Nat.le_trans (by decide) (Nat.le_trans (Nat.le_add_right _ _) (Nat.le_add_left _ _))

/-- the repaired `List` refuses the same 4 bytes before allocating anything -/
theorem list_repaired_cost :
    (flatDecodeC (.list (.list (.uint 8) 4) (2 ^ 30)) Val.none (DR.new [0xfc, 0xff, 0xff, 0xff] 4)).2 = 0 := by
  decide

/-! ### the type constants are needed -/

/-- `DecodingReader.BitVector` sizes the destination by the type before reading: on the EMPTY
    input `Bitvector[8000]` requests 1000 units (`View.footprint` of the type is 1) -/
theorem bitvector_needs_its_length :
    (flatDecodeC (.bitvector 8000) Val.none (DR.new [] 0)).2 = 1000 ∧
      footprint (.bitvector 8000) = 1 ∧ flatFootprint (.bitvector 8000) = 1000 := by
  decide

/-- the `add()` constant is charged per element however short the element is: 8 input bytes (two
    offsets of two empty inner lists) of `List[List[Vector[uint64,1000],1],8]` request
    2 · (64 + 64 · 1002 + 96) + 16 units: the footprint multiplies the length term -/
theorem add_constant_per_element :
    flatDecodeC (.list (.list (.vector (.uint 8) 1000) 1) 8) Val.none (DR.new [8, 0, 0, 0, 8, 0, 0, 0] 8) =
      (.ok (.seq [.seq [], .seq []], ⟨8, 8, []⟩), 128592) := by
  rfl

/-- … and the scratch-free leaves size their destination by the DECLARED scope before reading:
    `List[uint8, 2^30]` on the empty stream with a declared scope of 10^6 requests 10^6 units -/
theorem bytelist_trusts_declared_scope :
    flatDecodeC (.list (.uint 1) (2 ^ 30)) Val.none (DR.new [] 1000000) = (.error .other, 1000000) := by
  rfl

/-! ### non-vacuity -/

/-- `Container{a: uint16, b: List[uint16, 4]}` -/
def exTy : Ty := .container [.uint 2, .list (.uint 2) 4]

example : exTy.wf = true := by decide

/-- a successful run: field `a` in its `SubScope` (96), the offset of `b` (two appends, 32), `b` in
    its `SubScope` (96), two elements each `add()` (64 + 64) and a `SubScope` (96) -/
example : flatDecodeC exTy Val.none (DR.new [1, 0, 6, 0, 0, 0, 2, 0, 3, 0] 10) =
    (.ok (.seq [.num 1, .seq [.num 2, .num 3]], ⟨4, 10, []⟩), 672) := by
  rfl

/-- a failing run (the list's 3 bytes are not a multiple of 2): what was requested before counts -/
example : flatDecodeC exTy Val.none (DR.new [1, 0, 6, 0, 0, 0, 2, 0, 3] 9) =
    (.error .other, 224) := by
  rfl

/-- the bounds at this type: rate 328 per byte; closed form 84480 for 10 bytes -/
example : flatRate exTy = 328 ∧ flatFootprint exTy = 5 ∧ nest exTy = 2 ∧
    flatCostBound exTy 10 = 84480 := by
  decide

/-- a destination that already has the capacity allocates nothing (`cap(*dst) < n` is false) -/
example : (flatDecodeC (.list (.uint 1) 100) Val.none (DR.new [1, 2, 3] 3)).2 = 3 ∧
    (flatDecodeC (.list (.uint 1) 100) (.seq [.num 0, .num 0, .num 0, .num 0]) (DR.new [1, 2, 3] 3)).2 = 0 := by
  decide

/-- a union: the `selectFn` destination (64 + 64 · 2) and the 2 bytes of the byte list -/
example : flatDecodeC (.union true [.uint 2, .list (.uint 1) 10]) Val.none (DR.new [2, 7, 8] 3) =
    (.ok (.union 2 (.seq [.num 7, .num 8]), ⟨3, 3, []⟩), 194) := by
  rfl

end ZtypV.FlatCostProofs

section
open ZtypV.FlatCostProofs
#print axioms flatDecodeM_res
#print axioms flatDecodeC_fst
#print axioms flatDecode_mono
#print axioms flatDecodeM_good
#print axioms rate_closed
#print axioms footprint_le_flat
#print axioms C20_flat_rate
#print axioms C20_flat_ok
#print axioms C20_flat_declared_scope
#print axioms bytelist_trusts_declared_scope
#print axioms C20_flat
#print axioms listOffsets_unrepaired_cost
#print axioms list_repaired_cost
#print axioms bitvector_needs_its_length
#print axioms add_constant_per_element
end
