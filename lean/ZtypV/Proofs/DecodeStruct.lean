/-
C03, unions and containers: soundness and panic freedom of their decoders, given the same for
the option / field types.  The container lemma `fields_sound` follows both decoder loops
(`decodeFixedPart`, `decodeDynPart`) at once and shows that the accepted offsets are the ones
`serContainerParts` writes.
-/
import ZtypV.Proofs.DecodeSeq
namespace ZtypV.DecodeProofs
open ZtypV ZtypV.View

/-! ### union -/

theorem decodeOpt_inv {h : HashFn} : ∀ (opts : List Ty) (k rem : Nat) (dr : DR) (n : Node) (dr' : DR),
    decodeOpt h opts k rem dr = .ok (n, dr') →
    ∃ t, opts[k]? = some t ∧ (t.isFixed = true → t.fixedSize = rem) ∧ decode h t dr = .ok (n, dr') := by
  intro opts
  induction opts with
  | nil => intro k rem dr n dr' hd; rw [decodeOpt] at hd; cases hd
  | cons t ts ih =>
    intro k rem dr n dr' hd
    cases k with
    | zero =>
      rw [decodeOpt] at hd
      obtain ⟨hc, hd⟩ := ite_err_eq_ok hd
      refine ⟨t, rfl, ?_, hd⟩
      intro hf
      simpa [hf] using hc
    | succ k =>
      rw [decodeOpt] at hd
      obtain ⟨t', ht, hr⟩ := ih k rem dr n dr' hd
      exact ⟨t', by simpa using ht, hr⟩

theorem decodeOpt_ne_panic {h : HashFn} : ∀ (opts : List Ty) (k rem : Nat) (dr : DR),
    (∀ t ∈ opts, NoPanic h t) → k < opts.length → decodeOpt h opts k rem dr ≠ .error .panic := by
  intro opts
  induction opts with
  | nil => intro k rem dr _ hk; simp at hk
  | cons t ts ih =>
    intro k rem dr hall hk
    cases k with
    | zero =>
      rw [decodeOpt]
      apply ite_ne_panic (fun _ => other_ne_panic); intro _
      exact hall t (by simp) dr
    | succ k =>
      rw [decodeOpt]
      exact ih k rem dr (fun t' ht' => hall t' (by simp [ht'])) (by simpa using hk)

theorem hasType_ne_none {t : Ty} (hv : hasType t .none = true) : False := by
  cases t <;> simp [hasType] at hv

theorem construct_union_some {h : HashFn} {hasNone : Bool} {opts : List Ty} {sel : Nat} {t : Ty}
    {v : Val} {c : Node} (hv : hasType t v = true) (hu : unionOpt hasNone opts sel = some t)
    (hc : construct h t v = .ok c) :
    construct h (.union hasNone opts) (.union sel v)
      = .ok (.pair c (.leaf (chunkOf [UInt8.ofNat sel]))) := by
  cases v with
  | none => exact absurd hv (fun hv => hasType_ne_none hv)
  | _ => simp only [construct, hu, hc, bind, Except.bind]

theorem union_sound {h : HashFn} {hasNone : Bool} {opts : List Ty} (hopts : ∀ t ∈ opts, Sound h t) :
    Sound h (.union hasNone opts) := by
  intro dr n dr' hd _
  rw [decode] at hd
  simp only at hd
  obtain ⟨hs0, hd⟩ := ite_err_eq_ok hd
  obtain ⟨⟨sb, d1⟩, h1, hd⟩ := bind_eq_ok hd
  obtain ⟨hl, hsb, hav, hi, hmax⟩ := read_ok h1
  simp only at hd
  obtain ⟨hsel, hd⟩ := ite_err_eq_ok hd
  cases hda : dr.avail with
  | nil => rw [hda] at hl; simp at hl
  | cons x rest =>
    rw [hda] at hsb hav hl
    simp only [List.take_succ_cons, List.take_zero, List.drop_succ_cons, List.drop_zero] at hsb hav
    subst hsb
    simp only [List.getD_cons_zero] at hd hsel
    have hsucc : dr.scope = (dr.scope - 1) + 1 := by omega
    by_cases hnone : (hasNone && x.toNat == 0) = true
    · rw [if_pos hnone] at hd
      obtain ⟨hs1, hd⟩ := ite_err_eq_ok hd
      cases hd
      have hs1 : dr.scope = 1 := by simpa using hs1
      simp only [Bool.and_eq_true, beq_iff_eq] at hnone
      obtain ⟨hN, hx0⟩ := hnone
      subst hN
      have hx : x = UInt8.ofNat 0 := by rw [← hx0, UInt8.ofNat_toNat]
      refine ⟨.union 0 .none, ?_, ?_, by rw [hs1]; simp, by rw [hs1, hav]; simp, ?_⟩
      · simp [hasType, unionOpt]
      · rw [hs1]; simp [serialize, unionOpt, hx]
      · rw [hx0]; simp only [construct]
    · rw [if_neg hnone] at hd
      obtain ⟨⟨c, d2⟩, h2, hd⟩ := bind_eq_ok hd
      cases hd
      obtain ⟨t, hget, hfix, hdec⟩ := decodeOpt_inv _ _ _ _ _ _ h2
      have hmem : t ∈ opts := List.mem_of_getElem? hget
      have hsc1 : d1.scope = dr.scope - 1 := by
        simp only [DR.scope] at *; rw [hi, hmax]; omega
      obtain ⟨v, hv, hser, hle, hav2, hcon⟩ := hopts t hmem _ _ _ hdec (by
        intro hlf; rw [hsc1]; exact (hfix (isFixed_of_isLeafTy hlf)).symm)
      rw [hsc1, hav] at hser hle hav2
      have hu : unionOpt hasNone opts x.toNat = some t := by
        unfold unionOpt
        cases hasNone with
        | true =>
          have hx0 : x.toNat ≠ 0 := by simpa using hnone
          simpa [hx0] using hget
        | false => simpa using hget
      refine ⟨.union x.toNat v, ?_, ?_, ?_, ?_, ?_⟩
      · simp only [hasType, hu]; exact hv
      · simp only [serialize, hu, UInt8.ofNat_toNat, hser]
        conv => rhs; rw [hsucc, List.take_succ_cons]
      · simp only [List.length_cons]; omega
      · rw [hav2]; conv => rhs; rw [hsucc, List.drop_succ_cons]
      · exact construct_union_some hv hu hcon

theorem union_noPanic {h : HashFn} {hasNone : Bool} {opts : List Ty}
    (hopts : ∀ t ∈ opts, NoPanic h t) : NoPanic h (.union hasNone opts) := by
  intro dr
  rw [decode]
  simp only
  apply ite_ne_panic (fun _ => other_ne_panic); intro _
  apply bind_ne_panic (read_ne_panic _ _)
  rintro ⟨sb, d1⟩ _
  simp only
  apply ite_ne_panic (fun _ => other_ne_panic); intro hsel
  apply ite_ne_panic
  · intro _
    apply ite_ne_panic (fun _ => other_ne_panic); intro _
    exact ok_ne_panic _
  · intro hnone
    apply bind_ne_panic
    · apply decodeOpt_ne_panic _ _ _ _ hopts
      have hsel' := Nat.lt_of_not_ge hsel
      cases hasNone with
      | true =>
        have : (sb.getD 0 0).toNat ≠ 0 := by simpa using hnone
        simp only [if_true] at hsel' ⊢; omega
      | false => simpa using hsel'
    · rintro ⟨c, d2⟩ _; exact ok_ne_panic _

/-! ### container -/

theorem allFixed_min_max : ∀ fs : List Ty, Ty.allFixed fs = true →
    Ty.minFields fs = Ty.fixedPart fs ∧ Ty.maxFields fs = Ty.fixedPart fs := by
  intro fs
  induction fs with
  | nil => intro _; simp [Ty.minFields, Ty.maxFields, Ty.fixedPart]
  | cons t ts ih =>
    intro hf
    simp only [Ty.allFixed, Bool.and_eq_true] at hf
    obtain ⟨h1, h2⟩ := ih hf.2
    simp [Ty.minFields, Ty.maxFields, Ty.fixedPart, hf.1, h1, h2]

/-- uniform unfolding of the second container loop (the equation compiler splits on the offsets) -/
theorem decodeDynPart_cons (h : HashFn) (t : Ty) (ts : List Ty) (scope : Nat) (offs : List Nat) (dr : DR) :
    decodeDynPart h (t :: ts) scope offs dr =
      (if t.isFixed = true then decodeDynPart h ts scope offs dr
      else match offs with
        | [] => .error .panic
        | o :: rest => (do
          let (x, dr') ← dr.inSub (rest.headD scope - o) (fun d => decode h t d)
          let (xs, dr'') ← decodeDynPart h ts scope rest dr'
          .ok (x :: xs, dr''))) := by
  cases offs with
  | nil => rw [decodeDynPart]
  | cons o rest =>
    cases rest with
    | nil => rw [decodeDynPart]; rfl
    | cons o' rest' => rw [decodeDynPart]; rfl

/-- both container loops at once -/
theorem fields_sound {h : HashFn} : ∀ (fs : List Ty), (∀ t ∈ fs, Sound h t) →
    ∀ (prev : Nat) (first : Bool) (scope : Nat) (dr dr1 : DR) (slots : List (Option Node))
      (offs : List Nat) (drA drB : DR) (dyn : List Node),
    decodeFixedPart h fs prev first scope dr = .ok (slots, offs, dr1) →
    decodeDynPart h fs scope offs drA = .ok (dyn, drB) →
    ∃ vs : List Val, fieldsHaveType fs vs = true ∧ vs.length = fs.length ∧
      constructFields h fs vs = .ok (mergeFields slots dyn) ∧
      fixedPartLen (serFields fs vs) = Ty.fixedPart fs ∧
      serFixedPart (offs.headD scope) (serFields fs vs) = dr.avail.take (Ty.fixedPart fs) ∧
      Ty.fixedPart fs ≤ dr.avail.length ∧ dr1.avail = dr.avail.drop (Ty.fixedPart fs) ∧
      serVarPart (serFields fs vs) = drA.avail.take (scope - offs.headD scope) ∧
      scope - offs.headD scope ≤ drA.avail.length ∧
      drB.avail = drA.avail.drop (scope - offs.headD scope) ∧
      offs.headD scope ≤ scope ∧ (prev ≤ scope → prev ≤ offs.headD scope) ∧
      (first = true → offs ≠ [] → offs.headD scope = prev) ∧
      (offs = [] → Ty.allFixed fs = true) := by
  intro fs
  induction fs with
  | nil =>
    intro _ prev first scope dr dr1 slots offs drA drB dyn hF hD
    rw [decodeFixedPart] at hF
    rw [decodeDynPart] at hD
    cases hF; cases hD
    refine ⟨[], rfl, rfl, rfl, rfl, ?_, ?_, ?_, ?_, ?_, ?_, ?_, ?_, ?_, ?_⟩ <;>
      simp [serFields, serFixedPart, serVarPart, Ty.fixedPart, Ty.allFixed]
  | cons t ts ih =>
    intro hall prev first scope dr dr1 slots offs drA drB dyn hF hD
    have ht : Sound h t := hall t (by simp)
    have hts : ∀ t' ∈ ts, Sound h t' := fun t' ht' => hall t' (by simp [ht'])
    rw [decodeFixedPart] at hF
    rw [decodeDynPart_cons] at hD
    by_cases hf : t.isFixed = true
    · rw [if_pos hf] at hF hD
      obtain ⟨⟨x, d1⟩, h1, hF⟩ := bind_eq_ok hF
      obtain ⟨⟨slots', offs', d2⟩, h2, hF⟩ := bind_eq_ok hF
      cases hF
      obtain ⟨v, hv, hser, hle, hav, hcon⟩ := inSub_sound ht (fun _ => rfl) h1
      obtain ⟨vs, hvt, hvl, hcons, hfpl, hsf, hfle, hav1, hsv, hvle, havB, hX, hP, hFst, hAll⟩ :=
        ih hts prev first scope d1 _ slots' _ drA drB dyn h2 hD
      rw [hav] at hsf hfle hav1
      rw [List.length_drop] at hfle
      have hplen : (serialize t v).length = t.fixedSize := by rw [hser, List.length_take]; omega
      have hfp : Ty.fixedPart (t :: ts) = t.fixedSize + Ty.fixedPart ts := by
        simp [Ty.fixedPart, hf]
      refine ⟨v :: vs, by simp [fieldsHaveType, hv, hvt], by simp [hvl], ?_, ?_, ?_, ?_, ?_, ?_,
        hvle, havB, hX, hP, hFst, ?_⟩
      · simp [constructFields, hcon, hcons, mergeFields, bind, Except.bind]
      · simp only [serFields, hf, fixedPartLen, if_true, hplen, hfpl, hfp]
      · rw [hfp, List.take_add]
        simp only [serFields, hf, serFixedPart, hser, hsf]
      · omega
      · rw [hfp, hav1, List.drop_drop]
      · simpa [serFields, hf, serVarPart] using hsv
      · intro ho; simp [Ty.allFixed, hf, hAll ho]
    · rw [if_neg hf] at hF hD
      have hnl : isLeafTy t = false := isLeafTy_false_of_not_fixed hf
      obtain ⟨⟨o, d1⟩, h1, hF⟩ := bind_eq_ok hF
      simp only at hF
      obtain ⟨hc1, hF⟩ := ite_err_eq_ok hF
      obtain ⟨hc2, hF⟩ := ite_err_eq_ok hF
      obtain ⟨hc3, hF⟩ := ite_err_eq_ok hF
      obtain ⟨⟨slots', offs', d2⟩, h2, hF⟩ := bind_eq_ok hF
      cases hF
      simp only at hD
      obtain ⟨⟨x, dA'⟩, h3, hD⟩ := bind_eq_ok hD
      obtain ⟨⟨xs, dB'⟩, h4, hD⟩ := bind_eq_ok hD
      cases hD
      obtain ⟨hl4, hb4, hav⟩ := readOffset_ok h1
      obtain ⟨v, hv, hser, hle, havA, hcon⟩ :=
        inSub_sound ht (fun hl => by rw [hnl] at hl; cases hl) h3
      obtain ⟨vs, hvt, hvl, hcons, hfpl, hsf, hfle, hav1, hsv, hvle, havB, hX, hP, hFst, hAll⟩ :=
        ih hts o false scope d1 _ slots' _ dA' _ xs h2 h4
      rw [hav] at hsf hfle hav1
      rw [List.length_drop] at hfle
      rw [havA] at hsv hvle havB
      rw [List.length_drop] at hvle
      have hon : o ≤ offs'.headD scope := hP (by omega)
      have hplen : (serialize t v).length = offs'.headD scope - o := by
        rw [hser, List.length_take]; omega
      have hfp : Ty.fixedPart (t :: ts) = 4 + Ty.fixedPart ts := by
        simp [Ty.fixedPart, hf]
      have hsum : scope - o = (offs'.headD scope - o) + (scope - offs'.headD scope) := by omega
      have hf' : t.isFixed = false := by simpa using hf
      refine ⟨v :: vs, by simp [fieldsHaveType, hv, hvt], by simp [hvl], ?_, ?_, ?_, by omega, ?_,
        ?_, ?_, ?_, by simpa using hc3, ?_, ?_, by simp⟩
      · simp [constructFields, hcon, hcons, mergeFields, bind, Except.bind]
      · simp only [serFields, hf', fixedPartLen, hfpl, hfp]; simp
      · rw [hfp, List.take_add]
        simp only [serFields, hf', serFixedPart, List.headD_cons, hplen]
        have : o + (offs'.headD scope - o) = offs'.headD scope := by omega
        rw [this, hsf, hb4]
      · rw [hfp, hav1, List.drop_drop]
      · simp only [serFields, hf', serVarPart, List.headD_cons]
        rw [hsum, List.take_add, hser, hsv]
      · simp only [List.headD_cons]; omega
      · simp only [List.headD_cons]
        rw [hsum, havB, List.drop_drop]
      · intro _; simp only [List.headD_cons]; omega
      · intro hfst _
        simp only [List.headD_cons]
        simpa [hfst] using hc2

theorem container_sound {h : HashFn} {fs : List Ty} (hfs : ∀ t ∈ fs, Sound h t) :
    Sound h (.container fs) := by
  intro dr n dr' hd _
  rw [decode] at hd
  simp only at hd
  obtain ⟨hrange, hd⟩ := ite_err_eq_ok hd
  obtain ⟨⟨slots, offs, d1⟩, h1, hd⟩ := bind_eq_ok hd
  obtain ⟨⟨dyn, d2⟩, h2, hd⟩ := bind_eq_ok hd
  simp only at hd
  obtain ⟨vs, hvt, hvl, hcons, hfpl, hsf, hfle, hav1, hsv, hvle, havB, hX, hP, hFst, hAll⟩ :=
    fields_sound fs hfs _ true _ dr d1 slots offs d1 d2 dyn h1 h2
  have hXF : offs.headD dr.scope = Ty.fixedPart fs := by
    by_cases ho : offs = []
    · obtain ⟨hmin, hmax⟩ := allFixed_min_max fs (hAll ho)
      rw [hmin, hmax] at hrange
      rw [ho]; simp only [List.headD_nil]; omega
    · exact hFst rfl ho
  rw [hXF] at hsf hsv hvle havB hX
  rw [hav1] at hsv hvle havB
  rw [List.length_drop] at hvle
  have hsum : dr.scope = Ty.fixedPart fs + (dr.scope - Ty.fixedPart fs) := by omega
  cases hfill : fillToContents h (coverDepth fs.length) (mergeFields slots dyn) with
  | error e => rw [hfill] at hd; cases hd
  | ok n' =>
    rw [hfill] at hd
    cases hd
    refine ⟨.seq vs, by simpa [hasType] using hvt, ?_, by omega, ?_, ?_⟩
    · simp only [serialize, serContainerParts]
      rw [hfpl, hsf, hsv]
      conv => rhs; rw [hsum, List.take_add]
    · rw [havB, List.drop_drop, ← hsum]
    · simp only [construct]
      rw [if_neg (by omega), hcons]
      simp only [bind, Except.bind]
      rw [hfill]

/-- number of variable-size fields -/
def ndyn : List Ty → Nat
  | [] => 0
  | t :: ts => (if t.isFixed then 0 else 1) + ndyn ts

theorem fixedPart_offs_length {h : HashFn} : ∀ (fs : List Ty) (prev : Nat) (first : Bool) (scope : Nat)
    (dr dr1 : DR) (slots : List (Option Node)) (offs : List Nat),
    decodeFixedPart h fs prev first scope dr = .ok (slots, offs, dr1) → offs.length = ndyn fs := by
  intro fs
  induction fs with
  | nil =>
    intro prev first scope dr dr1 slots offs hF
    rw [decodeFixedPart] at hF; cases hF; rfl
  | cons t ts ih =>
    intro prev first scope dr dr1 slots offs hF
    rw [decodeFixedPart] at hF
    by_cases hf : t.isFixed = true
    · rw [if_pos hf] at hF
      obtain ⟨⟨x, d1⟩, h1, hF⟩ := bind_eq_ok hF
      obtain ⟨⟨slots', offs', d2⟩, h2, hF⟩ := bind_eq_ok hF
      cases hF
      simp [ndyn, hf, ih _ _ _ _ _ _ _ h2]
    · rw [if_neg hf] at hF
      obtain ⟨⟨o, d1⟩, h1, hF⟩ := bind_eq_ok hF
      simp only at hF
      obtain ⟨_, hF⟩ := ite_err_eq_ok hF
      obtain ⟨_, hF⟩ := ite_err_eq_ok hF
      obtain ⟨_, hF⟩ := ite_err_eq_ok hF
      obtain ⟨⟨slots', offs', d2⟩, h2, hF⟩ := bind_eq_ok hF
      cases hF
      simp [ndyn, hf, ih _ _ _ _ _ _ _ h2]; omega

theorem fixedPart_ne_panic {h : HashFn} : ∀ (fs : List Ty), (∀ t ∈ fs, NoPanic h t) →
    ∀ (prev : Nat) (first : Bool) (scope : Nat) (dr : DR),
    decodeFixedPart h fs prev first scope dr ≠ .error .panic := by
  intro fs
  induction fs with
  | nil => intro _ prev first scope dr; rw [decodeFixedPart]; exact ok_ne_panic _
  | cons t ts ih =>
    intro hall prev first scope dr
    have ht : NoPanic h t := hall t (by simp)
    have hts : ∀ t' ∈ ts, NoPanic h t' := fun t' ht' => hall t' (by simp [ht'])
    rw [decodeFixedPart]
    by_cases hf : t.isFixed = true
    · rw [if_pos hf]
      apply bind_ne_panic (inSub_ne_panic _ _ _ ht)
      rintro ⟨x, d1⟩ _
      apply bind_ne_panic (ih hts _ _ _ _)
      rintro ⟨slots', offs', d2⟩ _
      exact ok_ne_panic _
    · rw [if_neg hf]
      apply bind_ne_panic (readOffset_ne_panic _)
      rintro ⟨o, d1⟩ _
      simp only
      apply ite_ne_panic (fun _ => other_ne_panic); intro _
      apply ite_ne_panic (fun _ => other_ne_panic); intro _
      apply ite_ne_panic (fun _ => other_ne_panic); intro _
      apply bind_ne_panic (ih hts _ _ _ _)
      rintro ⟨slots', offs', d2⟩ _
      exact ok_ne_panic _

theorem dynPart_ne_panic {h : HashFn} : ∀ (fs : List Ty), (∀ t ∈ fs, NoPanic h t) →
    ∀ (scope : Nat) (offs : List Nat) (dr : DR), offs.length = ndyn fs →
    decodeDynPart h fs scope offs dr ≠ .error .panic := by
  intro fs
  induction fs with
  | nil => intro _ scope offs dr _; rw [decodeDynPart]; exact ok_ne_panic _
  | cons t ts ih =>
    intro hall scope offs dr hlen
    have ht : NoPanic h t := hall t (by simp)
    have hts : ∀ t' ∈ ts, NoPanic h t' := fun t' ht' => hall t' (by simp [ht'])
    rw [decodeDynPart_cons]
    by_cases hf : t.isFixed = true
    · rw [if_pos hf]
      exact ih hts _ _ _ (by simpa [ndyn, hf] using hlen)
    · rw [if_neg hf]
      cases offs with
      | nil => simp [ndyn, hf] at hlen; omega
      | cons o rest =>
        simp only
        apply bind_ne_panic (inSub_ne_panic _ _ _ ht)
        rintro ⟨x, d1⟩ _
        apply bind_ne_panic (ih hts _ _ _ (by simp [ndyn, hf] at hlen; omega))
        rintro ⟨xs, d2⟩ _
        exact ok_ne_panic _

theorem container_noPanic {h : HashFn} {fs : List Ty} (hfs : ∀ t ∈ fs, NoPanic h t) :
    NoPanic h (.container fs) := by
  intro dr
  rw [decode]
  simp only
  apply ite_ne_panic (fun _ => other_ne_panic); intro _
  apply bind_ne_panic (fixedPart_ne_panic fs hfs _ _ _ _)
  rintro ⟨slots, offs, d1⟩ h1
  apply bind_ne_panic (dynPart_ne_panic fs hfs _ _ _ (fixedPart_offs_length _ _ _ _ _ _ _ _ h1))
  rintro ⟨dyn, d2⟩ _
  simp only
  split
  · exact ok_ne_panic _
  · exact other_ne_panic

end ZtypV.DecodeProofs
