/-
View-level lemmas for C02: what `Serialize`, `ValueByteLength` and the typed getters return on
the backing built by the constructors.  Core Lean only.
-/
import ZtypV.Model.View
import ZtypV.Proofs.FillGet
import ZtypV.Proofs.SerSize
namespace ZtypV.View

/-! ### the supported range of types

`tree.ToGindex64` rejects depth ≥ 64 and list/bitlist views navigate one level above their
contents (length mix-in); list limits are `uint64` in Go.  `Ty.wf` does not bound limits, so the
C02 theorems carry this decidable side condition.  It holds whenever every limit / length /
field count is at most `2^62` (`inRange_of_small`). -/
mutual
def inRange : Ty → Bool
  | .uint _ | .bool | .bytesN _ => true
  | .bitvector n => bitDepth n < 64
  | .bitlist lim => lim < 2 ^ 64 && bitDepth lim + 1 < 64
  | .vector e n => seriesDepth e n < 64 && inRange e
  | .list e lim => lim < 2 ^ 64 && seriesDepth e lim + 1 < 64 && inRange e
  | .container fs => coverDepth fs.length < 64 && inRangeAll fs
  | .union _ opts => inRangeAll opts
def inRangeAll : List Ty → Bool
  | [] => true
  | t :: ts => inRange t && inRangeAll ts
end

theorem inRangeAll_get : ∀ (ts : List Ty) (k : Nat) (t : Ty), inRangeAll ts = true →
    ts[k]? = some t → inRange t = true := by
  intro ts
  induction ts with
  | nil => intro k t _ h; simp at h
  | cons a ts ih =>
    intro k t hall h
    simp only [inRangeAll, Bool.and_eq_true] at hall
    cases k with
    | zero => simp at h; subst h; exact hall.1
    | succ k => exact ih k t hall.2 (by simpa using h)

theorem wfAll_get : ∀ (ts : List Ty) (k : Nat) (t : Ty), Ty.wfAll ts = true →
    ts[k]? = some t → t.wf = true := by
  intro ts
  induction ts with
  | nil => intro k t _ h; simp at h
  | cons a ts ih =>
    intro k t hall h
    simp only [Ty.wfAll, Bool.and_eq_true] at hall
    cases k with
    | zero => simp at h; subst h; exact hall.1
    | succ k => exact ih k t hall.2 (by simpa using h)

/-! ### small plumbing -/

theorem orNil_ok {r : R Node} {n : Node} (h : orNil r = .ok n) : r = .ok n := by
  cases r with
  | ok m => simpa [orNil] using h
  | error e => simp [orNil] at h

@[simp] theorem asLeaf_leaf (r : Root) : asLeaf (.leaf r) = .ok r := rfl

theorem uint_wf_le {b : Nat} (h : (Ty.uint b).wf = true) : b = 1 ∨ b = 2 ∨ b = 4 ∨ b = 8 ∨ b = 32 := by
  simp [Ty.wf] at h; omega

/-- `SubtreeIntoBytes` over a subtree filled with the chunks of `bs` -/
theorem subtreeIntoBytes_fill {h : HashFn} {d : Nat} {bs : Bytes} {n : Node}
    (hf : fillToContents h d (bytesIntoNodes bs) = .ok n) (hd : d < 64) (count L : Nat)
    (hc : count = (bs.length + 31) / 32) :
    subtreeIntoBytes n d count L = .ok ((chunks bs).flatten.take L) := by
  unfold subtreeIntoBytes
  have hm : (List.range count).mapM (fun i => do
      let c ← subtreeGet n d i
      asLeaf c) = .ok (chunks bs) := by
    apply mapM_range_ok' _ _ _ (by simp [hc])
    intro i hi
    have hi' : i < (bytesIntoNodes bs).length := by simpa [bytesIntoNodes] using hi
    rw [get_fill hf hi' hd]
    simp [bytesIntoNodes]
  rw [hm]; rfl

theorem listLength_pair (c : Node) (k lim : Nat) (hk : k ≤ lim) (hlim : lim < 2 ^ 64) :
    listLength (.pair c (lengthNode k)) lim = .ok k := by
  have h1 : (chunkOf (leBytes 8 k)).take 8 = leBytes 8 k := by
    have := chunkOf_take_self (leBytes 8 k) (by simp)
    simpa using this
  have h2 : leNat (leBytes 8 k) = k := by
    rw [leNat_leBytes]; apply Nat.mod_eq_of_lt
    have : (256 : Nat) ^ 8 = 2 ^ 64 := by decide
    omega
  simp only [listLength, getNode, lengthNode, if_true, R.bind_ok, asLeaf_leaf, h1, h2]
  rw [if_neg (by omega)]

theorem chunks_flatten_length (bs : Bytes) : (chunks bs).flatten.length = 32 * ((bs.length + 31) / 32) := by
  rw [flatten_uniform_length 32, chunks_length, Nat.mul_comm]
  intro l hl
  simp only [chunks, List.mem_map] at hl
  obtain ⟨i, _, rfl⟩ := hl
  simp

/-- cutting the concatenated chunks at `L ≥ length` and zero-extending to `L` -/
theorem chunks_take_pad (bs : Bytes) (L : Nat) (hL : bs.length ≤ L) :
    (chunks bs).flatten.take L ++ List.replicate (L - ((chunks bs).flatten.take L).length) 0
      = bs ++ List.replicate (L - bs.length) 0 := by
  by_cases hT : L ≤ 32 * ((bs.length + 31) / 32)
  · rw [chunks_flatten_take_ge bs L hL hT]
    have : (bs ++ List.replicate (L - bs.length) (0 : UInt8)).length = L := by simp; omega
    rw [this, Nat.sub_self]; simp
  · have hfl := chunks_flatten_length bs
    rw [List.take_of_length_le (by omega)]
    have h2 := chunks_flatten_take_ge bs (32 * ((bs.length + 31) / 32)) (by omega) (Nat.le_refl _)
    rw [List.take_of_length_le (by omega)] at h2
    rw [hfl, h2, List.append_assoc, List.replicate_append_replicate]
    congr 2; omega

theorem serList_eq_map (e : Ty) (vs : List Val) : serList e vs = vs.map (serialize e) := by
  induction vs with
  | nil => rfl
  | cons v vs ih => simp [serList, ih]

theorem constructList_ok (h : HashFn) (e : Ty) : ∀ (vs : List Val) (ns : List Node),
    constructList h e vs = .ok ns →
    ns.length = vs.length ∧
      ∀ i (h1 : i < vs.length) (h2 : i < ns.length), construct h e vs[i] = .ok ns[i] := by
  intro vs
  induction vs with
  | nil =>
    intro ns hc
    simp only [constructList] at hc
    cases hc
    exact ⟨rfl, fun i h1 => by simp at h1⟩
  | cons v vs ih =>
    intro ns hc
    simp only [constructList] at hc
    cases hc1 : construct h e v with
    | error err => simp [hc1] at hc
    | ok m =>
      cases hc2 : constructList h e vs with
      | error err => simp [hc1, hc2] at hc
      | ok ms =>
        simp only [hc1, hc2, R.bind_ok] at hc
        cases hc
        obtain ⟨hl, hel⟩ := ih ms hc2
        refine ⟨by simp [hl], ?_⟩
        intro i h1 h2
        cases i with
        | zero => simpa using hc1
        | succ i => simpa using hel i (by simpa using h1) (by simpa using h2)

theorem constructFields_ok (h : HashFn) : ∀ (fs : List Ty) (vs : List Val) (ns : List Node),
    fs.length = vs.length → constructFields h fs vs = .ok ns →
    ns.length = vs.length ∧
      ∀ i (h0 : i < fs.length) (h1 : i < vs.length) (h2 : i < ns.length),
        construct h fs[i] vs[i] = .ok ns[i] := by
  intro fs
  induction fs with
  | nil =>
    intro vs ns hl hc
    cases vs with
    | cons _ _ => simp at hl
    | nil =>
      simp only [constructFields] at hc
      cases hc
      exact ⟨rfl, fun i h0 => by simp at h0⟩
  | cons t ts ih =>
    intro vs ns hl hc
    cases vs with
    | nil => simp at hl
    | cons v vs =>
      simp only [constructFields] at hc
      cases hc1 : construct h t v with
      | error err => simp [hc1] at hc
      | ok m =>
        cases hc2 : constructFields h ts vs with
        | error err => simp [hc1, hc2] at hc
        | ok ms =>
          simp only [hc1, hc2, R.bind_ok] at hc
          cases hc
          obtain ⟨hl', hel⟩ := ih vs ms (by simpa using hl) hc2
          refine ⟨by simp [hl'], ?_⟩
          intro i h0 h1 h2
          cases i with
          | zero => simpa using hc1
          | succ i => simpa using hel i (by simpa using h0) (by simpa using h1) (by simpa using h2)

/-- reading every element of a filled subtree through `GetNode(i)` and a per-element function -/
theorem mapM_series {β : Type} {h : HashFn} {d : Nat} {ns : List Node} {n : Node}
    (f : Node → R β) (out : List β)
    (hf : fillToContents h d ns = .ok n) (hd : d < 64) (hlen : ns.length = out.length)
    (helem : ∀ i (h1 : i < ns.length) (h2 : i < out.length), f ns[i] = .ok out[i]) :
    (List.range out.length).mapM (fun i => do let c ← subtreeGet n d i; f c) = .ok out := by
  apply mapM_range_ok
  intro i hi
  have hi' : i < ns.length := by omega
  rw [get_fill hf hi' hd]
  exact helem i hi' hi

/-! ### offsets -/

theorem writeOffset_ok (prev size : Nat) (h : prev + size < 2 ^ 32) :
    writeOffset prev size = .ok (prev + size) := by
  unfold writeOffset
  rw [if_neg (by omega)]

theorem offs_ok : ∀ (ps : List Bytes) (prev size : Nat),
    prev + size + ps.flatten.length < 2 ^ 32 →
    serVarSeries.offs prev size ps = .ok (offsetsOf (prev + size) ps).flatten := by
  intro ps
  induction ps with
  | nil => intro prev size _; rfl
  | cons p ps ih =>
    intro prev size hlt
    rw [List.flatten_cons, List.length_append] at hlt
    rw [serVarSeries.offs, writeOffset_ok prev size (by omega), R.bind_ok,
      ih (prev + size) p.length (by omega), R.bind_ok]
    rfl

/-- `serializeComplexVarElemSeries` writes the spec layout when every offset fits `uint32` -/
theorem serVarSeries_ok (ps : List Bytes) (hlt : (serVarParts ps).length < 2 ^ 32) :
    serVarSeries ps = .ok (serVarParts ps) := by
  rw [serVarParts_length] at hlt
  unfold serVarSeries
  rw [offs_ok ps _ 0 (by omega), R.bind_ok]
  simp only [serVarParts, Nat.add_zero, Nat.mul_comm]

theorem go_ok : ∀ (ps : List (Bool × Bytes)) (prev size : Nat),
    prev + size + (serVarPart ps).length < 2 ^ 32 →
    serContainer.go prev size ps = .ok (serFixedPart (prev + size) ps) := by
  intro ps
  induction ps with
  | nil => intro prev size _; rfl
  | cons x ps ih =>
    intro prev size hlt
    obtain ⟨fx, p⟩ := x
    cases fx
    · simp only [serVarPart, List.length_append] at hlt
      rw [serContainer.go, writeOffset_ok prev size (by omega), R.bind_ok,
        ih (prev + size) p.length (by omega), R.bind_ok]
      rfl
    · simp only [serVarPart] at hlt
      rw [serContainer.go, ih prev size hlt, R.bind_ok]
      rfl

/-- the container writer produces the spec layout when every offset fits `uint32` -/
theorem serContainer_ok (fp : Nat) (ps : List (Bool × Bytes)) (hfp : fp = fixedPartLen ps)
    (hlt : (serContainerParts ps).length < 2 ^ 32) :
    serContainer fp ps = .ok (serContainerParts ps) := by
  rw [serContainerParts_length] at hlt
  unfold serContainer
  rw [go_ok ps fp 0 (by omega), R.bind_ok, ← serVarPart_eq_filter]
  simp only [serContainerParts, Nat.add_zero, hfp]

/-! ### types whose encoding contains no offsets -/

mutual
/-- no 4-byte offset is ever written when serializing a value of this type: no series of
    variable-size elements and no container with a variable-size field, anywhere inside -/
def offsetFree : Ty → Bool
  | .uint _ | .bool | .bytesN _ | .bitvector _ | .bitlist _ => true
  | .vector e _ => e.isFixed && offsetFree e
  | .list e _ => e.isFixed && offsetFree e
  | .container fs => Ty.allFixed fs && offsetFreeAll fs
  | .union _ opts => offsetFreeAll opts
def offsetFreeAll : List Ty → Bool
  | [] => true
  | t :: ts => offsetFree t && offsetFreeAll ts
end

theorem offsetFreeAll_get : ∀ (ts : List Ty) (k : Nat) (t : Ty), offsetFreeAll ts = true →
    ts[k]? = some t → offsetFree t = true := by
  intro ts
  induction ts with
  | nil => intro k t _ h; simp at h
  | cons a ts ih =>
    intro k t hall h
    simp only [offsetFreeAll, Bool.and_eq_true] at hall
    cases k with
    | zero => simp at h; subst h; exact hall.1
    | succ k => exact ih k t hall.2 (by simpa using h)

/-- the size side condition of `Serialize`: either no offsets are written at all, or the whole
    encoding (hence every offset) fits `uint32` -/
def SizeOk (t : Ty) (v : Val) : Prop := offsetFree t = true ∨ (serialize t v).length < 2 ^ 32

theorem go_ok_fixed : ∀ (ps : List (Bool × Bytes)) (prev size : Nat),
    (∀ x ∈ ps, x.1 = true) →
    serContainer.go prev size ps = .ok (serFixedPart (prev + size) ps) := by
  intro ps
  induction ps with
  | nil => intro prev size _; rfl
  | cons x ps ih =>
    intro prev size hall
    obtain ⟨fx, p⟩ := x
    have hfx : fx = true := hall (fx, p) List.mem_cons_self
    subst hfx
    rw [serContainer.go, ih prev size (fun y hy => hall y (List.mem_cons_of_mem _ hy)), R.bind_ok]
    rfl

theorem serContainer_ok_fixed (fp : Nat) (ps : List (Bool × Bytes)) (hfp : fp = fixedPartLen ps)
    (hall : ∀ x ∈ ps, x.1 = true) : serContainer fp ps = .ok (serContainerParts ps) := by
  unfold serContainer
  rw [go_ok_fixed ps fp 0 hall, R.bind_ok, ← serVarPart_eq_filter]
  simp only [serContainerParts, Nat.add_zero, hfp]

theorem serFields_allFixed : ∀ (fs : List Ty) (vs : List Val), Ty.allFixed fs = true →
    ∀ x ∈ serFields fs vs, x.1 = true := by
  intro fs
  induction fs with
  | nil => intro vs _ x hx; cases vs <;> simp [serFields] at hx
  | cons t ts ih =>
    intro vs h x hx
    cases vs with
    | nil => simp [serFields] at hx
    | cons v vs =>
      simp only [Ty.allFixed, Bool.and_eq_true] at h
      simp only [serFields, List.mem_cons] at hx
      rcases hx with rfl | hx
      · exact h.1
      · exact ih vs h.2 x hx

end ZtypV.View
