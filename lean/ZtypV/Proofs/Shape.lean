/-
Tree-level lemmas about `ZeroTree` / `SeqShape` / `ListShape` (Proofs/Rep.lean): what the
navigation and mutation primitives of Model/Tree.lean and Model/Machine.lean do to a series
subtree.  These are the interface between the tree layer and the typed view layer for
C04 / C12 (the typed proofs never unfold `setNode`/`getNode` themselves).

STATUS: all statements proved (exactly as fixed in the interface stub); the inductions live in
Proofs/ShapeAux.lean in path form (`bitsOf`), here they are wrapped for `toPath`/`subtreeGet`.
-/
import ZtypV.Proofs.Rep
import ZtypV.Proofs.Fill
import ZtypV.Proofs.FillGet
import ZtypV.Proofs.ShapeAux
namespace ZtypV
open ZtypV.View ZtypV.ShapeAux

/-! ### zero trees -/

theorem zeroTree_root (h : HashFn) {d : Nat} {n : Node} (hz : ZeroTree h d n) : n.root h = zh h d := by
  induction hz with
  | leaf d => rfl
  | pair _ _ ihl ihr => simp only [Node.root, ihl, ihr, zh]

theorem zeroTree_zeroNode (h : HashFn) (d : Nat) : ZeroTree h d (zeroNode h d) := by
  exact ZeroTree.leaf d

/-! ### shapes: construction, root, length bound -/

/-- what `fillToContents` builds has the shape of its inputs -/
theorem fill_shape (h : HashFn) {d : Nat} {ns : List Node} {n : Node}
    (hf : fillToContents h d ns = .ok n) : SeqShape h d n ns := by
  exact fill_shape' h d ns n hf

theorem shape_length_le (h : HashFn) {d : Nat} {n : Node} {xs : List Node}
    (hs : SeqShape h d n xs) : xs.length ≤ 2 ^ d := by
  exact length_le h d n xs hs

/-- the root of a shaped subtree is the spec's merkleize of its bottom roots -/
theorem shape_root (h : HashFn) {d : Nat} {n : Node} {xs : List Node}
    (hs : SeqShape h d n xs) : n.root h = merk h d (xs.map (Node.root h)) := by
  exact root_eq h d n xs hs

/-! ### navigation -/

/-- indexed read inside the contents -/
theorem shape_get (h : HashFn) {d : Nat} {n : Node} {xs : List Node}
    (hs : SeqShape h d n xs) {i : Nat} (hi : i < xs.length) (hd : d < 64) :
    subtreeGet n d i = .ok xs[i] := by
  have hlen := length_le h d n xs hs
  unfold subtreeGet
  rw [toPath_ok i d hd (by omega)]
  exact get_path h d n xs i hi hs

/-- indexed write inside the contents (no expansion needed; with `expand = true` the same) -/
theorem shape_set (h : HashFn) {d : Nat} {n : Node} {xs : List Node}
    (hs : SeqShape h d n xs) {i : Nat} (hi : i < xs.length) (hd : d < 64) (x : Node) (e : Bool) :
    ∃ p n', toPath i d = .ok p ∧ setNode h n p e x = .ok n' ∧ SeqShape h d n' (xs.set i x) := by
  have hlen := length_le h d n xs hs
  obtain ⟨n', h1, h2⟩ := set_path h x e d n xs i hi hs
  exact ⟨bitsOf i d, n', toPath_ok i d hd (by omega), h1, h2⟩

/-- append: writing position `xs.length` with expansion materialises zero padding on the way -/
theorem shape_append (h : HashFn) {d : Nat} {n : Node} {xs : List Node}
    (hs : SeqShape h d n xs) (hlen : xs.length < 2 ^ d) (hd : d < 64) (x : Node) :
    ∃ p n', toPath xs.length d = .ok p ∧ setNode h n p true x = .ok n' ∧ SeqShape h d n' (xs ++ [x]) := by
  obtain ⟨n', h1, h2⟩ := append_path h x d n xs hlen hs
  exact ⟨bitsOf xs.length d, n', toPath_ok _ d hd hlen, h1, h2⟩

/-- pop of a complex element: the last position is overwritten by the zero leaf -/
theorem shape_pop (h : HashFn) {d : Nat} {n : Node} {xs : List Node}
    (hs : SeqShape h d n xs) (hne : xs ≠ []) (hd : d < 64) :
    ∃ p n', toPath (xs.length - 1) d = .ok p ∧ setNode h n p true (zeroNode h 0) = .ok n' ∧
      SeqShape h d n' xs.dropLast := by
  have hpos : 0 < xs.length := List.length_pos_iff.mpr hne
  obtain ⟨p, n', h1, h2, h3⟩ := shape_set h hs (i := xs.length - 1) (by omega) hd (zeroNode h 0) true
  refine ⟨p, n', h1, h2, ?_⟩
  apply dropLast_zero h d n'
  have he : xs.set (xs.length - 1) (zeroNode h 0) = xs.dropLast ++ [.leaf z0] :=
    set_last_eq xs hne _
  rw [← he]; exact h3

/-- a bottom node that is the zero chunk can be dropped from the end of the contents
    (needed when a pop empties the last packed chunk) -/
theorem shape_dropLast_zero (h : HashFn) {d : Nat} {n : Node} {xs : List Node}
    (hs : SeqShape h d n (xs ++ [.leaf z0])) : SeqShape h d n xs := by
  exact dropLast_zero h d n xs hs

/-- reading one position past the contents: an error or the zero leaf, never data -/
theorem shape_get_beyond (h : HashFn) {d : Nat} {n : Node} {xs : List Node}
    (hs : SeqShape h d n xs) {i : Nat} (hi : xs.length ≤ i) (hi2 : i < 2 ^ d) (hd : d < 64) :
    subtreeGet n d i = .error .nav ∨ ∃ z, subtreeGet n d i = .ok z ∧ ZeroTree h 0 z := by
  unfold subtreeGet
  rw [toPath_ok i d hd hi2]
  exact get_beyond_path h d n xs i hi hi2 hs

/-! ### list views: contents at depth `d` under a pair with the length node -/

theorem listShape_length (h : HashFn) {d : Nat} {n : Node} {xs : List Node} {len lim : Nat}
    (hs : ListShape h d n xs len) (hl : len ≤ lim) (h64 : len < 2 ^ 64) : listLength n lim = .ok len := by
  obtain ⟨c, rfl, _⟩ := hs
  have hll := leNat_lengthChunk len h64
  unfold listLength
  simp only [getNode, lengthNode, asLeaf, if_true, bind, Except.bind, hll]
  rw [if_neg (by omega)]

theorem listShape_root (h : HashFn) {d : Nat} {n : Node} {xs : List Node} {len : Nat}
    (hs : ListShape h d n xs len) : n.root h = mixin h (merk h d (xs.map (Node.root h))) len := by
  obtain ⟨c, rfl, hc⟩ := hs
  simp only [Node.root, lengthNode, mixin, root_eq h d c xs hc]

/-- navigation at view depth `d + 1` stays in the contents -/
theorem listShape_get (h : HashFn) {d : Nat} {n : Node} {xs : List Node} {len : Nat}
    (hs : ListShape h d n xs len) {i : Nat} (hi : i < xs.length) (hd : d + 1 < 64) :
    subtreeGet n (d + 1) i = .ok xs[i] := by
  obtain ⟨c, rfl, hc⟩ := hs
  have hlen := length_le h d c xs hc
  rw [subtreeGet_pair_left c _ d i hd (by omega)]
  exact shape_get h hc hi (by omega)

theorem listShape_set (h : HashFn) {d : Nat} {n : Node} {xs : List Node} {len : Nat}
    (hs : ListShape h d n xs len) {i : Nat} (hi : i < xs.length) (hd : d + 1 < 64) (x : Node) (e : Bool) :
    ∃ p n', toPath i (d + 1) = .ok p ∧ setNode h n p e x = .ok n' ∧ ListShape h d n' (xs.set i x) len := by
  obtain ⟨c, rfl, hc⟩ := hs
  have hlen := length_le h d c xs hc
  obtain ⟨c', h1, h2⟩ := set_path h x e d c xs i hi hc
  have hi' : i < 2 ^ d := by omega
  refine ⟨bitsOf i (d + 1), .pair c' (lengthNode len), toPath_ok i (d + 1) hd ?_, ?_, c', rfl, h2⟩
  · rw [Nat.pow_succ]; omega
  · rw [bitsOf_succ, testBit_top_false i d hi', setNode_pair_false, h1]; rfl

theorem listShape_append (h : HashFn) {d : Nat} {n : Node} {xs : List Node} {len : Nat}
    (hs : ListShape h d n xs len) (hlen : xs.length < 2 ^ d) (hd : d + 1 < 64) (x : Node) :
    ∃ p n', toPath xs.length (d + 1) = .ok p ∧ setNode h n p true x = .ok n' ∧
      ListShape h d n' (xs ++ [x]) len := by
  obtain ⟨c, rfl, hc⟩ := hs
  obtain ⟨c', h1, h2⟩ := append_path h x d c xs hlen hc
  refine ⟨bitsOf xs.length (d + 1), .pair c' (lengthNode len), toPath_ok _ (d + 1) hd ?_, ?_,
    c', rfl, h2⟩
  · rw [Nat.pow_succ]; omega
  · rw [bitsOf_succ, testBit_top_false _ d hlen, setNode_pair_false, h1]; rfl

theorem listShape_setLength (h : HashFn) {d : Nat} {n : Node} {xs : List Node} {len : Nat}
    (hs : ListShape h d n xs len) (len' : Nat) :
    ∃ n', setLength h n len' = .ok n' ∧ ListShape h d n' xs len' := by
  obtain ⟨c, rfl, hc⟩ := hs
  refine ⟨.pair c (lengthNode len'), ?_, c, rfl, hc⟩
  unfold setLength
  rw [setNode_pair_true, setNode_nil]; rfl



/-! ### non-vacuity: a concrete shaped subtree, and an append into its zero summary -/

private def hcat : HashFn := fun a b => a ++ b

example : SeqShape hcat 2
    (.pair (.pair (.leaf [1]) (zeroNode hcat 0)) (zeroNode hcat 1)) [.leaf [1]] :=
  fill_shape hcat (d := 2) (ns := [.leaf [1]]) (by simp [fillToContents, bind, Except.bind])

example : ∃ n', setNode hcat
      (.pair (.pair (.leaf [1]) (.leaf [2])) (zeroNode hcat 1)) [true, false] true (.leaf [3]) = .ok n' ∧
    SeqShape hcat 2 n' [.leaf [1], .leaf [2], .leaf [3]] := by
  have hs : SeqShape hcat 2
      (.pair (.pair (.leaf [1]) (.leaf [2])) (zeroNode hcat 1)) [.leaf [1], .leaf [2]] :=
    fill_shape hcat (d := 2) (ns := [.leaf [1], .leaf [2]]) (by simp [fillToContents, bind, Except.bind])
  obtain ⟨p, n', h1, h2, h3⟩ := shape_append hcat hs (by decide) (by decide) (.leaf [3])
  have hp : p = [true, false] := by
    have : toPath 2 2 = .ok [true, false] := by
      rw [toPath_ok 2 2 (by omega) (by omega)]; congr 1
    simp only [List.length_cons, List.length_nil] at h1
    rw [this] at h1; cases h1; rfl
  subst hp
  exact ⟨n', h2, h3⟩

end ZtypV
