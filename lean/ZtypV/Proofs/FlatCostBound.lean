/-
C20, flat side, part 6: the allocation bound type by type and the master theorem
`flatDecodeM_good` (recursion over the type):

  successful runs   cost ≤ flatRate t · (bytes consumed)
  every run         cost ≤ flatRate t · (bytes available) + flatRate t · scope + 128 · flatFootprint t
-/
import ZtypV.Proofs.FlatCostStruct
namespace ZtypV.FlatCostProofs
open ZtypV ZtypV.View ZtypV.Flat ZtypV.DecodeProofs ZtypV.CostProofs ZtypV.FlatProofs

variable {α β : Type}

theorem sound_of_wf {t : Ty} (hw : t.wf = true) (p : Val) :
    DSound t (fun d => (flatDecodeM t p d).res) := by
  have : (fun d => (flatDecodeM t p d).res) = flatDecode t p := funext (flatDecodeM_res t p)
  rw [this]; exact flatDecode_sound t hw p

theorem mono_of (t : Ty) (p : Val) : Mono (fun d => (flatDecodeM t p d).res) := by
  have : (fun d => (flatDecodeM t p d).res) = flatDecode t p := funext (flatDecodeM_res t p)
  rw [this]; exact flatDecode_mono t p

/-- types whose decoder has one bound `c dr` for every run -/
theorem good_leaf {t : Ty} {p : Val} (hw : t.wf = true) {r F : Nat} (c : DR → Nat)
    (hall : ∀ dr, (flatDecodeM t p dr).cost ≤ c dr)
    (hok : ∀ dr, c dr ≤ r * need t dr)
    (hany : ∀ dr, c dr ≤ r * dr.avail.length + r * dr.scope + F) :
    Good t r F (fun d => flatDecodeM t p d) where
  sound := sound_of_wf hw p
  mono := mono_of t p
  ok := fun dr _ _ _ => Nat.le_trans (hall dr) (hok dr)
  any := fun dr => Nat.le_trans (hall dr) (hany dr)

/-! ### leaves -/

theorem uint_cost (b : Nat) (p : Val) (dr : DR) : (flatDecodeM (.uint b) p dr).cost = 0 := by
  rw [flatDecodeM]; rfl
theorem bool_cost (p : Val) (dr : DR) : (flatDecodeM .bool p dr).cost = 0 := by
  rw [flatDecodeM]; rfl

theorem bytesN_cost (n : Nat) (p : Val) (dr : DR) : (flatDecodeM (.bytesN n) p dr).cost ≤ n := by
  rw [flatDecodeM]
  split
  · rw [cost_lift]; omega
  · rw [cost_bind_zero _ _ (fun _ => rfl)]
    exact decByteVectorC_cost _ _ _

theorem bitvector_cost (n : Nat) (p : Val) (dr : DR) :
    (flatDecodeM (.bitvector n) p dr).cost ≤ (n + 7) / 8 := by
  rw [flatDecodeM]
  rw [cost_bind_zero _ _ (fun _ => rfl)]
  exact decBitVectorC_cost _ _ _

theorem bitlist_cost (n : Nat) (p : Val) (dr : DR) :
    (flatDecodeM (.bitlist n) p dr).cost ≤ dr.scope := by
  rw [flatDecodeM]
  rw [cost_bind_zero _ _ (fun _ => rfl)]
  exact decBitListC_cost _ _ _

theorem uint_good (b : Nat) (hw : (Ty.uint b).wf = true) (p : Val) :
    Good (.uint b) 0 0 (fun d => flatDecodeM (.uint b) p d) :=
  good_leaf hw (fun _ => 0) (fun dr => by rw [uint_cost]; omega) (fun _ => by omega) (fun _ => by omega)

theorem bool_good (p : Val) : Good .bool 0 0 (fun d => flatDecodeM .bool p d) :=
  good_leaf rfl (fun _ => 0) (fun dr => by rw [bool_cost]; omega) (fun _ => by omega) (fun _ => by omega)

theorem bytesN_good (n : Nat) (hw : (Ty.bytesN n).wf = true) (p : Val) :
    Good (.bytesN n) 1 32 (fun d => flatDecodeM (.bytesN n) p d) := by
  have hn : n ≤ 32 := by
    simp only [Ty.wf, Bool.and_eq_true, decide_eq_true_eq] at hw; exact hw.2
  refine good_leaf hw (fun _ => n) (bytesN_cost n p) (fun dr => ?_) (fun dr => by omega)
  rw [need_fixed (by rfl)]
  simp only [Ty.fixedSize]
  omega

theorem bitvector_good (n : Nat) (hw : (Ty.bitvector n).wf = true) (p : Val) :
    Good (.bitvector n) 1 ((n + 7) / 8) (fun d => flatDecodeM (.bitvector n) p d) := by
  refine good_leaf hw (fun _ => (n + 7) / 8) (bitvector_cost n p) (fun dr => ?_) (fun dr => by omega)
  rw [need_fixed (by rfl)]
  simp only [Ty.fixedSize]
  omega

theorem bitlist_good (n : Nat) (p : Val) :
    Good (.bitlist n) 1 0 (fun d => flatDecodeM (.bitlist n) p d) := by
  refine good_leaf rfl (fun dr => dr.scope) (bitlist_cost n p) (fun dr => ?_) (fun dr => by omega)
  rw [need_var (by rfl)]
  omega

/-! ### vectors -/

theorem vector_u8_cost (n : Nat) (p : Val) (dr : DR) :
    (flatDecodeM (.vector (.uint 1) n) p dr).cost ≤ n := by
  rw [flatDecodeM]
  rw [if_pos (by rfl)]
  rw [cost_bind_zero _ _ (fun _ => rfl)]
  exact decByteVectorC_cost _ _ _

theorem vector_u8_good (n : Nat) (hn : 1 ≤ n) (p : Val) :
    Good (.vector (.uint 1) n) 1 n (fun d => flatDecodeM (.vector (.uint 1) n) p d) := by
  refine good_leaf (by simp [Ty.wf, hn]) (fun _ => n) (vector_u8_cost n p) (fun dr => ?_)
    (fun dr => by omega)
  rw [need_fixed (by rfl)]
  have hfs : (Ty.vector (.uint 1) n).fixedSize = n := by simp [Ty.fixedSize, Ty.isFixed]
  rw [hfs]; omega

theorem vector_root_cost (n : Nat) (p : Val) (dr : DR) :
    (flatDecodeM (.vector (.bytesN 32) n) p dr).cost ≤ 32 * n := by
  rw [flatDecodeM]
  rw [if_neg (by decide), if_pos (by rfl)]
  rw [cost_bind_zero _ _ (fun _ => rfl)]
  exact readRootsC_cost _ _ _

theorem vector_root_good (n : Nat) (hn : 1 ≤ n) (p : Val) :
    Good (.vector (.bytesN 32) n) 1 (32 * n) (fun d => flatDecodeM (.vector (.bytesN 32) n) p d) := by
  refine good_leaf (by simp [Ty.wf, hn]) (fun _ => 32 * n) (vector_root_cost n p) (fun dr => ?_)
    (fun dr => by omega)
  rw [need_fixed (by rfl)]
  have hfs : (Ty.vector (.bytesN 32) n).fixedSize = n * 32 := by simp [Ty.fixedSize, Ty.isFixed]
  rw [hfs]; omega

theorem items_range_good {e : Ty} {r F : Nat} (hg : ∀ q, Good e r F (fun d => flatDecodeM e q d))
    (p : Val) (n : Nat) :
    ∀ it ∈ (List.range n).map (fun i =>
      (⟨flatFixedLength e, fun d => flatDecodeM e (priorElem p i) d⟩ : DesC)), Good e r F it.run := by
  intro it hit
  obtain ⟨i, _, rfl⟩ := List.mem_map.mp hit
  exact hg _

theorem vector_gen_good {e : Ty} {n r F : Nat} (hwe : e.wf = true) (hn : 1 ≤ n)
    (hu8 : ¬ isU8 e = true) (hroot : ¬ isRootTy e = true)
    (hg : ∀ q, Good e r F (fun d => flatDecodeM e q d)) (p : Val) :
    Good (.vector e n) (104 + r) (128 * n + F) (fun d => flatDecodeM (.vector e n) p d) := by
  have hwT : (Ty.vector e n).wf = true := by simp [Ty.wf, hn, hwe]
  have hitems := items_range_good hg p n
  have hilen : ((List.range n).map (fun i =>
      (⟨flatFixedLength e, fun d => flatDecodeM e (priorElem p i) d⟩ : DesC))).length = n := by simp
  refine ⟨sound_of_wf hwT p, mono_of _ p, ?_, ?_⟩
  · intro dr v dr' hr
    obtain ⟨_, _, s1, s2⟩ := sound_of_wf hwT p dr v dr' hr
    have hv : dr'.avail.length = dr.avail.length - need (.vector e n) dr := by
      rw [s2, List.length_drop]
    rw [flatDecodeM] at hr ⊢
    rw [if_neg hu8, if_neg hroot] at hr ⊢
    dsimp only at hr ⊢
    generalize (List.range n).map (fun i =>
      (⟨flatFixedLength e, fun d => flatDecodeM e (priorElem p i) d⟩ : DesC)) = items
      at hr hitems hilen ⊢
    obtain ⟨⟨vs, d1⟩, h1, hr, hc1⟩ := bind_ok_inv hr
    rw [hc1]
    dsimp only at hr ⊢
    cases hr
    rw [cost_pure]
    obtain ⟨a1, a2, a3⟩ := decVectorC_ok hwe items hitems h1
    rw [hilen] at a2 a3
    have e1 := mul_split r (need (.vector e n) dr) dr.avail.length s1
    rw [← hv] at e1
    have e2 : (104 + r) * need (.vector e n) dr =
        104 * need (.vector e n) dr + r * need (.vector e n) dr := Nat.add_mul _ _ _
    have hnn : n ≤ need (.vector e n) dr := by
      cases hf : e.isFixed with
      | true =>
        rw [need_fixed (by simp [Ty.isFixed, hf])]
        have hfs : (Ty.vector e n).fixedSize = n * e.fixedSize := by simp [Ty.fixedSize, hf]
        rw [hfs]
        exact Nat.le_mul_of_pos_right n (FlatProofs.fixedSize_pos hwe hf)
      | false =>
        rw [need_var (by simp [Ty.isFixed, hf])]
        have := a2 hf
        omega
    omega
  · intro dr
    rw [flatDecodeM]
    rw [if_neg hu8, if_neg hroot]
    dsimp only
    generalize (List.range n).map (fun i =>
      (⟨flatFixedLength e, fun d => flatDecodeM e (priorElem p i) d⟩ : DesC)) = items
      at hitems hilen ⊢
    rw [cost_bind_zero _ _ (fun _ => rfl)]
    have := decVectorC_any hwe items hitems dr
    rw [hilen] at this
    have m1 : r * dr.avail.length ≤ (104 + r) * dr.avail.length := Nat.mul_le_mul_right _ (by omega)
    have m2 : r * dr.scope ≤ (104 + r) * dr.scope := Nat.mul_le_mul_right _ (by omega)
    omega

theorem vector_good {e : Ty} {n r F : Nat} (hwe : e.wf = true) (hn : 1 ≤ n)
    (hg : ∀ q, Good e r F (fun d => flatDecodeM e q d)) (p : Val) :
    Good (.vector e n) (104 + r) (128 * n + F) (fun d => flatDecodeM (.vector e n) p d) := by
  by_cases hu8 : isU8 e = true
  · have := isU8_iff.mp hu8; subst this
    exact (vector_u8_good n hn p).weaken (by omega) (by omega)
  by_cases hroot : isRootTy e = true
  · have := isRootTy_iff.mp hroot; subst this
    exact (vector_root_good n hn p).weaken (by omega) (by omega)
  exact vector_gen_good hwe hn hu8 hroot hg p

/-! ### lists -/

theorem list_u8_cost (lim : Nat) (p : Val) (dr : DR) :
    (flatDecodeM (.list (.uint 1) lim) p dr).cost ≤ dr.scope := by
  rw [flatDecodeM]
  rw [if_pos (by rfl)]
  rw [cost_bind_zero _ _ (fun _ => rfl)]
  exact decByteListC_cost _ _ _

theorem list_root_cost (lim : Nat) (p : Val) (dr : DR) :
    (flatDecodeM (.list (.bytesN 32) lim) p dr).cost ≤ dr.scope := by
  rw [flatDecodeM]
  rw [if_neg (by decide), if_pos (by rfl)]
  rw [cost_bind_zero _ _ (fun _ => rfl)]
  exact readRootsLimitedC_cost _ _ _

theorem list_flat_good {e : Ty} (lim : Nat) (hwe : e.wf = true) (p : Val)
    (hall : ∀ dr, (flatDecodeM (.list e lim) p dr).cost ≤ dr.scope) :
    Good (.list e lim) 1 0 (fun d => flatDecodeM (.list e lim) p d) := by
  refine good_leaf (by simp [Ty.wf, hwe]) (fun dr => dr.scope) hall (fun dr => ?_) (fun dr => by omega)
  rw [need_var (by rfl)]
  omega

theorem list_gen_good {e : Ty} {lim r F : Nat} (hwe : e.wf = true)
    (hu8 : ¬ isU8 e = true) (hroot : ¬ isRootTy e = true)
    (hg : ∀ q, Good e r F (fun d => flatDecodeM e q d)) (p : Val) :
    Good (.list e lim) (104 + zeroCost e + r) F (fun d => flatDecodeM (.list e lim) p d) := by
  have hwT : (Ty.list e lim).wf = true := by simp [Ty.wf, hwe]
  have hrate : ∀ s, (104 + zeroCost e + r) * s = (zeroCost e + 104) * s + r * s := by
    intro s; rw [Nat.add_comm 104 (zeroCost e), Nat.add_mul]
  refine ⟨sound_of_wf hwT p, mono_of _ p, ?_, ?_⟩
  · intro dr v dr' hr
    obtain ⟨_, _, s1, s2⟩ := sound_of_wf hwT p dr v dr' hr
    rw [need_var (by rfl)] at s1 s2 ⊢
    have hv : dr'.avail.length = dr.avail.length - dr.scope := by rw [s2, List.length_drop]
    rw [flatDecodeM] at hr ⊢
    rw [if_neg hu8, if_neg hroot] at hr ⊢
    obtain ⟨⟨vs, d1⟩, h1, hr, hc1⟩ := bind_ok_inv hr
    rw [hc1]
    dsimp only at hr ⊢
    cases hr
    rw [cost_pure]
    obtain ⟨a1, a3⟩ := decListC_ok hwe (zeroCost e) (hg Val.none) lim h1
    have e1 := mul_split r dr.scope dr.avail.length s1
    rw [← hv] at e1
    rw [hrate]
    omega
  · intro dr
    rw [flatDecodeM]
    rw [if_neg hu8, if_neg hroot]
    rw [cost_bind_zero _ _ (fun _ => rfl)]
    have := decListC_any hwe (zeroCost e) (hg Val.none) lim dr
    rw [hrate, hrate]
    have m1 : 0 ≤ (zeroCost e + 104) * dr.avail.length := Nat.zero_le _
    omega

theorem list_good {e : Ty} {lim r F : Nat} (hwe : e.wf = true)
    (hg : ∀ q, Good e r F (fun d => flatDecodeM e q d)) (p : Val) :
    Good (.list e lim) (104 + zeroCost e + r) F (fun d => flatDecodeM (.list e lim) p d) := by
  by_cases hu8 : isU8 e = true
  · have := isU8_iff.mp hu8; subst this
    exact (list_flat_good lim hwe p (list_u8_cost lim p)).weaken (by omega) (by omega)
  by_cases hroot : isRootTy e = true
  · have := isRootTy_iff.mp hroot; subst this
    exact (list_flat_good lim hwe p (list_root_cost lim p)).weaken (by omega) (by omega)
  exact list_gen_good hwe hu8 hroot hg p

/-! ### containers -/

theorem flatFieldDesM_good {r F : Nat} : ∀ (fs : List Ty) (p : Val) (i : Nat),
    (∀ t ∈ fs, ∀ q, Good t r F (fun d => flatDecodeM t q d)) → FieldsGood r F fs (flatFieldDesM fs p i)
  | [], p, i, _ => by rw [flatFieldDesM]; trivial
  | t :: ts, p, i, h => by
    rw [flatFieldDesM]
    exact ⟨rfl, h t (by simp) _, flatFieldDesM_good ts p (i + 1) (fun t' ht' => h t' (by simp [ht']))⟩

theorem container_good {fs : List Ty} {r F : Nat} (hne : fs.isEmpty = false) (hw : Ty.wfAll fs = true)
    (hg : ∀ t ∈ fs, ∀ q, Good t r F (fun d => flatDecodeM t q d)) (p : Val) :
    Good (.container fs) (96 + r) (96 + F) (fun d => flatDecodeM (.container fs) p d) := by
  have hwT : (Ty.container fs).wf = true := by simp [Ty.wf, hne, hw]
  have hfields := flatFieldDesM_good fs p 0 hg
  have hrate : ∀ s, (96 + r) * s = 96 * s + r * s := fun s => Nat.add_mul _ _ _
  refine ⟨sound_of_wf hwT p, mono_of _ p, ?_, ?_⟩
  · intro dr v dr' hr
    obtain ⟨_, _, s1, s2⟩ := sound_of_wf hwT p dr v dr' hr
    rw [flatDecodeM] at hr ⊢
    have hv : dr'.avail.length = dr.avail.length - need (.container fs) dr := by
      rw [s2, List.length_drop]
    cases hall : Ty.allFixed fs with
    | true =>
      rw [hall] at hr
      rw [if_pos rfl] at hr ⊢
      obtain ⟨⟨vs, d1⟩, h1, hr, hc1⟩ := bind_ok_inv hr
      rw [hc1]
      dsimp only at hr ⊢
      cases hr
      rw [cost_pure]
      obtain ⟨a1, a2⟩ := fixedLenG_ok fs _ dr _ _ hfields hall h1
      have e1 := mul_split r (need (.container fs) dr) dr.avail.length s1
      rw [← hv] at e1
      rw [hrate]
      omega
    | false =>
      rw [hall] at hr
      rw [if_neg (by simp)] at hr ⊢
      obtain ⟨⟨vs, d1⟩, h1, hr, hc1⟩ := bind_ok_inv hr
      rw [hc1]
      dsimp only at hr ⊢
      cases hr
      rw [cost_pure]
      obtain ⟨a1, a2⟩ := decContainerC_ok (ρ := 96 + r) (Nat.le_refl _) hw hfields h1
      have e1 := mul_split (96 + r) (need (.container fs) dr) dr.avail.length s1
      rw [← hv] at e1
      omega
  · intro dr
    rw [flatDecodeM]
    cases hall : Ty.allFixed fs with
    | true =>
      rw [if_pos rfl]
      rw [cost_bind_zero _ _ (fun _ => rfl)]
      have := fixedLenG_any fs _ dr hfields hall
      rw [hrate, hrate]
      omega
    | false =>
      rw [if_neg (by simp)]
      rw [cost_bind_zero _ _ (fun _ => rfl)]
      have := decContainerC_any (ρ := 96 + r) (Nat.le_refl _) hw hfields dr
      omega

/-! ### unions -/

theorem flatSelectM_good {r F : Nat} : ∀ (opts : List Ty), Ty.wfAll opts = true →
    (∀ t ∈ opts, ∀ q, Good t r F (fun d => flatDecodeM t q d)) → ∀ (k : Nat),
    (flatSelectM opts k).cost ≤ 64 + 64 * footprints opts ∧
      ∀ d, (flatSelectM opts k).res = .ok (some d) →
        ∃ t : Ty, t.wf = true ∧ d.fixedLength = flatFixedLength t ∧ Good t r F d.run
  | [], _, _, k => by
    rw [flatSelectM]
    exact ⟨by rw [cost_fail]; omega, fun d h => by cases h⟩
  | t :: ts, hw, hg, 0 => by
    simp only [Ty.wfAll, Bool.and_eq_true] at hw
    rw [flatSelectM]
    refine ⟨?_, ?_⟩
    · rw [tick_pure_cost, footprints]; unfold zeroCost; omega
    · intro d h
      rw [res_bind_ok (a := ()) rfl] at h
      cases h
      exact ⟨t, hw.1, rfl, hg t (by simp) _⟩
  | t :: ts, hw, hg, k + 1 => by
    simp only [Ty.wfAll, Bool.and_eq_true] at hw
    rw [flatSelectM]
    obtain ⟨h1, h2⟩ := flatSelectM_good ts hw.2 (fun t' ht' => hg t' (by simp [ht'])) k
    refine ⟨?_, h2⟩
    rw [footprints]; omega

theorem union_good {hasNone : Bool} {opts : List Ty} {r F : Nat}
    (hwT : (Ty.union hasNone opts).wf = true) (hw : Ty.wfAll opts = true)
    (hg : ∀ t ∈ opts, ∀ q, Good t r F (fun d => flatDecodeM t q d)) (p : Val) :
    Good (.union hasNone opts) (64 + 64 * footprints opts + r) F
      (fun d => flatDecodeM (.union hasNone opts) p d) := by
  have hsel : SelGood r F (64 + 64 * footprints opts) (fun sel =>
      if sel ≥ opts.length + (if hasNone = true then 1 else 0) then (CR.fail .other : CR (Option DesC))
      else if (hasNone && sel == 0) = true then pure Option.none
      else flatSelectM opts (if hasNone = true then sel - 1 else sel)) := by
    intro s
    dsimp only
    by_cases c1 : s ≥ opts.length + (if hasNone = true then 1 else 0)
    · rw [if_pos c1]
      exact ⟨by rw [cost_fail]; omega, fun d h => by cases h⟩
    rw [if_neg c1]
    by_cases c2 : (hasNone && s == 0) = true
    · rw [if_pos c2]
      exact ⟨by rw [cost_pure]; omega, fun d h => by cases h⟩
    rw [if_neg c2]
    exact flatSelectM_good opts hw hg _
  refine ⟨sound_of_wf hwT p, mono_of _ p, ?_, ?_⟩
  · intro dr v dr' hr
    rw [flatDecodeM] at hr ⊢
    dsimp only at hr ⊢
    obtain ⟨⟨⟨sel, ov⟩, d1⟩, h1, hr, hc1⟩ := bind_ok_inv hr
    rw [hc1]
    obtain ⟨a1, a2⟩ := decUnionC_ok hsel h1
    rw [need_var (by rfl)]
    generalize 64 + 64 * footprints opts = Z at a2 ⊢
    have e1 : (Z + r) * dr.scope = Z * dr.scope + r * dr.scope := Nat.add_mul _ _ _
    have e2 : Z ≤ Z * dr.scope := Nat.le_mul_of_pos_right Z (by omega)
    have e3 : r * (dr.scope - 1) ≤ r * dr.scope := Nat.mul_le_mul_left r (by omega)
    cases ov <;> (dsimp only; rw [cost_pure]; omega)
  · intro dr
    rw [flatDecodeM]
    dsimp only
    rw [cost_bind_zero _ _ (fun x => by obtain ⟨⟨sel, ov⟩, d⟩ := x; cases ov <;> rfl)]
    exact decUnionC_any hsel dr

end ZtypV.FlatCostProofs
