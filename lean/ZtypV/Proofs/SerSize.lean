/-
Size facts of the Spec's `serialize`: element lists, fixed-size types have exactly
`fixedSize` bytes, container fixed part.  Core Lean only.
-/
import ZtypV.Proofs.SerLemmas
namespace ZtypV

@[simp] theorem serList_length (e : Ty) : ∀ (vs : List Val), (serList e vs).length = vs.length := by
  intro vs
  induction vs with
  | nil => simp [serList]
  | cons v vs ih => simp [serList, ih]

theorem serList_getElem (e : Ty) : ∀ (vs : List Val) (i : Nat) (hi : i < vs.length),
    (serList e vs)[i]'(by simpa using hi) = serialize e vs[i] := by
  intro vs
  induction vs with
  | nil => intro i hi; simp at hi
  | cons v vs ih =>
    intro i hi
    cases i with
    | zero => simp [serList]
    | succ i => simp [serList, ih i (by simpa using hi)]

theorem mem_serList (e : Ty) : ∀ (vs : List Val) (l : Bytes), l ∈ serList e vs →
    ∃ v, v ∈ vs ∧ l = serialize e v := by
  intro vs
  induction vs with
  | nil => intro l hl; simp [serList] at hl
  | cons v vs ih =>
    intro l hl
    simp only [serList, List.mem_cons] at hl
    rcases hl with rfl | hl
    · exact ⟨v, List.mem_cons_self, rfl⟩
    · obtain ⟨w, hw, rfl⟩ := ih l hl
      exact ⟨w, List.mem_cons_of_mem _ hw, rfl⟩

theorem allHaveType_mem (e : Ty) : ∀ (vs : List Val), allHaveType e vs = true → ∀ v, v ∈ vs →
    hasType e v = true := by
  intro vs
  induction vs with
  | nil => intro _ v hv; cases hv
  | cons a vs ih =>
    intro h v hv
    simp only [allHaveType, Bool.and_eq_true] at h
    rcases List.mem_cons.mp hv with rfl | hv
    · exact h.1
    · exact ih h.2 v hv

theorem allHaveType_getElem (e : Ty) (vs : List Val) (h : allHaveType e vs = true) (i : Nat)
    (hi : i < vs.length) : hasType e vs[i] = true :=
  allHaveType_mem e vs h _ (List.getElem_mem hi)

theorem fieldsHaveType_length : ∀ (fs : List Ty) (vs : List Val), fieldsHaveType fs vs = true →
    fs.length = vs.length := by
  intro fs
  induction fs with
  | nil => intro vs h; cases vs <;> simp [fieldsHaveType] at h ⊢
  | cons t ts ih =>
    intro vs h
    cases vs with
    | nil => simp [fieldsHaveType] at h
    | cons v vs =>
      simp only [fieldsHaveType, Bool.and_eq_true] at h
      simp [ih vs h.2]

@[simp] theorem serFields_length : ∀ (fs : List Ty) (vs : List Val),
    (serFields fs vs).length = min fs.length vs.length := by
  intro fs
  induction fs with
  | nil => intro vs; simp [serFields]
  | cons t ts ih =>
    intro vs
    cases vs with
    | nil => simp [serFields]
    | cons v vs => simp [serFields, ih vs]

/-- the fixed part of a container encoding has the statically known length -/
theorem fixedPartLen_serFields : ∀ (fs : List Ty) (vs : List Val),
    (∀ v ∈ vs, ∀ t : Ty, t.isFixed = true → hasType t v = true →
      (serialize t v).length = t.fixedSize) →
    fieldsHaveType fs vs = true → fixedPartLen (serFields fs vs) = Ty.fixedPart fs := by
  intro fs
  induction fs with
  | nil =>
    intro vs _ h
    cases vs with
    | nil => rfl
    | cons v vs => simp [fieldsHaveType] at h
  | cons t ts ih =>
    intro vs hall h
    cases vs with
    | nil => simp [fieldsHaveType] at h
    | cons v vs =>
      simp only [fieldsHaveType, Bool.and_eq_true] at h
      simp only [serFields, fixedPartLen, Ty.fixedPart]
      rw [ih vs (fun w hw => hall w (List.mem_cons_of_mem _ hw)) h.2]
      cases hfx : t.isFixed
      · simp
      · simp [hall v List.mem_cons_self t hfx h.1]

theorem serVarPart_allFixed : ∀ (fs : List Ty) (vs : List Val), Ty.allFixed fs = true →
    serVarPart (serFields fs vs) = [] := by
  intro fs
  induction fs with
  | nil => intro vs _; cases vs <;> rfl
  | cons t ts ih =>
    intro vs h
    cases vs with
    | nil => rfl
    | cons v vs =>
      simp only [Ty.allFixed, Bool.and_eq_true] at h
      simp only [serFields, h.1, serVarPart]
      exact ih vs h.2

/-- C15-style fact: a value of a fixed-size type has exactly `fixedSize` bytes -/
theorem serialize_fixed_length : ∀ (v : Val) (t : Ty), t.isFixed = true → hasType t v = true →
    (serialize t v).length = t.fixedSize := by
  intro v
  induction v using Val.induct with
  | num n =>
    intro t hf ht
    cases t <;> simp [hasType] at ht
    simp [serialize, Ty.fixedSize]
  | bool b =>
    intro t hf ht
    cases t <;> simp [hasType] at ht
    simp [serialize, Ty.fixedSize]
  | bytes bs =>
    intro t hf ht
    cases t <;> simp [hasType] at ht
    simp [serialize, Ty.fixedSize, ht]
  | bits bs =>
    intro t hf ht
    cases t <;> simp [hasType, Ty.isFixed] at ht hf
    simp [serialize, Ty.fixedSize, ht]
  | seq vs ih =>
    intro t hf ht
    cases t <;> simp [hasType, Ty.isFixed] at ht hf
    · rename_i e k
      simp only [serialize, hf, if_true, Ty.fixedSize]
      rw [flatten_uniform_length e.fixedSize, serList_length, ht.1]
      intro l hl
      obtain ⟨w, hw, rfl⟩ := mem_serList e vs l hl
      exact ih w hw e hf (allHaveType_mem e vs ht.2 w hw)
    · rename_i fs
      simp only [serialize, Ty.fixedSize]
      rw [serContainerParts_length, serVarPart_allFixed fs vs hf,
        fixedPartLen_serFields fs vs ih ht]
      rfl
  | none =>
    intro t hf ht
    cases t <;> simp [hasType] at ht
  | union sel v ih =>
    intro t hf ht
    cases t <;> simp [hasType, Ty.isFixed] at ht hf

end ZtypV
