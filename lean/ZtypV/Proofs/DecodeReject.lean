/-
C03, helpers for the rejection corollaries: what the first reads of a top-level reader return.
-/
import ZtypV.Proofs.DecodeSound
namespace ZtypV.DecodeProofs
open ZtypV ZtypV.View

theorem isOk_ex {α : Type} {x : R α} (h : x.isOk = true) : ∃ n, x = .ok n := by
  cases x with
  | ok a => exact ⟨a, rfl⟩
  | error e => cases h

def isOther {α : Type} : R α → Bool
  | .error .other => true
  | _ => false

theorem isOther_eq {α : Type} {x : R α} (h : isOther x = true) : x = .error .other := by
  cases x with
  | ok a => cases h
  | error e => cases e <;> first | rfl | cases h

theorem read_new (bs : Bytes) (n : Nat) (hn : n ≤ bs.length) :
    (DR.new bs bs.length).read n
      = .ok (bs.take n, { i := n, max := bs.length, avail := bs.drop n }) := by
  unfold DR.read DR.new
  simp only [List.take_length, Nat.zero_add]
  split
  · rename_i h0; subst h0; simp
  · rw [if_neg (by omega), if_neg (by omega)]

theorem read_new_short (bs : Bytes) (n : Nat) (hn : bs.length < n) :
    (DR.new bs bs.length).read n = .error .other := by
  unfold DR.read DR.new
  simp only [List.take_length, Nat.zero_add]
  rw [if_neg (by omega), if_pos (by omega)]

theorem readOffset_new (bs : Bytes) (hn : 4 ≤ bs.length) :
    (DR.new bs bs.length).readOffset
      = .ok (leNat (bs.take 4), { i := 4, max := bs.length, avail := bs.drop 4 }) := by
  unfold DR.readOffset
  rw [read_new bs 4 hn]; rfl

theorem readOffset_new_short (bs : Bytes) (hn : bs.length < 4) :
    (DR.new bs bs.length).readOffset = .error .other := by
  unfold DR.readOffset
  rw [read_new_short bs 4 hn]; rfl

theorem decodeTop_eq_error {h : HashFn} {t : Ty} {bs : Bytes} {e : Err}
    (hd : decode h t (DR.new bs bs.length) = .error e) : decodeTop h t bs = .error e := by
  unfold decodeTop; rw [hd]; rfl

end ZtypV.DecodeProofs
