/-
Model H: a client run after another client, in the same heap, behaves as when run alone
(copy detachment in one address space, C05).  Core Lean only.
-/
import ZtypV.Proofs.Heap
namespace ZtypV.H

theorem unsh_sh (s n x : Nat) : unsh s n (sh s n x) = x := by
  unfold sh unsh
  by_cases h : x < s
  · simp [h]
  · have : ¬ x + n < s := by omega
    simp [h, this]

theorem sh_lt_iff {s n x sz : Nat} (hs : s ≤ sz) : sh s n x < sz + n ↔ x < sz := by
  unfold sh
  split <;> omega

theorem sh_size {s n sz : Nat} (hs : s ≤ sz) : sh s n sz = sz + n := by
  unfold sh; rw [if_neg (by omega)]

theorem unshView_shCell (s n : Nat) (c : Cell) : unshView s n (view (shCell s n c)) = view c := by
  cases c with
  | leaf r => rfl
  | pair m l r => simp [shCell, view, unshView, unsh_sh]

/-- `hp2` is `hp1` with `n` foreign cells inserted at `s`, up to memo fields -/
structure Sim (s n : Nat) (hp1 hp2 : Heap) : Prop where
  ge : s ≤ hp1.size
  size : hp2.size = hp1.size + n
  cell : ∀ x, x < hp1.size →
    (hp2[sh s n x]?).map Cell.erase = (hp1[x]?).map (fun c => (shCell s n c).erase)

theorem Sim.get_leaf {s n : Nat} {hp1 hp2 : Heap} (hs : Sim s n hp1 hp2) {x : Nat} {r : Root}
    (hx : hp1[x]? = some (Cell.leaf r)) : hp2[sh s n x]? = some (Cell.leaf r) := by
  have e := hs.cell x (get_lt_size hx)
  rw [hx] at e
  cases hb : hp2[sh s n x]? with
  | none => rw [hb] at e; simp at e
  | some c =>
    rw [hb] at e
    simp only [Option.map_some, Option.some.injEq, shCell] at e
    rw [erase_leaf_inv e]

theorem Sim.get_pair {s n : Nat} {hp1 hp2 : Heap} (hs : Sim s n hp1 hp2) {x : Nat} {m : Root}
    {l r : Nat} (hx : hp1[x]? = some (Cell.pair m l r)) :
    ∃ m', hp2[sh s n x]? = some (Cell.pair m' (sh s n l) (sh s n r)) := by
  have e := hs.cell x (get_lt_size hx)
  rw [hx] at e
  cases hb : hp2[sh s n x]? with
  | none => rw [hb] at e; simp at e
  | some c =>
    rw [hb] at e
    simp only [Option.map_some, Option.some.injEq, shCell] at e
    obtain ⟨m', rfl⟩ := erase_pair_inv e
    exact ⟨m', rfl⟩

theorem Sim.get_none {s n : Nat} {hp1 hp2 : Heap} (hs : Sim s n hp1 hp2) {x : Nat}
    (hx : hp1[x]? = none) : hp2[sh s n x]? = none := by
  apply Array.getElem?_eq_none
  have : ¬ x < hp1.size := fun h => by
    obtain ⟨c, hc⟩ := get_some_of_lt h
    rw [hx] at hc; cases hc
  have h2 : ¬ sh s n x < hp1.size + n := fun h => this ((sh_lt_iff hs.ge).mp h)
  rw [hs.size]; omega

theorem Sim.abs {s n : Nat} {hp1 hp2 : Heap} (hs : Sim s n hp1 hp2) (hw1 : WF hp1) (hw2 : WF hp2) :
    ∀ f x, x < f → x < hp1.size → absNode hp2 (sh s n x) = absF f hp1 x := by
  intro f
  induction f with
  | zero => intro x h; omega
  | succ f ih =>
    intro x hxf hx
    obtain ⟨c, hc⟩ := get_some_of_lt hx
    unfold absF
    rw [hc]
    cases c with
    | leaf r => exact absNode_leaf (hs.get_leaf hc)
    | pair m l r =>
      obtain ⟨m', hb⟩ := hs.get_pair hc
      have hlr := hw1 x m l r hc
      rw [absNode_pair hw2 hb, ih l (by omega) (by omega), ih r (by omega) (by omega)]

theorem Sim.pureRoot (h : HashFn) {s n : Nat} {hp1 hp2 : Heap} (hs : Sim s n hp1 hp2) (hw1 : WF hp1)
    (hw2 : WF hp2) {x : Nat} (hx : x < hp1.size) : pureRoot h hp2 (sh s n x) = pureRoot h hp1 x := by
  unfold H.pureRoot
  rw [hs.abs hw1 hw2 (x+1) x (Nat.lt_succ_self x) hx]; rfl

theorem Sim.of_sameStruct {s n : Nat} {hp1 hp2 hp1' hp2' : Heap} (hs : Sim s n hp1 hp2)
    (s1 : SameStruct hp1 hp1') (s2 : SameStruct hp2 hp2') : Sim s n hp1' hp2' := by
  refine ⟨by rw [← s1.size_eq]; exact hs.ge, by rw [← s1.size_eq, ← s2.size_eq]; exact hs.size, ?_⟩
  intro x hx
  rw [← s1.size_eq] at hx
  rw [← s2.get, hs.cell x hx]
  have e := s1.get x
  cases h1 : hp1[x]? with
  | none => rw [get_none_of_erase e.symm h1]
  | some c =>
    cases c with
    | leaf r => rw [get_leaf_of_erase e.symm h1]
    | pair m l r =>
      obtain ⟨m', h1'⟩ := get_pair_of_erase e.symm h1
      rw [h1']; rfl

theorem Sim.push {s n : Nat} {hp1 hp2 : Heap} (hs : Sim s n hp1 hp2) (c : Cell) :
    Sim s n (hp1.push c) (hp2.push (shCell s n c)) := by
  refine ⟨by simp; have := hs.ge; omega, by simp [hs.size]; omega, ?_⟩
  intro x hx
  simp only [Array.size_push] at hx
  by_cases h1 : x < hp1.size
  · have : sh s n x < hp2.size := by rw [hs.size]; exact (sh_lt_iff hs.ge).mpr h1
    rw [get_push_lt _ h1, get_push_lt _ this]
    exact hs.cell x h1
  · have hx' : x = hp1.size := by omega
    subst hx'
    rw [sh_size hs.ge, ← hs.size, get_push_size, get_push_size]
    rfl

/-- the relocated client, run in the bigger heap, computes what the client computes alone -/
theorem run_reloc (h : HashFn) {s n : Nat} {q : Prog α} (hnq : NoPoke q) :
    ∀ hp1 hp2, Sim s n hp1 hp2 → WF hp1 → WF hp2 → MemoValid h hp1 → MemoValid h hp2 →
      (run h (reloc s n q) hp2).1 = (run h q hp1).1 := by
  induction hnq with
  | ret a => intro hp1 hp2 _ _ _ _ _; rfl
  | allocLeaf r k _ ih =>
    intro hp1 hp2 hs hw1 hw2 hm1 hm2
    rw [reloc, run, run]
    have e : unsh s n hp2.size = hp1.size := by
      rw [hs.size, ← sh_size hs.ge, unsh_sh]
    simp only [e]
    exact ih hp1.size _ _ (hs.push (.leaf r)) (WF_push_leaf hw1 r) (WF_push_leaf hw2 r)
      (memoValid_push hw1 hm1 _ (by intro m l r' e; cases e))
      (memoValid_push hw2 hm2 _ (by intro m l r' e; cases e))
  | allocPair l r k _ ih =>
    intro hp1 hp2 hs hw1 hw2 hm1 hm2
    rw [reloc]
    have e : unsh s n hp2.size = hp1.size := by
      rw [hs.size, ← sh_size hs.ge, unsh_sh]
    by_cases hlr : l < hp1.size ∧ r < hp1.size
    · have hl2 : sh s n l < hp2.size := by rw [hs.size]; exact (sh_lt_iff hs.ge).mpr hlr.1
      have hr2 : sh s n r < hp2.size := by rw [hs.size]; exact (sh_lt_iff hs.ge).mpr hlr.2
      rw [run_allocPair_ok h _ hlr.1 hlr.2, run_allocPair_ok h _ hl2 hr2]
      simp only [e]
      exact ih hp1.size _ _ (hs.push (.pair z0 l r)) (WF_push_pair hw1 hlr.1 hlr.2 z0)
        (WF_push_pair hw2 hl2 hr2 z0)
        (memoValid_push hw1 hm1 _ (by intro m l' r' e; cases e; rfl))
        (memoValid_push hw2 hm2 _ (by intro m l' r' e; cases e; rfl))
    · have hlr2 : ¬ (sh s n l < hp2.size ∧ sh s n r < hp2.size) := by
        rw [hs.size, sh_lt_iff hs.ge, sh_lt_iff hs.ge]; exact hlr
      rw [run_allocPair_bad h _ hlr, run_allocPair_bad h _ hlr2]
  | read a k _ ih =>
    intro hp1 hp2 hs hw1 hw2 hm1 hm2
    rw [reloc]
    cases ha : hp1[a]? with
    | none =>
      rw [run_read_none h _ ha, run_read_none h _ (hs.get_none ha)]
      exact ih none hp1 hp2 hs hw1 hw2 hm1 hm2
    | some c =>
      cases c with
      | leaf r0 =>
        rw [run_read_some h _ ha, run_read_some h _ (hs.get_leaf ha)]
        exact ih _ hp1 hp2 hs hw1 hw2 hm1 hm2
      | pair m l r =>
        obtain ⟨m', hb⟩ := hs.get_pair ha
        rw [run_read_some h _ ha, run_read_some h _ hb]
        simp only [Option.map_some, view, unshView, unsh_sh]
        exact ih _ hp1 hp2 hs hw1 hw2 hm1 hm2
  | root a k _ ih =>
    intro hp1 hp2 hs hw1 hw2 hm1 hm2
    rw [reloc]
    by_cases ha : a < hp1.size
    · have ha2 : sh s n a < hp2.size := by rw [hs.size]; exact (sh_lt_iff hs.ge).mpr ha
      rw [run_root_ok h _ ha, run_root_ok h _ ha2]
      obtain ⟨e1, m1⟩ := rootH_correct h (a+1) hp1 a hw1 hm1 (by omega)
      obtain ⟨e2, m2⟩ := rootH_correct h (sh s n a + 1) hp2 (sh s n a) hw2 hm2 (by omega)
      have s1 := rootH_sameStruct h (a+1) hp1 a
      have s2 := rootH_sameStruct h (sh s n a + 1) hp2 (sh s n a)
      rw [e1, e2, hs.pureRoot h hw1 hw2 ha]
      exact ih _ _ _ (hs.of_sameStruct s1 s2) (WF_sameStruct s1 hw1) (WF_sameStruct s2 hw2) m1 m2
    · have ha2 : ¬ sh s n a < hp2.size := by rw [hs.size, sh_lt_iff hs.ge]; exact ha
      rw [run_root_bad h _ ha, run_root_bad h _ ha2]

/-- after any poke-free client `p`, the heap is the old heap with `p`'s cells appended -/
theorem sim_after {hp hp' : Heap} (hw : WF hp) (he : Ext hp hp') :
    Sim hp.size (hp'.size - hp.size) hp hp' := by
  refine ⟨Nat.le_refl _, by have := he.1; omega, ?_⟩
  intro x hx
  have hsx : sh hp.size (hp'.size - hp.size) x = x := by unfold sh; rw [if_pos hx]
  rw [hsx, he.2 x hx]
  obtain ⟨c, hc⟩ := get_some_of_lt hx
  rw [hc]
  cases c with
  | leaf r => rfl
  | pair m l r =>
    have := hw x m l r hc
    simp only [Option.map_some, shCell, sh]
    rw [if_pos (by omega), if_pos (by omega)]

end ZtypV.H
