/-
C12, iterators at the level of the view API: `ReadonlyIter()` / `Iter()` (`Iter.start t n ro`)
of a partial `Rep`-backed view against the same iterator of the full view, as the client sees
them (`OutsSumm`).  Assembles Proofs/SummIter.lean per view kind.  If the partial view cannot
even start the iterator (its `Length()` fails, or the contents anchor is missing because the
whole view was summarised) the started iterator is the failed iterator: an error for ever.
-/
import ZtypV.Proofs.SummIter
namespace ZtypV.Partial
open ZtypV ZtypV.View ZtypV.View.Iter ZtypV.TreeNav ZtypV.RepMut

theorem runSteps_length {σ α : Type} (next : σ → α × σ) :
    ∀ n s, (runSteps next n s).length = n := by
  intro n
  induction n with
  | zero => intro s; rfl
  | succ n ih => intro s; simp [runSteps, ih]

/-- anything against the failed iterator -/
theorem outsSumm_failed (h : HashFn) (it : AnyIt) (m : Nat) :
    OutsSumm h (runSteps AnyIt.next m it) (runSteps AnyIt.next m .failed) := by
  rw [anyFailed_run]
  have := outsSumm_err h (runSteps AnyIt.next m it)
  rw [runSteps_length] at this
  exact this

/-! ### iterators whose construction-time check failed: an error for ever -/

theorem nodeIt_bad_next (it : NodeIt) (hb : it.bad = true) : it.next = (.err .other, it) := by
  unfold NodeIt.next; rw [hb]; rfl

theorem basicIt_bad_next (it : BasicIt) (hb : it.bad = true) : it.next = (.err .other, it) := by
  unfold BasicIt.next; rw [hb]; rfl

theorem bitIt_bad_next (it : BitIt) (hb : it.bad = true) : it.next = (.err .other, it) := by
  unfold BitIt.next; rw [hb]; rfl

theorem anyNodes_bad (it : NodeIt) (ety : Nat → Option Ty) (hb : it.bad = true) :
    ∀ m, runSteps AnyIt.next m (.nodes it ety) = List.replicate m .err := by
  intro m
  induction m with
  | zero => rfl
  | succ m ih =>
    have hn : AnyIt.next (.nodes it ety) = (.err, .nodes it ety) := by
      rw [next_nodes_eq, nodeIt_bad_next it hb]
    unfold runSteps
    rw [hn]
    simp only [ih, List.replicate_succ]

theorem anyBasics_bad (it : BasicIt) (t : Ty) (hb : it.bad = true) :
    ∀ m, runSteps AnyIt.next m (.basics it t) = List.replicate m .err := by
  intro m
  induction m with
  | zero => rfl
  | succ m ih =>
    have hn : AnyIt.next (.basics it t) = (.err, .basics it t) := by
      rw [next_basics_eq, basicIt_bad_next it hb]
    unfold runSteps
    rw [hn]
    simp only [ih, List.replicate_succ]

theorem anyBits_bad (it : BitIt) (hb : it.bad = true) :
    ∀ m, runSteps AnyIt.next m (.bits it) = List.replicate m .err := by
  intro m
  induction m with
  | zero => rfl
  | succ m ih =>
    have hn : AnyIt.next (.bits it) = (.err, .bits it) := by
      rw [next_bits_eq, bitIt_bad_next it hb]
    unfold runSteps
    rw [hn]
    simp only [ih, List.replicate_succ]

theorem outsSumm_replicate_err (h : HashFn) (it : AnyIt) (m : Nat) :
    OutsSumm h (runSteps AnyIt.next m it) (List.replicate m .err) := by
  have := outsSumm_err h (runSteps AnyIt.next m it)
  rw [runSteps_length] at this
  exact this

/-- `anyNodes_summ` without the construction hypothesis -/
theorem anyNodes_summ' {h : HashFn} {anchor anchor' : Node} (hs : Summ h anchor anchor')
    (length depth : Nat) (ety : Nat → Option Ty)
    (hview : ∀ k c t, k < length → subtreeGet anchor depth k = .ok c → ety k = some t →
      elemViewOk t c = true) (m : Nat) :
    OutsSumm h (runSteps AnyIt.next m (.nodes (NodeIt.new anchor length depth) ety))
      (runSteps AnyIt.next m (.nodes (NodeIt.new anchor' length depth) ety)) := by
  cases hb : (NodeIt.new anchor length depth).bad
  · exact anyNodes_summ hs length depth ety hb hview m
  · have hb' : (NodeIt.new anchor' length depth).bad = true := hb
    rw [anyNodes_bad _ ety hb' m]
    exact outsSumm_replicate_err h _ m

theorem anyBasics_summ' {h : HashFn} {anchor anchor' : Node} (hs : Summ h anchor anchor')
    (length depth size : Nat) (t : Ty) (hl : BottomLeaves anchor depth) (m : Nat) :
    OutsSumm h (runSteps AnyIt.next m (.basics (BasicIt.new anchor length depth size) t))
      (runSteps AnyIt.next m (.basics (BasicIt.new anchor' length depth size) t)) := by
  cases hb : (BasicIt.new anchor length depth size).bad
  · exact anyBasics_summ hs length depth size t hl hb m
  · have hb' : (BasicIt.new anchor' length depth size).bad = true := hb
    rw [anyBasics_bad _ t hb' m]
    exact outsSumm_replicate_err h _ m

theorem anyBits_summ' {h : HashFn} {anchor anchor' : Node} (hs : Summ h anchor anchor')
    (length depth : Nat) (hl : BottomLeaves anchor depth) (m : Nat) :
    OutsSumm h (runSteps AnyIt.next m (.bits (BitIt.new anchor length depth)))
      (runSteps AnyIt.next m (.bits (BitIt.new anchor' length depth))) := by
  cases hb : (BitIt.new anchor length depth).bad
  · exact anyBits_summ hs length depth hl hb m
  · have hb' : (BitIt.new anchor' length depth).bad = true := hb
    rw [anyBits_bad _ hb' m]
    exact outsSumm_replicate_err h _ m

/-- a partial list-like view whose `Length()` works: it is a pair, the full view is a pair with
    the same length, and the contents anchors are related -/
theorem list_anchor {h : HashFn} {n n' : Node} {lim ll : Nat} (hs : Summ h n n') (hl : LenLeaf n)
    (hll : listLength n' lim = .ok ll) :
    listLength n lim = .ok ll ∧ ∃ l r l' r', n = .pair l r ∧ n' = .pair l' r' ∧ Summ h l l' := by
  obtain ⟨ll0, h1, he⟩ := listLength_back hs hl lim ll hll
  subst he
  obtain ⟨⟨l', r', rfl⟩, _⟩ := listLength_ok hll
  obtain ⟨l, r, rfl, hl', _⟩ := Summ.pair_right hs
  exact ⟨h1, l, r, l', r', rfl, rfl, hl'⟩

theorem start_vector (e : Ty) (k : Nat) (n : Node) (ro : Bool) :
    start (.vector e k) n ro =
      if !ro then .indexed (.vector e k) n k 0
      else if isBasicElem e then .basics (BasicIt.new n k (seriesDepth e k) e.fixedSize) e
      else .nodes (NodeIt.new n k (coverDepth k)) (fun _ => some e) := by
  unfold start; rfl

theorem start_container (fs : List Ty) (n : Node) (ro : Bool) :
    start (.container fs) n ro =
      if ro then .nodes (NodeIt.new n fs.length (coverDepth fs.length)) (fun i => fs[i]?)
      else .indexed (.container fs) n fs.length 0 := by
  unfold start; rfl

theorem start_bitvector (k : Nat) (n : Node) (ro : Bool) :
    start (.bitvector k) n ro =
      if ro then .bits (BitIt.new n k (bitDepth k)) else .indexed (.bitvector k) n k 0 := by
  unfold start; rfl

theorem start_list_err (e : Ty) (lim : Nat) (n : Node) (ro : Bool) (er : Err)
    (hll : listLength n lim = .error er) : start (.list e lim) n ro = .failed := by
  unfold start; simp [hll]

theorem start_list_ok (e : Ty) (lim : Nat) (l r : Node) (ro : Bool) (ll : Nat)
    (hll : listLength (.pair l r) lim = .ok ll) :
    start (.list e lim) (.pair l r) ro =
      if !ro then .indexed (.list e lim) (.pair l r) ll 0
      else if isBasicElem e then .basics (BasicIt.new l ll (seriesDepth e lim) e.fixedSize) e
      else .nodes (NodeIt.new l ll (coverDepth lim)) (fun _ => some e) := by
  unfold start; simp [hll]

theorem start_bitlist_err (lim : Nat) (n : Node) (ro : Bool) (er : Err)
    (hll : listLength n lim = .error er) : start (.bitlist lim) n ro = .failed := by
  unfold start; simp [hll]

theorem start_bitlist_ok (lim : Nat) (l r : Node) (ro : Bool) (ll : Nat)
    (hll : listLength (.pair l r) lim = .ok ll) :
    start (.bitlist lim) (.pair l r) ro =
      if ro then .bits (BitIt.new l ll (bitDepth lim)) else .indexed (.bitlist lim) (.pair l r) ll 0 := by
  unfold start; simp [hll]

/-- element nodes of a `Rep`-backed complex series open as views of the element type -/
theorem series_view_ok (h : HashFn) {e : Ty} {vs : List Val} {xs : List Node} {c : Node} {d : Nat}
    (hrl : RepList h e vs xs) (hsh : SeqShape h d c xs) (hd : d < 64) :
    ∀ k x t, k < vs.length → subtreeGet c d k = .ok x → (fun _ : Nat => some e) k = some t →
      elemViewOk t x = true := by
  intro k x t hk hg ht
  have hlen := repList_length h e vs xs hrl
  have hk' : k < xs.length := by omega
  rw [shape_get h hsh hk' hd] at hg
  cases hg
  cases ht
  exact rep_viewOk h e vs[k] xs[k] (repList_get h e vs xs hrl k hk hk')

/-- MAIN (iterators of the view API on a partial view) -/
theorem start_summ (h : HashFn) {t : Ty} {v : Val} {n n' : Node} (ro : Bool) (hwf : t.wf = true)
    (hr : inRange t = true) (hty : hasType t v = true) (hrep : Rep h t v n) (hs : Summ h n n')
    (m : Nat) :
    OutsSumm h (runSteps AnyIt.next m (start t n ro)) (runSteps AnyIt.next m (start t n' ro)) := by
  have hd := depthOk_of_inRange t hr
  have hleaves := rep_readLeaves h hrep
  cases t with
  | uint _ => exact outsSumm_failed h _ m
  | bool => exact outsSumm_failed h _ m
  | bytesN _ => exact outsSumm_failed h _ m
  | union _ _ => exact outsSumm_failed h _ m
  | bitvector k =>
    rw [start_bitvector, start_bitvector]
    cases ro
    · exact anyIndexed_summ h k hwf hd hty hrep hs m
    · exact anyBits_summ' hs k _ hleaves m
  | container fs =>
    rw [start_container, start_container]
    cases ro
    · exact anyIndexed_summ h fs.length hwf hd hty hrep hs m
    · cases v <;> try (simp [hasType] at hty; done)
      rename_i vs
      simp only [Rep] at hrep
      obtain ⟨xs, hrf, hsh⟩ := hrep
      obtain ⟨hl1, hl2⟩ := repFields_length h fs vs xs hrf
      refine anyNodes_summ' hs _ _ _ ?_ m
      intro k x t' hk hg ht
      have hk' : k < xs.length := by omega
      rw [shape_get h hsh hk' hd] at hg
      cases hg
      rw [List.getElem?_eq_getElem hk] at ht
      cases ht
      exact rep_viewOk h fs[k] vs[k] xs[k] (repFields_get h fs vs xs hrf k hk (by omega) hk')
  | vector e k =>
    cases v <;> try (simp [hasType] at hty; done)
    rename_i vs
    rw [start_vector, start_vector]
    cases ro
    · exact anyIndexed_summ h k hwf hd hty hrep hs m
    · cases hb : isBasicElem e
      · simp only [Bool.not_true, Bool.false_eq_true, if_false]
        simp only [Rep, hb, Bool.false_eq_true, if_false] at hrep
        obtain ⟨hlen, xs, hrl, hsh⟩ := hrep
        have hd' : coverDepth k < 64 := by
          have := hd; simp only [DepthOk] at this; rwa [seriesDepth_complex hb k] at this
        subst hlen
        exact anyNodes_summ' hs _ _ _ (series_view_ok h hrl hsh hd') m
      · simp only [Bool.not_true, Bool.false_eq_true, if_false, if_true]
        exact anyBasics_summ' hs k _ _ e (hleaves hb) m
  | bitlist lim =>
    cases hll' : listLength n' lim with
    | error er => rw [start_bitlist_err lim n' ro er hll']; exact outsSumm_failed h _ m
    | ok ll =>
      obtain ⟨hll, l, r, l', r', rfl, rfl, hsl⟩ := list_anchor hs hleaves.1 hll'
      rw [start_bitlist_ok lim l r ro ll hll, start_bitlist_ok lim l' r' ro ll hll']
      cases ro
      · exact anyIndexed_summ h ll hwf hd hty hrep hs m
      · exact anyBits_summ' hsl ll _ hleaves.2.left m
  | list e lim =>
    cases hll' : listLength n' lim with
    | error er => rw [start_list_err e lim n' ro er hll']; exact outsSumm_failed h _ m
    | ok ll =>
      obtain ⟨hll, l, r, l', r', rfl, rfl, hsl⟩ := list_anchor hs hleaves.1 hll'
      rw [start_list_ok e lim l r ro ll hll, start_list_ok e lim l' r' ro ll hll']
      cases ro
      · exact anyIndexed_summ h ll hwf hd hty hrep hs m
      · cases v <;> try (simp [hasType] at hty; done)
        rename_i vs
        cases hb : isBasicElem e
        · simp only [Bool.not_true, Bool.false_eq_true, if_false]
          simp only [Rep, hb, Bool.false_eq_true, if_false] at hrep
          obtain ⟨hle, xs, hrl, c, hn, hsh⟩ := hrep
          cases hn
          have hd' : coverDepth lim < 64 := by
            have := hd; simp only [DepthOk] at this
            rw [seriesDepth_complex hb lim] at this; omega
          have hlen : ll = vs.length := by
            have h1 := listShape_length h (d := coverDepth lim) (xs := xs) ⟨l, rfl, hsh⟩ hle
              (by have := hd; simp only [DepthOk] at this; omega)
            rw [hll] at h1; cases h1; rfl
          subst hlen
          exact anyNodes_summ' hsl _ _ _ (series_view_ok h hrl hsh hd') m
        · simp only [Bool.not_true, Bool.false_eq_true, if_false, if_true]
          exact anyBasics_summ' hsl ll _ _ e (hleaves.2 hb).left m

end ZtypV.Partial
