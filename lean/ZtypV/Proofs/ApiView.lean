/-
Helper lemmas for property family C02c, part 2: the view-level helpers of Model/Api.lean
(`CheckIndex`, `FieldValues`, selectors + casts) on ANY backing and on backings that represent
a value (`Rep`, Proofs/Rep.lean: closed under every construction route and mutator).
-/
import ZtypV.Model.Api
import ZtypV.Proofs.Api
import ZtypV.Proofs.IterNav
import ZtypV.Proofs.ViewSer
import ZtypV.Proofs.RepView
import ZtypV.Proofs.RepMut
import ZtypV.Proofs.RepSim
namespace ZtypV.Api
open ZtypV ZtypV.View ZtypV.View.Iter

/-! ### `CheckIndex` -/

/-- `CheckIndex(i)` succeeds iff `Length()` succeeds and `i` is below it; the comparison with the
    limit never decides (`Length()` already refuses lengths above the limit) -/
theorem checkIndex_ok_iff (n : Node) (lim i : Nat) :
    checkIndex n lim i = .ok () ↔ ∃ ll, listLength n lim = .ok ll ∧ i < ll := by
  unfold checkIndex
  cases hl : listLength n lim with
  | error e => simp [bind, Except.bind]
  | ok ll =>
    have hle := (listLength_ok hl).2
    simp only [bind, Except.bind]
    by_cases h1 : i ≥ ll
    · simp only [h1, if_true]
      constructor
      · intro h; cases h
      · rintro ⟨ll', h2, h3⟩; cases h2; omega
    · have h2 : ¬ i ≥ lim := by omega
      simp only [h1, h2, if_false]
      exact ⟨fun _ => ⟨ll, rfl, by omega⟩, fun _ => trivial⟩

/-- it never panics -/
theorem checkIndex_ne_panic (n : Node) (lim i : Nat) : checkIndex n lim i ≠ .error .panic := by
  unfold checkIndex
  cases hl : listLength n lim with
  | ok ll =>
    simp only [bind, Except.bind]
    split
    · simp
    · split <;> simp
  | error e =>
    simp only [bind, Except.bind]
    intro h
    injection h with h
    subst h
    unfold listLength at hl
    cases n with
    | leaf x => simp [getNode, bind, Except.bind] at hl
    | pair l r =>
      simp only [getNode, if_true, bind, Except.bind] at hl
      cases r with
      | pair a b => simp [asLeaf] at hl
      | leaf x =>
        simp only [asLeaf] at hl
        split at hl <;> cases hl

/-- a length node written by hand (any contents subtree): in range iff the stored length
    respects the limit and the index is below it -/
theorem checkIndex_lengthNode (c : Node) (ov lim i : Nat) (hov : ov < 2 ^ 64) (hlim : lim < 2 ^ 64) :
    checkIndex (.pair c (lengthNode ov)) lim i = .ok () ↔ (ov ≤ lim ∧ i < ov) := by
  rw [checkIndex_ok_iff]
  by_cases hle : ov ≤ lim
  · rw [listLength_pair c ov lim hle hlim]
    constructor
    · rintro ⟨ll, h1, h2⟩; cases h1; exact ⟨hle, h2⟩
    · rintro ⟨_, h2⟩; exact ⟨ov, rfl, h2⟩
  · constructor
    · rintro ⟨ll, h1, _⟩
      exfalso
      have h1' := h1
      have h8 : (chunkOf (leBytes 8 ov)).take 8 = leBytes 8 ov := by
        have := chunkOf_take_self (leBytes 8 ov) (by simp)
        simpa using this
      have h9 : leNat (leBytes 8 ov) = ov := by
        rw [leNat_leBytes]; apply Nat.mod_eq_of_lt
        have : (256 : Nat) ^ 8 = 2 ^ 64 := by decide
        omega
      simp only [listLength, getNode, lengthNode, if_true, R.bind_ok, asLeaf_leaf, h8, h9] at h1'
      rw [if_pos (by omega)] at h1'
      cases h1'
    · rintro ⟨h, _⟩; exact absurd h hle

theorem tamperLength_pair (l r : Node) (ov : Nat) : tamperLength (.pair l r) ov = .ok (.pair l (lengthNode ov)) := rfl

/-- on a backing of a list value: in range iff below the value's length -/
theorem checkIndex_rep_list (h : HashFn) (e : Ty) (lim : Nat) (vs : List Val) (n : Node) (i : Nat)
    (hd : DepthOk (.list e lim)) (hr : Rep h (.list e lim) (.seq vs) n) :
    checkIndex n lim i = .ok () ↔ i < vs.length := by
  rw [checkIndex_ok_iff, rep_listLength h hd hr]
  constructor
  · rintro ⟨ll, h1, h2⟩; cases h1; exact h2
  · intro h2; exact ⟨_, rfl, h2⟩

/-! ### `FieldValues` -/

/-- what the `FieldValues` loop makes of the iterator's successive outputs -/
def outsToFields : List Out → R (List (Ty × Node))
  | [] => .error .panic
  | .err :: _ => .error .other
  | .done :: _ => .ok []
  | .node t n :: rest => do
    let r ← outsToFields rest
    .ok ((t, n) :: r)
  | _ :: _ => .error .other

theorem fieldValuesLoop_eq (m : Nat) (it : AnyIt) :
    fieldValuesLoop m it = outsToFields (runSteps AnyIt.next m it) := by
  induction m generalizing it with
  | zero => rfl
  | succ m ih =>
    rw [fieldValuesLoop, runSteps]
    rcases hn : it.next with ⟨o, it'⟩
    cases o <;> simp only [outsToFields, ih]

/-- the in-order sequence over a fully accessible node range, folded by the loop -/
theorem outsToFields_outSeq (out : Nat → Out) (length : Nat) (f : Nat → Ty × Node)
    (h : ∀ j, j < length → out j = .node (f j).1 (f j).2) :
    ∀ m k, k ≤ length → length - k < m →
      outsToFields (outSeq out length k m) = .ok (((List.range (length - k)).map fun j => f (k + j))) := by
  intro m
  induction m with
  | zero => intro k _ hm; omega
  | succ m ih =>
    intro k hk hm
    unfold outSeq
    by_cases hkl : k < length
    · rw [if_pos hkl, h k hkl]
      simp only [outsToFields]
      rw [ih (k + 1) (by omega) (by omega)]
      have : length - k = (length - (k + 1)) + 1 := by omega
      rw [this, List.range_succ_eq_map]
      simp only [R.bind_ok, List.map_cons, List.map_map, Nat.add_zero]
      congr 2
      apply List.map_congr_left
      intro j _
      simp only [Function.comp]
      congr 1; omega
    · rw [if_neg hkl]
      have : length - k = 0 := by omega
      simp [outsToFields, this]

/-- `FieldValues` on a backing whose fields are all reachable and openable: the same views
    `Get(0)`, `Get(1)`, … return -/
theorem fieldValues_eq_gets (fs : List Ty) (n : Node) (hd : coverDepth fs.length < 64)
    (cs : Nat → Node)
    (hget : ∀ j (hj : j < fs.length), subtreeGet n (coverDepth fs.length) j = .ok (cs j) ∧
      viewFromBackingOk fs[j] (cs j) = true) :
    fieldValues fs n = .ok ((List.range fs.length).map fun j => (fs[j]?.getD .bool, cs j)) := by
  unfold fieldValues
  rw [fieldValuesLoop_eq]
  have hstart : start (.container fs) n true =
      .nodes (NodeIt.new n fs.length (coverDepth fs.length)) (fun i => fs[i]?) := by
    simp [start]
  rw [hstart]
  have hb : (NodeIt.new n fs.length (coverDepth fs.length)).bad = false := by
    apply node_new_not_bad
    exact Or.inr ⟨hd, le_two_pow_coverDepth' fs.length⟩
  rw [anyNodes_run n fs.length (coverDepth fs.length) hb]
  rw [nodesSeq_all_ok (fun j => subtreeGet n (coverDepth fs.length) j) (fun i => fs[i]?) fs.length
    (fun j => .node (fs[j]?.getD .bool) (cs j))]
  · have := outsToFields_outSeq (fun j => .node (fs[j]?.getD .bool) (cs j)) fs.length
      (fun j => (fs[j]?.getD .bool, cs j)) (fun j _ => rfl) (fs.length + 1) 0 (by omega) (by omega)
    simpa using this
  · intro j hj
    obtain ⟨h1, h2⟩ := hget j hj
    refine ⟨cs j, h1, ?_⟩
    unfold nodeOut
    have : fs[j]? = some fs[j] := by simp [hj]
    simp only [this, elemViewOk, h2, if_true, Option.getD_some]

end ZtypV.Api

namespace ZtypV.Api
open ZtypV ZtypV.View ZtypV.View.Iter ZtypV.Sim

/-- `Get(j)` of a container backing that represents the value: the field's backing -/
theorem container_get_rep (h : HashFn) (fs : List Ty) (vs : List Val) (n : Node)
    (hw : (Ty.container fs).wf = true) (hr : inRange (.container fs) = true)
    (ht : hasType (.container fs) (.seq vs) = true) (hrep : Rep h (.container fs) (.seq vs) n)
    (j : Nat) (hj : j < fs.length) :
    ∃ c x, vs[j]? = some x ∧ getElemNode (.container fs) n j = .ok (fs[j], c) ∧
      subtreeGet n (coverDepth fs.length) j = .ok c ∧ viewFromBackingOk fs[j] c = true ∧
      Rep h fs[j] x c ∧ viewVal fs[j] c = .ok x := by
  have hlen : fs.length = vs.length := fieldsHaveType_length fs vs (by simpa [hasType] using ht)
  have hjv : j < vs.length := by omega
  have hve : valElem (.container fs) (.seq vs) j = some (fs[j], vs[j]) := by
    simp [valElem, hj, hjv]
  have hg := getElem_rep h (.container fs) (.seq vs) n j hw (depthOk_of_inRange _ hr) ht hrep
  rw [hve] at hg
  obtain ⟨en, h1, h2, h3, h4⟩ := hg
  have hfj : fs[j]? = some fs[j] := by simp [hj]
  have hsub : subtreeGet n (coverDepth fs.length) j = .ok en := by
    rw [getElemNode_container fs n j fs[j] hfj] at h1
    cases hs : subtreeGet n (coverDepth fs.length) j with
    | error e => rw [hs] at h1; cases h1
    | ok c =>
      rw [hs] at h1
      simp only [bind, Except.bind] at h1
      injection h1 with h1
      injection h1 with _ h1
      rw [h1]
  have hwj : fs[j].wf = true := by
    simp only [Ty.wf, Bool.and_eq_true] at hw
    exact wfAll_get fs j fs[j] hw.2 hfj
  have hrj : inRange fs[j] = true := by
    simp only [inRange, Bool.and_eq_true] at hr
    exact inRangeAll_get fs j fs[j] hr.2 hfj
  exact ⟨en, vs[j], by simp [hjv], h1, hsub, h3, h2, rep_getters h hwj hrj h4 h2⟩

/-- `FieldValues()` of a container backing that represents the value `vs`: one view per field,
    each the view `Get(j)` returns, each reading back the field value -/
theorem fieldValues_rep (h : HashFn) (fs : List Ty) (vs : List Val) (n : Node)
    (hw : (Ty.container fs).wf = true) (hr : inRange (.container fs) = true)
    (ht : hasType (.container fs) (.seq vs) = true) (hrep : Rep h (.container fs) (.seq vs) n) :
    ∃ views : List (Ty × Node), fieldValues fs n = .ok views ∧ views.length = fs.length ∧
      ∀ j (hj : j < fs.length), ∃ c x, views[j]? = some (fs[j], c) ∧ vs[j]? = some x ∧
        getElemNode (.container fs) n j = .ok (fs[j], c) ∧ Rep h fs[j] x c ∧
        viewVal fs[j] c = .ok x := by
  have hall := container_get_rep h fs vs n hw hr ht hrep
  let cs : Nat → Node := fun j =>
    if hj : j < fs.length then Classical.choose (hall j hj) else .leaf z0
  have hcs : ∀ j (hj : j < fs.length), ∃ x, vs[j]? = some x ∧
      getElemNode (.container fs) n j = .ok (fs[j], cs j) ∧
      subtreeGet n (coverDepth fs.length) j = .ok (cs j) ∧ viewFromBackingOk fs[j] (cs j) = true ∧
      Rep h fs[j] x (cs j) ∧ viewVal fs[j] (cs j) = .ok x := by
    intro j hj
    have := Classical.choose_spec (hall j hj)
    simp only [cs, hj, dif_pos]
    exact this
  have hd : coverDepth fs.length < 64 := by
    simp only [inRange, Bool.and_eq_true, decide_eq_true_eq] at hr
    exact hr.1
  have hfv := fieldValues_eq_gets fs n hd cs (fun j hj => by
    obtain ⟨x, _, _, h3, h4, _⟩ := hcs j hj
    exact ⟨h3, h4⟩)
  refine ⟨_, hfv, by simp, ?_⟩
  intro j hj
  obtain ⟨x, h1, h2, _, _, h5, h6⟩ := hcs j hj
  refine ⟨cs j, x, ?_, h1, h2, h5, h6⟩
  simp [hj]

end ZtypV.Api

namespace ZtypV.Api
open ZtypV ZtypV.View ZtypV.Sim

/-! ### selectors and casts on a backing that represents a value -/

/-- a backing of a basic value is a leaf: `ViewFromBacking` accepts it -/
theorem rep_viewOk (h : HashFn) (t : Ty) (v : Val) (c : Node) (hrep : Rep h t v c) :
    viewFromBackingOk t c = true := by
  cases t <;> cases v <;> simp only [Rep] at hrep <;> first
    | (subst hrep; rfl)
    | (cases c <;> rfl)
    | exact absurd hrep (by simp)

/-- well-formed types have a view type -/
theorem kindOf_isSome_of_wf (t : Ty) (hw : t.wf = true) : (kindOf t).isSome = true := by
  cases t <;> try (simp [kindOf]; done)
  · rename_i b
    simp only [Ty.wf, Bool.or_eq_true, beq_iff_eq] at hw
    rcases hw with (((h | h) | h) | h) | h <;> subst h <;> rfl
  · rename_i n; simp only [kindOf]; split <;> rfl
  · rename_i e n; simp only [kindOf]; split <;> rfl
  · rename_i e n; simp only [kindOf]; split <;> rfl

/-- the element type of a well-formed type is well-formed -/
theorem valElem_wf (t : Ty) (v : Val) (i : Nat) (et : Ty) (x : Val) (hw : t.wf = true)
    (he : valElem t v i = some (et, x)) : et.wf = true := by
  cases t <;> cases v <;> simp only [valElem] at he <;> try (cases he; done)
  · -- bitvector
    rename_i n bs
    cases hb : bs[i]? with
    | none => rw [hb] at he; cases he
    | some b => rw [hb] at he; cases he; rfl
  · rename_i n bs
    cases hb : bs[i]? with
    | none => rw [hb] at he; cases he
    | some b => rw [hb] at he; cases he; rfl
  · rename_i e n vs
    simp only [Ty.wf, Bool.and_eq_true] at hw
    cases hb : vs[i]? with
    | none => rw [hb] at he; cases he
    | some b => rw [hb] at he; cases he; exact hw.2
  · rename_i e n vs
    simp only [Ty.wf] at hw
    cases hb : vs[i]? with
    | none => rw [hb] at he; cases he
    | some b => rw [hb] at he; cases he; exact hw
  · rename_i fs vs
    simp only [Ty.wf, Bool.and_eq_true] at hw
    cases hf : fs[i]? with
    | none => rw [hf] at he; cases he
    | some ft =>
      cases hb : vs[i]? with
      | none => rw [hf, hb] at he; cases he
      | some b =>
        rw [hf, hb] at he
        cases he
        exact wfAll_get fs i _ hw.2 hf

/-- `Get(i)` handed to a cast: a view of the element when the value has one, else an error -/
theorem select_get_rep (h : HashFn) (t : Ty) (v : Val) (n : Node) (i : Nat)
    (hw : t.wf = true) (hr : inRange t = true) (ht : hasType t v = true) (hrep : Rep h t v n) :
    match valElem t v i with
    | some (et, x) => ∃ en, select t n (.get i) = .ok (.view et en) ∧ Rep h et x en ∧
        hasType et x = true ∧ et.wf = true
    | none => select t n (.get i) = .ok .err := by
  have hg := getElem_rep h t v n i hw (depthOk_of_inRange t hr) ht hrep
  cases hv : valElem t v i with
  | none =>
    rw [hv] at hg
    obtain ⟨e, h1, h2⟩ := hg
    cases e <;> first | (exact absurd rfl h2) | simp only [select, h1, bind, Except.bind, asIncoming]
  | some p =>
    obtain ⟨et, x⟩ := p
    rw [hv] at hg
    obtain ⟨en, h1, h2, h3, h4⟩ := hg
    have hwe := valElem_wf t v i et x hw hv
    refine ⟨en, ?_, h2, h4, hwe⟩
    simp only [select, h1, bind, Except.bind, h3, if_true, asIncoming, kindOf_isSome_of_wf et hwe]

/-- `Value()` handed to a cast: the option's view, or `(nil, nil)` for the None option -/
theorem select_value_rep (h : HashFn) (hasNone : Bool) (opts : List Ty) (sel : Nat) (v : Val)
    (n : Node) (hw : (Ty.union hasNone opts).wf = true)
    (ht : hasType (.union hasNone opts) (.union sel v) = true)
    (hrep : Rep h (.union hasNone opts) (.union sel v) n) :
    match unionOpt hasNone opts sel with
    | some ot => ∃ c, select (.union hasNone opts) n .value = .ok (.view ot c) ∧ Rep h ot v c ∧
        hasType ot v = true ∧ ot.wf = true
    | none => select (.union hasNone opts) n .value = .ok .nil := by
  simp only [Ty.wf, Bool.and_eq_true, decide_eq_true_eq] at hw
  simp only [hasType] at ht
  cases ho : unionOpt hasNone opts sel with
  | none =>
    simp only [ho, Bool.and_eq_true, beq_iff_eq] at ht
    obtain ⟨⟨hn, hsel⟩, hv⟩ := ht
    subst hn; subst hsel
    cases v <;> simp at hv
    obtain ⟨_, _, hn⟩ := rep_union_none.mp hrep
    subst hn
    simp only [select, unionValue, getNode_pair_true, getNode_pair_false, getNode_nil,
      R.bind_ok, asLeaf_leaf, chunkOf_single_drop, Bool.false_eq_true, if_false, chunkOf_single_getD]
    simp [asIncoming]
  | some t =>
    simp only [ho] at ht
    obtain ⟨hlt, hnz, hget⟩ := unionOpt_lt ho
    have hvn : v ≠ .none := by
      intro hv; subst hv; rw [View.hasType_none] at ht; cases ht
    have hsel : (UInt8.ofNat sel).toNat = sel := by
      rw [UInt8.toNat_ofNat']; apply Nat.mod_eq_of_lt; omega
    obtain ⟨c, hrc, hn⟩ := (rep_union_some ho hvn).mp hrep
    subst hn
    have hwt : t.wf = true := wfAll_get opts _ t hw.1.2 hget
    refine ⟨c, ?_, hrc, ht, hwt⟩
    simp only [select, unionValue, getNode_pair_true, getNode_pair_false, getNode_nil,
      R.bind_ok, asLeaf_leaf, chunkOf_single_drop, Bool.false_eq_true, if_false,
      chunkOf_single_getD, hsel]
    rw [if_neg (by omega)]
    simp only [hnz, Bool.false_eq_true, if_false, hget, rep_viewOk h t v c hrc, if_true, asIncoming,
      kindOf_isSome_of_wf t hwt]

/-- a cast applied to a view of a well-formed type other than a boolean series -/
theorem apply_view_wf (c : Cast) (t : Ty) (n : Node) (hw : t.wf = true) (hb : boolSeries t = false) :
    c.apply (.view t n) = if c.isFor t then some (t, n) else none := by
  have hk := kindOf_isSome_of_wf t hw
  cases hkk : kindOf t with
  | none => rw [hkk] at hk; cases hk
  | some k => rw [apply_view c t n k hkk, accepts_eq_isFor c t k hkk hb]

end ZtypV.Api
