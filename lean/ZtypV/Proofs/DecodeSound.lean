/-
C03, master theorems: by recursion over the type,
* `decode_sound`: every successful `decode` consumed exactly its scope, the bytes are the
  encoding of a well-typed value and the backing is what the constructor route builds;
* `decode_noPanic`: for well-formed types no panic outcome of the model is reachable;
and their top-level forms for `decodeTop`.
-/
import ZtypV.Proofs.DecodeLeaf
import ZtypV.Proofs.DecodeStruct
namespace ZtypV.DecodeProofs
open ZtypV ZtypV.View

theorem decode_sound (h : HashFn) : (t : Ty) → Sound h t
  | .uint b => uint_sound h b
  | .bool => bool_sound h
  | .bytesN k => bytesN_sound h k
  | .bitvector k => bitvector_sound h k
  | .bitlist lim => bitlist_sound h lim
  | .vector e k => vector_sound (decode_sound h e) k
  | .list e lim => list_sound (decode_sound h e) lim
  | .container fs => container_sound (fun t _ht => decode_sound h t)
  | .union _ opts => union_sound (fun t _ht => decode_sound h t)
termination_by t => sizeOf t
decreasing_by
  all_goals simp_wf
  · omega
  · omega
  · have := List.sizeOf_lt_of_mem _ht; omega
  · have := List.sizeOf_lt_of_mem _ht; omega

/-! ### well-formedness consequences -/

theorem wfAll_mem : ∀ (fs : List Ty), Ty.wfAll fs = true → ∀ t ∈ fs, t.wf = true := by
  intro fs
  induction fs with
  | nil => intro _ t ht; cases ht
  | cons a as ih =>
    intro hw t ht
    simp only [Ty.wfAll, Bool.and_eq_true] at hw
    rcases List.mem_cons.mp ht with rfl | ht'
    · exact hw.1
    · exact ih hw.2 t ht'

theorem wf_uint {b : Nat} (hw : (Ty.uint b).wf = true) : b = 1 ∨ b = 2 ∨ b = 4 ∨ b = 8 ∨ b = 32 := by
  simpa [Ty.wf, or_assoc] using hw

/-- fixed-size well-formed types have a non-zero size (no division by zero in the list decoder) -/
theorem fixedSize_pos : (t : Ty) → t.wf = true → t.isFixed = true → 0 < t.fixedSize
  | .uint b, hw, _ => by
    rcases wf_uint hw with rfl | rfl | rfl | rfl | rfl <;> simp [Ty.fixedSize]
  | .bool, _, _ => by simp [Ty.fixedSize]
  | .bytesN k, hw, _ => by
    simp only [Ty.wf, Bool.and_eq_true, decide_eq_true_eq] at hw
    simp only [Ty.fixedSize]; omega
  | .bitvector k, hw, _ => by
    simp only [Ty.wf, decide_eq_true_eq] at hw
    simp only [Ty.fixedSize]; omega
  | .bitlist _, _, hf => by simp [Ty.isFixed] at hf
  | .list _ _, _, hf => by simp [Ty.isFixed] at hf
  | .union _ _, _, hf => by simp [Ty.isFixed] at hf
  | .vector e k, hw, hf => by
    simp only [Ty.wf, Bool.and_eq_true, decide_eq_true_eq] at hw
    simp only [Ty.isFixed] at hf
    have := fixedSize_pos e hw.2 hf
    simp only [Ty.fixedSize, hf, if_true]
    exact Nat.mul_pos (by omega) this
  | .container [], hw, _ => by simp [Ty.wf] at hw
  | .container (t :: ts), hw, hf => by
    simp only [Ty.wf, Bool.and_eq_true] at hw
    simp only [Ty.isFixed, Ty.allFixed, Bool.and_eq_true] at hf
    have hwt : t.wf = true := wfAll_mem _ hw.2 t (by simp)
    have := fixedSize_pos t hwt hf.1
    simp only [Ty.fixedSize, Ty.fixedPart, hf.1, if_true]
    omega
termination_by t => sizeOf t
decreasing_by
  all_goals simp_wf
  · omega
  · omega

theorem decode_noPanic (h : HashFn) : (t : Ty) → t.wf = true → NoPanic h t
  | .uint b, _ => uint_noPanic h b
  | .bool, _ => bool_noPanic h
  | .bytesN k, _ => bytesN_noPanic h k
  | .bitvector k, _ => bitvector_noPanic h k
  | .bitlist lim, _ => bitlist_noPanic h lim
  | .vector e k, hw => by
    simp only [Ty.wf, Bool.and_eq_true, decide_eq_true_eq] at hw
    exact vector_noPanic (decode_noPanic h e hw.2) k hw.1
      (fun b hb => wf_uint (by rw [← hb]; exact hw.2))
  | .list e lim, hw => by
    simp only [Ty.wf] at hw
    exact list_noPanic (decode_noPanic h e hw) lim
      (fun hf => Nat.pos_iff_ne_zero.mp (fixedSize_pos e hw hf))
      (fun b hb => wf_uint (by rw [← hb]; exact hw))
  | .container fs, hw => by
    simp only [Ty.wf, Bool.and_eq_true] at hw
    exact container_noPanic (fun t ht => decode_noPanic h t (wfAll_mem fs hw.2 t ht))
  | .union _ opts, hw => by
    simp only [Ty.wf, Bool.and_eq_true] at hw
    exact union_noPanic (fun t ht => decode_noPanic h t (wfAll_mem opts hw.1.2 t ht))
termination_by t => sizeOf t
decreasing_by
  all_goals simp_wf
  · omega
  · omega
  · have := List.sizeOf_lt_of_mem ht; omega
  · have := List.sizeOf_lt_of_mem ht; omega

/-! ### top level -/

theorem decodeTop_noPanic (h : HashFn) (t : Ty) (hw : t.wf = true) (bs : Bytes) :
    decodeTop h t bs ≠ .error .panic := by
  unfold decodeTop
  apply bind_ne_panic (decode_noPanic h t hw _)
  rintro ⟨n, d⟩ _
  exact ok_ne_panic _

theorem new_scope (bs : Bytes) : (DR.new bs bs.length).scope = bs.length := by
  simp [DR.new, DR.scope]

theorem new_avail (bs : Bytes) : (DR.new bs bs.length).avail = bs := by
  simp [DR.new]

/-- composite and variable-size types, and leaf types handed exactly their size -/
theorem decodeTop_sound (h : HashFn) (t : Ty) (bs : Bytes) (n : Node)
    (hleaf : isLeafTy t = true → bs.length = t.fixedSize)
    (hd : decodeTop h t bs = .ok n) :
    ∃ v, hasType t v = true ∧ serialize t v = bs ∧ construct h t v = .ok n := by
  unfold decodeTop at hd
  obtain ⟨⟨n', d⟩, h1, hd⟩ := bind_eq_ok hd
  cases hd
  obtain ⟨v, hv, hser, _, _, hcon⟩ := decode_sound h t _ _ _ h1 (by
    intro hl; rw [new_scope]; exact hleaf hl)
  rw [new_scope, new_avail, List.take_length] at hser
  exact ⟨v, hv, hser, hcon⟩

theorem leafSound_of_isLeafTy (h : HashFn) : (t : Ty) → isLeafTy t = true → LeafSound h t
  | .uint b, _ => uint_leafSound h b
  | .bool, _ => bool_leafSound h
  | .bytesN k, _ => bytesN_leafSound h k
  | .bitvector _, hl | .bitlist _, hl | .vector _ _, hl | .list _ _, hl | .container _, hl
  | .union _ _, hl => by simp [isLeafTy] at hl

/-- leaf types handed more than their size: the decoder is a plain read of the prefix -/
theorem decodeTop_leaf_sound (h : HashFn) (t : Ty) (bs : Bytes) (n : Node)
    (hleaf : isLeafTy t = true) (hd : decodeTop h t bs = .ok n) :
    ∃ v, hasType t v = true ∧ serialize t v = bs.take t.fixedSize ∧ t.fixedSize ≤ bs.length ∧
      construct h t v = .ok n := by
  unfold decodeTop at hd
  obtain ⟨⟨n', d⟩, h1, hd⟩ := bind_eq_ok hd
  cases hd
  obtain ⟨v, hv, hser, hle, _, hcon⟩ := leafSound_of_isLeafTy h t hleaf _ _ _ h1
  rw [new_avail] at hser hle
  exact ⟨v, hv, hser, hle, hcon⟩

/-! ### concrete data for the non-vacuity examples of Props/C03 -/

namespace C03Ex
/-- a simple computable pair hash -/
def h0 : HashFn := fun a b => (a ++ b).take 32
/-- container { uint16, List[uint8, 5], Union[None, uint8], Vector[List[uint16,4], 2], Bitlist[10] } -/
def T : Ty := .container [.uint 2, .list (.uint 1) 5, .union true [.uint 1],
  .vector (.list (.uint 2) 4) 2, .bitlist 10]
/-- fixed part 2+4+4+4+4 = 18; list at 18 (3 bytes), union at 21 (2 bytes), vector at 23
    (offsets 8, 10; items 2 and 4 bytes = 14 bytes), bitlist at 37 (2 bytes: 9 bits) -/
def enc : Bytes := [2, 1, 18, 0, 0, 0, 21, 0, 0, 0, 23, 0, 0, 0, 37, 0, 0, 0,
  7, 8, 9, 1, 5, 8, 0, 0, 0, 10, 0, 0, 0, 1, 0, 2, 0, 3, 0, 255, 3]
end C03Ex

end ZtypV.DecodeProofs
