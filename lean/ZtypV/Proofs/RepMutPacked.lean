/-
C04, packed slots (uint series, bitfields): `Set`, `Get`, `Append`, `Pop` preserve `Rep` and
agree with the value-level operations.  Tree navigation comes from Proofs/Shape.lean, the
sub-chunk rewriting from Proofs/RepMutBytes.lean.
-/
import ZtypV.Proofs.RepMutBytes
import ZtypV.Proofs.RepMutComplex
namespace ZtypV
open ZtypV.View ZtypV.Sim
namespace RepMut

/-! ### the tree procedures shared by uint series and bitfields -/

/-- read chunk `j`, write a new chunk at `j` (vector-like view, no expansion) -/
theorem tp_seq_set (h : HashFn) {d : Nat} {n : Node} {X : Bytes} {j : Nat} (c' : Root)
    (hs : SeqShape h d n (packedNodes X)) (hd : d < 64) (hj : j < chunkCount X) :
    ∃ n1, subtreeGet n d j = .ok (.leaf (chunkAt X j)) ∧
      subtreeSet h n d j (.leaf c') = .ok n1 ∧
      SeqShape h d n1 ((packedNodes X).set j (.leaf c')) := by
  have hj' : j < (packedNodes X).length := by rw [packedNodes_length]; exact hj
  obtain ⟨p, n1, hp, hset, hs1⟩ := shape_set h hs hj' hd (.leaf c') false
  refine ⟨n1, ?_, subtreeSet_of hp hset, hs1⟩
  rw [shape_get h hs hj' hd, packedNodes_get]

/-- the same below the length mix-in of a list view -/
theorem tp_list_set (h : HashFn) {d : Nat} {n : Node} {X : Bytes} {len j : Nat} (c' : Root)
    (hs : ListShape h d n (packedNodes X) len) (hd : d + 1 < 64) (hj : j < chunkCount X) :
    ∃ n1, subtreeGet n (d + 1) j = .ok (.leaf (chunkAt X j)) ∧
      subtreeSet h n (d + 1) j (.leaf c') = .ok n1 ∧
      ListShape h d n1 ((packedNodes X).set j (.leaf c')) len := by
  have hj' : j < (packedNodes X).length := by rw [packedNodes_length]; exact hj
  obtain ⟨p, n1, hp, hset, hs1⟩ := listShape_set h hs hj' hd (.leaf c') false
  refine ⟨n1, ?_, subtreeSet_of hp hset, hs1⟩
  rw [listShape_get h hs hj' hd, packedNodes_get]

/-- `Append` into / `Pop` out of an existing chunk: probe write, read, write, new length -/
theorem tp_list_write (h : HashFn) {d : Nat} {n : Node} {X : Bytes} {len j : Nat} (c' : Root)
    (len' : Nat) (hs : ListShape h d n (packedNodes X) len) (hd : d + 1 < 64)
    (hj : j < chunkCount X) :
    ∃ p w n1 n2, toPath j (d + 1) = .ok p ∧ setNode h n p true (.leaf z0) = .ok w ∧
      subtreeGet n (d + 1) j = .ok (.leaf (chunkAt X j)) ∧
      setNode h n p true (.leaf c') = .ok n1 ∧ setLength h n1 len' = .ok n2 ∧
      ListShape h d n2 ((packedNodes X).set j (.leaf c')) len' := by
  have hj' : j < (packedNodes X).length := by rw [packedNodes_length]; exact hj
  obtain ⟨p0, w, hp0, hset0, _⟩ := listShape_set h hs hj' hd (.leaf z0) true
  obtain ⟨p, n1, hp, hset, hs1⟩ := listShape_set h hs hj' hd (.leaf c') true
  obtain ⟨n2, hsl, hs2⟩ := listShape_setLength h hs1 len'
  have : p0 = p := by rw [hp0] at hp; cases hp; rfl
  subst this
  refine ⟨p0, w, n1, n2, hp0, hset0, ?_, hset, hsl, hs2⟩
  rw [listShape_get h hs hj' hd, packedNodes_get]

/-- `Append` opening a fresh chunk (expanding zero padding) -/
theorem tp_list_grow (h : HashFn) {d : Nat} {n : Node} {X : Bytes} {len : Nat} (c' : Root)
    (len' : Nat) (hs : ListShape h d n (packedNodes X) len) (hd : d + 1 < 64)
    (hcap : chunkCount X < 2 ^ d) :
    ∃ p w n1 n2, toPath (chunkCount X) (d + 1) = .ok p ∧ setNode h n p true (.leaf z0) = .ok w ∧
      setNode h n p true (.leaf c') = .ok n1 ∧ setLength h n1 len' = .ok n2 ∧
      ListShape h d n2 (packedNodes X ++ [.leaf c']) len' := by
  have hcap' : (packedNodes X).length < 2 ^ d := by rw [packedNodes_length]; exact hcap
  obtain ⟨p0, w, hp0, hset0, _⟩ := listShape_append h hs hcap' hd (.leaf z0)
  obtain ⟨p, n1, hp, hset, hs1⟩ := listShape_append h hs hcap' hd (.leaf c')
  obtain ⟨n2, hsl, hs2⟩ := listShape_setLength h hs1 len'
  have : p0 = p := by rw [hp0] at hp; cases hp; rfl
  subst this
  rw [packedNodes_length] at hp0
  exact ⟨p0, w, n1, n2, hp0, hset0, hset, hsl, hs2⟩

/-! ### arithmetic of packed uint elements -/

theorem uint_arith {b : Nat} (hb : b = 1 ∨ b = 2 ∨ b = 4 ∨ b = 8 ∨ b = 32) (i : Nat) :
    b * i / 32 = i / perNode b ∧ b * i % 32 = b * (i % perNode b) ∧
      b * (i % perNode b) + b ≤ 32 ∧ (b * i + 31) / 32 = (i + perNode b - 1) / perNode b ∧
      0 < perNode b := by
  unfold perNode
  rcases hb with rfl | rfl | rfl | rfl | rfl <;> simp only [Nat.reduceDiv] <;> omega

/-- `basicIntoChunk` on the chunk holding element `i` -/
theorem basic_chunk_facts {b : Nat} (hb : b = 1 ∨ b = 2 ∨ b = 4 ∨ b = 8 ∨ b = 32)
    {X X' : Bytes} {i m : Nat} (hu : Upd X X' (b * i) (leBytes b m)) :
    basicIntoChunk b (chunkAt X (i / perNode b)) (i % perNode b) m = chunkAt X' (i / perNode b) ∧
      ∀ k, k ≠ i / perNode b → chunkAt X' k = chunkAt X k := by
  obtain ⟨e1, e2, e3, _, _⟩ := uint_arith hb i
  have hfit : b * i % 32 + (leBytes b m).length ≤ 32 := by rw [leBytes_length, e2]; exact e3
  constructor
  · have := upd_chunk_hit hu hfit
    rw [e1, e2] at this
    rw [basicIntoChunk_eq]; exact this
  · intro k hk
    exact upd_chunk_miss hu hfit k (by rw [e1]; exact hk)

theorem flat_chunkCount (b : Nat) (vs : List Val) (hall : allHaveType (.uint b) vs = true) :
    chunkCount (flat b vs) = (b * vs.length + 31) / 32 := by
  unfold chunkCount; rw [flat_length b vs hall]

theorem allHaveType_uint_set {b : Nat} {vs : List Val} {m : Nat} (i : Nat)
    (hall : allHaveType (.uint b) vs = true) (hm : m < 256 ^ b) :
    allHaveType (.uint b) (vs.set i (.num m)) = true :=
  allHaveType_set _ _ (by simp [hasType, hm]) vs i hall

theorem rep_vector_basic_iff (h : HashFn) (b k : Nat) (vs : List Val) (n : Node) :
    Rep h (.vector (.uint b) k) (.seq vs) n ↔
      vs.length = k ∧ SeqShape h (seriesDepth (.uint b) k) n (packedNodes (flat b vs)) := by
  simp only [Rep, isBasicElem, if_true, flat]

theorem rep_list_basic_iff (h : HashFn) (b lim : Nat) (vs : List Val) (n : Node) :
    Rep h (.list (.uint b) lim) (.seq vs) n ↔
      vs.length ≤ lim ∧
        ListShape h (seriesDepth (.uint b) lim) n (packedNodes (flat b vs)) vs.length := by
  simp only [Rep, isBasicElem, if_true, flat]

/-! ### `Set` on uint series -/

/-- the chunk rewrite of `Set(i, m)` inside the flattened bytes -/
theorem basic_set_nodes {b : Nat} (hb : b = 1 ∨ b = 2 ∨ b = 4 ∨ b = 8 ∨ b = 32) (vs : List Val)
    (i m : Nat) (hi : i < vs.length) (hall : allHaveType (.uint b) vs = true) (hm : m < 256 ^ b) :
    i / perNode b < chunkCount (flat b vs) ∧
    (packedNodes (flat b vs)).set (i / perNode b)
      (.leaf (basicIntoChunk b (chunkAt (flat b vs) (i / perNode b)) (i % perNode b) m))
      = packedNodes (flat b (vs.set i (.num m))) := by
  obtain ⟨hhit, hmiss⟩ := basic_chunk_facts hb (flat_set b vs i m hi hall)
  have hall' := allHaveType_uint_set i hall hm
  have hcc : chunkCount (flat b (vs.set i (.num m))) = chunkCount (flat b vs) := by
    rw [flat_chunkCount b _ hall', flat_chunkCount b _ hall, List.length_set]
  constructor
  · rw [flat_chunkCount b _ hall]
    obtain ⟨e1, _, _, _, hp⟩ := uint_arith hb i
    rw [← e1]
    have : b * i + b ≤ b * vs.length := by
      have : b * i + b = b * (i + 1) := by rw [Nat.mul_succ]
      rw [this]; exact Nat.mul_le_mul_left b hi
    have hbpos : 0 < b := by omega
    omega
  · rw [hhit]
    exact packedNodes_set_eq _ _ _ hcc hmiss

theorem set_vector_basic (h : HashFn) (b k : Nat) (vs : List Val) (n : Node) (i : Nat)
    (x : Val) (en : Node)
    (hw : (Ty.vector (.uint b) k).wf = true) (hd : DepthOk (.vector (.uint b) k))
    (ht : hasType (.vector (.uint b) k) (.seq vs) = true)
    (hr : Rep h (.vector (.uint b) k) (.seq vs) n) (hx : hasType (.uint b) x = true) :
    MutSpec h (.vector (.uint b) k) (valSet (.vector (.uint b) k) (.seq vs) i x)
      (Mut.set h (.vector (.uint b) k) n i x en) := by
  obtain ⟨m, rfl, hm⟩ := hasType_uint_inv hx
  have hb := uint_wf_le (by simp only [Ty.wf, Bool.and_eq_true] at hw; exact hw.2)
  simp only [hasType, Bool.and_eq_true, beq_iff_eq] at ht
  obtain ⟨hlen, hs⟩ := (rep_vector_basic_iff h b k vs n).mp hr
  simp only [DepthOk] at hd
  simp only [valSet, Mut.set, isBasicElem, if_true, Ty.fixedSize, viewDepth, numOf]
  by_cases hi : i < vs.length
  · rw [if_pos hi, if_neg (by omega)]
    obtain ⟨hj, hnodes⟩ := basic_set_nodes hb vs i m hi ht.2 hm
    obtain ⟨n1, hget, hset, hs1⟩ := tp_seq_set h
      (basicIntoChunk b (chunkAt (flat b vs) (i / perNode b)) (i % perNode b) m) hs hd hj
    refine ⟨n1, by simp only [hget, R.bind_ok, asLeaf_leaf, hset], ?_, ?_⟩
    · rw [rep_vector_basic_iff, List.length_set, ← hnodes]
      exact ⟨hlen, hs1⟩
    · simp only [hasType, Bool.and_eq_true, beq_iff_eq, List.length_set]
      exact ⟨ht.1, allHaveType_uint_set i ht.2 hm⟩
  · rw [if_neg hi, if_pos (by omega)]
    exact mutSpec_err h _

theorem rep_list_basic_inv (h : HashFn) {b lim : Nat} {vs : List Val} {n : Node}
    (hd : DepthOk (.list (.uint b) lim)) (hr : Rep h (.list (.uint b) lim) (.seq vs) n) :
    vs.length ≤ lim ∧ seriesDepth (.uint b) lim + 1 < 64 ∧ listLength n lim = .ok vs.length ∧
      ListShape h (seriesDepth (.uint b) lim) n (packedNodes (flat b vs)) vs.length := by
  obtain ⟨hlen, hs⟩ := (rep_list_basic_iff h b lim vs n).mp hr
  simp only [DepthOk] at hd
  exact ⟨hlen, hd.2, listShape_length h hs hlen (by omega), hs⟩

theorem set_list_basic (h : HashFn) (b lim : Nat) (vs : List Val) (n : Node) (i : Nat)
    (x : Val) (en : Node)
    (hw : (Ty.list (.uint b) lim).wf = true) (hd : DepthOk (.list (.uint b) lim))
    (ht : hasType (.list (.uint b) lim) (.seq vs) = true)
    (hr : Rep h (.list (.uint b) lim) (.seq vs) n) (hx : hasType (.uint b) x = true) :
    MutSpec h (.list (.uint b) lim) (valSet (.list (.uint b) lim) (.seq vs) i x)
      (Mut.set h (.list (.uint b) lim) n i x en) := by
  obtain ⟨m, rfl, hm⟩ := hasType_uint_inv hx
  have hb := uint_wf_le (by simp only [Ty.wf] at hw; exact hw)
  simp only [hasType, Bool.and_eq_true, decide_eq_true_eq] at ht
  obtain ⟨hlen, hdd, hll, hs⟩ := rep_list_basic_inv h hd hr
  simp only [valSet, Mut.set, isBasicElem, if_true, Ty.fixedSize, viewDepth, numOf, hll, R.bind_ok]
  by_cases hi : i < vs.length
  · rw [if_pos hi, if_neg (by omega), if_neg (by omega)]
    obtain ⟨hj, hnodes⟩ := basic_set_nodes hb vs i m hi ht.2 hm
    obtain ⟨n1, hget, hset, hs1⟩ := tp_list_set h
      (basicIntoChunk b (chunkAt (flat b vs) (i / perNode b)) (i % perNode b) m) hs hdd hj
    refine ⟨n1, by simp only [hget, R.bind_ok, asLeaf_leaf, hset], ?_, ?_⟩
    · rw [rep_list_basic_iff, List.length_set, ← hnodes]
      exact ⟨hlen, hs1⟩
    · simp only [hasType, Bool.and_eq_true, decide_eq_true_eq, List.length_set]
      exact ⟨ht.1, allHaveType_uint_set i ht.2 hm⟩
  · rw [if_neg hi, if_pos (by omega)]
    exact mutSpec_err h _

/-! ### `Get` on uint series -/

theorem basic_get_facts {b : Nat} (hb : b = 1 ∨ b = 2 ∨ b = 4 ∨ b = 8 ∨ b = 32) (vs : List Val)
    (i : Nat) (hi : i < vs.length) (hall : allHaveType (.uint b) vs = true) :
    i / perNode b < chunkCount (flat b vs) ∧
      ∃ m, vs[i] = .num m ∧ m < 256 ^ b ∧
        basicFromChunk b (chunkAt (flat b vs) (i / perNode b)) (i % perNode b) = .ok (.num m) := by
  obtain ⟨h1, h2⟩ := basic_read b vs i hi hb hall
  obtain ⟨m, hm, hlt⟩ := hasType_uint_inv (allHaveType_getElem _ vs hall i hi)
  refine ⟨h1, m, hm, hlt, ?_⟩
  rw [← hm]; exact h2

theorem rep_uint_leaf (h : HashFn) (b m : Nat) :
    Rep h (.uint b) (.num m) (.leaf (chunkOf (leBytes b m))) := by
  simp only [Rep]

theorem getElem_vector_basic (h : HashFn) (b k : Nat) (vs : List Val) (n : Node) (i : Nat)
    (hw : (Ty.vector (.uint b) k).wf = true) (hd : DepthOk (.vector (.uint b) k))
    (ht : hasType (.vector (.uint b) k) (.seq vs) = true)
    (hr : Rep h (.vector (.uint b) k) (.seq vs) n) :
    GetSpec h (valElem (.vector (.uint b) k) (.seq vs) i) (getElemNode (.vector (.uint b) k) n i) := by
  have hb := uint_wf_le (by simp only [Ty.wf, Bool.and_eq_true] at hw; exact hw.2)
  simp only [hasType, Bool.and_eq_true, beq_iff_eq] at ht
  obtain ⟨hlen, hs⟩ := (rep_vector_basic_iff h b k vs n).mp hr
  simp only [DepthOk] at hd
  simp only [valElem, getElemNode, isBasicElem, if_true, Ty.fixedSize, viewDepth]
  by_cases hi : i < vs.length
  · rw [List.getElem?_eq_getElem hi, if_neg (by omega)]
    obtain ⟨hj, m, hvm, hm, hread⟩ := basic_get_facts hb vs i hi ht.2
    obtain ⟨_, hget, _, _⟩ := tp_seq_set h z0 hs hd hj
    simp only [hget, R.bind_ok, asLeaf_leaf, hread, numOf, Option.map_some, hvm]
    exact ⟨_, rfl, rep_uint_leaf h b m, rfl, by simp [hasType, hm]⟩
  · rw [List.getElem?_eq_none (by omega), if_pos (by omega)]
    exact getSpec_err h

theorem getElem_list_basic (h : HashFn) (b lim : Nat) (vs : List Val) (n : Node) (i : Nat)
    (hw : (Ty.list (.uint b) lim).wf = true) (hd : DepthOk (.list (.uint b) lim))
    (ht : hasType (.list (.uint b) lim) (.seq vs) = true)
    (hr : Rep h (.list (.uint b) lim) (.seq vs) n) :
    GetSpec h (valElem (.list (.uint b) lim) (.seq vs) i) (getElemNode (.list (.uint b) lim) n i) := by
  have hb := uint_wf_le (by simp only [Ty.wf] at hw; exact hw)
  simp only [hasType, Bool.and_eq_true, decide_eq_true_eq] at ht
  obtain ⟨hlen, hdd, hll, hs⟩ := rep_list_basic_inv h hd hr
  simp only [valElem, getElemNode, isBasicElem, if_true, Ty.fixedSize, viewDepth, hll, R.bind_ok]
  by_cases hi : i < vs.length
  · rw [List.getElem?_eq_getElem hi, if_neg (by omega), if_neg (by omega)]
    obtain ⟨hj, m, hvm, hm, hread⟩ := basic_get_facts hb vs i hi ht.2
    obtain ⟨_, hget, _, _⟩ := tp_list_set h z0 hs hdd hj
    simp only [hget, R.bind_ok, asLeaf_leaf, hread, numOf, Option.map_some, hvm]
    exact ⟨_, rfl, rep_uint_leaf h b m, rfl, by simp [hasType, hm]⟩
  · rw [List.getElem?_eq_none (by omega), if_pos (by omega)]
    exact getSpec_err h

/-! ### `Append` / `Pop` on uint lists -/

theorem uint_cap {b : Nat} (hb : b = 1 ∨ b = 2 ∨ b = 4 ∨ b = 8 ∨ b = 32) {ll lim : Nat}
    (h1 : ll < lim) (h0 : ll % perNode b = 0) : ll / perNode b < bottomNodes b lim := by
  unfold bottomNodes
  unfold perNode at *
  rcases hb with rfl | rfl | rfl | rfl | rfl <;> simp only [Nat.reduceDiv] at * <;> omega

theorem append_list_basic (h : HashFn) (b lim : Nat) (vs : List Val) (n : Node)
    (x : Val) (en : Node)
    (hw : (Ty.list (.uint b) lim).wf = true) (hd : DepthOk (.list (.uint b) lim))
    (ht : hasType (.list (.uint b) lim) (.seq vs) = true)
    (hr : Rep h (.list (.uint b) lim) (.seq vs) n) (hx : hasType (.uint b) x = true) :
    MutSpec h (.list (.uint b) lim) (valAppend (.list (.uint b) lim) (.seq vs) x)
      (Mut.append h (.list (.uint b) lim) n x en) := by
  obtain ⟨m, rfl, hm⟩ := hasType_uint_inv hx
  have hb := uint_wf_le (by simp only [Ty.wf] at hw; exact hw)
  simp only [hasType, Bool.and_eq_true, decide_eq_true_eq] at ht
  obtain ⟨hlen, hdd, hll, hs⟩ := rep_list_basic_inv h hd hr
  simp only [valAppend, Mut.append, isBasicElem, if_true, Ty.fixedSize, viewDepth, numOf, hll,
    R.bind_ok]
  by_cases hlim : vs.length < lim
  · rw [if_pos hlim, if_neg (by omega)]
    have hall' : allHaveType (.uint b) (vs ++ [.num m]) = true :=
      allHaveType_append _ _ (by simp [hasType, hm]) vs ht.2
    obtain ⟨hhit, hmiss⟩ := basic_chunk_facts hb (flat_append b vs m ht.2)
    obtain ⟨e1, e2, e3, _, hpp⟩ := uint_arith hb vs.length
    have hcX := flat_chunkCount b vs ht.2
    have hcX' := flat_chunkCount b _ hall'
    rw [List.length_append, List.length_singleton, Nat.mul_succ] at hcX'
    have hbpos : 0 < b := by rcases hb with rfl | rfl | rfl | rfl | rfl <;> omega
    have hty : hasType (.list (.uint b) lim) (.seq (vs ++ [.num m])) = true := by
      simp only [hasType, Bool.and_eq_true, decide_eq_true_eq, List.length_append,
        List.length_singleton]
      exact ⟨by omega, hall'⟩
    by_cases h0 : vs.length % perNode b = 0
    · -- a fresh chunk
      rw [h0, Nat.mul_zero] at e2
      have hj : vs.length / perNode b = chunkCount (flat b vs) := by rw [hcX, ← e1]; omega
      have hz : chunkAt (flat b vs) (vs.length / perNode b) = z0 :=
        chunkAt_beyond _ _ (by rw [flat_length b vs ht.2, ← e1]; omega)
      rw [hz, h0] at hhit
      have hcc : chunkCount (flat b (vs ++ [.num m])) = chunkCount (flat b vs) + 1 := by
        rw [hcX, hcX']; omega
      have hcap : chunkCount (flat b vs) < 2 ^ seriesDepth (.uint b) lim := by
        rw [← hj]
        have h1 := uint_cap hb hlim h0
        have h2 := le_two_pow_coverDepth (bottomNodes b lim)
        have : seriesDepth (.uint b) lim = coverDepth (bottomNodes b lim) := by
          simp [seriesDepth, isBasicElem, Ty.fixedSize]
        rw [this]; omega
      obtain ⟨p, w, n1, n2, hp, hset0, hset, hsl, hs2⟩ :=
        tp_list_grow h (basicIntoChunk b z0 0 m) (vs.length + 1) hs hdd hcap
      rw [← hj] at hp
      refine ⟨n2, ?_, ?_, hty⟩
      · simp only [hp, R.bind_ok, hset0, if_pos h0, pure_bind, hset, hsl]
      · rw [rep_list_basic_iff, List.length_append, List.length_singleton,
          packedNodes_snoc_eq _ _ hcc (fun k hk => hmiss k (by omega)), ← hj, ← hhit]
        exact ⟨by omega, hs2⟩
    · -- inside the last chunk
      have hr0 : 0 < b * (vs.length % perNode b) := Nat.mul_pos hbpos (by omega)
      have hj : vs.length / perNode b < chunkCount (flat b vs) := by rw [hcX, ← e1]; omega
      have hcc : chunkCount (flat b (vs ++ [.num m])) = chunkCount (flat b vs) := by
        rw [hcX, hcX']; omega
      obtain ⟨p, w, n1, n2, hp, hset0, hget, hset, hsl, hs2⟩ :=
        tp_list_write h
          (basicIntoChunk b (chunkAt (flat b vs) (vs.length / perNode b)) (vs.length % perNode b) m)
          (vs.length + 1) hs hdd hj
      refine ⟨n2, ?_, ?_, hty⟩
      · simp only [hp, R.bind_ok, hset0, if_neg h0, hget, asLeaf_leaf, pure_bind, hset, hsl]
      · rw [rep_list_basic_iff, List.length_append, List.length_singleton,
          ← packedNodes_set_eq _ _ _ hcc hmiss, ← hhit]
        exact ⟨by omega, hs2⟩
  · rw [if_neg hlim, if_pos (by omega)]
    exact mutSpec_err h _

theorem pop_list_basic (h : HashFn) (b lim : Nat) (vs : List Val) (n : Node)
    (hw : (Ty.list (.uint b) lim).wf = true) (hd : DepthOk (.list (.uint b) lim))
    (ht : hasType (.list (.uint b) lim) (.seq vs) = true)
    (hr : Rep h (.list (.uint b) lim) (.seq vs) n) :
    MutSpec h (.list (.uint b) lim) (valPop (.list (.uint b) lim) (.seq vs))
      (Mut.pop h (.list (.uint b) lim) n) := by
  have hb := uint_wf_le (by simp only [Ty.wf] at hw; exact hw)
  simp only [hasType, Bool.and_eq_true, decide_eq_true_eq] at ht
  obtain ⟨hlen, hdd, hll, hs⟩ := rep_list_basic_inv h hd hr
  simp only [valPop, Mut.pop, isBasicElem, if_true, Ty.fixedSize, viewDepth, hll, R.bind_ok]
  by_cases hi : vs.length = 0
  · have : vs = [] := List.eq_nil_of_length_eq_zero hi
    subst this
    simp only [List.isEmpty_nil, if_true, List.length_nil]
    exact mutSpec_err h _
  · have hie : vs.isEmpty = false := by cases vs <;> simp_all
    rw [hie, if_neg hi]
    simp only [Bool.false_eq_true, if_false]
    have hall' : allHaveType (.uint b) vs.dropLast = true := allHaveType_dropLast _ vs ht.2
    obtain ⟨hhit, hmiss⟩ := basic_chunk_facts hb (flat_dropLast b vs (by omega) ht.2)
    obtain ⟨e1, e2, e3, _, hpp⟩ := uint_arith hb (vs.length - 1)
    have hcX := flat_chunkCount b vs ht.2
    have hcX' := flat_chunkCount b _ hall'
    rw [List.length_dropLast] at hcX'
    have hsplit : b * vs.length = b * (vs.length - 1) + b := by
      have : vs.length = (vs.length - 1) + 1 := by omega
      conv => lhs; rw [this, Nat.mul_succ]
    rw [hsplit] at hcX
    have hbpos : 0 < b := by rcases hb with rfl | rfl | rfl | rfl | rfl <;> omega
    have hj : (vs.length - 1) / perNode b < chunkCount (flat b vs) := by rw [hcX, ← e1]; omega
    obtain ⟨p, w, n1, n2, hp, hset0, hget, hset, hsl, hs2⟩ :=
      tp_list_write h
        (basicIntoChunk b (chunkAt (flat b vs) ((vs.length - 1) / perNode b))
          ((vs.length - 1) % perNode b) 0)
        (vs.length - 1) hs hdd hj
    refine ⟨n2, ?_, ?_, ?_⟩
    · simp only [hp, R.bind_ok, hset0, hget, asLeaf_leaf, hset, hsl]
    · rw [rep_list_basic_iff, List.length_dropLast]
      refine ⟨by omega, ?_⟩
      rw [hhit] at hs2
      by_cases h0 : (vs.length - 1) % perNode b = 0
      · -- the last chunk becomes empty: its position is padding again
        rw [h0, Nat.mul_zero] at e2
        have hjc : (vs.length - 1) / perNode b = chunkCount (flat b vs.dropLast) := by
          rw [hcX', ← e1]; omega
        have hz : chunkAt (flat b vs.dropLast) ((vs.length - 1) / perNode b) = z0 :=
          chunkAt_beyond _ _ (by rw [flat_length b _ hall', List.length_dropLast, ← e1]; omega)
        have hcc : chunkCount (flat b vs.dropLast) + 1 = chunkCount (flat b vs) := by
          rw [hcX, hcX']; omega
        rw [hz, hjc, packedNodes_shrink_eq _ _ hcc (fun k hk => hmiss k (by omega))] at hs2
        exact listShape_dropLast_zero h hs2
      · have hr0 : 0 < b * ((vs.length - 1) % perNode b) := Nat.mul_pos hbpos (by omega)
        have hcc : chunkCount (flat b vs.dropLast) = chunkCount (flat b vs) := by
          rw [hcX, hcX']; omega
        rw [packedNodes_set_eq _ _ _ hcc hmiss] at hs2
        exact hs2
    · simp only [hasType, Bool.and_eq_true, decide_eq_true_eq, List.length_dropLast]
      exact ⟨by omega, hall'⟩

/-! ### bitfields -/

theorem hasType_bool_inv {v : Val} (h : hasType .bool v = true) : ∃ b, v = .bool b := by
  cases v <;> simp [hasType] at h
  exact ⟨_, rfl⟩

theorem rep_bool_leaf (h : HashFn) (b : Bool) :
    Rep h .bool (.bool b) (.leaf (chunkOf [if b then 1 else 0])) := by
  simp only [Rep]

theorem bitIntoChunk_mod (r : Root) (i : Nat) (b : Bool) :
    bitIntoChunk r i b = bitIntoChunk r (i % 256) b := by
  simp only [bitIntoChunk, Nat.mod_mod]

theorem bitFromChunk_packed (bs : List Bool) (i : Nat) (hi : i < bs.length) :
    bitFromChunk (chunkAt (packBits bs) (i / 256)) i = bs[i] := by
  unfold bitFromChunk chunkAt
  simp only []
  rw [packed_bit, List.getD_eq_getElem?_getD, List.getElem?_eq_getElem hi]; rfl

/-- the chunk rewrite of setting bit `i` -/
theorem bits_set_nodes (bs : List Bool) (i : Nat) (b : Bool) (hi : i < bs.length) :
    i / 256 < chunkCount (packBits bs) ∧
    (packedNodes (packBits bs)).set (i / 256)
      (.leaf (bitIntoChunk (chunkAt (packBits bs) (i / 256)) i b))
      = packedNodes (packBits (bs.set i b)) := by
  have hu := bupd_set bs i b hi
  constructor
  · rw [bits_chunkCount]; omega
  · rw [bupd_chunk_hit hu]
    exact packedNodes_set_eq _ _ _ (by rw [bits_chunkCount, bits_chunkCount, List.length_set])
      (bupd_chunk_miss hu)

theorem set_bitvector (h : HashFn) (k : Nat) (bs : List Bool) (n : Node) (i : Nat)
    (x : Val) (en : Node) (hd : DepthOk (.bitvector k))
    (hr : Rep h (.bitvector k) (.bits bs) n) (hx : hasType .bool x = true) :
    MutSpec h (.bitvector k) (valSet (.bitvector k) (.bits bs) i x)
      (Mut.set h (.bitvector k) n i x en) := by
  obtain ⟨b, rfl⟩ := hasType_bool_inv hx
  simp only [Rep] at hr
  obtain ⟨hlen, hs⟩ := hr
  simp only [DepthOk] at hd
  simp only [valSet, Mut.set, viewDepth, boolOf]
  by_cases hi : i < bs.length
  · rw [if_pos hi, if_neg (by omega)]
    obtain ⟨hj, hnodes⟩ := bits_set_nodes bs i b hi
    obtain ⟨n1, hget, hset, hs1⟩ := tp_seq_set h
      (bitIntoChunk (chunkAt (packBits bs) (i / 256)) i b) hs hd hj
    refine ⟨n1, by simp only [hget, R.bind_ok, asLeaf_leaf, hset], ?_, ?_⟩
    · simp only [Rep, List.length_set]
      rw [← hnodes]
      exact ⟨hlen, hs1⟩
    · simpa [hasType] using hlen
  · rw [if_neg hi, if_pos (by omega)]
    exact mutSpec_err h _

theorem rep_bitlist_inv (h : HashFn) {lim : Nat} {bs : List Bool} {n : Node}
    (hd : DepthOk (.bitlist lim)) (hr : Rep h (.bitlist lim) (.bits bs) n) :
    bs.length ≤ lim ∧ bitDepth lim + 1 < 64 ∧ listLength n lim = .ok bs.length ∧
      ListShape h (bitDepth lim) n (packedNodes (packBits bs)) bs.length := by
  simp only [Rep] at hr
  obtain ⟨hlen, hs⟩ := hr
  simp only [DepthOk] at hd
  exact ⟨hlen, hd.2, listShape_length h hs hlen (by omega), hs⟩

theorem set_bitlist (h : HashFn) (lim : Nat) (bs : List Bool) (n : Node) (i : Nat)
    (x : Val) (en : Node) (hd : DepthOk (.bitlist lim))
    (hr : Rep h (.bitlist lim) (.bits bs) n) (hx : hasType .bool x = true) :
    MutSpec h (.bitlist lim) (valSet (.bitlist lim) (.bits bs) i x)
      (Mut.set h (.bitlist lim) n i x en) := by
  obtain ⟨b, rfl⟩ := hasType_bool_inv hx
  obtain ⟨hlen, hdd, hll, hs⟩ := rep_bitlist_inv h hd hr
  simp only [valSet, Mut.set, viewDepth, boolOf, hll, R.bind_ok]
  by_cases hi : i < bs.length
  · rw [if_pos hi, if_neg (by omega), if_neg (by omega)]
    obtain ⟨hj, hnodes⟩ := bits_set_nodes bs i b hi
    obtain ⟨n1, hget, hset, hs1⟩ := tp_list_set h
      (bitIntoChunk (chunkAt (packBits bs) (i / 256)) i b) hs hdd hj
    refine ⟨n1, by simp only [hget, R.bind_ok, asLeaf_leaf, hset], ?_, ?_⟩
    · simp only [Rep, List.length_set]
      rw [← hnodes]
      exact ⟨hlen, hs1⟩
    · simpa [hasType] using hlen
  · rw [if_neg hi, if_pos (by omega)]
    exact mutSpec_err h _

theorem getElem_bitvector (h : HashFn) (k : Nat) (bs : List Bool) (n : Node) (i : Nat)
    (hd : DepthOk (.bitvector k)) (hr : Rep h (.bitvector k) (.bits bs) n) :
    GetSpec h (valElem (.bitvector k) (.bits bs) i) (getElemNode (.bitvector k) n i) := by
  simp only [Rep] at hr
  obtain ⟨hlen, hs⟩ := hr
  simp only [DepthOk] at hd
  simp only [valElem, getElemNode, viewDepth]
  by_cases hi : i < bs.length
  · rw [List.getElem?_eq_getElem hi, if_neg (by omega)]
    obtain ⟨_, hget, _, _⟩ := tp_seq_set h z0 hs hd
      (by rw [bits_chunkCount]; omega : i / 256 < chunkCount (packBits bs))
    simp only [hget, R.bind_ok, asLeaf_leaf, bitFromChunk_packed bs i hi, Option.map_some]
    exact ⟨_, rfl, rep_bool_leaf h _, rfl, rfl⟩
  · rw [List.getElem?_eq_none (by omega), if_pos (by omega)]
    exact getSpec_err h

theorem getElem_bitlist (h : HashFn) (lim : Nat) (bs : List Bool) (n : Node) (i : Nat)
    (hd : DepthOk (.bitlist lim)) (hr : Rep h (.bitlist lim) (.bits bs) n) :
    GetSpec h (valElem (.bitlist lim) (.bits bs) i) (getElemNode (.bitlist lim) n i) := by
  obtain ⟨hlen, hdd, hll, hs⟩ := rep_bitlist_inv h hd hr
  simp only [valElem, getElemNode, viewDepth, hll, R.bind_ok]
  by_cases hi : i < bs.length
  · rw [List.getElem?_eq_getElem hi, if_neg (by omega), if_neg (by omega)]
    obtain ⟨_, hget, _, _⟩ := tp_list_set h z0 hs hdd
      (by rw [bits_chunkCount]; omega : i / 256 < chunkCount (packBits bs))
    simp only [hget, R.bind_ok, asLeaf_leaf, bitFromChunk_packed bs i hi, Option.map_some]
    exact ⟨_, rfl, rep_bool_leaf h _, rfl, rfl⟩
  · rw [List.getElem?_eq_none (by omega), if_pos (by omega)]
    exact getSpec_err h

theorem append_bitlist (h : HashFn) (lim : Nat) (bs : List Bool) (n : Node)
    (x : Val) (en : Node) (hd : DepthOk (.bitlist lim))
    (hr : Rep h (.bitlist lim) (.bits bs) n) (hx : hasType .bool x = true) :
    MutSpec h (.bitlist lim) (valAppend (.bitlist lim) (.bits bs) x)
      (Mut.append h (.bitlist lim) n x en) := by
  obtain ⟨b, rfl⟩ := hasType_bool_inv hx
  obtain ⟨hlen, hdd, hll, hs⟩ := rep_bitlist_inv h hd hr
  simp only [valAppend, Mut.append, viewDepth, boolOf, hll, R.bind_ok]
  by_cases hlim : bs.length < lim
  · rw [if_pos hlim, if_neg (by omega)]
    have hu := bupd_append bs b
    have hhit := bupd_chunk_hit hu
    have hmiss := bupd_chunk_miss hu
    have hcX := bits_chunkCount bs
    have hcX' := bits_chunkCount (bs ++ [b])
    rw [List.length_append, List.length_singleton] at hcX'
    have hty : hasType (.bitlist lim) (.bits (bs ++ [b])) = true := by
      simp only [hasType, decide_eq_true_eq, List.length_append, List.length_singleton]; omega
    by_cases h0 : bs.length % 256 = 0
    · have hj : bs.length / 256 = chunkCount (packBits bs) := by rw [hcX]; omega
      have hz : chunkAt (packBits bs) (bs.length / 256) = z0 :=
        chunkAt_beyond _ _ (by rw [packBits_length]; omega)
      rw [hz, bitIntoChunk_mod, h0] at hhit
      have hcc : chunkCount (packBits (bs ++ [b])) = chunkCount (packBits bs) + 1 := by
        rw [hcX, hcX']; omega
      have hcap : chunkCount (packBits bs) < 2 ^ bitDepth lim := by
        have h2 := le_two_pow_coverDepth ((lim + 255) / 256)
        unfold bitDepth
        omega
      obtain ⟨p, w, n1, n2, hp, hset0, hset, hsl, hs2⟩ :=
        tp_list_grow h (bitIntoChunk z0 0 b) (bs.length + 1) hs hdd hcap
      rw [← hj] at hp
      refine ⟨n2, ?_, ?_, hty⟩
      · simp only [hp, R.bind_ok, hset0, if_pos h0, pure_bind, hset, hsl]
      · simp only [Rep, List.length_append, List.length_singleton]
        rw [packedNodes_snoc_eq _ _ hcc (fun k hk => hmiss k (by omega)), ← hj, ← hhit]
        exact ⟨by omega, hs2⟩
    · have hj : bs.length / 256 < chunkCount (packBits bs) := by rw [hcX]; omega
      have hcc : chunkCount (packBits (bs ++ [b])) = chunkCount (packBits bs) := by
        rw [hcX, hcX']; omega
      obtain ⟨p, w, n1, n2, hp, hset0, hget, hset, hsl, hs2⟩ :=
        tp_list_write h (bitIntoChunk (chunkAt (packBits bs) (bs.length / 256)) bs.length b)
          (bs.length + 1) hs hdd hj
      refine ⟨n2, ?_, ?_, hty⟩
      · simp only [hp, R.bind_ok, hset0, if_neg h0, hget, asLeaf_leaf, pure_bind, hset, hsl]
      · simp only [Rep, List.length_append, List.length_singleton]
        rw [← packedNodes_set_eq _ _ _ hcc hmiss, ← hhit]
        exact ⟨by omega, hs2⟩
  · rw [if_neg hlim, if_pos (by omega)]
    exact mutSpec_err h _

theorem pop_bitlist (h : HashFn) (lim : Nat) (bs : List Bool) (n : Node)
    (hd : DepthOk (.bitlist lim)) (hr : Rep h (.bitlist lim) (.bits bs) n) :
    MutSpec h (.bitlist lim) (valPop (.bitlist lim) (.bits bs)) (Mut.pop h (.bitlist lim) n) := by
  obtain ⟨hlen, hdd, hll, hs⟩ := rep_bitlist_inv h hd hr
  simp only [valPop, Mut.pop, viewDepth, hll, R.bind_ok]
  by_cases hi : bs.length = 0
  · have : bs = [] := List.eq_nil_of_length_eq_zero hi
    subst this
    simp only [List.isEmpty_nil, if_true, List.length_nil]
    exact mutSpec_err h _
  · have hie : bs.isEmpty = false := by cases bs <;> simp_all
    rw [hie, if_neg hi]
    simp only [Bool.false_eq_true, if_false]
    have hu := bupd_dropLast bs (by omega)
    have hhit := bupd_chunk_hit hu
    have hmiss := bupd_chunk_miss hu
    have hcX := bits_chunkCount bs
    have hcX' := bits_chunkCount bs.dropLast
    rw [List.length_dropLast] at hcX'
    have hj : (bs.length - 1) / 256 < chunkCount (packBits bs) := by rw [hcX]; omega
    obtain ⟨p, w, n1, n2, hp, hset0, hget, hset, hsl, hs2⟩ :=
      tp_list_write h (bitIntoChunk (chunkAt (packBits bs) ((bs.length - 1) / 256)) (bs.length - 1) false)
        (bs.length - 1) hs hdd hj
    refine ⟨n2, ?_, ?_, ?_⟩
    · simp only [hp, R.bind_ok, hset0, hget, asLeaf_leaf, hset, hsl]
    · simp only [Rep, List.length_dropLast]
      refine ⟨by omega, ?_⟩
      rw [hhit] at hs2
      by_cases h0 : (bs.length - 1) % 256 = 0
      · have hjc : (bs.length - 1) / 256 = chunkCount (packBits bs.dropLast) := by
          rw [hcX']; omega
        have hz : chunkAt (packBits bs.dropLast) ((bs.length - 1) / 256) = z0 :=
          chunkAt_beyond _ _ (by rw [packBits_length, List.length_dropLast]; omega)
        have hcc : chunkCount (packBits bs.dropLast) + 1 = chunkCount (packBits bs) := by
          rw [hcX, hcX']; omega
        rw [hz, hjc, packedNodes_shrink_eq _ _ hcc (fun k hk => hmiss k (by omega))] at hs2
        exact listShape_dropLast_zero h hs2
      · have hcc : chunkCount (packBits bs.dropLast) = chunkCount (packBits bs) := by
          rw [hcX, hcX']; omega
        rw [packedNodes_set_eq _ _ _ hcc hmiss] at hs2
        exact hs2
    · simp only [hasType, decide_eq_true_eq, List.length_dropLast]; omega

end RepMut
end ZtypV
