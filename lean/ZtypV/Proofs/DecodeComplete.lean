/-
C02 round trip, decoder completeness, master theorems (the converse of Proofs/DecodeSound.lean):
by recursion over the type,
* `decode_complete_all`: for a well-formed type the decoder accepts every reader whose stream
  starts with the encoding of a typed value (shorter than 2^32 bytes: offsets are 32-bit words)
  and whose scope is exactly the encoding's length, and consumes exactly the encoding;
* `decode_complete`: the same spelled out, plus (by soundness and injectivity of `serialize`)
  the decoded backing is the one the constructors build for that value;
* `decode_leaf_complete`: leaf types only need a scope of at least their size;
* `decodeTop_complete`: the top-level entry accepts `serialize t v` and returns `construct h t v`.
-/
import ZtypV.Proofs.DecodeCompleteStruct
import ZtypV.Proofs.SerInj
namespace ZtypV.DecodeProofs
open ZtypV ZtypV.View

theorem decode_complete_all (h : HashFn) : (t : Ty) → t.wf = true → Complete h t
  | .uint b, _ => (uint_leafComplete h b).complete rfl
  | .bool, _ => (bool_leafComplete h).complete rfl
  | .bytesN k, _ => (bytesN_leafComplete h k).complete rfl
  | .bitvector k, _ => bitvector_complete h k
  | .bitlist lim, _ => bitlist_complete h lim
  | .vector e k, hw => by
    simp only [Ty.wf, Bool.and_eq_true, decide_eq_true_eq] at hw
    exact vector_complete (decode_complete_all h e hw.2) hw.2 k hw.1
  | .list e lim, hw => by
    simp only [Ty.wf] at hw
    exact list_complete (decode_complete_all h e hw) hw lim
  | .container fs, hw => by
    simp only [Ty.wf, Bool.and_eq_true] at hw
    exact container_complete (fun t ht => decode_complete_all h t (wfAll_mem fs hw.2 t ht))
  | .union hasNone opts, hw => by
    simp only [Ty.wf, Bool.and_eq_true, decide_eq_true_eq] at hw
    exact union_complete (fun t ht => decode_complete_all h t (wfAll_mem opts hw.1.2 t ht)) hw.2
termination_by t => sizeOf t
decreasing_by
  all_goals simp_wf
  · omega
  · omega
  · have := List.sizeOf_lt_of_mem ht; omega
  · have := List.sizeOf_lt_of_mem ht; omega

/-- **Decoder completeness.**  For a well-formed type `t`, a typed value `v` whose encoding is
    shorter than 2^32 bytes and ANY reader whose stream starts with `serialize t v` and whose
    scope is exactly the encoding's length, `Deserialize` succeeds, consumes exactly the
    encoding, and returns the backing the constructors build for `v`. -/
theorem decode_complete (h : HashFn) (t : Ty) (v : Val) (dr : DR) (rest : Bytes)
    (hwf : t.wf = true) (hty : hasType t v = true) (hsize : (serialize t v).length < 2 ^ 32)
    (hscope : dr.scope = (serialize t v).length) (hi : dr.i ≤ dr.max)
    (hav : dr.avail = serialize t v ++ rest) :
    ∃ n dr', decode h t dr = .ok (n, dr') ∧ dr'.avail = rest ∧ construct h t v = .ok n := by
  obtain ⟨⟨n, dr'⟩, hd, ha⟩ := decode_complete_all h t hwf v dr rest hty hsize hscope hi hav
  refine ⟨n, dr', hd, ha, ?_⟩
  obtain ⟨v', hty', hser, _, _, hcon⟩ := decode_sound h t dr n dr' hd (by
    intro hl
    rw [hscope]
    exact serialize_fixed_length v t (isFixed_of_isLeafTy hl) hty)
  have hpre : dr.avail.take dr.scope = serialize t v := by rw [hscope, hav]; simp
  rw [hpre] at hser
  have hv : v = v' := serialize_injective t v v' hwf hty hty' hsize hser.symm
  rw [hv]; exact hcon

/-- leaf types (uint, boolean, small byte vectors): the decoder is a plain read, so any scope of
    at least `fixedSize` bytes will do (what the code needs is `dr.scope ≥ fixedSize`) -/
theorem decode_leaf_complete (h : HashFn) (t : Ty) (v : Val) (dr : DR) (rest : Bytes)
    (hleaf : isLeafTy t = true) (hty : hasType t v = true)
    (hscope : dr.i + t.fixedSize ≤ dr.max) (hav : dr.avail = serialize t v ++ rest) :
    ∃ n dr', decode h t dr = .ok (n, dr') ∧ dr'.avail = rest := by
  have hl : LeafComplete h t := by
    cases t with
    | uint b => exact uint_leafComplete h b
    | bool => exact bool_leafComplete h
    | bytesN k => exact bytesN_leafComplete h k
    | _ => simp [isLeafTy] at hleaf
  obtain ⟨⟨n, dr'⟩, hd, ha⟩ := hl v dr rest hty hscope hav
  exact ⟨n, dr', hd, ha⟩

/-- **Top-level completeness.**  `Deserialize` over `serialize t v` with scope = its length
    succeeds, and the decoded backing is exactly what the constructors build for `v`. -/
theorem decodeTop_complete (h : HashFn) (t : Ty) (v : Val) (hwf : t.wf = true)
    (hty : hasType t v = true) (hsize : (serialize t v).length < 2 ^ 32) :
    ∃ n, decodeTop h t (serialize t v) = .ok n ∧ construct h t v = .ok n := by
  obtain ⟨n, dr', hd, _, hcon⟩ := decode_complete h t v (DR.new (serialize t v) (serialize t v).length)
    [] hwf hty hsize (new_scope _) (Nat.zero_le _) (by rw [new_avail]; simp)
  refine ⟨n, ?_, hcon⟩
  unfold decodeTop
  rw [hd]; rfl

end ZtypV.DecodeProofs
