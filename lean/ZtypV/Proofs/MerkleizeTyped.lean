/-
Typed flat hash-tree-root helpers of `tree/hashing.go` (model: `ZtypV/Model/Merkleize.lean`)
against the SSZ spec (`ZtypV/Spec.lean`).  Core Lean only.
-/
import ZtypV.Proofs.Merkleize
namespace ZtypV.Mk
open ZtypV

/-! ### machine arithmetic without wrap-around -/

theorem add64_of_lt {a b : Nat} (hlt : a + b < 2^64) : add64 a b = a + b := by
  unfold add64; exact Nat.mod_eq_of_lt hlt

theorem shl64_of_lt {a k : Nat} (hlt : a * 2^k < 2^64) : shl64 a k = a * 2^k := by
  unfold shl64; exact Nat.mod_eq_of_lt hlt

/-! ### list helpers -/

theorem range_map_getD {α} (xs : List α) (d : α) :
    (List.range xs.length).map (fun i => xs.getD i d) = xs := by
  apply List.ext_getElem
  · simp
  · intro i h1 h2
    simp at h1
    simp [h1]

/-- a 32-byte chunk, bytewise -/
theorem chunkOf_eq_map (bs : Bytes) : chunkOf bs = (List.range 32).map (fun y => bs.getD y 0) := by
  unfold chunkOf
  apply List.ext_getElem
  · simp
  · intro i h1 h2
    have hi : i < 32 := by simpa using h2
    simp only [List.getElem_take, List.getElem_map, List.getElem_range, List.getD_eq_getElem?_getD]
    rw [List.getElem_append]
    split
    · rename_i hlt; simp [hlt]
    · rename_i hge
      have : bs.length ≤ i := by omega
      rw [List.getElem_replicate]
      simp [this]

theorem chunkOf_length (bs : Bytes) : (chunkOf bs).length = 32 := by
  unfold chunkOf; simp

theorem map_range_getD_self (out : Root) (hl : out.length = 32) :
    (List.range 32).map (fun y => out.getD y 0) = out := by
  rw [← hl]; exact range_map_getD out 0

/-! ### `ChunksHTR` over a byte string -/

/-- if the chunk closure yields the zero-padded 32-byte pieces of `bs`, `ChunksHTR` is the
    spec's `merkleize(pack(bs), limit)` -/
theorem chunksHTR_bytes (h : HashFn) (bs : Bytes) (leaf : Nat → Option Root) (limit : Nat)
    (hleaf : ∀ i, i < (bs.length + 31) / 32 → leaf i = some (chunkOf (bs.drop (32 * i))))
    (hcl : (bs.length + 31) / 32 ≤ limit) (hlim : limit < 2^64) :
    chunksHTR h leaf ((bs.length + 31) / 32) limit = some (merk h (coverDepth limit) (chunks bs)) := by
  unfold chunksHTR chunks
  exact merkleize_spec h _ limit leaf (fun i => chunkOf (bs.drop (32 * i))) hleaf hcl hlim

/-! ### `HashTreeRoot(fields...)` -/

theorem fieldsHTR_spec (h : HashFn) (rs : List Root) (hlen : rs.length < 2^64) :
    fieldsHTR h rs = some (merk h (coverDepth rs.length) rs) := by
  match rs, hlen with
  | [], _ => simp [fieldsHTR, coverDepth, merk]
  | [a], _ => simp [fieldsHTR, coverDepth, merk]
  | [a, b], _ =>
    have : coverDepth 2 = 1 := by decide
    simp [fieldsHTR, this, merk]
  | a :: b :: c :: rest, hlen =>
    have e : fieldsHTR h (a :: b :: c :: rest) =
        merkleize h (a :: b :: c :: rest).length (a :: b :: c :: rest).length
          (fun i => (a :: b :: c :: rest)[i]?) := rfl
    rw [e]
    generalize a :: b :: c :: rest = xs at hlen ⊢
    rw [merkleize_spec h xs.length xs.length _ (fun i => xs.getD i z0) ?_ (Nat.le_refl _) hlen,
      range_map_getD]
    intro i hi
    simp [hi]

/-! ### complex series, mix-in -/

theorem mixinGo_eq (h : HashFn) (v : Root) (n : Nat) : mixinGo h v n = mixin h v n := rfl

theorem complexVectorHTR_spec (h : HashFn) (series : Nat → Option Root) (n : Nat) (hn : n < 2^64) :
    complexVectorHTR h series n =
      some (merk h (coverDepth n) ((List.range n).map fun i => (series i).getD z0)) := by
  unfold complexVectorHTR
  exact merkleize_spec h n n (complexLeaf series) (fun i => (series i).getD z0)
    (fun i _ => rfl) (Nat.le_refl _) hn

theorem complexListHTR_spec (h : HashFn) (series : Nat → Option Root) (n limit : Nat)
    (hnl : n ≤ limit) (hl : limit < 2^64) :
    complexListHTR h series n limit =
      some (mixin h (merk h (coverDepth limit) ((List.range n).map fun i => (series i).getD z0)) n) := by
  unfold complexListHTR
  rw [merkleize_spec h n limit (complexLeaf series) (fun i => (series i).getD z0)
    (fun i _ => rfl) hnl hl]
  rfl

theorem htrList_eq_map (h : HashFn) (e : Ty) (vs : List Val) : htrList h e vs = vs.map (htr h e) := by
  induction vs with
  | nil => simp [htrList]
  | cons v vs ih => simp [htrList, ih]

theorem range_map_getElem?_map {α β} (xs : List α) (f : α → β) (d : β) :
    (List.range xs.length).map (fun i => ((xs[i]?).map f).getD d) = xs.map f := by
  apply List.ext_getElem
  · simp
  · intro i h1 h2
    simp at h1
    simp [h1]

/-! ### uint8 series -/

/-- expected state of the `out` array of the uint8 chunk loop -/
def u8Goal (v : Nat → UInt8) (length base : Nat) (out : Root) (x : Nat) : Root :=
  (List.range 32).map fun y => if x ≤ y ∧ base + y < length then v (base + y) else out.getD y 0

theorem u8Fill_spec (v : Nat → UInt8) (length base : Nat) (hlen : length < 2^64) :
    ∀ fuel x out, out.length = 32 → x + fuel = 33 → x ≤ 32 →
      u8Fill v length fuel x (base + x) out = some (u8Goal v length base out x) := by
  intro fuel
  induction fuel with
  | zero => intro x out _ h1 h2; omega
  | succ fuel ih =>
    intro x out hl h1 h2
    unfold u8Fill
    by_cases hc : x < 32 ∧ base + x < length
    · rw [if_pos hc, if_pos (by omega)]
      have ea : add64 (base + x) 1 = base + (x + 1) := by
        rw [add64_of_lt (by omega)]; omega
      rw [ea, ih (x+1) _ (by simp [hl]) (by omega) (by omega)]
      congr 1
      unfold u8Goal
      apply List.map_congr_left
      intro y hy
      have hy32 : y < 32 := by simpa using hy
      by_cases hyx : y = x
      · subst hyx
        have : ¬ (y + 1 ≤ y ∧ base + y < length) := by omega
        rw [if_neg this, if_pos ⟨Nat.le_refl _, hc.2⟩]
        simp [List.getD_eq_getElem?_getD, hl, hy32]
      · have hset : (out.set x (v (base + x))).getD y 0 = out.getD y 0 := by
          simp only [List.getD_eq_getElem?_getD]
          rw [List.getElem?_set_ne (by omega)]
        rw [hset]
        by_cases hxy : x ≤ y
        · have : x + 1 ≤ y := by omega
          simp [this, hxy]
        · have : ¬ (x + 1 ≤ y) := by omega
          simp [this, hxy]
    · rw [if_neg hc]
      congr 1
      unfold u8Goal
      rw [← map_range_getD_self out hl]
      apply List.map_congr_left
      intro y hy
      have hy32 : y < 32 := by simpa using hy
      have : ¬ (x ≤ y ∧ base + y < length) := by omega
      rw [if_neg this, map_range_getD_self out hl]

theorem z0_length : z0.length = 32 := by simp [z0]

theorem z0_getD (y : Nat) : z0.getD y 0 = 0 := by
  unfold z0
  simp only [List.getD_eq_getElem?_getD, List.getElem?_replicate]
  split <;> rfl

/-- the chunk closure of `Uint8VectorHTR`/`Uint8ListHTR` yields chunk `i` of the byte string -/
theorem u8Chunk_spec (bs : Bytes) (i : Nat) (hlen : bs.length < 2^64) (hi : 32 * i < 2^64) :
    u8Chunk (fun j => bs.getD j 0) bs.length i = some (chunkOf (bs.drop (32 * i))) := by
  unfold u8Chunk
  have es : shl64 i 5 = 32 * i + 0 := by rw [shl64_of_lt (by omega)]; omega
  rw [es, u8Fill_spec _ _ (32 * i) hlen 33 0 z0 z0_length (by omega) (by omega)]
  congr 1
  rw [chunkOf_eq_map]
  unfold u8Goal
  apply List.map_congr_left
  intro y _
  simp only [Nat.zero_le, true_and, z0_getD]
  simp only [List.getD_eq_getElem?_getD, List.getElem?_drop]
  split
  · rfl
  · rename_i hge
    have : bs.length ≤ 32 * i + y := by omega
    simp [this]

theorem shr5 (a : Nat) : a >>> 5 = a / 32 := by rw [Nat.shiftRight_eq_div_pow]
theorem shr2 (a : Nat) : a >>> 2 = a / 4 := by rw [Nat.shiftRight_eq_div_pow]
theorem shr8 (a : Nat) : a >>> 8 = a / 256 := by rw [Nat.shiftRight_eq_div_pow]

theorem uint8VectorHTR_chunks (h : HashFn) (bs : Bytes) (hlen : bs.length + 31 < 2^64) :
    uint8VectorHTR h (fun j => bs.getD j 0) bs.length =
      some (merk h (coverDepth ((bs.length + 31) / 32)) (chunks bs)) := by
  unfold uint8VectorHTR
  simp only [add64_of_lt hlen, shr5]
  apply chunksHTR_bytes h bs _ _ _ (Nat.le_refl _) (by omega)
  intro i hi
  exact u8Chunk_spec bs i (by omega) (by omega)

theorem uint8ListHTR_chunks (h : HashFn) (bs : Bytes) (limit : Nat)
    (hll : bs.length ≤ limit) (hlim : limit + 31 < 2^64) :
    uint8ListHTR h (fun j => bs.getD j 0) bs.length limit =
      some (mixin h (merk h (coverDepth ((limit + 31) / 32)) (chunks bs)) bs.length) := by
  unfold uint8ListHTR
  simp only [add64_of_lt hlim, add64_of_lt (show bs.length + 31 < 2^64 by omega), shr5]
  rw [chunksHTR_bytes h bs _ _ _ (by omega) (by omega)]
  · rfl
  · intro i hi
    exact u8Chunk_spec bs i (by omega) (by omega)

/-! ### byte strings -/

theorem byteChunk_spec (bs : Bytes) (i : Nat) (hi : i < (bs.length + 31) / 32) (hlen : bs.length < 2^64) :
    byteChunk bs i = some (chunkOf (bs.drop (32 * i))) := by
  unfold byteChunk sliceFrom
  have es : shl64 i 5 = 32 * i := by rw [shl64_of_lt (by omega)]; omega
  rw [es, if_pos (by omega)]
  rfl

theorem byteVectorHTR_chunks (h : HashFn) (bs : Bytes) (hlen : bs.length + 31 < 2^64) :
    byteVectorHTR h bs = some (merk h (coverDepth ((bs.length + 31) / 32)) (chunks bs)) := by
  unfold byteVectorHTR
  simp only [add64_of_lt hlen]
  apply chunksHTR_bytes h bs _ _ _ (Nat.le_refl _) (by omega)
  intro i hi
  exact byteChunk_spec bs i hi (by omega)

theorem byteListHTR_chunks (h : HashFn) (bs : Bytes) (limit : Nat)
    (hll : bs.length ≤ limit) (hlim : limit + 31 < 2^64) :
    byteListHTR h bs limit =
      some (mixin h (merk h (coverDepth ((limit + 31) / 32)) (chunks bs)) bs.length) := by
  unfold byteListHTR
  simp only [add64_of_lt hlim, add64_of_lt (show bs.length + 31 < 2^64 by omega)]
  rw [chunksHTR_bytes h bs _ _ _ (by omega) (by omega)]
  · rfl
  · intro i hi
    exact byteChunk_spec bs i hi (by omega)

theorem bitVectorHTR_chunks (h : HashFn) (bs : Bytes) (hlen : bs.length + 31 < 2^64) :
    bitVectorHTR h bs = some (merk h (coverDepth ((bs.length + 31) / 32)) (chunks bs)) := by
  unfold bitVectorHTR
  simp only [add64_of_lt hlen]
  apply chunksHTR_bytes h bs _ _ _ (Nat.le_refl _) (by omega)
  intro i hi
  unfold bitVecChunk
  rw [if_pos hi]
  exact byteChunk_spec bs i hi (by omega)


/-! ### uint64 series -/

theorem flatten_drop_const {α} (c : Nat) : ∀ (ls : List (List α)) (j : Nat),
    (∀ l ∈ ls, l.length = c) → ls.flatten.drop (c * j) = (ls.drop j).flatten := by
  intro ls
  induction ls with
  | nil => intro j _; simp
  | cons l ls ih =>
    intro j hall
    cases j with
    | zero => simp
    | succ j =>
      have hl : l.length = c := hall l (by simp)
      have e : c * (j + 1) = l.length + c * j := by rw [hl, Nat.mul_succ]; omega
      rw [List.flatten_cons, e, List.drop_append, List.drop_of_length_le (by omega)]
      simp only [List.nil_append, List.drop_succ_cons]
      rw [Nat.add_sub_cancel_left]
      exact ih j (fun l' hl' => hall l' (by simp [hl']))

theorem flatten_length_const {α} (c : Nat) : ∀ (ls : List (List α)),
    (∀ l ∈ ls, l.length = c) → ls.flatten.length = c * ls.length := by
  intro ls
  induction ls with
  | nil => intro _; simp
  | cons l ls ih =>
    intro hall
    rw [List.flatten_cons, List.length_append, hall l (by simp),
      ih (fun l' hl' => hall l' (by simp [hl'])), List.length_cons, Nat.mul_succ]
    omega

/-- serialization of a series of uint64 -/
def u64Flat (ns : List Nat) : Bytes := (ns.map (leBytes 8)).flatten

theorem u64Flat_length (ns : List Nat) : (u64Flat ns).length = 8 * ns.length := by
  unfold u64Flat
  rw [flatten_length_const 8 _ (by intro l hl; simp at hl; obtain ⟨a, _, rfl⟩ := hl; simp)]
  simp

theorem u64Flat_drop (ns : List Nat) (j : Nat) :
    (u64Flat ns).drop (8 * j) = ((ns.drop j).map (leBytes 8)).flatten := by
  unfold u64Flat
  rw [flatten_drop_const 8 _ j (by intro l hl; simp at hl; obtain ⟨a, _, rfl⟩ := hl; simp),
    List.map_drop]

theorem u64Fill_spec (ns : List Nat) (hlen : ns.length < 2^64) :
    ∀ fuel k j P, P.length = 8 * k → k + fuel = 5 → k ≤ 4 →
      u64Fill (fun j => ns.getD j 0) ns.length fuel (8 * k) j (P ++ List.replicate (32 - 8 * k) 0) =
        some (P ++ ((((ns.drop j).map (leBytes 8)).flatten ++ List.replicate 32 0).take (32 - 8 * k))) := by
  intro fuel
  induction fuel with
  | zero => intro k j P _ h1 h2; omega
  | succ fuel ih =>
    intro k j P hP h1 h2
    unfold u64Fill
    by_cases hc : 8 * k < 32 ∧ j < ns.length
    · rw [if_pos hc]
      have hput : putU64 (P ++ List.replicate (32 - 8 * k) 0) (8 * k) (ns.getD j 0) =
          some ((P ++ leBytes 8 (ns.getD j 0)) ++ List.replicate (32 - 8 * (k + 1)) 0) := by
        unfold putU64
        rw [if_pos (by simp [hP]; omega)]
        congr 1
        rw [← hP, List.take_left, List.drop_append, List.drop_of_length_le (by omega),
          List.drop_replicate, List.append_assoc, List.nil_append]
        rw [List.append_assoc]
        congr 3
        omega
      simp only [hput]
      have ea : add64 j 1 = j + 1 := add64_of_lt (by omega)
      have e8 : 8 * k + 8 = 8 * (k + 1) := by omega
      rw [ea, e8, ih (k+1) (j+1) _ (by simp [hP]; omega) (by omega) (by omega)]
      congr 1
      rw [List.append_assoc]
      congr 1
      have hj : j < ns.length := hc.2
      have hg : ns.getD j 0 = ns[j] := by simp [hj]
      have hR : ∀ (A B : Bytes), A.length = 8 →
          List.take (32 - 8 * k) (A ++ B) = A ++ List.take (32 - 8 * (k + 1)) B := by
        intro A B hA
        have e : 32 - 8 * k - 8 = 32 - 8 * (k + 1) := by omega
        rw [List.take_append, List.take_of_length_le (by omega), hA, e]
      rw [List.drop_eq_getElem_cons hj, List.map_cons, List.flatten_cons, List.append_assoc,
        hR _ _ (by simp), hg]
    · rw [if_neg hc]
      congr 2
      by_cases hk : k = 4
      · subst hk; simp
      · have hj : ns.length ≤ j := by omega
        rw [List.drop_of_length_le hj]
        simp only [List.map_nil, List.flatten_nil, List.nil_append, List.take_replicate]
        congr 1
        omega

theorem u64Chunk_spec (ns : List Nat) (i : Nat) (hlen : ns.length < 2^64) (hi : 4 * i < 2^64) :
    u64Chunk (fun j => ns.getD j 0) ns.length i = some (chunkOf ((u64Flat ns).drop (32 * i))) := by
  unfold u64Chunk
  have es : shl64 i 2 = 4 * i := by rw [shl64_of_lt (by omega)]; omega
  have := u64Fill_spec ns hlen 5 0 (4 * i) [] rfl (by omega) (by omega)
  simp only [Nat.mul_zero, Nat.sub_zero, List.nil_append] at this
  rw [es]
  have ez : z0 = List.replicate 32 0 := rfl
  rw [ez, this]
  have e32 : 32 * i = 8 * (4 * i) := by omega
  rw [e32, u64Flat_drop]
  rfl

theorem uint64VectorHTR_chunks (h : HashFn) (ns : List Nat) (hlen : ns.length + 3 < 2^64) :
    uint64VectorHTR h (fun j => ns.getD j 0) ns.length =
      some (merk h (coverDepth ((ns.length + 3) / 4)) (chunks (u64Flat ns))) := by
  unfold uint64VectorHTR
  simp only [add64_of_lt hlen, shr2]
  have ec : (ns.length + 3) / 4 = ((u64Flat ns).length + 31) / 32 := by rw [u64Flat_length]; omega
  rw [ec]
  apply chunksHTR_bytes h (u64Flat ns) _ _ _ (Nat.le_refl _) (by omega)
  intro i hi
  exact u64Chunk_spec ns i (by omega) (by omega)

theorem uint64ListHTR_chunks (h : HashFn) (ns : List Nat) (limit : Nat)
    (hll : ns.length ≤ limit) (hlim : limit + 3 < 2^64) :
    uint64ListHTR h (fun j => ns.getD j 0) ns.length limit =
      some (mixin h (merk h (coverDepth ((limit + 3) / 4)) (chunks (u64Flat ns))) ns.length) := by
  unfold uint64ListHTR
  simp only [add64_of_lt hlim, add64_of_lt (show ns.length + 3 < 2^64 by omega), shr2]
  have ec : (ns.length + 3) / 4 = ((u64Flat ns).length + 31) / 32 := by rw [u64Flat_length]; omega
  rw [ec, chunksHTR_bytes h (u64Flat ns) _ _ _ (by omega) (by omega)]
  · rfl
  · intro i hi
    exact u64Chunk_spec ns i (by omega) (by omega)

/-! ### union -/

theorem leBytes_zero (k : Nat) : leBytes k 0 = List.replicate k 0 := by
  induction k with
  | zero => rfl
  | succ k ih => simp [leBytes, ih, List.replicate_succ]

theorem selectorNode_eq (sel : UInt8) : z0.set 0 sel = chunkOf (leBytes 8 sel.toNat) := by
  have h1 : sel.toNat % 256 = sel.toNat := Nat.mod_eq_of_lt sel.toNat_lt
  have h2 : sel.toNat / 256 = 0 := Nat.div_eq_of_lt sel.toNat_lt
  have : leBytes 8 sel.toNat = sel :: List.replicate 7 0 := by
    rw [show (8:Nat) = 7 + 1 from rfl, leBytes, h1, h2, leBytes_zero, UInt8.ofNat_toNat]
  rw [this]
  rfl

theorem unionHTR_spec (h : HashFn) (sel : UInt8) (value : Option Root) :
    unionHTR h sel value = mixin h (value.getD z0) sel.toNat := by
  unfold unionHTR mixin
  rw [selectorNode_eq]
  cases value <;> rfl


/-! ### connection to `htr` of the Spec -/

/-- the SSZ value of a byte string seen as a series of uint8 -/
def u8Vals (bs : Bytes) : List Val := bs.map fun b => Val.num b.toNat

theorem serList_u8 (bs : Bytes) : (serList (.uint 1) (u8Vals bs)).flatten = bs := by
  unfold u8Vals
  induction bs with
  | nil => simp [serList]
  | cons b bs ih =>
    simp only [List.map_cons, serList, serialize, List.flatten_cons, ih]
    simp [leBytes]

theorem serList_u64 (ns : List Nat) : (serList (.uint 8) (ns.map Val.num)).flatten = u64Flat ns := by
  unfold u64Flat
  induction ns with
  | nil => simp [serList]
  | cons n ns ih => simp only [List.map_cons, serList, serialize, List.flatten_cons, ih]

theorem htr_u8Vector (h : HashFn) (bs : Bytes) (n : Nat) :
    htr h (.vector (.uint 1) n) (.seq (u8Vals bs)) = merk h (coverDepth ((n + 31) / 32)) (chunks bs) := by
  simp [htr, Ty.isBasic, Ty.fixedSize, basicChunkCount, serList_u8]

theorem htr_u8List (h : HashFn) (bs : Bytes) (lim : Nat) :
    htr h (.list (.uint 1) lim) (.seq (u8Vals bs)) =
      mixin h (merk h (coverDepth ((lim + 31) / 32)) (chunks bs)) bs.length := by
  have hl : (u8Vals bs).length = bs.length := by simp [u8Vals]
  simp [htr, Ty.isBasic, Ty.fixedSize, basicChunkCount, serList_u8, hl]

theorem htr_u64Vector (h : HashFn) (ns : List Nat) (n : Nat) :
    htr h (.vector (.uint 8) n) (.seq (ns.map Val.num)) =
      merk h (coverDepth ((n + 3) / 4)) (chunks (u64Flat ns)) := by
  have e : (n * 8 + 31) / 32 = (n + 3) / 4 := by omega
  simp [htr, Ty.isBasic, Ty.fixedSize, basicChunkCount, serList_u64, e]

theorem htr_u64List (h : HashFn) (ns : List Nat) (lim : Nat) :
    htr h (.list (.uint 8) lim) (.seq (ns.map Val.num)) =
      mixin h (merk h (coverDepth ((lim + 3) / 4)) (chunks (u64Flat ns))) ns.length := by
  have e : (lim * 8 + 31) / 32 = (lim + 3) / 4 := by omega
  simp [htr, Ty.isBasic, Ty.fixedSize, basicChunkCount, serList_u64, e]

theorem htr_bytesN (h : HashFn) (bs : Bytes) (n : Nat) :
    htr h (.bytesN n) (.bytes bs) = merk h (coverDepth ((n + 31) / 32)) (chunks bs) := by
  simp [htr]

theorem packBits_length (bits : List Bool) : (packBits bits).length = (bits.length + 7) / 8 := by
  simp [packBits]

theorem htr_bitvector (h : HashFn) (bits : List Bool) (n : Nat) :
    htr h (.bitvector n) (.bits bits) = merk h (coverDepth ((n + 255) / 256)) (chunks (packBits bits)) := by
  simp [htr]

theorem htr_bitlist (h : HashFn) (bits : List Bool) (lim : Nat) :
    htr h (.bitlist lim) (.bits bits) =
      mixin h (merk h (coverDepth ((lim + 255) / 256)) (chunks (packBits bits))) bits.length := by
  simp [htr]

theorem htr_container (h : HashFn) (fs : List Ty) (vs : List Val) :
    htr h (.container fs) (.seq vs) = merk h (coverDepth fs.length) (htrFields h fs vs) := by
  simp [htr]

theorem htrFields_length (h : HashFn) : ∀ (fs : List Ty) (vs : List Val), fs.length = vs.length →
    (htrFields h fs vs).length = fs.length := by
  intro fs
  induction fs with
  | nil => intro vs hl; cases vs <;> simp [htrFields] at *
  | cons t ts ih =>
    intro vs hl
    cases vs with
    | nil => simp at hl
    | cons v vs => simp [htrFields, ih vs (by simpa using hl)]

theorem htr_vector_complex (h : HashFn) (e : Ty) (n : Nat) (vs : List Val) (hb : e.isBasic = false) :
    htr h (.vector e n) (.seq vs) = merk h (coverDepth n) (vs.map (htr h e)) := by
  simp [htr, hb, htrList_eq_map]

theorem htr_list_complex (h : HashFn) (e : Ty) (lim : Nat) (vs : List Val) (hb : e.isBasic = false) :
    htr h (.list e lim) (.seq vs) = mixin h (merk h (coverDepth lim) (vs.map (htr h e))) vs.length := by
  simp [htr, hb, htrList_eq_map]

theorem htr_union (h : HashFn) (hasNone : Bool) (opts : List Ty) (sel : Nat) (v : Val) :
    htr h (.union hasNone opts) (.union sel v) =
      mixin h ((match unionOpt hasNone opts sel with
        | some t => some (htr h t v)
        | Option.none => Option.none).getD z0) sel := by
  simp only [htr]
  cases unionOpt hasNone opts sel <;> rfl


/-! ### bitlists: delimiter bit, `BitlistLen`, masking -/

/-- byte-level facts about a delimiter byte `low + 2^r` (`low < 2^r`, `r < 8`), by exhaustion -/
theorem delim_byte : ∀ r, r < 8 → ∀ low, low < 2^r →
    bitIndex (UInt8.ofNat (low + 2^r)) = r ∧
    UInt8.ofNat (low + 2^r) &&& ~~~ ((1 : UInt8) <<< UInt8.ofNat r) = UInt8.ofNat low := by
  decide

/-- value of a little-endian bit string -/
def valBits (bs : List Bool) : Nat := bs.foldr (fun b acc => 2 * acc + (if b then 1 else 0)) 0

theorem byteOfBits_eq (bs : List Bool) : byteOfBits bs = UInt8.ofNat (valBits bs) := rfl

theorem valBits_snoc_true (bs : List Bool) : valBits (bs ++ [true]) = valBits bs + 2^bs.length := by
  induction bs with
  | nil => simp [valBits]
  | cons b bs ih =>
    have : valBits (b :: (bs ++ [true])) = 2 * valBits (bs ++ [true]) + (if b then 1 else 0) := rfl
    rw [List.cons_append, this, ih]
    have : valBits (b :: bs) = 2 * valBits bs + (if b then 1 else 0) := rfl
    rw [this, List.length_cons, Nat.pow_succ]
    omega

theorem valBits_lt (bs : List Bool) : valBits bs < 2^bs.length := by
  induction bs with
  | nil => simp [valBits]
  | cons b bs ih =>
    have : valBits (b :: bs) = 2 * valBits bs + (if b then 1 else 0) := rfl
    rw [this, List.length_cons, Nat.pow_succ]
    split <;> omega

theorem packBits_getD (xs : List Bool) (k : Nat) :
    (packBits xs).getD k 0 = byteOfBits ((xs.drop (8 * k)).take 8) := by
  unfold packBits
  simp only [List.getD_eq_getElem?_getD, List.getElem?_map]
  by_cases hk : k < (xs.length + 7) / 8
  · simp [hk]
  · have : xs.length ≤ 8 * k := by omega
    simp [hk, List.drop_of_length_le this, byteOfBits]

/-- bytes of a delimited bitlist vs. the packed bits without delimiter -/
theorem delimited_getD_ne (bits : List Bool) (g : Nat) (hg : g ≠ bits.length / 8) :
    (packBits (bits ++ [true])).getD g 0 = (packBits bits).getD g 0 := by
  rw [packBits_getD, packBits_getD]
  by_cases hlt : g < bits.length / 8
  · have h8 : 8 * g + 8 ≤ bits.length := by omega
    rw [List.drop_append_of_le_length (by omega), List.take_append_of_le_length (by simp; omega)]
  · have h8 : bits.length + 1 ≤ 8 * g := by omega
    rw [List.drop_of_length_le (by simp; omega), List.drop_of_length_le (by omega)]

theorem delimited_getD_eq (bits : List Bool) :
    ∃ low, low < 2^(bits.length % 8) ∧
      (packBits (bits ++ [true])).getD (bits.length / 8) 0 = UInt8.ofNat (low + 2^(bits.length % 8)) ∧
      (packBits bits).getD (bits.length / 8) 0 = UInt8.ofNat low := by
  have hT : (bits.drop (8 * (bits.length / 8))).length = bits.length % 8 := by
    rw [List.length_drop]; omega
  refine ⟨valBits (bits.drop (8 * (bits.length / 8))), ?_, ?_, ?_⟩
  · rw [← hT]; exact valBits_lt _
  · rw [packBits_getD, List.drop_append_of_le_length (by omega),
      List.take_of_length_le (by simp [hT]; omega), byteOfBits_eq, valBits_snoc_true, hT]
  · rw [packBits_getD, List.take_of_length_le (by omega), byteOfBits_eq]

theorem bitlistLen_delimited (bits : List Bool) (hlen : bits.length < 2^64) :
    bitlistLen (packBits (bits ++ [true])) = bits.length := by
  unfold bitlistLen
  have hl : (packBits (bits ++ [true])).length = bits.length / 8 + 1 := by
    rw [packBits_length]; simp; omega
  rw [hl]
  simp only [Nat.add_one_ne_zero, if_false, Nat.add_sub_cancel]
  obtain ⟨low, hlow, e1, _⟩ := delimited_getD_eq bits
  have hr : bits.length % 8 < 8 := Nat.mod_lt _ (by omega)
  rw [e1, (delim_byte _ hr low hlow).1, shl64_of_lt (by omega)]
  have := Nat.shiftLeft_add_eq_or_of_lt (i := 3) (b := bits.length % 8) (by omega) (bits.length / 8)
  rw [Nat.shiftLeft_eq] at this
  rw [← this]
  omega

theorem chunkOf_drop_eq (bs : Bytes) (m : Nat) :
    chunkOf (bs.drop m) = (List.range 32).map (fun y => bs.getD (m + y) 0) := by
  rw [chunkOf_eq_map]
  apply List.map_congr_left
  intro y _
  simp [List.getD_eq_getElem?_getD, List.getElem?_drop]

theorem map_range_set {α} (f : Nat → α) (n k : Nat) (v : α) :
    ((List.range n).map f).set k v = (List.range n).map (fun y => if y = k then v else f y) := by
  apply List.ext_getElem
  · simp
  · intro i h1 h2
    simp at h1
    rw [List.getElem_set]
    by_cases hik : k = i
    · subst hik; simp
    · have : ¬ i = k := fun e => hik e.symm
      simp [hik, this]

theorem shr3 (a : Nat) : a >>> 3 = a / 8 := by rw [Nat.shiftRight_eq_div_pow]
theorem and_ff (n : Nat) : n &&& 0xff = n % 256 := Nat.and_two_pow_sub_one_eq_mod n 8
theorem and_7 (n : Nat) : n &&& 0x7 = n % 8 := Nat.and_two_pow_sub_one_eq_mod n 3

/-- the chunk closure of `BitListHTR` on a delimited bitlist yields the chunks of the packed
    bits without the delimiter -/
theorem bitListChunk_spec (bits : List Bool) (i : Nat) (hlen : bits.length + 255 < 2^64)
    (hi : i < (bits.length + 255) / 256) :
    bitListChunk (packBits (bits ++ [true])) bits.length ((bits.length + 255) / 256) i =
      some (chunkOf ((packBits bits).drop (32 * i))) := by
  unfold bitListChunk
  rw [if_pos hi]
  have hl : (packBits (bits ++ [true])).length = bits.length / 8 + 1 := by
    rw [packBits_length]; simp; omega
  have hbc : byteChunk (packBits (bits ++ [true])) i =
      some (chunkOf ((packBits (bits ++ [true])).drop (32 * i))) := by
    unfold byteChunk sliceFrom
    have es : shl64 i 5 = 32 * i := by rw [shl64_of_lt (by omega)]; omega
    rw [es, if_pos (by rw [hl]; omega)]
    rfl
  rw [hbc]
  simp only [Option.bind_eq_bind, Option.bind_some]
  have es : shl64 (add64 i 1) 8 = (i + 1) * 256 := by
    rw [add64_of_lt (by omega), shl64_of_lt (by omega)]
  rw [es, chunkOf_drop_eq, chunkOf_drop_eq]
  by_cases hm : (i + 1) * 256 > bits.length
  · rw [if_pos hm]
    unfold clearBit
    rw [and_ff, and_7, shr3]
    have hk : bits.length % 256 / 8 < 32 := by omega
    rw [if_pos (by simpa using hk), map_range_set]
    congr 1
    apply List.map_congr_left
    intro y hy
    have hy32 : y < 32 := by simpa using hy
    have hq : bits.length / 8 = 32 * i + bits.length % 256 / 8 := by omega
    obtain ⟨low, hlow, e1, e2⟩ := delimited_getD_eq bits
    have hr : bits.length % 8 < 8 := Nat.mod_lt _ (by omega)
    by_cases hyk : y = bits.length % 256 / 8
    · rw [if_pos hyk]
      have hg : (List.map (fun y => (packBits (bits ++ [true])).getD (32 * i + y) 0) (List.range 32)).getD
          (bits.length % 256 / 8) 0 = (packBits (bits ++ [true])).getD (bits.length / 8) 0 := by
        simp only [List.getD_eq_getElem?_getD, List.getElem?_map, List.getElem?_range hk]
        simp [hq]
      rw [hg, e1, (delim_byte _ hr low hlow).2, hyk, ← hq, e2]
    · rw [if_neg hyk]
      exact delimited_getD_ne bits _ (by omega)
  · rw [if_neg hm]
    congr 1
    apply List.map_congr_left
    intro y hy
    have hy32 : y < 32 := by simpa using hy
    exact delimited_getD_ne bits _ (by omega)

theorem bitListHTR_chunks (h : HashFn) (bits : List Bool) (lim : Nat)
    (hll : bits.length ≤ lim) (hlim : lim + 255 < 2^64) :
    bitListHTR h (packBits (bits ++ [true])) lim =
      some (mixin h (merk h (coverDepth ((lim + 255) / 256)) (chunks (packBits bits))) bits.length) := by
  unfold bitListHTR
  rw [bitlistLen_delimited bits (by omega)]
  simp only [add64_of_lt hlim, add64_of_lt (show bits.length + 255 < 2^64 by omega), shr8]
  have ec : (bits.length + 255) / 256 = ((packBits bits).length + 31) / 32 := by
    rw [packBits_length]; omega
  have hleaf : ∀ i, i < ((packBits bits).length + 31) / 32 →
      bitListChunk (packBits (bits ++ [true])) bits.length ((bits.length + 255) / 256) i =
        some (chunkOf ((packBits bits).drop (32 * i))) := by
    intro i hi
    exact bitListChunk_spec bits i (by omega) (by omega)
  rw [show (bits.length + 255) / 256 = ((packBits bits).length + 31) / 32 from ec] at hleaf ⊢
  rw [chunksHTR_bytes h (packBits bits) _ _ hleaf (by omega) (by omega)]
  rfl


end ZtypV.Mk
