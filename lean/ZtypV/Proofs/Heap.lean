/-
Helper lemmas about Model H (heap machine).  Core Lean only.
-/
import ZtypV.Model.Heap
namespace ZtypV.H

/-! ### cells up to memo -/

theorem erase_pair_inv {c : Cell} {m : Root} {l r : Nat}
    (e : c.erase = (Cell.pair m l r).erase) : ∃ m', c = Cell.pair m' l r := by
  cases c with
  | leaf _ => simp [Cell.erase] at e
  | pair m' l' r' =>
    simp only [Cell.erase, Cell.pair.injEq, true_and] at e
    exact ⟨m', by rw [e.1, e.2]⟩

theorem erase_leaf_inv {c : Cell} {r : Root}
    (e : c.erase = (Cell.leaf r).erase) : c = Cell.leaf r := by
  cases c with
  | leaf r' => simpa [Cell.erase] using e
  | pair _ _ _ => simp [Cell.erase] at e

theorem get_pair_of_erase {hp hp' : Heap} {a : Nat} {m : Root} {l r : Nat}
    (e : (hp'[a]?).map Cell.erase = (hp[a]?).map Cell.erase)
    (ha : hp[a]? = some (Cell.pair m l r)) : ∃ m', hp'[a]? = some (Cell.pair m' l r) := by
  rw [ha] at e
  cases hb : hp'[a]? with
  | none => rw [hb] at e; simp at e
  | some c =>
    rw [hb] at e
    simp only [Option.map_some, Option.some.injEq] at e
    obtain ⟨m', rfl⟩ := erase_pair_inv e
    exact ⟨m', rfl⟩

theorem get_leaf_of_erase {hp hp' : Heap} {a : Nat} {r : Root}
    (e : (hp'[a]?).map Cell.erase = (hp[a]?).map Cell.erase)
    (ha : hp[a]? = some (Cell.leaf r)) : hp'[a]? = some (Cell.leaf r) := by
  rw [ha] at e
  cases hb : hp'[a]? with
  | none => rw [hb] at e; simp at e
  | some c =>
    rw [hb] at e
    simp only [Option.map_some, Option.some.injEq] at e
    rw [erase_leaf_inv e]

theorem get_none_of_erase {hp hp' : Heap} {a : Nat}
    (e : (hp'[a]?).map Cell.erase = (hp[a]?).map Cell.erase)
    (ha : hp[a]? = none) : hp'[a]? = none := by
  rw [ha] at e
  cases hb : hp'[a]? with
  | none => rfl
  | some c => rw [hb] at e; simp at e

/-! ### SameStruct -/

theorem SameStruct.get {hp hp' : Heap} (hs : SameStruct hp hp') (a : Nat) :
    (hp[a]?).map Cell.erase = (hp'[a]?).map Cell.erase := by
  have := congrArg (fun x => x[a]?) hs
  simpa using this

theorem SameStruct.size_eq {hp hp' : Heap} (hs : SameStruct hp hp') : hp.size = hp'.size := by
  have := congrArg Array.size hs
  simpa using this

theorem SameStruct.refl (hp : Heap) : SameStruct hp hp := rfl
theorem SameStruct.symm {hp hp' : Heap} (hs : SameStruct hp hp') : SameStruct hp' hp := Eq.symm hs
theorem SameStruct.trans {a b c : Heap} (h1 : SameStruct a b) (h2 : SameStruct b c) :
    SameStruct a c := Eq.trans h1 h2

theorem sameStruct_of_get {hp hp' : Heap}
    (e : ∀ a : Nat, (hp[a]?).map Cell.erase = (hp'[a]?).map Cell.erase) : SameStruct hp hp' := by
  unfold SameStruct
  apply Array.ext_getElem?
  intro i
  simpa using e i

theorem absF_sameStruct {hp hp' : Heap} (hs : SameStruct hp hp') :
    ∀ f a, absF f hp a = absF f hp' a := by
  intro f
  induction f with
  | zero => intro a; rfl
  | succ f ih =>
    intro a
    have e := (hs.get a).symm
    unfold absF
    cases ha : hp[a]? with
    | none => rw [get_none_of_erase e ha]
    | some c =>
      cases c with
      | leaf r => rw [get_leaf_of_erase e ha]
      | pair m l r =>
        obtain ⟨m', hb⟩ := get_pair_of_erase e ha
        rw [hb]
        simp only [ih]

theorem absNode_sameStruct {hp hp' : Heap} (hs : SameStruct hp hp') (a : Nat) :
    absNode hp a = absNode hp' a := absF_sameStruct hs _ a

theorem pureRoot_sameStruct (h : HashFn) {hp hp' : Heap} (hs : SameStruct hp hp') (a : Nat) :
    pureRoot h hp a = pureRoot h hp' a := by
  unfold pureRoot; rw [absNode_sameStruct hs]

theorem sameStruct_set {hp : Heap} {a : Nat} {m v : Root} {l r : Nat}
    (ha : hp[a]? = some (Cell.pair m l r)) :
    SameStruct hp (hp.setIfInBounds a (Cell.pair v l r)) := by
  apply sameStruct_of_get
  intro i
  rw [Array.getElem?_setIfInBounds]
  by_cases hi : a = i
  · subst hi
    obtain ⟨hlt, hget⟩ := Array.getElem?_eq_some_iff.mp ha
    simp [hlt, hget, Cell.erase]
  · simp [hi]

theorem WF_sameStruct {hp hp' : Heap} (hs : SameStruct hp hp') (hw : WF hp) : WF hp' := by
  intro a m l r ha
  obtain ⟨m', hb⟩ := get_pair_of_erase (hs.get a) ha
  exact hw a m' l r hb

/-! ### rootH: structure -/

theorem rootH_sameStruct (h : HashFn) : ∀ f hp a, SameStruct hp (rootH h f hp a).2.1 := by
  intro f
  induction f with
  | zero => intro hp a; rfl
  | succ f ih =>
    intro hp a
    unfold rootH
    cases ha : hp[a]? with
    | none => rfl
    | some c =>
      cases c with
      | leaf r => rfl
      | pair m l r =>
        simp only
        split
        · rfl
        · have s1 := ih hp l
          have s2 := ih (rootH h f hp l).2.1 r
          have s12 : SameStruct hp _ := s1.trans s2
          obtain ⟨m', hc2⟩ := get_pair_of_erase (s12.get a).symm ha
          exact s12.trans (sameStruct_set hc2)

theorem rootH_size (h : HashFn) (f : Nat) (hp : Heap) (a : Nat) :
    (rootH h f hp a).2.1.size = hp.size := (rootH_sameStruct h f hp a).size_eq.symm

/-! ### fuel -/

theorem absF_fuel {hp : Heap} (hw : WF hp) :
    ∀ f f' a, a < f → a < f' → absF f hp a = absF f' hp a := by
  intro f
  induction f with
  | zero => intro f' a h1; omega
  | succ f ih =>
    intro f' a h1 h2
    cases f' with
    | zero => omega
    | succ f' =>
      unfold absF
      cases ha : hp[a]? with
      | none => rfl
      | some c =>
        cases c with
        | leaf r => rfl
        | pair m l r =>
          have := hw a m l r ha
          simp only
          rw [ih f' l (by omega) (by omega), ih f' r (by omega) (by omega)]

theorem absNode_pair {hp : Heap} (hw : WF hp) {a : Nat} {m : Root} {l r : Nat}
    (ha : hp[a]? = some (Cell.pair m l r)) :
    absNode hp a = .pair (absNode hp l) (absNode hp r) := by
  have := hw a m l r ha
  unfold absNode
  rw [absF, ha]
  simp only
  rw [absF_fuel hw a (l+1) l (by omega) (by omega), absF_fuel hw a (r+1) r (by omega) (by omega)]

theorem absNode_leaf {hp : Heap} {a : Nat} {r : Root}
    (ha : hp[a]? = some (Cell.leaf r)) : absNode hp a = .leaf r := by
  unfold absNode
  rw [absF, ha]

theorem absF_eq_absNode {hp : Heap} (hw : WF hp) {f a : Nat} (hlt : a < f) :
    absF f hp a = absNode hp a := absF_fuel hw f (a+1) a hlt (by omega)

theorem pureRoot_pair (h : HashFn) {hp : Heap} (hw : WF hp) {a : Nat} {m : Root} {l r : Nat}
    (ha : hp[a]? = some (Cell.pair m l r)) :
    pureRoot h hp a = h (pureRoot h hp l) (pureRoot h hp r) := by
  unfold pureRoot; rw [absNode_pair hw ha]; rfl

theorem pureRoot_leaf (h : HashFn) {hp : Heap} {a : Nat} {r : Root}
    (ha : hp[a]? = some (Cell.leaf r)) : pureRoot h hp a = r := by
  unfold pureRoot; rw [absNode_leaf ha]; rfl

/-! ### rootH: correctness whatever the memo state (C06 core) -/

theorem memoValid_sameStruct_of {h : HashFn} {hp hp' : Heap} (hs : SameStruct hp hp')
    (hv : ∀ (a : Nat) (m : Root) (l r : Nat), hp'[a]? = some (Cell.pair m l r) → m ≠ z0 →
      m = h (pureRoot h hp l) (pureRoot h hp r)) : MemoValid h hp' := by
  intro a m l r ha hm
  rw [← pureRoot_sameStruct h hs l, ← pureRoot_sameStruct h hs r]
  exact hv a m l r ha hm

theorem rootH_correct (h : HashFn) : ∀ f hp a, WF hp → MemoValid h hp → a < f →
    (rootH h f hp a).1 = pureRoot h hp a ∧ MemoValid h (rootH h f hp a).2.1 := by
  intro f
  induction f with
  | zero => intro hp a _ _ hlt; omega
  | succ f ih =>
    intro hp a hw hm hlt
    unfold rootH
    cases ha : hp[a]? with
    | none =>
      refine ⟨?_, hm⟩
      simp only [pureRoot, absNode, absF, ha]; rfl
    | some c =>
      cases c with
      | leaf r => exact ⟨(pureRoot_leaf h ha).symm, hm⟩
      | pair m l r =>
        have hlr := hw a m l r ha
        simp only
        split
        · rename_i hm0
          refine ⟨?_, hm⟩
          rw [pureRoot_pair h hw ha]
          exact hm a m l r ha hm0
        · have s1 := rootH_sameStruct h f hp l
          have hw1 := WF_sameStruct s1 hw
          obtain ⟨e1, m1⟩ := ih hp l hw hm (by omega)
          have s2 := rootH_sameStruct h f (rootH h f hp l).2.1 r
          obtain ⟨e2, m2⟩ := ih (rootH h f hp l).2.1 r hw1 m1 (by omega)
          have s12 : SameStruct hp _ := s1.trans s2
          have hval : h (rootH h f hp l).1 (rootH h f (rootH h f hp l).2.1 r).1
              = h (pureRoot h hp l) (pureRoot h hp r) := by
            rw [e1, e2, ← pureRoot_sameStruct h s1 r]
          refine ⟨by rw [pureRoot_pair h hw ha]; exact hval, ?_⟩
          obtain ⟨m', hc2⟩ := get_pair_of_erase (s12.get a).symm ha
          have s3 := sameStruct_set
            (v := h (rootH h f hp l).1 (rootH h f (rootH h f hp l).2.1 r).1) hc2
          apply memoValid_sameStruct_of (s12.trans s3)
          intro x mx lx rx hx hmx
          obtain ⟨hlt2, _⟩ := Array.getElem?_eq_some_iff.mp hc2
          rw [Array.getElem?_setIfInBounds] at hx
          by_cases hxa : a = x
          · subst hxa
            simp only [hlt2, if_true, Option.some.injEq, Cell.pair.injEq] at hx
            obtain ⟨rfl, rfl, rfl⟩ := hx
            exact hval
          · simp only [hxa, if_false] at hx
            have := m2 x mx lx rx hx hmx
            rw [this, ← pureRoot_sameStruct h s12 lx, ← pureRoot_sameStruct h s12 rx]

/-! ### extension of heaps -/

theorem Ext.refl (hp : Heap) : Ext hp hp := ⟨Nat.le_refl _, fun _ _ => rfl⟩

theorem Ext.trans {a b c : Heap} (h1 : Ext a b) (h2 : Ext b c) : Ext a c :=
  ⟨Nat.le_trans h1.1 h2.1, fun x hx => by
    rw [h2.2 x (Nat.lt_of_lt_of_le hx h1.1), h1.2 x hx]⟩

theorem ext_of_sameStruct {hp hp' : Heap} (hs : SameStruct hp hp') : Ext hp hp' :=
  ⟨Nat.le_of_eq hs.size_eq, fun x _ => (hs.get x).symm⟩

theorem get_push_lt {hp : Heap} (c : Cell) {x : Nat} (hx : x < hp.size) :
    (hp.push c)[x]? = hp[x]? := by
  rw [Array.getElem?_push]
  have : ¬ x = hp.size := by omega
  simp [this]

theorem get_push_size (hp : Heap) (c : Cell) : (hp.push c)[hp.size]? = some c := by
  rw [Array.getElem?_push]; simp

theorem get_push_gt {hp : Heap} (c : Cell) {x : Nat} (hx : hp.size < x) :
    (hp.push c)[x]? = none := by
  apply Array.getElem?_eq_none
  simp only [Array.size_push]; omega

theorem ext_push (hp : Heap) (c : Cell) : Ext hp (hp.push c) :=
  ⟨by simp, fun x hx => by rw [get_push_lt c hx]⟩

theorem get_lt_size {hp : Heap} {a : Nat} {c : Cell} (ha : hp[a]? = some c) : a < hp.size :=
  (Array.getElem?_eq_some_iff.mp ha).1

theorem get_some_of_lt {hp : Heap} {a : Nat} (ha : a < hp.size) : ∃ c, hp[a]? = some c :=
  ⟨hp[a], Array.getElem?_eq_getElem ha⟩

theorem WF_push_leaf {hp : Heap} (hw : WF hp) (r : Root) : WF (hp.push (.leaf r)) := by
  intro a m l r' ha
  by_cases h1 : a < hp.size
  · rw [get_push_lt _ h1] at ha; exact hw a m l r' ha
  · by_cases h2 : a = hp.size
    · subst h2; rw [get_push_size] at ha; simp at ha
    · rw [get_push_gt _ (by omega)] at ha; simp at ha

theorem WF_push_pair {hp : Heap} (hw : WF hp) {l r : Nat} (hl : l < hp.size) (hr : r < hp.size)
    (m : Root) : WF (hp.push (.pair m l r)) := by
  intro a m' l' r' ha
  by_cases h1 : a < hp.size
  · rw [get_push_lt _ h1] at ha; exact hw a m' l' r' ha
  · by_cases h2 : a = hp.size
    · subst h2; rw [get_push_size] at ha
      simp only [Option.some.injEq, Cell.pair.injEq] at ha
      obtain ⟨_, rfl, rfl⟩ := ha
      exact ⟨hl, hr⟩
    · rw [get_push_gt _ (by omega)] at ha; simp at ha

/-- old nodes denote the same pure tree in an extended heap -/
theorem absF_ext {hp hp' : Heap} (hw : WF hp) (he : Ext hp hp') :
    ∀ f x, x < hp.size → absF f hp' x = absF f hp x := by
  intro f
  induction f with
  | zero => intro x _; rfl
  | succ f ih =>
    intro x hx
    have e := he.2 x hx
    obtain ⟨c, hc⟩ := get_some_of_lt hx
    unfold absF
    cases c with
    | leaf r => rw [get_leaf_of_erase e hc, hc]
    | pair m l r =>
      obtain ⟨m', hb⟩ := get_pair_of_erase e hc
      have := hw x m l r hc
      rw [hb, hc]
      simp only
      rw [ih l (by omega), ih r (by omega)]

theorem absNode_ext {hp hp' : Heap} (hw : WF hp) (he : Ext hp hp') {x : Nat} (hx : x < hp.size) :
    absNode hp' x = absNode hp x := absF_ext hw he _ x hx

theorem pureRoot_ext (h : HashFn) {hp hp' : Heap} (hw : WF hp) (he : Ext hp hp') {x : Nat}
    (hx : x < hp.size) : pureRoot h hp' x = pureRoot h hp x := by
  unfold pureRoot; rw [absNode_ext hw he hx]

theorem memoValid_push {h : HashFn} {hp : Heap} (hw : WF hp) (hm : MemoValid h hp) (c : Cell)
    (hc : ∀ m l r, c = Cell.pair m l r → m = z0) : MemoValid h (hp.push c) := by
  intro a m l r ha hm0
  by_cases h1 : a < hp.size
  · rw [get_push_lt _ h1] at ha
    have := hw a m l r ha
    rw [pureRoot_ext h hw (ext_push hp c) (by omega), pureRoot_ext h hw (ext_push hp c) (by omega)]
    exact hm a m l r ha hm0
  · by_cases h2 : a = hp.size
    · subst h2; rw [get_push_size] at ha
      simp only [Option.some.injEq] at ha
      exact absurd (hc m l r ha) hm0
    · rw [get_push_gt _ (by omega)] at ha; simp at ha

/-! ### run: frame (C05 core) and memo validity (C06 core) -/

theorem run_frame (h : HashFn) {p : Prog α} (hnp : NoPoke p) :
    ∀ hp, WF hp → WF (run h p hp).2.1 ∧ Ext hp (run h p hp).2.1 := by
  induction hnp with
  | ret a => intro hp hw; exact ⟨hw, Ext.refl hp⟩
  | allocLeaf r k _ ih =>
    intro hp hw
    obtain ⟨w, e⟩ := ih hp.size (hp.push (.leaf r)) (WF_push_leaf hw r)
    exact ⟨w, (ext_push hp _).trans e⟩
  | allocPair l r k _ ih =>
    intro hp hw
    unfold run
    split
    · rename_i hlr
      obtain ⟨w, e⟩ := ih hp.size (hp.push (.pair z0 l r)) (WF_push_pair hw hlr.1 hlr.2 z0)
      exact ⟨w, (ext_push hp _).trans e⟩
    · exact ⟨hw, Ext.refl hp⟩
  | read a k _ ih =>
    intro hp hw
    unfold run
    split
    · exact ih none hp hw
    · exact ih _ hp hw
  | root a k _ ih =>
    intro hp hw
    unfold run
    split
    · have s := rootH_sameStruct h (a+1) hp a
      obtain ⟨w, e⟩ := ih (rootH h (a+1) hp a).1 _ (WF_sameStruct s hw)
      exact ⟨w, (ext_of_sameStruct s).trans e⟩
    · exact ⟨hw, Ext.refl hp⟩

theorem run_memoValid (h : HashFn) {p : Prog α} (hnp : NoPoke p) :
    ∀ hp, WF hp → MemoValid h hp → MemoValid h (run h p hp).2.1 := by
  induction hnp with
  | ret a => intro hp _ hm; exact hm
  | allocLeaf r k _ ih =>
    intro hp hw hm
    exact ih hp.size _ (WF_push_leaf hw r) (memoValid_push hw hm _ (by intro m l r' e; cases e))
  | allocPair l r k _ ih =>
    intro hp hw hm
    unfold run
    split
    · rename_i hlr
      exact ih hp.size _ (WF_push_pair hw hlr.1 hlr.2 z0)
        (memoValid_push hw hm _ (by intro m l' r' e; cases e; rfl))
    · exact hm
  | read a k _ ih =>
    intro hp hw hm
    unfold run
    split
    · exact ih none hp hw hm
    · exact ih _ hp hw hm
  | root a k _ ih =>
    intro hp hw hm
    unfold run
    split
    · have s := rootH_sameStruct h (a+1) hp a
      exact ih _ _ (WF_sameStruct s hw) (rootH_correct h (a+1) hp a hw hm (by omega)).2
    · exact hm

/-! ### equations of `run` -/

theorem run_allocPair_ok (h : HashFn) {l r : Nat} (k : Nat → Prog α) {hp : Heap}
    (hl : l < hp.size) (hr : r < hp.size) :
    run h (.allocPair l r k) hp =
      ((run h (k hp.size) (hp.push (.pair z0 l r))).1, (run h (k hp.size) (hp.push (.pair z0 l r))).2.1,
        Trace.one hp.size .write ++ (run h (k hp.size) (hp.push (.pair z0 l r))).2.2) := by
  rw [run]; simp only [hl, hr, and_self, if_true]

theorem run_allocPair_bad (h : HashFn) {l r : Nat} (k : Nat → Prog α) {hp : Heap}
    (hlr : ¬ (l < hp.size ∧ r < hp.size)) :
    run h (.allocPair l r k) hp = (none, hp, Trace.nil) := by
  rw [run]; simp only [hlr, if_false]

theorem run_read_none (h : HashFn) {a : Nat} (k : Option (Sum Root (Nat × Nat)) → Prog α) {hp : Heap}
    (ha : hp[a]? = none) : run h (.read a k) hp = run h (k none) hp := by
  rw [run]; simp only [ha]

theorem run_read_some (h : HashFn) {a : Nat} (k : Option (Sum Root (Nat × Nat)) → Prog α) {hp : Heap}
    {c : Cell} (ha : hp[a]? = some c) :
    run h (.read a k) hp =
      ((run h (k (some (view c))) hp).1, (run h (k (some (view c))) hp).2.1,
        Trace.one a .read ++ (run h (k (some (view c))) hp).2.2) := by
  rw [run]; simp only [ha]

theorem run_root_ok (h : HashFn) {a : Nat} (k : Root → Prog α) {hp : Heap} (ha : a < hp.size) :
    run h (.root a k) hp =
      ((run h (k (rootH h (a+1) hp a).1) (rootH h (a+1) hp a).2.1).1,
       (run h (k (rootH h (a+1) hp a).1) (rootH h (a+1) hp a).2.1).2.1,
       (rootH h (a+1) hp a).2.2 ++ (run h (k (rootH h (a+1) hp a).1) (rootH h (a+1) hp a).2.1).2.2) := by
  rw [run]; simp only [ha, if_true]

theorem run_root_bad (h : HashFn) {a : Nat} (k : Root → Prog α) {hp : Heap} (ha : ¬ a < hp.size) :
    run h (.root a k) hp = (none, hp, Trace.nil) := by
  rw [run]; simp only [ha, if_false]

/-! ### results do not depend on the memo state, nor on extra root requests (C06 core) -/

theorem view_of_erase {c c' : Cell} (e : c.erase = c'.erase) : view c = view c' := by
  cases c <;> cases c' <;> simp [Cell.erase] at e <;> simp [view, e]

theorem sameStruct_push {hp hp' : Heap} (hs : SameStruct hp hp') (c : Cell) :
    SameStruct (hp.push c) (hp'.push c) := by
  unfold SameStruct at *
  rw [Array.map_push, Array.map_push, hs]

theorem RootEdit.refl {p : Prog α} (hnp : NoPoke p) : ∀ n, RootEdit n p p := by
  induction hnp with
  | ret a => intro n; exact .ret n a
  | allocLeaf r k _ ih => intro n; exact .allocLeaf n r k k (ih n (n+1))
  | allocPair l r k _ ih => intro n; exact .allocPair n l r k k (fun _ _ => ih n (n+1))
  | read a k _ ih => intro n; exact .read n a k k (fun c => ih c n)
  | root a k _ ih => intro n; exact .root n a k k (fun v => ih v n)

theorem run_rootEdit (h : HashFn) {n : Nat} {p p' : Prog α} (he : RootEdit n p p') :
    ∀ hp hp', hp.size = n → WF hp → WF hp' → SameStruct hp hp' → MemoValid h hp → MemoValid h hp' →
      (run h p hp).1 = (run h p' hp').1 ∧ SameStruct (run h p hp).2.1 (run h p' hp').2.1 := by
  induction he with
  | ret n a => intro hp hp' _ _ _ hs _ _; exact ⟨rfl, hs⟩
  | ins n x p p' hx _ ih =>
    intro hp hp' hn hw hw' hs hm hm'
    have hx' : x < hp'.size := by rw [← hs.size_eq]; omega
    rw [run_root_ok h _ hx']
    have s := rootH_sameStruct h (x+1) hp' x
    exact ih hp _ hn hw (WF_sameStruct s hw') (hs.trans s) hm
      (rootH_correct h (x+1) hp' x hw' hm' (by omega)).2
  | del n x p p' hx _ ih =>
    intro hp hp' hn hw hw' hs hm hm'
    have hx' : x < hp.size := by omega
    rw [run_root_ok h _ hx']
    have s := rootH_sameStruct h (x+1) hp x
    exact ih _ hp' (by rw [rootH_size]; exact hn) (WF_sameStruct s hw) hw' (s.symm.trans hs)
      (rootH_correct h (x+1) hp x hw hm (by omega)).2 hm'
  | allocLeaf n r k k' _ ih =>
    intro hp hp' hn hw hw' hs hm hm'
    have hsz := hs.size_eq
    have := ih (hp.push (.leaf r)) (hp'.push (.leaf r)) (by simp [hn]) (WF_push_leaf hw r)
      (WF_push_leaf hw' r) (sameStruct_push hs _)
      (memoValid_push hw hm _ (by intro m l r' e; cases e))
      (memoValid_push hw' hm' _ (by intro m l r' e; cases e))
    rw [run, run, ← hsz, hn]
    exact this
  | allocPair n l r k k' _ ih =>
    intro hp hp' hn hw hw' hs hm hm'
    have hsz := hs.size_eq
    by_cases hlr : l < hp.size ∧ r < hp.size
    · have hlr' : l < hp'.size ∧ r < hp'.size := by rw [← hsz]; exact hlr
      rw [run_allocPair_ok h k hlr.1 hlr.2, run_allocPair_ok h k' hlr'.1 hlr'.2, ← hsz, hn]
      exact ih (by omega) (by omega) (hp.push (.pair z0 l r)) (hp'.push (.pair z0 l r)) (by simp [hn])
        (WF_push_pair hw hlr.1 hlr.2 z0) (WF_push_pair hw' hlr'.1 hlr'.2 z0) (sameStruct_push hs _)
        (memoValid_push hw hm _ (by intro m l' r' e; cases e; rfl))
        (memoValid_push hw' hm' _ (by intro m l' r' e; cases e; rfl))
    · have hlr' : ¬ (l < hp'.size ∧ r < hp'.size) := by rw [← hsz]; exact hlr
      rw [run_allocPair_bad h k hlr, run_allocPair_bad h k' hlr']
      exact ⟨rfl, hs⟩
  | read n a k k' _ ih =>
    intro hp hp' hn hw hw' hs hm hm'
    have e := hs.get a
    cases ha : hp[a]? with
    | none =>
      have ha' := get_none_of_erase e.symm ha
      rw [run_read_none h k ha, run_read_none h k' ha']
      exact ih none hp hp' hn hw hw' hs hm hm'
    | some c =>
      cases ha' : hp'[a]? with
      | none => rw [ha, ha'] at e; simp at e
      | some c' =>
        rw [ha, ha'] at e
        simp only [Option.map_some, Option.some.injEq] at e
        rw [run_read_some h k ha, run_read_some h k' ha', view_of_erase e]
        exact ih _ hp hp' hn hw hw' hs hm hm'
  | root n a k k' _ ih =>
    intro hp hp' hn hw hw' hs hm hm'
    have hsz := hs.size_eq
    by_cases ha : a < hp.size
    · have ha' : a < hp'.size := by omega
      rw [run_root_ok h k ha, run_root_ok h k' ha']
      have s := rootH_sameStruct h (a+1) hp a
      have s' := rootH_sameStruct h (a+1) hp' a
      obtain ⟨e1, m1⟩ := rootH_correct h (a+1) hp a hw hm (by omega)
      obtain ⟨e2, m2⟩ := rootH_correct h (a+1) hp' a hw' hm' (by omega)
      rw [e1, e2, ← pureRoot_sameStruct h hs a]
      exact ih _ _ _ (by rw [rootH_size]; exact hn) (WF_sameStruct s hw) (WF_sameStruct s' hw')
        ((s.symm.trans hs).trans s') m1 m2
    · have ha' : ¬ a < hp'.size := by omega
      rw [run_root_bad h k ha, run_root_bad h k' ha']
      exact ⟨rfl, hs⟩

/-! ### the old part of a heap after a run (copy detachment, C05) -/

theorem get_prefix {hp : Heap} {n x : Nat} (hn : n ≤ hp.size) :
    (hp.extract 0 n)[x]? = if x < n then hp[x]? else none := by
  rw [Array.getElem?_extract]
  have : min n hp.size - 0 = n := by omega
  rw [this, Nat.zero_add]

theorem size_prefix {hp : Heap} {n : Nat} (hn : n ≤ hp.size) : (hp.extract 0 n).size = n := by
  rw [Array.size_extract]; omega

theorem WF_prefix {hp : Heap} {n : Nat} (hn : n ≤ hp.size) (hw : WF hp) : WF (hp.extract 0 n) := by
  intro a m l r ha
  rw [get_prefix hn] at ha
  split at ha
  · exact hw a m l r ha
  · simp at ha

theorem ext_prefix {hp : Heap} {n : Nat} (hn : n ≤ hp.size) : Ext (hp.extract 0 n) hp := by
  refine ⟨by rw [size_prefix hn]; exact hn, ?_⟩
  intro x hx
  rw [size_prefix hn] at hx
  rw [get_prefix hn, if_pos hx]

theorem memoValid_prefix {h : HashFn} {hp : Heap} {n : Nat} (hn : n ≤ hp.size) (hw : WF hp)
    (hm : MemoValid h hp) : MemoValid h (hp.extract 0 n) := by
  intro a m l r ha hm0
  have hwp := WF_prefix hn hw
  have hlr := hwp a m l r ha
  have han : a < n := by have := get_lt_size ha; rw [size_prefix hn] at this; exact this
  rw [get_prefix hn, if_pos han] at ha
  have e := ext_prefix (hp := hp) hn
  rw [← pureRoot_ext h hwp e (by rw [size_prefix hn]; omega),
      ← pureRoot_ext h hwp e (by rw [size_prefix hn]; omega)]
  exact hm a m l r ha hm0

theorem sameStruct_prefix_of_ext {hp hp1 : Heap} (he : Ext hp hp1) :
    SameStruct hp (hp1.extract 0 hp.size) := by
  apply sameStruct_of_get
  intro a
  rw [get_prefix he.1]
  split
  · rename_i ha; exact (he.2 a ha).symm
  · rename_i ha
    rw [Array.getElem?_eq_none (by omega)]

/-! ### soundness of the executable checks -/

theorem wfB_sound {hp : Heap} (hb : wfB hp = true) : WF hp := by
  intro a m l r ha
  have hlt := get_lt_size ha
  unfold wfB at hb
  rw [List.all_eq_true] at hb
  have := hb a (List.mem_range.mpr hlt)
  rw [ha] at this
  simpa using this

theorem memoValidB_sound {h : HashFn} {hp : Heap} (hb : memoValidB h hp = true) : MemoValid h hp := by
  intro a m l r ha hm0
  have hlt := get_lt_size ha
  unfold memoValidB at hb
  rw [List.all_eq_true] at hb
  have := hb a (List.mem_range.mpr hlt)
  rw [ha] at this
  simp only [Bool.or_eq_true, decide_eq_true_eq] at this
  exact this.resolve_left hm0

theorem allMemoB_sound {hp : Heap} (hb : allMemoB hp = true) : AllMemo hp := by
  intro a m l r ha
  have hlt := get_lt_size ha
  unfold allMemoB at hb
  rw [List.all_eq_true] at hb
  have := hb a (List.mem_range.mpr hlt)
  rw [ha] at this
  simpa using this

theorem noPoke_exClient : NoPoke exClient := by
  unfold exClient
  refine .read _ _ (fun c => ?_)
  cases c with
  | none => exact .ret _
  | some v =>
    cases v with
    | inl _ => exact .ret _
    | inr lr =>
      exact .allocLeaf _ _ (fun a => .allocPair _ _ _ (fun b => .root _ _ (fun v => .ret v)))

theorem exHash_noZero : NoZeroOut exHash := by
  intro a b e
  unfold exHash z0 at e
  simp [List.replicate] at e

end ZtypV.H
