/-
C04 "typed mutations behave like a plain value model", the single-step core:
every typed MUTATOR of the view model (`Set`, `Append`, `Pop`, `Change`, the parent-side hook
write `hookSet`) and the typed getter preserve the representation relation `Rep` and agree
with the plain value operation of Model/Sim.lean (`valSet`, `valAppend`, `valPop`, `valChange`,
`valElem`), error cases included (an error is never a panic, and the value is unchanged
because the value-level operation returns `none`).

For every hash function `h`, under `t.wf`, the one-level depth side condition `DepthOk t`
(Proofs/RepMutBase.lean; implied by `View.inRange t`), `hasType t v` and `Rep h t v n`.
The per-kind lemmas live in Proofs/RepMutComplex.lean (element nodes) and
Proofs/RepMutPacked.lean (uint series, bitfields); this file assembles them by case analysis
on the type and the value.
-/
import ZtypV.Proofs.RepMutPacked
namespace ZtypV
open ZtypV.View ZtypV.Sim
open ZtypV.RepMut

/-! ### values: the plain operations preserve typing -/

theorem valSet_hasType (t : Ty) (v : Val) (i : Nat) (x v' : Val) (ht : hasType t v = true)
    (hx : hasType (slotTy t i) x = true) (hs : valSet t v i x = some v') : hasType t v' = true := by
  cases t <;> cases v <;>
    (try (first | (simp [hasType] at ht; done) | (simp [valSet] at hs; done))) <;>
    simp only [valSet] at hs
  · -- bitvector
    rename_i k bs
    obtain ⟨b, rfl⟩ := hasType_bool_inv hx
    simp only [Option.ite_none_right_eq_some, Option.some.injEq] at hs
    obtain ⟨_, rfl⟩ := hs
    simpa [hasType] using ht
  · -- bitlist
    rename_i k bs
    obtain ⟨b, rfl⟩ := hasType_bool_inv hx
    simp only [Option.ite_none_right_eq_some, Option.some.injEq] at hs
    obtain ⟨_, rfl⟩ := hs
    simpa [hasType] using ht
  · -- vector
    rename_i e k vs
    simp only [Option.ite_none_right_eq_some, Option.some.injEq] at hs
    obtain ⟨_, rfl⟩ := hs
    simp only [hasType, Bool.and_eq_true, beq_iff_eq, List.length_set] at ht ⊢
    exact ⟨ht.1, allHaveType_set e x hx vs i ht.2⟩
  · -- list
    rename_i e k vs
    simp only [Option.ite_none_right_eq_some, Option.some.injEq] at hs
    obtain ⟨_, rfl⟩ := hs
    simp only [hasType, Bool.and_eq_true, decide_eq_true_eq, List.length_set] at ht ⊢
    exact ⟨ht.1, allHaveType_set e x hx vs i ht.2⟩
  · -- container
    rename_i fs vs
    simp only [Option.ite_none_right_eq_some, Option.some.injEq] at hs
    obtain ⟨hi, rfl⟩ := hs
    simp only [hasType] at ht ⊢
    have hif : i < fs.length := by have := fieldsHaveType_length fs vs ht; omega
    rw [slotTy_container hif] at hx
    exact fieldsHaveType_set x fs vs i hif hx ht

theorem valAppend_hasType (t : Ty) (v : Val) (x v' : Val) (ht : hasType t v = true)
    (hx : hasType (slotTy t 0) x = true) (hs : valAppend t v x = some v') : hasType t v' = true := by
  cases t <;> cases v <;>
    (try (first | (simp [hasType] at ht; done) | (simp [valAppend] at hs; done))) <;>
    simp only [valAppend] at hs
  · rename_i k bs
    obtain ⟨b, rfl⟩ := hasType_bool_inv hx
    simp only [Option.ite_none_right_eq_some, Option.some.injEq] at hs
    obtain ⟨hlt, rfl⟩ := hs
    simp only [hasType, decide_eq_true_eq, List.length_append, List.length_singleton]; omega
  · rename_i e k vs
    simp only [Option.ite_none_right_eq_some, Option.some.injEq] at hs
    obtain ⟨hlt, rfl⟩ := hs
    simp only [hasType, Bool.and_eq_true, decide_eq_true_eq, List.length_append,
      List.length_singleton] at ht ⊢
    exact ⟨by omega, allHaveType_append e x hx vs ht.2⟩

theorem valPop_hasType (t : Ty) (v v' : Val) (ht : hasType t v = true)
    (hs : valPop t v = some v') : hasType t v' = true := by
  cases t <;> cases v <;>
    (try (first | (simp [hasType] at ht; done) | (simp [valPop] at hs; done))) <;>
    simp only [valPop] at hs
  · rename_i k bs
    simp only [Option.ite_none_left_eq_some, Option.some.injEq] at hs
    obtain ⟨_, rfl⟩ := hs
    simp only [hasType, decide_eq_true_eq, List.length_dropLast] at ht ⊢; omega
  · rename_i e k vs
    simp only [Option.ite_none_left_eq_some, Option.some.injEq] at hs
    obtain ⟨_, rfl⟩ := hs
    simp only [hasType, Bool.and_eq_true, decide_eq_true_eq, List.length_dropLast] at ht ⊢
    exact ⟨by omega, allHaveType_dropLast e vs ht.2⟩

/-- `valChange` yields a well-typed union when the new content has the option's type -/
theorem valChange_hasType (hasNone : Bool) (opts : List Ty) (sel : Nat) (x v' : Val)
    (hx : ∀ ot, unionOpt hasNone opts sel = some ot → hasType ot x = true)
    (hs : valChange (.union hasNone opts) sel x = some v') :
    hasType (.union hasNone opts) v' = true := by
  by_cases hxn : x = .none
  · subst hxn
    simp only [valChange, Option.ite_none_right_eq_some, Option.some.injEq, Bool.and_eq_true,
      beq_iff_eq] at hs
    obtain ⟨⟨hn, h0⟩, rfl⟩ := hs
    subst hn
    simp [hasType, unionOpt]
  · have hvc : valChange (.union hasNone opts) sel x =
        if (unionOpt hasNone opts sel).isSome then some (.union sel x) else none := by
      cases x <;> first | rfl | exact absurd rfl hxn
    rw [hvc] at hs
    simp only [Option.ite_none_right_eq_some, Option.some.injEq] at hs
    obtain ⟨hsome, rfl⟩ := hs
    obtain ⟨ot, hot⟩ := Option.isSome_iff_exists.mp hsome
    simp only [hasType, hot]
    exact hx ot hot

/-! ### the parent-side write-back -/

/-- `hookSet h pt pn slot b` (what `SetBacking` propagation calls on the parent): for parents
    with element-node slots it is `valSet` on the value level -/
theorem hookSet_rep (h : HashFn) (pt : Ty) (v : Val) (pn : Node) (i : Nat) (x : Val) (b : Node)
    (_hw : pt.wf = true) (hd : DepthOk pt) (ht : hasType pt v = true) (hr : Rep h pt v pn)
    (hc : packedSlot pt = false)
    (hx : hasType (slotTy pt i) x = true) (hb : Rep h (slotTy pt i) x b) :
    match valSet pt v i x with
    | some v' => ∃ n', hookSet h pt pn i b = .ok n' ∧ Rep h pt v' n' ∧ hasType pt v' = true
    | none => ∃ e, hookSet h pt pn i b = .error e ∧ e ≠ .panic := by
  show MutSpec h pt (valSet pt v i x) (hookSet h pt pn i b)
  cases pt with
  | uint _ => cases v <;> exact mutSpec_err h _
  | bool => cases v <;> exact mutSpec_err h _
  | bytesN _ => cases v <;> exact mutSpec_err h _
  | union _ _ => cases v <;> exact mutSpec_err h _
  | bitvector _ => exact absurd hc (by simp [packedSlot])
  | bitlist _ => exact absurd hc (by simp [packedSlot])
  | vector e k =>
    cases v <;> try (simp [hasType] at ht; done)
    exact hookSet_vector h e k _ pn i x b hd hc ht hr hx hb
  | list e lim =>
    cases v <;> try (simp [hasType] at ht; done)
    exact hookSet_list h e lim _ pn i x b hd hc ht hr hx hb
  | container fs =>
    cases v <;> try (simp [hasType] at ht; done)
    exact hookSet_container h fs _ pn i x b hd ht hr hx hb

/-! ### `Set` -/

/-- `Set(i, x)` on every view kind: packed uint element rewritten inside its chunk, element
    node for complex series and containers, bit rewritten inside its chunk for bitfields.
    `en` is the backing of the new element (used only when the slots hold nodes). -/
theorem set_rep (h : HashFn) (t : Ty) (v : Val) (n : Node) (i : Nat) (x : Val) (en : Node)
    (hw : t.wf = true) (hd : DepthOk t) (ht : hasType t v = true) (hr : Rep h t v n)
    (hx : hasType (slotTy t i) x = true)
    (hen : packedSlot t = false → Rep h (slotTy t i) x en) :
    match valSet t v i x with
    | some v' => ∃ n', Mut.set h t n i x en = .ok n' ∧ Rep h t v' n' ∧ hasType t v' = true
    | none => ∃ e, Mut.set h t n i x en = .error e ∧ e ≠ .panic := by
  by_cases hc : packedSlot t = false
  · rw [set_eq_hookSet h t n i x en hc]
    exact hookSet_rep h t v n i x en hw hd ht hr hc hx (hen hc)
  · show MutSpec h t (valSet t v i x) (Mut.set h t n i x en)
    cases t with
    | uint _ => exact absurd rfl hc
    | bool => exact absurd rfl hc
    | bytesN _ => exact absurd rfl hc
    | union _ _ => exact absurd rfl hc
    | container _ => exact absurd rfl hc
    | bitvector k =>
      cases v <;> try (simp [hasType] at ht; done)
      exact set_bitvector h k _ n i x en hd hr hx
    | bitlist lim =>
      cases v <;> try (simp [hasType] at ht; done)
      exact set_bitlist h lim _ n i x en hd hr hx
    | vector e k =>
      cases v <;> try (simp [hasType] at ht; done)
      cases e <;> try (exact absurd rfl hc)
      exact set_vector_basic h _ k _ n i x en hw hd ht hr hx
    | list e lim =>
      cases v <;> try (simp [hasType] at ht; done)
      cases e <;> try (exact absurd rfl hc)
      exact set_list_basic h _ lim _ n i x en hw hd ht hr hx

/-! ### `Get` -/

/-- the typed getter returns a backing of the element the value model reads (for packed
    elements and bits: a fresh leaf holding the value), which can be opened as a view -/
theorem getElem_rep (h : HashFn) (t : Ty) (v : Val) (n : Node) (i : Nat)
    (hw : t.wf = true) (hd : DepthOk t) (ht : hasType t v = true) (hr : Rep h t v n) :
    match valElem t v i with
    | some (et, x) => ∃ en, getElemNode t n i = .ok (et, en) ∧ Rep h et x en ∧
        viewFromBackingOk et en = true ∧ hasType et x = true
    | none => ∃ e, getElemNode t n i = .error e ∧ e ≠ .panic := by
  show GetSpec h (valElem t v i) (getElemNode t n i)
  cases t with
  | uint _ => cases v <;> exact getSpec_err h
  | bool => cases v <;> exact getSpec_err h
  | bytesN _ => cases v <;> exact getSpec_err h
  | union _ _ => cases v <;> exact getSpec_err h
  | bitvector k =>
    cases v <;> try (simp [hasType] at ht; done)
    exact getElem_bitvector h k _ n i hd hr
  | bitlist lim =>
    cases v <;> try (simp [hasType] at ht; done)
    exact getElem_bitlist h lim _ n i hd hr
  | container fs =>
    cases v <;> try (simp [hasType] at ht; done)
    exact getElem_container h fs _ n i hd ht hr
  | vector e k =>
    cases v <;> try (simp [hasType] at ht; done)
    cases hbe : isBasicElem e
    · exact getElem_vector_complex h e k _ n i hd hbe ht hr
    · cases e <;> try (simp [isBasicElem] at hbe; done)
      exact getElem_vector_basic h _ k _ n i hw hd ht hr
  | list e lim =>
    cases v <;> try (simp [hasType] at ht; done)
    cases hbe : isBasicElem e
    · exact getElem_list_complex h e lim _ n i hd hbe ht hr
    · cases e <;> try (simp [isBasicElem] at hbe; done)
      exact getElem_list_basic h _ lim _ n i hw hd ht hr

/-! ### `Append` / `Pop` -/

/-- `Append(x)` on lists and bitlists: into a partially filled chunk, into a fresh chunk, with
    expansion of summarised zero padding; over the limit it is an error -/
theorem append_rep (h : HashFn) (t : Ty) (v : Val) (n : Node) (x : Val) (en : Node)
    (hw : t.wf = true) (hd : DepthOk t) (ht : hasType t v = true) (hr : Rep h t v n)
    (hx : hasType (slotTy t 0) x = true)
    (hen : packedSlot t = false → Rep h (slotTy t 0) x en) :
    match valAppend t v x with
    | some v' => ∃ n', Mut.append h t n x en = .ok n' ∧ Rep h t v' n' ∧ hasType t v' = true
    | none => ∃ e, Mut.append h t n x en = .error e ∧ e ≠ .panic := by
  show MutSpec h t (valAppend t v x) (Mut.append h t n x en)
  cases t with
  | uint _ => cases v <;> exact mutSpec_err h _
  | bool => cases v <;> exact mutSpec_err h _
  | bytesN _ => cases v <;> exact mutSpec_err h _
  | union _ _ => cases v <;> exact mutSpec_err h _
  | bitvector _ => cases v <;> exact mutSpec_err h _
  | vector _ _ => cases v <;> exact mutSpec_err h _
  | container _ => cases v <;> exact mutSpec_err h _
  | bitlist lim =>
    cases v <;> try (simp [hasType] at ht; done)
    exact append_bitlist h lim _ n x en hd hr hx
  | list e lim =>
    cases v <;> try (simp [hasType] at ht; done)
    cases hbe : isBasicElem e
    · exact append_list_complex h e lim _ n x en hd hbe ht hr hx (hen hbe)
    · cases e <;> try (simp [isBasicElem] at hbe; done)
      exact append_list_basic h _ lim _ n x en hw hd ht hr hx

/-- `Pop()` on lists and bitlists: the last element is cleared inside its chunk (the bottom
    node becomes padding again when that empties the chunk), complex lists write the zero
    leaf; popping an empty list is an error -/
theorem pop_rep (h : HashFn) (t : Ty) (v : Val) (n : Node)
    (hw : t.wf = true) (hd : DepthOk t) (ht : hasType t v = true) (hr : Rep h t v n) :
    match valPop t v with
    | some v' => ∃ n', Mut.pop h t n = .ok n' ∧ Rep h t v' n' ∧ hasType t v' = true
    | none => ∃ e, Mut.pop h t n = .error e ∧ e ≠ .panic := by
  show MutSpec h t (valPop t v) (Mut.pop h t n)
  cases t with
  | uint _ => cases v <;> exact mutSpec_err h _
  | bool => cases v <;> exact mutSpec_err h _
  | bytesN _ => cases v <;> exact mutSpec_err h _
  | union _ _ => cases v <;> exact mutSpec_err h _
  | bitvector _ => cases v <;> exact mutSpec_err h _
  | vector _ _ => cases v <;> exact mutSpec_err h _
  | container _ => cases v <;> exact mutSpec_err h _
  | bitlist lim =>
    cases v <;> try (simp [hasType] at ht; done)
    exact pop_bitlist h lim _ n hd hr
  | list e lim =>
    cases v <;> try (simp [hasType] at ht; done)
    cases hbe : isBasicElem e
    · exact pop_list_complex h e lim _ n hd hbe ht hr
    · cases e <;> try (simp [isBasicElem] at hbe; done)
      exact pop_list_basic h _ lim _ n hw hd ht hr

/-! ### `Change` -/

/-- `UnionView.Change(sel, value)` against `valChange`: the selector range check and "a nil
    value only for selector 0" are errors on both sides; otherwise the new backing represents
    `.union sel x`.  The selector is a `uint8` in Go (`hsel`).  `content` is the backing of the
    new value (`none` for a nil value).  `hfitA` / `hfitB` say that the caller passes a nil
    value exactly where the selected option is the None option — Go's `Change` does NOT check
    this (see `RepMut.change_none_slot_accepts_value`, `RepMut.change_typed_slot_accepts_nil`). -/
theorem change_rep (h : HashFn) (hasNone : Bool) (opts : List Ty) (sel : Nat) (x : Val)
    (content : Option Node)
    (hw : (Ty.union hasNone opts).wf = true) (hsel : sel < 256)
    (hnil : x = .none → content = none)
    (hval : x ≠ .none → ∃ c, content = some c ∧
      ∀ ot, unionOpt hasNone opts sel = some ot → hasType ot x = true ∧ Rep h ot x c)
    (hfitA : x = .none → sel = 0 → hasNone = true)
    (hfitB : x ≠ .none → ¬ (hasNone = true ∧ sel = 0)) :
    match valChange (.union hasNone opts) sel x with
    | some v' => ∃ n', Mut.change (.union hasNone opts) sel content = .ok n' ∧
        Rep h (.union hasNone opts) v' n' ∧ hasType (.union hasNone opts) v' = true
    | none => ∃ e, Mut.change (.union hasNone opts) sel content = .error e ∧ e ≠ .panic := by
  show MutSpec h (.union hasNone opts) (valChange (.union hasNone opts) sel x)
    (Mut.change (.union hasNone opts) sel content)
  by_cases hxn : x = .none
  · rw [hnil hxn, hxn]
    exact change_union_nil h hasNone opts sel hw hsel (hfitA hxn)
  · obtain ⟨c, hc, hrep⟩ := hval hxn
    rw [hc]
    exact change_union_some h hasNone opts sel x c hw hsel hxn hrep (hfitB hxn)

/-- `Change` on anything but a union is an error on both sides -/
theorem change_rep_other (t : Ty) (sel : Nat) (x : Val) (content : Option Node)
    (hnu : ∀ hn o, t ≠ .union hn o) :
    valChange t sel x = none ∧ Mut.change t sel content = .error .other := by
  cases t <;> first | exact ⟨rfl, rfl⟩ | exact absurd rfl (hnu _ _)

end ZtypV


/-! ### non-vacuity: the hypotheses are satisfiable on concrete inputs -/

namespace ZtypV
open ZtypV.View ZtypV.Sim ZtypV.RepMut

/-- `List[uint64, 4]` holding `[7]`: one packed chunk below the length mix-in -/
private def exT1 : Ty := .list (.uint 8) 4
private def exV1 : Val := .seq [.num 7]
private def exN1 : Node := .pair (.leaf (chunkOf (leBytes 8 7))) (lengthNode 1)

private theorem exT1_depth : DepthOk exT1 := by
  simp only [exT1, DepthOk, seriesDepth, isBasicElem, if_true, Ty.fixedSize, bottomNodes, perNode]
  decide

private theorem exRep1 (h : HashFn) : Rep h exT1 exV1 exN1 := by
  simp only [exT1, exV1, exN1, Rep, isBasicElem, if_true]
  refine ⟨by decide, _, rfl, ?_⟩
  have h0 : seriesDepth (.uint 8) 4 = 0 := by decide
  have h1 : packedNodes (serList (Ty.uint 8) [Val.num 7]).flatten
      = [.leaf (chunkOf (leBytes 8 7))] := by decide
  rw [h0, h1]
  simp only [SeqShape]

/-- `Container{bool, bool}` holding `(true, false)` -/
private def exT2 : Ty := .container [.bool, .bool]
private def exV2 : Val := .seq [.bool true, .bool false]
private def exN2 : Node := .pair (.leaf (chunkOf [1])) (.leaf (chunkOf [0]))

private theorem exRep2 (h : HashFn) : Rep h exT2 exV2 exN2 := by
  simp only [exT2, exV2, exN2, Rep]
  refine ⟨[.leaf (chunkOf [1]), .leaf (chunkOf [0])], ?_, ?_⟩
  · simp [RepFields, Rep]
  · have h1 : coverDepth [Ty.bool, Ty.bool].length = 1 := by decide
    rw [h1]
    simp [SeqShape]

-- `Set(0, 9)` / `Append(9)` / `Pop()` / `Get(0)` on the packed list
example (h : HashFn) := set_rep h exT1 exV1 exN1 0 (.num 9) (.leaf z0) (by decide) exT1_depth
  (by decide) (exRep1 h) (by decide) (fun hc => absurd hc (by decide))
example (h : HashFn) := append_rep h exT1 exV1 exN1 (.num 9) (.leaf z0) (by decide) exT1_depth
  (by decide) (exRep1 h) (by decide) (fun hc => absurd hc (by decide))
example (h : HashFn) := pop_rep h exT1 exV1 exN1 (by decide) exT1_depth (by decide) (exRep1 h)
example (h : HashFn) := getElem_rep h exT1 exV1 exN1 0 (by decide) exT1_depth (by decide) (exRep1 h)
example : valSet exT1 exV1 0 (.num 9) = some (.seq [.num 9]) := rfl
example : valAppend exT1 exV1 (.num 9) = some (.seq [.num 7, .num 9]) := rfl
example : valPop exT1 exV1 = some (.seq []) := rfl

-- `Set(1, true)` and the hook write-back into slot 1 of the container, `Get(1)`
example (h : HashFn) := set_rep h exT2 exV2 exN2 1 (.bool true) (.leaf (chunkOf [1])) (by decide)
  (by simp only [exT2, DepthOk]; decide) (by decide) (exRep2 h) (by decide)
  (fun _ => by simp only [exT2, slotTy]; exact rep_bool_leaf h true)
example (h : HashFn) := hookSet_rep h exT2 exV2 exN2 1 (.bool true) (.leaf (chunkOf [1])) (by decide)
  (by simp only [exT2, DepthOk]; decide) (by decide) (exRep2 h) (by decide) (by decide)
  (by simp only [exT2, slotTy]; exact rep_bool_leaf h true)
example (h : HashFn) := getElem_rep h exT2 exV2 exN2 1 (by decide)
  (by simp only [exT2, DepthOk]; decide) (by decide) (exRep2 h)

-- `Change(1, uint8 5)` and `Change(0, nil)` on `Union[None, uint8]`
example (h : HashFn) := change_rep h true [.uint 1] 1 (.num 5) (some (.leaf (chunkOf (leBytes 1 5))))
  (by decide) (by decide) (fun hx => by cases hx)
  (fun _ => ⟨_, rfl, fun ot hot => by
    have : ot = .uint 1 := by simpa [unionOpt] using hot.symm
    subst this
    exact ⟨by decide, rep_uint_leaf h 1 5⟩⟩)
  (fun hx => by cases hx) (fun _ hh => by simp at hh)
example (h : HashFn) := change_rep h true [.uint 1] 0 .none none
  (by decide) (by decide) (fun _ => rfl) (fun hx => absurd rfl hx) (fun _ _ => rfl)
  (fun hx => absurd rfl hx)

end ZtypV

#print axioms ZtypV.hookSet_rep
#print axioms ZtypV.set_rep
#print axioms ZtypV.getElem_rep
#print axioms ZtypV.append_rep
#print axioms ZtypV.pop_rep
#print axioms ZtypV.change_rep
