/-
C09 (flat codec, decoder completeness), part 1: forward ("it succeeds") lemmas for the reader
model and the generic helpers of codec/decoder.go (`Vector`, `List`, `FixedLenContainer`,
`Container`, `Union` loops), independent of the type recursion.  Core Lean only.
-/
import ZtypV.Proofs.Flat
import ZtypV.Proofs.SerSize
namespace ZtypV.FlatProofs.Dec
open ZtypV ZtypV.View ZtypV.Flat

/-! ### the reader -/

/-- the reader after `n` more bytes were read from it, `rest` still to come -/
def adv (dr : DR) (n : Nat) (rest : Bytes) : DR := { dr with i := dr.i + n, avail := rest }

@[simp] theorem adv_i (dr : DR) (n : Nat) (rest : Bytes) : (adv dr n rest).i = dr.i + n := rfl
@[simp] theorem adv_max (dr : DR) (n : Nat) (rest : Bytes) : (adv dr n rest).max = dr.max := rfl
@[simp] theorem adv_avail (dr : DR) (n : Nat) (rest : Bytes) : (adv dr n rest).avail = rest := rfl

theorem take_app_left {α : Type} (a b : List α) : (a ++ b).take a.length = a := by
  rw [List.take_append_of_le_length (Nat.le_refl _), List.take_length]

theorem drop_app_left {α : Type} (a b : List α) : (a ++ b).drop a.length = b := by
  induction a with
  | nil => rfl
  | cons x a ih => simp

/-- a read of the next `bs.length` bytes inside the scope succeeds -/
theorem read_app (dr : DR) (bs rest : Bytes) (hav : dr.avail = bs ++ rest)
    (hi : dr.i + bs.length ≤ dr.max) :
    dr.read bs.length = .ok (bs, adv dr bs.length rest) := by
  unfold DR.read
  by_cases h0 : bs.length = 0
  · have hb : bs = [] := List.eq_nil_of_length_eq_zero h0
    subst hb
    rw [if_pos h0]
    cases dr
    simp only [List.nil_append] at hav
    simp only [adv, List.length_nil, Nat.add_zero]
    rw [hav]
  · rw [if_neg h0, if_neg (by omega), if_neg (by rw [hav, List.length_append]; omega)]
    rw [hav, take_app_left, drop_app_left]
    rfl

theorem read_app' (dr : DR) (n : Nat) (bs rest : Bytes) (hn : bs.length = n)
    (hav : dr.avail = bs ++ rest) (hi : dr.i + n ≤ dr.max) :
    dr.read n = .ok (bs, adv dr n rest) := by
  subst hn; exact read_app dr bs rest hav hi

theorem leNat_leBytes4 {o : Nat} (ho : o < 2 ^ 32) : leNat (leBytes 4 o) = o := by
  rw [leNat_leBytes]
  exact Nat.mod_eq_of_lt (by simpa using ho)

theorem readOffset_app (dr : DR) (o : Nat) (rest : Bytes) (ho : o < 2 ^ 32)
    (hav : dr.avail = leBytes 4 o ++ rest) (hi : dr.i + 4 ≤ dr.max) :
    dr.readOffset = .ok (o, adv dr 4 rest) := by
  unfold DR.readOffset
  rw [read_app' dr 4 (leBytes 4 o) rest (leBytes_length 4 o) hav hi]
  simp only [R.bind_ok, leNat_leBytes4 ho]

/-- running `f` in a sub-scope that holds exactly `enc`, when `f` consumes all of it -/
theorem inSub_app {α : Type} (dr : DR) (f : DR → R (α × DR)) (enc rest : Bytes) (a : α) (c1 : DR)
    (hav : dr.avail = enc ++ rest) (hs : enc.length ≤ dr.scope)
    (hf : f { i := 0, max := enc.length, avail := enc } = .ok (a, c1)) (hc : c1.avail = []) :
    dr.inSub enc.length f = .ok (a, { dr with avail := rest }) := by
  unfold DR.inSub DR.sub
  rw [if_neg (by omega)]
  simp only [R.bind_ok]
  rw [hav, take_app_left, hf]
  simp only [R.bind_ok, DR.after, hc, List.length_nil, Nat.sub_zero]
  rw [hav, drop_app_left]

/-! ### the completeness predicate of one deserializer on one encoding -/

/-- `f` decodes `enc` (the encoding of a value of a fixed-size type when `fx`, else of a
    variable-size type, which then fills its whole scope: `i + enc.length = max`) into `v`, from any reader whose stream
    starts with `enc`; it consumes exactly `enc`, and moves the index by at most `enc.length`
    (sub-scopes do not move the parent's index) -/
def Dec (f : DR → R (Val × DR)) (fx : Bool) (enc : Bytes) (v : Val) : Prop :=
  ∀ (dr : DR) (rest : Bytes), dr.avail = enc ++ rest →
    (if fx = true then dr.i + enc.length ≤ dr.max else dr.i + enc.length = dr.max) →
    ∃ dr', f dr = .ok (v, dr') ∧ dr'.avail = rest ∧ dr'.max = dr.max ∧ dr'.i ≤ dr.i + enc.length

theorem inSub_dec {f : DR → R (Val × DR)} {fx : Bool} {enc : Bytes} {v : Val} (h : Dec f fx enc v)
    (dr : DR) (rest : Bytes) (hav : dr.avail = enc ++ rest) (hs : enc.length ≤ dr.scope) :
    dr.inSub enc.length f = .ok (v, { dr with avail := rest }) := by
  obtain ⟨c1, hf, hc, _, _⟩ := h { i := 0, max := enc.length, avail := enc } [] (by simp)
    (by cases fx <;> simp)
  exact inSub_app dr f enc rest v c1 hav hs hf hc

/-- deserializers, the layout parts (`(isFixed, encoding)` as in `serFields`) and the values,
    position by position -/
inductive DecAll : List Des → List (Bool × Bytes) → List Val → Prop
  | nil : DecAll [] [] []
  | cons {d : Des} {fx : Bool} {e : Bytes} {v : Val} {ds : List Des} {ps : List (Bool × Bytes)}
      {vs : List Val} :
      Dec d.run fx e v → d.fixedLength = (if fx = true then e.length else 0) →
      (fx = true → e.length ≠ 0) →
      DecAll ds ps vs → DecAll (d :: ds) ((fx, e) :: ps) (v :: vs)

/-- the encodings of the parts -/
def encs (ps : List (Bool × Bytes)) : List Bytes := ps.map (·.2)

@[simp] theorem encs_nil : encs [] = [] := rfl
@[simp] theorem encs_cons (p : Bool × Bytes) (ps : List (Bool × Bytes)) :
    encs (p :: ps) = p.2 :: encs ps := rfl

theorem DecAll.length_eq {ds ps vs} (h : DecAll ds ps vs) : ds.length = ps.length ∧ vs.length = ps.length := by
  induction h with
  | nil => simp
  | cons _ _ _ _ ih => simp [ih.1, ih.2]

/-! ### fixed-size element series -/

theorem decFixedItems_ok (size : Nat) : ∀ {ds ps vs}, DecAll ds ps vs →
    (∀ p ∈ ps, p.2.length = size) →
    ∀ (dr : DR) (rest : Bytes), dr.avail = (encs ps).flatten ++ rest → (ps ≠ [] → size ≤ dr.scope) →
      decFixedItems size ds dr = .ok (vs, { dr with avail := rest }) := by
  intro ds ps vs h
  induction h with
  | nil =>
    intro _ dr rest hav _
    simp only [encs_nil, List.flatten_nil, List.nil_append] at hav
    rw [decFixedItems]
    cases dr; simp only at hav; rw [hav]
  | @cons d fx e v ds ps vs hd _ _ _ ih =>
    intro hsz dr rest hav hsc
    have he : e.length = size := hsz (fx, e) List.mem_cons_self
    subst he
    have hsc' : e.length ≤ dr.scope := hsc (by simp)
    simp only [encs_cons, List.flatten_cons, List.append_assoc] at hav
    rw [decFixedItems, inSub_dec hd dr _ hav (by omega)]
    simp only [R.bind_ok]
    rw [ih (fun p hp => hsz p (List.mem_cons_of_mem _ hp))
      { dr with avail := (encs ps).flatten ++ rest } rest rfl (fun _ => hsc')]
    rfl

/-! ### fixed-length containers: all fields on the same reader -/

theorem decFixedLenContainer_ok : ∀ {ds ps vs}, DecAll ds ps vs → (∀ p ∈ ps, p.1 = true) →
    ∀ (dr : DR) (rest : Bytes), dr.avail = (encs ps).flatten ++ rest →
      dr.i + (encs ps).flatten.length ≤ dr.max →
      ∃ dr', decFixedLenContainer ds dr = .ok (vs, dr') ∧ dr'.avail = rest ∧ dr'.max = dr.max ∧
        dr'.i ≤ dr.i + (encs ps).flatten.length := by
  intro ds ps vs h
  induction h with
  | nil =>
    intro _ dr rest hav _
    simp only [encs_nil, List.flatten_nil, List.nil_append] at hav
    exact ⟨dr, by rw [decFixedLenContainer], hav, rfl, by omega⟩
  | @cons d fx e v ds ps vs hd _ _ _ ih =>
    intro hfx dr rest hav hi
    have hfx1 : fx = true := hfx (fx, e) List.mem_cons_self
    subst hfx1
    simp only [encs_cons, List.flatten_cons, List.append_assoc, List.length_append] at hav hi ⊢
    obtain ⟨dr1, h1, hav1, hmax1, hi1⟩ := hd dr _ hav (by simp; omega)
    obtain ⟨dr2, h2, hav2, hmax2, hi2⟩ := ih (fun p hp => hfx p (List.mem_cons_of_mem _ hp)) dr1 rest hav1
      (by omega)
    refine ⟨dr2, ?_, hav2, by omega, by omega⟩
    rw [decFixedLenContainer, h1]
    simp only [R.bind_ok]
    rw [h2]
    rfl

/-! ### offsets -/

/-- the offsets of a series of parts as numbers -/
def offNats (start : Nat) : List Bytes → List Nat
  | [] => []
  | p :: ps => start :: offNats (start + p.length) ps

theorem offsetsOf_eq (ps : List Bytes) : ∀ (start : Nat),
    offsetsOf start ps = (offNats start ps).map (leBytes 4) := by
  induction ps with
  | nil => intro _; rfl
  | cons p ps ih => intro s; simp [offsetsOf, offNats, ih]

@[simp] theorem offNats_length (ps : List Bytes) : ∀ (start : Nat), (offNats start ps).length = ps.length := by
  induction ps with
  | nil => intro _; rfl
  | cons p ps ih => intro s; simp [offNats, ih]

theorem offNats_le (ps : List Bytes) : ∀ (start : Nat), ∀ o ∈ offNats start ps,
    o ≤ start + ps.flatten.length := by
  induction ps with
  | nil => intro _ o ho; cases ho
  | cons p ps ih =>
    intro s o ho
    simp only [offNats, List.mem_cons] at ho
    simp only [List.flatten_cons, List.length_append]
    rcases ho with rfl | ho
    · omega
    · have := ih _ o ho; omega

/-- the offset after a part: the next part's offset, or the scope after the last part -/
theorem offNats_headD (ps : List Bytes) (s : Nat) :
    (offNats s ps).headD (s + ps.flatten.length) = s := by
  cases ps with
  | nil => simp [offNats]
  | cons p ps => simp [offNats]

theorem readOffsetsN_app : ∀ (os : List Nat) (dr : DR) (rest : Bytes), (∀ o ∈ os, o < 2 ^ 32) →
    dr.avail = (os.map (leBytes 4)).flatten ++ rest → dr.i + 4 * os.length ≤ dr.max →
    readOffsetsN os.length dr = .ok (os, adv dr (4 * os.length) rest) := by
  intro os
  induction os with
  | nil =>
    intro dr rest _ hav _
    simp only [List.map_nil, List.flatten_nil, List.nil_append] at hav
    simp only [List.length_nil, readOffsetsN, adv, Nat.mul_zero, Nat.add_zero]
    cases dr; simp only at hav; rw [hav]
  | cons o os ih =>
    intro dr rest hlt hav hi
    simp only [List.map_cons, List.flatten_cons, List.append_assoc] at hav
    simp only [List.length_cons] at hi ⊢
    rw [readOffsetsN, readOffset_app dr o _ (hlt o List.mem_cons_self) hav (by omega)]
    simp only [R.bind_ok]
    rw [ih (adv dr 4 _) rest (fun o' ho' => hlt o' (List.mem_cons_of_mem _ ho')) rfl
      (by simp only [adv_i, adv_max]; omega)]
    simp only [R.bind_ok, adv, Nat.mul_add, Nat.mul_one]
    congr 3
    omega

/-- the element loop of `Vector` / `List` over the spec offsets -/
theorem decOffsetItems_ok (vec : Bool) (scope : Nat) : ∀ {ds ps vs}, DecAll ds ps vs →
    (∀ p ∈ ps, p.1 = false) →
    ∀ (prev start : Nat) (dr : DR) (rest : Bytes), prev ≤ start →
      scope = start + (encs ps).flatten.length →
      dr.avail = (encs ps).flatten ++ rest → (encs ps).flatten.length ≤ dr.scope →
      decOffsetItems vec scope prev (offNats start (encs ps)) ds dr = .ok (vs, { dr with avail := rest }) := by
  intro ds ps vs h
  induction h with
  | nil =>
    intro _ prev start dr rest _ _ hav _
    simp only [encs_nil, List.flatten_nil, List.nil_append] at hav
    simp only [encs_nil, offNats]
    rw [decOffsetItems]
    cases dr; simp only at hav; rw [hav]
  | @cons d fx e v ds ps vs hd _ _ _ ih =>
    intro hfx prev start dr rest hprev hscope hav hsc
    have hfx1 : fx = false := hfx (fx, e) List.mem_cons_self
    subst hfx1
    simp only [encs_cons, List.flatten_cons, List.append_assoc, List.length_append] at hav hsc hscope
    simp only [encs_cons, offNats]
    rw [decOffsetItems, if_neg (by omega)]
    have hnext : (offNats (start + e.length) (encs ps)).headD scope = start + e.length := by
      rw [hscope, ← Nat.add_assoc]; exact offNats_headD _ _
    simp only [hnext]
    rw [if_neg (by omega)]
    have hsub : start + e.length - start = e.length := by omega
    rw [hsub, inSub_dec hd dr _ hav (by omega)]
    simp only [R.bind_ok]
    rw [ih (fun p hp => hfx p (List.mem_cons_of_mem _ hp)) _ (start + e.length)
      { dr with avail := (encs ps).flatten ++ rest } rest
      (by cases vec <;> simp <;> omega) (by omega) rfl (by simp only [DR.scope] at hsc ⊢; omega)]
    rfl

/-- the second loop of `Container` over the spec offsets -/
theorem decContainerDyn_ok (scope : Nat) : ∀ {ds ps vs}, DecAll ds ps vs →
    (∀ p ∈ ps, p.1 = false) →
    ∀ (start : Nat) (dr : DR) (rest : Bytes),
      scope = start + (encs ps).flatten.length →
      dr.avail = (encs ps).flatten ++ rest → (encs ps).flatten.length ≤ dr.scope →
      decContainerDyn scope (offNats start (encs ps)) ds dr = .ok (vs, { dr with avail := rest }) := by
  intro ds ps vs h
  induction h with
  | nil =>
    intro _ start dr rest _ hav _
    simp only [encs_nil, List.flatten_nil, List.nil_append] at hav
    simp only [encs_nil, offNats]
    rw [decContainerDyn]
    cases dr; simp only at hav; rw [hav]
  | @cons d fx e v ds ps vs hd _ _ _ ih =>
    intro hfx start dr rest hscope hav hsc
    have hfx1 : fx = false := hfx (fx, e) List.mem_cons_self
    subst hfx1
    simp only [encs_cons, List.flatten_cons, List.append_assoc, List.length_append] at hav hsc hscope
    simp only [encs_cons, offNats]
    rw [decContainerDyn]
    have hnext : (offNats (start + e.length) (encs ps)).headD scope = start + e.length := by
      rw [hscope, ← Nat.add_assoc]; exact offNats_headD _ _
    simp only [hnext]
    rw [if_neg (by omega)]
    have hsub : start + e.length - start = e.length := by omega
    rw [hsub, inSub_dec hd dr _ hav (by omega)]
    simp only [R.bind_ok]
    rw [ih (fun p hp => hfx p (List.mem_cons_of_mem _ hp)) (start + e.length)
      { dr with avail := (encs ps).flatten ++ rest } rest
      (by omega) rfl (by simp only [DR.scope] at hsc ⊢; omega)]
    rfl

/-! ### `Vector` / `List` of variable-size elements -/

theorem decVector_var_ok {ds ps vs} (h : DecAll ds ps vs) (hfx : ∀ p ∈ ps, p.1 = false)
    (hne : ps ≠ []) (dr : DR) (rest : Bytes) (hav : dr.avail = serVarParts (encs ps) ++ rest)
    (hsc : dr.scope = (serVarParts (encs ps)).length)
    (hlt : (serVarParts (encs ps)).length < 2 ^ 32) :
    ∃ dr', decVector ds 0 dr = .ok (vs, dr') ∧ dr'.avail = rest ∧ dr'.max = dr.max ∧
      dr'.i ≤ dr.i + (serVarParts (encs ps)).length := by
  have hlen := h.length_eq
  have hel : (encs ps).length = ps.length := by simp [encs]
  have hpos : 0 < ps.length := List.length_pos_iff.mpr hne
  rw [serVarParts_length, hel] at hsc hlt
  simp only [serVarParts, offsetsOf_eq, List.append_assoc, hel] at hav
  have hol : (offNats (4 * ps.length) (encs ps)).length = ps.length := by rw [offNats_length, hel]
  have hbound : ∀ o ∈ offNats (4 * ps.length) (encs ps), o < 2 ^ 32 := by
    intro o ho
    have := offNats_le _ _ o ho
    omega
  have hr := readOffsetsN_app _ dr _ hbound hav (by rw [hol]; simp only [DR.scope] at hsc; omega)
  rw [hol] at hr
  refine ⟨{ adv dr (4 * ps.length) ((encs ps).flatten ++ rest) with avail := rest }, ?_, rfl, rfl, ?_⟩
  · unfold decVector
    rw [if_neg (by simp)]
    simp only [hlen.1, hr, R.bind_ok]
    have hhead : (offNats (4 * ps.length) (encs ps)).headD 0 = ps.length * 4 := by
      cases hps : encs ps with
      | nil => rw [hps] at hel; simp at hel; omega
      | cons a as => simp [offNats]; omega
    rw [if_neg (by rw [hhead]; simp)]
    exact decOffsetItems_ok true dr.scope h hfx 0 (4 * ps.length) _ rest (by omega) (by omega) rfl
      (by simp only [DR.scope, adv_i, adv_max] at hsc ⊢; omega)
  · rw [serVarParts_length]; simp only [adv_i, hel]; omega

theorem decAll_nil_left {ps vs} (h : DecAll [] ps vs) : ps = [] ∧ vs = [] := by
  cases h; exact ⟨rfl, rfl⟩

theorem decList_var_ok (add : DR → R (Val × DR)) (lim : Nat) {ps vs}
    (h : DecAll (List.replicate ps.length ⟨0, add⟩) ps vs) (hfx : ∀ p ∈ ps, p.1 = false)
    (hlim : ps.length ≤ lim) (dr : DR) (rest : Bytes)
    (hav : dr.avail = serVarParts (encs ps) ++ rest)
    (hsc : dr.scope = (serVarParts (encs ps)).length)
    (hlt : (serVarParts (encs ps)).length < 2 ^ 32) :
    ∃ dr', decList add 0 lim dr = .ok (vs, dr') ∧ dr'.avail = rest ∧ dr'.max = dr.max ∧
      dr'.i ≤ dr.i + (serVarParts (encs ps)).length := by
  have hel : (encs ps).length = ps.length := by simp [encs]
  cases ps with
  | nil =>
    obtain ⟨_, rfl⟩ := decAll_nil_left h
    simp only [encs_nil, serVarParts, offsetsOf, List.flatten_nil, List.append_nil, List.nil_append,
      List.length_nil] at hav hsc
    refine ⟨dr, ?_, hav, rfl, by omega⟩
    unfold decList
    rw [if_pos hsc]
  | cons p ps =>
    rw [serVarParts_length, hel] at hsc hlt
    simp only [serVarParts, offsetsOf_eq, List.append_assoc, hel] at hav
    simp only [List.length_cons] at hsc hlt hav hlim
    simp only [encs_cons, offNats, List.map_cons, List.flatten_cons, List.append_assoc] at hav
    have hi : dr.i + 4 * (ps.length + 1) ≤ dr.max := by simp only [DR.scope] at hsc; omega
    obtain ⟨dr1, hr1, ha1, hm1, hi1⟩ : ∃ dr1, dr.readOffset = .ok (4 * (ps.length + 1), dr1) ∧
        dr1.avail = (List.map (leBytes 4) (offNats (4 * (ps.length + 1) + p.2.length) (encs ps))).flatten ++
          (p.2 ++ ((encs ps).flatten ++ rest)) ∧ dr1.max = dr.max ∧ dr1.i = dr.i + 4 :=
      ⟨_, readOffset_app dr (4 * (ps.length + 1)) _ (by omega) hav (by omega), rfl, rfl, rfl⟩
    have hol : (offNats (4 * (ps.length + 1) + p.2.length) (encs ps)).length = ps.length := by
      rw [offNats_length]; simp [encs]
    have hbound : ∀ o ∈ offNats (4 * (ps.length + 1) + p.2.length) (encs ps), o < 2 ^ 32 := by
      intro o ho
      have := offNats_le _ _ o ho
      simp only [encs_cons, List.flatten_cons, List.length_append] at hlt
      omega
    obtain ⟨dr2, hr2, ha2, hm2, hi2⟩ : ∃ dr2, readOffsetsN ps.length dr1 =
        .ok (offNats (4 * (ps.length + 1) + p.2.length) (encs ps), dr2) ∧
        dr2.avail = p.2 ++ ((encs ps).flatten ++ rest) ∧ dr2.max = dr1.max ∧ dr2.i = dr1.i + 4 * ps.length := by
      have := readOffsetsN_app _ dr1 _ hbound ha1 (by rw [hol]; omega)
      rw [hol] at this
      exact ⟨_, this, rfl, rfl, rfl⟩
    refine ⟨{ dr2 with avail := rest }, ?_, rfl, by simp only; omega, ?_⟩
    · unfold decList
      rw [if_neg (by omega), if_neg (by simp)]
      simp only [hr1, R.bind_ok]
      rw [if_neg (by omega), if_neg (by omega)]
      have hdiv : 4 * (ps.length + 1) / 4 = ps.length + 1 := by omega
      simp only [hdiv]
      rw [if_neg (by omega)]
      try simp only [Nat.add_sub_cancel]
      rw [hr2]
      simp only [R.bind_ok]
      have := decOffsetItems_ok false dr.scope h hfx 0 (4 * (ps.length + 1)) dr2 rest (by omega)
        hsc
        (by simp only [encs_cons, List.flatten_cons, List.append_assoc]; exact ha2)
        (by simp only [DR.scope] at hsc ⊢; omega)
      simp only [encs_cons, offNats, List.length_cons] at this
      exact this
    · rw [serVarParts_length]; simp only [hel, List.length_cons]; omega

theorem decList_fixed_ok (add : DR → R (Val × DR)) (size lim : Nat) (hsize : size ≠ 0) {ps vs}
    (h : DecAll (List.replicate ps.length ⟨size, add⟩) ps vs) (hsz : ∀ p ∈ ps, p.2.length = size)
    (hlim : ps.length ≤ lim) (dr : DR) (rest : Bytes)
    (hav : dr.avail = (encs ps).flatten ++ rest)
    (hsc : dr.scope = (encs ps).flatten.length) :
    decList add size lim dr = .ok (vs, { dr with avail := rest }) := by
  have hfl : (encs ps).flatten.length = ps.length * size := by
    rw [flatten_uniform_length size]
    · simp [encs]
    · intro l hl
      simp only [encs, List.mem_map] at hl
      obtain ⟨p, hp, rfl⟩ := hl
      exact hsz p hp
  rw [hfl] at hsc
  unfold decList
  by_cases h0 : ps.length = 0
  · have hps : ps = [] := List.eq_nil_of_length_eq_zero h0
    subst hps
    obtain ⟨_, rfl⟩ := decAll_nil_left h
    simp only [List.length_nil, Nat.zero_mul] at hsc
    rw [if_pos hsc]
    simp only [encs_nil, List.flatten_nil, List.nil_append] at hav
    cases dr; simp only at hav; rw [hav]
  · have hpos : 0 < size := by omega
    have hne : dr.scope ≠ 0 := by
      rw [hsc]; exact Nat.mul_ne_zero h0 hsize
    rw [if_neg hne, if_pos hsize, hsc, if_neg (by simp)]
    have hdiv : ps.length * size / size = ps.length := Nat.mul_div_cancel _ hpos
    simp only [hdiv]
    rw [if_neg (by omega)]
    exact decFixedItems_ok size h hsz dr rest hav (fun _ => by
      rw [hsc]; exact Nat.le_mul_of_pos_left size (by omega))

/-! ### `Container` -/

theorem fixedPartLen_ge4 : ∀ (ps : List (Bool × Bytes)), (∃ p ∈ ps, p.1 = false) → 4 ≤ fixedPartLen ps := by
  intro ps
  induction ps with
  | nil => rintro ⟨p, hp, _⟩; cases hp
  | cons q qs ih =>
    rintro ⟨p, hp, hpf⟩
    obtain ⟨fx, e⟩ := q
    simp only [fixedPartLen]
    rcases List.mem_cons.mp hp with rfl | hp'
    · simp only at hpf; subst hpf; simp
    · have := ih ⟨p, hp', hpf⟩; omega

theorem decContainerFixed_ok : ∀ {ds ps vs}, DecAll ds ps vs →
    ∀ (off : Nat) (dr : DR) (rest : Bytes), dr.avail = serFixedPart off ps ++ rest →
      dr.i + fixedPartLen ps ≤ dr.max → off + (serVarPart ps).length < 2 ^ 32 →
      ∃ slots dyn dps dvs dr', decContainerFixed ds dr = .ok (slots, offNats off (encs dps), dyn, dr') ∧
        dr'.avail = rest ∧ dr'.max = dr.max ∧ dr'.i ≤ dr.i + fixedPartLen ps ∧
        DecAll dyn dps dvs ∧ (∀ p ∈ dps, p.1 = false) ∧ serVarPart ps = (encs dps).flatten ∧
        mergeSlots slots dvs = vs ∧ containerFixedLen ds = fixedPartLen ps ∧
        (dps = [] → ∀ p ∈ ps, p.1 = true) := by
  intro ds ps vs h
  induction h with
  | nil =>
    intro off dr rest hav _ _
    simp only [serFixedPart, List.nil_append] at hav
    refine ⟨[], [], [], [], dr, ?_, hav, rfl, by omega, DecAll.nil, ?_, rfl, rfl, rfl, ?_⟩
    · rw [decContainerFixed]; rfl
    · intro p hp; cases hp
    · intro _ p hp; cases hp
  | @cons d fx e v ds ps vs hd hfl hne hrest ih =>
    intro off dr rest hav hi hlt
    cases fx with
    | true =>
      simp only [if_true] at hfl
      have hne' := hne rfl
      simp only [serFixedPart, List.append_assoc] at hav
      simp only [fixedPartLen, if_true] at hi ⊢
      simp only [serVarPart] at hlt ⊢
      obtain ⟨slots, dyn, dps, dvs, dr', h1, h2, h3, h4, h5, h6, h7, h8, h9, h10⟩ :=
        ih off { dr with avail := serFixedPart off ps ++ rest } rest rfl (by simp only; omega) hlt
      refine ⟨some v :: slots, dyn, dps, dvs, dr', ?_, h2, h3, by simp only at h4; omega, h5, h6, h7, ?_, ?_, ?_⟩
      · rw [decContainerFixed, if_pos (by omega), hfl,
          inSub_dec hd dr _ hav (by simp only [DR.scope]; omega)]
        simp only [R.bind_ok, h1]
      · simp only [mergeSlots, h8]
      · simp only [containerFixedLen, h9]; rw [if_pos (by omega), hfl]
      · intro hd p hp
        rcases List.mem_cons.mp hp with rfl | hp'
        · rfl
        · exact h10 hd p hp'
    | false =>
      simp only [Bool.false_eq_true, if_false] at hfl
      simp only [serFixedPart, List.append_assoc] at hav
      simp only [fixedPartLen, Bool.false_eq_true, if_false] at hi ⊢
      simp only [serVarPart, List.length_append] at hlt ⊢
      obtain ⟨slots, dyn, dps, dvs, dr', h1, h2, h3, h4, h5, h6, h7, h8, h9, h10⟩ :=
        ih (off + e.length) (adv dr 4 (serFixedPart (off + e.length) ps ++ rest)) rest rfl
          (by simp only [adv_i, adv_max]; omega) (by omega)
      refine ⟨Option.none :: slots, d :: dyn, (false, e) :: dps, v :: dvs, dr', ?_, h2, h3,
        by simp only [adv_i] at h4; omega, DecAll.cons hd (by simpa using hfl) (by simp) h5, ?_, ?_, ?_, ?_, ?_⟩
      · rw [decContainerFixed, if_neg (by omega), readOffset_app dr off _ (by omega) hav (by omega)]
        simp only [R.bind_ok, h1]
        rfl
      · intro p hp
        rcases List.mem_cons.mp hp with rfl | hp'
        · rfl
        · exact h6 p hp'
      · simp only [encs_cons, List.flatten_cons, h7]
      · simp only [mergeSlots, h8]
      · simp only [containerFixedLen, h9]; rw [if_neg (by omega)]
      · intro hd; cases hd

theorem decContainer_ok {ds ps vs} (h : DecAll ds ps vs) (hvar : ∃ p ∈ ps, p.1 = false)
    (dr : DR) (rest : Bytes) (hav : dr.avail = serContainerParts ps ++ rest)
    (hsc : dr.scope = (serContainerParts ps).length)
    (hlt : (serContainerParts ps).length < 2 ^ 32) :
    ∃ dr', decContainer ds dr = .ok (vs, dr') ∧ dr'.avail = rest ∧ dr'.max = dr.max ∧
      dr'.i ≤ dr.i + (serContainerParts ps).length := by
  have h4 := fixedPartLen_ge4 ps hvar
  rw [serContainerParts_length] at hsc hlt ⊢
  simp only [serContainerParts, List.append_assoc] at hav
  have hi : dr.i + fixedPartLen ps ≤ dr.max := by simp only [DR.scope] at hsc; omega
  obtain ⟨slots, dyn, dps, dvs, dr1, h1, h2, h3, h4', h5, h6, h7, h8, h9, h10⟩ :=
    decContainerFixed_ok h (fixedPartLen ps) dr _ hav hi hlt
  have hdyn := decContainerDyn_ok dr.scope h5 h6 (fixedPartLen ps) dr1 rest
    (by rw [hsc, h7]) (by rw [h2, h7]) (by rw [← h7]; simp only [DR.scope] at hsc ⊢; omega)
  refine ⟨{ dr1 with avail := rest }, ?_, rfl, h3, by simp only; omega⟩
  unfold decContainer
  simp only [h1, R.bind_ok]
  cases h5 with
  | nil =>
    exfalso
    obtain ⟨p, hp, hpf⟩ := hvar
    have := h10 rfl p hp
    rw [hpf] at this; cases this
  | cons hd hfl hne hrest =>
    simp only [encs_cons, offNats] at hdyn ⊢
    simp only [List.isEmpty_cons, Bool.false_eq_true, or_self, if_false]
    rw [if_neg (by simp only [List.headD_cons]; omega), hdyn]
    simp only [R.bind_ok, h8]

end ZtypV.FlatProofs.Dec
