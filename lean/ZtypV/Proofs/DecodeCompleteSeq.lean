/-
C02 round trip, decoder completeness for vectors and lists: packed basic series, series of
fixed-size elements (`decodeFixedItems` over the concatenation) and offset tables (`offsetsOf` /
`serVarParts`: the first offset is `4·len`, the offsets are monotone and below 2^32, every
sub-scope is exactly one element's encoding) — the converse of Proofs/Offsets.lean.
-/
import ZtypV.Proofs.DecodeCompleteBase
namespace ZtypV.DecodeProofs
open ZtypV ZtypV.View

/-! ### series of fixed-size elements -/

theorem serList_flatten_length_fixed {e : Ty} (hfx : e.isFixed = true) : ∀ (vs : List Val),
    allHaveType e vs = true → (serList e vs).flatten.length = vs.length * e.fixedSize := by
  intro vs
  induction vs with
  | nil => intro _; simp [serList]
  | cons v vs ih =>
    intro hvs
    simp only [allHaveType, Bool.and_eq_true] at hvs
    simp only [serList, List.flatten_cons, List.length_append, List.length_cons, ih hvs.2,
      serialize_fixed_length v e hfx hvs.1, Nat.succ_mul]
    omega

theorem fixedItems_complete {h : HashFn} {e : Ty} (he : Complete h e) (hfx : e.isFixed = true)
    (hlt : e.fixedSize < 2 ^ 32) :
    ∀ (vs : List Val) (dr : DR) (rest : Bytes), allHaveType e vs = true →
      e.fixedSize ≤ dr.scope → dr.avail = (serList e vs).flatten ++ rest →
      Ok (decodeFixedItems (fun d => decode h e d) e.fixedSize vs.length dr)
        (fun r => r.1.length = vs.length ∧ r.2.avail = rest ∧ r.2.i = dr.i ∧ r.2.max = dr.max) := by
  intro vs
  induction vs with
  | nil =>
    intro dr rest _ _ hav
    rw [List.length_nil, decodeFixedItems]
    exact Ok.pure ⟨rfl, by simpa [serList] using hav, rfl, rfl⟩
  | cons v vs ih =>
    intro dr rest hvs hsc hav
    simp only [allHaveType, Bool.and_eq_true] at hvs
    simp only [serList, List.flatten_cons, List.append_assoc] at hav
    have hl := serialize_fixed_length v e hfx hvs.1
    have h1 := inSub_decode_complete he hvs.1 (by rw [hl]; exact hlt) hav (by rw [hl]; exact hsc)
    rw [hl] at h1
    rw [List.length_cons, decodeFixedItems]
    apply Ok.bind h1
    rintro ⟨x, d1⟩ ⟨ha, hi, hm⟩
    simp only at ha hi hm
    simp only []
    apply Ok.bind (ih d1 rest hvs.2 (by simp only [DR.scope, hi, hm]; exact hsc) ha)
    rintro ⟨xs, d2⟩ ⟨hl2, ha2, hi2, hm2⟩
    simp only at hl2 ha2 hi2 hm2
    exact Ok.pure ⟨by simp [hl2], ha2, by rw [hi2, hi], by rw [hm2, hm]⟩

/-! ### offset tables -/

/-- the offsets `offsetsOf` writes, as numbers -/
def natOffsets (start : Nat) : List Bytes → List Nat
  | [] => []
  | p :: ps => start :: natOffsets (start + p.length) ps

theorem offsetsOf_eq_map : ∀ (ps : List Bytes) (start : Nat),
    offsetsOf start ps = (natOffsets start ps).map (leBytes 4) := by
  intro ps
  induction ps with
  | nil => intro _; rfl
  | cons p ps ih => intro start; simp only [offsetsOf, natOffsets, List.map_cons, ih]

theorem natOffsets_length : ∀ (ps : List Bytes) (start : Nat),
    (natOffsets start ps).length = ps.length := by
  intro ps
  induction ps with
  | nil => intro _; rfl
  | cons p ps ih => intro start; simp only [natOffsets, List.length_cons, ih]

theorem natOffsets_mono : ∀ (ps : List Bytes) (start p : Nat), p ≤ start →
    Mono p (natOffsets start ps) := by
  intro ps
  induction ps with
  | nil => intro _ _ _; trivial
  | cons q ps ih =>
    intro start p hp
    exact ⟨hp, ih _ _ (Nat.le_add_right _ _)⟩

theorem natOffsets_le : ∀ (ps : List Bytes) (start : Nat), ∀ o ∈ natOffsets start ps,
    o ≤ start + ps.flatten.length := by
  intro ps
  induction ps with
  | nil => intro _ o ho; cases ho
  | cons q ps ih =>
    intro start o ho
    simp only [natOffsets, List.mem_cons] at ho
    simp only [List.flatten_cons, List.length_append]
    rcases ho with rfl | ho
    · omega
    · have := ih _ o ho
      omega

theorem offsets_flatten_length (os : List Nat) :
    ((os.map (leBytes 4)).flatten).length = 4 * os.length := by
  induction os with
  | nil => rfl
  | cons o os ih =>
    simp only [List.map_cons, List.flatten_cons, List.length_append, leBytes_length, ih,
      List.length_cons]
    omega

/-- a monotone table of 32-bit offsets is read back as written -/
theorem readOffsets_complete : ∀ (os : List Nat) (prev : Nat) (dr : DR) (rest : Bytes),
    Mono prev os → (∀ o ∈ os, o < 2 ^ 32) → dr.i + 4 * os.length ≤ dr.max →
    dr.avail = (os.map (leBytes 4)).flatten ++ rest →
    Ok (readOffsets os.length prev dr)
      (fun r => r.1 = os ∧ r.2.avail = rest ∧ r.2.i = dr.i + 4 * os.length ∧ r.2.max = dr.max) := by
  intro os
  induction os with
  | nil =>
    intro prev dr rest _ _ _ hav
    rw [List.length_nil, readOffsets]
    exact Ok.pure ⟨rfl, by simpa using hav, rfl, rfl⟩
  | cons o os ih =>
    intro prev dr rest hm hlt hi hav
    simp only [List.map_cons, List.flatten_cons, List.append_assoc] at hav
    simp only [List.length_cons] at hi
    rw [List.length_cons, readOffsets]
    apply Ok.bind (readOffset_complete hav (hlt o (by simp)) (by omega))
    rintro ⟨o', d1⟩ ⟨ho, ha, hi1, hm1⟩
    simp only at ho ha hi1 hm1
    subst ho
    simp only []
    apply Ok.ite_err (by have := hm.1; omega)
    apply Ok.bind (ih o' d1 rest hm.2 (fun x hx => hlt x (by simp [hx])) (by omega) ha)
    rintro ⟨os', d2⟩ ⟨hos, ha2, hi2, hm2⟩
    simp only at hos ha2 hi2 hm2
    subst hos
    exact Ok.pure ⟨rfl, ha2, by rw [hi2, hi1]; omega, by rw [hm2, hm1]⟩

/-- items delimited by the offsets of their own encodings: every sub-scope is exactly one
    element's encoding, the last one ends at `scope` -/
theorem offsetItems_complete {h : HashFn} {e : Ty} (he : Complete h e) (scope : Nat)
    (hs32 : scope < 2 ^ 32) :
    ∀ (vs : List Val) (v : Val) (o : Nat) (dr : DR) (rest : Bytes), hasType e v = true →
      allHaveType e vs = true → o + (serList e (v :: vs)).flatten.length = scope →
      (serList e (v :: vs)).flatten.length ≤ dr.scope →
      dr.avail = (serList e (v :: vs)).flatten ++ rest →
      Ok (decodeOffsetItems (fun d => decode h e d) scope (natOffsets o (serList e (v :: vs))) dr)
        (fun r => r.1.length = vs.length + 1 ∧ r.2.avail = rest) := by
  intro vs
  induction vs with
  | nil =>
    intro v o dr rest hv _ hsum hsc hav
    simp only [serList, List.flatten_cons, List.flatten_nil, List.append_nil] at hsum hsc hav
    simp only [serList, natOffsets]
    rw [decodeOffsetItems]
    apply Ok.ite_err (by omega)
    have hspan : scope - o = (serialize e v).length := by omega
    rw [hspan]
    apply Ok.bind (inSub_decode_complete he hv (by omega) hav hsc)
    rintro ⟨x, d1⟩ ⟨ha, _, _⟩
    exact Ok.pure ⟨rfl, ha⟩
  | cons v' vs ih =>
    intro v o dr rest hv hvs hsum hsc hav
    simp only [allHaveType, Bool.and_eq_true] at hvs
    have hfl : (serList e (v :: v' :: vs)).flatten
        = serialize e v ++ (serList e (v' :: vs)).flatten := by
      simp only [serList, List.flatten_cons]
    rw [hfl, List.length_append] at hsum hsc
    rw [hfl, List.append_assoc] at hav
    have hno : natOffsets o (serList e (v :: v' :: vs))
        = o :: (o + (serialize e v).length) ::
            natOffsets (o + (serialize e v).length + (serialize e v').length) (serList e vs) := by
      simp only [serList, natOffsets]
    have hno' : natOffsets (o + (serialize e v).length) (serList e (v' :: vs))
        = (o + (serialize e v).length) ::
            natOffsets (o + (serialize e v).length + (serialize e v').length) (serList e vs) := by
      simp only [serList, natOffsets]
    rw [hno, decodeOffsetItems, Nat.add_sub_cancel_left]
    apply Ok.bind (inSub_decode_complete he hv (by omega) hav (by omega))
    rintro ⟨x, d1⟩ ⟨ha, hi, hm⟩
    simp only at ha hi hm
    simp only []
    rw [← hno']
    apply Ok.bind (ih v' (o + (serialize e v).length) d1 rest hvs.1 hvs.2 (by omega)
      (by simp only [DR.scope, hi, hm]; simp only [DR.scope] at hsc; omega) ha)
    rintro ⟨xs, d2⟩ ⟨hl2, ha2⟩
    simp only at hl2 ha2
    exact Ok.pure ⟨by simp [hl2], ha2⟩

/-- THE offset-table lemma, forward direction: on the encoding `serVarParts` of a non-empty
    series the three steps of the decoder (first offset, the remaining offsets, the items)
    all succeed -/
theorem varSeries_complete {h : HashFn} {e : Ty} (he : Complete h e) (v : Val) (vs : List Val)
    (dr : DR) (rest : Bytes) (hv : hasType e v = true) (hvs : allHaveType e vs = true)
    (hlt : (serVarParts (serList e (v :: vs))).length < 2 ^ 32)
    (hsc : dr.scope = (serVarParts (serList e (v :: vs))).length) (hi : dr.i ≤ dr.max)
    (hav : dr.avail = serVarParts (serList e (v :: vs)) ++ rest) :
    Ok dr.readOffset (fun r1 => r1.1 = 4 * (vs.length + 1) ∧
      Ok (readOffsets vs.length r1.1 r1.2) (fun r2 =>
        Ok (decodeOffsetItems (fun d => decode h e d) dr.scope (r1.1 :: r2.1) r2.2)
          (fun r3 => r3.1.length = vs.length + 1 ∧ r3.2.avail = rest))) := by
  have hplen : (serList e (v :: vs)).length = vs.length + 1 := by
    rw [serList_length]; rfl
  have hno : natOffsets (4 * (vs.length + 1)) (serList e (v :: vs))
      = 4 * (vs.length + 1) ::
          natOffsets (4 * (vs.length + 1) + (serialize e v).length) (serList e vs) := by
    simp only [serList, natOffsets]
  have hoslen : (natOffsets (4 * (vs.length + 1) + (serialize e v).length) (serList e vs)).length
      = vs.length := by rw [natOffsets_length, serList_length]
  unfold serVarParts at hlt hsc hav
  rw [hplen, offsetsOf_eq_map, hno] at hlt hsc hav
  simp only [List.map_cons, List.flatten_cons, List.append_assoc] at hav
  simp only [List.map_cons, List.flatten_cons, List.length_append, leBytes_length,
    offsets_flatten_length, hoslen] at hlt hsc
  have hflen : (serList e (v :: vs)).flatten.length
      = (serialize e v).length + (serList e vs).flatten.length := by
    simp only [serList, List.flatten_cons, List.length_append]
  rw [hflen] at hlt hsc
  simp only [DR.scope] at hsc
  apply Ok.mono (readOffset_complete hav (by omega) (by omega))
  rintro ⟨first, d1⟩ ⟨hfirst, ha1, hi1, hm1⟩
  simp only at hfirst ha1 hi1 hm1
  subst hfirst
  refine ⟨rfl, ?_⟩
  simp only []
  have hro := readOffsets_complete _ (4 * (vs.length + 1)) d1 _
    (natOffsets_mono (serList e vs) _ _ (Nat.le_add_right _ _))
    (fun o ho => by
      have := natOffsets_le _ _ o ho
      omega)
    (by rw [hoslen]; omega) ha1
  rw [hoslen] at hro
  apply Ok.mono hro
  rintro ⟨os, d2⟩ ⟨hos, ha2, hi2, hm2⟩
  simp only at hos ha2 hi2 hm2
  subst hos
  simp only []
  rw [← hno]
  apply offsetItems_complete he (dr.max - dr.i) (by omega) vs v _ d2 rest hv hvs
  · rw [hflen]; omega
  · rw [hflen]; simp only [DR.scope, hi2, hm2]; omega
  · rw [ha2]

theorem serVarParts_length (ps : List Bytes) :
    (serVarParts ps).length = 4 * ps.length + ps.flatten.length := by
  unfold serVarParts
  rw [List.length_append, offsetsOf_eq_map, offsets_flatten_length, natOffsets_length]

/-! ### vector -/

theorem vector_complete {h : HashFn} {e : Ty} (he : Complete h e) (hwe : e.wf = true) (k : Nat)
    (hk : 1 ≤ k) : Complete h (.vector e k) := by
  intro v dr rest hv hlt hsc hi hav
  cases v <;> simp [hasType] at hv
  rename_i vs
  obtain ⟨hvl, hvs⟩ := hv
  rw [decode]
  simp only []
  by_cases hb : isBasicElem e = true
  · rw [if_pos hb]
    obtain ⟨b, rfl⟩ := basic_is_uint hb
    have hfx : (Ty.uint b).isFixed = true := rfl
    simp only [serialize, Ty.isFixed, if_true] at hlt hsc hav
    have hfl := serList_flatten_length_fixed hfx vs hvs
    simp only [Ty.fixedSize] at hfl ⊢
    rw [hfl, hvl] at hsc
    apply Ok.ite_err (by omega)
    have hr := read_complete hav (by simp only [DR.scope] at hsc; rw [hfl, hvl]; omega)
    rw [hfl, hvl, ← hsc] at hr
    apply Ok.bind hr
    rintro ⟨bs, dr'⟩ ⟨h1, h2, _, _⟩
    simp only at h1 h2
    subst h1
    simp only []
    refine Ok.bind (Q := fun _ => True) (Ok.orNil ?_) (fun c _ => Ok.pure h2)
    simp only [seriesDepth, hb, if_true, Ty.fixedSize]
    apply fill_bytes_ok
    rw [hfl, hvl]
    exact basic_chunks_le b k k (wf_uint hwe) (Nat.le_refl _)
  · rw [if_neg hb]
    by_cases hf : e.isFixed = true
    · rw [if_pos hf]
      simp only [serialize, hf, if_true] at hlt hsc hav
      have hfl := serList_flatten_length_fixed hf vs hvs
      rw [hfl, hvl] at hsc hlt
      apply Ok.ite_err (by omega)
      have hsz : e.fixedSize ≤ k * e.fixedSize := Nat.le_mul_of_pos_left _ (by omega)
      have hit := fixedItems_complete he hf (by omega) vs dr rest hvs (by omega) hav
      rw [hvl] at hit
      apply Ok.bind hit
      rintro ⟨ns, dr'⟩ ⟨hl, h2, _, _⟩
      simp only at hl h2
      simp only []
      refine Ok.bind (Q := fun _ => True) (Ok.orNil ?_) (fun c _ => Ok.pure h2)
      exact fill_nodes_ok h ns k (by omega)
    · rw [if_neg hf, if_neg (by omega)]
      have hf' : e.isFixed = false := by simpa using hf
      simp only [serialize, hf', Bool.false_eq_true, if_false] at hlt hsc hav
      cases vs with
      | nil => simp at hvl; omega
      | cons v0 vs' =>
        simp only [allHaveType, Bool.and_eq_true] at hvs
        simp only [List.length_cons] at hvl
        apply Ok.bind (varSeries_complete he v0 vs' dr rest hvs.1 hvs.2 hlt hsc hi hav)
        rintro ⟨first, d1⟩ ⟨hfirst, h2⟩
        simp only at hfirst h2
        subst hfirst
        simp only []
        apply Ok.ite_err (by omega)
        have hk1 : k - 1 = vs'.length := by omega
        rw [hk1]
        apply Ok.bind h2
        rintro ⟨os, d2⟩ h3
        simp only at h3
        simp only []
        apply Ok.bind h3
        rintro ⟨ns, d3⟩ ⟨hl, ha3⟩
        simp only at hl ha3
        simp only []
        refine Ok.bind (Q := fun _ => True) (Ok.orNil ?_) (fun c _ => Ok.pure ha3)
        exact fill_nodes_ok h ns k (by omega)

/-! ### list -/

theorem serialize_list_nil (e : Ty) (lim : Nat) : serialize (.list e lim) (.seq []) = [] := by
  by_cases hf : e.isFixed = true <;> simp [serialize, serList, hf, serVarParts, offsetsOf]

theorem list_complete {h : HashFn} {e : Ty} (he : Complete h e) (hwe : e.wf = true) (lim : Nat) :
    Complete h (.list e lim) := by
  intro v dr rest hv hlt hsc hi hav
  cases v <;> simp [hasType] at hv
  rename_i vs
  obtain ⟨hvl, hvs⟩ := hv
  rw [decode]
  simp only []
  by_cases hb : isBasicElem e = true
  · rw [if_pos hb]
    obtain ⟨b, rfl⟩ := basic_is_uint hb
    have hfx : (Ty.uint b).isFixed = true := rfl
    have hb0 : 0 < b := by rcases wf_uint hwe with rfl | rfl | rfl | rfl | rfl <;> omega
    simp only [serialize, Ty.isFixed, if_true] at hlt hsc hav
    have hfl := serList_flatten_length_fixed hfx vs hvs
    simp only [Ty.fixedSize] at hfl ⊢
    rw [hfl] at hsc
    have hdiv : dr.scope / b = vs.length := by rw [hsc]; exact Nat.mul_div_cancel _ hb0
    simp only [hdiv]
    apply Ok.ite_err (by omega)
    apply Ok.ite_err (by omega)
    by_cases h0 : vs.length = 0
    · rw [if_pos h0]
      have : vs = [] := List.eq_nil_of_length_eq_zero h0
      subst this
      exact Ok.pure (by simpa [serList] using hav)
    · rw [if_neg h0]
      have hr := read_complete hav (by simp only [DR.scope] at hsc; rw [hfl]; omega)
      rw [hfl, ← hsc] at hr
      apply Ok.bind hr
      rintro ⟨bs, dr'⟩ ⟨h1, h2, _, _⟩
      simp only at h1 h2
      subst h1
      simp only []
      refine Ok.bind (Q := fun _ => True) (Ok.orNil ?_) (fun c _ => Ok.pure h2)
      simp only [seriesDepth, hb, if_true, Ty.fixedSize]
      apply fill_bytes_ok
      rw [hfl]
      exact basic_chunks_le b vs.length lim (wf_uint hwe) hvl
  · rw [if_neg hb]
    cases vs with
    | nil =>
      rw [serialize_list_nil] at hsc hav
      rw [if_pos (by simpa using hsc)]
      exact Ok.pure (by simpa using hav)
    | cons v0 vs' =>
      simp only [List.length_cons] at hvl
      by_cases hf : e.isFixed = true
      · simp only [serialize, hf, if_true] at hlt hsc hav
        have hfl := serList_flatten_length_fixed hf (v0 :: vs') hvs
        simp only [List.length_cons] at hfl
        rw [hfl] at hsc hlt
        have hpos := fixedSize_pos e hwe hf
        have hsz : e.fixedSize ≤ (vs'.length + 1) * e.fixedSize :=
          Nat.le_mul_of_pos_left _ (by omega)
        have hdiv : dr.scope / e.fixedSize = vs'.length + 1 := by
          rw [hsc]; exact Nat.mul_div_cancel _ hpos
        rw [if_neg (by omega), if_pos hf]
        apply Ok.ite_err (by omega)
        simp only [hdiv]
        apply Ok.ite_err (by omega)
        apply Ok.ite_err (by omega)
        have hit := fixedItems_complete he hf (by omega) (v0 :: vs') dr rest hvs (by omega) hav
        simp only [List.length_cons] at hit
        apply Ok.bind hit
        rintro ⟨ns, dr'⟩ ⟨hl, h2, _, _⟩
        simp only at hl h2
        simp only []
        refine Ok.bind (Q := fun _ => True) (Ok.orNil ?_) (fun c _ => Ok.pure h2)
        exact fill_nodes_ok h ns lim (by omega)
      · have hf' : e.isFixed = false := by simpa using hf
        simp only [serialize, hf', Bool.false_eq_true, if_false] at hlt hsc hav
        have hlen := serVarParts_length (serList e (v0 :: vs'))
        rw [serList_length, List.length_cons] at hlen
        rw [if_neg (by omega), if_neg hf]
        simp only [allHaveType, Bool.and_eq_true] at hvs
        apply Ok.bind (varSeries_complete he v0 vs' dr rest hvs.1 hvs.2 hlt hsc hi hav)
        rintro ⟨first, d1⟩ ⟨hfirst, h2⟩
        simp only at hfirst h2
        subst hfirst
        simp only []
        apply Ok.ite_err (by omega)
        apply Ok.ite_err (by omega)
        apply Ok.ite_err (by omega)
        have hk1 : 4 * (vs'.length + 1) / 4 - 1 = vs'.length := by omega
        rw [hk1]
        apply Ok.bind h2
        rintro ⟨os, d2⟩ h3
        simp only at h3
        simp only []
        apply Ok.bind h3
        rintro ⟨ns, d3⟩ ⟨hl, ha3⟩
        simp only at hl ha3
        simp only []
        refine Ok.bind (Q := fun _ => True) (Ok.orNil ?_) (fun c _ => Ok.pure ha3)
        exact fill_nodes_ok h ns lim (by omega)

end ZtypV.DecodeProofs
