/-
The representation relation `Rep h t v n` (Proofs/Rep.lean) at the typed view layer — summary
file.  `Rep` generalises "n = construct h t v": zero padding of a series may be a summary leaf
or a materialised zero tree, so it is closed under the mutators (C04 / C12).  Proved for every
pair hash `h`:

  RepView1  `construct_rep`  the constructor route builds a `Rep` backing
            `rep_root`       root of a `Rep` backing = spec `htr`          (needs `noBoolSeries`)
  RepView2  `rep_getters`    typed getters on a `Rep` backing return the value   (`inRange`)
  RepView3  `rep_ser`, `rep_ser_sizeOk`, `rep_len`   `Serialize` / `ValueByteLength`
  RepView4  `default_rep`    the default backing is a `Rep` backing of the default value
            (+ tree-level `fillToDepth_zero_shape`, `fillToDepth_full_shape`, `fillToLength_shape`)

The tree layer is used only through Proofs/Shape.lean: `fill_shape`, `shape_root`,
`listShape_root`, `shape_get`, `listShape_get`, `listShape_length`.
-/
import ZtypV.Proofs.RepView1
import ZtypV.Proofs.RepView2
import ZtypV.Proofs.RepView3
import ZtypV.Proofs.RepView4
import ZtypV.Proofs.ViewConstruct
namespace ZtypV
open View

/-- everything the read side says about a `Rep` backing, in one statement -/
theorem rep_all (h : HashFn) {t : Ty} {v : Val} {n : Node} (hwf : t.wf = true)
    (hr : inRange t = true) (hty : hasType t v = true) (hs : SizeOk t v) (hrep : Rep h t v n) :
    viewVal t n = .ok v ∧ serializeView t n = .ok (serialize t v) ∧
      valueByteLength t n = .ok (serialize t v).length ∧
      (noBoolSeries t = true → n.root h = htr h t v) :=
  ⟨rep_getters h hwf hr hty hrep, rep_ser_sizeOk h hwf hr hty hs hrep, rep_len h hwf hr hty hrep,
    fun hnb => rep_root h hwf hnb hty hrep⟩

/-! ### non-vacuity -/

/-- a non-commutative toy hash for the examples -/
def rvExH : HashFn := fun a b => (a ++ b.reverse).take 32

example : c01ExTy.wf = true := by decide
example : noBoolSeries c01ExTy = true := by decide
example : inRange c01ExTy = true := by decide
example : hasType c01ExTy c01ExVal = true := by decide
theorem rvEx_size : (serialize c01ExTy c01ExVal).length < 2 ^ 32 := by decide +kernel

/-- the constructed backing of a nested value using every type constructor is a `Rep` backing,
    and all read-side conclusions apply to it -/
example : ∃ n, construct rvExH c01ExTy c01ExVal = .ok n ∧ Rep rvExH c01ExTy c01ExVal n ∧
    n.root rvExH = htr rvExH c01ExTy c01ExVal ∧ viewVal c01ExTy n = .ok c01ExVal ∧
    serializeView c01ExTy n = .ok (serialize c01ExTy c01ExVal) := by
  obtain ⟨n, hn⟩ := construct_total rvExH c01ExVal c01ExTy (by decide) (by decide)
  have hrep := construct_rep rvExH (by decide) (by decide) hn
  exact ⟨n, hn, hrep, rep_root rvExH (by decide) (by decide) (by decide) hrep,
    rep_getters rvExH (by decide) (by decide) (by decide) hrep,
    rep_ser rvExH (by decide) (by decide) (by decide) rvEx_size hrep⟩

/-- the default backing -/
example : ∃ n, defaultNode rvExH c01ExTy = .ok n ∧ Rep rvExH c01ExTy (defaultVal c01ExTy) n := by
  obtain ⟨n, hn, _⟩ := defaultNode_root rvExH c01ExTy (by decide) (by decide)
  exact ⟨n, hn, default_rep rvExH (by decide) hn⟩

/-- `Rep` is strictly more general than "constructed": `List[uint256, 4]` holding `[1]` with the
    right half of the contents *materialised* (as `Pop` leaves it) instead of summarised -/
def rvExT : Ty := .list (.uint 32) 4
def rvExV : Val := .seq [.num 1]
def rvExN : Node :=
  .pair (.pair (.pair (.leaf (chunkOf (leBytes 32 1))) (.leaf z0)) (.pair (.leaf z0) (.leaf z0)))
    (lengthNode 1)

theorem rvEx_rep : Rep rvExH rvExT rvExV rvExN := by
  simp only [rvExT, rvExV, Rep, isBasicElem, if_true]
  refine ⟨by decide, _, rfl, ?_⟩
  have hd : seriesDepth (.uint 32) 4 = 2 := by decide
  have hp : packedNodes (serList (.uint 32) [.num 1]).flatten = [.leaf (chunkOf (leBytes 32 1))] := by
    decide
  rw [hd, hp]
  apply seqShape_pair_intro (by simp)
  · apply seqShape_pair_intro (by simp)
    · simp only [SeqShape, Nat.pow_zero, Nat.pow_succ, List.take_succ_cons, List.take_zero]
    · exact seqShape_nil_iff.mpr (ZeroTree.leaf 0)
  · exact seqShape_nil_iff.mpr (ZeroTree.pair (ZeroTree.leaf 0) (ZeroTree.leaf 0))

example : ∃ n, construct rvExH rvExT rvExV = .ok n ∧ n ≠ rvExN := ⟨_, rfl, by decide⟩

example : rvExN.root rvExH = htr rvExH rvExT rvExV ∧ viewVal rvExT rvExN = .ok rvExV ∧
    serializeView rvExT rvExN = .ok (serialize rvExT rvExV) ∧
    valueByteLength rvExT rvExN = .ok 32 :=
  ⟨rep_root rvExH (by decide) (by decide) (by decide) rvEx_rep,
    rep_getters rvExH (by decide) (by decide) (by decide) rvEx_rep,
    rep_ser rvExH (by decide) (by decide) (by decide) (by decide) rvEx_rep,
    rep_len rvExH (by decide) (by decide) (by decide) rvEx_rep⟩

end ZtypV
