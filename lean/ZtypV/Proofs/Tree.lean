/-
Helper definitions and lemmas for C11 (tree navigation laws).  Core Lean only.
Everything lives in the namespace `ZtypV.TreeNav` (other proof files of the project have their
own copies of a few of the small unfolding lemmas in `ZtypV`).
-/
import ZtypV.Model.TreeG
import ZtypV.Proofs.Fill
namespace ZtypV.TreeNav

/-! ### `Except` plumbing -/

theorem R.map_eq_ok {α β : Type} {f : α → β} {x : R α} {y : β} :
    f <$> x = Except.ok y ↔ ∃ a, x = Except.ok a ∧ y = f a := by
  cases x with
  | error e => simp
  | ok a => simp [eq_comm]

theorem R.map_ok_iff {α β : Type} {f : α → β} {x : R α} :
    (∃ y, f <$> x = Except.ok y) ↔ ∃ a, x = Except.ok a := by
  cases x <;> simp

theorem R.map_eq_error {α β : Type} {f : α → β} {x : R α} {e : Err} :
    f <$> x = Except.error e ↔ x = Except.error e := by
  cases x <;> simp

theorem R.bind_eq_ok {α β : Type} {x : R α} {f : α → R β} {y : β} :
    (x >>= f) = Except.ok y ↔ ∃ a, x = Except.ok a ∧ f a = Except.ok y := by
  cases x with
  | error e => simp [bind, Except.bind]
  | ok a => simp [bind, Except.bind]

/-! ### unfolding equations -/

@[simp] theorem getNode_nil (n : Node) : getNode n [] = .ok n := by cases n <;> rfl
@[simp] theorem getNode_leaf_cons (x : Root) (b : Bool) (bs : List Bool) :
    getNode (.leaf x) (b :: bs) = .error .nav := rfl
@[simp] theorem getNode_pair_cons (l r : Node) (b : Bool) (bs : List Bool) :
    getNode (.pair l r) (b :: bs) = if b then getNode r bs else getNode l bs := rfl

@[simp] theorem setNode_nil (h : HashFn) (n : Node) (e : Bool) (v : Node) :
    setNode h n [] e v = .ok v := by cases n <;> rfl
@[simp] theorem setNode_pair_cons (h : HashFn) (l r : Node) (b : Bool) (bs : List Bool) (e : Bool) (v : Node) :
    setNode h (.pair l r) (b :: bs) e v =
      if b then (fun r' => Node.pair l r') <$> setNode h r bs e v
      else (fun l' => Node.pair l' r) <$> setNode h l bs e v := rfl
theorem setNode_leaf_cons (h : HashFn) (x : Root) (b : Bool) (bs : List Bool) (e : Bool) (v : Node) :
    setNode h (.leaf x) (b :: bs) e v =
      if e && x == zh h (bs.length + 1) then
        (if b then (fun r' => Node.pair (zeroNode h bs.length) r') <$> setNode h (zeroNode h bs.length) bs e v
         else (fun l' => Node.pair l' (zeroNode h bs.length)) <$> setNode h (zeroNode h bs.length) bs e v)
      else .error .nav := rfl
@[simp] theorem setNode_leaf_cons_false (h : HashFn) (x : Root) (b : Bool) (bs : List Bool) (v : Node) :
    setNode h (.leaf x) (b :: bs) false v = .error .nav := by
  simp [setNode_leaf_cons]

/-! ### composition of paths -/

theorem getNode_append (n : Node) (p q : List Bool) :
    getNode n (p ++ q) = (getNode n p >>= fun s => getNode s q) := by
  induction p generalizing n with
  | nil => simp [bind, Except.bind]
  | cons b bs ih =>
    cases n with
    | leaf x => simp [bind, Except.bind]
    | pair l r => cases b <;> simp [ih]

theorem getNode_append_of_ok {n s : Node} {p : List Bool} (hp : getNode n p = .ok s) (q : List Bool) :
    getNode n (p ++ q) = getNode s q := by
  rw [getNode_append, hp]; rfl

/-! ### read-back -/

theorem getNode_setNode (h : HashFn) (n : Node) (p : List Bool) (e : Bool) (v n' : Node) :
    setNode h n p e v = .ok n' → getNode n' p = .ok v := by
  induction p generalizing n n' with
  | nil => intro hs; simp at hs; subst hs; simp
  | cons b bs ih =>
    intro hs
    cases n with
    | pair l r =>
      cases b <;> simp [R.map_eq_ok] at hs <;> obtain ⟨a, ha, rfl⟩ := hs <;> simpa using ih _ _ ha
    | leaf x =>
      rw [setNode_leaf_cons] at hs
      split at hs
      · cases b <;> simp [R.map_eq_ok] at hs <;> obtain ⟨a, ha, rfl⟩ := hs <;> simpa using ih _ _ ha
      · cases hs

/-! ### errors -/

theorem getNode_error_nav (n : Node) (p : List Bool) (er : Err) :
    getNode n p = .error er → er = .nav := by
  induction p generalizing n with
  | nil => simp
  | cons b bs ih =>
    cases n with
    | leaf x => intro hs; simp at hs; exact hs.symm
    | pair l r => cases b <;> simp <;> exact ih _

theorem setNode_error_nav (h : HashFn) (n : Node) (p : List Bool) (e : Bool) (v : Node) (er : Err) :
    setNode h n p e v = .error er → er = .nav := by
  induction p generalizing n with
  | nil => simp
  | cons b bs ih =>
    cases n with
    | pair l r => cases b <;> simp [R.map_eq_error] <;> exact ih _
    | leaf x =>
      rw [setNode_leaf_cons]
      split
      · cases b <;> simp [R.map_eq_error] <;> exact ih _
      · intro hs; cases hs; rfl

/-- whether (and how) the setter fails does not depend on the node being bound -/
theorem setNode_error_indep (h : HashFn) (n : Node) (p : List Bool) (e : Bool) (v w : Node) (er : Err) :
    setNode h n p e v = .error er → setNode h n p e w = .error er := by
  induction p generalizing n with
  | nil => simp
  | cons b bs ih =>
    cases n with
    | pair l r => cases b <;> simp [R.map_eq_error] <;> exact ih _
    | leaf x =>
      rw [setNode_leaf_cons, setNode_leaf_cons]
      split
      · cases b <;> simp [R.map_eq_error] <;> exact ih _
      · exact id

theorem setNode_ok_indep (h : HashFn) (n : Node) (p : List Bool) (e : Bool) (v w : Node) (n' : Node) :
    setNode h n p e v = .ok n' → ∃ n'', setNode h n p e w = .ok n'' := by
  intro hs
  cases hw : setNode h n p e w with
  | ok n'' => exact ⟨n'', rfl⟩
  | error er => rw [setNode_error_indep h n p e w v er hw] at hs; cases hs

/-- without expansion the setter succeeds exactly where the parent chain exists -/
theorem setNode_false_ok_iff_get (h : HashFn) (n : Node) (p : List Bool) (v : Node) :
    (∃ n', setNode h n p false v = .ok n') ↔ (∃ s, getNode n p = .ok s) := by
  induction p generalizing n with
  | nil => simp
  | cons b bs ih =>
    cases n with
    | leaf x => simp
    | pair l r => cases b <;> simp [R.map_ok_iff] <;> exact ih _

/-! ### missing positions -/

theorem getNode_through_leaf {n : Node} {q : List Bool} {x : Root} (hq : getNode n q = .ok (.leaf x))
    (b : Bool) (r : List Bool) : getNode n (q ++ b :: r) = .error .nav := by
  rw [getNode_append_of_ok hq]; rfl

theorem setNode_through_leaf (h : HashFn) {n : Node} {q : List Bool} {x : Root}
    (hq : getNode n q = .ok (.leaf x)) (b : Bool) (r : List Bool) (v : Node) :
    setNode h n (q ++ b :: r) false v = .error .nav := by
  induction q generalizing n with
  | nil => simp at hq; subst hq; simp
  | cons a q ih =>
    cases n with
    | leaf y => simp at hq
    | pair l rr =>
      cases a <;> simp at hq <;> simp [ih hq]

theorem setNode_expand_nonzero (h : HashFn) {n : Node} {q : List Bool} {x : Root}
    (hq : getNode n q = .ok (.leaf x)) (b : Bool) (r : List Bool) (hx : x ≠ zh h (r.length + 1)) (v : Node) :
    setNode h n (q ++ b :: r) true v = .error .nav := by
  induction q generalizing n with
  | nil =>
    simp at hq; subst hq
    have : (x == zh h (r.length + 1)) = false := by simpa using hx
    simp [setNode_leaf_cons, this]
  | cons a q ih =>
    cases n with
    | leaf y => simp at hq
    | pair l rr =>
      cases a <;> simp at hq <;> simp [ih hq]

/-! ### siblings of the written path -/

/-- The sibling of every step of the written path is the original sibling; where the original
    tree had no such position (inside an expanded zero summary) it is the zero node of the
    remaining height. -/
theorem setNode_sibling (h : HashFn) (n : Node) (c : List Bool) (b : Bool) (p' : List Bool) (e : Bool)
    (v n' : Node) :
    setNode h n (c ++ b :: p') e v = .ok n' →
    ∃ s, getNode n' (c ++ [!b]) = .ok s ∧
      (getNode n (c ++ [!b]) = .ok s ∨
        (e = true ∧ getNode n (c ++ [!b]) = .error .nav ∧ s = zeroNode h p'.length)) := by
  induction c generalizing n n' with
  | nil =>
    intro hs
    cases n with
    | pair l r =>
      cases b <;> simp [R.map_eq_ok] at hs <;> obtain ⟨a, _, rfl⟩ := hs <;> simp
    | leaf x =>
      simp only [List.nil_append] at hs
      rw [setNode_leaf_cons] at hs
      split at hs
      · rename_i hc
        have he : e = true := by cases e <;> simp_all
        cases b <;> simp [R.map_eq_ok] at hs <;> obtain ⟨a, _, rfl⟩ := hs <;> simp [he]
      · cases hs
  | cons a c ih =>
    intro hs
    cases n with
    | pair l r =>
      cases a <;> simp [R.map_eq_ok] at hs <;> obtain ⟨t, ht, rfl⟩ := hs <;> simpa using ih _ _ ht
    | leaf x =>
      simp only [List.cons_append] at hs
      rw [setNode_leaf_cons] at hs
      split at hs
      · rename_i hc
        have he : e = true := by cases e <;> simp_all
        cases a <;> simp [R.map_eq_ok] at hs <;> obtain ⟨t, ht, rfl⟩ := hs <;>
          obtain ⟨s, hs1, hs2⟩ := ih _ _ ht <;>
          · refine ⟨s, by simpa using hs1, Or.inr ⟨he, by simp, ?_⟩⟩
            rcases hs2 with h2 | ⟨_, _, h2⟩
            · cases c <;> simp [zeroNode] at h2
            · exact h2
      · cases hs

/-- positions that branch off the written path and exist in the original keep their node -/
theorem getNode_setNode_diverge (h : HashFn) (n : Node) (c : List Bool) (b : Bool) (p' q' : List Bool)
    (e : Bool) (v n' x : Node) :
    setNode h n (c ++ b :: p') e v = .ok n' →
    getNode n (c ++ (!b) :: q') = .ok x → getNode n' (c ++ (!b) :: q') = .ok x := by
  intro hs hg
  obtain ⟨s, hs1, hs2⟩ := setNode_sibling h n c b p' e v n' hs
  have e1 : c ++ (!b) :: q' = (c ++ [!b]) ++ q' := by simp
  rw [e1] at hg ⊢
  rcases hs2 with h2 | ⟨_, h2, _⟩
  · rw [getNode_append_of_ok hs1]; rwa [getNode_append_of_ok h2] at hg
  · rw [getNode_append, h2] at hg; cases hg

/-- without expansion the two trees agree on every diverging position, also on missing ones -/
theorem getNode_setNode_diverge_false (h : HashFn) (n : Node) (c : List Bool) (b : Bool) (p' q' : List Bool)
    (v n' : Node) :
    setNode h n (c ++ b :: p') false v = .ok n' →
    getNode n' (c ++ (!b) :: q') = getNode n (c ++ (!b) :: q') := by
  intro hs
  obtain ⟨s, hs1, hs2⟩ := setNode_sibling h n c b p' false v n' hs
  have e1 : c ++ (!b) :: q' = (c ++ [!b]) ++ q' := by simp
  rw [e1]
  rcases hs2 with h2 | ⟨h2, _, _⟩
  · rw [getNode_append_of_ok hs1, getNode_append_of_ok h2]
  · cases h2

/-- two paths neither of which is a prefix of the other split after a common prefix -/
theorem diverge_of_not_prefix (p q : List Bool) (h1 : ¬ p <+: q) (h2 : ¬ q <+: p) :
    ∃ c b p' q', p = c ++ b :: p' ∧ q = c ++ (!b) :: q' := by
  induction p generalizing q with
  | nil => exact absurd List.nil_prefix h1
  | cons a p ih =>
    cases q with
    | nil => exact absurd List.nil_prefix h2
    | cons a' q =>
      by_cases haa : a = a'
      · subst haa
        have h1' : ¬ p <+: q := fun hp => h1 ((List.cons_prefix_cons).2 ⟨rfl, hp⟩)
        have h2' : ¬ q <+: p := fun hp => h2 ((List.cons_prefix_cons).2 ⟨rfl, hp⟩)
        obtain ⟨c, b, p', q', rfl, rfl⟩ := ih q h1' h2'
        exact ⟨a :: c, b, p', q', rfl, rfl⟩
      · refine ⟨[], a, p, q, rfl, ?_⟩
        have : a' = !a := by cases a <;> cases a' <;> simp_all
        simp [this]

/-- the rebuilt spine: at a strict prefix of the written path the new tree has a pair whose
    off-path child is the original one and whose on-path child is the rewritten subtree -/
theorem setNode_spine (h : HashFn) (n : Node) (q : List Bool) (b : Bool) (r : List Bool) (v n' : Node) :
    setNode h n (q ++ b :: r) false v = .ok n' →
    ∃ l rr c', getNode n q = .ok (.pair l rr) ∧
      setNode h (if b then rr else l) r false v = .ok c' ∧
      getNode n' q = .ok (if b then .pair l c' else .pair c' rr) := by
  induction q generalizing n n' with
  | nil =>
    intro hs
    cases n with
    | leaf x => simp at hs
    | pair l rr =>
      cases b <;> simp [R.map_eq_ok] at hs <;> obtain ⟨a, ha, rfl⟩ := hs <;>
        exact ⟨l, rr, a, by simp, by simpa using ha, by simp⟩
  | cons a q ih =>
    intro hs
    cases n with
    | leaf x => simp at hs
    | pair l rr =>
      cases a <;> simp [R.map_eq_ok] at hs <;> obtain ⟨t, ht, rfl⟩ := hs <;>
        simpa using ih _ _ ht

/-- set-after-get decomposition of a write along a concatenated path -/
theorem setNode_append (h : HashFn) (n : Node) (q r : List Bool) (v : Node) :
    setNode h n (q ++ r) false v =
      (getNode n q >>= fun s => setNode h s r false v >>= fun s' => setNode h n q false s') := by
  induction q generalizing n with
  | nil => cases hs : setNode h n r false v <;> simp [bind, Except.bind, hs]
  | cons a q ih =>
    cases n with
    | leaf x => simp [bind, Except.bind]
    | pair l rr =>
      cases a <;> simp [ih] <;>
      · cases hg : getNode _ q with
        | error er => simp [bind, Except.bind]
        | ok s =>
          cases hs : setNode h s r false v with
          | error er => simp [bind, Except.bind, hs]
          | ok s' => simp [bind, Except.bind, hs]

/-! ### roots -/

/-- replacing a subtree by one with the same root preserves the root -/
theorem setNode_root_same (h : HashFn) (n : Node) (p : List Bool) (v n' s : Node) :
    setNode h n p false v = .ok n' → getNode n p = .ok s → v.root h = s.root h →
    n'.root h = n.root h := by
  induction p generalizing n n' with
  | nil => intro hs hg hr; simp at hs hg; subst hs hg; exact hr
  | cons b bs ih =>
    intro hs hg hr
    cases n with
    | leaf x => simp at hs
    | pair l r =>
      cases b <;> simp [R.map_eq_ok] at hs hg <;> obtain ⟨a, ha, rfl⟩ := hs <;>
        simp [Node.root, ih _ _ ha hg hr]

theorem summarizeInto_eq (h : HashFn) (n : Node) (p : List Bool) (n' : Node) :
    summarizeInto h n p = .ok n' ↔
      ∃ s, getNode n p = .ok s ∧ setNode h n p false (.leaf (s.root h)) = .ok n' := by
  unfold summarizeInto
  constructor
  · intro hs
    cases h1 : setNode h n p false n with
    | error er => simp [h1, bind, Except.bind] at hs
    | ok t =>
      cases h2 : getNode n p with
      | error er => simp [h1, h2, bind, Except.bind] at hs
      | ok s => simp [h1, h2, bind, Except.bind] at hs; exact ⟨s, rfl, hs⟩
  · rintro ⟨s, h2, h3⟩
    obtain ⟨t, h1⟩ := setNode_ok_indep h n p false _ n _ h3
    simp [h1, h2, h3, bind, Except.bind]

theorem summarizeInto_error_nav (h : HashFn) (n : Node) (p : List Bool) (er : Err) :
    summarizeInto h n p = .error er → er = .nav := by
  unfold summarizeInto
  cases h1 : setNode h n p false n with
  | error e1 => intro hs; simp [bind, Except.bind] at hs; subst hs; exact setNode_error_nav _ _ _ _ _ _ h1
  | ok t =>
    cases h2 : getNode n p with
    | error e2 => intro hs; simp [bind, Except.bind] at hs; subst hs; exact getNode_error_nav _ _ _ h2
    | ok s => intro hs; simp [bind, Except.bind] at hs; exact setNode_error_nav _ _ _ _ _ _ hs

/-! ### expansion and materialisation -/

/-- the path can be written with expansion: every leaf met before the end of the path is the
    zero summary of exactly the remaining height -/
def ZeroShaped (h : HashFn) : Node → List Bool → Prop
  | _, [] => True
  | .pair l r, b :: bs => if b then ZeroShaped h r bs else ZeroShaped h l bs
  | .leaf x, _ :: bs => x = zh h (bs.length + 1)

/-- replace every zero summary (of the right height) met on the path by the pair of zero
    summaries one level below, down to the target depth; other leaves are left alone -/
def materialise (h : HashFn) : Node → List Bool → Node
  | n, [] => n
  | .pair l r, b :: bs => if b then .pair l (materialise h r bs) else .pair (materialise h l bs) r
  | .leaf x, b :: bs =>
    if x == zh h (bs.length + 1) then
      (if b then .pair (zeroNode h bs.length) (materialise h (zeroNode h bs.length) bs)
       else .pair (materialise h (zeroNode h bs.length) bs) (zeroNode h bs.length))
    else .leaf x

/-- the complete tree of `2^k` zero chunks -/
def fullZero (h : HashFn) (k : Nat) : Node := fillToDepth (zeroNode h 0) k

/-- replace the zero summary (of the right height) met on the path by the fully materialised
    zero subtree -/
def materialiseFull (h : HashFn) : Node → List Bool → Node
  | n, [] => n
  | .pair l r, b :: bs => if b then .pair l (materialiseFull h r bs) else .pair (materialiseFull h l bs) r
  | .leaf x, _ :: bs => if x == zh h (bs.length + 1) then fullZero h (bs.length + 1) else .leaf x

theorem fullZero_root (h : HashFn) (k : Nat) : (fullZero h k).root h = zh h k := by
  induction k with
  | zero => rfl
  | succ k ih =>
    have : fullZero h (k + 1) = .pair (fullZero h k) (fullZero h k) := rfl
    rw [this]; simp [Node.root, ih, zh]

theorem materialise_root (h : HashFn) (n : Node) (p : List Bool) :
    (materialise h n p).root h = n.root h := by
  induction p generalizing n with
  | nil => cases n <;> rfl
  | cons b bs ih =>
    cases n with
    | pair l r => cases b <;> simp [materialise, Node.root, ih]
    | leaf x =>
      simp only [materialise]
      split
      · rename_i hx
        have hx' : x = zh h (bs.length + 1) := by simpa using hx
        cases b <;> simp [Node.root, ih, zeroNode, hx', zh]
      · rfl

theorem materialiseFull_root (h : HashFn) (n : Node) (p : List Bool) :
    (materialiseFull h n p).root h = n.root h := by
  induction p generalizing n with
  | nil => cases n <;> rfl
  | cons b bs ih =>
    cases n with
    | pair l r => cases b <;> simp [materialiseFull, Node.root, ih]
    | leaf x =>
      simp only [materialiseFull]
      split
      · rename_i hx
        have hx' : x = zh h (bs.length + 1) := by simpa using hx
        rw [fullZero_root, hx']; rfl
      · rfl

/-- writing with expansion IS writing without expansion into the materialised tree (same tree,
    same error) -/
theorem setNode_expand_eq (h : HashFn) (n : Node) (p : List Bool) (v : Node) :
    setNode h n p true v = setNode h (materialise h n p) p false v := by
  induction p generalizing n with
  | nil => simp
  | cons b bs ih =>
    cases n with
    | pair l r => cases b <;> simp [materialise, ih]
    | leaf x =>
      rw [setNode_leaf_cons]
      simp only [materialise, Bool.true_and]
      split
      · cases b <;> simp [ih]
      · simp

/-- roots of writes into the complete zero tree and into the zero summary with expansion -/
theorem setNode_fullZero_root (h : HashFn) (p : List Bool) (v : Node) :
    (Node.root h) <$> setNode h (fullZero h p.length) p false v
      = (Node.root h) <$> setNode h (zeroNode h p.length) p true v := by
  induction p with
  | nil => simp
  | cons b bs ih =>
    have hf : fullZero h (bs.length + 1) = .pair (fullZero h bs.length) (fullZero h bs.length) := rfl
    simp only [List.length_cons, hf, zeroNode]
    rw [setNode_leaf_cons]
    simp only [Bool.true_and, beq_self_eq_true, if_true, zeroNode] at ih ⊢
    cases h1 : setNode h (fullZero h bs.length) bs false v with
    | error er =>
      rw [h1] at ih
      cases h2 : setNode h (Node.leaf (zh h bs.length)) bs true v with
      | error er2 => rw [h2] at ih; cases b <;> simp [h1] <;> simpa using ih
      | ok t => rw [h2] at ih; simp at ih
    | ok s =>
      rw [h1] at ih
      cases h2 : setNode h (Node.leaf (zh h bs.length)) bs true v with
      | error er2 => rw [h2] at ih; simp at ih
      | ok t =>
        rw [h2] at ih
        have hr : s.root h = t.root h := by simpa using ih
        cases b <;> simp [h1, Node.root, hr, fullZero_root]

theorem setNode_materialiseFull_root (h : HashFn) (n : Node) (p : List Bool) (v : Node) :
    (Node.root h) <$> setNode h (materialiseFull h n p) p false v
      = (Node.root h) <$> setNode h n p true v := by
  induction p generalizing n with
  | nil => simp
  | cons b bs ih =>
    cases n with
    | pair l r =>
      cases b <;> simp only [materialiseFull, setNode_pair_cons, if_true, if_false, Bool.false_eq_true]
      · have := ih l
        cases h1 : setNode h (materialiseFull h l bs) bs false v <;>
          cases h2 : setNode h l bs true v <;> rw [h1, h2] at this <;> simp at this ⊢ <;>
          first | exact this | simp [Node.root, this]
      · have := ih r
        cases h1 : setNode h (materialiseFull h r bs) bs false v <;>
          cases h2 : setNode h r bs true v <;> rw [h1, h2] at this <;> simp at this ⊢ <;>
          first | exact this | simp [Node.root, this]
    | leaf x =>
      simp only [materialiseFull]
      split
      · rename_i hx
        have hx' : x = zh h (bs.length + 1) := by simpa using hx
        subst hx'
        exact setNode_fullZero_root h (b :: bs) v
      · rename_i hx
        have : (x == zh h (bs.length + 1)) = false := by simpa using hx
        simp [setNode_leaf_cons, this]

theorem zeroShaped_iff_expand_ok (h : HashFn) (n : Node) (p : List Bool) (v : Node) :
    ZeroShaped h n p ↔ ∃ n', setNode h n p true v = .ok n' := by
  induction p generalizing n with
  | nil => simp [ZeroShaped]
  | cons b bs ih =>
    cases n with
    | pair l r => cases b <;> simp [ZeroShaped, R.map_ok_iff, ih]
    | leaf x =>
      simp only [ZeroShaped]
      constructor
      · intro hx; subst hx
        have := setNode_zeroNode h (b :: bs) v
        exact ⟨_, this⟩
      · rintro ⟨n', hs⟩
        rw [setNode_leaf_cons] at hs
        split at hs
        · rename_i hc; simpa using hc
        · cases hs

/-! ### generalized indices as paths -/

theorem gbits_length (g : Nat) : (gbits g).length = Nat.log2 g := by simp [gbits]

theorem gbits_one : gbits 1 = [] := by decide

theorem range_succ_reverse_map (k : Nat) (f : Nat → Bool) :
    (List.range (k + 1)).reverse.map f = (List.range k).reverse.map (fun i => f (i + 1)) ++ [f 0] := by
  rw [List.range_succ_eq_map]
  simp [List.map_reverse, Function.comp_def]

theorem gbits_step (g : Nat) (hg : 0 < g) (b : Bool) : gbits (2 * g + b.toNat) = gbits g ++ [b] := by
  have hlog : Nat.log2 (2 * g + b.toNat) = Nat.log2 g + 1 := by
    have hne : 2 * g + b.toNat ≠ 0 := by omega
    rw [Nat.log2_eq_iff hne]
    have h1 := Nat.log2_self_le (Nat.ne_of_gt hg)
    have h2 := Nat.lt_log2_self (n := g)
    have hb : b.toNat ≤ 1 := Bool.toNat_le b
    rw [Nat.pow_succ, Nat.pow_succ] at *
    constructor <;> omega
  unfold gbits
  rw [hlog, range_succ_reverse_map]
  congr 1
  · apply List.map_congr_left
    intro i _
    cases b <;> simp [Nat.testBit_succ] <;> congr 1 <;> omega
  · cases b <;> simp [Nat.testBit_zero] <;> omega

theorem gindexOfPath_append (p : List Bool) (b : Bool) : gindexOfPath (p ++ [b]) = 2 * gindexOfPath p + b.toNat := by
  simp [gindexOfPath, List.foldl_append]

theorem gindexOfPath_pos (p : List Bool) : 0 < gindexOfPath p := by
  suffices ∀ a, 0 < a → 0 < p.foldl (fun a b => 2 * a + b.toNat) a from this 1 (by omega)
  induction p with
  | nil => intro a ha; simpa using ha
  | cons b bs ih => intro a ha; simp only [List.foldl_cons]; exact ih _ (by omega)

theorem gbits_foldl (p : List Bool) (a : Nat) (ha : 0 < a) :
    gbits (p.foldl (fun a b => 2 * a + b.toNat) a) = gbits a ++ p := by
  induction p generalizing a with
  | nil => simp
  | cons b bs ih =>
    simp only [List.foldl_cons]
    rw [ih _ (by omega), gbits_step a ha b]; simp

/-- every path is the bit path of exactly the index it denotes -/
theorem gbits_gindexOfPath (p : List Bool) : gbits (gindexOfPath p) = p := by
  unfold gindexOfPath; rw [gbits_foldl p 1 (by omega), gbits_one]; rfl

theorem gindexOfPath_gbits (g : Nat) (hg : 0 < g) : gindexOfPath (gbits g) = g := by
  induction g using Nat.strongRecOn with
  | ind g ih =>
    by_cases h1 : g = 1
    · subst h1; rfl
    · have hk : 0 < g / 2 := by omega
      have hb : g = 2 * (g / 2) + (decide (g % 2 = 1)).toNat := by
        by_cases hm : g % 2 = 1 <;> simp [hm] <;> omega
      rw [hb, gbits_step _ hk, gindexOfPath_append, ih (g / 2) (by omega) hk]

theorem toPath_ok {i d : Nat} {p : List Bool} (hp : toPath i d = .ok p) :
    d < 64 ∧ i < 2 ^ d ∧ p = (List.range d).reverse.map fun k => i.testBit k := by
  unfold toPath at hp
  split at hp; · cases hp
  split at hp; · cases hp
  cases hp
  exact ⟨by omega, by omega, rfl⟩

theorem toPath_eq_gbits {i d : Nat} {p : List Bool} (hp : toPath i d = .ok p) : p = gbits (2 ^ d + i) := by
  obtain ⟨_, hi, rfl⟩ := toPath_ok hp
  have hlog : Nat.log2 (2 ^ d + i) = d := by
    have hne : 2 ^ d + i ≠ 0 := by have := Nat.two_pow_pos d; omega
    rw [Nat.log2_eq_iff hne, Nat.pow_succ]; omega
  unfold gbits
  rw [hlog]
  apply List.map_congr_left
  intro k hk
  have hk' : k < d := by simpa using hk
  exact (Nat.testBit_two_pow_add_gt hk' i).symm

end ZtypV.TreeNav
