/-
C12, typed read layer: every typed reader of Model/View.lean (`viewVal`, `serializeView`,
`valueByteLength`, `listLength`, `getElemNode`) run on a partial (summarised) backing.

Forward simulation `FwdR S r r'`: if the reader succeeds on the full tree with `a`, then on the
partial tree it either succeeds with an `S`-related result or reports a NAVIGATION error —
nothing else (no panic, no other data).  The point of every proof below is the same
observation: a position that the full-tree read interpreted as a leaf (`asLeaf`: packed chunk,
length node, selector node, basic value) IS a leaf of the full tree, and `Summ h (.leaf r) x'`
forces `x' = .leaf r`; a summary leaf standing for a pair can only be met by navigation.
No assumption on the tree or the type is needed for this direction — the `Rep` hypothesis
enters in Props/C12.lean through `rep_getters` / `rep_ser` / `rep_len`, which say that the
full-tree read succeeds with the value.
-/
import ZtypV.Proofs.Summ
import ZtypV.Proofs.RepView
namespace ZtypV.Partial
open ZtypV ZtypV.View ZtypV.TreeNav

/-- forward simulation of a full-tree computation `r` by the partial-tree computation `r'` -/
def FwdR {α β : Type} (S : α → β → Prop) (r : R α) (r' : R β) : Prop :=
  ∀ a, r = .ok a → (∃ a', r' = .ok a' ∧ S a a') ∨ r' = .error .nav

namespace FwdR

theorem bind {α α' β β' : Type} {S : α → α' → Prop} {T : β → β' → Prop} {r : R α} {r' : R α'}
    {f : α → R β} {f' : α' → R β'} (h1 : FwdR S r r')
    (h2 : ∀ a a', S a a' → FwdR T (f a) (f' a')) : FwdR T (r >>= f) (r' >>= f') := by
  intro b hb
  obtain ⟨a, ha, hfa⟩ := R.bind_eq_ok.mp hb
  rcases h1 a ha with ⟨a', ha', hs⟩ | herr
  · rw [ha']; exact h2 a a' hs b hfa
  · rw [herr]; exact Or.inr rfl

theorem bindEq {α β β' : Type} {T : β → β' → Prop} {r r' : R α}
    {f : α → R β} {f' : α → R β'} (h1 : FwdR Eq r r')
    (h2 : ∀ a, FwdR T (f a) (f' a)) : FwdR T (r >>= f) (r' >>= f') :=
  bind h1 (fun a a' he => by subst he; exact h2 a)

theorem rfl' {α : Type} (r : R α) : FwdR Eq r r := fun a ha => Or.inl ⟨a, ha, rfl⟩

theorem ok {α β : Type} {S : α → β → Prop} {a : α} {b : β} (hs : S a b) :
    FwdR S (.ok a : R α) (.ok b : R β) := by
  intro x hx; cases hx; exact Or.inl ⟨b, rfl, hs⟩

theorem error {α β : Type} {S : α → β → Prop} (e : Err) (r' : R β) :
    FwdR S (.error e : R α) r' := by
  intro x hx; cases hx

theorem ite {α β : Type} {S : α → β → Prop} {c : Prop} [Decidable c] {a b : R α} {a' b' : R β}
    (h1 : c → FwdR S a a') (h2 : ¬ c → FwdR S b b') :
    FwdR S (if c then a else b) (if c then a' else b') := by
  by_cases hc : c
  · rw [if_pos hc, if_pos hc]; exact h1 hc
  · rw [if_neg hc, if_neg hc]; exact h2 hc

theorem mapM {α β : Type} {f g : α → R β} : ∀ (l : List α), (∀ i, i ∈ l → FwdR Eq (f i) (g i)) →
    FwdR Eq (l.mapM f) (l.mapM g) := by
  intro l
  induction l with
  | nil => intro _; exact rfl' _
  | cons a l ih =>
    intro hfg
    rw [List.mapM_cons, List.mapM_cons]
    apply bindEq (hfg a (by simp))
    intro b
    apply bindEq (ih (fun i hi => hfg i (by simp [hi])))
    intro bs
    exact rfl' _

/-- equal results: the partial side yields the same value or a navigation error -/
theorem eq_or_nav {α : Type} {r r' : R α} {a : α} (hf : FwdR Eq r r') (hr : r = .ok a) :
    r' = .ok a ∨ r' = .error .nav := by
  rcases hf a hr with ⟨a', ha', he⟩ | herr
  · subst he; exact Or.inl ha'
  · exact Or.inr herr

end FwdR

/-! ### the primitive readers -/

theorem asLeaf_ok {x : Node} {r : Root} (hx : asLeaf x = .ok r) : x = .leaf r := by
  cases x with
  | leaf y => simp only [asLeaf, Except.ok.injEq] at hx; rw [hx]
  | pair l rr => cases hx

/-- THE observation: what the full tree holds as a leaf is the same leaf in every summary -/
theorem asLeaf_fwd {h : HashFn} {x x' : Node} (hs : Summ h x x') : FwdR Eq (asLeaf x) (asLeaf x') := by
  intro r hr
  have := asLeaf_ok hr
  subst this
  rw [hs.leaf_left]
  exact Or.inl ⟨r, rfl, rfl⟩

theorem getNode_fwd {h : HashFn} {n n' : Node} (hs : Summ h n n') (p : List Bool) :
    FwdR (Summ h) (getNode n p) (getNode n' p) :=
  fun x hx => Summ.getNode_fwd p n n' x hs hx

theorem subtreeGet_fwd {h : HashFn} {n n' : Node} (hs : Summ h n n') (d i : Nat) :
    FwdR (Summ h) (subtreeGet n d i) (subtreeGet n' d i) := by
  unfold subtreeGet
  exact FwdR.bindEq (FwdR.rfl' _) (fun p => getNode_fwd hs p)

theorem listLength_fwd {h : HashFn} {n n' : Node} (hs : Summ h n n') (lim : Nat) :
    FwdR Eq (listLength n lim) (listLength n' lim) := by
  unfold listLength
  refine FwdR.bind (getNode_fwd hs _) (fun x x' hx => ?_)
  exact FwdR.bindEq (asLeaf_fwd hx) (fun r => FwdR.rfl' _)

/-- a packed chunk read (`GetNode` then interpret as a root) -/
theorem chunk_fwd {h : HashFn} {n n' : Node} (hs : Summ h n n') (d i : Nat) {β : Type}
    (k : Root → R β) :
    FwdR Eq (subtreeGet n d i >>= fun c => asLeaf c >>= k) (subtreeGet n' d i >>= fun c => asLeaf c >>= k) :=
  FwdR.bind (subtreeGet_fwd hs d i) (fun _ _ hc => FwdR.bindEq (asLeaf_fwd hc) (fun _ => FwdR.rfl' _))

/-! ### `viewVal` -/

/-- induction predicate: the typed getters on a summary -/
def GetFwd (h : HashFn) (t : Ty) : Prop :=
  ∀ n n', Summ h n n' → FwdR Eq (viewVal t n) (viewVal t n')

theorem viewFields_fwd {h : HashFn} : ∀ (ts : List Ty), (∀ t ∈ ts, GetFwd h t) →
    ∀ (n n' : Node) (d i : Nat), Summ h n n' → FwdR Eq (viewFields ts n d i) (viewFields ts n' d i) := by
  intro ts
  induction ts with
  | nil => intro _ n n' d i _; simp only [viewFields]; exact FwdR.rfl' _
  | cons t ts ih =>
    intro hall n n' d i hs
    simp only [viewFields]
    refine FwdR.bind (subtreeGet_fwd hs d i) (fun c c' hc => ?_)
    refine FwdR.bindEq (hall t (by simp) c c' hc) (fun v => ?_)
    refine FwdR.bindEq (ih (fun t' ht' => hall t' (by simp [ht'])) n n' d (i + 1) hs) (fun vs => ?_)
    exact FwdR.rfl' _

theorem viewOpt_fwd {h : HashFn} : ∀ (ts : List Ty), (∀ t ∈ ts, GetFwd h t) →
    ∀ (k : Nat) (c c' : Node), Summ h c c' → FwdR Eq (viewOpt ts k c) (viewOpt ts k c') := by
  intro ts
  induction ts with
  | nil => intro _ k c c' _; simp only [viewOpt]; exact FwdR.rfl' _
  | cons t ts ih =>
    intro hall k c c' hs
    cases k with
    | zero => simp only [viewOpt]; exact hall t (by simp) c c' hs
    | succ k => simp only [viewOpt]; exact ih (fun t' ht' => hall t' (by simp [ht'])) k c c' hs

theorem getFwd_all (h : HashFn) : ∀ t, GetFwd h t := by
  intro t
  induction t using Ty.induct with
  | uint b =>
    intro n n' hs; simp only [viewVal]
    exact FwdR.bindEq (asLeaf_fwd hs) (fun r => FwdR.rfl' _)
  | bool =>
    intro n n' hs; simp only [viewVal]
    exact FwdR.bindEq (asLeaf_fwd hs) (fun r => FwdR.rfl' _)
  | bytesN k =>
    intro n n' hs; simp only [viewVal]
    exact FwdR.bindEq (asLeaf_fwd hs) (fun r => FwdR.rfl' _)
  | bitvector k =>
    intro n n' hs; simp only [viewVal, readBits]
    refine FwdR.bindEq (FwdR.mapM _ (fun i _ => chunk_fwd hs _ _ _)) (fun bs => FwdR.rfl' _)
  | bitlist lim =>
    intro n n' hs; simp only [viewVal]
    refine FwdR.bindEq (listLength_fwd hs lim) (fun ll => ?_)
    refine FwdR.bindEq (FwdR.mapM _ (fun i _ => chunk_fwd hs _ _ _)) (fun bs => FwdR.rfl' _)
  | vector e k ih =>
    intro n n' hs
    cases hb : isBasicElem e
    · simp only [viewVal, hb, Bool.false_eq_true, if_false]
      refine FwdR.bindEq (FwdR.mapM _ (fun i _ => ?_)) (fun vs => FwdR.rfl' _)
      exact FwdR.bind (subtreeGet_fwd hs _ _) (fun c c' hc => ih c c' hc)
    · simp only [viewVal, hb, if_true, readBasics]
      refine FwdR.bindEq (FwdR.mapM _ (fun i _ => chunk_fwd hs _ _ _)) (fun vs => FwdR.rfl' _)
  | list e lim ih =>
    intro n n' hs
    simp only [viewVal]
    refine FwdR.bindEq (listLength_fwd hs lim) (fun ll => ?_)
    cases hb : isBasicElem e
    · simp only [Bool.false_eq_true, if_false]
      refine FwdR.bindEq (FwdR.mapM _ (fun i _ => ?_)) (fun vs => FwdR.rfl' _)
      exact FwdR.bind (subtreeGet_fwd hs _ _) (fun c c' hc => ih c c' hc)
    · simp only [if_true]
      refine FwdR.bindEq (FwdR.mapM _ (fun i _ => chunk_fwd hs _ _ _)) (fun vs => FwdR.rfl' _)
  | container fs ih =>
    intro n n' hs; simp only [viewVal]
    exact FwdR.bindEq (viewFields_fwd fs ih n n' _ 0 hs) (fun vs => FwdR.rfl' _)
  | union hn opts ih =>
    intro n n' hs; simp only [viewVal]
    refine FwdR.bind (getNode_fwd hs _) (fun sn sn' hsn => ?_)
    refine FwdR.bindEq (asLeaf_fwd hsn) (fun r => ?_)
    refine FwdR.ite (fun _ => FwdR.rfl' _) (fun _ => ?_)
    refine FwdR.ite (fun _ => FwdR.rfl' _) (fun _ => ?_)
    refine FwdR.bind (getNode_fwd hs _) (fun c c' hc => ?_)
    refine FwdR.ite (fun _ => FwdR.rfl' _) (fun _ => ?_)
    exact FwdR.bindEq (viewOpt_fwd opts ih _ c c' hc) (fun v => FwdR.rfl' _)

/-- the typed getters on a partial backing: the full-tree value or a navigation error -/
theorem viewVal_fwd {h : HashFn} {n n' : Node} (hs : Summ h n n') (t : Ty) :
    FwdR Eq (viewVal t n) (viewVal t n') := getFwd_all h t n n' hs

/-! ### `Serialize` -/

theorem subtreeIntoBytes_fwd {h : HashFn} {a a' : Node} (hs : Summ h a a') (d count len : Nat) :
    FwdR Eq (subtreeIntoBytes a d count len) (subtreeIntoBytes a' d count len) := by
  unfold subtreeIntoBytes
  refine FwdR.bindEq (FwdR.mapM _ (fun i _ => ?_)) (fun cs => FwdR.rfl' _)
  exact FwdR.bind (subtreeGet_fwd hs d i) (fun _ _ hc => asLeaf_fwd hc)

def SerFwd (h : HashFn) (t : Ty) : Prop :=
  ∀ n n', Summ h n n' → FwdR Eq (serializeView t n) (serializeView t n')

theorem serFieldsView_fwd {h : HashFn} : ∀ (ts : List Ty), (∀ t ∈ ts, SerFwd h t) →
    ∀ (n n' : Node) (d i : Nat), Summ h n n' →
      FwdR Eq (serFieldsView ts n d i) (serFieldsView ts n' d i) := by
  intro ts
  induction ts with
  | nil => intro _ n n' d i _; simp only [serFieldsView]; exact FwdR.rfl' _
  | cons t ts ih =>
    intro hall n n' d i hs
    simp only [serFieldsView]
    refine FwdR.bind (subtreeGet_fwd hs d i) (fun c c' hc => ?_)
    refine FwdR.bindEq (hall t (by simp) c c' hc) (fun v => ?_)
    refine FwdR.bindEq (ih (fun t' ht' => hall t' (by simp [ht'])) n n' d (i + 1) hs) (fun vs => ?_)
    exact FwdR.rfl' _

theorem serOptView_fwd {h : HashFn} : ∀ (ts : List Ty), (∀ t ∈ ts, SerFwd h t) →
    ∀ (k : Nat) (c c' : Node), Summ h c c' → FwdR Eq (serOptView ts k c) (serOptView ts k c') := by
  intro ts
  induction ts with
  | nil => intro _ k c c' _; simp only [serOptView]; exact FwdR.rfl' _
  | cons t ts ih =>
    intro hall k c c' hs
    cases k with
    | zero => simp only [serOptView]; exact hall t (by simp) c c' hs
    | succ k => simp only [serOptView]; exact ih (fun t' ht' => hall t' (by simp [ht'])) k c c' hs

theorem serFwd_all (h : HashFn) : ∀ t, SerFwd h t := by
  intro t
  induction t using Ty.induct with
  | uint b =>
    intro n n' hs; simp only [serializeView]
    exact FwdR.bindEq (asLeaf_fwd hs) (fun r => FwdR.rfl' _)
  | bool =>
    intro n n' hs; simp only [serializeView]
    exact FwdR.bindEq (asLeaf_fwd hs) (fun r => FwdR.rfl' _)
  | bytesN k =>
    intro n n' hs; simp only [serializeView]
    exact FwdR.bindEq (asLeaf_fwd hs) (fun r => FwdR.rfl' _)
  | bitvector k =>
    intro n n' hs; simp only [serializeView]
    exact subtreeIntoBytes_fwd hs _ _ _
  | bitlist lim =>
    intro n n' hs; simp only [serializeView]
    refine FwdR.bind (getNode_fwd hs _) (fun c c' hc => ?_)
    refine FwdR.bindEq (listLength_fwd hs lim) (fun ll => ?_)
    refine FwdR.bindEq (subtreeIntoBytes_fwd hc _ _ _) (fun bs => FwdR.rfl' _)
  | vector e k ih =>
    intro n n' hs
    cases hb : isBasicElem e
    · simp only [serializeView, hb, Bool.false_eq_true, if_false]
      refine FwdR.bindEq (FwdR.mapM _ (fun i _ => ?_)) (fun vs => FwdR.rfl' _)
      exact FwdR.bind (subtreeGet_fwd hs _ _) (fun c c' hc => ih c c' hc)
    · simp only [serializeView, hb, if_true]
      exact subtreeIntoBytes_fwd hs _ _ _
  | list e lim ih =>
    intro n n' hs
    cases hb : isBasicElem e
    · simp only [serializeView, hb, Bool.false_eq_true, if_false]
      refine FwdR.bindEq (listLength_fwd hs lim) (fun ll => ?_)
      refine FwdR.bind (getNode_fwd hs _) (fun c c' hc => ?_)
      refine FwdR.bindEq (FwdR.mapM _ (fun i _ => ?_)) (fun vs => FwdR.rfl' _)
      exact FwdR.bind (subtreeGet_fwd hc _ _) (fun x x' hx => ih x x' hx)
    · simp only [serializeView, hb, if_true]
      refine FwdR.bind (getNode_fwd hs _) (fun c c' hc => ?_)
      refine FwdR.bindEq (listLength_fwd hs lim) (fun ll => ?_)
      exact subtreeIntoBytes_fwd hc _ _ _
  | container fs ih =>
    intro n n' hs; simp only [serializeView]
    exact FwdR.bindEq (serFieldsView_fwd fs ih n n' _ 0 hs) (fun vs => FwdR.rfl' _)
  | union hn opts ih =>
    intro n n' hs; simp only [serializeView]
    refine FwdR.bind (getNode_fwd hs _) (fun sn sn' hsn => ?_)
    refine FwdR.bindEq (asLeaf_fwd hsn) (fun r => ?_)
    refine FwdR.ite (fun _ => FwdR.rfl' _) (fun _ => ?_)
    refine FwdR.ite (fun _ => FwdR.rfl' _) (fun _ => ?_)
    refine FwdR.bind (getNode_fwd hs _) (fun c c' hc => ?_)
    refine FwdR.ite (fun _ => FwdR.rfl' _) (fun _ => ?_)
    exact FwdR.bindEq (serOptView_fwd opts ih _ c c' hc) (fun v => FwdR.rfl' _)

/-- `Serialize` on a partial backing: the full-tree bytes or a navigation error (in particular
    the uint32 offset overflow panic of `WriteOffset` cannot appear where the full tree had none) -/
theorem serializeView_fwd {h : HashFn} {n n' : Node} (hs : Summ h n n') (t : Ty) :
    FwdR Eq (serializeView t n) (serializeView t n') := serFwd_all h t n n' hs

/-! ### `ValueByteLength` -/

def LenFwd (h : HashFn) (t : Ty) : Prop :=
  ∀ n n', Summ h n n' → FwdR Eq (valueByteLength t n) (valueByteLength t n')

theorem lenFieldsView_fwd {h : HashFn} : ∀ (ts : List Ty), (∀ t ∈ ts, LenFwd h t) →
    ∀ (n n' : Node) (d i : Nat), Summ h n n' →
      FwdR Eq (lenFieldsView ts n d i) (lenFieldsView ts n' d i) := by
  intro ts
  induction ts with
  | nil => intro _ n n' d i _; simp only [lenFieldsView]; exact FwdR.rfl' _
  | cons t ts ih =>
    intro hall n n' d i hs
    simp only [lenFieldsView]
    have hrest : ∀ here : Nat, FwdR Eq
        (lenFieldsView ts n d (i + 1) >>= fun rest => (Except.ok (here + rest) : R Nat))
        (lenFieldsView ts n' d (i + 1) >>= fun rest => (Except.ok (here + rest) : R Nat)) :=
      fun here => FwdR.bindEq (ih (fun t' ht' => hall t' (by simp [ht'])) n n' d (i + 1) hs)
        (fun vs => FwdR.rfl' _)
    refine FwdR.ite (fun _ => ?_) (fun _ => ?_)
    · exact FwdR.bindEq (FwdR.rfl' _) hrest
    · refine FwdR.bindEq ?_ hrest
      refine FwdR.bind (subtreeGet_fwd hs d i) (fun c c' hc => ?_)
      exact FwdR.bindEq (hall t (by simp) c c' hc) (fun k => FwdR.rfl' _)

theorem lenOptView_fwd {h : HashFn} : ∀ (ts : List Ty), (∀ t ∈ ts, LenFwd h t) →
    ∀ (k : Nat) (c c' : Node), Summ h c c' → FwdR Eq (lenOptView ts k c) (lenOptView ts k c') := by
  intro ts
  induction ts with
  | nil => intro _ k c c' _; simp only [lenOptView]; exact FwdR.rfl' _
  | cons t ts ih =>
    intro hall k c c' hs
    cases k with
    | zero => simp only [lenOptView]; exact hall t (by simp) c c' hs
    | succ k => simp only [lenOptView]; exact ih (fun t' ht' => hall t' (by simp [ht'])) k c c' hs

theorem lenFwd_all (h : HashFn) : ∀ t, LenFwd h t := by
  intro t
  induction t using Ty.induct with
  | uint b => intro n n' _; simp only [valueByteLength]; exact FwdR.rfl' _
  | bool => intro n n' _; simp only [valueByteLength]; exact FwdR.rfl' _
  | bytesN k => intro n n' _; simp only [valueByteLength]; exact FwdR.rfl' _
  | bitvector k => intro n n' _; simp only [valueByteLength]; exact FwdR.rfl' _
  | bitlist lim =>
    intro n n' hs; simp only [valueByteLength]
    exact FwdR.bindEq (listLength_fwd hs lim) (fun ll => FwdR.rfl' _)
  | vector e k ih =>
    intro n n' hs; simp only [valueByteLength]
    refine FwdR.ite (fun _ => FwdR.rfl' _) (fun _ => ?_)
    refine FwdR.bindEq (FwdR.mapM _ (fun i _ => ?_)) (fun vs => FwdR.rfl' _)
    exact FwdR.bind (subtreeGet_fwd hs _ _) (fun c c' hc => ih c c' hc)
  | list e lim ih =>
    intro n n' hs; simp only [valueByteLength]
    refine FwdR.bindEq (listLength_fwd hs lim) (fun ll => ?_)
    refine FwdR.ite (fun _ => FwdR.rfl' _) (fun _ => ?_)
    refine FwdR.bind (getNode_fwd hs _) (fun c c' hc => ?_)
    refine FwdR.bindEq (FwdR.mapM _ (fun i _ => ?_)) (fun vs => FwdR.rfl' _)
    exact FwdR.bind (subtreeGet_fwd hc _ _) (fun x x' hx => ih x x' hx)
  | container fs ih =>
    intro n n' hs; simp only [valueByteLength]
    refine FwdR.ite (fun _ => FwdR.rfl' _) (fun _ => ?_)
    exact lenFieldsView_fwd fs ih n n' _ 0 hs
  | union hn opts ih =>
    intro n n' hs; simp only [valueByteLength]
    refine FwdR.bind (getNode_fwd hs _) (fun sn sn' hsn => ?_)
    refine FwdR.bindEq (asLeaf_fwd hsn) (fun r => ?_)
    refine FwdR.ite (fun _ => FwdR.rfl' _) (fun _ => ?_)
    refine FwdR.ite (fun _ => FwdR.rfl' _) (fun _ => ?_)
    refine FwdR.bind (getNode_fwd hs _) (fun c c' hc => ?_)
    refine FwdR.ite (fun _ => FwdR.rfl' _) (fun _ => ?_)
    exact FwdR.bindEq (lenOptView_fwd opts ih _ c c' hc) (fun v => FwdR.rfl' _)

theorem valueByteLength_fwd {h : HashFn} {n n' : Node} (hs : Summ h n n') (t : Ty) :
    FwdR Eq (valueByteLength t n) (valueByteLength t n') := lenFwd_all h t n n' hs

end ZtypV.Partial
