/-
C02, `ValueByteLength` half: the reported length is the length of the spec encoding.
-/
import ZtypV.Proofs.ViewShape
namespace ZtypV.View

def LenOk (h : HashFn) (v : Val) : Prop :=
  ∀ (t : Ty) (n : Node), t.wf = true → inRange t = true → hasType t v = true →
    construct h t v = .ok n → valueByteLength t n = .ok (serialize t v).length

theorem lenOptView_get : ∀ (opts : List Ty) (k : Nat) (t : Ty) (c : Node), opts[k]? = some t →
    lenOptView opts k c = valueByteLength t c := by
  intro opts
  induction opts with
  | nil => intro k t c h; simp at h
  | cons a opts ih =>
    intro k t c h
    cases k with
    | zero => simp at h; subst h; simp only [lenOptView]
    | succ k => simp only [lenOptView]; exact ih k t c (by simpa using h)

/-- length of a fixed-element series encoding -/
theorem fixed_series_length (e : Ty) (vs : List Val) (hfx : e.isFixed = true)
    (hall : allHaveType e vs = true) : (serList e vs).flatten.length = vs.length * e.fixedSize := by
  rw [flatten_uniform_length e.fixedSize, serList_length]
  intro l hl
  obtain ⟨w, hw, rfl⟩ := mem_serList _ vs l hl
  exact serialize_fixed_length w e hfx (allHaveType_mem _ vs hall w hw)

theorem len_elems (h : HashFn) (e : Ty) (vs : List Val) (ns : List Node) (n : Node) (d : Nat)
    (ih : ∀ v ∈ vs, LenOk h v) (hwe : e.wf = true) (hre : inRange e = true)
    (hall : allHaveType e vs = true)
    (hcl : constructList h e vs = .ok ns) (hf : fillToContents h d ns = .ok n) (hd : d < 64) :
    (List.range vs.length).mapM (fun i => do let c ← subtreeGet n d i; valueByteLength e c)
      = .ok ((serList e vs).map List.length) := by
  obtain ⟨hl, hel⟩ := constructList_ok h e vs ns hcl
  have := mapM_series (valueByteLength e) ((serList e vs).map List.length) hf hd (by simp [hl]) (by
    intro i h1 h2
    have hi : i < vs.length := by omega
    rw [List.getElem_map, serList_getElem e vs i hi]
    exact ih vs[i] (List.getElem_mem hi) e ns[i] hwe hre (allHaveType_getElem e vs hall i hi)
      (hel i hi h1))
  rwa [List.length_map, serList_length] at this

theorem var_series_length (ps : List Bytes) (k : Nat) (hk : ps.length = k) :
    k * 4 + (ps.map List.length).sum = (serVarParts ps).length := by
  rw [serVarParts_length, List.length_flatten, hk]; omega

/-- fields: the summed lengths -/
theorem lenFieldsView_ok (n : Node) (d : Nat) : ∀ (ts : List Ty) (vs : List Val) (i : Nat),
    ts.length = vs.length →
    (∀ j (h1 : j < ts.length) (h2 : j < vs.length),
      (ts[j].isFixed = true → (serialize ts[j] vs[j]).length = ts[j].fixedSize) ∧
      (ts[j].isFixed = false → ∃ c, subtreeGet n d (i + j) = .ok c ∧
        valueByteLength ts[j] c = .ok (serialize ts[j] vs[j]).length)) →
    lenFieldsView ts n d i
      = .ok (fixedPartLen (serFields ts vs) + (serVarPart (serFields ts vs)).length) := by
  intro ts
  induction ts with
  | nil =>
    intro vs i hl _
    cases vs with
    | nil => simp only [lenFieldsView, serFields]; rfl
    | cons _ _ => simp at hl
  | cons t ts ih =>
    intro vs i hl hj
    cases vs with
    | nil => simp at hl
    | cons v vs =>
      obtain ⟨hfix, hvar⟩ := hj 0 (by simp) (by simp)
      simp only [Nat.add_zero, List.getElem_cons_zero] at hfix hvar
      have hrest := ih vs (i + 1) (by simpa using hl) (fun j h1 h2 => by
        obtain ⟨h3, h4⟩ := hj (j + 1) (by simp; omega) (by simp; omega)
        refine ⟨by simpa using h3, ?_⟩
        intro hnf
        obtain ⟨c, h5, h6⟩ := h4 (by simpa using hnf)
        refine ⟨c, ?_, by simpa using h6⟩
        rw [← h5]; congr 1; omega)
      simp only [lenFieldsView, hrest, serFields]
      cases hfx : t.isFixed
      · obtain ⟨c, hc1, hc2⟩ := hvar hfx
        simp only [Bool.false_eq_true, if_false, hc1, hc2, R.bind_ok, pure, Except.pure, fixedPartLen,
          serVarPart, List.length_append]
        congr 1; omega
      · simp only [if_true, pure, Except.pure, R.bind_ok, fixedPartLen, serVarPart, hfix hfx]
        congr 1; omega

theorem not_fixed_not_basic {e : Ty} (hfx : e.isFixed = false) : isBasicElem e = false := by
  cases e <;> simp [isBasicElem, Ty.isFixed] at hfx ⊢

theorem len_vector (h : HashFn) (e : Ty) (k : Nat) (vs : List Val) (n : Node)
    (ih : ∀ v ∈ vs, LenOk h v) (hw : (Ty.vector e k).wf = true)
    (hr : inRange (.vector e k) = true) (ht : hasType (.vector e k) (.seq vs) = true)
    (hc : construct h (.vector e k) (.seq vs) = .ok n) :
    valueByteLength (.vector e k) n = .ok (serialize (.vector e k) (.seq vs)).length := by
  simp only [hasType, Bool.and_eq_true, beq_iff_eq] at ht
  simp only [Ty.wf, Bool.and_eq_true, decide_eq_true_eq] at hw
  simp only [inRange, Bool.and_eq_true, decide_eq_true_eq] at hr
  obtain ⟨hlen, hall⟩ := ht
  cases hfx : e.isFixed
  · have hb := not_fixed_not_basic hfx
    obtain ⟨ns, hcl, hf⟩ := construct_vector_complex_shape hb hlen hc
    have hd : coverDepth k < 64 := by rw [← seriesDepth_complex hb k]; exact hr.1
    have hm := len_elems h e vs ns n _ ih hw.2 hr.2 hall hcl hf hd
    rw [hlen] at hm
    simp only [valueByteLength, serialize, hfx, Bool.false_eq_true, if_false, hm, R.bind_ok]
    rw [var_series_length _ k (by simp [hlen])]
  · simp only [valueByteLength, serialize, hfx, if_true]
    rw [fixed_series_length e vs hfx hall, hlen]

theorem len_list (h : HashFn) (e : Ty) (lim : Nat) (vs : List Val) (n : Node)
    (ih : ∀ v ∈ vs, LenOk h v) (hw : (Ty.list e lim).wf = true)
    (hr : inRange (.list e lim) = true) (ht : hasType (.list e lim) (.seq vs) = true)
    (hc : construct h (.list e lim) (.seq vs) = .ok n) :
    valueByteLength (.list e lim) n = .ok (serialize (.list e lim) (.seq vs)).length := by
  simp only [hasType, Bool.and_eq_true, decide_eq_true_eq] at ht
  simp only [Ty.wf] at hw
  simp only [inRange, Bool.and_eq_true, decide_eq_true_eq] at hr
  obtain ⟨hlen, hall⟩ := ht
  cases hfx : e.isFixed
  · have hb := not_fixed_not_basic hfx
    obtain ⟨c, ns, hn, hcl, hf⟩ := construct_list_complex_shape hb hlen hc
    subst hn
    have hd : coverDepth lim < 64 := by rw [← seriesDepth_complex hb lim]; omega
    have hm := len_elems h e vs ns c _ ih hw hr.2 hall hcl hf hd
    simp only [valueByteLength, serialize, hfx, Bool.false_eq_true, if_false]
    rw [listLength_pair c _ lim hlen hr.1.1, R.bind_ok, getNode_pair_false, getNode_nil, R.bind_ok,
      hm, R.bind_ok, var_series_length _ vs.length (by simp)]
  · obtain ⟨c, hn⟩ := construct_list_pair hlen hc
    subst hn
    simp only [valueByteLength, serialize, hfx, if_true]
    rw [listLength_pair c _ lim hlen hr.1.1, R.bind_ok, fixed_series_length e vs hfx hall]

theorem len_container (h : HashFn) (fs : List Ty) (vs : List Val) (n : Node)
    (ih : ∀ v ∈ vs, LenOk h v) (hw : (Ty.container fs).wf = true)
    (hr : inRange (.container fs) = true) (ht : hasType (.container fs) (.seq vs) = true)
    (hc : construct h (.container fs) (.seq vs) = .ok n) :
    valueByteLength (.container fs) n = .ok (serialize (.container fs) (.seq vs)).length := by
  simp only [hasType] at ht
  simp only [Ty.wf, Bool.and_eq_true] at hw
  simp only [inRange, Bool.and_eq_true, decide_eq_true_eq] at hr
  have hlen := fieldsHaveType_length fs vs ht
  simp only [serialize, serContainerParts_length]
  cases haf : Ty.allFixed fs
  · obtain ⟨ns, hcl, hf⟩ := construct_container_shape hlen hc
    obtain ⟨hl, hel⟩ := constructFields_ok h fs vs ns hlen hcl
    simp only [valueByteLength, haf, Bool.false_eq_true, if_false]
    apply lenFieldsView_ok n _ fs vs 0 hlen
    intro j h1 h2
    have h3 : j < ns.length := by omega
    have htj := fieldsHaveType_getElem fs vs ht j h1 h2
    refine ⟨fun hfx => serialize_fixed_length _ _ hfx htj, fun _ => ⟨ns[j], ?_, ?_⟩⟩
    · rw [Nat.zero_add]; exact get_fill hf h3 hr.1
    · exact ih vs[j] (List.getElem_mem h2) fs[j] ns[j]
        (wfAll_get fs j _ hw.2 (getElem?_of_lt fs j h1))
        (inRangeAll_get fs j _ hr.2 (getElem?_of_lt fs j h1)) htj (hel j h1 h2 h3)
  · simp only [valueByteLength, haf, if_true]
    rw [serVarPart_allFixed fs vs haf,
      fixedPartLen_serFields fs vs (fun v _ t => serialize_fixed_length v t) ht]
    rfl

theorem len_union (h : HashFn) (hasNone : Bool) (opts : List Ty) (sel : Nat) (v : Val) (n : Node)
    (ih : LenOk h v) (hw : (Ty.union hasNone opts).wf = true)
    (hr : inRange (.union hasNone opts) = true)
    (ht : hasType (.union hasNone opts) (.union sel v) = true)
    (hc : construct h (.union hasNone opts) (.union sel v) = .ok n) :
    valueByteLength (.union hasNone opts) n
      = .ok (serialize (.union hasNone opts) (.union sel v)).length := by
  simp only [Ty.wf, Bool.and_eq_true, decide_eq_true_eq] at hw
  simp only [inRange] at hr
  simp only [hasType] at ht
  cases ho : unionOpt hasNone opts sel with
  | none =>
    simp only [ho, Bool.and_eq_true, beq_iff_eq] at ht
    obtain ⟨⟨hn, hsel⟩, hv⟩ := ht
    subst hn; subst hsel
    cases v <;> simp at hv
    have := construct_union_none_shape hc
    subst this
    simp only [valueByteLength, serialize, ho, getNode_pair_true, getNode_pair_false, getNode_nil,
      R.bind_ok, asLeaf_leaf, chunkOf_single_drop, Bool.false_eq_true, if_false, chunkOf_single_getD]
    simp
  | some t =>
    simp only [ho] at ht
    obtain ⟨hlt, hnz, hget⟩ := unionOpt_lt ho
    have hvn : v ≠ .none := by
      intro hv; subst hv; rw [hasType_none] at ht; cases ht
    have hsel : (UInt8.ofNat sel).toNat = sel := by
      rw [UInt8.toNat_ofNat']; apply Nat.mod_eq_of_lt; omega
    obtain ⟨c, hcv, hn⟩ := construct_union_some_shape ho hvn hc
    subst hn
    have hrec := ih t c (wfAll_get opts _ t hw.1.2 hget) (inRangeAll_get opts _ t hr hget) ht hcv
    simp only [valueByteLength, serialize, ho, List.length_cons, getNode_pair_true,
      getNode_pair_false, getNode_nil,
      R.bind_ok, asLeaf_leaf, chunkOf_single_drop, Bool.false_eq_true, if_false,
      chunkOf_single_getD, hsel]
    rw [if_neg (by omega)]
    simp only [hnz, Bool.false_eq_true, if_false, lenOptView_get opts _ t c hget, hrec, R.bind_ok]

/-- C02 (length): `ValueByteLength` of a constructed view is the length of the spec encoding -/
theorem len_ok (h : HashFn) : ∀ v, LenOk h v := by
  intro v
  induction v using Val.induct with
  | num k =>
    intro t n hw hr ht hc
    cases t <;> simp [hasType] at ht
    simp only [valueByteLength, serialize, leBytes_length]
  | bool b =>
    intro t n hw hr ht hc
    cases t <;> simp [hasType] at ht
    simp only [valueByteLength, serialize, List.length_singleton]
  | bytes bs =>
    intro t n hw hr ht hc
    cases t <;> simp [hasType] at ht
    simp only [valueByteLength, serialize, ht]
  | bits bs =>
    intro t n hw hr ht hc
    cases t <;> try (simp [hasType] at ht; done)
    · simp only [hasType, beq_iff_eq] at ht
      simp only [valueByteLength, serialize, packBits_length, ht]
    · simp only [hasType, decide_eq_true_eq] at ht
      simp only [inRange, Bool.and_eq_true, decide_eq_true_eq] at hr
      obtain ⟨c, hn, _⟩ := construct_bitlist_shape ht hc
      subst hn
      simp only [valueByteLength, serialize, packBits_length, List.length_append,
        List.length_singleton]
      rw [listLength_pair c _ _ ht hr.1, R.bind_ok]
  | seq vs ih =>
    intro t n hw hr ht hc
    cases t <;> try (simp [hasType] at ht; done)
    · exact len_vector h _ _ vs n ih hw hr ht hc
    · exact len_list h _ _ vs n ih hw hr ht hc
    · exact len_container h _ vs n ih hw hr ht hc
  | none =>
    intro t n hw hr ht hc
    rw [hasType_none] at ht; cases ht
  | union sel v ih =>
    intro t n hw hr ht hc
    cases t <;> try (simp [hasType] at ht; done)
    exact len_union h _ _ sel v n ih hw hr ht hc

end ZtypV.View
