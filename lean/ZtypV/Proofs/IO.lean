/-
Helper lemmas for C13 (model: ZtypV/Model/IO.lean).  Core Lean only.

Reader side: one legal `Read` call delivers a non-empty prefix of what can still arrive or an
error (`readCall_spec`, `Rd.read_spec`); the fill loop therefore returns exactly the next `need`
bytes or an error (`fill_spec`, induction on the fuel = outstanding bytes); a decoder step on a
scheduled reader stack is the step of the flat specification on the abstraction (`step_spec`).
Writer side: `writeCall_spec`, `ewLoop_spec`, `ewWrites_spec`.
-/
import ZtypV.Model.IO
namespace ZtypV.CodecIO

/-! ## one call of the scheduled reader -/

theorem nextChunk_spec (st : ReaderState) (want : Nat) (hl : st.legal) (hw : 1 ≤ want) :
    1 ≤ (nextChunk st want).1 ∧ (∀ c ∈ (nextChunk st want).2, 1 ≤ c) := by
  unfold nextChunk
  obtain ⟨h1, h2⟩ := hl
  split
  · rename_i c r hc
    rw [hc] at h1
    exact ⟨h1 c (by simp), fun x hx => h1 x (by simp [hx])⟩
  · split
    · rename_i c r hc
      rw [hc] at h2
      exact ⟨h2 c (by simp), fun x hx => h2 x (by simp [hx])⟩
    · exact ⟨hw, by simp⟩

theorem readCall_empty (st : ReaderState) (want : Nat) (hw : 1 ≤ want) (he : st.data = []) :
    readCall st want = ([], some (endErr st.endm), st) := by
  unfold readCall
  have : ¬ want = 0 := by omega
  simp [this, he]

theorem readCall_spec (st : ReaderState) (want : Nat) (hl : st.legal) (hw : 1 ≤ want) (hne : st.data ≠ []) :
    ∃ d, 1 ≤ d ∧ d ≤ want ∧ d ≤ st.data.length ∧
      (readCall st want).1 = st.data.take d ∧
      (readCall st want).2.2.data = st.data.drop d ∧
      (readCall st want).2.2.legal ∧
      ((readCall st want).2.1 = none ∨ ((readCall st want).2.1 = some .eof ∧ d = st.data.length)) := by
  have hlen : 1 ≤ st.data.length := by
    cases h : st.data with
    | nil => exact absurd h hne
    | cons a l => simp
  obtain ⟨hc1, hc2⟩ := nextChunk_spec st want hl hw
  refine ⟨min (nextChunk st want).1 (min want st.data.length), ?_, ?_, ?_, ?_, ?_, ?_, ?_⟩
  · omega
  · omega
  · omega
  · unfold readCall
    have : ¬ want = 0 := by omega
    simp [this, hne]
  · unfold readCall
    have : ¬ want = 0 := by omega
    simp [this, hne]
  · unfold readCall
    have : ¬ want = 0 := by omega
    simp only [this, if_false, List.isEmpty_iff, hne]
    exact ⟨hc2, hl.2⟩
  · unfold readCall
    have : ¬ want = 0 := by omega
    simp only [this, if_false, List.isEmpty_iff, hne]
    by_cases hr : (List.drop (min (nextChunk st want).1 (min want st.data.length)) st.data = [] ∧ st.endm = .eofWithData)
    · right
      refine ⟨by simp only [hr, and_self, if_true], ?_⟩
      have := List.drop_eq_nil_iff.mp hr.1
      omega
    · left
      simp only [hr, if_false]

/-! ## one call through the limiter stack -/

theorem Rd.read_empty (r : Rd) (want : Nat) (hw : 1 ≤ want) (he : r.avail = []) :
    (r.read want).1 = [] ∧ (r.read want).2.1.isSome = true := by
  induction r generalizing want with
  | base st =>
    simp only [Rd.avail] at he
    simp [Rd.read, readCall_empty st want hw he]
  | limit n inner ih =>
    unfold Rd.read
    by_cases hn : n ≤ 0
    · simp [hn]
    · simp only [hn, if_false]
      simp only [Rd.avail] at he
      have hnt : 1 ≤ n.toNat := by omega
      have hi : inner.avail = [] := by
        cases h : inner.avail with
        | nil => rfl
        | cons a l =>
          rw [h] at he
          have : n.toNat = Nat.succ (n.toNat - 1) := by omega
          rw [this] at he
          simp at he
      have hw' : 1 ≤ (if n < (want : Int) then n.toNat else want) := by
        split <;> omega
      exact ih _ hw' hi

theorem Rd.read_spec (r : Rd) (want : Nat) (hl : r.legal) (hw : 1 ≤ want) (hne : r.avail ≠ []) :
    ∃ d, 1 ≤ d ∧ d ≤ want ∧ d ≤ r.avail.length ∧
      (r.read want).1 = r.avail.take d ∧
      (r.read want).2.2.avail = r.avail.drop d ∧
      (r.read want).2.2.avails = r.avails.map (List.drop d) ∧
      (r.read want).2.2.legal ∧
      ((r.read want).2.1 = none ∨ ((r.read want).2.1 = some .eof ∧ d = r.avail.length)) := by
  induction r generalizing want with
  | base st =>
    simp only [Rd.avail] at hne
    obtain ⟨d, h1, h2, h3, h4, h5, h6, h7⟩ := readCall_spec st want hl hw hne
    exact ⟨d, h1, h2, h3, by simpa [Rd.read, Rd.avail] using h4, by simpa [Rd.read, Rd.avail] using h5,
      by simp [Rd.read, Rd.avails], by simpa [Rd.read, Rd.legal] using h6, by simpa [Rd.read, Rd.avail] using h7⟩
  | limit n inner ih =>
    have hn : ¬ n ≤ 0 := by
      intro h
      have : n.toNat = 0 := by omega
      simp [Rd.avail, this] at hne
    have hi : inner.avail ≠ [] := by
      intro h
      simp [Rd.avail, h] at hne
    have hw' : 1 ≤ (if n < (want : Int) then n.toNat else want) := by
      split <;> omega
    have hle : (if n < (want : Int) then n.toNat else want) ≤ n.toNat ∧
        (if n < (want : Int) then n.toNat else want) ≤ want := by
      split <;> omega
    obtain ⟨d, h1, h2, h3, h4, h5, h6, h7, h8⟩ := ih _ hl hw' hi
    have hdn : d ≤ n.toNat := by omega
    have hrd : (Rd.limit n inner).read want =
        ((inner.read (if n < (want : Int) then n.toNat else want)).1,
         (inner.read (if n < (want : Int) then n.toNat else want)).2.1,
         Rd.limit (n - ((inner.read (if n < (want : Int) then n.toNat else want)).1.length : Int))
           (inner.read (if n < (want : Int) then n.toNat else want)).2.2) := by
      rw [Rd.read]; simp only [hn, if_false]
    have hlen : (inner.read (if n < (want : Int) then n.toNat else want)).1.length = d := by
      rw [h4, List.length_take]; omega
    have hav : (Rd.limit n inner).avail = inner.avail.take n.toNat := rfl
    have hnew : (inner.avail.drop d).take (n - (d : Int)).toNat = (inner.avail.take n.toNat).drop d := by
      rw [List.drop_take]
      congr 1
      omega
    refine ⟨d, h1, by omega, ?_, ?_, ?_, ?_, ?_, ?_⟩
    · rw [hav, List.length_take]; omega
    · rw [hrd, hav, List.take_take, Nat.min_eq_left hdn]; exact h4
    · rw [hrd]; simp only [Rd.avail]; rw [hlen, h5]; exact hnew
    · rw [hrd]; simp only [Rd.avails, Rd.avail, List.map_cons]; rw [hlen, h5, h6, hnew]
    · rw [hrd]; simpa [Rd.legal] using h7
    · rw [hrd]
      rcases h8 with h8 | ⟨h8, h9⟩
      · left; exact h8
      · right
        refine ⟨h8, ?_⟩
        rw [hav, List.length_take]; omega

/-! ## the fill loop -/

theorem map_drop_zero (l : List Bytes) : l.map (List.drop 0) = l := by
  induction l with
  | nil => rfl
  | cons a l ih => simp [ih]

theorem fill_ok (fuel : Nat) (r : Rd) (need : Nat) (acc : Bytes) (hl : r.legal) (hf : need ≤ fuel)
    (ha : need ≤ r.avail.length) :
    ∃ r', fill fuel r need acc = (.ok (acc ++ r.avail.take need), r') ∧
      r'.avail = r.avail.drop need ∧ r'.avails = r.avails.map (List.drop need) ∧ r'.legal := by
  induction fuel generalizing r need acc with
  | zero =>
    have : need = 0 := by omega
    subst this
    exact ⟨r, by simp [fill], by simp, (map_drop_zero _).symm, hl⟩
  | succ fuel ih =>
    by_cases h0 : need = 0
    · subst h0
      exact ⟨r, by simp [fill], by simp, (map_drop_zero _).symm, hl⟩
    · have hne : r.avail ≠ [] := by
        intro h; rw [h] at ha; simp at ha; exact h0 ha
      obtain ⟨d, h1, h2, h3, h4, h5, h6, h7, h8⟩ := Rd.read_spec r need hl (by omega) hne
      have hlen : (r.read need).1.length = d := by rw [h4, List.length_take]; omega
      rw [fill]
      simp only [h0, if_false]
      rcases h8 with h8 | ⟨h8, h9⟩
      · rw [h8]
        simp only
        obtain ⟨r', e1, e2, e3, e4⟩ := ih (r.read need).2.2 (need - (r.read need).1.length)
          (acc ++ (r.read need).1) h7 (by omega) (by rw [h5, List.length_drop, hlen]; omega)
        refine ⟨r', ?_, ?_, ?_, e4⟩
        · rw [e1, h5, hlen, h4, List.append_assoc]
          congr 2
          have : need = d + (need - d) := by omega
          conv => rhs; rw [this, List.take_add]
        · rw [e2, h5, hlen, List.drop_drop]; congr 1; omega
        · rw [e3, h6, hlen, List.map_map]
          congr 1
          funext x
          simp only [Function.comp, List.drop_drop]
          congr 1; omega
      · rw [h8]
        have hd : d = need := by omega
        simp only [hlen, hd, and_self, if_true]
        refine ⟨(r.read need).2.2, ?_, ?_, ?_, h7⟩
        · rw [h4, hd]
        · rw [h5, hd]
        · rw [h6, hd]

theorem fill_short (fuel : Nat) (r : Rd) (need : Nat) (acc : Bytes) (hl : r.legal) (hf : need ≤ fuel)
    (ha : r.avail.length < need) :
    ∃ e g r', fill fuel r need acc = (.err e g, r') := by
  induction fuel generalizing r need acc with
  | zero => omega
  | succ fuel ih =>
    have h0 : ¬ need = 0 := by omega
    rw [fill]
    simp only [h0, if_false]
    by_cases hne : r.avail = []
    · obtain ⟨e1, e2⟩ := Rd.read_empty r need (by omega) hne
      cases he : (r.read need).2.1 with
      | none => rw [he] at e2; simp at e2
      | some e =>
        simp only [e1, List.length_nil]
        have : ¬ (e = IOErr.eof ∧ 0 = need) := by omega
        simp only [this, if_false]
        exact ⟨e, _, _, rfl⟩
    · obtain ⟨d, h1, h2, h3, h4, h5, h6, h7, h8⟩ := Rd.read_spec r need hl (by omega) hne
      have hlen : (r.read need).1.length = d := by rw [h4, List.length_take]; omega
      rcases h8 with h8 | ⟨h8, h9⟩
      · rw [h8]
        simp only
        exact ih (r.read need).2.2 (need - (r.read need).1.length) (acc ++ (r.read need).1) h7
          (by omega) (by rw [h5, List.length_drop, hlen]; omega)
      · rw [h8]
        have : ¬ ((r.read need).1.length = need) := by omega
        simp only [this, and_false, if_false]
        exact ⟨_, _, _, rfl⟩

/-! ## scope arithmetic -/

theorem allOnes_toNat : (~~~(0 : UInt64)).toNat = 2 ^ 64 - 1 := by decide

theorem DR.checkedIndexUpdate_eq (dr : DR) (x : UInt64) :
    dr.checkedIndexUpdate x = match scopeUpdate dr.i dr.max x with
      | none => .error .scope
      | some v => .ok { dr with i := v } := by
  unfold DR.checkedIndexUpdate
  by_cases h1 : ~~~(0 : UInt64) - dr.i < x
  · have hs : scopeUpdate dr.i dr.max x = none := by
      unfold scopeUpdate; simp only [h1, if_true]
    rw [hs]; simp only [h1, if_true]
  · by_cases h2 : dr.i + x > dr.max
    · have hs : scopeUpdate dr.i dr.max x = none := by
        unfold scopeUpdate; simp only [h1, if_false, h2, if_true]
      rw [hs]; simp only [h1, if_false, h2, if_true]
    · have hs : scopeUpdate dr.i dr.max x = some (dr.i + x) := by
        unfold scopeUpdate; simp only [h1, if_false, h2]
      rw [hs]; simp only [h1, if_false, h2]

theorem scopeUpdate_ok (i max : UInt64) (n : Nat) (h : i.toNat + n ≤ max.toNat) :
    scopeUpdate i max (UInt64.ofNat n) = some (i + UInt64.ofNat n) ∧
      (i + UInt64.ofNat n).toNat = i.toNat + n := by
  have hm : max.toNat < 2 ^ 64 := max.toNat_lt
  have hn : (UInt64.ofNat n).toNat = n := by
    rw [UInt64.toNat_ofNat']; exact Nat.mod_eq_of_lt (by omega)
  have hv : (i + UInt64.ofNat n).toNat = i.toNat + n := by
    rw [UInt64.toNat_add, hn]; exact Nat.mod_eq_of_lt (by omega)
  refine ⟨?_, hv⟩
  unfold scopeUpdate
  have h1 : ¬ (~~~(0 : UInt64) - i < UInt64.ofNat n) := by
    rw [UInt64.lt_iff_toNat_lt, UInt64.toNat_sub, hn, allOnes_toNat]
    have hi : i.toNat < 2 ^ 64 := i.toNat_lt
    omega
  have h2 : ¬ (i + UInt64.ofNat n > max) := by
    show ¬ (max < i + UInt64.ofNat n)
    rw [UInt64.lt_iff_toNat_lt, hv]; omega
  simp only [h1, if_false, h2]

theorem scopeUpdate_err (i max : UInt64) (n : Nat) (hn64 : n < 2 ^ 64) (h : max.toNat < i.toNat + n) :
    scopeUpdate i max (UInt64.ofNat n) = none := by
  have hn : (UInt64.ofNat n).toNat = n := by
    rw [UInt64.toNat_ofNat']; exact Nat.mod_eq_of_lt hn64
  have hi : i.toNat < 2 ^ 64 := i.toNat_lt
  have hm : max.toNat < 2 ^ 64 := max.toNat_lt
  unfold scopeUpdate
  by_cases h1 : ~~~(0 : UInt64) - i < UInt64.ofNat n
  · simp only [h1, if_true]
  · simp only [h1, if_false]
    have h1' := h1
    rw [UInt64.lt_iff_toNat_lt, UInt64.toNat_sub, hn, allOnes_toNat] at h1'
    have hv : (i + UInt64.ofNat n).toNat = i.toNat + n := by
      rw [UInt64.toNat_add, hn]; exact Nat.mod_eq_of_lt (by omega)
    have h2 : i + UInt64.ofNat n > max := by
      show max < i + UInt64.ofNat n
      rw [UInt64.lt_iff_toNat_lt, hv]; omega
    simp only [h2, if_true]

/-! ## `DecodingReader.Read` -/

-- from here on `scopeUpdate` is used through the two lemmas above only; keeping `simp`/`whnf`
-- from unfolding it inside `match` discriminants avoids normalising 64-bit arithmetic
attribute [local irreducible] scopeUpdate

theorem DR.read_zero (dr : DR) : dr.read 0 = (.ok [], dr) := by simp [DR.read]

theorem DR.read_scope_err (dr : DR) (n : Nat) (h0 : n ≠ 0) (h : scopeUpdate dr.i dr.max (UInt64.ofNat n) = none) :
    dr.read n = (.err .scope [], dr) := by
  unfold DR.read
  rw [if_neg h0]
  rw [DR.checkedIndexUpdate_eq, h]

theorem DR.read_ok (dr : DR) (n : Nat) (v : UInt64) (h0 : n ≠ 0) (hl : dr.input.legal)
    (h : scopeUpdate dr.i dr.max (UInt64.ofNat n) = some v) (ha : n ≤ dr.input.avail.length) :
    ∃ r', dr.read n = (.ok (dr.input.avail.take n), { input := r', i := v, max := dr.max }) ∧
      r'.avail = dr.input.avail.drop n ∧ r'.avails = dr.input.avails.map (List.drop n) ∧ r'.legal := by
  obtain ⟨r', e1, e2, e3, e4⟩ := fill_ok n dr.input n [] hl (Nat.le_refl _) ha
  refine ⟨r', ?_, e2, e3, e4⟩
  unfold DR.read
  rw [if_neg h0]
  rw [DR.checkedIndexUpdate_eq, h]
  simp only [e1, List.nil_append]

theorem DR.read_short (dr : DR) (n : Nat) (v : UInt64) (hl : dr.input.legal)
    (h : scopeUpdate dr.i dr.max (UInt64.ofNat n) = some v) (ha : dr.input.avail.length < n) :
    ∃ e g dr', dr.read n = (.err e g, dr') := by
  have h0 : n ≠ 0 := by omega
  obtain ⟨e, g, r', e1⟩ := fill_short n dr.input n [] hl (Nat.le_refl _) ha
  refine ⟨e, g, { input := r', i := v, max := dr.max }, ?_⟩
  unfold DR.read
  rw [if_neg h0]
  rw [DR.checkedIndexUpdate_eq, h]
  simp only [e1]

/-- complete description of one `Read` on a legal reader stack, whatever the schedule -/
theorem DR.read_val (dr : DR) (n : Nat) (hl : dr.input.legal) :
    (dr.read n).1.val? =
      (if n = 0 then some []
       else if (scopeUpdate dr.i dr.max (UInt64.ofNat n)).isSome ∧ n ≤ dr.input.avail.length
         then some (dr.input.avail.take n) else none) ∧
    (dr.read n).1 ≠ .spin := by
  by_cases h0 : n = 0
  · subst h0; simp [DR.read_zero, FillRes.val?]
  · rw [if_neg h0]
    cases hs : scopeUpdate dr.i dr.max (UInt64.ofNat n) with
    | none =>
      rw [DR.read_scope_err dr n h0 hs]
      simp [FillRes.val?]
    | some v =>
      by_cases ha : n ≤ dr.input.avail.length
      · obtain ⟨r', e1, _⟩ := DR.read_ok dr n v h0 hl hs ha
        rw [e1]; simp [FillRes.val?, ha]
      · obtain ⟨e, g, dr', e1⟩ := DR.read_short dr n v hl hs (by omega)
        rw [e1]; simp [FillRes.val?, ha]

/-- scope check in natural-number terms -/
theorem scopeUpdate_isSome_iff (i max : UInt64) (n : Nat) (hn : n < 2 ^ 64) :
    (scopeUpdate i max (UInt64.ofNat n)).isSome = true ↔ i.toNat + n ≤ max.toNat := by
  constructor
  · intro h
    by_cases hle : i.toNat + n ≤ max.toNat
    · exact hle
    · rw [scopeUpdate_err i max n hn (by omega)] at h; simp at h
  · intro h
    rw [(scopeUpdate_ok i max n h).1]; rfl

/-! ## sequences of plain reads -/

theorem DR.reads_spec (dr : DR) (hl : dr.input.legal) (ns : List Nat) (hb : ∀ n ∈ ns, n < 2 ^ 64) :
    ((dr.reads ns).1, (dr.reads ns).2.isSome) = specReads dr.input.avail dr.i.toNat dr.max.toNat ns ∧
    (dr.reads ns).2 ≠ some .spin := by
  induction ns generalizing dr with
  | nil => simp [DR.reads, specReads]
  | cons n ns ih =>
    have hn : n < 2 ^ 64 := hb n (by simp)
    have hb' : ∀ m ∈ ns, m < 2 ^ 64 := fun m hm => hb m (by simp [hm])
    by_cases h0 : n = 0
    · subst h0
      obtain ⟨i1, i2⟩ := ih dr hl hb'
      have e1 : specReads dr.input.avail dr.i.toNat dr.max.toNat (0 :: ns) =
          ([] :: (specReads dr.input.avail dr.i.toNat dr.max.toNat ns).1,
            (specReads dr.input.avail dr.i.toNat dr.max.toNat ns).2) := by
        rw [specReads]; simp
      rw [e1, ← i1]
      simp only [DR.reads, DR.read_zero]
      exact ⟨trivial, i2⟩
    · cases hs : scopeUpdate dr.i dr.max (UInt64.ofNat n) with
      | none =>
        have hgt : ¬ dr.i.toNat + n ≤ dr.max.toNat := by
          intro hle
          rw [(scopeUpdate_ok dr.i dr.max n hle).1] at hs
          exact absurd hs (by simp)
        have e1 : specReads dr.input.avail dr.i.toNat dr.max.toNat (n :: ns) = ([], true) := by
          rw [specReads]; simp [h0, hgt]
        rw [e1]
        simp only [DR.reads, DR.read_scope_err dr n h0 hs]
        simp
      | some v =>
        have hle : dr.i.toNat + n ≤ dr.max.toNat := by
          by_cases hle : dr.i.toNat + n ≤ dr.max.toNat
          · exact hle
          · rw [scopeUpdate_err dr.i dr.max n hn (by omega)] at hs
            exact absurd hs (by simp)
        have hv : v.toNat = dr.i.toNat + n := by
          have := scopeUpdate_ok dr.i dr.max n hle
          rw [this.1] at hs
          rw [← Option.some.inj hs]; exact this.2
        by_cases ha : n ≤ dr.input.avail.length
        · obtain ⟨r', e1, e2, _, e4⟩ := DR.read_ok dr n v h0 hl hs ha
          obtain ⟨i1, i2⟩ := ih { input := r', i := v, max := dr.max } e4 hb'
          simp only [e2, hv] at i1
          have e3 : specReads dr.input.avail dr.i.toNat dr.max.toNat (n :: ns) =
              (dr.input.avail.take n :: (specReads (dr.input.avail.drop n) (dr.i.toNat + n) dr.max.toNat ns).1,
                (specReads (dr.input.avail.drop n) (dr.i.toNat + n) dr.max.toNat ns).2) := by
            rw [specReads]; simp [h0, hle, ha]
          rw [e3, ← i1]
          simp only [DR.reads, e1]
          exact ⟨trivial, i2⟩
        · obtain ⟨e, g, dr', e1⟩ := DR.read_short dr n v hl hs (by omega)
          have e3 : specReads dr.input.avail dr.i.toNat dr.max.toNat (n :: ns) = ([], true) := by
            rw [specReads]; simp [h0, ha]
          rw [e3]
          simp only [DR.reads, e1]
          simp

/-- `Dec.run` on plain read requests is `DR.reads` on the current reader -/
theorem Dec.run_reads (d : Dec) (ns : List Nat) :
    d.run (ns.map Req.read) = ((d.cur.reads ns).1.map Obs.bytes, (d.cur.reads ns).2) := by
  induction ns generalizing d with
  | nil => simp [Dec.run, DR.reads]
  | cons n ns ih =>
    simp only [List.map_cons, Dec.run, Dec.step, DR.reads]
    generalize d.cur.read n = r
    obtain ⟨res, dr'⟩ := r
    cases res with
    | ok bs => simp [FillRes.toExcept, ih]
    | err e g => simp [FillRes.toExcept]
    | spin => simp [FillRes.toExcept]

/-! ## decoder steps against the flat specification -/

theorem zipFrames_map (ps : List (UInt64 × UInt64)) (as : List Bytes) (d : Nat) :
    zipFrames ps (as.map (List.drop d)) = (zipFrames ps as).map (SFrame.adv d) := by
  induction ps generalizing as with
  | nil => simp [zipFrames]
  | cons p ps ih =>
    cases as with
    | nil => simp [zipFrames]
    | cons a as => simp [zipFrames, ih, SFrame.adv]

/-- shape of a well-formed decoder state -/
theorem Dec.wf_shape (d : Dec) (hwf : d.wf) :
    ∃ n inner, d.cur.input = .limit n inner ∧ inner.avails.length = d.parents.length := by
  obtain ⟨h1, _⟩ := hwf
  cases hi : d.cur.input with
  | base st => rw [hi] at h1; simp [Rd.avails] at h1
  | limit n inner =>
    rw [hi] at h1
    simp only [Rd.avails, List.length_cons] at h1
    exact ⟨n, inner, rfl, by omega⟩

theorem specRead_zero (f : SFrame) (ps : List SFrame) : specRead (f :: ps) 0 = some ([], f :: ps) := by
  unfold specRead
  simp only [if_true]

theorem specRead_scope (f : SFrame) (ps : List SFrame) (n : Nat) (h0 : n ≠ 0)
    (hs : scopeUpdate f.i f.max (UInt64.ofNat n) = none) : specRead (f :: ps) n = none := by
  unfold specRead
  simp only [h0, if_false]
  rw [hs]

theorem specRead_ok (f : SFrame) (ps : List SFrame) (n : Nat) (v : UInt64) (h0 : n ≠ 0)
    (hs : scopeUpdate f.i f.max (UInt64.ofNat n) = some v) (ha : n ≤ f.avail.length) :
    specRead (f :: ps) n = some (f.avail.take n, ({ f with i := v } :: ps).map (SFrame.adv n)) := by
  unfold specRead
  simp only [h0, if_false]
  rw [hs]
  simp only [ha, if_true]

theorem specRead_short (f : SFrame) (ps : List SFrame) (n : Nat) (v : UInt64) (h0 : n ≠ 0)
    (hs : scopeUpdate f.i f.max (UInt64.ofNat n) = some v) (ha : ¬ n ≤ f.avail.length) :
    specRead (f :: ps) n = none := by
  unfold specRead
  simp only [h0, if_false]
  rw [hs]
  simp only [ha, if_false]

/-- reading in a well-formed state: the model result is the specification's -/
theorem Dec.read_spec (d : Dec) (hwf : d.wf) (n : Nat) :
    (∃ bs r', d.cur.read n = (.ok bs, r') ∧ specRead d.abs n = some (bs, Dec.abs { d with cur := r' }) ∧
        Dec.wf { d with cur := r' }) ∨
    (∃ e g r', d.cur.read n = (.err e g, r') ∧ specRead d.abs n = none) := by
  obtain ⟨m, inner, hi, hlen⟩ := Dec.wf_shape d hwf
  have habs : d.abs = { i := d.cur.i, max := d.cur.max, avail := d.cur.input.avail } ::
      zipFrames d.parents inner.avails := by
    simp [Dec.abs, hi, Rd.avails, zipFrames]
  by_cases h0 : n = 0
  · subst h0
    left
    exact ⟨[], d.cur, DR.read_zero _, by rw [habs, specRead_zero], hwf⟩
  · cases hs : scopeUpdate d.cur.i d.cur.max (UInt64.ofNat n) with
    | none =>
      right
      exact ⟨.scope, [], d.cur, DR.read_scope_err _ n h0 hs, by rw [habs, specRead_scope _ _ n h0 hs]⟩
    | some v =>
      by_cases ha : n ≤ d.cur.input.avail.length
      · left
        obtain ⟨r', e1, e2, e3, e4⟩ := DR.read_ok d.cur n v h0 hwf.2 hs ha
        refine ⟨_, _, e1, ?_, ?_⟩
        · rw [habs, specRead_ok _ _ n v h0 hs ha]
          simp only [Dec.abs, e3, zipFrames_map, hi, Rd.avails, zipFrames, List.map_cons, SFrame.adv]
        · refine ⟨?_, e4⟩
          simp only [e3, List.length_map]
          exact hwf.1
      · right
        obtain ⟨e, g, dr', e1⟩ := DR.read_short d.cur n v hwf.2 hs (by omega)
        exact ⟨e, g, dr', e1, by rw [habs, specRead_short _ _ n v h0 hs ha]⟩

theorem Dec.step_spec (d : Dec) (hwf : d.wf) (q : Req) :
    (∃ o d', d.step q = .ok (o, d') ∧ specStep d.abs q = some (o, d'.abs) ∧ d'.wf) ∨
    (∃ e, d.step q = .error (.err e) ∧ specStep d.abs q = none) := by
  obtain ⟨m, inner, hi, hlen⟩ := Dec.wf_shape d hwf
  have habs : d.abs = { i := d.cur.i, max := d.cur.max, avail := d.cur.input.avail } ::
      zipFrames d.parents inner.avails := by
    simp [Dec.abs, hi, Rd.avails, zipFrames]
  cases q with
  | read n =>
    rcases Dec.read_spec d hwf n with ⟨bs, r', e1, e2, e3⟩ | ⟨e, g, r', e1, e2⟩
    · left
      exact ⟨.bytes bs, { d with cur := r' }, by simp [Dec.step, e1, FillRes.toExcept],
        by simp [specStep, e2], e3⟩
    · right
      exact ⟨e, by simp [Dec.step, e1, FillRes.toExcept], by simp [specStep, e2]⟩
  | uintN k =>
    rcases Dec.read_spec d hwf k with ⟨bs, r', e1, e2, e3⟩ | ⟨e, g, r', e1, e2⟩
    · left
      exact ⟨.num (leNat bs), { d with cur := r' },
        by simp [Dec.step, DR.readUintN, e1, FillRes.toExcept, Except.map],
        by simp [specStep, e2], e3⟩
    · right
      exact ⟨e, by simp [Dec.step, DR.readUintN, e1, FillRes.toExcept, Except.map], by simp [specStep, e2]⟩
  | sub count =>
    by_cases hc : d.cur.max - d.cur.i < count
    · right
      exact ⟨.scope, by simp [Dec.step, DR.subScope, DR.scope, hc], by simp [habs, specStep, hc]⟩
    · left
      refine ⟨.sub, _, by simp only [Dec.step, DR.subScope, DR.scope, hc, if_false]; rfl, ?_, ?_⟩
      · simp only [habs, specStep, hc, if_false]
        simp [Dec.abs, Rd.avails, Rd.avail, zipFrames, hi]
      · exact ⟨by simp [Rd.avails, hwf.1], by simpa [Rd.legal] using hwf.2⟩
  | up =>
    left
    cases hp : d.parents with
    | nil =>
      refine ⟨.up, d, by simp [Dec.step, hi, hp], ?_, hwf⟩
      rw [hp] at hlen
      have : inner.avails = [] := List.eq_nil_of_length_eq_zero hlen
      simp [habs, specStep, hp, this, zipFrames]
    | cons p ps =>
      rw [hp] at hlen
      cases hia : inner.avails with
      | nil => rw [hia] at hlen; simp at hlen
      | cons a as =>
        refine ⟨.up, _, by simp only [Dec.step, hi, hp]; rfl, ?_, ?_⟩
        · rw [habs, hp, hia]
          simp [specStep, hia, zipFrames, Dec.abs]
        · refine ⟨by simpa using hlen, ?_⟩
          have := hwf.2
          rw [hi] at this
          simpa [Rd.legal] using this
  | upUpdate =>
    left
    cases hp : d.parents with
    | nil =>
      refine ⟨.up, d, by simp [Dec.step, hi, hp], ?_, hwf⟩
      rw [hp] at hlen
      have : inner.avails = [] := List.eq_nil_of_length_eq_zero hlen
      simp [habs, specStep, hp, this, zipFrames]
    | cons p ps =>
      rw [hp] at hlen
      cases hia : inner.avails with
      | nil => rw [hia] at hlen; simp at hlen
      | cons a as =>
        refine ⟨.up, _, by simp only [Dec.step, hi, hp]; rfl, ?_, ?_⟩
        · rw [habs, hp, hia]
          simp [specStep, hia, zipFrames, Dec.abs, DR.updateIndexFromScoped]
        · refine ⟨by simpa [DR.updateIndexFromScoped] using hlen, ?_⟩
          have := hwf.2
          rw [hi] at this
          simpa [Rd.legal, DR.updateIndexFromScoped] using this
  | index =>
    left
    exact ⟨.index d.cur.i d.cur.max, d, by simp [Dec.step], by simp [habs, specStep], hwf⟩

theorem Dec.run_spec (d : Dec) (hwf : d.wf) (qs : List Req) :
    (d.run qs).1 = (specRun d.abs qs).1 ∧
    ((d.run qs).2.isSome = (specRun d.abs qs).2) ∧
    (d.run qs).2 ≠ some .spin := by
  induction qs generalizing d with
  | nil => simp [Dec.run, specRun]
  | cons q qs ih =>
    rcases Dec.step_spec d hwf q with ⟨o, d', e1, e2, e3⟩ | ⟨e, e1, e2⟩
    · obtain ⟨i1, i2, i3⟩ := ih d' e3
      simp only [Dec.run, e1, specRun, e2]
      exact ⟨by rw [i1], i2, i3⟩
    · simp [Dec.run, e1, specRun, e2]

theorem Dec.runAdaptive_spec (next : List Obs → Option Req) (fuel : Nat) (d : Dec) (hwf : d.wf) (os : List Obs) :
    (Dec.runAdaptive next fuel d os).1 = (specRunAdaptive next fuel d.abs os).1 ∧
    ((Dec.runAdaptive next fuel d os).2.isSome = (specRunAdaptive next fuel d.abs os).2) ∧
    (Dec.runAdaptive next fuel d os).2 ≠ some .spin := by
  induction fuel generalizing d os with
  | zero => simp [Dec.runAdaptive, specRunAdaptive]
  | succ fuel ih =>
    cases hn : next os with
    | none => simp [Dec.runAdaptive, specRunAdaptive, hn]
    | some q =>
      rcases Dec.step_spec d hwf q with ⟨o, d', e1, e2, e3⟩ | ⟨e, e1, e2⟩
      · simp only [Dec.runAdaptive, specRunAdaptive, hn, e1, e2]
        exact ih d' e3 (os ++ [o])
      · simp [Dec.runAdaptive, specRunAdaptive, hn, e1, e2]

theorem Dec.new_wf (st : ReaderState) (scope : UInt64) (hl : st.legal) : (Dec.new st scope).wf := by
  exact ⟨by simp [Dec.new, newDecodingReader, Rd.avails], by simpa [Dec.new, newDecodingReader, Rd.legal] using hl⟩

theorem Dec.new_abs (st : ReaderState) (scope : UInt64) : (Dec.new st scope).abs = specNew st.data scope := by
  simp [Dec.new, newDecodingReader, Dec.abs, Rd.avails, Rd.avail, zipFrames, specNew]

/-! ## writer -/

theorem writeCall_fst (w : WriterState) (p : Bytes) :
    (writeCall w p).1 =
      if w.cap = 0 then min p.length (w.room p.length) else min (min p.length (w.room p.length)) w.cap := rfl

theorem writeCall_err (w : WriterState) (p : Bytes) :
    (writeCall w p).2.1 =
      if (writeCall w p).1 = p.length then none
      else if (writeCall w p).1 = min p.length (w.room p.length) then some .fault
      else if w.lenient then none else some .short := rfl

theorem writeCall_state (w : WriterState) (p : Bytes) :
    (writeCall w p).2.2 = { w with acc := w.acc ++ p.take (writeCall w p).1 } := rfl

theorem writeCall_le (w : WriterState) (p : Bytes) : (writeCall w p).1 ≤ p.length := by
  rw [writeCall_fst]; split <;> omega

/-- a nil error on a non-empty slice means progress -/
theorem writeCall_progress (w : WriterState) (p : Bytes) (he : (writeCall w p).2.1 = none) (hp : 1 ≤ p.length) :
    1 ≤ (writeCall w p).1 := by
  rw [writeCall_err] at he
  by_cases h1 : (writeCall w p).1 = p.length
  · omega
  · rw [if_neg h1] at he
    by_cases h2 : (writeCall w p).1 = min p.length (w.room p.length)
    · rw [if_pos h2] at he; exact absurd he (by simp)
    · rw [writeCall_fst] at h2 ⊢
      by_cases hc : w.cap = 0
      · rw [if_pos hc] at h2; exact absurd rfl h2
      · rw [if_neg hc] at h2 ⊢; omega

/-- an error means that not everything offered was accepted -/
theorem writeCall_err_lt (w : WriterState) (p : Bytes) (he : (writeCall w p).2.1 ≠ none) :
    (writeCall w p).1 < p.length := by
  rw [writeCall_err] at he
  by_cases h1 : (writeCall w p).1 = p.length
  · rw [if_pos h1] at he; exact absurd rfl he
  · have := writeCall_le w p; omega

/-- writers without per-call limit, or lenient ones: an error only at the failure position -/
theorem writeCall_exact_err (w : WriterState) (p : Bytes) (hx : w.cap = 0 ∨ w.lenient = true)
    (he : (writeCall w p).2.1 ≠ none) :
    (writeCall w p).1 = w.room p.length ∧ w.room p.length < p.length := by
  have hlt := writeCall_err_lt w p he
  rw [writeCall_err] at he
  have h1 : ¬ (writeCall w p).1 = p.length := by omega
  rw [if_neg h1] at he
  by_cases h2 : (writeCall w p).1 = min p.length (w.room p.length)
  · omega
  · rw [if_neg h2] at he
    rcases hx with hx | hx
    · rw [writeCall_fst, if_pos hx] at h2; exact absurd rfl h2
    · rw [hx] at he; exact absurd rfl he

theorem writeCall_exact_ok (w : WriterState) (p : Bytes) (he : (writeCall w p).2.1 = none) :
    (writeCall w p).1 ≤ w.room p.length ∧ (p.length ≤ w.room p.length ∨ (writeCall w p).1 < w.room p.length) := by
  rw [writeCall_err] at he
  by_cases h1 : (writeCall w p).1 = p.length
  · rw [writeCall_fst] at h1 ⊢
    split at h1 <;> split <;> omega
  · rw [if_neg h1] at he
    by_cases h2 : (writeCall w p).1 = min p.length (w.room p.length)
    · rw [if_pos h2] at he; exact absurd he (by simp)
    · rw [writeCall_fst] at h1 h2 ⊢
      by_cases hc : w.cap = 0
      · rw [if_pos hc] at h2; exact absurd rfl h2
      · rw [if_neg hc] at h1 h2 ⊢; omega

/-- what a `Write` loop run establishes: `m` bytes of `p` were accepted and counted -/
structure LoopPost (ew : EW) (p : Bytes) (r : Option Stop × EW) (m : Nat) : Prop where
  le : m ≤ p.length
  acc : r.2.w.acc = ew.w.acc ++ p.take m
  cnt : r.2.n = ew.n + m
  failAt : r.2.w.failAt = ew.w.failAt
  cap : r.2.w.cap = ew.w.cap
  lenient : r.2.w.lenient = ew.w.lenient
  status : (r.1 = none ∧ m = p.length) ∨ (∃ e, r.1 = some (.err e) ∧ m < p.length)
  exactSome : (ew.w.cap = 0 ∨ ew.w.lenient = true) → ∀ k, ew.w.failAt = some k → m = min p.length (k - ew.w.acc.length)
  exactNone : (ew.w.cap = 0 ∨ ew.w.lenient = true) → ew.w.failAt = none → m = p.length

theorem room_some (w : WriterState) (len k : Nat) (h : w.failAt = some k) : w.room len = k - w.acc.length := by
  simp [WriterState.room, h]

theorem room_none (w : WriterState) (len : Nat) (h : w.failAt = none) : w.room len = len := by
  simp [WriterState.room, h]

theorem ewLoop_spec (fuel : Nat) (ew : EW) (p : Bytes) (hf : p.length ≤ fuel) :
    ∃ m, LoopPost ew p (ewLoop fuel ew p) m := by
  induction fuel generalizing ew p with
  | zero =>
    have hp : p = [] := List.eq_nil_of_length_eq_zero (by omega)
    subst hp
    exact ⟨0, by simp, by simp [ewLoop], by simp [ewLoop], by simp [ewLoop], by simp [ewLoop], by simp [ewLoop],
      by simp [ewLoop], by intros; simp, by intros; simp⟩
  | succ fuel ih =>
    by_cases hp : p = []
    · subst hp
      exact ⟨0, by simp, by simp [ewLoop], by simp [ewLoop], by simp [ewLoop], by simp [ewLoop], by simp [ewLoop],
        by simp [ewLoop], by intros; simp, by intros; simp⟩
    · have hlen : 1 ≤ p.length := by
        cases p with
        | nil => exact absurd rfl hp
        | cons a l => simp
      have hle := writeCall_le ew.w p
      have hst := writeCall_state ew.w p
      rw [ewLoop]
      simp only [List.isEmpty_iff, hp, if_false]
      cases he : (writeCall ew.w p).2.1 with
      | some e =>
        have hlt := writeCall_err_lt ew.w p (by rw [he]; simp)
        refine ⟨(writeCall ew.w p).1, hle, ?_, rfl, ?_, ?_, ?_, Or.inr ⟨e, rfl, hlt⟩, ?_, ?_⟩
        · simp only [hst]
        · simp only [hst]
        · simp only [hst]
        · simp only [hst]
        · intro hx k hk
          have := writeCall_exact_err ew.w p hx (by rw [he]; simp)
          rw [room_some _ _ k hk] at this
          omega
        · intro hx hk
          have := writeCall_exact_err ew.w p hx (by rw [he]; simp)
          rw [room_none _ _ hk] at this
          omega
      | none =>
        simp only
        have hprog := writeCall_progress ew.w p he hlen
        have hok := writeCall_exact_ok ew.w p he
        obtain ⟨m', post⟩ := ih { w := (writeCall ew.w p).2.2, n := ew.n + (writeCall ew.w p).1 }
          (p.drop (writeCall ew.w p).1) (by rw [List.length_drop]; omega)
        have hdl : (p.drop (writeCall ew.w p).1).length = p.length - (writeCall ew.w p).1 := List.length_drop
        have hm' := post.le
        rw [hdl] at hm'
        have hacc : (writeCall ew.w p).2.2.acc = ew.w.acc ++ p.take (writeCall ew.w p).1 := by rw [hst]
        have hfa : (writeCall ew.w p).2.2.failAt = ew.w.failAt := by rw [hst]
        have hcap : (writeCall ew.w p).2.2.cap = ew.w.cap := by rw [hst]
        have hlen' : (writeCall ew.w p).2.2.lenient = ew.w.lenient := by rw [hst]
        have hal : (writeCall ew.w p).2.2.acc.length = ew.w.acc.length + (writeCall ew.w p).1 := by
          rw [hacc, List.length_append, List.length_take]; omega
        refine ⟨(writeCall ew.w p).1 + m', by omega, ?_, ?_, ?_, ?_, ?_, ?_, ?_, ?_⟩
        · rw [post.acc]
          simp only [hacc]
          rw [List.append_assoc, List.take_add]
        · rw [post.cnt]; simp only; omega
        · rw [post.failAt]; exact hfa
        · rw [post.cap]; exact hcap
        · rw [post.lenient]; exact hlen'
        · rcases post.status with ⟨h1, h2⟩ | ⟨e, h1, h2⟩
          · left; exact ⟨h1, by rw [hdl] at h2; omega⟩
          · right; exact ⟨e, h1, by rw [hdl] at h2; omega⟩
        · intro hx k hk
          have := post.exactSome (by simpa only [hcap, hlen'] using hx) k (by simpa only [hfa] using hk)
          simp only [hal, hdl] at this
          rw [room_some _ _ k hk] at hok
          omega
        · intro hx hk
          have := post.exactNone (by simpa only [hcap, hlen'] using hx) (by simpa only [hfa] using hk)
          rw [hdl] at this
          omega

/-- the same for a sequence of `Write` calls that stops at the first error; `total` = all bytes offered -/
theorem ewWrites_spec (ew : EW) (ps : List Bytes) :
    ∃ m, LoopPost ew ps.flatten (ewWrites ew ps) m := by
  induction ps generalizing ew with
  | nil =>
    exact ⟨0, by simp, by simp [ewWrites], by simp [ewWrites], by simp [ewWrites], by simp [ewWrites],
      by simp [ewWrites], by simp [ewWrites], by intros; simp, by intros; simp⟩
  | cons p ps ih =>
    obtain ⟨m1, post1⟩ := ewLoop_spec p.length ew p (Nat.le_refl _)
    have hfl : (p :: ps).flatten = p ++ ps.flatten := by simp
    rw [hfl]
    cases hs : (ewLoop p.length ew p).1 with
    | some st =>
      have hw : ewWrites ew (p :: ps) = (some st, (ewLoop p.length ew p).2) := by
        rw [ewWrites, EW.write]
        generalize ewLoop p.length ew p = r at hs ⊢
        obtain ⟨a, b⟩ := r
        simp only at hs
        subst hs
        rfl
      rw [hw]
      have hlt : m1 < p.length := by
        rcases post1.status with ⟨h1, _⟩ | ⟨e, _, h2⟩
        · rw [hs] at h1; exact absurd h1 (by simp)
        · exact h2
      have hst : ∃ e, st = .err e := by
        rcases post1.status with ⟨h1, _⟩ | ⟨e, h1, _⟩
        · rw [hs] at h1; exact absurd h1 (by simp)
        · rw [hs] at h1; exact ⟨e, by simpa using h1⟩
      obtain ⟨e, hst⟩ := hst
      refine ⟨m1, by rw [List.length_append]; omega, ?_, post1.cnt, post1.failAt, post1.cap, post1.lenient,
        Or.inr ⟨e, by rw [hst], by rw [List.length_append]; omega⟩, ?_, ?_⟩
      · rw [post1.acc, List.take_append_of_le_length (by omega)]
      · intro hx k hk
        have := post1.exactSome hx k hk
        rw [List.length_append]; omega
      · intro hx hk
        have := post1.exactNone hx hk
        omega
    | none =>
      have hw : ewWrites ew (p :: ps) = ewWrites (ewLoop p.length ew p).2 ps := by
        rw [ewWrites, EW.write]
        generalize ewLoop p.length ew p = r at hs ⊢
        obtain ⟨a, b⟩ := r
        simp only at hs
        subst hs
        rfl
      rw [hw]
      have hm1 : m1 = p.length := by
        rcases post1.status with ⟨_, h2⟩ | ⟨e, h1, _⟩
        · exact h2
        · rw [hs] at h1; exact absurd h1 (by simp)
      obtain ⟨m2, post2⟩ := ih (ewLoop p.length ew p).2
      have hacc1 : (ewLoop p.length ew p).2.w.acc = ew.w.acc ++ p := by
        rw [post1.acc, hm1, List.take_length]
      have hal : (ewLoop p.length ew p).2.w.acc.length = ew.w.acc.length + p.length := by
        rw [hacc1, List.length_append]
      have hm2 := post2.le
      refine ⟨p.length + m2, by rw [List.length_append]; omega, ?_, ?_, ?_, ?_, ?_, ?_, ?_, ?_⟩
      · rw [post2.acc, hacc1, List.append_assoc, List.take_length_add_append]
      · rw [post2.cnt, post1.cnt, hm1]; omega
      · rw [post2.failAt, post1.failAt]
      · rw [post2.cap, post1.cap]
      · rw [post2.lenient, post1.lenient]
      · rcases post2.status with ⟨h1, h2⟩ | ⟨e, h1, h2⟩
        · left; exact ⟨h1, by rw [List.length_append]; omega⟩
        · right; exact ⟨e, h1, by rw [List.length_append]; omega⟩
      · intro hx k hk
        have h1 := post1.exactSome hx k hk
        have h2 := post2.exactSome (by simpa only [post1.cap, post1.lenient] using hx) k
          (by simpa only [post1.failAt] using hk)
        rw [hal] at h2
        rw [List.length_append]; omega
      · intro hx hk
        have h2 := post2.exactNone (by simpa only [post1.cap, post1.lenient] using hx)
          (by simpa only [post1.failAt] using hk)
        rw [List.length_append]; omega

/-- typed calls are `Write` of their little-endian bytes; a program without panicking op is `ewWrites` -/
theorem EW.op_bytes (ew : EW) (o : WOp) : ew.op o = o.bytes.map ew.write := by
  cases o <;> simp [EW.op, WOp.bytes, EW.writeByte, EW.writeUint16, EW.writeUint32, EW.writeUint64, Option.map]
  cases offsetBytes _ _ <;> rfl

def stopOutcome : Option Stop → WOutcome
  | none => .ok
  | some (.err _) => .err
  | some .spin => .spin

theorem ewRun_eq_ewWrites (ew : EW) (os : List WOp) (bs : List Bytes) (h : os.map WOp.bytes = bs.map some) :
    ewRun ew os = (stopOutcome (ewWrites ew bs).1, (ewWrites ew bs).2) := by
  induction os generalizing ew bs with
  | nil =>
    cases bs with
    | nil => simp [ewRun, ewWrites, stopOutcome]
    | cons b bs => simp at h
  | cons o os ih =>
    cases bs with
    | nil => simp at h
    | cons b bs =>
      simp only [List.map_cons, List.cons.injEq] at h
      obtain ⟨h1, h2⟩ := h
      rw [ewRun, EW.op_bytes, h1]
      simp only [Option.map]
      rw [ewWrites]
      generalize ew.write b = r
      obtain ⟨s, ew'⟩ := r
      cases s with
      | none => simp only; exact ih ew' bs h2
      | some st =>
        cases st with
        | err e => simp [stopOutcome]
        | spin => simp [stopOutcome]

/-! ## concrete inputs for the non-vacuity examples of Props/C13.lean -/
namespace Ex

/-- six bytes delivered in chunks of 2,3,2,3,… with the last chunk arriving together with EOF; scope 6 -/
def rdWith : ReaderState := mkReader [1, 2, 3, 4, 5, 6] [2, 3] .eofWithData 6
/-- the same stream failing after 4 bytes, delivered byte by byte -/
def rdFail : ReaderState := mkReader [1, 2, 3, 4, 5, 6] [1] .fail 4
/-- a decoder-like program: a byte, a sub-scope of 4 with an offset read inside, back, one more byte, index -/
def prog : List Req := [.uintN 1, .sub 4, .uintN 4, .up, .uintN 1, .index]
/-- writer failing at byte 5 -/
def wFail : WriterState := { acc := [], failAt := some 5, cap := 0, lenient := false }
/-- writer failing at byte 9 and accepting at most 2 bytes per call, short writes with an error -/
def wShort : WriterState := { acc := [], failAt := some 9, cap := 2, lenient := false }
/-- writer that never fails but takes one byte per call and reports that without error -/
def wLenient : WriterState := { acc := [], failAt := none, cap := 1, lenient := true }
def slices : List Bytes := [[1, 2], [], [3], [4, 5, 6, 7]]
/-- an adaptive decoder: read a length byte, then that many bytes, then stop -/
def lenPrefixed : List Obs → Option Req
  | [] => some (.uintN 1)
  | [.num n] => some (.read n)
  | _ => none

end Ex

end ZtypV.CodecIO
