/-
Auxiliary lemmas for Proofs/Shape.lean: unfolding characterisations of `ZeroTree` / `SeqShape`
by node constructor, and path-form (`bitsOf`) versions of the navigation / mutation facts.
Core Lean only.
-/
import ZtypV.Proofs.Rep
import ZtypV.Proofs.Fill
import ZtypV.Proofs.FillGet
namespace ZtypV
namespace ShapeAux
open ZtypV.View

/-! ### `ZeroTree` by constructor -/

theorem zeroTree_zero_iff (h : HashFn) (n : Node) : ZeroTree h 0 n ↔ n = .leaf z0 := by
  constructor
  · intro hz; cases hz; rfl
  · intro he; subst he; exact ZeroTree.leaf 0

theorem zeroTree_leaf_iff (h : HashFn) (d : Nat) (c : Root) : ZeroTree h d (.leaf c) ↔ c = zh h d := by
  constructor
  · intro hz; cases hz; rfl
  · intro he; subst he; exact ZeroTree.leaf d

theorem zeroTree_pair_iff (h : HashFn) (d : Nat) (l r : Node) :
    ZeroTree h (d + 1) (.pair l r) ↔ ZeroTree h d l ∧ ZeroTree h d r := by
  constructor
  · intro hz; cases hz with | pair hl hr => exact ⟨hl, hr⟩
  · intro ⟨hl, hr⟩; exact ZeroTree.pair hl hr

theorem zeroTree_zero_pair (h : HashFn) (l r : Node) : ¬ ZeroTree h 0 (.pair l r) := by
  intro hz; cases hz

/-! ### `SeqShape` by depth and constructor -/

theorem seqShape_nil (h : HashFn) (d : Nat) (n : Node) : SeqShape h d n [] ↔ ZeroTree h d n := by
  cases d <;> simp [SeqShape]

theorem seqShape_zero_single (h : HashFn) (n x : Node) : SeqShape h 0 n [x] ↔ n = x := by
  simp [SeqShape]

theorem seqShape_zero_two (h : HashFn) (n x y : Node) (zs : List Node) :
    ¬ SeqShape h 0 n (x :: y :: zs) := by
  simp [SeqShape]

theorem seqShape_succ_cons (h : HashFn) (d : Nat) (n x : Node) (xs : List Node) :
    SeqShape h (d + 1) n (x :: xs) ↔
      ∃ l r, n = .pair l r ∧ SeqShape h d l ((x :: xs).take (2 ^ d)) ∧
        SeqShape h d r ((x :: xs).drop (2 ^ d)) := by
  simp only [SeqShape]

/-- depth 0: an empty position holding the zero leaf, or exactly one bottom node -/
theorem seqShape_zero (h : HashFn) (n : Node) (xs : List Node) :
    SeqShape h 0 n xs ↔ (xs = [] ∧ n = .leaf z0) ∨ xs = [n] := by
  match xs with
  | [] => rw [seqShape_nil, zeroTree_zero_iff]; simp
  | [x] => rw [seqShape_zero_single]; simp [eq_comm]
  | x :: y :: zs => simp [seqShape_zero_two]

/-- a summary leaf at positive depth: no contents -/
theorem seqShape_succ_leaf (h : HashFn) (d : Nat) (c : Root) (xs : List Node) :
    SeqShape h (d + 1) (.leaf c) xs ↔ xs = [] ∧ c = zh h (d + 1) := by
  match xs with
  | [] => rw [seqShape_nil, zeroTree_leaf_iff]; simp
  | x :: xs => rw [seqShape_succ_cons]; simp

/-- a pair at positive depth: contents split at `2^d` (also for the empty contents) -/
theorem seqShape_succ_pair (h : HashFn) (d : Nat) (l r : Node) (xs : List Node) :
    SeqShape h (d + 1) (.pair l r) xs ↔
      SeqShape h d l (xs.take (2 ^ d)) ∧ SeqShape h d r (xs.drop (2 ^ d)) := by
  match xs with
  | [] =>
    rw [seqShape_nil, zeroTree_pair_iff]
    simp only [List.take_nil, List.drop_nil, seqShape_nil]
  | x :: xs =>
    rw [seqShape_succ_cons]
    constructor
    · rintro ⟨l', r', he, hl, hr⟩
      cases he; exact ⟨hl, hr⟩
    · rintro ⟨hl, hr⟩; exact ⟨l, r, rfl, hl, hr⟩

/-! ### length bound and root -/

theorem length_le (h : HashFn) (d : Nat) : ∀ (n : Node) (xs : List Node),
    SeqShape h d n xs → xs.length ≤ 2 ^ d := by
  induction d with
  | zero =>
    intro n xs hs
    rw [seqShape_zero] at hs
    rcases hs with ⟨rfl, _⟩ | rfl <;> simp
  | succ d ih =>
    intro n xs hs
    cases n with
    | leaf c =>
      rw [seqShape_succ_leaf] at hs
      rw [hs.1]; exact Nat.zero_le _
    | pair l r =>
      rw [seqShape_succ_pair] at hs
      have h2 := ih r _ hs.2
      rw [List.length_drop] at h2
      rw [Nat.pow_succ]; omega

theorem root_eq (h : HashFn) (d : Nat) : ∀ (n : Node) (xs : List Node),
    SeqShape h d n xs → n.root h = merk h d (xs.map (Node.root h)) := by
  induction d with
  | zero =>
    intro n xs hs
    rw [seqShape_zero] at hs
    rcases hs with ⟨rfl, rfl⟩ | rfl <;> simp [merk, Node.root]
  | succ d ih =>
    intro n xs hs
    cases n with
    | leaf c =>
      rw [seqShape_succ_leaf] at hs
      rw [hs.1, hs.2]; simp only [List.map_nil, merk_nil, Node.root]
    | pair l r =>
      rw [seqShape_succ_pair] at hs
      simp only [Node.root, merk, ih l _ hs.1, ih r _ hs.2, List.map_take, List.map_drop]

/-! ### path-form navigation -/

theorem get_path (h : HashFn) (d : Nat) : ∀ (n : Node) (xs : List Node) (i : Nat) (hi : i < xs.length),
    SeqShape h d n xs → getNode n (bitsOf i d) = .ok xs[i] := by
  induction d with
  | zero =>
    intro n xs i hi hs
    rw [seqShape_zero] at hs
    rcases hs with ⟨rfl, _⟩ | rfl
    · simp at hi
    · have : i = 0 := by simpa using hi
      subst this; simp
  | succ d ih =>
    intro n xs i hi hs
    have hlen := length_le h (d + 1) n xs hs
    cases n with
    | leaf c =>
      rw [seqShape_succ_leaf] at hs
      rw [hs.1] at hi; simp at hi
    | pair l r =>
      rw [seqShape_succ_pair] at hs
      rw [bitsOf_succ]
      by_cases hid : i < 2 ^ d
      · rw [testBit_top_false i d hid, getNode_pair_false]
        have hi' : i < (xs.take (2 ^ d)).length := by rw [List.length_take]; omega
        rw [ih l _ i hi' hs.1, List.getElem_take]
      · have h1 : 2 ^ d ≤ i := by omega
        have h2 : i < 2 ^ (d + 1) := by omega
        rw [testBit_top_true i d h1 h2, getNode_pair_true, ← bitsOf_sub_pow i d h1 h2]
        have hi' : i - 2 ^ d < (xs.drop (2 ^ d)).length := by rw [List.length_drop]; omega
        rw [ih r _ _ hi' hs.2, List.getElem_drop]
        congr 2; omega

theorem setNode_pair_false (h : HashFn) (l r : Node) (bs : List Bool) (e : Bool) (v : Node) :
    setNode h (.pair l r) (false :: bs) e v = (fun l' => Node.pair l' r) <$> setNode h l bs e v := by
  simp [setNode]

theorem setNode_pair_true (h : HashFn) (l r : Node) (bs : List Bool) (e : Bool) (v : Node) :
    setNode h (.pair l r) (true :: bs) e v = (fun r' => Node.pair l r') <$> setNode h r bs e v := by
  simp [setNode]

theorem setNode_nil (h : HashFn) (n : Node) (e : Bool) (v : Node) : setNode h n [] e v = .ok v := by
  cases n <;> rfl

/-- expansion of the zero summary of the right height, going left -/
theorem setNode_zero_false (h : HashFn) (bs : List Bool) (v : Node) :
    setNode h (.leaf (zh h (bs.length + 1))) (false :: bs) true v =
      (fun l' => Node.pair l' (zeroNode h bs.length)) <$> setNode h (zeroNode h bs.length) bs true v := by
  simp [setNode]

theorem set_path (h : HashFn) (x : Node) (e : Bool) (d : Nat) :
    ∀ (n : Node) (xs : List Node) (i : Nat), i < xs.length → SeqShape h d n xs →
    ∃ n', setNode h n (bitsOf i d) e x = .ok n' ∧ SeqShape h d n' (xs.set i x) := by
  induction d with
  | zero =>
    intro n xs i hi hs
    rw [seqShape_zero] at hs
    rcases hs with ⟨rfl, _⟩ | rfl
    · simp at hi
    · have : i = 0 := by simpa using hi
      subst this
      exact ⟨x, by rw [bitsOf_zero, setNode_nil], by simp [seqShape_zero_single]⟩
  | succ d ih =>
    intro n xs i hi hs
    have hlen := length_le h (d + 1) n xs hs
    cases n with
    | leaf c =>
      rw [seqShape_succ_leaf] at hs
      rw [hs.1] at hi; simp at hi
    | pair l r =>
      rw [seqShape_succ_pair] at hs
      rw [bitsOf_succ]
      by_cases hid : i < 2 ^ d
      · rw [testBit_top_false i d hid, setNode_pair_false]
        have hi' : i < (xs.take (2 ^ d)).length := by rw [List.length_take]; omega
        obtain ⟨l', hl1, hl2⟩ := ih l _ i hi' hs.1
        refine ⟨.pair l' r, by rw [hl1]; rfl, ?_⟩
        rw [seqShape_succ_pair, List.take_set, List.drop_set_of_lt hid]
        exact ⟨hl2, hs.2⟩
      · have h1 : 2 ^ d ≤ i := by omega
        have h2 : i < 2 ^ (d + 1) := by omega
        rw [testBit_top_true i d h1 h2, setNode_pair_true, ← bitsOf_sub_pow i d h1 h2]
        have hi' : i - 2 ^ d < (xs.drop (2 ^ d)).length := by rw [List.length_drop]; omega
        obtain ⟨r', hr1, hr2⟩ := ih r _ _ hi' hs.2
        refine ⟨.pair l r', by rw [hr1]; rfl, ?_⟩
        rw [seqShape_succ_pair, List.take_set, List.drop_set, if_neg (by omega)]
        refine ⟨?_, hr2⟩
        rw [List.set_eq_of_length_le (by rw [List.length_take]; omega)]
        exact hs.1

/-- append in path form: the first padding position is written, zero summaries on the way are
    materialised one level at a time -/
theorem append_path (h : HashFn) (x : Node) (d : Nat) :
    ∀ (n : Node) (xs : List Node), xs.length < 2 ^ d → SeqShape h d n xs →
    ∃ n', setNode h n (bitsOf xs.length d) true x = .ok n' ∧ SeqShape h d n' (xs ++ [x]) := by
  induction d with
  | zero =>
    intro n xs hlen hs
    have : xs = [] := List.eq_nil_of_length_eq_zero (by simpa using hlen)
    subst this
    exact ⟨x, by rw [bitsOf_zero, setNode_nil], by simp [seqShape_zero_single]⟩
  | succ d ih =>
    intro n xs hlen hs
    have hpos : 0 < 2 ^ d := Nat.two_pow_pos d
    rw [bitsOf_succ]
    cases n with
    | leaf c =>
      rw [seqShape_succ_leaf] at hs
      obtain ⟨rfl, rfl⟩ := hs
      obtain ⟨l', hl1, hl2⟩ := ih (zeroNode h d) [] (by simpa using hpos)
        ((seqShape_nil h d _).2 (ZeroTree.leaf d))
      simp only [List.length_nil, List.nil_append] at hl1 hl2 ⊢
      rw [testBit_top_false 0 d hpos]
      have hz := setNode_zero_false h (bitsOf 0 d) x
      rw [bitsOf_length] at hz
      rw [hz, hl1]
      refine ⟨_, rfl, ?_⟩
      rw [seqShape_succ_pair, List.take_of_length_le (by simp; omega),
        List.drop_of_length_le (by simp; omega), seqShape_nil]
      exact ⟨hl2, ZeroTree.leaf d⟩
    | pair l r =>
      rw [seqShape_succ_pair] at hs
      by_cases hid : xs.length < 2 ^ d
      · rw [testBit_top_false _ d hid, setNode_pair_false]
        have ht : xs.take (2 ^ d) = xs := List.take_of_length_le (by omega)
        have hdr : xs.drop (2 ^ d) = [] := List.drop_of_length_le (by omega)
        rw [ht] at hs
        obtain ⟨l', hl1, hl2⟩ := ih l xs hid hs.1
        refine ⟨.pair l' r, by rw [hl1]; rfl, ?_⟩
        rw [seqShape_succ_pair, List.take_of_length_le (by simp; omega),
          List.drop_of_length_le (by simp; omega)]
        rw [hdr] at hs
        exact ⟨hl2, hs.2⟩
      · have h1 : 2 ^ d ≤ xs.length := by omega
        rw [testBit_top_true _ d h1 hlen, setNode_pair_true, ← bitsOf_sub_pow _ d h1 hlen]
        have hl' : (xs.drop (2 ^ d)).length = xs.length - 2 ^ d := List.length_drop
        have hlt : (xs.drop (2 ^ d)).length < 2 ^ d := by
          rw [hl']; rw [Nat.pow_succ] at hlen; omega
        obtain ⟨r', hr1, hr2⟩ := ih r _ hlt hs.2
        rw [hl'] at hr1
        refine ⟨.pair l r', by rw [hr1]; rfl, ?_⟩
        rw [seqShape_succ_pair, List.take_append_of_le_length h1, List.drop_append_of_le_length h1]
        exact ⟨hs.1, hr2⟩

/-! ### beyond the contents -/

theorem zero_get_path (h : HashFn) (d : Nat) : ∀ (n : Node) (p : List Bool), p.length = d →
    ZeroTree h d n →
    getNode n p = .error .nav ∨ ∃ z, getNode n p = .ok z ∧ ZeroTree h 0 z := by
  induction d with
  | zero =>
    intro n p hp hz
    have : p = [] := List.eq_nil_of_length_eq_zero hp
    subst this
    exact Or.inr ⟨n, getNode_nil n, hz⟩
  | succ d ih =>
    intro n p hp hz
    match p, hp with
    | b :: p, hp =>
      cases n with
      | leaf c => exact Or.inl rfl
      | pair l r =>
        rw [zeroTree_pair_iff] at hz
        have hp' : p.length = d := by simpa using hp
        cases b
        · rw [getNode_pair_false]; exact ih l p hp' hz.1
        · rw [getNode_pair_true]; exact ih r p hp' hz.2

theorem get_beyond_path (h : HashFn) (d : Nat) : ∀ (n : Node) (xs : List Node) (i : Nat),
    xs.length ≤ i → i < 2 ^ d → SeqShape h d n xs →
    getNode n (bitsOf i d) = .error .nav ∨ ∃ z, getNode n (bitsOf i d) = .ok z ∧ ZeroTree h 0 z := by
  induction d with
  | zero =>
    intro n xs i hle hi hs
    have : xs = [] := List.eq_nil_of_length_eq_zero (by simp at hi; omega)
    subst this
    rw [seqShape_nil] at hs
    exact Or.inr ⟨n, by simp, hs⟩
  | succ d ih =>
    intro n xs i hle hi hs
    cases n with
    | leaf c => exact Or.inl (by rw [bitsOf_succ]; rfl)
    | pair l r =>
      rw [seqShape_succ_pair] at hs
      rw [bitsOf_succ]
      by_cases hid : i < 2 ^ d
      · rw [testBit_top_false i d hid, getNode_pair_false]
        exact ih l _ i (by rw [List.length_take]; omega) hid hs.1
      · have h1 : 2 ^ d ≤ i := by omega
        rw [testBit_top_true i d h1 hi, getNode_pair_true, ← bitsOf_sub_pow i d h1 hi]
        rw [Nat.pow_succ] at hi
        exact ih r _ _ (by rw [List.length_drop]; omega) (by omega) hs.2

/-! ### dropping a trailing zero chunk -/

theorem dropLast_zero (h : HashFn) (d : Nat) : ∀ (n : Node) (xs : List Node),
    SeqShape h d n (xs ++ [.leaf z0]) → SeqShape h d n xs := by
  induction d with
  | zero =>
    intro n xs hs
    rw [seqShape_zero] at hs
    rcases hs with ⟨he, _⟩ | he
    · simp at he
    · match xs, he with
      | [], he =>
        simp at he; subst he
        exact (seqShape_nil h 0 _).2 (ZeroTree.leaf 0)
      | y :: ys, he => simp at he
  | succ d ih =>
    intro n xs hs
    cases n with
    | leaf c =>
      rw [seqShape_succ_leaf] at hs
      simp at hs
    | pair l r =>
      rw [seqShape_succ_pair] at hs ⊢
      by_cases hid : xs.length < 2 ^ d
      · rw [List.take_of_length_le (by simp; omega), List.drop_of_length_le (by simp; omega)] at hs
        rw [List.take_of_length_le (by omega), List.drop_of_length_le (by omega)]
        exact ⟨ih l xs hs.1, hs.2⟩
      · have h1 : 2 ^ d ≤ xs.length := by omega
        rw [List.take_append_of_le_length h1, List.drop_append_of_le_length h1] at hs
        exact ⟨hs.1, ih r _ hs.2⟩

/-! ### `fillToContents` builds a shape -/

theorem fill_shape' (h : HashFn) (d : Nat) : ∀ (ns : List Node) (n : Node),
    fillToContents h d ns = .ok n → SeqShape h d n ns := by
  induction d with
  | zero =>
    intro ns n hf
    unfold fillToContents at hf
    split at hf
    · rename_i h0
      have : ns = [] := List.eq_nil_of_length_eq_zero h0
      subst this; cases hf
      exact (seqShape_nil h 0 _).2 (ZeroTree.leaf 0)
    split at hf; · cases hf
    rename_i hne hle
    match ns, hf, hle with
    | [a], hf, _ =>
      simp at hf; subst hf; exact (seqShape_zero_single h _ _).2 rfl
    | a :: b :: rest, _, hle => simp at hle
  | succ d ih =>
    intro ns n hf
    unfold fillToContents at hf
    split at hf
    · rename_i h0
      have : ns = [] := List.eq_nil_of_length_eq_zero h0
      subst this; cases hf
      exact (seqShape_nil h (d + 1) _).2 (ZeroTree.leaf (d + 1))
    split at hf; · cases hf
    rename_i hne hle
    simp only at hf
    split at hf
    · rename_i hd; subst hd
      match ns, hf with
      | [a], hf =>
        simp at hf; subst hf
        rw [seqShape_succ_pair]
        exact ⟨(seqShape_zero_single h _ _).2 rfl, (seqShape_nil h 0 _).2 (ZeroTree.leaf 0)⟩
      | a :: b :: rest, hf =>
        simp at hf; subst hf
        simp at hle
        have : rest = [] := by
          cases rest with
          | nil => rfl
          | cons _ _ => simp at hle
        subst this
        rw [seqShape_succ_pair]
        exact ⟨(seqShape_zero_single h _ _).2 rfl, (seqShape_zero_single h _ _).2 rfl⟩
    · split at hf
      · rename_i hp
        cases hl : fillToContents h d ns with
        | error e => simp [hl, bind, Except.bind] at hf
        | ok l =>
          simp [hl, bind, Except.bind] at hf; subst hf
          rw [seqShape_succ_pair, List.take_of_length_le hp, List.drop_of_length_le hp, seqShape_nil]
          exact ⟨ih ns l hl, ZeroTree.leaf d⟩
      · rename_i hp
        cases hl : fillToContents h d (ns.take (2 ^ d)) with
        | error e => simp [hl, bind, Except.bind] at hf
        | ok l =>
          cases hr : fillToContents h d (ns.drop (2 ^ d)) with
          | error e => simp [hl, hr, bind, Except.bind] at hf
          | ok r =>
            simp [hl, hr, bind, Except.bind] at hf; subst hf
            rw [seqShape_succ_pair]
            exact ⟨ih _ l hl, ih _ r hr⟩

/-! ### the length mix-in chunk -/

theorem chunkOf_take_of_length {bs : Bytes} {k : Nat} (hk : bs.length = k) (h32 : k ≤ 32) :
    (chunkOf bs).take k = bs := by
  unfold chunkOf
  rw [List.take_take, Nat.min_eq_left h32, List.take_append_of_le_length (by omega),
    List.take_of_length_le (by omega)]

theorem leNat_lengthChunk (len : Nat) (h64 : len < 2 ^ 64) :
    leNat ((chunkOf (leBytes 8 len)).take 8) = len := by
  rw [chunkOf_take_of_length (leBytes_length 8 len) (by omega), leNat_leBytes]
  exact Nat.mod_eq_of_lt (by omega)

/-- overwriting the last position = dropping it and appending -/
theorem set_last_eq {α : Type} (xs : List α) (hne : xs ≠ []) (z : α) :
    xs.set (xs.length - 1) z = xs.dropLast ++ [z] := by
  obtain ⟨ys, y, rfl⟩ : ∃ ys y, xs = ys ++ [y] :=
    ⟨xs.dropLast, xs.getLast hne, (List.dropLast_concat_getLast hne).symm⟩
  rw [List.dropLast_concat, List.length_append, List.length_singleton, Nat.add_sub_cancel,
    List.set_append, if_neg (Nat.lt_irrefl _), Nat.sub_self]
  rfl

end ShapeAux
end ZtypV
