/-
C04 — the propagation lemma: `SetBacking` with hook propagation on the object machine
(`View.setBacking`) against the recursive write-back of the value machine (`Sim.writeBack`),
along the whole hook chain.  At every level the parent-side write `hookSet` agrees with
`valSet` (`hookSet_rep`); a slot that no longer exists fails on both sides at the same level,
leaves the same ancestors untouched and the objects below keep their new backing / value —
`Sim` still holds because every object is related to its own value individually.
Acyclicity (and sufficiency of the fuel) comes from "parent id < child id".
-/
import ZtypV.Proofs.RepSimBase
namespace ZtypV
open ZtypV.View ZtypV.Sim

/-- agreement of the two propagation results: both succeed, or both fail with a non-panic error -/
def PropOut (e : Option Err) (ok : Bool) : Prop :=
  (e = none ∧ ok = true) ∨ (∃ e', e = some e' ∧ e' ≠ .panic ∧ ok = false)

theorem setBacking_succ (h : HashFn) (fuel : Nat) (ms : Store) (id : Nat) (b : Node) (o : VObj)
    (hm : ms[id]? = some o) :
    setBacking h (fuel + 1) ms id b =
      match o.hook with
      | Option.none => (ms.set! id { o with node := b }, Option.none)
      | some (p, slot) =>
        match (ms.set! id { o with node := b })[p]? with
        | Option.none => (ms.set! id { o with node := b }, some .panic)
        | some po =>
          match hookSet h po.ty po.node slot b with
          | .error e => (ms.set! id { o with node := b }, some e)
          | .ok pn => setBacking h fuel (ms.set! id { o with node := b }) p pn := by
  rw [setBacking]
  simp only [hm]
  rfl

theorem writeBack_succ (fuel : Nat) (vs : VStore) (id : Nat) (vo : VObjV) (hv : vs[id]? = some vo) :
    writeBack (fuel + 1) vs id =
      match vo.parent with
      | Option.none => (vs, true)
      | some (p, slot) =>
        match vs[p]? with
        | Option.none => (vs, false)
        | some po =>
          match valSet po.ty po.val slot vo.val with
          | Option.none => (vs, false)
          | some nv => writeBack fuel (vs.set! p { po with val := nv }) p := by
  rw [writeBack]
  simp only [hv]
  rfl

/-- **propagation**: rebinding object `id` to a backing `b` representing the new value `nv`
    and propagating through the hooks, against storing `nv` and writing it back -/
theorem propagate (h : HashFn) : ∀ (fuel : Nat) (ms : Store) (vs : VStore) (id : Nat) (o : VObj)
    (vo : VObjV) (b : Node) (nv : Val),
    Sim h ms vs → ms[id]? = some o → vs[id]? = some vo → id < fuel →
    Rep h o.ty nv b → hasType o.ty nv = true →
    Sim h (setBacking h fuel ms id b).1 (writeBack fuel (vs.set! id { vo with val := nv }) id).1 ∧
    PropOut (setBacking h fuel ms id b).2 (writeBack fuel (vs.set! id { vo with val := nv }) id).2 := by
  intro fuel
  induction fuel with
  | zero => intro ms vs id o vo b nv _ _ _ hlt; omega
  | succ fuel ih =>
    intro ms vs id o vo b nv hs hm hv hlt hr ht
    obtain ⟨vo', hvo', hrel, hk⟩ := hs.lookup hm
    rw [hv] at hvo'; cases hvo'
    have hs1 := hs.set hm hv hr ht
    have hidv : id < vs.size := lookup_lt hv
    have hv1 : (vs.set! id { vo with val := nv })[id]? = some { vo with val := nv } := by
      rw [Array.set!_eq_setIfInBounds, Array.getElem?_setIfInBounds_self, if_pos hidv]
    have hm1g : ∀ p, id ≠ p → (ms.set! id { o with node := b })[p]? = ms[p]? := by
      intro p hne
      rw [Array.set!_eq_setIfInBounds, Array.getElem?_setIfInBounds_ne hne]
    have hv1g : ∀ p, id ≠ p → (vs.set! id { vo with val := nv })[p]? = vs[p]? := by
      intro p hne
      rw [Array.set!_eq_setIfInBounds, Array.getElem?_setIfInBounds_ne hne]
    rw [setBacking_succ h fuel ms id b o hm, writeBack_succ fuel _ id _ hv1]
    dsimp only
    generalize ms.set! id { o with node := b } = ms1 at hs1 hm1g ⊢
    generalize vs.set! id { vo with val := nv } = vs1 at hs1 hv1g ⊢
    rw [hrel.hook_eq]
    cases hh : o.hook with
    | none => exact ⟨hs1, Or.inl ⟨rfl, rfl⟩⟩
    | some ps =>
      obtain ⟨p, slot⟩ := ps
      obtain ⟨hplt, po, hpo, hpp, hslot⟩ := hk p slot hh
      have hne : id ≠ p := by omega
      have hm1 : ms1[p]? = some po := by rw [hm1g p hne]; exact hpo
      obtain ⟨vpo, hvpo, hprel, _⟩ := hs.lookup hpo
      have hvp1 : vs1[p]? = some vpo := by rw [hv1g p hne]; exact hvpo
      simp only [hm1, hvp1]
      have hspec := hookSet_rep h po.ty vpo.val po.node slot nv b hprel.good.wf hprel.good.depthOk
        hprel.typed hprel.rep (hookParent_packedSlot hpp) (by rw [hslot]; exact ht)
        (by rw [hslot]; exact hr)
      cases hvs : valSet vpo.ty vpo.val slot nv with
      | none =>
        rw [hprel.ty_eq] at hvs
        rw [hvs] at hspec
        obtain ⟨e, he, hne'⟩ := hspec
        simp only [he]
        exact ⟨hs1, Or.inr ⟨e, rfl, hne', rfl⟩⟩
      | some nv' =>
        rw [hprel.ty_eq] at hvs
        rw [hvs] at hspec
        obtain ⟨pn, hpn, hrp, htp⟩ := hspec
        simp only [hpn]
        exact ih _ _ p po vpo pn nv' hs1 hm1 hvp1 (by omega) hrp htp

end ZtypV
