/-
C12, typed mutation layer: the typed mutators (`Set`, `Append`, `Pop`, `Change`, the hook
write-back `hookSet`) and the typed getter `getElemNode` run on a partial (summarised) backing.

Backward simulation `BackR S r r'`: if the operation succeeds on the partial tree with `a'`,
then it succeeds on the full tree with some `a` and `S a a'` (the new partial backing is a
summary of the new full backing).  This direction needs to know that the positions the
operation reads AS LEAVES (length node, packed chunks) are leaves of the full tree —
`ReadLeaves t n`, which every `Rep` backing satisfies (`rep_readLeaves`) — and, where the Go
setter is called with `expand = true` (`Append`, `Pop`), the faithfulness hypothesis
`ZeroFaithful h (viewDepth t) n` of Proofs/Summ.lean.
-/
import ZtypV.Proofs.Summ
import ZtypV.Proofs.RepMut
namespace ZtypV.Partial
open ZtypV ZtypV.View ZtypV.TreeNav

/-- backward simulation of the partial-tree computation `r'` by the full-tree computation `r` -/
def BackR {α β : Type} (S : α → β → Prop) (r : R α) (r' : R β) : Prop :=
  ∀ a', r' = .ok a' → ∃ a, r = .ok a ∧ S a a'

namespace BackR

theorem bind {α α' β β' : Type} {S : α → α' → Prop} {T : β → β' → Prop} {r : R α} {r' : R α'}
    {f : α → R β} {f' : α' → R β'} (h1 : BackR S r r')
    (h2 : ∀ a a', r = .ok a → S a a' → BackR T (f a) (f' a')) : BackR T (r >>= f) (r' >>= f') := by
  intro b' hb'
  obtain ⟨a', ha', hfa'⟩ := R.bind_eq_ok.mp hb'
  obtain ⟨a, ha, hs⟩ := h1 a' ha'
  obtain ⟨b, hb, ht⟩ := h2 a a' ha hs b' hfa'
  exact ⟨b, by rw [ha]; exact hb, ht⟩

theorem bindEq {α β β' : Type} {T : β → β' → Prop} {r r' : R α}
    {f : α → R β} {f' : α → R β'} (h1 : BackR Eq r r')
    (h2 : ∀ a, r = .ok a → BackR T (f a) (f' a)) : BackR T (r >>= f) (r' >>= f') :=
  bind h1 (fun a a' ha he => by subst he; exact h2 a ha)

theorem rfl' {α : Type} (r : R α) : BackR Eq r r := fun a ha => ⟨a, ha, rfl⟩

/-- identical computations whose results are related by a reflexive relation -/
theorem rfl'' {h : HashFn} (r : R Node) : BackR (Summ h) r r := fun a ha => ⟨a, ha, Summ.refl a⟩

theorem ok {α β : Type} {S : α → β → Prop} {a : α} {b : β} (hs : S a b) :
    BackR S (.ok a : R α) (.ok b : R β) := by
  intro x hx; cases hx; exact ⟨a, rfl, hs⟩

theorem error {α β : Type} {S : α → β → Prop} (r : R α) (e : Err) :
    BackR S r (.error e : R β) := by
  intro x hx; cases hx

theorem ite {α β : Type} {S : α → β → Prop} {c : Prop} [Decidable c] {a b : R α} {a' b' : R β}
    (h1 : c → BackR S a a') (h2 : ¬ c → BackR S b b') :
    BackR S (if c then a else b) (if c then a' else b') := by
  by_cases hc : c
  · rw [if_pos hc, if_pos hc]; exact h1 hc
  · rw [if_neg hc, if_neg hc]; exact h2 hc

end BackR

/-! ### leaf positions of the full tree -/

def IsLeaf (x : Node) : Prop := ∃ r, x = .leaf r

/-- the right child of the view root (length mix-in / selector), if present, is a leaf -/
def LenLeaf (n : Node) : Prop := ∀ x, getNode n [true] = .ok x → IsLeaf x

/-- every node at depth `d` is a leaf -/
def BottomLeaves (n : Node) (d : Nat) : Prop :=
  ∀ (p : List Bool) (x : Node), p.length = d → getNode n p = .ok x → IsLeaf x

/-- the contents subtree of a list-like view inherits the leaf layer -/
theorem BottomLeaves.left {l r : Node} {d : Nat} (hb : BottomLeaves (.pair l r) (d + 1)) :
    BottomLeaves l d :=
  fun p x hp hg => hb (false :: p) x (by simp [hp]) (by simpa using hg)

/-- the positions the typed mutators / the typed getter of a view of type `t` read as leaves -/
def ReadLeaves (t : Ty) (n : Node) : Prop :=
  match t with
  | .list e _ => LenLeaf n ∧ (isBasicElem e = true → BottomLeaves n (viewDepth t))
  | .bitlist _ => LenLeaf n ∧ BottomLeaves n (viewDepth t)
  | .vector e _ => isBasicElem e = true → BottomLeaves n (viewDepth t)
  | .bitvector _ => BottomLeaves n (viewDepth t)
  | _ => True

/-! ### primitives, backward -/

theorem asLeaf_back {h : HashFn} {x x' : Node} (hs : Summ h x x') (hl : IsLeaf x) :
    BackR Eq (asLeaf x) (asLeaf x') := by
  obtain ⟨r, rfl⟩ := hl
  rw [hs.leaf_left]
  exact BackR.rfl' _

theorem getNode_back {h : HashFn} {n n' : Node} (hs : Summ h n n') (p : List Bool) :
    BackR (Summ h) (getNode n p) (getNode n' p) :=
  fun x' hx' => Summ.getNode_back p n n' x' hs hx'

theorem subtreeGet_back {h : HashFn} {n n' : Node} (hs : Summ h n n') (d i : Nat) :
    BackR (Summ h) (subtreeGet n d i) (subtreeGet n' d i) := by
  unfold subtreeGet
  exact BackR.bindEq (BackR.rfl' _) (fun p _ => getNode_back hs p)

/-- a packed chunk read on the partial tree: succeeds only with the full tree's chunk -/
theorem chunk_back {h : HashFn} {n n' : Node} (hs : Summ h n n') {d : Nat} (hb : BottomLeaves n d)
    (i : Nat) : BackR Eq (subtreeGet n d i >>= asLeaf) (subtreeGet n' d i >>= asLeaf) := by
  refine BackR.bind (subtreeGet_back hs d i) (fun c c' hc hcs => ?_)
  refine asLeaf_back hcs ?_
  unfold subtreeGet at hc
  obtain ⟨p, hp, hg⟩ := R.bind_eq_ok.mp hc
  exact hb p c (toPath_length hp) hg

theorem listLength_back {h : HashFn} {n n' : Node} (hs : Summ h n n') (hl : LenLeaf n) (lim : Nat) :
    BackR Eq (listLength n lim) (listLength n' lim) := by
  unfold listLength
  refine BackR.bind (getNode_back hs _) (fun x x' hx hxs => ?_)
  exact BackR.bindEq (asLeaf_back hxs (hl x hx)) (fun r _ => BackR.rfl' _)

theorem subtreeSet_back {h : HashFn} {n n' v v' : Node} (hs : Summ h n n') (hv : Summ h v v')
    (d i : Nat) : BackR (Summ h) (subtreeSet h n d i v) (subtreeSet h n' d i v') := by
  unfold subtreeSet
  exact BackR.bindEq (BackR.rfl' _) (fun p _ => fun m' hm' => Summ.setNode_back_false hs hv hm')

theorem setLength_back {h : HashFn} {n n' : Node} (hs : Summ h n n') (len : Nat) :
    BackR (Summ h) (setLength h n len) (setLength h n' len) := by
  unfold setLength
  exact fun m' hm' => Summ.setNode_back_false hs (Summ.refl _) hm'

theorem setNode_expand_back {h : HashFn} {n n' v v' : Node} {p : List Bool} {d : Nat}
    (hs : Summ h n n') (hv : Summ h v v') (hz : ZeroFaithful h d n) (hp : p.length = d) :
    BackR (Summ h) (setNode h n p true v) (setNode h n' p true v') := by
  subst hp
  exact fun m' hm' => Summ.setNode_back_expand hs hv hz hm'

/-! ### `Set` -/

/-- the packed write: read the chunk, rewrite the element inside it, bind the new chunk -/
theorem packedSet_back {h : HashFn} {n n' : Node} (hs : Summ h n n') {d : Nat}
    (hb : BottomLeaves n d) (j : Nat) (g : Root → Root) :
    BackR (Summ h)
      (subtreeGet n d j >>= fun c => asLeaf c >>= fun r => subtreeSet h n d j (.leaf (g r)))
      (subtreeGet n' d j >>= fun c => asLeaf c >>= fun r => subtreeSet h n' d j (.leaf (g r))) := by
  refine BackR.bind (subtreeGet_back hs d j) (fun c c' hc hcs => ?_)
  have hleaf : IsLeaf c := by
    unfold subtreeGet at hc
    obtain ⟨p, hp, hg⟩ := R.bind_eq_ok.mp hc
    exact hb p c (toPath_length hp) hg
  refine BackR.bindEq (asLeaf_back hcs hleaf) (fun r _ => ?_)
  exact subtreeSet_back hs (Summ.refl _) d j

theorem set_back {h : HashFn} (t : Ty) {n n' en en' : Node} (i : Nat) (v : Val)
    (hs : Summ h n n') (he : Summ h en en') (hl : ReadLeaves t n) :
    BackR (Summ h) (Mut.set h t n i v en) (Mut.set h t n' i v en') := by
  cases t with
  | uint _ => exact BackR.error _ _
  | bool => exact BackR.error _ _
  | bytesN _ => exact BackR.error _ _
  | union _ _ => exact BackR.error _ _
  | vector e k =>
    simp only [Mut.set]
    refine BackR.ite (fun _ => BackR.error _ _) (fun _ => ?_)
    refine BackR.ite (fun hb => ?_) (fun _ => subtreeSet_back hs he _ _)
    exact packedSet_back hs (hl hb) _ _
  | list e lim =>
    simp only [Mut.set]
    refine BackR.bindEq (listLength_back hs hl.1 lim) (fun ll _ => ?_)
    refine BackR.ite (fun _ => BackR.error _ _) (fun _ => ?_)
    refine BackR.ite (fun _ => BackR.error _ _) (fun _ => ?_)
    refine BackR.ite (fun hb => ?_) (fun _ => subtreeSet_back hs he _ _)
    exact packedSet_back hs (hl.2 hb) _ _
  | container fs =>
    simp only [Mut.set]
    exact BackR.ite (fun _ => BackR.error _ _) (fun _ => subtreeSet_back hs he _ _)
  | bitvector k =>
    simp only [Mut.set]
    refine BackR.ite (fun _ => BackR.error _ _) (fun _ => ?_)
    exact packedSet_back hs hl _ _
  | bitlist lim =>
    simp only [Mut.set]
    refine BackR.bindEq (listLength_back hs hl.1 lim) (fun ll _ => ?_)
    refine BackR.ite (fun _ => BackR.error _ _) (fun _ => ?_)
    refine BackR.ite (fun _ => BackR.error _ _) (fun _ => ?_)
    exact packedSet_back hs hl.2 _ _

/-! ### the hook write-back -/

theorem hookSet_back {h : HashFn} (t : Ty) {n n' b b' : Node} (i : Nat)
    (hs : Summ h n n') (hb : Summ h b b') (hl : ReadLeaves t n) :
    BackR (Summ h) (hookSet h t n i b) (hookSet h t n' i b') := by
  cases t with
  | uint _ => exact BackR.error _ _
  | bool => exact BackR.error _ _
  | bytesN _ => exact BackR.error _ _
  | union _ _ => exact BackR.error _ _
  | bitvector _ => exact BackR.error _ _
  | bitlist _ => exact BackR.error _ _
  | vector e k =>
    simp only [hookSet]
    exact BackR.ite (fun _ => BackR.error _ _) (fun _ => subtreeSet_back hs hb _ _)
  | list e lim =>
    simp only [hookSet]
    refine BackR.bindEq (listLength_back hs hl.1 lim) (fun ll _ => ?_)
    refine BackR.ite (fun _ => BackR.error _ _) (fun _ => ?_)
    exact BackR.ite (fun _ => BackR.error _ _) (fun _ => subtreeSet_back hs hb _ _)
  | container fs =>
    simp only [hookSet]
    exact BackR.ite (fun _ => BackR.error _ _) (fun _ => subtreeSet_back hs hb _ _)

/-! ### `Append` / `Pop` (setter with expansion) -/

/-- a packed chunk read followed by a tree-independent continuation -/
theorem chunkK_back {h : HashFn} {n n' : Node} (hs : Summ h n n') {d : Nat}
    (hb : BottomLeaves n d) (j : Nat) {β : Type} (k : Root → R β) :
    BackR Eq (subtreeGet n d j >>= fun c => asLeaf c >>= k)
      (subtreeGet n' d j >>= fun c => asLeaf c >>= k) := by
  refine BackR.bind (subtreeGet_back hs d j) (fun c c' hc hcs => ?_)
  have hleaf : IsLeaf c := by
    unfold subtreeGet at hc
    obtain ⟨p, hp, hg⟩ := R.bind_eq_ok.mp hc
    exact hb p c (toPath_length hp) hg
  exact BackR.bindEq (asLeaf_back hcs hleaf) (fun r _ => BackR.rfl' _)

/-- the common end of `Append` / `Pop`: bind the new bottom node with expansion, set the length -/
theorem finish_back {h : HashFn} {n n' v v' : Node} (hs : Summ h n n') (hv : Summ h v v') {d : Nat}
    (hz : ZeroFaithful h d n) {p : List Bool} (hpl : p.length = d) (len : Nat) :
    BackR (Summ h) (setNode h n p true v >>= fun b => setLength h b len)
      (setNode h n' p true v' >>= fun b => setLength h b len) :=
  BackR.bind (setNode_expand_back hs hv hz hpl) (fun _ _ _ hbs => setLength_back hbs len)

/-- the packed `Append`: trial setter with expansion, compute the new bottom chunk (reading the
    old one unless a fresh chunk starts), bind it with expansion, set the length -/
theorem packedAppend_back {h : HashFn} {n n' : Node} (hs : Summ h n n') {d : Nat}
    (hb : BottomLeaves n d) (hz : ZeroFaithful h d n) (j len : Nat) (c : Prop) [Decidable c]
    (fresh : Root) (g : Root → Root) :
    BackR (Summ h)
      (toPath j d >>= fun p => setNode h n p true (.leaf z0) >>= fun _ =>
        if c then (pure fresh : R Root) >>= fun bt =>
            setNode h n p true (.leaf bt) >>= fun b => setLength h b len
        else (subtreeGet n d j >>= fun x => asLeaf x >>= fun r => (pure (g r) : R Root)) >>= fun bt =>
            setNode h n p true (.leaf bt) >>= fun b => setLength h b len)
      (toPath j d >>= fun p => setNode h n' p true (.leaf z0) >>= fun _ =>
        if c then (pure fresh : R Root) >>= fun bt =>
            setNode h n' p true (.leaf bt) >>= fun b => setLength h b len
        else (subtreeGet n' d j >>= fun x => asLeaf x >>= fun r => (pure (g r) : R Root)) >>= fun bt =>
            setNode h n' p true (.leaf bt) >>= fun b => setLength h b len) := by
  refine BackR.bindEq (BackR.rfl' _) (fun p hp => ?_)
  have hpl := toPath_length hp
  refine BackR.bind (setNode_expand_back hs (Summ.refl _) hz hpl) (fun _ _ _ _ => ?_)
  refine BackR.ite (fun _ => ?_) (fun _ => ?_)
  · exact BackR.bindEq (BackR.rfl' _) (fun bt _ => finish_back hs (Summ.refl _) hz hpl len)
  · exact BackR.bindEq (chunkK_back hs hb j _) (fun bt _ => finish_back hs (Summ.refl _) hz hpl len)

theorem append_back {h : HashFn} (t : Ty) {n n' en en' : Node} (v : Val)
    (hs : Summ h n n') (he : Summ h en en') (hl : ReadLeaves t n)
    (hz : ZeroFaithful h (viewDepth t) n) :
    BackR (Summ h) (Mut.append h t n v en) (Mut.append h t n' v en') := by
  cases t with
  | uint _ => exact BackR.error _ _
  | bool => exact BackR.error _ _
  | bytesN _ => exact BackR.error _ _
  | union _ _ => exact BackR.error _ _
  | bitvector _ => exact BackR.error _ _
  | vector _ _ => exact BackR.error _ _
  | container _ => exact BackR.error _ _
  | list e lim =>
    simp only [Mut.append]
    refine BackR.bindEq (listLength_back hs hl.1 lim) (fun ll _ => ?_)
    refine BackR.ite (fun _ => BackR.error _ _) (fun _ => ?_)
    refine BackR.ite (fun hb => ?_) (fun _ => ?_)
    · exact packedAppend_back hs (hl.2 hb) hz _ _ _ _ _
    · refine BackR.bindEq (BackR.rfl' _) (fun p hp => ?_)
      exact finish_back hs he hz (toPath_length hp) _
  | bitlist lim =>
    simp only [Mut.append]
    refine BackR.bindEq (listLength_back hs hl.1 lim) (fun ll _ => ?_)
    refine BackR.ite (fun _ => BackR.error _ _) (fun _ => ?_)
    exact packedAppend_back hs hl.2 hz _ _ _ _ _

/-- the packed `Pop`: trial setter, read the chunk, clear the element, bind, set the length -/
theorem packedPop_back {h : HashFn} {n n' : Node} (hs : Summ h n n') {d : Nat}
    (hb : BottomLeaves n d) (hz : ZeroFaithful h d n) (j len : Nat) (g : Root → Root) :
    BackR (Summ h)
      (toPath j d >>= fun p => setNode h n p true (.leaf z0) >>= fun _ =>
        subtreeGet n d j >>= fun c => asLeaf c >>= fun r =>
          setNode h n p true (.leaf (g r)) >>= fun b => setLength h b len)
      (toPath j d >>= fun p => setNode h n' p true (.leaf z0) >>= fun _ =>
        subtreeGet n' d j >>= fun c => asLeaf c >>= fun r =>
          setNode h n' p true (.leaf (g r)) >>= fun b => setLength h b len) := by
  refine BackR.bindEq (BackR.rfl' _) (fun p hp => ?_)
  have hpl := toPath_length hp
  refine BackR.bind (setNode_expand_back hs (Summ.refl _) hz hpl) (fun _ _ _ _ => ?_)
  refine BackR.bind (subtreeGet_back hs d j) (fun c c' hc hcs => ?_)
  have hleaf : IsLeaf c := by
    unfold subtreeGet at hc
    obtain ⟨q, hq, hg⟩ := R.bind_eq_ok.mp hc
    exact hb q c (toPath_length hq) hg
  refine BackR.bindEq (asLeaf_back hcs hleaf) (fun r _ => ?_)
  refine BackR.bind (setNode_expand_back hs (Summ.refl _) hz hpl) (fun b b' _ hbs => ?_)
  exact setLength_back hbs len

theorem pop_back {h : HashFn} (t : Ty) {n n' : Node}
    (hs : Summ h n n') (hl : ReadLeaves t n) (hz : ZeroFaithful h (viewDepth t) n) :
    BackR (Summ h) (Mut.pop h t n) (Mut.pop h t n') := by
  cases t with
  | uint _ => exact BackR.error _ _
  | bool => exact BackR.error _ _
  | bytesN _ => exact BackR.error _ _
  | union _ _ => exact BackR.error _ _
  | bitvector _ => exact BackR.error _ _
  | vector _ _ => exact BackR.error _ _
  | container _ => exact BackR.error _ _
  | list e lim =>
    simp only [Mut.pop]
    refine BackR.bindEq (listLength_back hs hl.1 lim) (fun ll _ => ?_)
    refine BackR.ite (fun _ => BackR.error _ _) (fun _ => ?_)
    refine BackR.ite (fun hb => ?_) (fun _ => ?_)
    · exact packedPop_back hs (hl.2 hb) hz _ _ _
    · refine BackR.bindEq (BackR.rfl' _) (fun p hp => ?_)
      refine BackR.bind (setNode_expand_back hs (Summ.refl _) hz (toPath_length hp))
        (fun b b' _ hbs => ?_)
      exact setLength_back hbs _
  | bitlist lim =>
    simp only [Mut.pop]
    refine BackR.bindEq (listLength_back hs hl.1 lim) (fun ll _ => ?_)
    refine BackR.ite (fun _ => BackR.error _ _) (fun _ => ?_)
    exact packedPop_back hs hl.2 hz _ _ _

/-! ### `Change` -/

/-- the new content of a union, possibly itself partial (`none`: a nil value) -/
inductive OptSumm (h : HashFn) : Option Node → Option Node → Prop where
  | none : OptSumm h Option.none Option.none
  | some {c c' : Node} : Summ h c c' → OptSumm h (Option.some c) (Option.some c')

/-- `Change` does not read the old backing at all -/
theorem change_back {h : HashFn} (t : Ty) (sel : Nat) {content content' : Option Node}
    (hc : OptSumm h content content') :
    BackR (Summ h) (Mut.change t sel content) (Mut.change t sel content') := by
  cases t with
  | union hn opts =>
    simp only [Mut.change]
    refine BackR.ite (fun _ => BackR.error _ _) (fun _ => ?_)
    cases hc with
    | none => exact BackR.rfl'' _
    | some hcc => exact BackR.ok (Summ.pair hcc (Summ.refl _))
  | _ => exact BackR.error _ _

/-! ### the typed getter -/

/-- results of `getElemNode`: same element type, element backing summarised -/
def ElemSumm (h : HashFn) (a a' : Ty × Node) : Prop := a.1 = a'.1 ∧ Summ h a.2 a'.2

theorem packedGet_back {h : HashFn} {n n' : Node} (hs : Summ h n n') {d : Nat}
    (hb : BottomLeaves n d) (j : Nat) (k : Root → R (Ty × Node)) :
    BackR (ElemSumm h)
      (subtreeGet n d j >>= fun c => asLeaf c >>= k) (subtreeGet n' d j >>= fun c => asLeaf c >>= k) := by
  refine BackR.bind (subtreeGet_back hs d j) (fun c c' hc hcs => ?_)
  have hleaf : IsLeaf c := by
    unfold subtreeGet at hc
    obtain ⟨p, hp, hg⟩ := R.bind_eq_ok.mp hc
    exact hb p c (toPath_length hp) hg
  refine BackR.bindEq (asLeaf_back hcs hleaf) (fun r _ => ?_)
  exact fun a' ha' => ⟨a', ha', rfl, Summ.refl _⟩

theorem nodeGet_back {h : HashFn} {n n' : Node} (hs : Summ h n n') (d j : Nat) (et : Ty) :
    BackR (ElemSumm h)
      (subtreeGet n d j >>= fun c => (Except.ok (et, c) : R (Ty × Node)))
      (subtreeGet n' d j >>= fun c => (Except.ok (et, c) : R (Ty × Node))) :=
  BackR.bind (subtreeGet_back hs d j) (fun _ _ _ hcs => BackR.ok ⟨rfl, hcs⟩)

theorem getElem_back {h : HashFn} (t : Ty) {n n' : Node} (i : Nat)
    (hs : Summ h n n') (hl : ReadLeaves t n) :
    BackR (ElemSumm h) (getElemNode t n i) (getElemNode t n' i) := by
  cases t with
  | uint _ => exact BackR.error _ _
  | bool => exact BackR.error _ _
  | bytesN _ => exact BackR.error _ _
  | union _ _ => exact BackR.error _ _
  | vector e k =>
    simp only [getElemNode]
    refine BackR.ite (fun _ => BackR.error _ _) (fun _ => ?_)
    refine BackR.ite (fun hb => ?_) (fun _ => nodeGet_back hs _ _ _)
    exact packedGet_back hs (hl hb) _ _
  | list e lim =>
    simp only [getElemNode]
    refine BackR.bindEq (listLength_back hs hl.1 lim) (fun ll _ => ?_)
    refine BackR.ite (fun _ => BackR.error _ _) (fun _ => ?_)
    refine BackR.ite (fun _ => BackR.error _ _) (fun _ => ?_)
    refine BackR.ite (fun hb => ?_) (fun _ => nodeGet_back hs _ _ _)
    exact packedGet_back hs (hl.2 hb) _ _
  | container fs =>
    simp only [getElemNode]
    cases fs[i]? with
    | none => exact BackR.error _ _
    | some ft => exact nodeGet_back hs _ _ _
  | bitvector k =>
    simp only [getElemNode]
    refine BackR.ite (fun _ => BackR.error _ _) (fun _ => ?_)
    exact packedGet_back hs hl _ _
  | bitlist lim =>
    simp only [getElemNode]
    refine BackR.bindEq (listLength_back hs hl.1 lim) (fun ll _ => ?_)
    refine BackR.ite (fun _ => BackR.error _ _) (fun _ => ?_)
    refine BackR.ite (fun _ => BackR.error _ _) (fun _ => ?_)
    exact packedGet_back hs hl.2 _ _

/-! ### every `Rep` backing has its read-as-leaf positions at leaves -/

theorem seqShape_bottomLeaves (h : HashFn) : ∀ (d : Nat) (n : Node) (xs : List Node),
    SeqShape h d n xs → (∀ x ∈ xs, IsLeaf x) → BottomLeaves n d := by
  intro d
  induction d with
  | zero =>
    intro n xs hs hx p x hp hg
    have : p = [] := List.eq_nil_of_length_eq_zero hp
    subst this
    simp at hg; subst hg
    rcases (ShapeAux.seqShape_zero h n xs).mp hs with ⟨_, hn⟩ | hn
    · exact ⟨z0, hn⟩
    · exact hx n (by rw [hn]; simp)
  | succ d ih =>
    intro n xs hs hx p x hp hg
    cases p with
    | nil => simp at hp
    | cons b bs =>
      have hbs : bs.length = d := by simpa using hp
      cases n with
      | leaf c => simp at hg
      | pair l r =>
        obtain ⟨hl, hr⟩ := (ShapeAux.seqShape_succ_pair h d l r xs).mp hs
        cases b
        · simp at hg
          exact ih l _ hl (fun y hy => hx y (List.mem_of_mem_take hy)) bs x hbs hg
        · simp at hg
          exact ih r _ hr (fun y hy => hx y (List.mem_of_mem_drop hy)) bs x hbs hg

theorem listShape_lenLeaf (h : HashFn) {d : Nat} {n : Node} {xs : List Node} {len : Nat}
    (hs : ListShape h d n xs len) : LenLeaf n := by
  obtain ⟨c, rfl, _⟩ := hs
  intro x hx
  simp at hx; subst hx
  exact ⟨_, rfl⟩

theorem listShape_bottomLeaves (h : HashFn) {d : Nat} {n : Node} {xs : List Node} {len : Nat}
    (hs : ListShape h d n xs len) (hx : ∀ x ∈ xs, IsLeaf x) : BottomLeaves n (d + 1) := by
  obtain ⟨c, rfl, hc⟩ := hs
  intro p x hp hg
  cases p with
  | nil => simp at hp
  | cons b bs =>
    have hbs : bs.length = d := by simpa using hp
    cases b
    · simp at hg
      exact seqShape_bottomLeaves h d c xs hc hx bs x hbs hg
    · simp at hg
      cases bs with
      | nil => simp at hg; subst hg; exact ⟨_, rfl⟩
      | cons b' bs' => simp [lengthNode] at hg

theorem packedNodes_leaves (bs : Bytes) : ∀ x ∈ packedNodes bs, IsLeaf x := by
  intro x hx
  simp only [packedNodes, bytesIntoNodes, List.mem_map] at hx
  obtain ⟨r, _, rfl⟩ := hx
  exact ⟨r, rfl⟩

/-- THE observation, on the full-tree side: in a `Rep` backing, the length node and every
    packed chunk position (data or zero padding, when materialised) is a leaf -/
theorem rep_readLeaves (h : HashFn) {t : Ty} {v : Val} {n : Node} (hr : Rep h t v n) :
    ReadLeaves t n := by
  cases t with
  | uint _ => exact True.intro
  | bool => exact True.intro
  | bytesN _ => exact True.intro
  | container _ => exact True.intro
  | union _ _ => exact True.intro
  | bitvector k =>
    cases v <;> simp only [Rep] at hr
    exact seqShape_bottomLeaves h _ n _ hr.2 (packedNodes_leaves _)
  | bitlist lim =>
    cases v <;> simp only [Rep] at hr
    exact ⟨listShape_lenLeaf h hr.2, listShape_bottomLeaves h hr.2 (packedNodes_leaves _)⟩
  | vector e k =>
    cases v <;> simp only [Rep] at hr
    intro hb
    simp only [hb, if_true] at hr
    exact seqShape_bottomLeaves h _ n _ hr.2 (packedNodes_leaves _)
  | list e lim =>
    cases v <;> simp only [Rep] at hr
    cases hb : isBasicElem e
    · simp only [hb, Bool.false_eq_true, if_false] at hr
      obtain ⟨_, xs, _, hs⟩ := hr
      exact ⟨listShape_lenLeaf h hs, fun hc => by rw [hb] at hc; cases hc⟩
    · simp only [hb, if_true] at hr
      exact ⟨listShape_lenLeaf h hr.2, fun _ => listShape_bottomLeaves h hr.2 (packedNodes_leaves _)⟩

/-! ### the mutators and the typed getter never panic, on ANY tree -/

def NoPanic {α : Type} (r : R α) : Prop := r ≠ .error .panic

namespace NoPanic

theorem bind {α β : Type} {r : R α} {f : α → R β} (h1 : NoPanic r) (h2 : ∀ a, NoPanic (f a)) :
    NoPanic (r >>= f) := by
  cases r with
  | ok a => exact h2 a
  | error e => intro he; exact h1 (by simpa using he)

theorem ok {α : Type} (a : α) : NoPanic (.ok a : R α) := by intro he; cases he
theorem other {α : Type} : NoPanic (.error .other : R α) := by intro he; cases he
theorem nav {α : Type} : NoPanic (.error .nav : R α) := by intro he; cases he

theorem ite {α : Type} {c : Prop} [Decidable c] {a b : R α} (h1 : NoPanic a) (h2 : NoPanic b) :
    NoPanic (if c then a else b) := by
  split <;> assumption

theorem getNode (n : Node) (p : List Bool) : NoPanic (getNode n p) := Summ.getNode_no_panic n p

theorem setNode (h : HashFn) (n : Node) (p : List Bool) (e : Bool) (v : Node) :
    NoPanic (setNode h n p e v) := Summ.setNode_no_panic h n p e v

theorem asLeaf (x : Node) : NoPanic (asLeaf x) := by
  cases x <;> intro he <;> cases he

theorem toPath (i d : Nat) : NoPanic (toPath i d) := by
  unfold ZtypV.toPath
  exact ite other (ite other (ok _))

theorem subtreeGet (n : Node) (d i : Nat) : NoPanic (subtreeGet n d i) := by
  unfold View.subtreeGet
  exact bind (toPath i d) (fun p => getNode n p)

theorem subtreeSet (h : HashFn) (n : Node) (d i : Nat) (v : Node) : NoPanic (subtreeSet h n d i v) := by
  unfold View.subtreeSet
  exact bind (toPath i d) (fun p => setNode h n p false v)

theorem listLength (n : Node) (lim : Nat) : NoPanic (listLength n lim) := by
  unfold View.listLength
  exact bind (getNode n _) (fun x => bind (asLeaf x) (fun _ => ite other (ok _)))

theorem setLength (h : HashFn) (n : Node) (len : Nat) : NoPanic (setLength h n len) := by
  unfold View.setLength
  exact setNode h n _ false _

theorem chunkSet (h : HashFn) (n : Node) (d j : Nat) (g : Root → Root) :
    NoPanic (View.subtreeGet n d j >>= fun c => View.asLeaf c >>= fun r =>
      View.subtreeSet h n d j (.leaf (g r))) :=
  bind (subtreeGet n d j) (fun c => bind (asLeaf c) (fun _ => subtreeSet h n d j _))

end NoPanic

theorem set_noPanic (h : HashFn) (t : Ty) (n : Node) (i : Nat) (v : Val) (en : Node) :
    NoPanic (Mut.set h t n i v en) := by
  cases t with
  | uint _ => exact NoPanic.other
  | bool => exact NoPanic.other
  | bytesN _ => exact NoPanic.other
  | union _ _ => exact NoPanic.other
  | vector e k =>
    simp only [Mut.set]
    exact NoPanic.ite NoPanic.other (NoPanic.ite (NoPanic.chunkSet h n _ _ _) (NoPanic.subtreeSet h n _ _ _))
  | list e lim =>
    simp only [Mut.set]
    refine NoPanic.bind (NoPanic.listLength n lim) (fun ll => ?_)
    exact NoPanic.ite NoPanic.other (NoPanic.ite NoPanic.other
      (NoPanic.ite (NoPanic.chunkSet h n _ _ _) (NoPanic.subtreeSet h n _ _ _)))
  | container fs =>
    simp only [Mut.set]
    exact NoPanic.ite NoPanic.other (NoPanic.subtreeSet h n _ _ _)
  | bitvector k =>
    simp only [Mut.set]
    exact NoPanic.ite NoPanic.other (NoPanic.chunkSet h n _ _ _)
  | bitlist lim =>
    simp only [Mut.set]
    refine NoPanic.bind (NoPanic.listLength n lim) (fun ll => ?_)
    exact NoPanic.ite NoPanic.other (NoPanic.ite NoPanic.other (NoPanic.chunkSet h n _ _ _))

theorem hookSet_noPanic (h : HashFn) (t : Ty) (n : Node) (i : Nat) (b : Node) :
    NoPanic (hookSet h t n i b) := by
  cases t with
  | vector e k =>
    simp only [hookSet]
    exact NoPanic.ite NoPanic.other (NoPanic.subtreeSet h n _ _ _)
  | list e lim =>
    simp only [hookSet]
    refine NoPanic.bind (NoPanic.listLength n lim) (fun ll => ?_)
    exact NoPanic.ite NoPanic.other (NoPanic.ite NoPanic.other (NoPanic.subtreeSet h n _ _ _))
  | container fs =>
    simp only [hookSet]
    exact NoPanic.ite NoPanic.other (NoPanic.subtreeSet h n _ _ _)
  | _ => exact NoPanic.other

theorem finish_noPanic (h : HashFn) (n : Node) (p : List Bool) (v : Node) (len : Nat) :
    NoPanic (setNode h n p true v >>= fun b => setLength h b len) :=
  NoPanic.bind (NoPanic.setNode h n p true v) (fun b => NoPanic.setLength h b len)

theorem append_noPanic (h : HashFn) (t : Ty) (n : Node) (v : Val) (en : Node) :
    NoPanic (Mut.append h t n v en) := by
  cases t with
  | list e lim =>
    simp only [Mut.append]
    refine NoPanic.bind (NoPanic.listLength n lim) (fun ll => ?_)
    refine NoPanic.ite NoPanic.other (NoPanic.ite ?_ ?_)
    · refine NoPanic.bind (NoPanic.toPath _ _) (fun p => ?_)
      refine NoPanic.bind (NoPanic.setNode h n p true _) (fun _ => ?_)
      refine NoPanic.ite ?_ ?_
      · exact NoPanic.bind (NoPanic.ok _) (fun bt => finish_noPanic h n p _ _)
      · refine NoPanic.bind ?_ (fun bt => finish_noPanic h n p _ _)
        exact NoPanic.bind (NoPanic.subtreeGet n _ _) (fun c => NoPanic.bind (NoPanic.asLeaf c)
          (fun r => NoPanic.ok _))
    · exact NoPanic.bind (NoPanic.toPath _ _) (fun p => finish_noPanic h n p _ _)
  | bitlist lim =>
    simp only [Mut.append]
    refine NoPanic.bind (NoPanic.listLength n lim) (fun ll => ?_)
    refine NoPanic.ite NoPanic.other ?_
    refine NoPanic.bind (NoPanic.toPath _ _) (fun p => ?_)
    refine NoPanic.bind (NoPanic.setNode h n p true _) (fun _ => ?_)
    refine NoPanic.ite ?_ ?_
    · exact NoPanic.bind (NoPanic.ok _) (fun bt => finish_noPanic h n p _ _)
    · refine NoPanic.bind ?_ (fun bt => finish_noPanic h n p _ _)
      exact NoPanic.bind (NoPanic.subtreeGet n _ _) (fun c => NoPanic.bind (NoPanic.asLeaf c)
        (fun r => NoPanic.ok _))
  | _ => exact NoPanic.other

theorem packedPop_noPanic (h : HashFn) (n : Node) (d j len : Nat) (g : Root → Root) :
    NoPanic (toPath j d >>= fun p => setNode h n p true (.leaf z0) >>= fun _ =>
      subtreeGet n d j >>= fun c => asLeaf c >>= fun r =>
        setNode h n p true (.leaf (g r)) >>= fun b => setLength h b len) := by
  refine NoPanic.bind (NoPanic.toPath _ _) (fun p => ?_)
  refine NoPanic.bind (NoPanic.setNode h n p true _) (fun _ => ?_)
  refine NoPanic.bind (NoPanic.subtreeGet n _ _) (fun c => ?_)
  exact NoPanic.bind (NoPanic.asLeaf c) (fun r => finish_noPanic h n p _ _)

theorem pop_noPanic (h : HashFn) (t : Ty) (n : Node) : NoPanic (Mut.pop h t n) := by
  cases t with
  | list e lim =>
    simp only [Mut.pop]
    refine NoPanic.bind (NoPanic.listLength n lim) (fun ll => ?_)
    refine NoPanic.ite NoPanic.other (NoPanic.ite (packedPop_noPanic h n _ _ _ _) ?_)
    exact NoPanic.bind (NoPanic.toPath _ _) (fun p => finish_noPanic h n p _ _)
  | bitlist lim =>
    simp only [Mut.pop]
    refine NoPanic.bind (NoPanic.listLength n lim) (fun ll => ?_)
    exact NoPanic.ite NoPanic.other (packedPop_noPanic h n _ _ _ _)
  | _ => exact NoPanic.other

theorem change_noPanic (t : Ty) (sel : Nat) (content : Option Node) :
    NoPanic (Mut.change t sel content) := by
  cases t with
  | union hn opts =>
    simp only [Mut.change]
    refine NoPanic.ite NoPanic.other ?_
    cases content with
    | none => exact NoPanic.ite NoPanic.other (NoPanic.ok _)
    | some c => exact NoPanic.ok _
  | _ => exact NoPanic.other

theorem chunkGet_noPanic (n : Node) (d j : Nat) (k : Root → R (Ty × Node))
    (hk : ∀ r, NoPanic (k r)) :
    NoPanic (subtreeGet n d j >>= fun c => asLeaf c >>= k) :=
  NoPanic.bind (NoPanic.subtreeGet n d j) (fun c => NoPanic.bind (NoPanic.asLeaf c) hk)

theorem basicFromChunk_noPanic (size : Nat) (r : Root) (i : Nat) : NoPanic (basicFromChunk size r i) := by
  unfold basicFromChunk
  exact NoPanic.ite NoPanic.other (NoPanic.ok _)

theorem getElem_noPanic (t : Ty) (n : Node) (i : Nat) : NoPanic (getElemNode t n i) := by
  cases t with
  | uint _ => exact NoPanic.other
  | bool => exact NoPanic.other
  | bytesN _ => exact NoPanic.other
  | union _ _ => exact NoPanic.other
  | vector e k =>
    simp only [getElemNode]
    refine NoPanic.ite NoPanic.other (NoPanic.ite ?_ ?_)
    · exact chunkGet_noPanic n _ _ _ (fun r => NoPanic.bind (basicFromChunk_noPanic _ _ _)
        (fun v => NoPanic.ok _))
    · exact NoPanic.bind (NoPanic.subtreeGet n _ _) (fun c => NoPanic.ok _)
  | list e lim =>
    simp only [getElemNode]
    refine NoPanic.bind (NoPanic.listLength n lim) (fun ll => ?_)
    refine NoPanic.ite NoPanic.other (NoPanic.ite NoPanic.other (NoPanic.ite ?_ ?_))
    · exact chunkGet_noPanic n _ _ _ (fun r => NoPanic.bind (basicFromChunk_noPanic _ _ _)
        (fun v => NoPanic.ok _))
    · exact NoPanic.bind (NoPanic.subtreeGet n _ _) (fun c => NoPanic.ok _)
  | container fs =>
    simp only [getElemNode]
    cases fs[i]? with
    | none => exact NoPanic.other
    | some ft => exact NoPanic.bind (NoPanic.subtreeGet n _ _) (fun c => NoPanic.ok _)
  | bitvector k =>
    simp only [getElemNode]
    exact NoPanic.ite NoPanic.other (chunkGet_noPanic n _ _ _ (fun r => NoPanic.ok _))
  | bitlist lim =>
    simp only [getElemNode]
    refine NoPanic.bind (NoPanic.listLength n lim) (fun ll => ?_)
    exact NoPanic.ite NoPanic.other (NoPanic.ite NoPanic.other
      (chunkGet_noPanic n _ _ _ (fun r => NoPanic.ok _)))

end ZtypV.Partial
