/-
C20, helper lemmas, part 1: the cost monad `CR`; the result component of the instrumented
decoder `decodeM` is the validated decoder `decode` (`decodeM_res`).
-/
import ZtypV.Model.DecodeCost
import ZtypV.Proofs.DecodeSound
namespace ZtypV.CostProofs
open ZtypV ZtypV.View ZtypV.DecodeProofs

variable {α β : Type}

/-! ### the cost monad -/

theorem res_bind (x : CR α) (f : α → CR β) : (x >>= f).res = x.res >>= fun a => (f a).res := by
  show (CR.bind x f).res = _
  unfold CR.bind
  cases x.res <;> rfl
theorem res_pure (a : α) : (pure a : CR α).res = .ok a := rfl
theorem res_lift (r : R α) : (CR.lift r).res = r := rfl
theorem res_tick (n : Nat) : (CR.tick n).res = .ok () := rfl
theorem res_fail (e : Err) : (CR.fail e : CR α).res = .error e := rfl
theorem res_ite (c : Prop) [Decidable c] (x y : CR α) :
    (if c then x else y).res = if c then x.res else y.res := by
  split <;> rfl
theorem res_orNilC (r : CR Node) : (orNilC r).res = orNil r.res := rfl
theorem res_orOtherC (r : CR Node) : (orOtherC r).res =
    match r.res with
    | .ok n => .ok n
    | .error _ => .error .other := rfl
theorem res_fillC (h : HashFn) (d : Nat) (ns : List Node) :
    (fillC h d ns).res = fillToContents h d ns := rfl
theorem res_bytesIntoNodesC (bs : Bytes) : (bytesIntoNodesC bs).res = .ok (bytesIntoNodes bs) := rfl
theorem res_readOffsetsC (n prev : Nat) (dr : DR) :
    (readOffsetsC n prev dr).res = readOffsets n prev dr := rfl
theorem ebind_ok (a : α) (f : α → R β) : ((Except.ok a : R α) >>= f) = f a := rfl
theorem ebind_err (e : Err) (f : α → R β) : ((Except.error e : R α) >>= f) = .error e := rfl
theorem ebind_congr {x : R α} {f g : α → R β} (h : ∀ a, x = .ok a → f a = g a) :
    (x >>= f) = (x >>= g) := by
  cases x with
  | error e => rfl
  | ok a => exact h a rfl

/-- both sides are the same program up to the inserted `tick`s: push `.res` inwards, split the
    common case distinctions -/
syntax "res_tac" ("[" Lean.Parser.Tactic.simpLemma,* "]")? : tactic
macro_rules
  | `(tactic| res_tac) => `(tactic| res_tac [])
  | `(tactic| res_tac [$ts,*]) => `(tactic|
    repeat' (first
      | rfl
      | contradiction
      | (dsimp only)
      | split
      | simp only [res_bind, res_lift, res_ite, res_fail, res_tick, res_pure, res_orNilC, res_orOtherC,
          res_fillC, res_bytesIntoNodesC, res_readOffsetsC, ebind_ok, ebind_err, $ts,*]
      | (refine ebind_congr ?_; first | (refine Prod.rec ?_; intro _ _ _) | intro _ _)
      | (exfalso; simp_all; first | done | omega)
      | (simp_all; done)))

/-! ### loops -/

theorem inSubC_res (dr : DR) (count : Nat) (f : DR → CR (α × DR)) (g : DR → R (α × DR))
    (hfg : ∀ d, (f d).res = g d) : (dr.inSubC count f).res = dr.inSub count g := by
  unfold DR.inSubC DR.inSub
  res_tac [hfg]

theorem decodeFixedItemsC_res (f : DR → CR (Node × DR)) (g : DR → R (Node × DR))
    (hfg : ∀ d, (f d).res = g d) (size : Nat) : ∀ (n : Nat) (dr : DR),
    (decodeFixedItemsC f size n dr).res = decodeFixedItems g size n dr
  | 0, dr => rfl
  | n + 1, dr => by
    rw [decodeFixedItemsC, decodeFixedItems]
    res_tac [inSubC_res _ _ f g hfg, decodeFixedItemsC_res f g hfg size n]

theorem decodeOffsetItemsC_res (f : DR → CR (Node × DR)) (g : DR → R (Node × DR))
    (hfg : ∀ d, (f d).res = g d) (scope : Nat) : ∀ (offs : List Nat) (dr : DR),
    (decodeOffsetItemsC f scope offs dr).res = decodeOffsetItems g scope offs dr
  | [], dr => rfl
  | [last], dr => by
    rw [decodeOffsetItemsC, decodeOffsetItems]
    res_tac [inSubC_res _ _ f g hfg]
  | o :: o' :: rest, dr => by
    rw [decodeOffsetItemsC, decodeOffsetItems]
    res_tac [inSubC_res _ _ f g hfg, decodeOffsetItemsC_res f g hfg scope (o' :: rest)]

/-! ### type by type -/

section
variable (h : HashFn)

theorem uint_res (b : Nat) (dr : DR) : (decodeM h (.uint b) dr).res = decode h (.uint b) dr := by
  rw [decodeM, decode]; res_tac
theorem bool_res (dr : DR) : (decodeM h .bool dr).res = decode h .bool dr := by
  rw [decodeM, decode]; res_tac
theorem bytesN_res (k : Nat) (dr : DR) : (decodeM h (.bytesN k) dr).res = decode h (.bytesN k) dr := by
  rw [decodeM, decode]; res_tac
theorem bitvector_res (k : Nat) (dr : DR) :
    (decodeM h (.bitvector k) dr).res = decode h (.bitvector k) dr := by
  rw [decodeM, decode]; res_tac
theorem bitlist_res (lim : Nat) (dr : DR) :
    (decodeM h (.bitlist lim) dr).res = decode h (.bitlist lim) dr := by
  rw [decodeM, decode]; res_tac

theorem vector_res {e : Ty} (ih : ∀ d, (decodeM h e d).res = decode h e d) (k : Nat) (dr : DR) :
    (decodeM h (.vector e k) dr).res = decode h (.vector e k) dr := by
  rw [decodeM, decode]
  res_tac [decodeFixedItemsC_res (fun d => decodeM h e d) (fun d => decode h e d) ih,
    decodeOffsetItemsC_res (fun d => decodeM h e d) (fun d => decode h e d) ih]

theorem list_res {e : Ty} (ih : ∀ d, (decodeM h e d).res = decode h e d) (lim : Nat) (dr : DR) :
    (decodeM h (.list e lim) dr).res = decode h (.list e lim) dr := by
  rw [decodeM, decode]
  res_tac [decodeFixedItemsC_res (fun d => decodeM h e d) (fun d => decode h e d) ih,
    decodeOffsetItemsC_res (fun d => decodeM h e d) (fun d => decode h e d) ih]

theorem decodeFixedPartM_res : ∀ (fs : List Ty), (∀ t ∈ fs, ∀ d, (decodeM h t d).res = decode h t d) →
    ∀ (prev : Nat) (first : Bool) (scope : Nat) (dr : DR),
    (decodeFixedPartM h fs prev first scope dr).res = decodeFixedPart h fs prev first scope dr
  | [], _, _, _, _, _ => rfl
  | t :: ts, ih, prev, first, scope, dr => by
    have iht := ih t (by simp)
    have ihts := decodeFixedPartM_res ts (fun t' ht' => ih t' (by simp [ht']))
    rw [decodeFixedPartM, decodeFixedPart]
    res_tac [inSubC_res _ _ (fun d => decodeM h t d) (fun d => decode h t d) iht, ihts]

/-- uniform unfolding of the second container loop -/
theorem decodeDynPartM_cons (t : Ty) (ts : List Ty) (scope : Nat) (offs : List Nat) (dr : DR) :
    decodeDynPartM h (t :: ts) scope offs dr =
      (if t.isFixed = true then decodeDynPartM h ts scope offs dr
      else match offs with
        | [] => CR.fail .panic
        | o :: rest => (do
          let (x, dr') ← dr.inSubC (rest.headD scope - o) (fun d => decodeM h t d)
          let (xs, dr'') ← decodeDynPartM h ts scope rest dr'
          pure (x :: xs, dr''))) := by
  cases offs with
  | nil => rw [decodeDynPartM]
  | cons o rest =>
    cases rest with
    | nil => rw [decodeDynPartM]; rfl
    | cons o' rest' => rw [decodeDynPartM]; rfl

theorem decodeDynPartM_res : ∀ (fs : List Ty), (∀ t ∈ fs, ∀ d, (decodeM h t d).res = decode h t d) →
    ∀ (scope : Nat) (offs : List Nat) (dr : DR),
    (decodeDynPartM h fs scope offs dr).res = decodeDynPart h fs scope offs dr
  | [], _, _, _, _ => rfl
  | t :: ts, ih, scope, offs, dr => by
    have iht := ih t (by simp)
    have ihts := decodeDynPartM_res ts (fun t' ht' => ih t' (by simp [ht']))
    rw [decodeDynPartM_cons, decodeDynPart_cons]
    res_tac [inSubC_res _ _ (fun d => decodeM h t d) (fun d => decode h t d) iht, ihts]

theorem decodeOptM_res : ∀ (opts : List Ty), (∀ t ∈ opts, ∀ d, (decodeM h t d).res = decode h t d) →
    ∀ (k rem : Nat) (dr : DR), (decodeOptM h opts k rem dr).res = decodeOpt h opts k rem dr
  | [], _, _, _, _ => rfl
  | t :: ts, ih, 0, rem, dr => by
    rw [decodeOptM, decodeOpt]
    res_tac [ih t (by simp)]
  | t :: ts, ih, k + 1, rem, dr => by
    rw [decodeOptM, decodeOpt]
    exact decodeOptM_res ts (fun t' ht' => ih t' (by simp [ht'])) k rem dr

theorem container_res {fs : List Ty} (ih : ∀ t ∈ fs, ∀ d, (decodeM h t d).res = decode h t d)
    (dr : DR) : (decodeM h (.container fs) dr).res = decode h (.container fs) dr := by
  rw [decodeM, decode]
  res_tac [decodeFixedPartM_res h fs ih, decodeDynPartM_res h fs ih]

theorem union_res {hasNone : Bool} {opts : List Ty}
    (ih : ∀ t ∈ opts, ∀ d, (decodeM h t d).res = decode h t d)
    (dr : DR) : (decodeM h (.union hasNone opts) dr).res = decode h (.union hasNone opts) dr := by
  rw [decodeM, decode]
  res_tac [decodeOptM_res h opts ih]

end

/-- the instrumented twin computes exactly the validated decoder -/
theorem decodeM_res (h : HashFn) : (t : Ty) → ∀ dr, (decodeM h t dr).res = decode h t dr
  | .uint b => uint_res h b
  | .bool => bool_res h
  | .bytesN k => bytesN_res h k
  | .bitvector k => bitvector_res h k
  | .bitlist lim => bitlist_res h lim
  | .vector e k => vector_res h (decodeM_res h e) k
  | .list e lim => list_res h (decodeM_res h e) lim
  | .container fs => container_res h (fun t _ht => decodeM_res h t)
  | .union _ opts => union_res h (fun t _ht => decodeM_res h t)
termination_by t => sizeOf t
decreasing_by
  all_goals simp_wf
  · omega
  · omega
  · have := List.sizeOf_lt_of_mem _ht; omega
  · have := List.sizeOf_lt_of_mem _ht; omega

theorem decodeC_fst (h : HashFn) (t : Ty) (dr : DR) : (decodeC h t dr).1 = decode h t dr :=
  decodeM_res h t dr

end ZtypV.CostProofs
