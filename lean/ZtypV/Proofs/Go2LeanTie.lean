/-
Companion of the Go→Lean translator `harness/cmd/go2lean` (static tie of the small pure
integer functions of `tree/bitlen.go`, `tree/gindex.go`, `bitfields/*.go` to the hand-written
models `ZtypV.Model.Bits64` / `ZtypV.Model.Bitfields`).

The translator prints, on every run, a Lean file that
* imports this file,
* defines in `namespace Generated.Go` one function `<pkg>_<Func>` per Go function, obtained
  mechanically from the current Go source (statement lists → nested `let`/`if`),
* states `<pkg>_<Func> args = <model function> args` for all arguments, proved by
  `go2lean_tie`, and
* runs `#tie_ok thm "label"`, which prints `TIE-OK label` only if the theorem exists, is
  `sorry`-free and depends on no axiom besides propext / Classical.choice / Quot.sound.

This file contains what the generated file relies on:
1. the Go semantics of shifts (`x << n`, `x >> n` with an unsigned count `n`: the result is 0
   when `n ≥ width`; Lean's `<<<`/`>>>` reduce the count modulo the width),
2. the few lemmas needed where a model uses an unguarded Lean shift because the count is
   provably small (`last >> (n & 7)` in `BitvectorCheckLastByte`),
3. the proof script `go2lean_tie` and the reporting command `#tie_ok`.

Not part of the compiled driver (imports `Lean` for the two small macros).
-/
import Lean
import ZtypV.Model.Bits64
import ZtypV.Model.Bitfields
/-- the ties proved so far: a later function's tie may rewrite its callees with them -/
register_simp_attr go2lean_ties

namespace Generated.Go

/-! ### Go shift semantics, per operand width (count as a natural number) -/

def shl8 (x : UInt8) (n : Nat) : UInt8 := if n ≥ 8 then 0 else x <<< n.toUInt8
def shr8 (x : UInt8) (n : Nat) : UInt8 := if n ≥ 8 then 0 else x >>> n.toUInt8
def shl16 (x : UInt16) (n : Nat) : UInt16 := if n ≥ 16 then 0 else x <<< n.toUInt16
def shr16 (x : UInt16) (n : Nat) : UInt16 := if n ≥ 16 then 0 else x >>> n.toUInt16
def shl32 (x : UInt32) (n : Nat) : UInt32 := if n ≥ 32 then 0 else x <<< n.toUInt32
def shr32 (x : UInt32) (n : Nat) : UInt32 := if n ≥ 32 then 0 else x >>> n.toUInt32
def shl64 (x : UInt64) (n : Nat) : UInt64 := if n ≥ 64 then 0 else x <<< n.toUInt64
def shr64 (x : UInt64) (n : Nat) : UInt64 := if n ≥ 64 then 0 else x >>> n.toUInt64

/-- the guard helpers of this file are the ones the `Bits64` model uses -/
theorem shl64_eq_model (x : UInt64) (n : Nat) : shl64 x n = ZtypV.Bits64.shl64 x n := rfl
theorem shr64_eq_model (x : UInt64) (n : Nat) : shr64 x n = ZtypV.Bits64.shr64 x n := rfl

/-! ### counts that are provably below the width -/

theorem and7_lt (n : UInt64) : (n &&& 7).toNat < 8 := by
  have : (n &&& 7).toNat = n.toNat &&& 7 := by simp
  rw [this]
  exact Nat.lt_succ_of_le Nat.and_le_right

/-- `last >> (n & 7)` on a byte: the guard never fires, and the count converts exactly -/
theorem shr8_and7 (x : UInt8) (n : UInt64) :
    shr8 x (n &&& 7).toNat = x >>> (n &&& 7).toUInt8 := by
  unfold shr8
  rw [if_neg (Nat.not_le_of_lt (and7_lt n))]
  congr 1

/-! ### proof script and reporting -/

/-- `go2lean_tie gen model` proves `gen args = model args` (or the stated variant):
    first by definitional unfolding alone (`rfl`: the kernel evaluates constant guards such as
    `3 ≥ 64`, sees through `step`, pairs and projections), otherwise by unfolding both sides
    and rewriting with the small-count lemmas above.  Both are kernel-checked; if neither
    works the tie is reported broken together with the two unfolded sides. -/
macro "go2lean_tie " g:ident m:ident : tactic => do
  let msg := Lean.Syntax.mkStrLit
    s!"TIE BROKEN: the translation {g.getId} of the current Go source is not equal (by unfolding) to the hand-written model {m.getId}; both sides:"
  `(tactic| first
      | rfl
      | (unfold $g $m; simp only [shr8_and7]; first | done | rfl)
      | (unfold $g $m; (try simp only [shr8_and7, go2lean_ties]); first | done | rfl)
      | (unfold $g $m; fail $msg))

/-- a statement about every byte follows from its 256 instances -/
theorem forall_uint8 {P : UInt8 → Prop} (h : ∀ i : Fin 256, P (UInt8.ofNat i.val)) (v : UInt8) : P v := by
  have := h ⟨v.toNat, v.toNat_lt⟩
  simpa using this

/-- `go2lean_tie8 gen model v`: as `go2lean_tie` for a function of the single byte `v`; when
    unfolding does not show the equality (the Go function was rewritten in another style) the
    kernel evaluates both sides on all 256 bytes. -/
macro "go2lean_tie8 " g:ident m:ident v:ident : tactic => do
  let msg := Lean.Syntax.mkStrLit
    s!"TIE BROKEN: the translation {g.getId} of the current Go source differs from the hand-written model {m.getId} on some byte"
  `(tactic| first
      | rfl
      | (unfold $g $m; simp only [shr8_and7]; first | done | rfl)
      | (revert $v; exact forall_uint8 (by decide +kernel))
      | fail $msg)

open Lean Elab Command in
/-- `#tie_ok thm "label"`: print `TIE-OK label` iff `thm` exists and its axioms are within
    propext / Classical.choice / Quot.sound (a failed proof leaves `sorryAx`); error otherwise. -/
elab "#tie_ok " thm:ident label:str : command => do
  let n ← liftCoreM <| realizeGlobalConstNoOverloadWithInfo thm
  let axs ← liftCoreM <| collectAxioms n
  let bad := axs.filter fun a => a != ``propext && a != ``Classical.choice && a != ``Quot.sound
  if bad.isEmpty then logInfo m!"TIE-OK {label.getString}"
  else throwError "TIE-FAIL {label.getString}: depends on axioms {bad}"

end Generated.Go
