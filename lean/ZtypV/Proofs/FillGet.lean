/-
Navigation into the result of `SubtreeFillToContents`: position `i` of the contents is reached
by the `d`-bit big-endian path of `i` (`toPath`), positions beyond the contents run into the
zero padding.  Core Lean only; reusable (C01/C02/C03/C04 all navigate filled subtrees).
-/
import ZtypV.Model.View
import ZtypV.Proofs.Fill
namespace ZtypV

/-- the `d` low bits of `i`, most significant first: the path `toPath i d` yields -/
def bitsOf (i d : Nat) : List Bool := (List.range d).reverse.map fun k => i.testBit k

@[simp] theorem bitsOf_zero (i : Nat) : bitsOf i 0 = [] := rfl

theorem bitsOf_succ (i d : Nat) : bitsOf i (d + 1) = i.testBit d :: bitsOf i d := by
  simp [bitsOf, List.range_succ]

@[simp] theorem bitsOf_length (i d : Nat) : (bitsOf i d).length = d := by
  simp [bitsOf]

/-- only the low `d` bits matter -/
theorem bitsOf_mod (i d : Nat) : bitsOf (i % 2 ^ d) d = bitsOf i d := by
  unfold bitsOf
  apply List.map_congr_left
  intro k hk
  have hk' : k < d := by simpa using hk
  simp [Nat.testBit_mod_two_pow, hk']

theorem bitsOf_sub_pow (i d : Nat) (h1 : 2 ^ d ≤ i) (h2 : i < 2 ^ (d + 1)) :
    bitsOf (i - 2 ^ d) d = bitsOf i d := by
  rw [← bitsOf_mod i d]
  have : i % 2 ^ d = i - 2 ^ d := by
    rw [Nat.pow_succ] at h2
    rw [Nat.mod_eq_sub_mod h1, Nat.mod_eq_of_lt (by omega)]
  rw [this]

theorem testBit_top_false (i d : Nat) (h : i < 2 ^ d) : i.testBit d = false :=
  Nat.testBit_lt_two_pow h

theorem testBit_top_true (i d : Nat) (h1 : 2 ^ d ≤ i) (h2 : i < 2 ^ (d + 1)) :
    i.testBit d = true := by
  rw [Nat.testBit_eq_decide_div_mod_eq]
  have h3 : i / 2 ^ d = 1 := by
    rw [Nat.pow_succ] at h2
    have hp : 0 < 2 ^ d := Nat.two_pow_pos d
    apply Nat.div_eq_of_lt_le <;> omega
  simp [h3]

theorem toPath_ok (i d : Nat) (hd : d < 64) (hi : i < 2 ^ d) : toPath i d = .ok (bitsOf i d) := by
  unfold toPath bitsOf
  rw [if_neg (by omega), if_neg (by omega)]

theorem toPath_length {i d : Nat} {p : List Bool} (hp : toPath i d = .ok p) : p.length = d := by
  unfold toPath at hp
  split at hp; · cases hp
  split at hp; · cases hp
  cases hp; simp

theorem toPath_eq {i d : Nat} {p : List Bool} (hp : toPath i d = .ok p) :
    p = bitsOf i d ∧ d < 64 ∧ i < 2 ^ d := by
  unfold toPath at hp
  split at hp; · cases hp
  split at hp; · cases hp
  cases hp
  exact ⟨rfl, by omega, by omega⟩

/-- navigating a concatenated path = navigating in two steps -/
theorem getNode_append (n : Node) (p q : List Bool) :
    getNode n (p ++ q) = (getNode n p >>= fun m => getNode m q) := by
  induction p generalizing n with
  | nil => simp [getNode, bind, Except.bind]
  | cons b p ih =>
    cases n with
    | leaf r => simp [getNode, bind, Except.bind]
    | pair l r =>
      simp only [List.cons_append, getNode]
      split <;> exact ih _

theorem getNode_append_ok {n m : Node} {p : List Bool} (q : List Bool)
    (h : getNode n p = .ok m) : getNode n (p ++ q) = getNode m q := by
  rw [getNode_append, h]; rfl

@[simp] theorem getNode_nil (n : Node) : getNode n [] = .ok n := by
  cases n <;> rfl

theorem getNode_pair_false (l r : Node) (p : List Bool) :
    getNode (.pair l r) (false :: p) = getNode l p := by simp [getNode]

theorem getNode_pair_true (l r : Node) (p : List Bool) :
    getNode (.pair l r) (true :: p) = getNode r p := by simp [getNode]

theorem getNode_leaf_cons (x : Root) (b : Bool) (p : List Bool) :
    getNode (.leaf x) (b :: p) = .error .nav := rfl

/-- a path of positive length into a leaf is a navigation error -/
theorem getNode_leaf_pos (x : Root) (p : List Bool) (hp : 0 < p.length) :
    getNode (.leaf x) p = .error .nav := by
  cases p with
  | nil => simp at hp
  | cons b p => rfl

/-- `SubtreeFillToContents` then `Getter` at position `i < len`: the `i`-th node (path form) -/
theorem getNode_fill (h : HashFn) (d : Nat) : ∀ (ns : List Node) (n : Node) (i : Nat)
    (hi : i < ns.length), fillToContents h d ns = .ok n → getNode n (bitsOf i d) = .ok ns[i] := by
  induction d with
  | zero =>
    intro ns n i hi hf
    unfold fillToContents at hf
    rw [if_neg (by omega)] at hf
    split at hf; · cases hf
    rename_i hle
    match ns, hf, hi, hle with
    | a :: rest, hf, hi, hle =>
      simp at hf hle; subst hf; subst hle
      have : i = 0 := by simpa using hi
      subst this; simp
  | succ d ih =>
    intro ns n i hi hf
    unfold fillToContents at hf
    rw [if_neg (by omega)] at hf
    split at hf; · cases hf
    rename_i hle
    simp only at hf
    rw [bitsOf_succ]
    split at hf
    · rename_i hd; subst hd
      match ns, hf, hi, hle with
      | [a], hf, hi, hle =>
        simp at hf; subst hf
        have : i = 0 := by simpa using hi
        subst this; simp [getNode]
      | a :: b :: rest, hf, hi, hle =>
        simp at hf; subst hf
        simp at hle
        have hr : rest = [] := by
          cases rest with
          | nil => rfl
          | cons _ _ => simp at hle
        subst hr
        have : i = 0 ∨ i = 1 := by simp at hi; omega
        rcases this with rfl | rfl <;> simp [getNode]
    · split at hf
      · rename_i hp
        cases hl : fillToContents h d ns with
        | error e => simp [hl, bind, Except.bind] at hf
        | ok l =>
          simp [hl, bind, Except.bind] at hf; subst hf
          have hid : i < 2 ^ d := by omega
          rw [testBit_top_false i d hid, getNode_pair_false]
          exact ih ns l i hi hl
      · rename_i hp
        cases hl : fillToContents h d (ns.take (2 ^ d)) with
        | error e => simp [hl, bind, Except.bind] at hf
        | ok l =>
          cases hr : fillToContents h d (ns.drop (2 ^ d)) with
          | error e => simp [hl, hr, bind, Except.bind] at hf
          | ok r =>
            simp [hl, hr, bind, Except.bind] at hf; subst hf
            by_cases hid : i < 2 ^ d
            · rw [testBit_top_false i d hid, getNode_pair_false]
              have hi' : i < (ns.take (2 ^ d)).length := by simp; omega
              rw [ih _ l i hi' hl]; simp
            · have h1 : 2 ^ d ≤ i := by omega
              have h2 : i < 2 ^ (d + 1) := by omega
              rw [testBit_top_true i d h1 h2, getNode_pair_true, ← bitsOf_sub_pow i d h1 h2]
              have hi' : i - 2 ^ d < (ns.drop (2 ^ d)).length := by simp; omega
              rw [ih _ r _ hi' hr]
              simp only [List.getElem_drop]
              congr 2; omega

/-- `SubtreeView.GetNode(i)` on a filled subtree: the `i`-th of the nodes it was filled with -/
theorem get_fill {h : HashFn} {d : Nat} {ns : List Node} {n : Node} {i : Nat}
    (hf : fillToContents h d ns = .ok n) (hi : i < ns.length) (hd : d < 64) :
    View.subtreeGet n d i = .ok ns[i] := by
  have hlen : ns.length ≤ 2 ^ d := by
    unfold fillToContents at hf
    rw [if_neg (by omega)] at hf
    split at hf; · cases hf
    omega
  unfold View.subtreeGet
  rw [toPath_ok i d hd (by omega)]
  exact getNode_fill h d ns n i hi hf

/-- success of `fillToContents` means the nodes fit -/
theorem fill_ok_length {h : HashFn} {d : Nat} {ns : List Node} {n : Node}
    (hf : fillToContents h d ns = .ok n) : ns.length ≤ 2 ^ d := by
  unfold fillToContents at hf
  split at hf
  · rename_i h0; rw [h0]; exact Nat.zero_le _
  split at hf; · cases hf
  omega

/-- … and conversely `fillToContents` succeeds whenever the nodes fit (never panics) -/
theorem fill_ok_of_length (h : HashFn) (d : Nat) : ∀ (ns : List Node), ns.length ≤ 2 ^ d →
    ∃ n, fillToContents h d ns = .ok n := by
  induction d with
  | zero =>
    intro ns hle
    unfold fillToContents
    split; · exact ⟨_, rfl⟩
    rw [if_neg (by omega)]
    exact ⟨_, rfl⟩
  | succ d ih =>
    intro ns hle
    unfold fillToContents
    split; · exact ⟨_, rfl⟩
    rename_i hne
    rw [if_neg (by omega)]
    simp only
    split
    · match ns, hne with
      | [a], _ => exact ⟨_, rfl⟩
      | a :: b :: rest, _ => exact ⟨_, rfl⟩
    · split
      · obtain ⟨l, hl⟩ := ih ns (by omega)
        rw [hl]; exact ⟨_, rfl⟩
      · rw [Nat.pow_succ] at hle
        obtain ⟨l, hl⟩ := ih (ns.take (2 ^ d)) (by simp; omega)
        obtain ⟨r, hr⟩ := ih (ns.drop (2 ^ d)) (by simp; omega)
        rw [hl, hr]; exact ⟨_, rfl⟩

/-- Position beyond the contents (path form).  Exactly when `i` is the sibling of the last
    content node (or the tree is a single empty bottom position) the path ends on the zero
    leaf `zeroNode h 0`; otherwise it runs through a zero *summary* leaf of positive height and
    `Getter` reports a navigation error. -/
theorem getNode_fill_pad (h : HashFn) (d : Nat) : ∀ (ns : List Node) (n : Node) (i : Nat),
    fillToContents h d ns = .ok n → ns.length ≤ i → i < 2 ^ d →
    getNode n (bitsOf i d) =
      if d = 0 ∨ (0 < ns.length ∧ i / 2 = (ns.length - 1) / 2) then .ok (zeroNode h 0)
      else .error .nav := by
  induction d with
  | zero =>
    intro ns n i hf hle hi
    have hi0 : i = 0 := by simpa using hi
    subst hi0
    have : ns = [] := List.eq_nil_of_length_eq_zero (by omega)
    subst this
    unfold fillToContents at hf
    simp at hf; subst hf; simp
  | succ d ih =>
    intro ns n i hf hle hi
    have hc0 : (d + 1 = 0 ∨ (0 < ns.length ∧ i / 2 = (ns.length - 1) / 2)) ↔
      (0 < ns.length ∧ i / 2 = (ns.length - 1) / 2) := by simp
    simp only [hc0]
    unfold fillToContents at hf
    rw [bitsOf_succ]
    split at hf
    · -- no nodes: the zero summary of height d+1
      rename_i h0
      cases hf
      rw [if_neg (by omega)]
      rfl
    split at hf; · cases hf
    rename_i hne hfit
    simp only at hf
    split at hf
    · rename_i hd; subst hd
      match ns, hf, hle, hfit with
      | [a], hf, hle, hfit =>
        simp at hf; subst hf
        have : i = 1 := by simp at hle hi; omega
        subst this; simp [getNode]
      | a :: b :: rest, hf, hle, hfit =>
        simp at hle hi hfit; omega
    · rename_i hd0
      have hpd : 2 ^ d = 2 * 2 ^ (d - 1) := by
        have : d = (d - 1) + 1 := by omega
        rw [this, Nat.pow_succ]; simp; omega
      split at hf
      · rename_i hp
        cases hl : fillToContents h d ns with
        | error e => simp [hl, bind, Except.bind] at hf
        | ok l =>
          simp [hl, bind, Except.bind] at hf; subst hf
          by_cases hid : i < 2 ^ d
          · rw [testBit_top_false i d hid, getNode_pair_false, ih ns l i hl hle hid]
            have : ¬ (d = 0) := hd0
            simp [this]
          · have h1 : 2 ^ d ≤ i := by omega
            rw [testBit_top_true i d h1 hi, getNode_pair_true]
            rw [zeroNode, getNode_leaf_pos _ _ (by simp; omega)]
            rw [if_neg]
            generalize 2 ^ (d - 1) = m at hpd
            omega
      · rename_i hp
        cases hl : fillToContents h d (ns.take (2 ^ d)) with
        | error e => simp [hl, bind, Except.bind] at hf
        | ok l =>
          cases hr : fillToContents h d (ns.drop (2 ^ d)) with
          | error e => simp [hl, hr, bind, Except.bind] at hf
          | ok r =>
            simp [hl, hr, bind, Except.bind] at hf; subst hf
            have h1 : 2 ^ d ≤ i := by omega
            rw [testBit_top_true i d h1 hi, getNode_pair_true, ← bitsOf_sub_pow i d h1 hi]
            have hpow : 2 ^ (d + 1) = 2 * 2 ^ d := by rw [Nat.pow_succ]; omega
            rw [ih _ r (i - 2 ^ d) hr (by simp; omega) (by omega)]
            have hd0' : ¬ (d = 0) := hd0
            simp only [hd0', false_or, List.length_drop]
            generalize 2 ^ (d - 1) = m at hpd
            have hc1 : (0 < ns.length - 2 ^ d ∧ (i - 2 ^ d) / 2 = (ns.length - 2 ^ d - 1) / 2) ↔
                (0 < ns.length ∧ i / 2 = (ns.length - 1) / 2) := by
              constructor <;> intro ⟨ha, hb⟩ <;> constructor <;> omega
            simp only [hc1]

/-- `SubtreeView.GetNode(i)` beyond the contents of a filled subtree -/
theorem get_fill_pad {h : HashFn} {d : Nat} {ns : List Node} {n : Node} {i : Nat}
    (hf : fillToContents h d ns = .ok n) (hle : ns.length ≤ i) (hi : i < 2 ^ d) (hd : d < 64) :
    View.subtreeGet n d i =
      if d = 0 ∨ (0 < ns.length ∧ i / 2 = (ns.length - 1) / 2) then .ok (zeroNode h 0)
      else .error .nav := by
  unfold View.subtreeGet
  rw [toPath_ok i d hd hi]
  exact getNode_fill_pad h d ns n i hf hle hi

/-- weaker, often sufficient form: beyond the contents there is only zero padding -/
theorem get_fill_pad_cases {h : HashFn} {d : Nat} {ns : List Node} {n : Node} {i : Nat}
    (hf : fillToContents h d ns = .ok n) (hle : ns.length ≤ i) (hi : i < 2 ^ d) (hd : d < 64) :
    View.subtreeGet n d i = .ok (zeroNode h 0) ∨ View.subtreeGet n d i = .error .nav := by
  rw [get_fill_pad hf hle hi hd]
  split
  · exact Or.inl rfl
  · exact Or.inr rfl

/-- navigating through a list/bitlist/union view root (`pair contents mixin`) at depth `d+1`
    to position `i < 2^d` is navigating the contents at depth `d` -/
theorem subtreeGet_pair_left (c m : Node) (d i : Nat) (hd : d + 1 < 64) (hi : i < 2 ^ d) :
    View.subtreeGet (.pair c m) (d + 1) i = View.subtreeGet c d i := by
  unfold View.subtreeGet
  have hi' : i < 2 ^ (d + 1) := by rw [Nat.pow_succ]; omega
  rw [toPath_ok i (d + 1) hd hi', toPath_ok i d (by omega) hi, bitsOf_succ,
    testBit_top_false i d hi]
  simp [bind, Except.bind, getNode]

end ZtypV
