/-
C20, flat side, part 3: the invariants of the allocation bound and the codec helpers.

`Good t r F f`: `f` is a (cost-instrumented) decoder of type `t` such that
  * its result is a sound decoder of `t` (`DSound`: consumes exactly `need t dr` bytes);
  * a successful run does not enlarge the remaining scope;
  * a successful run costs at most `r` units per consumed byte:   cost ≤ r · need t dr;
  * every run costs at most  r · (bytes available) + r · scope + F.
The loops are in potential form (`cost + r · bytes left ≤ K · items + r · bytes available`).
The helpers are generic in the item deserializers (any `DesC` list whose members are `Good`).
-/
import ZtypV.Proofs.FlatCostRes
import ZtypV.Proofs.FlatCostMono
import ZtypV.Proofs.DecodeCostBound
namespace ZtypV.FlatCostProofs
open ZtypV ZtypV.View ZtypV.Flat ZtypV.DecodeProofs ZtypV.CostProofs ZtypV.FlatProofs

variable {α β : Type}

/-- the invariants of the flat allocation bound, for a decoder `f` of type `t` -/
structure Good (t : Ty) (r F : Nat) (f : DR → CR (Val × DR)) : Prop where
  sound : DSound t (fun d => (f d).res)
  mono : Mono (fun d => (f d).res)
  ok : ∀ (dr : DR) (v : Val) (dr' : DR), (f dr).res = .ok (v, dr') → (f dr).cost ≤ r * need t dr
  any : ∀ dr : DR, (f dr).cost ≤ r * dr.avail.length + r * dr.scope + F

theorem Good.weaken {t : Ty} {r r' F F' : Nat} {f : DR → CR (Val × DR)} (g : Good t r F f)
    (hr : r ≤ r') (hF : F ≤ F') : Good t r' F' f where
  sound := g.sound
  mono := g.mono
  ok := fun dr v dr' h => Nat.le_trans (g.ok dr v dr' h) (Nat.mul_le_mul_right _ hr)
  any := fun dr => by
    have := g.any dr
    have := Nat.mul_le_mul_right dr.avail.length hr
    have := Nat.mul_le_mul_right dr.scope hr
    omega

theorem need_subDR {t : Ty} {dr : DR} {count : Nat} (hc : t.isFixed = true → count = t.fixedSize) :
    need t (subDR dr count) = count := by
  cases hf : t.isFixed with
  | true => rw [need_fixed hf, hc hf]
  | false => rw [need_var hf, subDR_scope]

/-! ### one item in its own sub-scope -/

theorem inSubG_ok {t : Ty} {r F : Nat} {f : DR → CR (Val × DR)} (g : Good t r F f) {dr dr' : DR}
    {count : Nat} {x : Val} (hc : t.isFixed = true → count = t.fixedSize)
    (hr : (dr.inSubC count f).res = .ok (x, dr')) :
    count ≤ dr.scope ∧ dr'.avail.length + count = dr.avail.length ∧ dr'.scope = dr.scope ∧
      (dr.inSubC count f).cost ≤ 96 + r * count := by
  by_cases hs : dr.scope < count
  · obtain ⟨_, e, he⟩ := inSubC_fail f hs
    rw [he] at hr; cases hr
  · obtain ⟨hcost, hres⟩ := inSubC_run f hs
    rw [hres] at hr
    cases hd : (f (subDR dr count)).res with
    | error e => rw [hd] at hr; cases hr
    | ok p =>
      obtain ⟨a, c1⟩ := p
      rw [hd] at hr
      cases hr
      obtain ⟨_, _, h1, h2⟩ := g.sound _ _ _ hd
      have hk := g.ok _ _ _ hd
      rw [need_subDR hc] at h1 h2 hk
      have hlen : (subDR dr count).avail.length = min count dr.avail.length := by
        simp [subDR, List.length_take]
      have hc1 : c1.avail.length = (subDR dr count).avail.length - count := by
        rw [h2, List.length_drop]
      refine ⟨by omega, ?_, rfl, by omega⟩
      simp only [DR.after, List.length_drop]
      omega

theorem inSubG_any {t : Ty} {r F : Nat} {f : DR → CR (Val × DR)} (g : Good t r F f) (dr : DR)
    (count : Nat) :
    (dr.inSubC count f).cost ≤ 96 + r * dr.avail.length + r * dr.scope + F := by
  by_cases hc : dr.scope < count
  · rw [(inSubC_fail f hc).1]; omega
  · rw [(inSubC_run f hc).1]
    have h1 := g.any (subDR dr count)
    rw [subDR_scope] at h1
    have h2 := Nat.mul_le_mul_left r (subDR_avail_le dr count)
    have h3 : r * count ≤ r * dr.scope := Nat.mul_le_mul_left r (by omega)
    omega

/-! ### items of one fixed size (`Vector`, `List`, fixed-size branch) -/

theorem fixedItemsG_ok {e : Ty} {r F : Nat} (pre size : Nat)
    (hc : e.isFixed = true → size = e.fixedSize) :
    ∀ (items : List DesC) (dr : DR) (vs : List Val) (dr' : DR), (∀ it ∈ items, Good e r F it.run) →
    (decFixedItemsC pre size items dr).res = .ok (vs, dr') →
    dr'.avail.length + items.length * size = dr.avail.length ∧ dr'.scope = dr.scope ∧
      (decFixedItemsC pre size items dr).cost + r * dr'.avail.length ≤
        (pre + 96) * items.length + r * dr.avail.length
  | [], dr, vs, dr', _, hr => by
    rw [decFixedItemsC] at hr ⊢
    cases hr
    simp [cost_pure]
  | it :: its, dr, vs, dr', hg, hr => by
    rw [decFixedItemsC] at hr ⊢
    rw [res_bind_ok (a := ()) rfl] at hr
    rw [cost_bind_ok (a := ()) rfl, cost_tick]
    obtain ⟨⟨x, d1⟩, h1, hr, hc1⟩ := bind_ok_inv hr
    rw [hc1]
    dsimp only at hr ⊢
    obtain ⟨⟨xs, d2⟩, h2, hr, hc2⟩ := bind_ok_inv hr
    rw [hc2]
    dsimp only at hr ⊢
    obtain ⟨b1, b2, b3⟩ := fixedItemsG_ok pre size hc its d1 xs d2 (fun j hj => hg j (by simp [hj])) h2
    cases hr
    obtain ⟨a1, a2, a3, a4⟩ := inSubG_ok (hg it (by simp)) hc h1
    rw [cost_pure]
    have e2 : r * d1.avail.length + r * size = r * dr.avail.length := by rw [← Nat.mul_add, a2]
    have e3 : (pre + 96) * (its.length + 1) = (pre + 96) * its.length + (pre + 96) := Nat.mul_succ _ _
    have e4 : (its.length + 1) * size = its.length * size + size := by rw [Nat.add_mul, Nat.one_mul]
    simp only [List.length_cons]
    refine ⟨by omega, by omega, by omega⟩

theorem fixedItemsG_any {e : Ty} {r F : Nat} (pre size : Nat)
    (hc : e.isFixed = true → size = e.fixedSize) :
    ∀ (items : List DesC) (dr : DR), (∀ it ∈ items, Good e r F it.run) →
    (decFixedItemsC pre size items dr).cost ≤
      (pre + 96) * items.length + r * dr.avail.length + r * dr.scope + F
  | [], dr, _ => by rw [decFixedItemsC, cost_pure]; omega
  | it :: its, dr, hg => by
    rw [decFixedItemsC]
    rw [cost_bind_ok (a := ()) rfl, cost_tick]
    have hA := inSubG_any (hg it (by simp)) dr size
    have e3 : (pre + 96) * (its.length + 1) = (pre + 96) * its.length + (pre + 96) := Nat.mul_succ _ _
    simp only [List.length_cons]
    cases h1 : (dr.inSubC size it.run).res with
    | error err => rw [cost_bind_err h1]; omega
    | ok p =>
      obtain ⟨x, d1⟩ := p
      rw [cost_bind_ok h1]
      dsimp only
      obtain ⟨a1, a2, a3, a4⟩ := inSubG_ok (hg it (by simp)) hc h1
      have hrest := fixedItemsG_any pre size hc its d1 (fun j hj => hg j (by simp [hj]))
      rw [a3] at hrest
      have e2 : r * d1.avail.length + r * size = r * dr.avail.length := by rw [← Nat.mul_add, a2]
      rw [cost_bind_zero _ _ (fun _ => rfl)]
      omega

/-! ### offset-delimited items (`Vector`, `List`, variable-size branch) -/

theorem not_fixed_elim {e : Ty} {count : Nat} (hv : e.isFixed = false) :
    e.isFixed = true → count = e.fixedSize := by
  intro h; rw [hv] at h; cases h

theorem offsetItemsG_ok {e : Ty} {r F : Nat} (hv : e.isFixed = false) (pre : Nat) (vec : Bool) (S : Nat) :
    ∀ (offs : List Nat) (items : List DesC) (prev : Nat) (dr : DR) (vs : List Val) (dr' : DR),
    (∀ it ∈ items, Good e r F it.run) →
    (decOffsetItemsC pre vec S prev offs items dr).res = .ok (vs, dr') →
    dr'.avail.length ≤ dr.avail.length ∧ dr'.scope = dr.scope ∧
      (decOffsetItemsC pre vec S prev offs items dr).cost + r * dr'.avail.length ≤
        (pre + 96) * offs.length + r * dr.avail.length
  | [], items, prev, dr, vs, dr', _, hr => by
    rw [decOffsetItemsC] at hr ⊢
    cases hr
    simp [cost_pure]
  | _ :: _, [], prev, dr, vs, dr', _, hr => by
    rw [decOffsetItemsC] at hr
    cases hr
  | off :: rest, it :: its, prev, dr, vs, dr', hg, hr => by
    rw [decOffsetItemsC] at hr ⊢
    by_cases c1 : prev > off
    · rw [if_pos c1] at hr; cases hr
    rw [if_neg c1] at hr ⊢
    rw [res_bind_ok (a := ()) rfl] at hr
    rw [cost_bind_ok (a := ()) rfl, cost_tick]
    dsimp only at hr ⊢
    by_cases c2 : rest.headD S < off
    · rw [if_pos c2] at hr; cases hr
    rw [if_neg c2] at hr ⊢
    obtain ⟨⟨x, d1⟩, h1, hr, hc1⟩ := bind_ok_inv hr
    rw [hc1]
    dsimp only at hr ⊢
    obtain ⟨⟨xs, d2⟩, h2, hr, hc2⟩ := bind_ok_inv hr
    rw [hc2]
    dsimp only at hr ⊢
    obtain ⟨b1, b2, b3⟩ := offsetItemsG_ok hv pre vec S rest its _ d1 xs d2
      (fun j hj => hg j (by simp [hj])) h2
    cases hr
    obtain ⟨a1, a2, a3, a4⟩ := inSubG_ok (hg it (by simp)) (not_fixed_elim hv) h1
    rw [cost_pure]
    have e2 : r * d1.avail.length + r * (rest.headD S - off) = r * dr.avail.length := by
      rw [← Nat.mul_add, a2]
    have e3 : (pre + 96) * (rest.length + 1) = (pre + 96) * rest.length + (pre + 96) := Nat.mul_succ _ _
    simp only [List.length_cons]
    refine ⟨by omega, by omega, by omega⟩

theorem offsetItemsG_any {e : Ty} {r F : Nat} (hv : e.isFixed = false) (pre : Nat) (vec : Bool) (S : Nat) :
    ∀ (offs : List Nat) (items : List DesC) (prev : Nat) (dr : DR),
    (∀ it ∈ items, Good e r F it.run) →
    (decOffsetItemsC pre vec S prev offs items dr).cost ≤
      (pre + 96) * offs.length + r * dr.avail.length + r * dr.scope + F
  | [], items, prev, dr, _ => by rw [decOffsetItemsC, cost_pure]; omega
  | _ :: _, [], prev, dr, _ => by rw [decOffsetItemsC, cost_fail]; omega
  | off :: rest, it :: its, prev, dr, hg => by
    rw [decOffsetItemsC]
    have e3 : (pre + 96) * (rest.length + 1) = (pre + 96) * rest.length + (pre + 96) := Nat.mul_succ _ _
    simp only [List.length_cons]
    by_cases c1 : prev > off
    · rw [if_pos c1, cost_fail]; omega
    rw [if_neg c1]
    rw [cost_bind_ok (a := ()) rfl, cost_tick]
    by_cases c2 : rest.headD S < off
    · rw [if_pos c2, cost_fail]; omega
    rw [if_neg c2]
    have hA := inSubG_any (hg it (by simp)) dr (rest.headD S - off)
    cases h1 : (dr.inSubC (rest.headD S - off) it.run).res with
    | error err => rw [cost_bind_err h1]; omega
    | ok p =>
      obtain ⟨x, d1⟩ := p
      rw [cost_bind_ok h1]
      dsimp only
      obtain ⟨a1, a2, a3, a4⟩ := inSubG_ok (hg it (by simp)) (not_fixed_elim hv) h1
      have hrest := offsetItemsG_any hv pre vec S rest its (if vec = true then rest.headD S else off) d1
        (fun j hj => hg j (by simp [hj]))
      rw [a3] at hrest
      have e2 : r * d1.avail.length + r * (rest.headD S - off) = r * dr.avail.length := by
        rw [← Nat.mul_add, a2]
      rw [cost_bind_zero _ _ (fun _ => rfl)]
      omega

end ZtypV.FlatCostProofs
