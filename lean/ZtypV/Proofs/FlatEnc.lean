/-
C09 (flat codec, encoder half): the composition of the `codec.EncodingWriter` helpers by the
recipe of harness/flat.go (`flatEncode`) writes exactly the SSZ spec bytes, never errs or panics
(no `WriteOffset` overflow) as long as the encoding is shorter than 2^32 bytes, and the reported
`ByteLength()` (`flatByteLength`) is the encoded length.  Core Lean only.
-/
import ZtypV.Proofs.Flat
import ZtypV.Proofs.SerSize
import ZtypV.Proofs.Bitfields
namespace ZtypV.FlatProofs
open ZtypV ZtypV.View ZtypV.Flat ZtypV.DecodeProofs

/-! ### generic facts about the encoder helpers (abstract `Serializable`s) -/

/-- the item writes `p` and reports its length -/
def SerOK (s : Ser) (p : Bytes) : Prop := s.run = .ok p ∧ s.byteLength = p.length

/-- the container field writes `p.2`, reports its length, and its `FixedLength()` agrees with
    the spec's fixed/variable flag `p.1` -/
def FieldOK (s : Ser) (p : Bool × Bytes) : Prop :=
  s.run = .ok p.2 ∧ s.byteLength = p.2.length ∧
    (p.1 = true → s.fixedLength = p.2.length ∧ s.fixedLength ≠ 0) ∧
    (p.1 = false → s.fixedLength = 0)

/-- pointwise relation between two lists (core has no `List.Forall₂`) -/
inductive EncAll₂ {α β : Type} (r : α → β → Prop) : List α → List β → Prop
  | nil : EncAll₂ r [] []
  | cons {a : α} {b : β} {as : List α} {bs : List β} : r a b → EncAll₂ r as bs → EncAll₂ r (a :: as) (b :: bs)

theorem EncAll₂.length_eq {α β : Type} {r : α → β → Prop} {as : List α} {bs : List β}
    (h : EncAll₂ r as bs) : as.length = bs.length := by
  induction h with
  | nil => rfl
  | cons _ _ ih => simp [ih]

theorem writeOffset_ok {prev size : Nat} (h : prev + size < 2 ^ 32) :
    writeOffset prev size = .ok (prev + size) := by
  unfold writeOffset
  rw [if_neg (by omega)]

theorem encItems_ok {items : List Ser} {ps : List Bytes} (h : EncAll₂ SerOK items ps) :
    encItems items = .ok ps.flatten := by
  induction h with
  | nil => rfl
  | cons h1 _ ih =>
    rw [encItems, h1.1, R.bind_ok, ih, R.bind_ok, List.flatten_cons]

/-- the offsets loop of `EncodingWriter.List`: invariant `prevOffset + prevSize = start` -/
theorem encOffsets_ok {items : List Ser} {ps : List Bytes} (h : EncAll₂ SerOK items ps) :
    ∀ (po psz start : Nat), po + psz = start → start + ps.flatten.length < 2 ^ 32 →
      encOffsets po psz items = .ok (offsetsOf start ps).flatten := by
  induction h with
  | nil => intro _ _ _ _ _; rfl
  | @cons s p its ps h1 _ ih =>
    intro po psz start hs hb
    rw [List.flatten_cons, List.length_append] at hb
    rw [encOffsets, writeOffset_ok (by omega), R.bind_ok,
      ih (po + psz) s.byteLength (start + p.length) (by rw [h1.2, hs]) (by omega), R.bind_ok,
      offsetsOf, List.flatten_cons, hs]

theorem encList_fixed_ok {items : List Ser} {ps : List Bytes} (h : EncAll₂ SerOK items ps)
    {fix : Nat} (hfix : fix ≠ 0) : encList items fix = .ok ps.flatten := by
  rw [encList, if_neg hfix, R.bind_ok, encItems_ok h]
  rfl

theorem encList_var_ok {items : List Ser} {ps : List Bytes} (h : EncAll₂ SerOK items ps)
    (hb : (serVarParts ps).length < 2 ^ 32) : encList items 0 = .ok (serVarParts ps) := by
  rw [serVarParts_length] at hb
  rw [encList, if_pos rfl, h.length_eq, encOffsets_ok h (4 * ps.length) 0 (4 * ps.length) rfl hb,
    R.bind_ok, encItems_ok h]
  rfl

theorem serFixedLen_eq {fields : List Ser} {parts : List (Bool × Bytes)}
    (h : EncAll₂ FieldOK fields parts) : serFixedLen fields = fixedPartLen parts := by
  induction h with
  | nil => rfl
  | @cons f p fs ps h1 _ ih =>
    obtain ⟨fx, bs⟩ := p
    cases fx
    · rw [serFixedLen, fixedPartLen, ih, if_neg (by simp [h1.2.2.2 rfl])]; rfl
    · have := h1.2.2.1 rfl
      rw [serFixedLen, fixedPartLen, ih, if_pos this.2, this.1]; rfl

/-- first loop of `EncodingWriter.Container`: invariant `prevOffset + prevSize = start` -/
theorem encContainerFixed_ok {fields : List Ser} {parts : List (Bool × Bytes)}
    (h : EncAll₂ FieldOK fields parts) :
    ∀ (po psz start : Nat), po + psz = start → start + (serVarPart parts).length < 2 ^ 32 →
      encContainerFixed po psz fields = .ok (serFixedPart start parts) := by
  induction h with
  | nil => intro _ _ _ _ _; rfl
  | @cons f p fs ps h1 _ ih =>
    intro po psz start hs hb
    obtain ⟨fx, bs⟩ := p
    cases fx
    · have h0 : f.fixedLength = 0 := h1.2.2.2 rfl
      rw [serVarPart, List.length_append] at hb
      rw [encContainerFixed, if_neg (by simp [h0]), writeOffset_ok (by omega), R.bind_ok,
        ih (po + psz) f.byteLength (start + bs.length) (by rw [h1.2.1, hs]) (by omega), R.bind_ok,
        serFixedPart, hs]
    · have h0 := (h1.2.2.1 rfl).2
      rw [serVarPart] at hb
      rw [encContainerFixed, if_pos h0, h1.1, R.bind_ok, ih po psz start hs hb, R.bind_ok,
        serFixedPart]

theorem encContainerDyn_ok {fields : List Ser} {parts : List (Bool × Bytes)}
    (h : EncAll₂ FieldOK fields parts) : encContainerDyn fields = .ok (serVarPart parts) := by
  induction h with
  | nil => rfl
  | @cons f p fs ps h1 _ ih =>
    obtain ⟨fx, bs⟩ := p
    cases fx
    · rw [encContainerDyn, if_pos (h1.2.2.2 rfl), h1.1, R.bind_ok, ih, R.bind_ok, serVarPart]
    · rw [encContainerDyn, if_neg (h1.2.2.1 rfl).2, ih, serVarPart]

theorem serVarPart_of_all {fields : List Ser} {parts : List (Bool × Bytes)}
    (h : EncAll₂ FieldOK fields parts)
    (hall : fields.all (fun f => f.fixedLength ≠ 0) = true) : serVarPart parts = [] := by
  induction h with
  | nil => rfl
  | @cons f p fs ps h1 _ ih =>
    obtain ⟨fx, bs⟩ := p
    rw [List.all_cons, Bool.and_eq_true] at hall
    cases fx
    · have h0 : f.fixedLength = 0 := h1.2.2.2 rfl
      simp [h0] at hall
    · rw [serVarPart]; exact ih hall.2

theorem encContainer_ok {fields : List Ser} {parts : List (Bool × Bytes)}
    (h : EncAll₂ FieldOK fields parts) (hb : (serContainerParts parts).length < 2 ^ 32) :
    encContainer fields = .ok (serContainerParts parts) := by
  rw [serContainerParts_length] at hb
  rw [encContainer, serFixedLen_eq h,
    encContainerFixed_ok h (fixedPartLen parts) 0 (fixedPartLen parts) rfl hb, R.bind_ok]
  by_cases hall : fields.all (fun f => f.fixedLength ≠ 0) = true
  · rw [if_pos hall, R.bind_ok, serContainerParts, serVarPart_of_all h hall]
  · rw [if_neg hall, encContainerDyn_ok h, R.bind_ok, serContainerParts]

/-- `FixedLenContainer`: all fields fixed-size -/
theorem encItems_fields_ok {fields : List Ser} {parts : List (Bool × Bytes)}
    (h : EncAll₂ FieldOK fields parts) (hfx : ∀ x ∈ parts, x.1 = true) :
    ∀ off, encItems fields = .ok (serFixedPart off parts) := by
  induction h with
  | nil => intro _; rfl
  | @cons f p fs ps h1 _ ih =>
    intro off
    obtain ⟨fx, bs⟩ := p
    have : fx = true := hfx (fx, bs) List.mem_cons_self
    subst this
    rw [encItems, h1.1, R.bind_ok, ih (fun x hx => hfx x (List.mem_cons_of_mem _ hx)) off,
      R.bind_ok, serFixedPart]

/-- `codec.ContainerLength` -/
theorem containerLength_eq {fields : List Ser} {parts : List (Bool × Bytes)}
    (h : EncAll₂ FieldOK fields parts) :
    containerLength fields = fixedPartLen parts + (serVarPart parts).length := by
  induction h with
  | nil => rfl
  | @cons f p fs ps h1 _ ih =>
    obtain ⟨fx, bs⟩ := p
    cases fx
    · rw [containerLength, if_pos (h1.2.2.2 rfl), ih, h1.2.1, fixedPartLen, serVarPart,
        List.length_append]
      simp only [Bool.false_eq_true, if_false]
      omega
    · have := h1.2.2.1 rfl
      rw [containerLength, if_neg this.2, ih, this.1, fixedPartLen, serVarPart]
      simp only [if_true]
      omega

/-- `codec.Sum` over fixed-size fields -/
theorem sumLength_eq {fields : List Ser} {parts : List (Bool × Bytes)}
    (h : EncAll₂ FieldOK fields parts) (hfx : ∀ x ∈ parts, x.1 = true) :
    sumLength fields = fixedPartLen parts := by
  induction h with
  | nil => rfl
  | @cons f p fs ps h1 _ ih =>
    obtain ⟨fx, bs⟩ := p
    have : fx = true := hfx (fx, bs) List.mem_cons_self
    subst this
    rw [sumLength, ih (fun x hx => hfx x (List.mem_cons_of_mem _ hx)), h1.2.1, fixedPartLen]
    simp only [if_true]

/-! ### the flat value -/

/-- what the main theorem says about one type/value pair -/
def EncOK (t : Ty) (v : Val) : Prop :=
  flatEncode t v = .ok (serialize t v) ∧ flatByteLength t v = (serialize t v).length

/-- induction predicate over values -/
def EncGood (v : Val) : Prop :=
  ∀ t : Ty, t.wf = true → hasType t v = true → (serialize t v).length < 2 ^ 32 → EncOK t v

theorem enc_hasType_none (t : Ty) : hasType t Val.none = false := by
  cases t <;> simp [hasType]

theorem enc_unionOpt_mem {hn : Bool} {opts : List Ty} {sel : Nat} {t : Ty}
    (h : unionOpt hn opts sel = some t) : t ∈ opts := by
  unfold unionOpt at h
  split at h
  · split at h
    · cases h
    · exact List.mem_of_getElem? h
  · exact List.mem_of_getElem? h

theorem flatSumLength_eq : ∀ (fs : List Ty) (vs : List Val),
    flatSumLength fs vs = sumLength (flatFieldSers fs vs) := by
  intro fs
  induction fs with
  | nil => intro vs; cases vs <;> simp [flatSumLength, flatFieldSers, sumLength]
  | cons t ts ih =>
    intro vs
    cases vs with
    | nil => simp [flatSumLength, flatFieldSers, sumLength]
    | cons v vs => simp [flatSumLength, flatFieldSers, sumLength, ih vs]

theorem flatContainerLength_eq : ∀ (fs : List Ty) (vs : List Val),
    flatContainerLength fs vs = containerLength (flatFieldSers fs vs) := by
  intro fs
  induction fs with
  | nil => intro vs; cases vs <;> simp [flatContainerLength, flatFieldSers, containerLength]
  | cons t ts ih =>
    intro vs
    cases vs with
    | nil => simp [flatContainerLength, flatFieldSers, containerLength]
    | cons v vs => simp [flatContainerLength, flatFieldSers, containerLength, ih vs]

theorem flatSers_ok (e : Ty) : ∀ (vs : List Val), (∀ v ∈ vs, EncOK e v) →
    EncAll₂ SerOK (flatSers e vs) (serList e vs) := by
  intro vs
  induction vs with
  | nil => intro _; rw [flatSers, serList]; exact .nil
  | cons v vs ih =>
    intro h
    rw [flatSers, serList]
    exact .cons (h v List.mem_cons_self) (ih (fun w hw => h w (List.mem_cons_of_mem _ hw)))

theorem flatVarLength_eq (e : Ty) : ∀ (vs : List Val), (∀ v ∈ vs, EncOK e v) →
    flatVarLength e vs = 4 * vs.length + (serList e vs).flatten.length := by
  intro vs
  induction vs with
  | nil => intro _; simp [flatVarLength, serList]
  | cons v vs ih =>
    intro h
    rw [flatVarLength, serList, List.flatten_cons, List.length_append, List.length_cons,
      ih (fun w hw => h w (List.mem_cons_of_mem _ hw)), (h v List.mem_cons_self).2]
    omega

theorem flatFieldSers_ok : ∀ (fs : List Ty) (vs : List Val), Ty.wfAll fs = true →
    fieldsHaveType fs vs = true → (∀ v ∈ vs, EncGood v) →
    (∀ x ∈ serFields fs vs, x.2.length < 2 ^ 32) →
    EncAll₂ FieldOK (flatFieldSers fs vs) (serFields fs vs) := by
  intro fs
  induction fs with
  | nil =>
    intro vs _ ht _ _
    cases vs with
    | nil => simp only [flatFieldSers, serFields]; exact .nil
    | cons v vs => simp [fieldsHaveType] at ht
  | cons t ts ih =>
    intro vs hw ht hg hb
    cases vs with
    | nil => simp [fieldsHaveType] at ht
    | cons v vs =>
      simp only [fieldsHaveType, Bool.and_eq_true] at ht
      simp only [Ty.wfAll, Bool.and_eq_true] at hw
      rw [serFields] at hb
      rw [flatFieldSers, serFields]
      have hok := hg v List.mem_cons_self t hw.1 ht.1 (hb _ List.mem_cons_self)
      refine .cons ⟨hok.1, hok.2, ?_, ?_⟩
        (ih vs hw.2 ht.2 (fun w hw => hg w (List.mem_cons_of_mem _ hw))
          (fun x hx => hb x (List.mem_cons_of_mem _ hx)))
      · intro hf
        have hf' : t.isFixed = true := hf
        have h1 := flatFixedLength_fixed hw.1 hf'
        have h2 := serialize_fixed_length v t hf' ht.1
        have h3 := fixedSize_pos hw.1 hf'
        show flatFixedLength t = (serialize t v).length ∧ flatFixedLength t ≠ 0
        omega
      · intro hf
        exact flatFixedLength_var hw.1 hf

theorem enc_serFields_flags : ∀ (fs : List Ty) (vs : List Val), Ty.allFixed fs = true →
    ∀ x ∈ serFields fs vs, x.1 = true := by
  intro fs
  induction fs with
  | nil => intro vs _ x hx; cases vs <;> simp [serFields] at hx
  | cons t ts ih =>
    intro vs h x hx
    cases vs with
    | nil => simp [serFields] at hx
    | cons v vs =>
      simp only [Ty.allFixed, Bool.and_eq_true] at h
      rw [serFields] at hx
      rcases List.mem_cons.mp hx with rfl | hx
      · exact h.1
      · exact ih vs h.2 x hx

theorem enc_serialize_mem_serList (e : Ty) : ∀ (vs : List Val) (v : Val), v ∈ vs →
    serialize e v ∈ serList e vs := by
  intro vs
  induction vs with
  | nil => intro v hv; cases hv
  | cons a vs ih =>
    intro v hv
    rw [serList]
    rcases List.mem_cons.mp hv with rfl | hv
    · exact List.mem_cons_self
    · exact List.mem_cons_of_mem _ (ih v hv)

theorem enc_chunkOf_eq_self {bs : Bytes} (h : bs.length = 32) : chunkOf bs = bs := by
  rw [chunkOf_of_ge bs (by omega), List.take_of_length_le (by omega)]

/-- the `[]byte` route (`uint8` elements) -/
theorem enc_u8_route : ∀ (vs : List Val), allHaveType (.uint 1) vs = true →
    (serList (.uint 1) vs).flatten = vs.map byteOfVal := by
  intro vs
  induction vs with
  | nil => intro _; rfl
  | cons v vs ih =>
    intro h
    simp only [allHaveType, Bool.and_eq_true] at h
    obtain ⟨h1, h2⟩ := h
    cases v <;> simp [hasType] at h1
    rename_i n
    simp [serList, serialize, leBytes, byteOfVal, ih h2, Nat.mod_eq_of_lt h1]

/-- the `[]tree.Root` route (`Bytes32` elements) -/
theorem enc_root_route : ∀ (vs : List Val), allHaveType (.bytesN 32) vs = true →
    (vs.map rootOfVal).flatten = (serList (.bytesN 32) vs).flatten ∧
      (serList (.bytesN 32) vs).flatten.length = vs.length * 32 := by
  intro vs
  induction vs with
  | nil => intro _; exact ⟨rfl, rfl⟩
  | cons v vs ih =>
    intro h
    simp only [allHaveType, Bool.and_eq_true] at h
    obtain ⟨h1, h2⟩ := h
    cases v <;> simp [hasType] at h1
    rename_i bs
    obtain ⟨i1, i2⟩ := ih h2
    constructor
    · simp [serList, serialize, rootOfVal, bytesOfVal, enc_chunkOf_eq_self h1, i1]
    · simp [serList, serialize, i2, h1]; omega

/-- vectors and lists: the three routes of harness/flat.go against the spec's series layout -/
theorem enc_series_ok (e : Ty) (vs : List Val) (hwe : e.wf = true) (hall : allHaveType e vs = true)
    (ih : ∀ v ∈ vs, EncGood v)
    (hb : (if e.isFixed then (serList e vs).flatten else serVarParts (serList e vs)).length
      < 2 ^ 32) :
    (if isU8 e then (.ok (vs.map byteOfVal) : R Bytes)
      else if isRootTy e then writeRoots (vs.map rootOfVal)
      else encList (flatSers e vs) (flatFixedLength e))
      = .ok (if e.isFixed then (serList e vs).flatten else serVarParts (serList e vs)) ∧
    (if isU8 e then vs.length
      else if isRootTy e then vs.length * 32
      else if flatFixedLength e ≠ 0 then vs.length * flatFixedLength e
      else flatVarLength e vs)
      = (if e.isFixed then (serList e vs).flatten else serVarParts (serList e vs)).length := by
  by_cases h8 : isU8 e = true
  · rw [if_pos h8, if_pos h8]
    have := isU8_iff.mp h8
    subst this
    rw [if_pos (by simp [Ty.isFixed]), enc_u8_route vs hall]
    simp
  rw [if_neg h8, if_neg h8]
  by_cases hr : isRootTy e = true
  · rw [if_pos hr, if_pos hr]
    have := isRootTy_iff.mp hr
    subst this
    obtain ⟨i1, i2⟩ := enc_root_route vs hall
    rw [if_pos (by simp [Ty.isFixed]), writeRoots, i1, i2]
    exact ⟨rfl, rfl⟩
  rw [if_neg hr, if_neg hr]
  have hle : (serList e vs).flatten.length ≤
      (if e.isFixed then (serList e vs).flatten else serVarParts (serList e vs)).length := by
    split
    · exact Nat.le_refl _
    · rw [serVarParts_length]; omega
  have hok : ∀ v ∈ vs, EncOK e v := by
    intro v hv
    have h1 := mem_le_flatten_length _ _ (enc_serialize_mem_serList e vs v hv)
    exact ih v hv e hwe (allHaveType_mem e vs hall v hv) (by omega)
  have hS := flatSers_ok e vs hok
  by_cases hf : e.isFixed = true
  · rw [if_pos hf] at hb ⊢
    have hfix : flatFixedLength e ≠ 0 := (flatFixedLength_ne_zero_iff hwe).mpr hf
    rw [if_pos hfix, encList_fixed_ok hS hfix, flatFixedLength_fixed hwe hf,
      flatten_uniform_length e.fixedSize (serList e vs), serList_length]
    · exact ⟨rfl, rfl⟩
    · intro l hl
      obtain ⟨w, hw, rfl⟩ := mem_serList e vs l hl
      exact serialize_fixed_length w e hf (allHaveType_mem e vs hall w hw)
  · rw [if_neg hf] at hb ⊢
    have h0 : flatFixedLength e = 0 := flatFixedLength_var hwe (by simpa using hf)
    rw [h0, if_neg (by simp), encList_var_ok hS hb, flatVarLength_eq e vs hok, serVarParts_length,
      serList_length]
    exact ⟨rfl, rfl⟩

theorem flatEncode_union {hn : Bool} {opts : List Ty} {sel : Nat} {v : Val} {t' : Ty}
    (hne : v ≠ Val.none) (ho : unionOpt hn opts sel = some t') :
    flatEncode (.union hn opts) (.union sel v) = encUnion (UInt8.ofNat sel)
      (some ⟨flatEncode t' v, flatByteLength t' v, flatFixedLength t'⟩) := by
  cases v <;> first | exact absurd rfl hne | (rw [flatEncode] <;> first | (intro h; cases h) | simp only [ho])

theorem flatByteLength_union {hn : Bool} {opts : List Ty} {sel : Nat} {v : Val} {t' : Ty}
    (hne : v ≠ Val.none) (ho : unionOpt hn opts sel = some t') :
    flatByteLength (.union hn opts) (.union sel v) = 1 + flatByteLength t' v := by
  cases v <;> first | exact absurd rfl hne | (rw [flatByteLength] <;> first | (intro h; cases h) | simp only [ho])

theorem enc_container_ok (fs : List Ty) (vs : List Val) (hw : Ty.wfAll fs = true)
    (ht : fieldsHaveType fs vs = true) (ih : ∀ v ∈ vs, EncGood v)
    (hlen : (serContainerParts (serFields fs vs)).length < 2 ^ 32) :
    (if Ty.allFixed fs then encFixedLenContainer (flatFieldSers fs vs)
      else encContainer (flatFieldSers fs vs)) = .ok (serContainerParts (serFields fs vs)) ∧
    (if Ty.allFixed fs then flatSumLength fs vs else flatContainerLength fs vs)
      = (serContainerParts (serFields fs vs)).length := by
  have hb : ∀ x ∈ serFields fs vs, x.2.length < 2 ^ 32 := by
    intro x hx
    have := part_le_serContainerParts _ x hx
    rw [serContainerParts_length] at hlen
    omega
  have hF := flatFieldSers_ok fs vs hw ht ih hb
  by_cases hall : Ty.allFixed fs = true
  · have hfl := enc_serFields_flags fs vs hall
    rw [if_pos hall, if_pos hall, encFixedLenContainer,
      encItems_fields_ok hF hfl (fixedPartLen (serFields fs vs)), flatSumLength_eq,
      sumLength_eq hF hfl, serContainerParts_length, serContainerParts,
      serVarPart_allFixed fs vs hall, List.append_nil]
    exact ⟨rfl, rfl⟩
  · rw [if_neg hall, if_neg hall, encContainer_ok hF hlen, flatContainerLength_eq,
      containerLength_eq hF, serContainerParts_length]
    exact ⟨rfl, rfl⟩

theorem encGood_all : ∀ v : Val, EncGood v := by
  intro v
  induction v using Val.induct with
  | num n =>
    intro t hw ht hlen
    cases t <;> try (simp [hasType] at ht; done)
    simp [EncOK, flatEncode, flatByteLength, serialize]
  | bool b =>
    intro t hw ht hlen
    cases t <;> try (simp [hasType] at ht; done)
    simp [EncOK, flatEncode, flatByteLength, serialize]
  | bytes bs =>
    intro t hw ht hlen
    cases t <;> try (simp [hasType] at ht; done)
    rename_i k
    simp only [hasType, beq_iff_eq] at ht
    simp only [EncOK, flatEncode, flatByteLength, serialize]
    refine ⟨?_, ht.symm⟩
    split
    · rename_i h32; rw [enc_chunkOf_eq_self (by omega)]
    · rfl
  | bits bs =>
    intro t hw ht hlen
    cases t <;> try (simp [hasType] at ht; done)
    · rename_i k
      simp only [hasType, beq_iff_eq] at ht
      simp only [Ty.wf, decide_eq_true_eq] at hw
      simp only [EncOK, flatEncode, flatByteLength, serialize, encBitVector, packBits_length]
      rw [if_neg (by omega), ht]
      exact ⟨rfl, rfl⟩
    · rename_i lim
      obtain ⟨h1, h2, _⟩ := ZtypV.Bitfields.bitlist_shape bs
      simp only [EncOK, flatEncode, flatByteLength, serialize, encBitList]
      rw [if_neg]
      · exact ⟨rfl, trivial⟩
      · intro hc
        rcases hc with hc | hc
        · omega
        · exact h2 hc
  | seq vs ih =>
    intro t hw ht hlen
    cases t <;> try (simp [hasType] at ht; done)
    · rename_i e k
      simp only [hasType, Bool.and_eq_true, beq_iff_eq] at ht
      simp only [Ty.wf, Bool.and_eq_true] at hw
      simp only [serialize] at hlen
      have := enc_series_ok e vs hw.2 ht.2 ih hlen
      simp only [EncOK, flatEncode, flatByteLength, serialize]
      rw [← ht.1]
      exact this
    · rename_i e lim
      simp only [hasType, Bool.and_eq_true] at ht
      simp only [Ty.wf] at hw
      simp only [serialize] at hlen
      have := enc_series_ok e vs hw ht.2 ih hlen
      simp only [EncOK, flatEncode, flatByteLength, serialize]
      exact this
    · rename_i fs
      simp only [hasType] at ht
      simp only [Ty.wf, Bool.and_eq_true] at hw
      simp only [serialize] at hlen
      have := enc_container_ok fs vs hw.2 ht ih hlen
      simp only [EncOK, flatEncode, flatByteLength, serialize]
      exact this
  | none =>
    intro t hw ht hlen
    rw [enc_hasType_none] at ht
    cases ht
  | union sel v ih =>
    intro t hw ht hlen
    cases t <;> try (simp [hasType] at ht; done)
    rename_i hn opts
    simp only [Ty.wf, Bool.and_eq_true] at hw
    simp only [hasType] at ht
    simp only [serialize] at hlen
    unfold EncOK
    simp only [serialize]
    cases ho : unionOpt hn opts sel with
    | none =>
      rw [ho] at ht
      cases v <;> simp at ht
      obtain ⟨rfl, rfl⟩ := ht
      simp [flatEncode, flatByteLength, encUnion]
    | some t' =>
      rw [ho] at ht hlen
      simp only [List.length_cons] at hlen
      dsimp only at ht
      have hne : v ≠ Val.none := by
        rintro rfl
        rw [enc_hasType_none] at ht
        cases ht
      have hok := ih t' (wfAll_mem opts hw.1.2 t' (enc_unionOpt_mem ho)) ht (by omega)
      rw [flatEncode_union hne ho, flatByteLength_union hne ho, encUnion]
      simp only [hok.1, hok.2, R.bind_ok, List.length_cons]
      exact ⟨trivial, by omega⟩

/-- C09 (encoder): for every well-formed type and well-typed value whose spec encoding is shorter
    than 2^32 bytes, the flat encoder composition writes exactly the SSZ spec bytes (no error, no
    `WriteOffset` panic) and `ByteLength()` is the encoded length. -/
theorem flatEncode_correct (t : Ty) (v : Val) (hw : t.wf = true) (hv : hasType t v = true)
    (hlen : (serialize t v).length < 2 ^ 32) :
    flatEncode t v = .ok (serialize t v) ∧ flatByteLength t v = (serialize t v).length :=
  encGood_all v t hw hv hlen

#print axioms ZtypV.FlatProofs.flatEncode_correct
/- observed (Lean 4.33.0):
'ZtypV.FlatProofs.flatEncode_correct' depends on axioms: [propext, Classical.choice, Quot.sound]
-/

end ZtypV.FlatProofs
