/-
C04: typed mutators on views whose slots hold element *nodes* (complex vector / list,
container, union): `hookSet`, `Set`, `Get`, `Append`, `Pop`, `Change` preserve `Rep` and agree
with the value-level operations of Model/Sim.lean, error cases included.
Only the tree-level interface of Proofs/Shape.lean is used (`shape_set`, `shape_get`,
`listShape_*`).
-/
import ZtypV.Proofs.RepMutBase
namespace ZtypV
open ZtypV.View ZtypV.Sim
namespace RepMut

/-- outcome of a mutator `r` against the value-level result `ov` -/
def MutSpec (h : HashFn) (t : Ty) (ov : Option Val) (r : R Node) : Prop :=
  match ov with
  | some v' => ∃ n', r = .ok n' ∧ Rep h t v' n' ∧ hasType t v' = true
  | none => ∃ e, r = .error e ∧ e ≠ .panic

/-- outcome of the typed getter against the value-level element read -/
def GetSpec (h : HashFn) (ov : Option (Ty × Val)) (r : R (Ty × Node)) : Prop :=
  match ov with
  | some (et, x) => ∃ en, r = .ok (et, en) ∧ Rep h et x en ∧ viewFromBackingOk et en = true ∧
      hasType et x = true
  | none => ∃ e, r = .error e ∧ e ≠ .panic

theorem mutSpec_err (h : HashFn) (t : Ty) : MutSpec h t none (.error .other) :=
  ⟨.other, rfl, by decide⟩

theorem getSpec_err (h : HashFn) : GetSpec h none (.error .other) :=
  ⟨.other, rfl, by decide⟩

theorem subtreeSet_of {h : HashFn} {n n' : Node} {d i : Nat} {p : List Bool} {x : Node}
    (hp : toPath i d = .ok p) (hs : setNode h n p false x = .ok n') :
    subtreeSet h n d i x = .ok n' := by
  simp only [subtreeSet, hp, R.bind_ok, hs]

theorem viewDepth_vector_complex {e : Ty} (k : Nat) (hbe : isBasicElem e = false) :
    viewDepth (.vector e k) = coverDepth k := by simp [viewDepth, seriesDepth, hbe]

theorem viewDepth_list_complex {e : Ty} (lim : Nat) (hbe : isBasicElem e = false) :
    viewDepth (.list e lim) = coverDepth lim + 1 := by simp [viewDepth, seriesDepth, hbe]

/-! ### parent-side write-back (`hookSet`) -/

theorem hookSet_vector (h : HashFn) (e : Ty) (k : Nat) (vs : List Val) (n : Node) (i : Nat)
    (x : Val) (en : Node)
    (hd : DepthOk (.vector e k)) (hbe : isBasicElem e = false)
    (ht : hasType (.vector e k) (.seq vs) = true) (hr : Rep h (.vector e k) (.seq vs) n)
    (hx : hasType e x = true) (hen : Rep h e x en) :
    MutSpec h (.vector e k) (valSet (.vector e k) (.seq vs) i x) (hookSet h (.vector e k) n i en) := by
  simp only [hasType, Bool.and_eq_true, beq_iff_eq] at ht
  simp only [Rep, hbe, Bool.false_eq_true, if_false] at hr
  obtain ⟨hlen, xs, hrl, hs⟩ := hr
  have hxl := repList_length h e vs xs hrl
  simp only [DepthOk, seriesDepth, hbe, Bool.false_eq_true, if_false] at hd
  simp only [valSet, hookSet, viewDepth_vector_complex k hbe]
  by_cases hi : i < vs.length
  · rw [if_pos hi, if_neg (by omega)]
    obtain ⟨p, n', hp, hset, hs'⟩ := shape_set h hs (by omega : i < xs.length) hd en false
    refine ⟨n', subtreeSet_of hp hset, ?_, ?_⟩
    · simp only [Rep, hbe, Bool.false_eq_true, if_false, List.length_set]
      exact ⟨hlen, _, repList_set h e x en hen vs xs i hrl, hs'⟩
    · simp only [hasType, Bool.and_eq_true, beq_iff_eq, List.length_set]
      exact ⟨ht.1, allHaveType_set e x hx vs i ht.2⟩
  · rw [if_neg hi, if_pos (by omega)]
    exact mutSpec_err h _

/-- the pieces of `Rep` of a complex list, with the length read -/
theorem rep_list_complex_inv (h : HashFn) {e : Ty} {lim : Nat} {vs : List Val} {n : Node}
    (hd : DepthOk (.list e lim)) (hbe : isBasicElem e = false)
    (hr : Rep h (.list e lim) (.seq vs) n) :
    vs.length ≤ lim ∧ coverDepth lim + 1 < 64 ∧ listLength n lim = .ok vs.length ∧
      ∃ xs, xs.length = vs.length ∧ RepList h e vs xs ∧ ListShape h (coverDepth lim) n xs vs.length := by
  simp only [Rep, hbe, Bool.false_eq_true, if_false] at hr
  obtain ⟨hlen, xs, hrl, hs⟩ := hr
  simp only [DepthOk, seriesDepth, hbe, Bool.false_eq_true, if_false] at hd
  exact ⟨hlen, hd.2, listShape_length h hs hlen (by omega), xs, repList_length h e vs xs hrl, hrl, hs⟩

theorem hookSet_list (h : HashFn) (e : Ty) (lim : Nat) (vs : List Val) (n : Node) (i : Nat)
    (x : Val) (en : Node)
    (hd : DepthOk (.list e lim)) (hbe : isBasicElem e = false)
    (ht : hasType (.list e lim) (.seq vs) = true) (hr : Rep h (.list e lim) (.seq vs) n)
    (hx : hasType e x = true) (hen : Rep h e x en) :
    MutSpec h (.list e lim) (valSet (.list e lim) (.seq vs) i x) (hookSet h (.list e lim) n i en) := by
  simp only [hasType, Bool.and_eq_true, decide_eq_true_eq] at ht
  obtain ⟨hlen, hdd, hll, xs, hxl, hrl, hs⟩ := rep_list_complex_inv h hd hbe hr
  simp only [valSet, hookSet, viewDepth_list_complex lim hbe, hll, R.bind_ok]
  by_cases hi : i < vs.length
  · rw [if_pos hi, if_neg (by omega), if_neg (by omega)]
    obtain ⟨p, n', hp, hset, hs'⟩ := listShape_set h hs (by omega : i < xs.length) hdd en false
    refine ⟨n', subtreeSet_of hp hset, ?_, ?_⟩
    · simp only [Rep, hbe, Bool.false_eq_true, if_false, List.length_set]
      exact ⟨hlen, _, repList_set h e x en hen vs xs i hrl, hs'⟩
    · simp only [hasType, Bool.and_eq_true, decide_eq_true_eq, List.length_set]
      exact ⟨ht.1, allHaveType_set e x hx vs i ht.2⟩
  · rw [if_neg hi, if_pos (by omega)]
    exact mutSpec_err h _

theorem slotTy_container {fs : List Ty} {i : Nat} (hi : i < fs.length) :
    slotTy (.container fs) i = fs[i] := by
  simp [slotTy, List.getElem?_eq_getElem hi]

theorem hookSet_container (h : HashFn) (fs : List Ty) (vs : List Val) (n : Node) (i : Nat)
    (x : Val) (en : Node)
    (hd : DepthOk (.container fs))
    (ht : hasType (.container fs) (.seq vs) = true) (hr : Rep h (.container fs) (.seq vs) n)
    (hx : hasType (slotTy (.container fs) i) x = true) (hen : Rep h (slotTy (.container fs) i) x en) :
    MutSpec h (.container fs) (valSet (.container fs) (.seq vs) i x)
      (hookSet h (.container fs) n i en) := by
  simp only [hasType] at ht
  simp only [Rep] at hr
  obtain ⟨xs, hrf, hs⟩ := hr
  obtain ⟨hvl, hxl⟩ := repFields_length h fs vs xs hrf
  simp only [DepthOk] at hd
  simp only [valSet, hookSet, viewDepth]
  by_cases hi : i < vs.length
  · have hif : i < fs.length := by omega
    rw [slotTy_container hif] at hx hen
    rw [if_pos hi, if_neg (by omega)]
    obtain ⟨p, n', hp, hset, hs'⟩ := shape_set h hs (by omega : i < xs.length) hd en false
    refine ⟨n', subtreeSet_of hp hset, ?_, ?_⟩
    · simp only [Rep]
      exact ⟨_, repFields_set h x en fs vs xs i hif hen hrf, hs'⟩
    · simp only [hasType]
      exact fieldsHaveType_set x fs vs i hif hx ht
  · rw [if_neg hi, if_pos (by omega)]
    exact mutSpec_err h _

/-! ### `Set` on complex slots is the hook write -/

theorem set_eq_hookSet (h : HashFn) (t : Ty) (n : Node) (i : Nat) (x : Val) (en : Node)
    (hc : packedSlot t = false) : Mut.set h t n i x en = hookSet h t n i en := by
  cases t <;> simp only [packedSlot] at hc <;> (try exact absurd hc (by decide)) <;>
    simp only [Mut.set, hookSet, hc] <;> try rfl
  all_goals simp

/-! ### `Get` -/

theorem getElem_vector_complex (h : HashFn) (e : Ty) (k : Nat) (vs : List Val) (n : Node) (i : Nat)
    (hd : DepthOk (.vector e k)) (hbe : isBasicElem e = false)
    (ht : hasType (.vector e k) (.seq vs) = true) (hr : Rep h (.vector e k) (.seq vs) n) :
    GetSpec h (valElem (.vector e k) (.seq vs) i) (getElemNode (.vector e k) n i) := by
  simp only [hasType, Bool.and_eq_true, beq_iff_eq] at ht
  simp only [Rep, hbe, Bool.false_eq_true, if_false] at hr
  obtain ⟨hlen, xs, hrl, hs⟩ := hr
  have hxl := repList_length h e vs xs hrl
  simp only [DepthOk, seriesDepth, hbe, Bool.false_eq_true, if_false] at hd
  simp only [valElem, getElemNode, viewDepth_vector_complex k hbe, hbe, Bool.false_eq_true, if_false]
  by_cases hi : i < vs.length
  · rw [List.getElem?_eq_getElem hi, if_neg (by omega),
      shape_get h hs (by omega : i < xs.length) hd]
    have hre := repList_get h e vs xs hrl i hi (by omega)
    exact ⟨xs[i], rfl, hre, rep_viewOk h e _ _ hre, allHaveType_getElem e vs ht.2 i hi⟩
  · rw [List.getElem?_eq_none (by omega), if_pos (by omega)]
    exact getSpec_err h

theorem getElem_list_complex (h : HashFn) (e : Ty) (lim : Nat) (vs : List Val) (n : Node) (i : Nat)
    (hd : DepthOk (.list e lim)) (hbe : isBasicElem e = false)
    (ht : hasType (.list e lim) (.seq vs) = true) (hr : Rep h (.list e lim) (.seq vs) n) :
    GetSpec h (valElem (.list e lim) (.seq vs) i) (getElemNode (.list e lim) n i) := by
  simp only [hasType, Bool.and_eq_true, decide_eq_true_eq] at ht
  obtain ⟨hlen, hdd, hll, xs, hxl, hrl, hs⟩ := rep_list_complex_inv h hd hbe hr
  simp only [valElem, getElemNode, viewDepth_list_complex lim hbe, hbe, Bool.false_eq_true, if_false,
    hll, R.bind_ok]
  by_cases hi : i < vs.length
  · rw [List.getElem?_eq_getElem hi, if_neg (by omega), if_neg (by omega),
      listShape_get h hs (by omega : i < xs.length) hdd]
    have hre := repList_get h e vs xs hrl i hi (by omega)
    exact ⟨xs[i], rfl, hre, rep_viewOk h e _ _ hre, allHaveType_getElem e vs ht.2 i hi⟩
  · rw [List.getElem?_eq_none (by omega), if_pos (by omega)]
    exact getSpec_err h

theorem getElem_container (h : HashFn) (fs : List Ty) (vs : List Val) (n : Node) (i : Nat)
    (hd : DepthOk (.container fs))
    (ht : hasType (.container fs) (.seq vs) = true) (hr : Rep h (.container fs) (.seq vs) n) :
    GetSpec h (valElem (.container fs) (.seq vs) i) (getElemNode (.container fs) n i) := by
  simp only [hasType] at ht
  simp only [Rep] at hr
  obtain ⟨xs, hrf, hs⟩ := hr
  obtain ⟨hvl, hxl⟩ := repFields_length h fs vs xs hrf
  simp only [DepthOk] at hd
  simp only [valElem, getElemNode, viewDepth]
  by_cases hi : i < fs.length
  · rw [List.getElem?_eq_getElem hi, List.getElem?_eq_getElem (by omega : i < vs.length)]
    simp only [shape_get h hs (by omega : i < xs.length) hd, R.bind_ok]
    have hre := repFields_get h fs vs xs hrf i hi (by omega) (by omega)
    exact ⟨xs[i], rfl, hre, rep_viewOk h _ _ _ hre, fieldsHaveType_get fs vs ht i hi (by omega)⟩
  · rw [List.getElem?_eq_none (by omega)]
    exact getSpec_err h

/-! ### `Append` / `Pop` on complex lists -/

theorem append_list_complex (h : HashFn) (e : Ty) (lim : Nat) (vs : List Val) (n : Node)
    (x : Val) (en : Node)
    (hd : DepthOk (.list e lim)) (hbe : isBasicElem e = false)
    (ht : hasType (.list e lim) (.seq vs) = true) (hr : Rep h (.list e lim) (.seq vs) n)
    (hx : hasType e x = true) (hen : Rep h e x en) :
    MutSpec h (.list e lim) (valAppend (.list e lim) (.seq vs) x)
      (Mut.append h (.list e lim) n x en) := by
  simp only [hasType, Bool.and_eq_true, decide_eq_true_eq] at ht
  obtain ⟨hlen, hdd, hll, xs, hxl, hrl, hs⟩ := rep_list_complex_inv h hd hbe hr
  simp only [valAppend, Mut.append, viewDepth_list_complex lim hbe, hbe, Bool.false_eq_true, if_false,
    hll, R.bind_ok]
  by_cases hi : vs.length < lim
  · rw [if_pos hi, if_neg (by omega)]
    have hcap : xs.length < 2 ^ coverDepth lim := by
      have := le_two_pow_coverDepth lim; omega
    obtain ⟨p, n1, hp, hset, hs1⟩ := listShape_append h hs hcap hdd en
    obtain ⟨n2, hsl, hs2⟩ := listShape_setLength h hs1 (vs.length + 1)
    rw [hxl] at hp
    refine ⟨n2, by simp only [hp, R.bind_ok, hset, hsl], ?_, ?_⟩
    · simp only [Rep, hbe, Bool.false_eq_true, if_false, List.length_append, List.length_singleton]
      exact ⟨by omega, _, repList_append h e x en hen vs xs hrl, hs2⟩
    · simp only [hasType, Bool.and_eq_true, decide_eq_true_eq, List.length_append,
        List.length_singleton]
      exact ⟨by omega, allHaveType_append e x hx vs ht.2⟩
  · rw [if_neg hi, if_pos (by omega)]
    exact mutSpec_err h _

theorem pop_list_complex (h : HashFn) (e : Ty) (lim : Nat) (vs : List Val) (n : Node)
    (hd : DepthOk (.list e lim)) (hbe : isBasicElem e = false)
    (ht : hasType (.list e lim) (.seq vs) = true) (hr : Rep h (.list e lim) (.seq vs) n) :
    MutSpec h (.list e lim) (valPop (.list e lim) (.seq vs)) (Mut.pop h (.list e lim) n) := by
  simp only [hasType, Bool.and_eq_true, decide_eq_true_eq] at ht
  obtain ⟨hlen, hdd, hll, xs, hxl, hrl, hs⟩ := rep_list_complex_inv h hd hbe hr
  simp only [valPop, Mut.pop, viewDepth_list_complex lim hbe, hbe, Bool.false_eq_true, if_false,
    hll, R.bind_ok]
  by_cases hi : vs.length = 0
  · have : vs = [] := List.eq_nil_of_length_eq_zero hi
    subst this
    simp only [List.isEmpty_nil, if_true, List.length_nil]
    exact mutSpec_err h _
  · have hne : vs ≠ [] := fun hnil => hi (by simp [hnil])
    have hxne : xs ≠ [] := fun hnil => hi (by rw [← hxl, hnil]; rfl)
    have hie : vs.isEmpty = false := by cases vs <;> simp_all
    rw [hie, if_neg hi]
    simp only [Bool.false_eq_true, if_false]
    obtain ⟨p, n1, hp, hset, hs1⟩ := listShape_pop h hs hxne hdd
    obtain ⟨n2, hsl, hs2⟩ := listShape_setLength h hs1 (vs.length - 1)
    rw [hxl] at hp
    refine ⟨n2, by simp only [hp, R.bind_ok, hset, hsl], ?_, ?_⟩
    · simp only [Rep, hbe, Bool.false_eq_true, if_false, List.length_dropLast]
      exact ⟨by omega, _, repList_dropLast h e vs xs hrl, hs2⟩
    · simp only [hasType, Bool.and_eq_true, decide_eq_true_eq, List.length_dropLast]
      exact ⟨by omega, allHaveType_dropLast e vs ht.2⟩

/-! ### `Change` on unions -/

/-- number of options in the Go sense (the None option counts) -/
def unionCount (hasNone : Bool) (opts : List Ty) : Nat := opts.length + (if hasNone then 1 else 0)

theorem unionOpt_isSome_iff (hasNone : Bool) (opts : List Ty) (sel : Nat) :
    (unionOpt hasNone opts sel).isSome = true ↔
      sel < unionCount hasNone opts ∧ ¬ (hasNone = true ∧ sel = 0) := by
  unfold unionOpt unionCount
  cases hasNone
  · simp
  · simp only [if_true]
    by_cases h0 : sel = 0
    · simp [h0]
    · simp only [if_neg h0, Option.isSome_iff_exists, List.getElem?_eq_some_iff]
      constructor
      · rintro ⟨_, hlt, _⟩; omega
      · rintro ⟨hlt, _⟩; exact ⟨_, by omega, rfl⟩

theorem unionCount_mod {hasNone : Bool} {opts : List Ty} (hw : (Ty.union hasNone opts).wf = true) :
    (opts.length + (if hasNone then 1 else 0)) % 256 = unionCount hasNone opts := by
  simp only [Ty.wf, Bool.and_eq_true, decide_eq_true_eq] at hw
  unfold unionCount
  exact Nat.mod_eq_of_lt (by omega)

/-- `Change` with a nil value -/
theorem change_union_nil (h : HashFn) (hasNone : Bool) (opts : List Ty) (sel : Nat)
    (hw : (Ty.union hasNone opts).wf = true) (hsel : sel < 256)
    (hfitA : sel = 0 → hasNone = true) :
    MutSpec h (.union hasNone opts) (valChange (.union hasNone opts) sel .none)
      (Mut.change (.union hasNone opts) sel none) := by
  have hm : Mut.change (.union hasNone opts) sel none =
      if sel ≥ unionCount hasNone opts then .error .other
      else if sel ≠ 0 then .error .other
      else .ok (.pair (.leaf z0) (.leaf (chunkOf [UInt8.ofNat sel]))) := by
    simp only [Mut.change, unionCount_mod hw, Nat.mod_eq_of_lt hsel]
  have hv : valChange (.union hasNone opts) sel .none =
      if (hasNone && sel == 0) = true then some (.union 0 .none) else none := rfl
  rw [hm, hv]
  by_cases h0 : sel = 0
  · subst h0
    have hn := hfitA rfl
    subst hn
    have hc : ¬ (0 ≥ unionCount true opts) := by unfold unionCount; simp
    rw [if_neg hc, if_neg (by simp : ¬ ((0 : Nat) ≠ 0)), if_pos (by simp : (true && (0 : Nat) == 0) = true)]
    refine ⟨_, rfl, ?_, ?_⟩
    · simp only [Rep]; exact ⟨trivial, trivial, trivial⟩
    · simp [hasType, unionOpt]
  · rw [if_neg (by simp [h0])]
    by_cases hlt : sel ≥ unionCount hasNone opts
    · rw [if_pos hlt]; exact mutSpec_err h _
    · rw [if_neg hlt, if_pos h0]; exact mutSpec_err h _

/-- `Change` with a value view -/
theorem change_union_some (h : HashFn) (hasNone : Bool) (opts : List Ty) (sel : Nat) (x : Val) (c : Node)
    (hw : (Ty.union hasNone opts).wf = true) (hsel : sel < 256) (hx : x ≠ .none)
    (hc : ∀ ot, unionOpt hasNone opts sel = some ot → hasType ot x = true ∧ Rep h ot x c)
    (hfitB : ¬ (hasNone = true ∧ sel = 0)) :
    MutSpec h (.union hasNone opts) (valChange (.union hasNone opts) sel x)
      (Mut.change (.union hasNone opts) sel (some c)) := by
  have hiff := unionOpt_isSome_iff hasNone opts sel
  have hvc : valChange (.union hasNone opts) sel x =
      if (unionOpt hasNone opts sel).isSome then some (.union sel x) else none := by
    cases x <;> first | rfl | exact absurd rfl hx
  have hm : Mut.change (.union hasNone opts) sel (some c) =
      if sel ≥ unionCount hasNone opts then .error .other
      else .ok (.pair c (.leaf (chunkOf [UInt8.ofNat sel]))) := by
    simp only [Mut.change, unionCount_mod hw, Nat.mod_eq_of_lt hsel]
  rw [hvc, hm]
  by_cases hlt : sel < unionCount hasNone opts
  · rw [if_neg (by omega : ¬ sel ≥ unionCount hasNone opts), if_pos (hiff.mpr ⟨hlt, hfitB⟩)]
    obtain ⟨ot, hot⟩ := Option.isSome_iff_exists.mp (hiff.mpr ⟨hlt, hfitB⟩)
    obtain ⟨hxt, hxr⟩ := hc ot hot
    refine ⟨_, rfl, ?_, ?_⟩
    · cases x <;> first | exact absurd rfl hx | (simp only [Rep, hot]; exact ⟨c, hxr, rfl⟩)
    · simp only [hasType, hot]; exact hxt
  · rw [if_pos (by omega : sel ≥ unionCount hasNone opts)]
    have : (unionOpt hasNone opts sel).isSome = false := by
      cases hs : (unionOpt hasNone opts sel).isSome
      · rfl
      · exact absurd (hiff.mp hs).1 hlt
    rw [this]
    exact mutSpec_err h _

/-- what Go's `Change` does not check (kept visible): a non-nil value for the None option is
    accepted, although the value model rejects it (`hfitB` above excludes this case) -/
theorem change_none_slot_accepts_value (opts : List Ty) (x : Val) (c : Node) (hx : x ≠ .none)
    (hw : (Ty.union true opts).wf = true) :
    Mut.change (.union true opts) 0 (some c) = .ok (.pair c (.leaf (chunkOf [UInt8.ofNat 0]))) ∧
      valChange (.union true opts) 0 x = none := by
  constructor
  · have := unionCount_mod hw
    simp only [unionCount] at this
    simp only [Mut.change, this]
    simp
  · cases x <;> first | rfl | exact absurd rfl hx

/-- ... and a nil value is accepted for selector 0 of a union without a None option
    (`hfitA` above excludes this case) -/
theorem change_typed_slot_accepts_nil (t : Ty) (opts : List Ty)
    (hw : (Ty.union false (t :: opts)).wf = true) :
    Mut.change (.union false (t :: opts)) 0 none =
        .ok (.pair (.leaf z0) (.leaf (chunkOf [UInt8.ofNat 0]))) ∧
      valChange (.union false (t :: opts)) 0 .none = none := by
  constructor
  · have := unionCount_mod hw
    simp only [unionCount] at this
    simp only [Mut.change, this]
    simp
  · rfl

end RepMut
end ZtypV
