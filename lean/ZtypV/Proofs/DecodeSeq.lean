/-
C03, vectors and lists: soundness and panic freedom of the decoders of `vector e k` and
`list e lim`, given the same for the element type.
-/
import ZtypV.Proofs.Offsets
namespace ZtypV.DecodeProofs
open ZtypV ZtypV.View

theorem fill_nodes_ok (h : HashFn) (ns : List Node) (m : Nat) (hm : ns.length ≤ m) :
    ∃ n, fillToContents h (coverDepth m) ns = .ok n :=
  fillToContents_ok h _ ns (Nat.le_trans hm (le_two_pow_coverDepth m))

theorem basic_is_uint {e : Ty} (hb : isBasicElem e = true) : ∃ b, e = .uint b := by
  cases e <;> simp [isBasicElem] at hb
  exact ⟨_, rfl⟩

theorem isLeafTy_false_of_not_fixed {e : Ty} (hf : ¬ e.isFixed = true) : isLeafTy e = false := by
  cases hl : isLeafTy e with
  | false => rfl
  | true => exact absurd (isFixed_of_isLeafTy hl) hf

/-! ### vector -/

theorem vector_sound {h : HashFn} {e : Ty} (he : Sound h e) (k : Nat) : Sound h (.vector e k) := by
  intro dr n dr' hd _
  rw [decode] at hd
  simp only at hd
  by_cases hb : isBasicElem e = true
  · rw [if_pos hb] at hd
    obtain ⟨b, rfl⟩ := basic_is_uint hb
    obtain ⟨hsc, hd⟩ := ite_err_eq_ok hd
    have hsc : k * b = dr.scope := by simpa [Ty.fixedSize] using hsc
    obtain ⟨⟨bs, d1⟩, h1, hd⟩ := bind_eq_ok hd
    obtain ⟨n', hn, hd⟩ := bind_eq_ok hd
    cases hd
    have hn := orNil_eq_ok hn
    obtain ⟨hl, hbs, hav, _, _⟩ := read_ok h1
    have hlen : bs.length = k * b := by rw [hbs, List.length_take]; omega
    obtain ⟨vs, hvl, hvt, hvs⟩ := basic_series_vals b k bs hlen
    refine ⟨.seq vs, by simp [hasType, hvl, hvt], ?_, hl, hav, ?_⟩
    · simp only [serialize, Ty.isFixed, if_true]; rw [hvs, hbs]
    · simp only [construct]
      rw [if_pos hb, if_neg (by omega), hvs, hn]; rfl
  · rw [if_neg hb] at hd
    by_cases hf : e.isFixed = true
    · rw [if_pos hf] at hd
      obtain ⟨hsc, hd⟩ := ite_err_eq_ok hd
      have hsc : k * e.fixedSize = dr.scope := by simpa using hsc
      obtain ⟨⟨ns, d1⟩, h1, hd⟩ := bind_eq_ok hd
      obtain ⟨n', hn, hd⟩ := bind_eq_ok hd
      cases hd
      have hn := orNil_eq_ok hn
      obtain ⟨vs, hvl, hvt, hvs, hle, hav, hcon⟩ := fixedItems_sound he (fun _ => rfl) _ _ _ _ h1
      rw [hsc] at hvs hle hav
      refine ⟨.seq vs, by simp [hasType, hvl, hvt], ?_, hle, hav, ?_⟩
      · simp only [serialize]; rw [if_pos hf, hvs]
      · simp only [construct]
        rw [if_neg hb, if_neg (by omega), hcon]
        simp only [bind, Except.bind]
        rw [hn]; rfl
    · rw [if_neg hf] at hd
      obtain ⟨hk0, hd⟩ := ite_err_eq_ok hd
      obtain ⟨⟨first, d1⟩, h1, hd⟩ := bind_eq_ok hd
      simp only at hd
      obtain ⟨hfirst, hd⟩ := ite_err_eq_ok hd
      have hfirst : first = 4 * k := by
        have : first = k * 4 := by simpa using hfirst
        omega
      obtain ⟨⟨os, d2⟩, h2, hd⟩ := bind_eq_ok hd
      obtain ⟨⟨ns, d3⟩, h3, hd⟩ := bind_eq_ok hd
      obtain ⟨n', hn, hd⟩ := bind_eq_ok hd
      cases hd
      have hn := orNil_eq_ok hn
      obtain ⟨vs, hvl, hvt, hcon, hser, hle, hav⟩ :=
        varSeries_sound he (isLeafTy_false_of_not_fixed hf) (by omega) hfirst h1 h2 h3
      refine ⟨.seq vs, by simp [hasType, hvl, hvt], ?_, hle, hav, ?_⟩
      · simp only [serialize]; rw [if_neg hf, hser]
      · simp only [construct]
        rw [if_neg hb, if_neg (by omega), hcon]
        simp only [bind, Except.bind]
        rw [hn]; rfl

/-- chunk count of a packed basic series: `len` elements of a legal size fit the bottom nodes
    computed for any `lim ≥ len` -/
theorem basic_chunks_le (b len lim : Nat) (hb : b = 1 ∨ b = 2 ∨ b = 4 ∨ b = 8 ∨ b = 32)
    (hl : len ≤ lim) : (len * b + 31) / 32 ≤ bottomNodes b lim := by
  unfold bottomNodes perNode
  rcases hb with rfl | rfl | rfl | rfl | rfl <;> omega

theorem vector_noPanic {h : HashFn} {e : Ty} (he : NoPanic h e) (k : Nat) (hk : 1 ≤ k)
    (hbs : ∀ b, e = .uint b → b = 1 ∨ b = 2 ∨ b = 4 ∨ b = 8 ∨ b = 32) :
    NoPanic h (.vector e k) := by
  intro dr
  rw [decode]
  simp only
  by_cases hb : isBasicElem e = true
  · rw [if_pos hb]
    obtain ⟨b, rfl⟩ := basic_is_uint hb
    apply ite_ne_panic (fun _ => other_ne_panic); intro hsc
    have hsc : k * b = dr.scope := by simpa [Ty.fixedSize] using hsc
    apply bind_ne_panic (read_ne_panic _ _)
    rintro ⟨bs, d1⟩ h1
    obtain ⟨hl, hbs', _⟩ := read_ok h1
    have hlen : bs.length = k * b := by rw [hbs', List.length_take]; omega
    apply bind_ne_panic
    · apply orNil_ne_panic
      simp only [seriesDepth, hb, if_true, Ty.fixedSize]
      apply fill_bytes_ok
      rw [hlen]
      exact basic_chunks_le b k k (hbs b rfl) (Nat.le_refl _)
    · intro a _; exact ok_ne_panic _
  · rw [if_neg hb]
    by_cases hf : e.isFixed = true
    · rw [if_pos hf]
      apply ite_ne_panic (fun _ => other_ne_panic); intro _
      apply bind_ne_panic (fixedItems_ne_panic he _ _)
      rintro ⟨ns, d1⟩ h1
      apply bind_ne_panic
      · apply orNil_ne_panic
        apply fill_nodes_ok
        rw [fixedItems_length _ _ _ _ h1]; exact Nat.le_refl _
      · intro a _; exact ok_ne_panic _
    · rw [if_neg hf, if_neg (by omega)]
      apply bind_ne_panic (readOffset_ne_panic _)
      rintro ⟨first, d1⟩ _
      simp only
      apply ite_ne_panic (fun _ => other_ne_panic); intro _
      apply bind_ne_panic (readOffsets_ne_panic _ _ _)
      rintro ⟨os, d2⟩ h2
      apply bind_ne_panic (offsetItems_ne_panic he _ _)
      rintro ⟨ns, d3⟩ h3
      apply bind_ne_panic
      · apply orNil_ne_panic
        apply fill_nodes_ok
        rw [offsetItems_length _ _ _ _ _ h3, (readOffsets_ok _ _ _ _ _ h2).1]; omega
      · intro a _; exact ok_ne_panic _

/-! ### list -/

theorem construct_list_nil (h : HashFn) (e : Ty) (lim : Nat) :
    construct h (.list e lim) (.seq []) = .ok (.pair (zeroNode h (seriesDepth e lim)) (zeroNode h 0)) := by
  simp only [construct]
  rw [if_neg (by simp)]
  by_cases hb : isBasicElem e = true
  · rw [if_pos hb]
    simp [serList, bytesIntoNodes_nil, fillToContents_nil, orNil, lengthNode_zero h, bind, Except.bind]
  · rw [if_neg hb]
    simp [constructList, fillToContents_nil, orNil, lengthNode_zero h, bind, Except.bind,
      seriesDepth, hb]

theorem list_sound {h : HashFn} {e : Ty} (he : Sound h e) (lim : Nat) : Sound h (.list e lim) := by
  intro dr n dr' hd _
  rw [decode] at hd
  simp only at hd
  by_cases hb : isBasicElem e = true
  · rw [if_pos hb] at hd
    obtain ⟨hlim, hd⟩ := ite_err_eq_ok hd
    obtain ⟨hsc, hd⟩ := ite_err_eq_ok hd
    have hsc : dr.scope / e.fixedSize * e.fixedSize = dr.scope := by simpa using hsc
    by_cases h0 : dr.scope / e.fixedSize = 0
    · rw [if_pos h0] at hd
      cases hd
      have hs0 : dr.scope = 0 := by rw [← hsc, h0]; simp
      refine ⟨.seq [], by simp [hasType, allHaveType], ?_, by omega, by simp [hs0],
        construct_list_nil h e lim⟩
      rw [hs0]; simp [serialize, serList, serVarParts, offsetsOf]
    · rw [if_neg h0] at hd
      obtain ⟨b, rfl⟩ := basic_is_uint hb
      simp only [Ty.fixedSize] at hd hsc hlim h0
      obtain ⟨⟨bs, d1⟩, h1, hd⟩ := bind_eq_ok hd
      obtain ⟨c, hc, hd⟩ := bind_eq_ok hd
      cases hd
      have hc := orNil_eq_ok hc
      obtain ⟨hl, hbs, hav, _, _⟩ := read_ok h1
      have hlen : bs.length = dr.scope / b * b := by rw [hbs, List.length_take]; omega
      obtain ⟨vs, hvl, hvt, hvs⟩ := basic_series_vals b _ bs hlen
      have hvlim : vs.length ≤ lim := by omega
      refine ⟨.seq vs, by simp [hasType, hvlim, hvt], ?_, hl, hav, ?_⟩
      · simp only [serialize, Ty.isFixed, if_true]; rw [hvs, hbs]
      · simp only [construct]
        rw [if_neg (by omega), if_pos hb, hvs, hc, hvl]; rfl
  · rw [if_neg hb] at hd
    by_cases hs0 : dr.scope = 0
    · rw [if_pos hs0] at hd
      cases hd
      refine ⟨.seq [], by simp [hasType, allHaveType], ?_, by omega, by simp [hs0],
        construct_list_nil h e lim⟩
      rw [hs0]
      by_cases hf : e.isFixed = true <;> simp [serialize, serList, hf, serVarParts, offsetsOf]
    · rw [if_neg hs0] at hd
      by_cases hf : e.isFixed = true
      · rw [if_pos hf] at hd
        obtain ⟨hsz, hd⟩ := ite_err_eq_ok hd
        obtain ⟨hlim, hd⟩ := ite_err_eq_ok hd
        obtain ⟨hsc, hd⟩ := ite_err_eq_ok hd
        have hsc : dr.scope / e.fixedSize * e.fixedSize = dr.scope := by simpa using hsc
        obtain ⟨⟨ns, d1⟩, h1, hd⟩ := bind_eq_ok hd
        obtain ⟨c, hc, hd⟩ := bind_eq_ok hd
        cases hd
        have hc := orNil_eq_ok hc
        obtain ⟨vs, hvl, hvt, hvs, hle, hav, hcon⟩ := fixedItems_sound he (fun _ => rfl) _ _ _ _ h1
        rw [hsc] at hvs hle hav
        have hvlim : vs.length ≤ lim := by omega
        refine ⟨.seq vs, by simp [hasType, hvlim, hvt], ?_, hle, hav, ?_⟩
        · simp only [serialize]; rw [if_pos hf, hvs]
        · simp only [construct]
          rw [if_neg (by omega), if_neg hb, hcon]
          simp only [bind, Except.bind]
          rw [hc, hvl]; rfl
      · rw [if_neg hf] at hd
        obtain ⟨⟨first, d1⟩, h1, hd⟩ := bind_eq_ok hd
        simp only at hd
        obtain ⟨hmod, hd⟩ := ite_err_eq_ok hd
        obtain ⟨hrange, hd⟩ := ite_err_eq_ok hd
        obtain ⟨hlim, hd⟩ := ite_err_eq_ok hd
        obtain ⟨⟨os, d2⟩, h2, hd⟩ := bind_eq_ok hd
        obtain ⟨⟨ns, d3⟩, h3, hd⟩ := bind_eq_ok hd
        obtain ⟨c, hc, hd⟩ := bind_eq_ok hd
        cases hd
        have hc := orNil_eq_ok hc
        have hmod : first % 4 = 0 := by simpa using hmod
        have hfirst : first = 4 * (first / 4) := by omega
        obtain ⟨vs, hvl, hvt, hcon, hser, hle, hav⟩ :=
          varSeries_sound he (isLeafTy_false_of_not_fixed hf) (by omega) hfirst h1 h2 h3
        have hvlim : vs.length ≤ lim := by omega
        refine ⟨.seq vs, by simp [hasType, hvlim, hvt], ?_, hle, hav, ?_⟩
        · simp only [serialize]; rw [if_neg hf, hser]
        · simp only [construct]
          rw [if_neg (by omega), if_neg hb, hcon]
          simp only [bind, Except.bind]
          rw [hc, hvl]; rfl

theorem list_noPanic {h : HashFn} {e : Ty} (he : NoPanic h e) (lim : Nat)
    (hfs : e.isFixed = true → e.fixedSize ≠ 0)
    (hbs : ∀ b, e = .uint b → b = 1 ∨ b = 2 ∨ b = 4 ∨ b = 8 ∨ b = 32) :
    NoPanic h (.list e lim) := by
  intro dr
  rw [decode]
  simp only
  by_cases hb : isBasicElem e = true
  · rw [if_pos hb]
    obtain ⟨b, rfl⟩ := basic_is_uint hb
    simp only [Ty.fixedSize]
    apply ite_ne_panic (fun _ => other_ne_panic); intro hlim
    apply ite_ne_panic (fun _ => other_ne_panic); intro hsc
    have hsc : dr.scope / b * b = dr.scope := by simpa using hsc
    apply ite_ne_panic (fun _ => ok_ne_panic _); intro _
    apply bind_ne_panic (read_ne_panic _ _)
    rintro ⟨bs, d1⟩ h1
    obtain ⟨hl, hbs', _⟩ := read_ok h1
    have hlen : bs.length = dr.scope / b * b := by rw [hbs', List.length_take]; omega
    apply bind_ne_panic
    · apply orNil_ne_panic
      simp only [seriesDepth, hb, if_true, Ty.fixedSize]
      apply fill_bytes_ok
      rw [hlen]
      exact basic_chunks_le b _ lim (hbs b rfl) (by omega)
    · intro a _; exact ok_ne_panic _
  · rw [if_neg hb]
    apply ite_ne_panic (fun _ => ok_ne_panic _); intro hs0
    by_cases hf : e.isFixed = true
    · rw [if_pos hf, if_neg (hfs hf)]
      apply ite_ne_panic (fun _ => other_ne_panic); intro hlim
      apply ite_ne_panic (fun _ => other_ne_panic); intro _
      apply bind_ne_panic (fixedItems_ne_panic he _ _)
      rintro ⟨ns, d1⟩ h1
      apply bind_ne_panic
      · apply orNil_ne_panic
        apply fill_nodes_ok
        rw [fixedItems_length _ _ _ _ h1]; omega
      · intro a _; exact ok_ne_panic _
    · rw [if_neg hf]
      apply bind_ne_panic (readOffset_ne_panic _)
      rintro ⟨first, d1⟩ _
      simp only
      apply ite_ne_panic (fun _ => other_ne_panic); intro hmod
      apply ite_ne_panic (fun _ => other_ne_panic); intro hrange
      apply ite_ne_panic (fun _ => other_ne_panic); intro hlim
      apply bind_ne_panic (readOffsets_ne_panic _ _ _)
      rintro ⟨os, d2⟩ h2
      apply bind_ne_panic (offsetItems_ne_panic he _ _)
      rintro ⟨ns, d3⟩ h3
      apply bind_ne_panic
      · apply orNil_ne_panic
        apply fill_nodes_ok
        rw [offsetItems_length _ _ _ _ _ h3, (readOffsets_ok _ _ _ _ _ h2).1]; omega
      · intro a _; exact ok_ne_panic _

end ZtypV.DecodeProofs
