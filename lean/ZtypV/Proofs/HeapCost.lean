/-
Model H: what exactly `MerkleRoot` writes and how often it hashes (C07, and the write
discipline used by C14).  Core Lean only.
-/
import ZtypV.Proofs.Heap
namespace ZtypV.H

/-! ### traces -/

theorem Trace.app_calls (s t : Trace) : (s ++ t).calls = s.calls + t.calls := rfl
theorem Trace.app_acc (s t : Trace) : (s ++ t).acc = s.acc ++ t.acc := rfl

theorem Trace.writes_app (s t : Trace) : (s ++ t).writes = s.writes ++ t.writes := by
  simp only [Trace.writes, Trace.app_acc, List.filter_append, List.map_append]

theorem Trace.writes_nil : Trace.nil.writes = [] := rfl
theorem Trace.writes_read (a : Nat) : (Trace.one a .read).writes = [] := rfl
theorem Trace.writes_write (a : Nat) : (Trace.one a .write).writes = [a] := rfl
theorem Trace.writes_hash (a : Nat) : (Trace.mk 1 [(a, Acc.write)]).writes = [a] := rfl

theorem Trace.app_assoc (s t u : Trace) : s ++ t ++ u = s ++ (t ++ u) := by
  show Trace.app (Trace.app s t) u = Trace.app s (Trace.app t u)
  simp only [Trace.app, Nat.add_assoc, List.append_assoc]

theorem Trace.nil_app (t : Trace) : Trace.nil ++ t = t := by
  show Trace.app Trace.nil t = t
  simp only [Trace.app, Trace.nil, Nat.zero_add, List.nil_append]

theorem Trace.app_nil (t : Trace) : t ++ Trace.nil = t := by
  show Trace.app t Trace.nil = t
  simp only [Trace.app, Trace.nil, Nat.add_zero, List.append_nil]

theorem Trace.mem_writes {t : Trace} {y : Nat} : y ∈ t.writes ↔ (y, Acc.write) ∈ t.acc := by
  unfold Trace.writes
  rw [List.mem_map]
  constructor
  · rintro ⟨⟨y', k⟩, hm, rfl⟩
    rw [List.mem_filter] at hm
    have : k = Acc.write := by simpa using hm.2
    subst this; exact hm.1
  · intro hm
    exact ⟨(y, Acc.write), List.mem_filter.mpr ⟨hm, by simp⟩, rfl⟩

/-! ### reachability through unset pairs -/

theorem UReach.src_unset {hp : Heap} {x y : Nat} (hu : UReach hp x y) :
    ∃ l r, hp[x]? = some (Cell.pair z0 l r) := by
  cases hu with
  | here l r e => exact ⟨l, r, e⟩
  | left l r e _ => exact ⟨l, r, e⟩
  | right l r e _ => exact ⟨l, r, e⟩

theorem UReach.tgt_unset {hp : Heap} {x y : Nat} (hu : UReach hp x y) :
    ∃ l r, hp[y]? = some (Cell.pair z0 l r) := by
  induction hu with
  | here l r e => exact ⟨l, r, e⟩
  | left l r _ _ ih => exact ih
  | right l r _ _ ih => exact ih

theorem UReach.trans {hp : Heap} {x y z : Nat} (h1 : UReach hp x y) (h2 : UReach hp y z) :
    UReach hp x z := by
  induction h1 with
  | here l r e => exact h2
  | left l r e _ ih => exact .left l r e (ih h2)
  | right l r e _ ih => exact .right l r e (ih h2)

theorem UReach.le {hp : Heap} (hw : WF hp) {x y : Nat} (hu : UReach hp x y) : y ≤ x := by
  induction hu with
  | here l r e => exact Nat.le_refl _
  | left l r e _ ih => have := hw _ _ _ _ e; omega
  | right l r e _ ih => have := hw _ _ _ _ e; omega

theorem ureach_inv {hp : Heap} {a l r : Nat} (ha : hp[a]? = some (Cell.pair z0 l r)) (y : Nat) :
    UReach hp a y ↔ y = a ∨ UReach hp l y ∨ UReach hp r y := by
  constructor
  · intro hu
    cases hu with
    | here l' r' e => exact .inl rfl
    | left l' r' e hu' =>
      rw [ha] at e
      simp only [Option.some.injEq, Cell.pair.injEq, true_and] at e
      obtain ⟨rfl, rfl⟩ := e
      exact .inr (.inl hu')
    | right l' r' e hu' =>
      rw [ha] at e
      simp only [Option.some.injEq, Cell.pair.injEq, true_and] at e
      obtain ⟨rfl, rfl⟩ := e
      exact .inr (.inr hu')
  · rintro (rfl | hl | hr)
    · exact .here l r ha
    · exact .left l r ha hl
    · exact .right l r ha hr

/-- after the unset pairs below `l` were filled (and nothing else changed), the pairs still to be
    hashed below `r` are those that were to be hashed before and are not below `l` -/
theorem ureach_after {hp hp1 : Heap} {l : Nat}
    (hset : ∀ y, UReach hp l y → ∃ l' r' v, hp[y]? = some (Cell.pair z0 l' r')
      ∧ hp1[y]? = some (Cell.pair v l' r') ∧ v ≠ z0)
    (hkeep : ∀ y, ¬ UReach hp l y → hp1[y]? = hp[y]?) (r y : Nat) :
    UReach hp1 r y ↔ UReach hp r y ∧ ¬ UReach hp l y := by
  have notin : ∀ {x l' r'}, hp1[x]? = some (Cell.pair z0 l' r') → ¬ UReach hp l x := by
    intro x l' r' e hu
    obtain ⟨l'', r'', v, _, e1, hv⟩ := hset x hu
    rw [e] at e1
    simp only [Option.some.injEq, Cell.pair.injEq] at e1
    exact hv e1.1.symm
  constructor
  · intro hu
    induction hu with
    | here l' r' e =>
      have hn := notin e
      exact ⟨.here l' r' (by rw [← hkeep _ hn]; exact e), hn⟩
    | left l' r' e _ ih =>
      have hn := notin e
      exact ⟨.left l' r' (by rw [← hkeep _ hn]; exact e) ih.1, ih.2⟩
    | right l' r' e _ ih =>
      have hn := notin e
      exact ⟨.right l' r' (by rw [← hkeep _ hn]; exact e) ih.1, ih.2⟩
  · rintro ⟨hu, hn⟩
    induction hu with
    | here l' r' e => exact .here l' r' (by rw [hkeep _ hn]; exact e)
    | left l' r' e hu' ih =>
      have hnx : ¬ UReach hp l _ := fun hx => hn (hx.trans (.left l' r' e hu'))
      exact .left l' r' (by rw [hkeep _ hnx]; exact e) (ih hn)
    | right l' r' e hu' ih =>
      have hnx : ¬ UReach hp l _ := fun hx => hn (hx.trans (.right l' r' e hu'))
      exact .right l' r' (by rw [hkeep _ hnx]; exact e) (ih hn)

/-! ### the effect of `MerkleRoot` -/

/-- `MerkleRoot` at `a`: exactly the pairs reachable through unset pairs get their memo set, nothing
    else changes; each of them is written once and costs one hash call. -/
structure RootEff (hp : Heap) (a : Nat) (x : Root × Heap × Trace) : Prop where
  set : ∀ y, UReach hp a y → ∃ l r v, hp[y]? = some (Cell.pair z0 l r)
    ∧ x.2.1[y]? = some (Cell.pair v l r) ∧ v ≠ z0
  keep : ∀ y, ¬ UReach hp a y → x.2.1[y]? = hp[y]?
  nodup : x.2.2.writes.Nodup
  mem : ∀ y, y ∈ x.2.2.writes ↔ UReach hp a y
  calls : x.2.2.calls = x.2.2.writes.length

theorem rootEff_triv {hp : Heap} {a : Nat} {v : Root} {tr : Trace}
    (hno : ∀ y, ¬ UReach hp a y) (hwr : tr.writes = []) (hc : tr.calls = 0) :
    RootEff hp a (v, hp, tr) where
  set := fun y hu => absurd hu (hno y)
  keep := fun _ _ => rfl
  nodup := by rw [hwr]; exact List.nodup_nil
  mem := fun y => by rw [hwr]; simp [hno y]
  calls := by rw [hwr, hc]; rfl

theorem rootH_eff (h : HashFn) (hz : NoZeroOut h) :
    ∀ f hp a, WF hp → a < f → RootEff hp a (rootH h f hp a) := by
  intro f
  induction f with
  | zero => intro hp a _ hlt; omega
  | succ f ih =>
    intro hp a hw hlt
    unfold rootH
    cases ha : hp[a]? with
    | none =>
      refine rootEff_triv (fun y hu => ?_) rfl rfl
      obtain ⟨l, r, e⟩ := hu.src_unset; rw [ha] at e; cases e
    | some c =>
      cases c with
      | leaf r =>
        refine rootEff_triv (fun y hu => ?_) rfl rfl
        obtain ⟨l, r, e⟩ := hu.src_unset; rw [ha] at e; cases e
      | pair m l r =>
        simp only
        split
        · rename_i hm0
          refine rootEff_triv (fun y hu => ?_) rfl rfl
          obtain ⟨l', r', e⟩ := hu.src_unset; rw [ha] at e
          simp only [Option.some.injEq, Cell.pair.injEq] at e
          exact hm0 e.1
        · rename_i hm0
          have hm0 : m = z0 := Decidable.of_not_not hm0
          subst hm0
          have hlr := hw a z0 l r ha
          have e1 := ih hp l hw (by omega)
          have hw1 := WF_sameStruct (rootH_sameStruct h f hp l) hw
          have e2 := ih (rootH h f hp l).2.1 r hw1 (by omega)
          have K := ureach_after e1.set e1.keep r
          have hinv := ureach_inv ha
          have hlt_l : ∀ y, UReach hp l y → y < a := fun y hu => by have := hu.le hw; omega
          have hlt_r : ∀ y, UReach hp r y → y < a := fun y hu => by have := hu.le hw; omega
          have hsz : a < (rootH h f (rootH h f hp l).2.1 r).2.1.size := by
            rw [rootH_size, rootH_size]; exact get_lt_size ha
          have hwrites : (Trace.one a Acc.read ++ (rootH h f hp l).2.2
              ++ (rootH h f (rootH h f hp l).2.1 r).2.2 ++ (Trace.mk 1 [(a, Acc.write)])).writes
              = (rootH h f hp l).2.2.writes ++ (rootH h f (rootH h f hp l).2.1 r).2.2.writes ++ [a] := by
            rw [Trace.writes_app, Trace.writes_app, Trace.writes_app, Trace.writes_read,
              Trace.writes_hash, List.nil_append]
          have set_l : ∀ y, UReach hp l y → ∃ l' r' v, hp[y]? = some (Cell.pair z0 l' r')
              ∧ (rootH h f (rootH h f hp l).2.1 r).2.1[y]? = some (Cell.pair v l' r') ∧ v ≠ z0 := by
            intro y hl
            obtain ⟨l', r', v, e0, e1', hv⟩ := e1.set y hl
            have hn : ¬ UReach (rootH h f hp l).2.1 r y := by
              intro hu
              obtain ⟨l'', r'', e⟩ := hu.tgt_unset
              rw [e1'] at e
              simp only [Option.some.injEq, Cell.pair.injEq] at e
              exact hv e.1
            exact ⟨l', r', v, e0, by rw [e2.keep y hn]; exact e1', hv⟩
          constructor
          · -- set
            intro y hu
            show ∃ l' r' v, hp[y]? = some (Cell.pair z0 l' r')
              ∧ ((rootH h f (rootH h f hp l).2.1 r).2.1.setIfInBounds a _)[y]? = _ ∧ v ≠ z0
            rw [Array.getElem?_setIfInBounds]
            rcases (hinv y).mp hu with rfl | hlr'
            · exact ⟨l, r, h (rootH h f hp l).1 (rootH h f (rootH h f hp l).2.1 r).1, ha,
                by simp only [if_true, hsz], hz _ _⟩
            · have hya : ¬ a = y := by
                rcases hlr' with hl | hr
                · have := hlt_l y hl; omega
                · have := hlt_r y hr; omega
              simp only [hya, if_false]
              by_cases hl : UReach hp l y
              · exact set_l y hl
              · have hr : UReach hp r y := hlr'.resolve_left hl
                obtain ⟨l', r', v, e0, e1', hv⟩ := e2.set y ((K y).mpr ⟨hr, hl⟩)
                exact ⟨l', r', v, by rw [← e1.keep y hl]; exact e0, e1', hv⟩
          · -- keep
            intro y hn
            show ((rootH h f (rootH h f hp l).2.1 r).2.1.setIfInBounds a _)[y]? = _
            have hya : ¬ a = y := fun e => hn (e ▸ .here l r ha)
            have hnl : ¬ UReach hp l y := fun hl => hn ((hinv y).mpr (.inr (.inl hl)))
            have hnr : ¬ UReach (rootH h f hp l).2.1 r y :=
              fun hr => hn ((hinv y).mpr (.inr (.inr ((K y).mp hr).1)))
            rw [Array.getElem?_setIfInBounds]
            simp only [hya, if_false]
            rw [e2.keep y hnr, e1.keep y hnl]
          · -- nodup
            show (Trace.writes _).Nodup
            rw [hwrites, List.nodup_append, List.nodup_append]
            refine ⟨⟨e1.nodup, e2.nodup, ?_⟩, (by simp : [a].Nodup), ?_⟩
            · intro y hy z hz' e
              subst e
              exact ((K y).mp ((e2.mem y).mp hz')).2 ((e1.mem y).mp hy)
            · intro y hy z hz' e
              rw [List.mem_singleton] at hz'
              subst e; subst hz'
              rcases List.mem_append.mp hy with h1 | h2
              · have := hlt_l _ ((e1.mem _).mp h1); omega
              · have := hlt_r _ ((K _).mp ((e2.mem _).mp h2)).1; omega
          · -- mem
            intro y
            show y ∈ Trace.writes _ ↔ _
            rw [hwrites, List.mem_append, List.mem_append, List.mem_singleton, e1.mem, e2.mem, K, hinv]
            constructor
            · rintro ((hl | ⟨hr, _⟩) | rfl)
              · exact .inr (.inl hl)
              · exact .inr (.inr hr)
              · exact .inl rfl
            · rintro (rfl | hl | hr)
              · exact .inr rfl
              · exact .inl (.inl hl)
              · by_cases hl : UReach hp l y
                · exact .inl (.inl hl)
                · exact .inl (.inr ⟨hr, hl⟩)
          · -- calls
            show Trace.calls _ = (Trace.writes _).length
            rw [hwrites, Trace.app_calls, Trace.app_calls, Trace.app_calls, e1.calls, e2.calls]
            simp only [List.length_append, List.length_singleton, Trace.one]
            omega

/-! ### consequences: second request is free; nothing but memo fills (no `NoZeroOut` needed) -/

theorem rootH_unset (h : HashFn) {f : Nat} {hp : Heap} {a l r : Nat}
    (ha : hp[a]? = some (Cell.pair z0 l r)) :
    rootH h (f+1) hp a =
      (h (rootH h f hp l).1 (rootH h f (rootH h f hp l).2.1 r).1,
       (rootH h f (rootH h f hp l).2.1 r).2.1.setIfInBounds a
         (Cell.pair (h (rootH h f hp l).1 (rootH h f (rootH h f hp l).2.1 r).1) l r),
       Trace.one a .read ++ (rootH h f hp l).2.2 ++ (rootH h f (rootH h f hp l).2.1 r).2.2
         ++ ⟨1, [(a, .write)]⟩) := by
  rw [rootH, ha]
  simp only [ne_eq, not_true_eq_false, if_false]

theorem rootH_top (h : HashFn) {f : Nat} {hp : Heap} {a : Nat} (ht : TopMemo hp a) :
    (rootH h (f+1) hp a).2.1 = hp ∧ (rootH h (f+1) hp a).2.2 = Trace.one a .read := by
  rcases ht with ⟨r, e⟩ | ⟨m, l, r, e, hm⟩
  · rw [rootH, e]; exact ⟨rfl, rfl⟩
  · rw [rootH, e]; simp only [hm, ne_eq, not_false_eq_true, if_true, and_self]

theorem no_ureach_of_top {hp : Heap} {a : Nat} (ht : TopMemo hp a) (y : Nat) : ¬ UReach hp a y := by
  intro hu
  obtain ⟨l, r, e⟩ := hu.src_unset
  rcases ht with ⟨r', e'⟩ | ⟨m, l', r', e', hm⟩
  · rw [e] at e'; cases e'
  · rw [e] at e'
    simp only [Option.some.injEq, Cell.pair.injEq] at e'
    exact hm e'.1.symm

/-- after `MerkleRoot` (with a hash that never returns the zero root) the node answers from its memo -/
theorem rootH_topMemo_after (h : HashFn) (hz : NoZeroOut h) {f : Nat} {hp : Heap} {a : Nat}
    (hw : WF hp) (hlt : a < f) (ha : a < hp.size) : TopMemo (rootH h f hp a).2.1 a := by
  have e := rootH_eff h hz f hp a hw hlt
  by_cases hu : UReach hp a a
  · obtain ⟨l, r, v, _, e1, hv⟩ := e.set a hu
    exact .inr ⟨v, l, r, e1, hv⟩
  · have hk := e.keep a hu
    obtain ⟨c, hc⟩ := get_some_of_lt ha
    cases c with
    | leaf r => exact .inl ⟨r, by rw [hk]; exact hc⟩
    | pair m l r =>
      refine .inr ⟨m, l, r, by rw [hk]; exact hc, ?_⟩
      intro hm; subst hm
      exact hu (.here l r hc)

/-- memo fields are only ever filled: a cell is unchanged, or it was an unset pair -/
def MemoStep (hp hp' : Heap) : Prop :=
  ∀ y : Nat, hp'[y]? = hp[y]? ∨ ∃ l r v, hp[y]? = some (Cell.pair z0 l r) ∧ hp'[y]? = some (Cell.pair v l r)

theorem MemoStep.refl (hp : Heap) : MemoStep hp hp := fun _ => .inl rfl

theorem MemoStep.trans {a b c : Heap} (h1 : MemoStep a b) (h2 : MemoStep b c) : MemoStep a c := by
  intro y
  rcases h2 y with e2 | ⟨l, r, v, e2, e2'⟩
  · rw [e2]; exact h1 y
  · rcases h1 y with e1 | ⟨l', r', v', e1, e1'⟩
    · exact .inr ⟨l, r, v, by rw [← e1]; exact e2, e2'⟩
    · rw [e2] at e1'
      simp only [Option.some.injEq, Cell.pair.injEq] at e1'
      obtain ⟨_, rfl, rfl⟩ := e1'
      exact .inr ⟨l, r, v, e1, e2'⟩

/-- `MerkleRoot` only fills memos, and every cell it writes was an unset pair when it started -/
theorem rootH_memoStep (h : HashFn) : ∀ f hp a,
    MemoStep hp (rootH h f hp a).2.1
      ∧ ∀ y, y ∈ (rootH h f hp a).2.2.writes → ∃ l r, hp[y]? = some (Cell.pair z0 l r) := by
  intro f
  induction f with
  | zero => intro hp a; exact ⟨MemoStep.refl hp, fun y hy => by cases hy⟩
  | succ f ih =>
    intro hp a
    cases ha : hp[a]? with
    | none => rw [rootH, ha]; exact ⟨MemoStep.refl hp, fun y hy => by cases hy⟩
    | some c =>
      cases c with
      | leaf r => rw [rootH, ha]; exact ⟨MemoStep.refl hp, fun y hy => by cases hy⟩
      | pair m l r =>
        by_cases hm : m = z0
        · subst hm
          rw [rootH_unset h ha]
          obtain ⟨s1, w1⟩ := ih hp l
          obtain ⟨s2, w2⟩ := ih (rootH h f hp l).2.1 r
          have s12 := s1.trans s2
          constructor
          · intro y
            show (Array.setIfInBounds _ a _)[y]? = _ ∨ _
            rw [Array.getElem?_setIfInBounds]
            by_cases hya : a = y
            · subst hya
              have hsz : a < (rootH h f (rootH h f hp l).2.1 r).2.1.size := by
                rw [rootH_size, rootH_size]; exact get_lt_size ha
              exact .inr ⟨l, r, h (rootH h f hp l).1 (rootH h f (rootH h f hp l).2.1 r).1, ha,
                by simp only [if_true, hsz]⟩
            · simp only [hya, if_false]; exact s12 y
          · intro y hy
            rw [Trace.writes_app, Trace.writes_app, Trace.writes_app, Trace.writes_read,
              Trace.writes_hash, List.nil_append, List.mem_append, List.mem_append,
              List.mem_singleton] at hy
            rcases hy with (h1 | h2) | rfl
            · exact w1 y h1
            · obtain ⟨l', r', e⟩ := w2 y h2
              rcases s1 y with e1 | ⟨l'', r'', v, e1, _⟩
              · exact ⟨l', r', by rw [← e1]; exact e⟩
              · exact ⟨l'', r'', e1⟩
            · exact ⟨l, r, ha⟩
        · rw [rootH, ha]
          simp only [ne_eq, hm, not_false_eq_true, if_true]
          exact ⟨MemoStep.refl hp, fun y hy => by cases hy⟩

theorem ureach_of_memoStep {hp hp1 : Heap} (ms : MemoStep hp hp1) {x y : Nat}
    (hu : UReach hp1 x y) : UReach hp x y := by
  have back : ∀ {z l r : Nat}, hp1[z]? = some (Cell.pair z0 l r) → hp[z]? = some (Cell.pair z0 l r) := by
    intro z l r e
    rcases ms z with e1 | ⟨l', r', v, e0, e1⟩
    · rw [← e1]; exact e
    · rw [e] at e1
      simp only [Option.some.injEq, Cell.pair.injEq] at e1
      obtain ⟨_, rfl, rfl⟩ := e1
      exact e0
  induction hu with
  | here l r e => exact .here l r (back e)
  | left l r e _ ih => exact .left l r (back e) ih
  | right l r e _ ih => exact .right l r (back e) ih

/-- without any hypothesis on the hash: every cell `MerkleRoot` writes is reached from `a` through
    pairs with unset memo, and every cell it does not write is unchanged -/
theorem rootH_writes_ureach (h : HashFn) : ∀ f hp a,
    (∀ y, y ∈ (rootH h f hp a).2.2.writes → UReach hp a y)
      ∧ ∀ y, y ∉ (rootH h f hp a).2.2.writes → (rootH h f hp a).2.1[y]? = hp[y]? := by
  intro f
  induction f with
  | zero => intro hp a; exact ⟨fun y hy => (by cases hy), fun _ _ => rfl⟩
  | succ f ih =>
    intro hp a
    cases ha : hp[a]? with
    | none => rw [rootH, ha]; exact ⟨fun y hy => (by cases hy), fun _ _ => rfl⟩
    | some c =>
      cases c with
      | leaf r => rw [rootH, ha]; exact ⟨fun y hy => (by cases hy), fun _ _ => rfl⟩
      | pair m l r =>
        by_cases hm : m = z0
        · subst hm
          rw [rootH_unset h ha]
          obtain ⟨w1, k1⟩ := ih hp l
          obtain ⟨w2, k2⟩ := ih (rootH h f hp l).2.1 r
          have ms1 := (rootH_memoStep h f hp l).1
          have hwr : ∀ y, y ∈ (Trace.one a Acc.read ++ (rootH h f hp l).2.2
              ++ (rootH h f (rootH h f hp l).2.1 r).2.2 ++ (Trace.mk 1 [(a, Acc.write)])).writes ↔
              (y ∈ (rootH h f hp l).2.2.writes ∨ y ∈ (rootH h f (rootH h f hp l).2.1 r).2.2.writes) ∨ y = a := by
            intro y
            rw [Trace.writes_app, Trace.writes_app, Trace.writes_app, Trace.writes_read,
              Trace.writes_hash, List.nil_append, List.mem_append, List.mem_append,
              List.mem_singleton]
          constructor
          · intro y hy
            rcases (hwr y).mp hy with (h1 | h2) | rfl
            · exact .left l r ha (w1 y h1)
            · exact .right l r ha (ureach_of_memoStep ms1 (w2 y h2))
            · exact .here l r ha
          · intro y hy
            have hn : ¬ ((y ∈ (rootH h f hp l).2.2.writes
                ∨ y ∈ (rootH h f (rootH h f hp l).2.1 r).2.2.writes) ∨ y = a) := fun e => hy ((hwr y).mpr e)
            show (Array.setIfInBounds _ a _)[y]? = _
            rw [Array.getElem?_setIfInBounds]
            have hya : ¬ a = y := fun e => hn (.inr e.symm)
            simp only [hya, if_false]
            rw [k2 y (fun e => hn (.inl (.inr e))), k1 y (fun e => hn (.inl (.inl e)))]
        · rw [rootH, ha]
          simp only [ne_eq, hm, not_false_eq_true, if_true]
          exact ⟨fun y hy => (by cases hy), fun _ _ => (by first | rfl | trivial)⟩

/-! ### sequencing -/

theorem run_poke_ok (h : HashFn) {a : Nat} {r r0 : Root} (k : Unit → Prog α) {hp : Heap}
    (ha : hp[a]? = some (Cell.leaf r0)) :
    run h (.pokeLeaf a r k) hp =
      ((run h (k ()) (hp.setIfInBounds a (.leaf r))).1, (run h (k ()) (hp.setIfInBounds a (.leaf r))).2.1,
        Trace.one a .write ++ (run h (k ()) (hp.setIfInBounds a (.leaf r))).2.2) := by
  rw [run, ha]

theorem run_poke_bad (h : HashFn) {a : Nat} {r : Root} (k : Unit → Prog α) {hp : Heap}
    (ha : ∀ r0, hp[a]? ≠ some (Cell.leaf r0)) :
    run h (.pokeLeaf a r k) hp = (none, hp, Trace.nil) := by
  rw [run]
  split
  · rename_i r0 hx; exact absurd hx (ha r0)
  · rfl

theorem run_bind_some (h : HashFn) (f : α → Prog β) : ∀ (p : Prog α) (hp : Heap) (a : α),
    (run h p hp).1 = some a →
    run h (p.bind f) hp = ((run h (f a) (run h p hp).2.1).1, (run h (f a) (run h p hp).2.1).2.1,
      (run h p hp).2.2 ++ (run h (f a) (run h p hp).2.1).2.2) := by
  intro p
  induction p with
  | ret a0 =>
    intro hp a hr
    have : a0 = a := by simpa [run] using hr
    subst this
    simp only [Prog.bind, run, Trace.nil_app]
  | allocLeaf r k ih =>
    intro hp a hr
    rw [Prog.bind, run, run]
    rw [run] at hr
    rw [ih hp.size _ a hr, Trace.app_assoc]
  | allocPair l r k ih =>
    intro hp a hr
    rw [Prog.bind]
    by_cases hlr : l < hp.size ∧ r < hp.size
    · rw [run_allocPair_ok h _ hlr.1 hlr.2] at hr ⊢
      rw [run_allocPair_ok h _ hlr.1 hlr.2]
      rw [ih hp.size _ a hr, Trace.app_assoc]
    · rw [run_allocPair_bad h _ hlr] at hr; cases hr
  | read x k ih =>
    intro hp a hr
    rw [Prog.bind]
    cases hx : hp[x]? with
    | none =>
      rw [run_read_none h _ hx] at hr ⊢
      rw [run_read_none h _ hx]
      exact ih none hp a hr
    | some c =>
      rw [run_read_some h _ hx] at hr ⊢
      rw [run_read_some h _ hx]
      rw [ih _ hp a hr, Trace.app_assoc]
  | root x k ih =>
    intro hp a hr
    rw [Prog.bind]
    by_cases hx : x < hp.size
    · rw [run_root_ok h _ hx] at hr ⊢
      rw [run_root_ok h _ hx]
      rw [ih _ _ a hr, Trace.app_assoc]
    · rw [run_root_bad h _ hx] at hr; cases hr
  | pokeLeaf x r k ih =>
    intro hp a hr
    rw [Prog.bind]
    by_cases hx : ∃ r0, hp[x]? = some (Cell.leaf r0)
    · obtain ⟨r0, hx⟩ := hx
      rw [run_poke_ok h _ hx] at hr ⊢
      rw [run_poke_ok h _ hx]
      rw [ih () _ a hr, Trace.app_assoc]
    · have hx' : ∀ r0, hp[x]? ≠ some (Cell.leaf r0) := fun r0 e => hx ⟨r0, e⟩
      rw [run_poke_bad h _ hx'] at hr; cases hr

theorem run_bind_none (h : HashFn) (f : α → Prog β) : ∀ (p : Prog α) (hp : Heap),
    (run h p hp).1 = none → (run h (p.bind f) hp).1 = none := by
  intro p
  induction p with
  | ret a0 => intro hp hr; simp [run] at hr
  | allocLeaf r k ih =>
    intro hp hr
    rw [Prog.bind, run]
    rw [run] at hr
    exact ih hp.size _ hr
  | allocPair l r k ih =>
    intro hp hr
    rw [Prog.bind]
    by_cases hlr : l < hp.size ∧ r < hp.size
    · rw [run_allocPair_ok h _ hlr.1 hlr.2] at hr ⊢
      exact ih hp.size _ hr
    · rw [run_allocPair_bad h _ hlr]
  | read x k ih =>
    intro hp hr
    rw [Prog.bind]
    cases hx : hp[x]? with
    | none =>
      rw [run_read_none h _ hx] at hr ⊢
      exact ih none hp hr
    | some c =>
      rw [run_read_some h _ hx] at hr ⊢
      exact ih _ hp hr
  | root x k ih =>
    intro hp hr
    rw [Prog.bind]
    by_cases hx : x < hp.size
    · rw [run_root_ok h _ hx] at hr ⊢
      exact ih _ _ hr
    · rw [run_root_bad h _ hx]
  | pokeLeaf x r k ih =>
    intro hp hr
    rw [Prog.bind]
    by_cases hx : ∃ r0, hp[x]? = some (Cell.leaf r0)
    · obtain ⟨r0, hx⟩ := hx
      rw [run_poke_ok h _ hx] at hr ⊢
      exact ih () _ hr
    · have hx' : ∀ r0, hp[x]? ≠ some (Cell.leaf r0) := fun r0 e => hx ⟨r0, e⟩
      rw [run_poke_bad h _ hx']

/-! ### the rebinding spine -/

/-- `setPath` builds a spine, without hashing -/
theorem run_setPath (h : HashFn) : ∀ (path : List Bool) (x y : Nat) (hp : Heap) (x' : Nat),
    (run h (setPath path x y) hp).1 = some (some x') →
      Spine hp (run h (setPath path x y) hp).2.1 path x y x'
        ∧ (run h (setPath path x y) hp).2.2.calls = 0 := by
  intro path
  induction path with
  | nil =>
    intro x y hp x' hr
    simp only [setPath, run, Option.some.injEq] at hr
    subst hr
    exact ⟨Spine.nil hp x y, rfl⟩
  | cons b bs ih =>
    intro x y hp x' hr
    rw [setPath] at hr ⊢
    cases hx : hp[x]? with
    | none => rw [run_read_none h _ hx] at hr; simp [run] at hr
    | some c =>
      rw [run_read_some h _ hx] at hr ⊢
      cases c with
      | leaf r0 => simp [view, run] at hr
      | pair m l r =>
        simp only [view] at hr ⊢
        cases b with
        | true =>
          simp only [if_true] at hr ⊢
          cases hsub : (run h (setPath bs r y) hp).1 with
          | none => rw [run_bind_none h _ _ _ hsub] at hr; cases hr
          | some o =>
            rw [run_bind_some h _ _ _ _ hsub] at hr ⊢
            cases o with
            | none => simp [run] at hr
            | some c' =>
              simp only at hr ⊢
              obtain ⟨sp, hc⟩ := ih r y hp c' hsub
              by_cases hlr : l < (run h (setPath bs r y) hp).2.1.size ∧ c' < (run h (setPath bs r y) hp).2.1.size
              · rw [run_allocPair_ok h _ hlr.1 hlr.2] at hr ⊢
                simp only [run, Option.some.injEq] at hr ⊢
                subst hr
                refine ⟨Spine.right m l r hx sp hlr.1 hlr.2, ?_⟩
                simp only [Trace.app_calls, hc, Trace.one, Trace.nil]
              · rw [run_allocPair_bad h _ hlr] at hr; cases hr
        | false =>
          simp only [Bool.false_eq_true, if_false] at hr ⊢
          cases hsub : (run h (setPath bs l y) hp).1 with
          | none => rw [run_bind_none h _ _ _ hsub] at hr; cases hr
          | some o =>
            rw [run_bind_some h _ _ _ _ hsub] at hr ⊢
            cases o with
            | none => simp [run] at hr
            | some c' =>
              simp only at hr ⊢
              obtain ⟨sp, hc⟩ := ih l y hp c' hsub
              by_cases hlr : c' < (run h (setPath bs l y) hp).2.1.size ∧ r < (run h (setPath bs l y) hp).2.1.size
              · rw [run_allocPair_ok h _ hlr.1 hlr.2] at hr ⊢
                simp only [run, Option.some.injEq] at hr ⊢
                subst hr
                refine ⟨Spine.left m l r hx sp hlr.1 hlr.2, ?_⟩
                simp only [Trace.app_calls, hc, Trace.one, Trace.nil]
              · rw [run_allocPair_bad h _ hlr] at hr; cases hr

/-- exact extension: old cells are untouched, memo fields included -/
def PExt (hp hp' : Heap) : Prop := hp.size ≤ hp'.size ∧ ∀ z, z < hp.size → hp'[z]? = hp[z]?

theorem PExt.refl (hp : Heap) : PExt hp hp := ⟨Nat.le_refl _, fun _ _ => rfl⟩
theorem PExt.trans {a b c : Heap} (h1 : PExt a b) (h2 : PExt b c) : PExt a c :=
  ⟨Nat.le_trans h1.1 h2.1, fun z hz => by rw [h2.2 z (Nat.lt_of_lt_of_le hz h1.1), h1.2 z hz]⟩
theorem pext_push (hp : Heap) (c : Cell) : PExt hp (hp.push c) :=
  ⟨by simp, fun _ hz => get_push_lt c hz⟩
theorem PExt.ext {hp hp' : Heap} (he : PExt hp hp') : Ext hp hp' :=
  ⟨he.1, fun z hz => by rw [he.2 z hz]⟩

theorem topMemo_pext {hp hp' : Heap} (he : PExt hp hp') {a : Nat} (ha : a < hp.size)
    (ht : TopMemo hp a) : TopMemo hp' a := by
  unfold TopMemo; rw [he.2 a ha]; exact ht

theorem fullyMemo_child {hp : Heap} {x : Nat} {m : Root} {l r : Nat} (hf : FullyMemo hp x)
    (hx : hp[x]? = some (Cell.pair m l r)) : FullyMemo hp l ∧ FullyMemo hp r :=
  ⟨fun y m' l' r' hr => hf y m' l' r' (.left m l r hx hr),
   fun y m' l' r' hr => hf y m' l' r' (.right m l r hx hr)⟩

theorem topMemo_of_fullyMemo {hp : Heap} {x : Nat} (hf : FullyMemo hp x) (hx : x < hp.size) :
    TopMemo hp x := by
  obtain ⟨c, hc⟩ := get_some_of_lt hx
  cases c with
  | leaf r => exact .inl ⟨r, hc⟩
  | pair m l r => exact .inr ⟨m, l, r, hc, hf x m l r (.refl x) hc⟩

/-- hashing the new top of a spine costs at most one hash call per level, whatever else the heap
    contains -/
theorem spine_cost (h : HashFn) {hp hp' : Heap} {path : List Bool} {x y x' : Nat}
    (hs : Spine hp hp' path x y x') (hw : WF hp) (hy : y < hp.size) (hty : TopMemo hp y)
    (hfx : FullyMemo hp x) :
    PExt hp hp' ∧ x' < hp'.size ∧ WF hp' ∧
      ∀ hp'' f, PExt hp' hp'' → x' < f → (rootH h f hp'' x').2.2.calls ≤ path.length := by
  induction hs with
  | nil x y =>
    refine ⟨PExt.refl _, hy, hw, ?_⟩
    intro hp'' f he hlt
    obtain ⟨f0, rfl⟩ : ∃ f0, f = f0 + 1 := ⟨f - 1, by omega⟩
    rw [(rootH_top h (topMemo_pext he hy hty)).2]
    exact Nat.le_refl _
  | @right hp1 bs x y c' m l r e hs' hl hc' ih =>
    obtain ⟨hfl, hfr⟩ := fullyMemo_child hfx e
    obtain ⟨pe, _, hw1, cost⟩ := ih hy hty hfr
    have hlx := hw x m l r e
    have hxs := get_lt_size e
    refine ⟨pe.trans (pext_push _ _), by simp, WF_push_pair hw1 hl hc' z0, ?_⟩
    intro hp'' f he hlt
    obtain ⟨f0, rfl⟩ : ∃ f0, f = f0 + 1 := ⟨f - 1, by omega⟩
    have htop : hp''[hp1.size]? = some (Cell.pair z0 l c') := by
      rw [he.2 _ (by simp), get_push_size]
    rw [rootH_unset h htop]
    have hl0 : l < hp.size := by omega
    have htl : TopMemo hp'' l :=
      topMemo_pext (pe.trans ((pext_push _ _).trans he)) hl0 (topMemo_of_fullyMemo hfl hl0)
    obtain ⟨f1, rfl⟩ : ∃ f1, f0 = f1 + 1 := ⟨f0 - 1, by omega⟩
    obtain ⟨e1, e2⟩ := rootH_top h (f := f1) htl
    rw [e1]
    have := cost hp'' (f1+1) ((pext_push _ _).trans he) (by omega)
    simp only [Trace.app_calls, e2, Trace.one, List.length_cons]
    omega
  | @left hp1 bs x y c' m l r e hs' hc' hr ih =>
    obtain ⟨hfl, hfr⟩ := fullyMemo_child hfx e
    obtain ⟨pe, _, hw1, cost⟩ := ih hy hty hfl
    have hlx := hw x m l r e
    have hxs := get_lt_size e
    refine ⟨pe.trans (pext_push _ _), by simp, WF_push_pair hw1 hc' hr z0, ?_⟩
    intro hp'' f he hlt
    obtain ⟨f0, rfl⟩ : ∃ f0, f = f0 + 1 := ⟨f - 1, by omega⟩
    have htop : hp''[hp1.size]? = some (Cell.pair z0 c' r) := by
      rw [he.2 _ (by simp), get_push_size]
    rw [rootH_unset h htop]
    have hr0 : r < hp.size := by omega
    have hpe'' := (pext_push hp1 (Cell.pair z0 c' r)).trans he
    have c1 := cost hp'' f0 hpe'' (by omega)
    -- after hashing the new child the sibling is still answered from its memo
    have hms := (rootH_memoStep h f0 hp'' c').1
    have htr0 : TopMemo hp'' r :=
      topMemo_pext (pe.trans hpe'') hr0 (topMemo_of_fullyMemo hfr hr0)
    have htr : TopMemo (rootH h f0 hp'' c').2.1 r := by
      rcases hms r with e0 | ⟨l', r', v, e0, _⟩
      · unfold TopMemo; rw [e0]; exact htr0
      · exact absurd (UReach.here l' r' e0) (no_ureach_of_top htr0 r)
    obtain ⟨f1, rfl⟩ : ∃ f1, f0 = f1 + 1 := ⟨f0 - 1, by omega⟩
    obtain ⟨_, e2⟩ := rootH_top h (f := f1) htr
    simp only [Trace.app_calls, e2, Trace.one, List.length_cons]
    omega

/-- the spine denotes the tree the pure setter gives (tie between Model H and Model P) -/
theorem spine_abs {hp hp' : Heap} {path : List Bool} {x y x' : Nat}
    (hs : Spine hp hp' path x y x') (hw : WF hp) (hy : y < hp.size) :
    PExt hp hp' ∧ x' < hp'.size ∧ WF hp' ∧
      Node.setAt path (absNode hp x) (absNode hp y) = some (absNode hp' x') := by
  induction hs with
  | nil x y => exact ⟨PExt.refl _, hy, hw, rfl⟩
  | @right hp1 bs x y c' m l r e hs' hl hc' ih =>
    obtain ⟨pe, _, hw1, habs⟩ := ih hy
    have hlx := hw x m l r e
    have hxs := get_lt_size e
    have hw' := WF_push_pair hw1 hl hc' z0
    refine ⟨pe.trans (pext_push _ _), by simp, hw', ?_⟩
    rw [absNode_pair hw e, Node.setAt]
    simp only [if_true, habs, Option.map_some]
    rw [absNode_pair hw' (get_push_size hp1 _), absNode_ext hw1 (ext_push hp1 _) hl,
      absNode_ext hw1 (ext_push hp1 _) hc', absNode_ext hw pe.ext (x := l) (by omega)]
  | @left hp1 bs x y c' m l r e hs' hc' hr ih =>
    obtain ⟨pe, _, hw1, habs⟩ := ih hy
    have hlx := hw x m l r e
    have hxs := get_lt_size e
    have hw' := WF_push_pair hw1 hc' hr z0
    refine ⟨pe.trans (pext_push _ _), by simp, hw', ?_⟩
    rw [absNode_pair hw e, Node.setAt]
    simp only [Bool.false_eq_true, if_false, habs, Option.map_some]
    rw [absNode_pair hw' (get_push_size hp1 _), absNode_ext hw1 (ext_push hp1 _) hr,
      absNode_ext hw1 (ext_push hp1 _) hc', absNode_ext hw pe.ext (x := r) (by omega)]

/-! ### single requests; memos are only ever filled by a poke-free client -/

theorem run_root1 (h : HashFn) {hp : Heap} {x : Nat} (hx : x < hp.size) :
    run h (Prog.root1 x) hp =
      (some (rootH h (x+1) hp x).1, (rootH h (x+1) hp x).2.1, (rootH h (x+1) hp x).2.2) := by
  unfold Prog.root1
  rw [run_root_ok h _ hx]
  simp only [run, Trace.app_nil]

theorem UReach.reach {hp : Heap} {x y : Nat} (hu : UReach hp x y) : Reach hp x y := by
  induction hu with
  | here l r e => exact .refl _
  | left l r e _ ih => exact .left z0 l r e ih
  | right l r e _ ih => exact .right z0 l r e ih

theorem topMemo_memoStep {hp hp' : Heap} {x : Nat} (ht : TopMemo hp x) (hs : MemoStep hp hp') :
    TopMemo hp' x := by
  rcases hs x with e | ⟨l, r, v, e, _⟩
  · unfold TopMemo; rw [e]; exact ht
  · exact absurd (UReach.here l r e) (no_ureach_of_top ht x)

theorem topMemo_lt {hp : Heap} {x : Nat} (ht : TopMemo hp x) : x < hp.size := by
  rcases ht with ⟨r, e⟩ | ⟨m, l, r, e, _⟩ <;> exact get_lt_size e

theorem run_topMemo (h : HashFn) {p : Prog α} (hnp : NoPoke p) {x : Nat} :
    ∀ hp, TopMemo hp x → TopMemo (run h p hp).2.1 x := by
  induction hnp with
  | ret a => intro hp ht; exact ht
  | allocLeaf r k _ ih =>
    intro hp ht
    exact ih hp.size _ (topMemo_pext (pext_push hp _) (topMemo_lt ht) ht)
  | allocPair l r k _ ih =>
    intro hp ht
    by_cases hlr : l < hp.size ∧ r < hp.size
    · rw [run_allocPair_ok h _ hlr.1 hlr.2]
      exact ih hp.size _ (topMemo_pext (pext_push hp _) (topMemo_lt ht) ht)
    · rw [run_allocPair_bad h _ hlr]; exact ht
  | read a k _ ih =>
    intro hp ht
    cases ha : hp[a]? with
    | none => rw [run_read_none h _ ha]; exact ih none hp ht
    | some c => rw [run_read_some h _ ha]; exact ih _ hp ht
  | root a k _ ih =>
    intro hp ht
    by_cases ha : a < hp.size
    · rw [run_root_ok h _ ha]
      exact ih _ _ (topMemo_memoStep ht (rootH_memoStep h (a+1) hp a).1)
    · rw [run_root_bad h _ ha]; exact ht

theorem unset_of_get {hp : Heap} {y l r : Nat} (e : hp[y]? = some (Cell.pair z0 l r)) :
    (hp[y]?).map Cell.isUnsetPair = some true := by
  rw [e]; simp [Cell.isUnsetPair]

/-! ### hashed once = hashed everywhere below -/

theorem topMemoB_sound {hp : Heap} {a : Nat} (hb : topMemoB hp a = true) : TopMemo hp a := by
  unfold topMemoB at hb
  cases ha : hp[a]? with
  | none => rw [ha] at hb; cases hb
  | some c =>
    cases c with
    | leaf r => exact .inl ⟨r, ha⟩
    | pair m l r =>
      rw [ha] at hb
      exact .inr ⟨m, l, r, ha, by simpa using hb⟩

theorem memoClosedB_sound {hp : Heap} (hb : memoClosedB hp = true) : MemoClosed hp := by
  intro a m l r ha hm
  have hlt := get_lt_size ha
  unfold memoClosedB at hb
  rw [List.all_eq_true] at hb
  have := hb a (List.mem_range.mpr hlt)
  rw [ha] at this
  simp only [Bool.or_eq_true, decide_eq_true_eq, Bool.and_eq_true] at this
  rcases this with e | ⟨h1, h2⟩
  · exact absurd e hm
  · exact ⟨topMemoB_sound h1, topMemoB_sound h2⟩

theorem fullyMemo_of_top {hp : Heap} (hc : MemoClosed hp) {x : Nat} (ht : TopMemo hp x) :
    FullyMemo hp x := by
  have key : ∀ y, Reach hp x y → TopMemo hp y := by
    intro y hr
    induction hr with
    | refl x => exact ht
    | left m l r e _ ih =>
      apply ih
      rcases ht with ⟨r0, e0⟩ | ⟨m', l', r', e0, hm⟩
      · rw [e] at e0; cases e0
      · rw [e] at e0
        simp only [Option.some.injEq, Cell.pair.injEq] at e0
        obtain ⟨rfl, rfl, rfl⟩ := e0
        exact (hc _ _ _ _ e hm).1
    | right m l r e _ ih =>
      apply ih
      rcases ht with ⟨r0, e0⟩ | ⟨m', l', r', e0, hm⟩
      · rw [e] at e0; cases e0
      · rw [e] at e0
        simp only [Option.some.injEq, Cell.pair.injEq] at e0
        obtain ⟨rfl, rfl, rfl⟩ := e0
        exact (hc _ _ _ _ e hm).2
  intro y m l r hr hy
  rcases key y hr with ⟨r0, e0⟩ | ⟨m', l', r', e0, hm⟩
  · rw [hy] at e0; cases e0
  · rw [hy] at e0
    simp only [Option.some.injEq, Cell.pair.injEq] at e0
    rw [e0.1]; exact hm

theorem memoClosed_push {hp : Heap} (hc : MemoClosed hp) (hw : WF hp) (c : Cell)
    (hcz : ∀ m l r, c = Cell.pair m l r → m = z0) : MemoClosed (hp.push c) := by
  intro a m l r ha hm
  by_cases h1 : a < hp.size
  · rw [get_push_lt _ h1] at ha
    have hlr := hw a m l r ha
    obtain ⟨t1, t2⟩ := hc a m l r ha hm
    exact ⟨topMemo_pext (pext_push hp c) (by omega) t1, topMemo_pext (pext_push hp c) (by omega) t2⟩
  · by_cases h2 : a = hp.size
    · subst h2; rw [get_push_size] at ha
      simp only [Option.some.injEq] at ha
      exact absurd (hcz m l r ha) hm
    · rw [get_push_gt _ (by omega)] at ha; simp at ha

theorem rootH_memoClosed (h : HashFn) (hz : NoZeroOut h) {f : Nat} {hp : Heap} {x : Nat}
    (hw : WF hp) (hc : MemoClosed hp) (hlt : x < f) : MemoClosed (rootH h f hp x).2.1 := by
  have e := rootH_eff h hz f hp x hw hlt
  have ms := (rootH_memoStep h f hp x).1
  -- a child of a pair that gets hashed answers from its memo afterwards
  have child : ∀ a l r c, UReach hp x a → hp[a]? = some (Cell.pair z0 l r) → (c = l ∨ c = r) →
      TopMemo (rootH h f hp x).2.1 c := by
    intro a l r c hu ha hcl
    have hlr := hw a z0 l r ha
    have hcs : c < hp.size := by have := get_lt_size ha; rcases hcl with rfl | rfl <;> omega
    obtain ⟨cc, hcc⟩ := get_some_of_lt hcs
    by_cases huc : UReach hp x c
    · obtain ⟨l', r', v, _, e1, hv⟩ := e.set c huc
      exact .inr ⟨v, l', r', e1, hv⟩
    · have hk := e.keep c huc
      cases cc with
      | leaf r0 => exact .inl ⟨r0, by rw [hk]; exact hcc⟩
      | pair m' l' r' =>
        refine .inr ⟨m', l', r', by rw [hk]; exact hcc, ?_⟩
        intro hm; subst hm
        apply huc
        rcases hcl with rfl | rfl
        · exact hu.trans (.left _ r ha (.here l' r' hcc))
        · exact hu.trans (.right l _ ha (.here l' r' hcc))
  intro a m l r ha hm
  by_cases hu : UReach hp x a
  · obtain ⟨l', r', v, e0, e1, _⟩ := e.set a hu
    rw [ha] at e1
    simp only [Option.some.injEq, Cell.pair.injEq] at e1
    obtain ⟨_, rfl, rfl⟩ := e1
    exact ⟨child a l r l hu e0 (.inl rfl), child a l r r hu e0 (.inr rfl)⟩
  · rw [e.keep a hu] at ha
    obtain ⟨t1, t2⟩ := hc a m l r ha hm
    exact ⟨topMemo_memoStep t1 ms, topMemo_memoStep t2 ms⟩

theorem run_memoClosed (h : HashFn) (hz : NoZeroOut h) {p : Prog α} (hnp : NoPoke p) :
    ∀ hp, WF hp → MemoClosed hp → MemoClosed (run h p hp).2.1 := by
  induction hnp with
  | ret a => intro hp _ hc; exact hc
  | allocLeaf r k _ ih =>
    intro hp hw hc
    exact ih hp.size _ (WF_push_leaf hw r) (memoClosed_push hc hw _ (by intro m l r' e; cases e))
  | allocPair l r k _ ih =>
    intro hp hw hc
    by_cases hlr : l < hp.size ∧ r < hp.size
    · rw [run_allocPair_ok h _ hlr.1 hlr.2]
      exact ih hp.size _ (WF_push_pair hw hlr.1 hlr.2 z0)
        (memoClosed_push hc hw _ (by intro m l' r' e; cases e; rfl))
    · rw [run_allocPair_bad h _ hlr]; exact hc
  | read a k _ ih =>
    intro hp hw hc
    cases ha : hp[a]? with
    | none => rw [run_read_none h _ ha]; exact ih none hp hw hc
    | some c => rw [run_read_some h _ ha]; exact ih _ hp hw hc
  | root a k _ ih =>
    intro hp hw hc
    by_cases ha : a < hp.size
    · rw [run_root_ok h _ ha]
      exact ih _ _ (WF_sameStruct (rootH_sameStruct h _ hp a) hw)
        (rootH_memoClosed h hz hw hc (Nat.lt_succ_self a))
    · rw [run_root_bad h _ ha]; exact hc

/-! ### a poke-free client changes old cells only by filling unset memos -/

/-- old cells are unchanged or were unset pairs whose memo got filled -/
def FillOld (hp hp' : Heap) : Prop :=
  hp.size ≤ hp'.size ∧ ∀ y : Nat, y < hp.size →
    hp'[y]? = hp[y]? ∨ ∃ l r v, hp[y]? = some (Cell.pair z0 l r) ∧ hp'[y]? = some (Cell.pair v l r)

theorem FillOld.refl (hp : Heap) : FillOld hp hp := ⟨Nat.le_refl _, fun _ _ => .inl rfl⟩

theorem FillOld.trans {a b c : Heap} (h1 : FillOld a b) (h2 : FillOld b c) : FillOld a c := by
  refine ⟨Nat.le_trans h1.1 h2.1, fun y hy => ?_⟩
  rcases h2.2 y (Nat.lt_of_lt_of_le hy h1.1) with e2 | ⟨l, r, v, e2, e2'⟩
  · rw [e2]; exact h1.2 y hy
  · rcases h1.2 y hy with e1 | ⟨l', r', v', e1, e1'⟩
    · exact .inr ⟨l, r, v, by rw [← e1]; exact e2, e2'⟩
    · rw [e2] at e1'
      simp only [Option.some.injEq, Cell.pair.injEq] at e1'
      obtain ⟨_, rfl, rfl⟩ := e1'
      exact .inr ⟨l, r, v, e1, e2'⟩

theorem fillOld_push (hp : Heap) (c : Cell) : FillOld hp (hp.push c) :=
  ⟨by simp, fun _ hy => .inl (get_push_lt c hy)⟩

theorem fillOld_of_memoStep {hp hp' : Heap} (hs : hp.size = hp'.size) (ms : MemoStep hp hp') :
    FillOld hp hp' := ⟨Nat.le_of_eq hs, fun y _ => ms y⟩

theorem run_fillOld (h : HashFn) {p : Prog α} (hnp : NoPoke p) : ∀ hp, FillOld hp (run h p hp).2.1 := by
  induction hnp with
  | ret a => intro hp; exact FillOld.refl hp
  | allocLeaf r k _ ih => intro hp; exact (fillOld_push hp _).trans (ih hp.size _)
  | allocPair l r k _ ih =>
    intro hp
    by_cases hlr : l < hp.size ∧ r < hp.size
    · rw [run_allocPair_ok h _ hlr.1 hlr.2]
      exact (fillOld_push hp _).trans (ih hp.size _)
    · rw [run_allocPair_bad h _ hlr]; exact FillOld.refl hp
  | read a k _ ih =>
    intro hp
    cases ha : hp[a]? with
    | none => rw [run_read_none h _ ha]; exact ih none hp
    | some c => rw [run_read_some h _ ha]; exact ih _ hp
  | root a k _ ih =>
    intro hp
    by_cases ha : a < hp.size
    · rw [run_root_ok h _ ha]
      exact (fillOld_of_memoStep (rootH_size h _ hp a).symm (rootH_memoStep h (a+1) hp a).1).trans (ih _ _)
    · rw [run_root_bad h _ ha]; exact FillOld.refl hp

/-- a hash function that may return the zero root (used by the counterexample of C07) -/
def zeroHash : HashFn := fun _ _ => z0

end ZtypV.H
