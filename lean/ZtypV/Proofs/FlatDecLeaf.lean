/-
C09 (flat codec, decoder completeness), part 2: the leaves: basic values, byte vectors / byte
lists into re-used destination slices, bit vectors / bit lists, `ReadRoots(Limited)`, and the
spec-side facts about `uint8` and `Root` series.  Core Lean only.
-/
import ZtypV.Proofs.FlatDecBase
import ZtypV.Proofs.Bitfields
namespace ZtypV.FlatProofs.Dec
open ZtypV ZtypV.View ZtypV.Flat

/-! ### basic values -/

theorem decUint_dec (b n : Nat) (hn : n < 256 ^ b) : Dec (decUint b) true (leBytes b n) (.num n) := by
  intro dr rest hav hi
  simp only [if_true, leBytes_length] at hi
  refine ⟨adv dr b rest, ?_, rfl, rfl, by simp⟩
  unfold decUint
  rw [read_app' dr b (leBytes b n) rest (leBytes_length b n) hav hi]
  simp only [R.bind_ok, leNat_leBytes, Nat.mod_eq_of_lt hn]

theorem decBool_dec (b : Bool) : Dec decBool true [if b then 1 else 0] (.bool b) := by
  intro dr rest hav hi
  simp only [if_true, List.length_singleton] at hi
  refine ⟨adv dr 1 rest, ?_, rfl, rfl, by simp⟩
  unfold decBool
  rw [read_app' dr 1 _ rest rfl hav hi]
  cases b <;> simp [err]

theorem decRoot_dec (bs : Bytes) (h32 : bs.length = 32) : Dec decRoot true bs (.bytes bs) := by
  intro dr rest hav hi
  simp only [if_true, h32] at hi
  refine ⟨adv dr 32 rest, ?_, rfl, rfl, by simp [h32]⟩
  unfold decRoot
  rw [read_app' dr 32 bs rest h32 hav hi]
  rfl

/-! ### byte slices -/

theorem resize_len (s : Slice) (n : Nat) : (s.resize n).len = n := by
  unfold Slice.resize; split <;> rfl

theorem readFull_ok (s : Slice) (dr : DR) (bs rest : Bytes) (hl : s.len = bs.length)
    (hav : dr.avail = bs ++ rest) (hi : dr.i + bs.length ≤ dr.max) :
    ∃ s', s.readFull dr = .ok (s', adv dr bs.length rest) ∧ s'.bytes = bs := by
  refine ⟨{ s with arr := bs ++ s.arr.drop s.len }, ?_, ?_⟩
  · unfold Slice.readFull
    rw [hl, read_app dr bs rest hav hi]
    rfl
  · simp only [Slice.bytes, hl]
    exact take_app_left _ _

/-- `ByteVector` into ANY destination slice leaves exactly the bytes read in it -/
theorem decByteVector_ok (dst : Slice) (dr : DR) (bs rest : Bytes)
    (hav : dr.avail = bs ++ rest) (hi : dr.i + bs.length ≤ dr.max) :
    ∃ s, decByteVector dst bs.length dr = .ok (s, adv dr bs.length rest) ∧ s.bytes = bs := by
  unfold decByteVector
  exact readFull_ok _ dr bs rest (resize_len _ _) hav hi

theorem decByteList_ok (dst : Slice) (lim : Nat) (dr : DR) (bs rest : Bytes) (hlim : bs.length ≤ lim)
    (hav : dr.avail = bs ++ rest) (hi : dr.i + bs.length = dr.max) :
    ∃ s, decByteList dst lim dr = .ok (s, adv dr bs.length rest) ∧ s.bytes = bs := by
  have hsc : dr.scope = bs.length := by simp only [DR.scope]; omega
  unfold decByteList
  simp only [hsc]
  rw [if_neg (by omega)]
  exact readFull_ok _ dr bs rest (resize_len _ _) hav (by omega)

/-! ### bit fields -/

theorem getBit_eq_bitAt (b : Bytes) (i : Nat) : getBit b i = Bitfields.bitAt b i := rfl
theorem lastByte_eq (b : Bytes) : lastByte b = Bitfields.lastByte b := rfl

theorem unpackBits_packBits (l : List Bool) (n : Nat) (hn : n ≤ l.length) :
    unpackBits (packBits l) n = l.take n := by
  apply List.ext_getElem
  · simp [unpackBits]; omega
  · intro i h1 h2
    simp only [unpackBits, List.length_map, List.length_range] at h1
    simp only [unpackBits, List.getElem_map, List.getElem_range, List.getElem_take]
    rw [getBit_eq_bitAt, Bitfields.bitAt_packBits, List.getD_eq_getElem?_getD,
      List.getElem?_eq_getElem (by omega)]
    rfl

theorem bitvectorCheck_packBits (bits : List Bool) (h1 : 1 ≤ bits.length) :
    bitvectorCheck (packBits bits) bits.length = true := by
  have hlen := Bitfields.packBits_length bits
  unfold bitvectorCheck
  rw [if_neg (by rw [hlen]; simp), if_neg (by omega), if_neg (by omega)]
  split
  · rfl
  · rename_i h8
    have hlast : lastByte (packBits bits) = byteOfBits (bits.drop (8 * (bits.length / 8))) := by
      unfold lastByte
      rw [Bitfields.packBits_getD, hlen]
      have e : (bits.length + 7) / 8 - 1 = bits.length / 8 := by omega
      rw [e, List.take_of_length_le]
      rw [List.length_drop]; omega
    have hl : (bits.drop (8 * (bits.length / 8))).length = bits.length % 8 := by
      rw [List.length_drop]; omega
    have hv : (lastByte (packBits bits)).toNat < 2 ^ (bits.length % 8) := by
      rw [hlast, ZtypV.byteOfBits_toNat _ (by omega), ← hl]
      exact ZtypV.bitsVal_lt _
    rw [Nat.shiftRight_eq_div_pow, Nat.div_eq_of_lt hv]
    simp

theorem bitlistCheck_packBits (bits : List Bool) (lim : Nat) (hlim : bits.length ≤ lim) :
    bitlistCheck (packBits (bits ++ [true])) lim = true := by
  obtain ⟨hlen, hz, hlog⟩ := Bitfields.bitlist_shape bits
  rw [← lastByte_eq] at hz hlog
  unfold bitlistCheck
  rw [if_neg (by omega), if_neg (by omega), if_neg hz, if_neg (by rw [hlog, hlen]; omega)]

theorem unpackBitlist_packBits (bits : List Bool) :
    unpackBitlist (packBits (bits ++ [true])) = bits := by
  obtain ⟨hlen, _, hlog⟩ := Bitfields.bitlist_shape bits
  rw [← lastByte_eq] at hlog
  unfold unpackBitlist
  rw [hlog, hlen]
  have e : 8 * (bits.length / 8 + 1 - 1) + bits.length % 8 = bits.length := by omega
  rw [e, unpackBits_packBits _ _ (by simp), take_app_left]

theorem decBitVector_ok (dst : Slice) (dr : DR) (bits : List Bool) (rest : Bytes)
    (h1 : 1 ≤ bits.length) (hav : dr.avail = packBits bits ++ rest)
    (hi : dr.i + (packBits bits).length ≤ dr.max) :
    ∃ s, decBitVector dst bits.length dr = .ok (s, adv dr (packBits bits).length rest) ∧
      s.bytes = packBits bits := by
  have hlen := Bitfields.packBits_length bits
  obtain ⟨s, hs, hb⟩ := readFull_ok (dst.resize ((bits.length + 7) / 8)) dr (packBits bits) rest
    (by rw [resize_len, hlen]) hav hi
  refine ⟨s, ?_, hb⟩
  unfold decBitVector
  simp only [hs, R.bind_ok, hb, bitvectorCheck_packBits bits h1, if_true]

theorem decBitList_ok (dst : Slice) (lim : Nat) (dr : DR) (bits : List Bool) (rest : Bytes)
    (hlim : bits.length ≤ lim) (hav : dr.avail = packBits (bits ++ [true]) ++ rest)
    (hi : dr.i + (packBits (bits ++ [true])).length = dr.max) :
    ∃ s, decBitList dst lim dr = .ok (s, adv dr (packBits (bits ++ [true])).length rest) ∧
      s.bytes = packBits (bits ++ [true]) := by
  have hlen := (Bitfields.bitlist_shape bits).1
  have hsc : dr.scope = (packBits (bits ++ [true])).length := by simp only [DR.scope]; omega
  obtain ⟨s, hs, hb⟩ := readFull_ok (dst.resize dr.scope) dr (packBits (bits ++ [true])) rest
    (by rw [resize_len, hsc]) hav (by omega)
  refine ⟨s, ?_, hb⟩
  unfold decBitList
  rw [if_neg (by unfold bitListByteLimit; rw [hsc, hlen]; omega)]
  simp only [hs, R.bind_ok, hb, bitlistCheck_packBits bits lim hlim, if_true]

/-! ### roots -/

theorem readRootsLoop_ok : ∀ (rs : List Bytes) (dr : DR) (rest : Bytes), (∀ r ∈ rs, r.length = 32) →
    dr.avail = rs.flatten ++ rest → dr.i + 32 * rs.length ≤ dr.max →
    readRootsLoop rs.length dr = .ok (rs, adv dr (32 * rs.length) rest) := by
  intro rs
  induction rs with
  | nil =>
    intro dr rest _ hav _
    simp only [List.flatten_nil, List.nil_append] at hav
    simp only [List.length_nil, readRootsLoop, adv, Nat.mul_zero, Nat.add_zero]
    cases dr; simp only at hav; rw [hav]
  | cons r rs ih =>
    intro dr rest h32 hav hi
    simp only [List.flatten_cons, List.append_assoc] at hav
    simp only [List.length_cons] at hi ⊢
    rw [readRootsLoop, read_app' dr 32 r _ (h32 r List.mem_cons_self) hav (by omega)]
    simp only [R.bind_ok]
    rw [ih (adv dr 32 _) rest (fun r' hr' => h32 r' (List.mem_cons_of_mem _ hr')) rfl
      (by simp only [adv_i, adv_max]; omega)]
    simp only [R.bind_ok, adv, Nat.mul_add, Nat.mul_one]
    congr 3
    omega

/-- `ReadRoots` into ANY destination leaves exactly the roots read in it -/
theorem readRoots_ok (dst : RSlice) (rs : List Bytes) (dr : DR) (rest : Bytes)
    (h32 : ∀ r ∈ rs, r.length = 32) (hav : dr.avail = rs.flatten ++ rest)
    (hi : dr.i + 32 * rs.length ≤ dr.max) :
    ∃ s, readRoots dst rs.length dr = .ok (s, adv dr (32 * rs.length) rest) ∧ s.roots = rs := by
  unfold readRoots
  simp only [readRootsLoop_ok rs dr rest h32 hav hi, R.bind_ok]
  refine ⟨_, rfl, ?_⟩
  simp only [RSlice.roots]
  split
  · split
    · exact take_app_left _ _
    · exact take_app_left _ _
  · rename_i hne
    have : dst.len = rs.length := by simpa using hne
    rw [this]
    exact take_app_left _ _

theorem readRootsLimited_ok (dst : RSlice) (lim : Nat) (rs : List Bytes) (dr : DR) (rest : Bytes)
    (h32 : ∀ r ∈ rs, r.length = 32) (hlim : rs.length ≤ lim) (hav : dr.avail = rs.flatten ++ rest)
    (hi : dr.i + 32 * rs.length = dr.max) :
    ∃ s, readRootsLimited dst lim dr = .ok (s, adv dr (32 * rs.length) rest) ∧ s.roots = rs := by
  have hsc : dr.scope = 32 * rs.length := by simp only [DR.scope]; omega
  unfold readRootsLimited
  simp only [hsc]
  rw [if_neg (by omega)]
  have hdiv : 32 * rs.length / 32 = rs.length := by omega
  rw [hdiv, if_neg (by omega)]
  exact readRoots_ok dst rs dr rest h32 hav (by omega)

/-! ### spec side: series of `uint8` and of roots -/

theorem u8_series : ∀ (vs : List Val), allHaveType (.uint 1) vs = true →
    (serList (.uint 1) vs).flatten = vs.map byteOfVal ∧ (vs.map byteOfVal).map numOfByte = vs := by
  intro vs
  induction vs with
  | nil => intro _; exact ⟨rfl, rfl⟩
  | cons v vs ih =>
    intro h
    simp only [allHaveType, Bool.and_eq_true] at h
    obtain ⟨ih1, ih2⟩ := ih h.2
    cases v <;> simp [hasType] at h
    rename_i n
    have hn : n < 256 := h.1
    have hb : (UInt8.ofNat n).toNat = n := by
      rw [UInt8.toNat_ofNat']; exact Nat.mod_eq_of_lt hn
    constructor
    · simp only [serList, List.flatten_cons, ih1, serialize, leBytes, List.map_cons, byteOfVal,
        Nat.mod_eq_of_lt hn]
      rfl
    · simp only [List.map_cons, ih2, byteOfVal, numOfByte, hb]

theorem root_series : ∀ (vs : List Val), allHaveType (.bytesN 32) vs = true →
    ∃ rs : List Bytes, vs = rs.map Val.bytes ∧ (∀ r ∈ rs, r.length = 32) ∧
      (serList (.bytesN 32) vs).flatten = rs.flatten := by
  intro vs
  induction vs with
  | nil => intro _; exact ⟨[], rfl, fun r hr => (by cases hr), rfl⟩
  | cons v vs ih =>
    intro h
    simp only [allHaveType, Bool.and_eq_true] at h
    obtain ⟨rs, h1, h2, h3⟩ := ih h.2
    cases v <;> simp [hasType] at h
    rename_i bs
    refine ⟨bs :: rs, by simp [h1], ?_, ?_⟩
    · intro r hr
      rcases List.mem_cons.mp hr with rfl | hr'
      · exact h.1
      · exact h2 r hr'
    · simp only [serList, List.flatten_cons, h3, serialize]

end ZtypV.FlatProofs.Dec
