/-
C03, leaf and bitfield types: soundness (`Sound`) and panic freedom (`NoPanic`) of the
decoders of uint, bool, bytesN, bitvector, bitlist.
-/
import ZtypV.Proofs.DecodeBits
import ZtypV.Proofs.DecodeBasic
namespace ZtypV.DecodeProofs
open ZtypV ZtypV.View

theorem uint_leafSound (h : HashFn) (b : Nat) : LeafSound h (.uint b) := by
  intro dr n dr' hd
  simp only [Ty.fixedSize]
  rw [decode] at hd
  obtain ⟨⟨bs, d1⟩, h1, h2⟩ := bind_eq_ok hd
  cases h2
  obtain ⟨hl, hbs, hav, _, _⟩ := read_ok h1
  have hlen : bs.length = b := by rw [hbs, List.length_take]; omega
  have hrt : leBytes b (leNat bs) = bs := by
    have := leBytes_leNat bs
    rwa [hlen] at this
  refine ⟨.num (leNat bs), ?_, ?_, ?_, ?_, ?_⟩
  · have := leNat_lt bs
    rw [hlen] at this
    simpa [hasType] using this
  · simp only [serialize]; rw [hrt, hbs]
  · omega
  · exact hav
  · simp only [construct]; rw [hrt]

theorem uint_sound (h : HashFn) (b : Nat) : Sound h (.uint b) := (uint_leafSound h b).sound rfl

theorem uint_noPanic (h : HashFn) (b : Nat) : NoPanic h (.uint b) := by
  intro dr
  rw [decode]
  apply bind_ne_panic (read_ne_panic dr b)
  intro a _ hc
  cases hc

theorem bytesN_leafSound (h : HashFn) (k : Nat) : LeafSound h (.bytesN k) := by
  intro dr n dr' hd
  simp only [Ty.fixedSize]
  rw [decode] at hd
  obtain ⟨⟨bs, d1⟩, h1, h2⟩ := bind_eq_ok hd
  cases h2
  obtain ⟨hl, hbs, hav, _, _⟩ := read_ok h1
  have hlen : bs.length = k := by rw [hbs, List.length_take]; omega
  refine ⟨.bytes bs, ?_, ?_, ?_, ?_, ?_⟩
  · simpa [hasType] using hlen
  · simp only [serialize]; exact hbs
  · omega
  · exact hav
  · simp only [construct]

theorem bytesN_sound (h : HashFn) (k : Nat) : Sound h (.bytesN k) := (bytesN_leafSound h k).sound rfl

theorem bytesN_noPanic (h : HashFn) (k : Nat) : NoPanic h (.bytesN k) := by
  intro dr
  rw [decode]
  apply bind_ne_panic (read_ne_panic dr k)
  intro a _ hc
  cases hc

set_option maxRecDepth 100000 in
theorem tbl_bool : ∀ n : Fin 256, ¬ (UInt8.ofNat n.val > 1) →
    UInt8.ofNat n.val = 0 ∨ UInt8.ofNat n.val = 1 := by
  decide

theorem byte_le_one (x : UInt8) (hx : ¬ x > 1) : x = 0 ∨ x = 1 := by
  have := tbl_bool ⟨x.toNat, UInt8.toNat_lt x⟩
  simpa [UInt8.ofNat_toNat, hx] using this

theorem bool_leafSound (h : HashFn) : LeafSound h .bool := by
  intro dr n dr' hd
  simp only [Ty.fixedSize]
  rw [decode] at hd
  obtain ⟨⟨bs, d1⟩, h1, h2⟩ := bind_eq_ok hd
  obtain ⟨hl, hbs, hav, _, _⟩ := read_ok h1
  simp only at h2
  split at h2
  · rename_i x
    split at h2; · cases h2
    rename_i hx
    cases h2
    rcases byte_le_one x hx with rfl | rfl
    · refine ⟨.bool false, rfl, ?_, by omega, hav, rfl⟩
      rw [← hbs]; rfl
    · refine ⟨.bool true, rfl, ?_, by omega, hav, rfl⟩
      rw [← hbs]; rfl
  · cases h2

theorem bool_sound (h : HashFn) : Sound h .bool := (bool_leafSound h).sound rfl

theorem bool_noPanic (h : HashFn) : NoPanic h .bool := by
  intro dr
  rw [decode]
  apply bind_ne_panic (read_ne_panic dr 1)
  rintro ⟨bs, d1⟩ h1
  obtain ⟨hl, hbs, _⟩ := read_ok h1
  have hlen : bs.length = 1 := by rw [hbs, List.length_take]; omega
  match bs, hlen with
  | [x], _ =>
    simp only
    split <;> (intro hc; cases hc)

/-! ### bitvector -/

theorem bitvector_sound (h : HashFn) (k : Nat) : Sound h (.bitvector k) := by
  intro dr n dr' hd _
  rw [decode] at hd
  simp only at hd
  split at hd; · cases hd
  rename_i hsc
  have hsc : (k + 7) / 8 = dr.scope := by simpa using hsc
  obtain ⟨⟨bs, d1⟩, h1, h2⟩ := bind_eq_ok hd
  obtain ⟨hl, hbs, hav, _, _⟩ := read_ok h1
  simp only at h2
  obtain ⟨hbad, h2⟩ := ite_err_eq_ok h2
  obtain ⟨n', hn, h3⟩ := bind_eq_ok h2
  cases h3
  have hn := orNil_eq_ok hn
  have hlen : bs.length = (k + 7) / 8 := by rw [hbs, List.length_take]; omega
  obtain ⟨bits, hbl, hpk⟩ := bitvector_bits k bs hlen (by
    intro hr last hlast
    have hs0 : dr.scope ≠ 0 := by omega
    simp only [hlast] at hbad
    simpa [hs0, hr] using hbad)
  refine ⟨.bits bits, ?_, ?_, hl, hav, ?_⟩
  · simpa [hasType] using hbl
  · simp only [serialize]; rw [hpk, hbs]
  · simp only [construct, bitsToBytes]
    rw [if_neg (by simpa using hbl), hpk, hn]; rfl

theorem bitvector_chunks (k : Nat) : ((k + 7) / 8 + 31) / 32 = (k + 255) / 256 := by omega

theorem bitvector_noPanic (h : HashFn) (k : Nat) : NoPanic h (.bitvector k) := by
  intro dr
  rw [decode]
  simp only
  split; · intro hc; cases hc
  rename_i hsc
  have hsc : (k + 7) / 8 = dr.scope := by simpa using hsc
  apply bind_ne_panic (read_ne_panic dr _)
  rintro ⟨bs, d1⟩ h1
  obtain ⟨hl, hbs, _⟩ := read_ok h1
  have hlen : bs.length = (k + 7) / 8 := by rw [hbs, List.length_take]; omega
  simp only
  apply ite_ne_panic (fun _ => other_ne_panic)
  intro _
  apply bind_ne_panic
  · apply orNil_ne_panic
    apply fill_bytes_ok
    rw [hlen, bitvector_chunks]; exact Nat.le_refl _
  · intro a _ hc; cases hc

/-! ### bitlist -/

theorem byteBitIndex_one : byteBitIndex 1 = 0 := by decide

theorem bitlist_sound (h : HashFn) (lim : Nat) : Sound h (.bitlist lim) := by
  intro dr n dr' hd _
  rw [decode] at hd
  simp only at hd
  obtain ⟨hs0, hd⟩ := ite_err_eq_ok hd
  obtain ⟨hs1, hd⟩ := ite_err_eq_ok hd
  obtain ⟨⟨bs, d1⟩, h1, h2⟩ := bind_eq_ok hd
  obtain ⟨hl, hbs, hav, _, _⟩ := read_ok h1
  have hlen : bs.length = dr.scope := by rw [hbs, List.length_take]; omega
  simp only at h2
  cases hg : bs.getLast? with
  | none => rw [hg] at h2; cases h2
  | some last =>
    rw [hg] at h2
    simp only at h2
    obtain ⟨hne, h2⟩ := ite_err_eq_ok h2
    obtain ⟨bits, hbl, hpk1, hpk2⟩ := bitlist_bits bs last hg hne
    by_cases hsp : dr.scope = 1 ∧ last = 1
    · rw [if_pos hsp] at h2
      cases h2
      obtain ⟨hsc1, rfl⟩ := hsp
      have hb0 : bits = [] := by
        apply List.eq_nil_of_length_eq_zero
        rw [hbl, hlen, hsc1, byteBitIndex_one]
      subst hb0
      refine ⟨.bits [], by simp [hasType], ?_, hl, hav, ?_⟩
      · simp only [serialize]; rw [hpk1, hbs]
      · simp only [construct, bitsToBytes, packBits_nil, bytesIntoNodes_nil, fillToContents_nil]
        simp [orNil, lengthNode_zero h, bind, Except.bind]
    · rw [if_neg hsp] at h2
      obtain ⟨hlim, h2⟩ := ite_err_eq_ok h2
      obtain ⟨c, hc, h3⟩ := bind_eq_ok h2
      cases h3
      have hc := orNil_eq_ok hc
      rw [hlen] at hbl
      have hle : bits.length ≤ lim := by omega
      refine ⟨.bits bits, by simpa [hasType] using hle, ?_, hl, hav, ?_⟩
      · simp only [serialize]; rw [hpk1, hbs]
      · simp only [construct, bitsToBytes]
        rw [if_neg (by omega), hpk2, hc, hbl]; rfl

theorem bitlist_noPanic (h : HashFn) (lim : Nat) : NoPanic h (.bitlist lim) := by
  intro dr
  rw [decode]
  simp only
  apply ite_ne_panic (fun _ => other_ne_panic); intro hs0
  apply ite_ne_panic (fun _ => other_ne_panic); intro hs1
  apply bind_ne_panic (read_ne_panic dr _)
  rintro ⟨bs, d1⟩ h1
  obtain ⟨hl, hbs, _⟩ := read_ok h1
  have hlen : bs.length = dr.scope := by rw [hbs, List.length_take]; omega
  simp only
  cases hg : bs.getLast? with
  | none =>
    exfalso
    have : bs = [] := by simpa using hg
    subst this
    simp at hlen; omega
  | some last =>
    simp only
    apply ite_ne_panic (fun _ => other_ne_panic); intro hne
    apply ite_ne_panic (fun _ => ok_ne_panic _); intro hsp
    apply ite_ne_panic (fun _ => other_ne_panic); intro hlim
    have h8 : byteBitIndex last < 8 := (byte_delim last hne).1
    apply bind_ne_panic
    · apply orNil_ne_panic
      apply fill_bytes_ok
      split
      · rename_i h0
        rw [List.length_dropLast, hlen]
        rw [h0] at hlim
        omega
      · rename_i h0
        rw [List.length_append, List.length_dropLast, hlen]
        simp only [List.length_cons, List.length_nil]
        omega
    · intro a _; exact ok_ne_panic _

end ZtypV.DecodeProofs
