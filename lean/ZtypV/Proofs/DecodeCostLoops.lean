/-
C20, helper lemmas, part 2: cost of `SubtreeFillToContents`, arithmetic of the cost monad,
the reader, and the four element loops (fixed-size items, offset-delimited items, the two
container loops): a tight bound for successful runs in potential form
(`cost + R · bytes left ≤ … + R · bytes available`) and a loose bound for every run.
-/
import ZtypV.Proofs.DecodeCost
namespace ZtypV.CostProofs
open ZtypV ZtypV.View ZtypV.DecodeProofs

variable {α β : Type}

/-! ### `fillCost` -/

theorem fillCost_full : ∀ d : Nat, fillCost d (2 ^ d) + 1 ≤ 2 ^ d := by
  intro d
  induction d with
  | zero => rw [fillCost]; simp
  | succ d ih =>
    have hp : 0 < 2 ^ d := Nat.two_pow_pos d
    have h2 : 2 ^ (d + 1) = 2 ^ d + 2 ^ d := by rw [Nat.pow_succ]; omega
    rw [fillCost]
    rw [if_neg (by omega), if_neg (by omega)]
    by_cases hd : d = 0
    · subst hd; simp
    · rw [if_neg hd, if_neg (by omega)]
      have : 2 ^ (d + 1) - 2 ^ d = 2 ^ d := by omega
      rw [this]; omega

theorem fillCost_le : ∀ d k : Nat, fillCost d k ≤ k + d := by
  intro d
  induction d with
  | zero =>
    intro k; rw [fillCost]
    split; · omega
    split <;> simp
  | succ d ih =>
    intro k
    rw [fillCost]
    split; · omega
    split; · omega
    split; · omega
    split
    · have := ih k; omega
    · have h1 := fillCost_full d
      have h2 := ih (k - 2 ^ d)
      omega

/-! ### the cost monad: costs -/

theorem cost_bind (x : CR α) (f : α → CR β) : (x >>= f).cost =
    x.cost + (match x.res with
      | .ok a => (f a).cost
      | .error _ => 0) := by
  show (CR.bind x f).cost = _
  unfold CR.bind
  cases x.res <;> rfl

theorem cost_bind_ok {x : CR α} {f : α → CR β} {a : α} (hx : x.res = .ok a) :
    (x >>= f).cost = x.cost + (f a).cost := by
  rw [cost_bind, hx]
theorem cost_bind_err {x : CR α} {f : α → CR β} {e : Err} (hx : x.res = .error e) :
    (x >>= f).cost = x.cost := by
  rw [cost_bind, hx]; rfl
theorem res_bind_ok {x : CR α} {f : α → CR β} {a : α} (hx : x.res = .ok a) :
    (x >>= f).res = (f a).res := by
  rw [res_bind, hx]; rfl
theorem res_bind_err {x : CR α} {f : α → CR β} {e : Err} (hx : x.res = .error e) :
    (x >>= f).res = .error e := by
  rw [res_bind, hx]; rfl

/-- every run of `x >>= f` stays below `B` when `x` does and every continuation does -/
theorem acc_bind_le {n : Nat} {x : CR α} {f : α → CR β} {B : Nat} (hx : n + x.cost ≤ B)
    (hf : ∀ a, x.res = .ok a → n + x.cost + (f a).cost ≤ B) : n + (x >>= f).cost ≤ B := by
  cases hr : x.res with
  | error e => rw [cost_bind_err hr]; exact hx
  | ok a => rw [cost_bind_ok hr, ← Nat.add_assoc]; exact hf a hr

/-- a successful `x >>= f`: both parts succeeded, costs add up -/
theorem bind_ok_inv {x : CR α} {f : α → CR β} {b : β} (hb : (x >>= f).res = .ok b) :
    ∃ a, x.res = .ok a ∧ (f a).res = .ok b ∧ (x >>= f).cost = x.cost + (f a).cost := by
  cases hr : x.res with
  | error e => rw [res_bind_err hr] at hb; cases hb
  | ok a => exact ⟨a, rfl, by rw [res_bind_ok hr] at hb; exact hb, cost_bind_ok hr⟩

theorem cost_bind_zero (x : CR α) (f : α → CR β) (hf : ∀ a, (f a).cost = 0) :
    (x >>= f).cost = x.cost := by
  rw [cost_bind]; split <;> simp [hf]

theorem cost_pure (a : α) : (pure a : CR α).cost = 0 := rfl
theorem cost_lift (r : R α) : (CR.lift r).cost = 0 := rfl
theorem cost_tick (n : Nat) : (CR.tick n).cost = n := rfl
theorem cost_fail (e : Err) : (CR.fail e : CR α).cost = 0 := rfl

theorem mul_split (r a b : Nat) (hab : a ≤ b) : r * a + r * (b - a) = r * b := by
  rw [← Nat.mul_add]; congr 1; omega


/-! ### the reader -/

theorem read_ok' {dr dr' : DR} {n : Nat} {bs : Bytes} (h : dr.read n = .ok (bs, dr')) :
    dr'.scope + n = dr.scope ∧ dr'.avail.length + n = dr.avail.length ∧ bs.length = n := by
  unfold DR.read at h
  split at h
  · rename_i h0; subst h0; cases h; simp
  split at h; · cases h
  split at h; · cases h
  rename_i h1 h2 h3
  cases h
  simp only [DR.scope, List.length_drop, List.length_take]
  omega

theorem readOffset_ok' {dr dr' : DR} {o : Nat} (h : dr.readOffset = .ok (o, dr')) :
    dr'.scope + 4 = dr.scope ∧ dr'.avail.length + 4 = dr.avail.length := by
  unfold DR.readOffset at h
  obtain ⟨⟨bs, d1⟩, h1, h⟩ := bind_eq_ok h
  cases h
  obtain ⟨h2, h3, _⟩ := read_ok' h1
  exact ⟨h2, h3⟩

theorem readOffsets_ok' : ∀ (n prev : Nat) (dr : DR) (os : List Nat) (dr' : DR),
    readOffsets n prev dr = .ok (os, dr') →
    os.length = n ∧ dr'.scope + 4 * n = dr.scope ∧ dr'.avail.length + 4 * n = dr.avail.length := by
  intro n
  induction n with
  | zero => intro prev dr os dr' h; rw [readOffsets] at h; cases h; simp
  | succ n ih =>
    intro prev dr os dr' h
    rw [readOffsets] at h
    obtain ⟨⟨o, d1⟩, h1, h⟩ := bind_eq_ok h
    dsimp only at h
    obtain ⟨_, h⟩ := ite_err_eq_ok h
    obtain ⟨⟨os', d2⟩, h2, h⟩ := bind_eq_ok h
    cases h
    obtain ⟨a1, a2⟩ := readOffset_ok' h1
    obtain ⟨b1, b2, b3⟩ := ih _ _ _ _ h2
    simp only [List.length_cons]
    omega

/-- the child reader of `SubScope(count)` -/
def subDR (dr : DR) (count : Nat) : DR := { i := 0, max := count, avail := dr.avail.take count }

theorem subDR_scope (dr : DR) (count : Nat) : (subDR dr count).scope = count := by
  simp [subDR, DR.scope]
theorem subDR_avail_le (dr : DR) (count : Nat) : (subDR dr count).avail.length ≤ dr.avail.length := by
  simp only [subDR, List.length_take]; omega

theorem inSubC_fail {dr : DR} {count : Nat} (f : DR → CR (α × DR)) (hc : dr.scope < count) :
    (dr.inSubC count f).cost = 0 ∧ ∃ e, (dr.inSubC count f).res = .error e := by
  have hs : (CR.lift (dr.sub count)).res = .error .other := by
    rw [res_lift]; unfold DR.sub; rw [if_pos hc]
  unfold DR.inSubC
  exact ⟨by rw [cost_bind_err hs]; rfl, .other, by rw [res_bind_err hs]⟩

theorem inSubC_run {dr : DR} {count : Nat} (f : DR → CR (α × DR)) (hc : ¬ dr.scope < count) :
    (dr.inSubC count f).cost = 96 + (f (subDR dr count)).cost ∧
    (dr.inSubC count f).res = (match (f (subDR dr count)).res with
      | .ok (a, c1) => .ok (a, dr.after (subDR dr count) c1)
      | .error e => .error e) := by
  have hs : (CR.lift (dr.sub count)).res = .ok (subDR dr count) := by
    rw [res_lift]; unfold DR.sub subDR; rw [if_neg hc]
  have ht : (CR.tick 96).res = .ok () := rfl
  unfold DR.inSubC
  rw [cost_bind_ok hs, res_bind_ok hs, cost_bind_ok ht, res_bind_ok ht, cost_lift, cost_tick]
  cases hr : (f (subDR dr count)).res with
  | error e => rw [cost_bind_err hr, res_bind_err hr]; simp
  | ok p =>
    obtain ⟨a, c1⟩ := p
    rw [cost_bind_ok hr, res_bind_ok hr]
    exact ⟨by simp [cost_pure], rfl⟩

section
variable {h : HashFn}

/-- successful decoders consume exactly their scope (from `decode_sound`) -/
theorem consumed {t : Ty} {dr dr' : DR} {n : Node} (hr : (decodeM h t dr).res = .ok (n, dr'))
    (hleaf : isLeafTy t = true → dr.scope = t.fixedSize) :
    dr.scope ≤ dr.avail.length ∧ dr'.avail = dr.avail.drop dr.scope := by
  rw [decodeM_res] at hr
  obtain ⟨v, _, _, h1, h2, _⟩ := decode_sound h t dr n dr' hr hleaf
  exact ⟨h1, h2⟩

/-- one element in its own sub-scope, successful -/
theorem inSubM_ok {t : Ty} {dr dr' : DR} {count : Nat} {x : Node}
    (hleaf : isLeafTy t = true → count = t.fixedSize)
    (hr : (dr.inSubC count (fun d => decodeM h t d)).res = .ok (x, dr')) :
    count ≤ dr.scope ∧ count ≤ dr.avail.length ∧ dr'.avail.length + count = dr.avail.length ∧
      dr'.scope = dr.scope ∧
      (∃ c1, (decodeM h t (subDR dr count)).res = .ok (x, c1)) ∧
      (dr.inSubC count (fun d => decodeM h t d)).cost = 96 + (decodeM h t (subDR dr count)).cost := by
  by_cases hc : dr.scope < count
  · obtain ⟨_, e, he⟩ := inSubC_fail (fun d => decodeM h t d) hc
    rw [he] at hr; cases hr
  · obtain ⟨hcost, hres⟩ := inSubC_run (fun d => decodeM h t d) hc
    rw [hres] at hr
    cases hd : (decodeM h t (subDR dr count)).res with
    | error e => rw [hd] at hr; cases hr
    | ok p =>
      obtain ⟨a, c1⟩ := p
      rw [hd] at hr
      cases hr
      obtain ⟨h1, h2⟩ := consumed hd (by rw [subDR_scope]; exact hleaf)
      rw [subDR_scope] at h1 h2
      have hlen : (subDR dr count).avail.length = min count dr.avail.length := by
        simp [subDR, List.length_take]
      have hc1 : c1.avail.length = (subDR dr count).avail.length - count := by
        rw [h2, List.length_drop]
      refine ⟨by omega, by omega, ?_, rfl, ⟨c1, rfl⟩, hcost⟩
      simp only [DR.after, List.length_drop]
      omega

/-- one element in its own sub-scope, any outcome -/
theorem inSubM_any {t : Ty} {r F : Nat} (dr : DR) (count : Nat)
    (hany : ∀ d, (decodeM h t d).cost ≤ r * d.avail.length + r * d.scope + F) :
    (dr.inSubC count (fun d => decodeM h t d)).cost ≤ 96 + r * dr.avail.length + r * dr.scope + F := by
  by_cases hc : dr.scope < count
  · rw [(inSubC_fail (fun d => decodeM h t d) hc).1]; omega
  · rw [(inSubC_run (fun d => decodeM h t d) hc).1]
    have h1 := hany (subDR dr count)
    rw [subDR_scope] at h1
    have h2 := Nat.mul_le_mul_left r (subDR_avail_le dr count)
    have h3 : r * count ≤ r * dr.scope := Nat.mul_le_mul_left r (by omega)
    omega


/-- cost of a successful run of the decoder of `t`: `r` units per byte of scope, plus 192 -/
def OKc (h : HashFn) (t : Ty) (r : Nat) : Prop :=
  ∀ (dr : DR) (n : Node) (dr' : DR), (decodeM h t dr).res = .ok (n, dr') →
    (isLeafTy t = true → dr.scope = t.fixedSize) → (decodeM h t dr).cost ≤ r * dr.scope + 192

/-- cost of any run: `r` units per available byte and per byte of scope, plus `F` -/
def ANYc (h : HashFn) (t : Ty) (r F : Nat) : Prop :=
  ∀ dr : DR, (decodeM h t dr).cost ≤ r * dr.avail.length + r * dr.scope + F

theorem OKc.mono {t : Ty} {r r' : Nat} (hk : OKc h t r) (hr : r ≤ r') : OKc h t r' := by
  intro dr n dr' h1 h2
  have := hk dr n dr' h1 h2
  have := Nat.mul_le_mul_right dr.scope hr
  omega

theorem ANYc.mono {t : Ty} {r r' F F' : Nat} (hk : ANYc h t r F) (hr : r ≤ r') (hF : F ≤ F') :
    ANYc h t r' F' := by
  intro dr
  have := hk dr
  have := Nat.mul_le_mul_right dr.scope hr
  have := Nat.mul_le_mul_right dr.avail.length hr
  omega

/-! ### fixed-size items -/

theorem fixedItems_ok {e : Ty} {r size : Nat} (hok : OKc h e r)
    (hleaf : isLeafTy e = true → size = e.fixedSize) : ∀ (n : Nat) (dr : DR) (ns : List Node) (dr' : DR),
    (decodeFixedItemsC (fun d => decodeM h e d) size n dr).res = .ok (ns, dr') →
    ns.length = n ∧ dr'.avail.length ≤ dr.avail.length ∧
      (decodeFixedItemsC (fun d => decodeM h e d) size n dr).cost + r * dr'.avail.length ≤
        288 * n + r * dr.avail.length := by
  intro n
  induction n with
  | zero =>
    intro dr ns dr' hr
    rw [decodeFixedItemsC] at hr ⊢
    cases hr
    simp [cost_pure]
  | succ n ih =>
    intro dr ns dr' hr
    rw [decodeFixedItemsC] at hr ⊢
    obtain ⟨⟨x, d1⟩, h1, hr, hc1⟩ := bind_ok_inv hr
    rw [hc1]
    dsimp only at hr ⊢
    obtain ⟨⟨xs, d2⟩, h2, hr, hc2⟩ := bind_ok_inv hr
    rw [hc2]
    dsimp only at hr ⊢
    obtain ⟨b1, b2, b3⟩ := ih d1 xs d2 h2
    cases hr
    obtain ⟨_, a2, a3, _, ⟨c1, a5⟩, a6⟩ := inSubM_ok hleaf h1
    have hk := hok _ _ _ a5 (by rw [subDR_scope]; exact hleaf)
    rw [subDR_scope] at hk
    rw [a6, cost_pure]
    have e2 : r * d1.avail.length + r * size = r * dr.avail.length := by
      rw [← Nat.mul_add, a3]
    refine ⟨by simp [b1], by omega, ?_⟩
    omega

theorem fixedItems_any {e : Ty} {r F size : Nat} (hok : OKc h e r) (hany : ANYc h e r F)
    (hleaf : isLeafTy e = true → size = e.fixedSize) : ∀ (n : Nat) (dr : DR),
    (decodeFixedItemsC (fun d => decodeM h e d) size n dr).cost ≤
      288 * n + r * dr.avail.length + r * dr.scope + F := by
  intro n
  induction n with
  | zero => intro dr; rw [decodeFixedItemsC, cost_pure]; omega
  | succ n ih =>
    intro dr
    rw [decodeFixedItemsC]
    have hA := inSubM_any (h := h) dr size hany
    cases h1 : (dr.inSubC size (fun d => decodeM h e d)).res with
    | error err => rw [cost_bind_err h1]; omega
    | ok p =>
      obtain ⟨x, d1⟩ := p
      rw [cost_bind_ok h1]
      dsimp only
      obtain ⟨_, a2, a3, a4, ⟨c1, a5⟩, a6⟩ := inSubM_ok hleaf h1
      have hk := hok _ _ _ a5 (by rw [subDR_scope]; exact hleaf)
      rw [subDR_scope] at hk
      have hrest := ih d1
      rw [a4] at hrest
      have e2 : r * d1.avail.length + r * size = r * dr.avail.length := by
        rw [← Nat.mul_add, a3]
      rw [a6, cost_bind_zero _ _ (fun _ => rfl)]
      omega


/-! ### offset-delimited items -/

theorem offsetItems_ok {e : Ty} {r : Nat} (hok : OKc h e r) (hnl : isLeafTy e = false) (scope : Nat) :
    ∀ (offs : List Nat) (dr : DR) (ns : List Node) (dr' : DR),
    (decodeOffsetItemsC (fun d => decodeM h e d) scope offs dr).res = .ok (ns, dr') →
    ns.length = offs.length ∧ dr'.avail.length ≤ dr.avail.length ∧
      (decodeOffsetItemsC (fun d => decodeM h e d) scope offs dr).cost + r * dr'.avail.length ≤
        288 * offs.length + r * dr.avail.length
  | [], dr, ns, dr', hr => by
    rw [decodeOffsetItemsC] at hr ⊢
    cases hr
    simp [cost_pure]
  | [last], dr, ns, dr', hr => by
    rw [decodeOffsetItemsC] at hr ⊢
    by_cases hl : last > scope
    · rw [if_pos hl] at hr; cases hr
    · rw [if_neg hl] at hr ⊢
      obtain ⟨⟨x, d1⟩, h1, hr, hc1⟩ := bind_ok_inv hr
      rw [hc1]
      dsimp only at hr ⊢
      cases hr
      obtain ⟨_, a2, a3, _, ⟨c1, a5⟩, a6⟩ := inSubM_ok (by rw [hnl]; intro hc; cases hc) h1
      have hk := hok _ _ _ a5 (by rw [hnl]; intro hc; cases hc)
      rw [subDR_scope] at hk
      rw [a6, cost_pure]
      have e2 : r * dr'.avail.length + r * (scope - last) = r * dr.avail.length := by
        rw [← Nat.mul_add, a3]
      refine ⟨rfl, by omega, ?_⟩
      simp only [List.length_cons, List.length_nil]
      omega
  | o :: o' :: rest, dr, ns, dr', hr => by
    rw [decodeOffsetItemsC] at hr ⊢
    obtain ⟨⟨x, d1⟩, h1, hr, hc1⟩ := bind_ok_inv hr
    rw [hc1]
    dsimp only at hr ⊢
    obtain ⟨⟨xs, d2⟩, h2, hr, hc2⟩ := bind_ok_inv hr
    rw [hc2]
    dsimp only at hr ⊢
    obtain ⟨b1, b2, b3⟩ := offsetItems_ok hok hnl scope (o' :: rest) d1 xs d2 h2
    cases hr
    obtain ⟨_, a2, a3, _, ⟨c1, a5⟩, a6⟩ := inSubM_ok (by rw [hnl]; intro hc; cases hc) h1
    have hk := hok _ _ _ a5 (by rw [hnl]; intro hc; cases hc)
    rw [subDR_scope] at hk
    rw [a6, cost_pure]
    have e2 : r * d1.avail.length + r * (o' - o) = r * dr.avail.length := by
      rw [← Nat.mul_add, a3]
    refine ⟨by simp [b1], by omega, ?_⟩
    simp only [List.length_cons] at b3 ⊢
    omega

theorem offsetItems_any {e : Ty} {r F : Nat} (hok : OKc h e r) (hany : ANYc h e r F)
    (hnl : isLeafTy e = false) (scope : Nat) : ∀ (offs : List Nat) (dr : DR),
    (decodeOffsetItemsC (fun d => decodeM h e d) scope offs dr).cost ≤
      288 * offs.length + r * dr.avail.length + r * dr.scope + F
  | [], dr => by rw [decodeOffsetItemsC, cost_pure]; omega
  | [last], dr => by
    rw [decodeOffsetItemsC]
    by_cases hl : last > scope
    · rw [if_pos hl, cost_fail]; omega
    · rw [if_neg hl]
      have hA := inSubM_any (h := h) dr (scope - last) hany
      rw [cost_bind_zero _ _ (fun _ => rfl)]
      simp only [List.length_cons, List.length_nil]
      omega
  | o :: o' :: rest, dr => by
    rw [decodeOffsetItemsC]
    have hA := inSubM_any (h := h) dr (o' - o) hany
    simp only [List.length_cons] at hA ⊢
    cases h1 : (dr.inSubC (o' - o) (fun d => decodeM h e d)).res with
    | error err => rw [cost_bind_err h1]; omega
    | ok p =>
      obtain ⟨x, d1⟩ := p
      rw [cost_bind_ok h1]
      dsimp only
      obtain ⟨_, a2, a3, a4, ⟨c1, a5⟩, a6⟩ := inSubM_ok (by rw [hnl]; intro hc; cases hc) h1
      have hk := hok _ _ _ a5 (by rw [hnl]; intro hc; cases hc)
      rw [subDR_scope] at hk
      have hrest := offsetItems_any hok hany hnl scope (o' :: rest) d1
      rw [a4] at hrest
      simp only [List.length_cons] at hrest
      have e2 : r * d1.avail.length + r * (o' - o) = r * dr.avail.length := by
        rw [← Nat.mul_add, a3]
      rw [a6, cost_bind_zero _ _ (fun _ => rfl)]
      omega


/-! ### the two container loops -/

theorem mergeFields_length : ∀ (slots : List (Option Node)) (dyn : List Node),
    (mergeFields slots dyn).length = slots.length
  | [], _ => by rw [mergeFields]; rfl
  | some x :: slots, dyn => by rw [mergeFields]; simp [mergeFields_length slots dyn]
  | Option.none :: slots, d :: dyn => by rw [mergeFields]; simp [mergeFields_length slots dyn]
  | Option.none :: slots, [] => by rw [mergeFields]; simp [mergeFields_length slots []]

theorem fixedPart_ok {r : Nat} : ∀ (ts : List Ty), (∀ t ∈ ts, OKc h t r) →
    ∀ (prev : Nat) (first : Bool) (scope : Nat) (dr : DR) (slots : List (Option Node))
      (offs : List Nat) (dr' : DR),
    (decodeFixedPartM h ts prev first scope dr).res = .ok (slots, offs, dr') →
    slots.length = ts.length ∧ dr'.avail.length ≤ dr.avail.length ∧ dr'.scope ≤ dr.scope ∧
      (decodeFixedPartM h ts prev first scope dr).cost + r * dr'.avail.length ≤
        288 * ts.length + r * dr.avail.length
  | [], _, prev, first, scope, dr, slots, offs, dr', hr => by
    rw [decodeFixedPartM] at hr ⊢
    cases hr
    simp [cost_pure]
  | t :: ts, hok, prev, first, scope, dr, slots, offs, dr', hr => by
    have ih := fixedPart_ok ts (fun t' ht' => hok t' (by simp [ht']))
    rw [decodeFixedPartM] at hr ⊢
    by_cases hf : t.isFixed = true
    · rw [if_pos hf] at hr ⊢
      obtain ⟨⟨x, d1⟩, h1, hr, hc1⟩ := bind_ok_inv hr
      rw [hc1]
      dsimp only at hr ⊢
      obtain ⟨⟨sl, os, d2⟩, h2, hr, hc2⟩ := bind_ok_inv hr
      rw [hc2]
      dsimp only at hr ⊢
      obtain ⟨b1, b2, b3, b4⟩ := ih _ _ _ _ _ _ _ h2
      cases hr
      obtain ⟨_, a2, a3, a4, ⟨c1, a5⟩, a6⟩ := inSubM_ok (fun _ => rfl) h1
      have hk := hok t (by simp) _ _ _ a5 (by rw [subDR_scope]; intro _; rfl)
      rw [subDR_scope] at hk
      rw [a6, cost_pure]
      have e2 : r * d1.avail.length + r * t.fixedSize = r * dr.avail.length := by
        rw [← Nat.mul_add, a3]
      refine ⟨by simp [b1], by omega, by omega, ?_⟩
      simp only [List.length_cons]
      omega
    · rw [if_neg hf] at hr ⊢
      obtain ⟨⟨o, d1⟩, h1, hr, hc1⟩ := bind_ok_inv hr
      rw [hc1]
      dsimp only at hr ⊢
      split at hr; · cases hr
      split at hr; · cases hr
      split at hr; · cases hr
      rename_i c1 c2 c3
      rw [if_neg c1, if_neg c2, if_neg c3]
      obtain ⟨⟨sl, os, d2⟩, h2, hr, hc2⟩ := bind_ok_inv hr
      rw [hc2]
      dsimp only at hr ⊢
      obtain ⟨b1, b2, b3, b4⟩ := ih _ _ _ _ _ _ _ h2
      cases hr
      rw [res_lift] at h1
      obtain ⟨a1, a2⟩ := readOffset_ok' h1
      rw [cost_lift, cost_pure]
      have e2 : r * d1.avail.length ≤ r * dr.avail.length := Nat.mul_le_mul_left r (by omega)
      refine ⟨by simp [b1], by omega, by omega, ?_⟩
      simp only [List.length_cons]
      omega

theorem fixedPart_any {r F : Nat} : ∀ (ts : List Ty), (∀ t ∈ ts, OKc h t r) → (∀ t ∈ ts, ANYc h t r F) →
    ∀ (prev : Nat) (first : Bool) (scope : Nat) (dr : DR),
    (decodeFixedPartM h ts prev first scope dr).cost ≤
      288 * ts.length + r * dr.avail.length + r * dr.scope + F
  | [], _, _, prev, first, scope, dr => by rw [decodeFixedPartM, cost_pure]; omega
  | t :: ts, hok, hany, prev, first, scope, dr => by
    have ih := fixedPart_any ts (fun t' ht' => hok t' (by simp [ht'])) (fun t' ht' => hany t' (by simp [ht']))
    rw [decodeFixedPartM]
    simp only [List.length_cons]
    by_cases hf : t.isFixed = true
    · rw [if_pos hf]
      have hA := inSubM_any (h := h) dr t.fixedSize (hany t (by simp))
      cases h1 : (dr.inSubC t.fixedSize (fun d => decodeM h t d)).res with
      | error err => rw [cost_bind_err h1]; omega
      | ok p =>
        obtain ⟨x, d1⟩ := p
        rw [cost_bind_ok h1]
        dsimp only
        obtain ⟨_, a2, a3, a4, ⟨c1, a5⟩, a6⟩ := inSubM_ok (fun _ => rfl) h1
        have hk := hok t (by simp) _ _ _ a5 (by rw [subDR_scope]; intro _; rfl)
        rw [subDR_scope] at hk
        have hrest := ih prev first scope d1
        rw [a4] at hrest
        have e2 : r * d1.avail.length + r * t.fixedSize = r * dr.avail.length := by
          rw [← Nat.mul_add, a3]
        rw [a6, cost_bind_zero _ _ (fun _ => rfl)]
        omega
    · rw [if_neg hf]
      cases h1 : (CR.lift dr.readOffset).res with
      | error err => rw [cost_bind_err h1, cost_lift]; omega
      | ok p =>
        obtain ⟨o, d1⟩ := p
        rw [cost_bind_ok h1, cost_lift]
        dsimp only
        rw [res_lift] at h1
        obtain ⟨a1, a2⟩ := readOffset_ok' h1
        split; · rw [cost_fail]; omega
        split; · rw [cost_fail]; omega
        split; · rw [cost_fail]; omega
        have hrest := ih o false scope d1
        have e2 : r * d1.avail.length ≤ r * dr.avail.length := Nat.mul_le_mul_left r (by omega)
        have e3 : r * d1.scope ≤ r * dr.scope := Nat.mul_le_mul_left r (by omega)
        rw [cost_bind_zero _ _ (fun _ => rfl)]
        omega

theorem not_leaf_of_not_fixed {t : Ty} (hf : ¬ t.isFixed = true) : isLeafTy t = true → False := by
  intro hl; exact hf (isFixed_of_isLeafTy hl)

theorem dynPart_ok {r : Nat} : ∀ (ts : List Ty), (∀ t ∈ ts, OKc h t r) →
    ∀ (scope : Nat) (offs : List Nat) (dr : DR) (ns : List Node) (dr' : DR),
    (decodeDynPartM h ts scope offs dr).res = .ok (ns, dr') →
    dr'.avail.length ≤ dr.avail.length ∧
      (decodeDynPartM h ts scope offs dr).cost + r * dr'.avail.length ≤
        288 * ts.length + r * dr.avail.length
  | [], _, scope, offs, dr, ns, dr', hr => by
    rw [decodeDynPartM] at hr ⊢
    cases hr
    simp [cost_pure]
  | t :: ts, hok, scope, offs, dr, ns, dr', hr => by
    have ih := dynPart_ok ts (fun t' ht' => hok t' (by simp [ht']))
    rw [decodeDynPartM_cons] at hr ⊢
    simp only [List.length_cons]
    by_cases hf : t.isFixed = true
    · rw [if_pos hf] at hr ⊢
      obtain ⟨b1, b2⟩ := ih _ _ _ _ _ hr
      omega
    · rw [if_neg hf] at hr ⊢
      cases offs with
      | nil => cases hr
      | cons o rest =>
        dsimp only at hr ⊢
        obtain ⟨⟨x, d1⟩, h1, hr, hc1⟩ := bind_ok_inv hr
        rw [hc1]
        dsimp only at hr ⊢
        obtain ⟨⟨xs, d2⟩, h2, hr, hc2⟩ := bind_ok_inv hr
        rw [hc2]
        dsimp only at hr ⊢
        obtain ⟨b1, b2⟩ := ih _ _ _ _ _ h2
        cases hr
        obtain ⟨_, a2, a3, a4, ⟨c1, a5⟩, a6⟩ := inSubM_ok (fun hl => (not_leaf_of_not_fixed hf hl).elim) h1
        have hk := hok t (by simp) _ _ _ a5 (fun hl => (not_leaf_of_not_fixed hf hl).elim)
        rw [subDR_scope] at hk
        rw [a6, cost_pure]
        have e2 : r * d1.avail.length + r * (rest.headD scope - o) = r * dr.avail.length := by
          rw [← Nat.mul_add, a3]
        refine ⟨by omega, ?_⟩
        omega

theorem dynPart_any {r F : Nat} : ∀ (ts : List Ty), (∀ t ∈ ts, OKc h t r) → (∀ t ∈ ts, ANYc h t r F) →
    ∀ (scope : Nat) (offs : List Nat) (dr : DR),
    (decodeDynPartM h ts scope offs dr).cost ≤
      288 * ts.length + r * dr.avail.length + r * dr.scope + F
  | [], _, _, scope, offs, dr => by rw [decodeDynPartM, cost_pure]; omega
  | t :: ts, hok, hany, scope, offs, dr => by
    have ih := dynPart_any ts (fun t' ht' => hok t' (by simp [ht'])) (fun t' ht' => hany t' (by simp [ht']))
    rw [decodeDynPartM_cons]
    simp only [List.length_cons]
    by_cases hf : t.isFixed = true
    · rw [if_pos hf]
      have := ih scope offs dr
      generalize (decodeDynPartM h ts scope offs dr).cost = c at this ⊢
      omega
    · rw [if_neg hf]
      cases offs with
      | nil => dsimp only; rw [cost_fail]; omega
      | cons o rest =>
        dsimp only
        have hA := inSubM_any (h := h) dr (rest.headD scope - o) (hany t (by simp))
        cases h1 : (dr.inSubC (rest.headD scope - o) (fun d => decodeM h t d)).res with
        | error err => rw [cost_bind_err h1]; omega
        | ok p =>
          obtain ⟨x, d1⟩ := p
          rw [cost_bind_ok h1]
          dsimp only
          obtain ⟨_, a2, a3, a4, ⟨c1, a5⟩, a6⟩ :=
            inSubM_ok (fun hl => (not_leaf_of_not_fixed hf hl).elim) h1
          have hk := hok t (by simp) _ _ _ a5 (fun hl => (not_leaf_of_not_fixed hf hl).elim)
          rw [subDR_scope] at hk
          have hrest := ih scope rest d1
          rw [a4] at hrest
          have e2 : r * d1.avail.length + r * (rest.headD scope - o) = r * dr.avail.length := by
            rw [← Nat.mul_add, a3]
          rw [a6, cost_bind_zero _ _ (fun _ => rfl)]
          omega

end

end ZtypV.CostProofs
