/-
C09 (flat codec): DECODER COMPLETENESS.  Decoding the spec encoding of any well-typed value of a
well-formed type into a destination that previously held ANY content succeeds, and the
destination then holds exactly that value (`flatDecode_complete`).

Parts: FlatDecBase (reader, generic helpers of codec/decoder.go), FlatDecLeaf (basic values,
byte / bit slices, roots), this file (type recursion).  Core Lean only.
-/
import ZtypV.Proofs.FlatDecLeaf
namespace ZtypV.FlatProofs
open ZtypV ZtypV.View ZtypV.Flat

/- All helper definitions and lemmas of FlatDec*.lean live in the sub-namespace
   `ZtypV.FlatProofs.Dec` (the other C09/C10 files share `ZtypV.FlatProofs`); only `DComplete`,
   `flatDecode_complete` and `flatDecodeTop_complete` are at the top level. -/

/-- the decoder `f` of type `t` is complete: it decodes the encoding of every well-typed value
    (below 2^32 bytes) from any reader positioned on it -/
def DComplete (t : Ty) (f : DR → R (Val × DR)) : Prop :=
  ∀ (v : Val), hasType t v = true → (serialize t v).length < 2 ^ 32 →
    Dec.Dec f t.isFixed (serialize t v) v

namespace Dec

/-! ### the parts of a series / of a container -/

def serParts (e : Ty) (vs : List Val) : List (Bool × Bytes) :=
  vs.map fun v => (e.isFixed, serialize e v)

theorem encs_serParts (e : Ty) : ∀ (vs : List Val), encs (serParts e vs) = serList e vs := by
  intro vs
  induction vs with
  | nil => rfl
  | cons v vs ih =>
    simp only [serParts, List.map_cons, encs_cons, serList] at ih ⊢
    rw [ih]

theorem serParts_fst (e : Ty) (vs : List Val) : ∀ p ∈ serParts e vs, p.1 = e.isFixed := by
  intro p hp
  simp only [serParts, List.mem_map] at hp
  obtain ⟨v, _, rfl⟩ := hp
  rfl

theorem serParts_length (e : Ty) (vs : List Val) : (serParts e vs).length = vs.length := by
  simp [serParts]

theorem serParts_snd_length (e : Ty) (hf : e.isFixed = true) (vs : List Val)
    (hv : allHaveType e vs = true) : ∀ p ∈ serParts e vs, p.2.length = e.fixedSize := by
  intro p hp
  simp only [serParts, List.mem_map] at hp
  obtain ⟨v, hvm, rfl⟩ := hp
  exact serialize_fixed_length v e hf (allHaveType_mem e vs hv v hvm)

theorem decAll_series (e : Ty) (hw : e.wf = true) : ∀ (ds : List Des) (vs : List Val),
    ds.length = vs.length →
    (∀ d ∈ ds, d.fixedLength = flatFixedLength e ∧ DComplete e d.run) → allHaveType e vs = true →
    (∀ v ∈ vs, (serialize e v).length < 2 ^ 32) → DecAll ds (serParts e vs) vs := by
  intro ds
  induction ds with
  | nil =>
    intro vs hl _ _ _
    cases vs with
    | nil => exact DecAll.nil
    | cons v vs => simp at hl
  | cons d ds ih =>
    intro vs hl hd hv hlt
    cases vs with
    | nil => simp at hl
    | cons v vs =>
      simp only [allHaveType, Bool.and_eq_true] at hv
      simp only [List.length_cons, Nat.add_right_cancel_iff] at hl
      obtain ⟨hfl, hdc⟩ := hd d List.mem_cons_self
      refine DecAll.cons (hdc v hv.1 (hlt v List.mem_cons_self)) ?_ ?_
        (ih vs hl (fun d' hd' => hd d' (List.mem_cons_of_mem _ hd')) hv.2
          (fun v' hv' => hlt v' (List.mem_cons_of_mem _ hv')))
      · rw [hfl]
        cases hf : e.isFixed with
        | true =>
          simp only [if_true]
          rw [flatFixedLength_fixed hw hf, serialize_fixed_length v e hf hv.1]
        | false => simp [flatFixedLength_var hw hf]
      · intro hf
        rw [serialize_fixed_length v e hf hv.1]
        have := fixedSize_pos hw hf
        omega

theorem decAll_fields : ∀ (fs : List Ty) (vs : List Val) (p : Val) (k : Nat), Ty.wfAll fs = true →
    (∀ t ∈ fs, ∀ prior, DComplete t (flatDecode t prior)) → fieldsHaveType fs vs = true →
    (∀ x ∈ serFields fs vs, x.2.length < 2 ^ 32) →
    DecAll (flatFieldDes fs p k) (serFields fs vs) vs := by
  intro fs
  induction fs with
  | nil =>
    intro vs p k _ _ hv _
    cases vs with
    | nil => rw [flatFieldDes]; exact DecAll.nil
    | cons v vs => simp [fieldsHaveType] at hv
  | cons t ts ih =>
    intro vs p k hw hd hv hlt
    cases vs with
    | nil => simp [fieldsHaveType] at hv
    | cons v vs =>
      simp only [fieldsHaveType, Bool.and_eq_true] at hv
      simp only [Ty.wfAll, Bool.and_eq_true] at hw
      rw [flatFieldDes]
      simp only [serFields] at hlt ⊢
      refine DecAll.cons (hd t List.mem_cons_self _ v hv.1 (hlt _ List.mem_cons_self)) ?_ ?_
        (ih vs p (k + 1) hw.2 (fun t' ht' => hd t' (List.mem_cons_of_mem _ ht')) hv.2
          (fun x hx => hlt x (List.mem_cons_of_mem _ hx)))
      · cases hf : t.isFixed with
        | true =>
          simp only [if_true]
          rw [flatFixedLength_fixed hw.1 hf, serialize_fixed_length v t hf hv.1]
        | false => simp [flatFixedLength_var hw.1 hf]
      · intro hf
        rw [serialize_fixed_length v t hf hv.1]
        have := fixedSize_pos hw.1 hf
        omega

theorem serFields_allFixed : ∀ (fs : List Ty) (vs : List Val), Ty.allFixed fs = true →
    ∀ p ∈ serFields fs vs, p.1 = true := by
  intro fs
  induction fs with
  | nil => intro vs _ p hp; cases vs <;> cases hp
  | cons t ts ih =>
    intro vs hf p hp
    cases vs with
    | nil => cases hp
    | cons v vs =>
      simp only [Ty.allFixed, Bool.and_eq_true] at hf
      simp only [serFields] at hp
      rcases List.mem_cons.mp hp with rfl | hp'
      · exact hf.1
      · exact ih vs hf.2 p hp'

theorem serFields_hasVar : ∀ (fs : List Ty) (vs : List Val), Ty.allFixed fs = false →
    fieldsHaveType fs vs = true → ∃ p ∈ serFields fs vs, p.1 = false := by
  intro fs
  induction fs with
  | nil => intro vs hf _; simp [Ty.allFixed] at hf
  | cons t ts ih =>
    intro vs hf hv
    cases vs with
    | nil => simp [fieldsHaveType] at hv
    | cons v vs =>
      simp only [fieldsHaveType, Bool.and_eq_true] at hv
      simp only [serFields]
      cases hft : t.isFixed with
      | false => exact ⟨_, List.mem_cons_self, rfl⟩
      | true =>
        simp only [Ty.allFixed, hft, Bool.true_and] at hf
        obtain ⟨p, hp, hpf⟩ := ih vs hf hv.2
        exact ⟨p, List.mem_cons_of_mem _ hp, hpf⟩

theorem serContainerParts_allFixed : ∀ (ps : List (Bool × Bytes)), (∀ p ∈ ps, p.1 = true) →
    ∀ off, serFixedPart off ps = (encs ps).flatten ∧ serVarPart ps = [] := by
  intro ps
  induction ps with
  | nil => intro _ _; exact ⟨rfl, rfl⟩
  | cons q qs ih =>
    intro h off
    obtain ⟨fx, e⟩ := q
    have hfx : fx = true := h (fx, e) List.mem_cons_self
    subst hfx
    obtain ⟨h1, h2⟩ := ih (fun p hp => h p (List.mem_cons_of_mem _ hp)) off
    simp only [serFixedPart, serVarPart, encs_cons, List.flatten_cons, h1, h2, and_self]

/-! ### the cases of the type recursion -/

theorem uint_case (b : Nat) (p : Val) : DComplete (.uint b) (flatDecode (.uint b) p) := by
  intro v hv hlt
  cases v <;> simp [hasType] at hv
  rename_i n
  have hf : flatDecode (.uint b) p = decUint b := by funext dr; rw [flatDecode]
  rw [hf]
  simp only [serialize, Ty.isFixed]
  exact decUint_dec b n hv

theorem bool_case (p : Val) : DComplete .bool (flatDecode .bool p) := by
  intro v hv hlt
  cases v <;> simp [hasType] at hv
  rename_i b
  have hf : flatDecode .bool p = decBool := by funext dr; rw [flatDecode]
  rw [hf]
  simp only [serialize, Ty.isFixed]
  exact decBool_dec b

theorem bytesN_case (n : Nat) (p : Val) : DComplete (.bytesN n) (flatDecode (.bytesN n) p) := by
  intro v hv hlt
  cases v <;> simp [hasType] at hv
  rename_i bs
  subst hv
  simp only [serialize, Ty.isFixed]
  by_cases h32 : bs.length = 32
  · have hf : flatDecode (.bytesN bs.length) p = decRoot := by funext dr; rw [flatDecode, if_pos h32]
    rw [hf]
    exact decRoot_dec bs (by omega)
  · intro dr rest hav hi
    simp only [if_true] at hi
    obtain ⟨s, hs, hb⟩ := decByteVector_ok (priorSlice (.bytesN bs.length) p) dr bs rest hav hi
    refine ⟨adv dr bs.length rest, ?_, rfl, rfl, by simp⟩
    rw [flatDecode, if_neg h32, hs]
    simp only [R.bind_ok, hb]

theorem bitvector_case (n : Nat) (hw : (Ty.bitvector n).wf = true) (p : Val) :
    DComplete (.bitvector n) (flatDecode (.bitvector n) p) := by
  intro v hv hlt
  cases v <;> simp [hasType] at hv
  rename_i bits
  subst hv
  simp only [Ty.wf, decide_eq_true_eq] at hw
  simp only [serialize, Ty.isFixed]
  intro dr rest hav hi
  simp only [if_true] at hi
  obtain ⟨s, hs, hb⟩ := decBitVector_ok (priorSlice (.bitvector bits.length) p) dr bits rest (by omega) hav hi
  refine ⟨adv dr (packBits bits).length rest, ?_, rfl, rfl, by simp⟩
  rw [flatDecode, hs]
  simp only [R.bind_ok, hb, unpackBits_packBits bits bits.length (Nat.le_refl _), List.take_length]

theorem bitlist_case (lim : Nat) (p : Val) :
    DComplete (.bitlist lim) (flatDecode (.bitlist lim) p) := by
  intro v hv hlt
  cases v <;> simp [hasType] at hv
  rename_i bits
  simp only [serialize, Ty.isFixed]
  intro dr rest hav hi
  simp only [Bool.false_eq_true, if_false] at hi
  obtain ⟨s, hs, hb⟩ := decBitList_ok (priorSlice (.bitlist lim) p) lim dr bits rest hv hav hi
  refine ⟨adv dr (packBits (bits ++ [true])).length rest, ?_, rfl, rfl, by simp⟩
  rw [flatDecode, hs]
  simp only [R.bind_ok, hb, unpackBitlist_packBits]

theorem ser_series (e : Ty) (vs : List Val) :
    (if e.isFixed = true then (serList e vs).flatten else serVarParts (serList e vs)) =
      if e.isFixed = true then (encs (serParts e vs)).flatten else serVarParts (encs (serParts e vs)) := by
  rw [encs_serParts]

theorem mem_serList_of_mem (e : Ty) (v : Val) : ∀ (vs : List Val), v ∈ vs → serialize e v ∈ serList e vs := by
  intro vs
  induction vs with
  | nil => intro hv; cases hv
  | cons w ws ih =>
    intro hv
    simp only [serList]
    rcases List.mem_cons.mp hv with rfl | hv'
    · exact List.mem_cons_self
    · exact List.mem_cons_of_mem _ (ih hv')

theorem series_lt (e : Ty) (vs : List Val)
    (hlt : (if e.isFixed = true then (serList e vs).flatten else serVarParts (serList e vs)).length < 2 ^ 32) :
    ∀ v ∈ vs, (serialize e v).length < 2 ^ 32 := by
  intro v hv
  have hm : serialize e v ∈ serList e vs := mem_serList_of_mem e v vs hv
  have h1 := mem_le_flatten_length _ _ hm
  split at hlt
  · omega
  · rw [serVarParts_length] at hlt; omega

theorem vector_case (e : Ty) (n : Nat) (hw : (Ty.vector e n).wf = true)
    (ih : ∀ prior, DComplete e (flatDecode e prior)) (p : Val) :
    DComplete (.vector e n) (flatDecode (.vector e n) p) := by
  intro v hv hlt
  simp only [Ty.wf, Bool.and_eq_true, decide_eq_true_eq] at hw
  cases v <;> simp [hasType] at hv
  rename_i vs
  obtain ⟨hn, hall⟩ := hv
  subst hn
  simp only [serialize] at hlt ⊢
  simp only [Ty.isFixed]
  by_cases hu : isU8 e = true
  · have he := isU8_iff.mp hu
    subst he
    obtain ⟨h1, h2⟩ := u8_series vs hall
    simp only [Ty.isFixed, if_true, h1]
    intro dr rest hav hi
    obtain ⟨s, hs, hb⟩ := decByteVector_ok (priorSlice (.vector (.uint 1) vs.length) p) dr _ rest hav hi
    simp only [List.length_map] at hs hi ⊢
    refine ⟨adv dr vs.length rest, ?_, rfl, rfl, by simp⟩
    rw [flatDecode, if_pos hu, hs]
    simp only [R.bind_ok, hb, h2]
  by_cases hr : isRootTy e = true
  · have he := isRootTy_iff.mp hr
    subst he
    obtain ⟨rs, h1, h2, h3⟩ := root_series vs hall
    simp only [Ty.isFixed, if_true, h3]
    intro dr rest hav hi
    have hfl : rs.flatten.length = 32 * rs.length := by
      rw [flatten_uniform_length 32 rs h2]; omega
    rw [hfl] at hi ⊢
    obtain ⟨s, hs, hb⟩ := readRoots_ok (priorRoots p) rs dr rest h2 hav hi
    have hnl : vs.length = rs.length := by rw [h1, List.length_map]
    refine ⟨adv dr (32 * rs.length) rest, ?_, rfl, rfl, by simp⟩
    rw [flatDecode, if_neg hu, if_pos hr, hnl, hs]
    simp only [R.bind_ok, hb, h1]
  have hda : DecAll ((List.range vs.length).map fun i =>
      (⟨flatFixedLength e, fun d => flatDecode e (priorElem p i) d⟩ : Des)) (serParts e vs) vs := by
    apply decAll_series e hw.2 _ vs (by simp) _ hall (series_lt e vs hlt)
    intro d hd
    simp only [List.mem_map] at hd
    obtain ⟨i, _, rfl⟩ := hd
    exact ⟨rfl, ih _⟩
  rw [ser_series] at hlt ⊢
  intro dr rest hav hi
  cases hf : e.isFixed with
  | true =>
    simp only [hf, if_true] at hav hi hlt ⊢
    have hsz := serParts_snd_length e hf vs hall
    have hpos := fixedSize_pos hw.2 hf
    have hfl : (encs (serParts e vs)).flatten.length = vs.length * e.fixedSize := by
      rw [flatten_uniform_length e.fixedSize]
      · simp [encs, serParts]
      · intro l hl
        simp only [encs, List.mem_map] at hl
        obtain ⟨q, hq, rfl⟩ := hl
        exact hsz q hq
    rw [flatFixedLength_fixed hw.2 hf] at hda
    refine ⟨{ dr with avail := rest }, ?_, rfl, rfl, by simp⟩
    rw [flatDecode, if_neg hu, if_neg hr]
    simp only [decVector, flatFixedLength_fixed hw.2 hf]
    rw [if_pos (by omega), decFixedItems_ok e.fixedSize hda hsz dr rest hav (fun hne => by
      have : 0 < vs.length := by
        cases vs with
        | nil => simp [serParts] at hne
        | cons _ _ => simp
      have := Nat.le_mul_of_pos_left e.fixedSize this
      simp only [DR.scope]; omega)]
    rfl
  | false =>
    simp only [hf, Bool.false_eq_true, if_false] at hav hi hlt ⊢
    rw [flatFixedLength_var hw.2 hf] at hda
    obtain ⟨dr', h1, h2, h3, h4⟩ := decVector_var_ok hda
      (fun q hq => by rw [serParts_fst e vs q hq, hf])
      (by intro hc; have := serParts_length e vs; rw [hc] at this; simp at this; omega)
      dr rest hav (by simp only [DR.scope]; omega) hlt
    refine ⟨dr', ?_, h2, h3, h4⟩
    rw [flatDecode, if_neg hu, if_neg hr]
    simp only [flatFixedLength_var hw.2 hf, h1, R.bind_ok]

theorem list_case (e : Ty) (lim : Nat) (hw : (Ty.list e lim).wf = true)
    (ih : ∀ prior, DComplete e (flatDecode e prior)) (p : Val) :
    DComplete (.list e lim) (flatDecode (.list e lim) p) := by
  intro v hv hlt
  simp only [Ty.wf] at hw
  cases v <;> simp [hasType] at hv
  rename_i vs
  obtain ⟨hn, hall⟩ := hv
  simp only [serialize] at hlt ⊢
  simp only [Ty.isFixed]
  by_cases hu : isU8 e = true
  · have he := isU8_iff.mp hu
    subst he
    obtain ⟨h1, h2⟩ := u8_series vs hall
    simp only [Ty.isFixed, if_true, h1]
    intro dr rest hav hi
    simp only [Bool.false_eq_true, if_false] at hi
    obtain ⟨s, hs, hb⟩ := decByteList_ok (priorSlice (.list (.uint 1) lim) p) lim dr _ rest
      (by simpa using hn) hav hi
    simp only [List.length_map] at hs hi ⊢
    refine ⟨adv dr vs.length rest, ?_, rfl, rfl, by simp⟩
    rw [flatDecode, if_pos hu, hs]
    simp only [R.bind_ok, hb, h2]
  by_cases hr : isRootTy e = true
  · have he := isRootTy_iff.mp hr
    subst he
    obtain ⟨rs, h1, h2, h3⟩ := root_series vs hall
    simp only [Ty.isFixed, if_true, h3]
    intro dr rest hav hi
    simp only [Bool.false_eq_true, if_false] at hi
    have hfl : rs.flatten.length = 32 * rs.length := by
      rw [flatten_uniform_length 32 rs h2]; omega
    rw [hfl] at hi ⊢
    have hnl : rs.length ≤ lim := by rw [h1, List.length_map] at hn; exact hn
    obtain ⟨s, hs, hb⟩ := readRootsLimited_ok (priorRoots p) lim rs dr rest h2 hnl hav hi
    refine ⟨adv dr (32 * rs.length) rest, ?_, rfl, rfl, by simp⟩
    rw [flatDecode, if_neg hu, if_pos hr, hs]
    simp only [R.bind_ok, hb, h1]
  have hda : DecAll (List.replicate (serParts e vs).length
      (⟨flatFixedLength e, fun d => flatDecode e Val.none d⟩ : Des)) (serParts e vs) vs := by
    apply decAll_series e hw _ vs (by simp [serParts_length]) _ hall (series_lt e vs hlt)
    intro d hd
    obtain ⟨_, rfl⟩ := List.mem_replicate.mp hd
    exact ⟨rfl, ih _⟩
  have hpl : (serParts e vs).length ≤ lim := by rw [serParts_length]; exact hn
  rw [ser_series] at hlt ⊢
  intro dr rest hav hi
  simp only [Bool.false_eq_true, if_false] at hi
  cases hf : e.isFixed with
  | true =>
    simp only [hf, if_true] at hav hi hlt ⊢
    have hsz := serParts_snd_length e hf vs hall
    have hpos := fixedSize_pos hw hf
    rw [flatFixedLength_fixed hw hf] at hda
    refine ⟨{ dr with avail := rest }, ?_, rfl, rfl, by simp⟩
    rw [flatDecode, if_neg hu, if_neg hr]
    simp only [flatFixedLength_fixed hw hf]
    rw [decList_fixed_ok _ e.fixedSize lim (by omega) hda hsz hpl dr rest hav
      (by simp only [DR.scope]; omega)]
    rfl
  | false =>
    simp only [hf, Bool.false_eq_true, if_false] at hav hi hlt ⊢
    rw [flatFixedLength_var hw hf] at hda
    obtain ⟨dr', h1, h2, h3, h4⟩ := decList_var_ok _ lim hda
      (fun q hq => by rw [serParts_fst e vs q hq, hf]) hpl
      dr rest hav (by simp only [DR.scope]; omega) hlt
    refine ⟨dr', ?_, h2, h3, h4⟩
    rw [flatDecode, if_neg hu, if_neg hr]
    simp only [flatFixedLength_var hw hf, h1, R.bind_ok]

theorem container_case (fs : List Ty) (hw : (Ty.container fs).wf = true)
    (ih : ∀ t ∈ fs, ∀ prior, DComplete t (flatDecode t prior)) (p : Val) :
    DComplete (.container fs) (flatDecode (.container fs) p) := by
  intro v hv hlt
  simp only [Ty.wf, Bool.and_eq_true] at hw
  cases v <;> simp [hasType] at hv
  rename_i vs
  simp only [serialize] at hlt ⊢
  simp only [Ty.isFixed]
  have hparts : ∀ x ∈ serFields fs vs, x.2.length < 2 ^ 32 := by
    intro x hx
    have := part_le_serContainerParts _ x hx
    rw [serContainerParts_length] at hlt
    omega
  have hda := decAll_fields fs vs p 0 hw.2 ih hv hparts
  intro dr rest hav hi
  cases hf : Ty.allFixed fs with
  | true =>
    simp only [hf, if_true] at hi
    have hfx := serFields_allFixed fs vs hf
    obtain ⟨e1, e2⟩ := serContainerParts_allFixed _ hfx (fixedPartLen (serFields fs vs))
    have henc : serContainerParts (serFields fs vs) = (encs (serFields fs vs)).flatten := by
      rw [serContainerParts, e1, e2, List.append_nil]
    rw [henc] at hav hi ⊢
    obtain ⟨dr', h1, h2, h3, h4⟩ := decFixedLenContainer_ok hda hfx dr rest hav hi
    refine ⟨dr', ?_, h2, h3, h4⟩
    rw [flatDecode, if_pos hf, h1]
    rfl
  | false =>
    simp only [hf, Bool.false_eq_true, if_false] at hi
    obtain ⟨dr', h1, h2, h3, h4⟩ := decContainer_ok hda (serFields_hasVar fs vs hf hv) dr rest hav
      (by simp only [DR.scope]; omega) hlt
    refine ⟨dr', ?_, h2, h3, h4⟩
    rw [flatDecode, if_neg (by simp [hf]), h1]
    rfl

theorem flatSelect_some : ∀ (opts : List Ty) (k : Nat) (t : Ty), opts[k]? = some t →
    flatSelect opts k = .ok (some ⟨flatFixedLength t, fun d => flatDecode t Val.none d⟩) := by
  intro opts
  induction opts with
  | nil => intro k t h; simp at h
  | cons o os ih =>
    intro k t h
    cases k with
    | zero =>
      simp only [List.getElem?_cons_zero, Option.some.injEq] at h
      subst h
      rw [flatSelect]
    | succ k =>
      simp only [List.getElem?_cons_succ] at h
      rw [flatSelect]
      exact ih k t h

theorem union_case (hasNone : Bool) (opts : List Ty) (hw : (Ty.union hasNone opts).wf = true)
    (ih : ∀ t ∈ opts, ∀ prior, DComplete t (flatDecode t prior)) (p : Val) :
    DComplete (.union hasNone opts) (flatDecode (.union hasNone opts) p) := by
  intro v hv hlt
  simp only [Ty.wf, Bool.and_eq_true, decide_eq_true_eq] at hw
  obtain ⟨⟨_, hwf⟩, h128⟩ := hw
  cases v <;> try (simp [hasType] at hv; done)
  rename_i sel w
  simp only [hasType] at hv
  simp only [serialize] at hlt ⊢
  simp only [Ty.isFixed]
  intro dr rest hav hi
  simp only [Bool.false_eq_true, if_false, List.length_cons] at hi hlt
  simp only [List.cons_append] at hav
  have hread : ∀ tail, dr.avail = UInt8.ofNat sel :: tail →
      dr.read 1 = .ok ([UInt8.ofNat sel], adv dr 1 tail) := fun tail h =>
    read_app' dr 1 [UInt8.ofNat sel] tail rfl h (by omega)
  cases ho : unionOpt hasNone opts sel with
  | none =>
    simp only [ho] at hv hav hi hlt ⊢
    simp only [Bool.and_eq_true, beq_iff_eq] at hv
    obtain ⟨⟨hN, hs0⟩, hwn⟩ := hv
    subst hs0
    have hwn' : w = Val.none := by cases w <;> simp at hwn ⊢
    subst hwn'
    simp only [List.nil_append, List.length_nil] at hav hi
    refine ⟨adv dr 1 rest, ?_, rfl, rfl, by simp⟩
    rw [flatDecode]
    simp only [decUnion, hread rest hav, R.bind_ok]
    simp only [UInt8.reduceOfNat, List.headD_eq_head?_getD, List.head?_cons, Option.getD_some,
      UInt8.toNat_zero, hN, ↓reduceIte, ge_iff_le, Nat.le_zero_eq, Nat.add_eq_zero_iff, List.length_eq_zero_iff,
      Nat.succ_ne_self, and_false, BEq.rfl, Bool.and_self, ne_eq, not_true_eq_false, DR.scope, adv_max, adv_i, err,
      ite_not, R.bind_ok]
    rw [if_pos (by omega)]
    rfl
  | some t =>
    simp only [ho] at hv hav hi hlt ⊢
    -- the selector is in range, and `flatSelect` finds the option's type
    have hsel : sel < opts.length + (if hasNone = true then 1 else 0) ∧
        ¬ ((hasNone && sel == 0) = true) ∧
        opts[if hasNone = true then sel - 1 else sel]? = some t := by
      unfold unionOpt at ho
      cases hasNone with
      | true =>
        simp only [if_true] at ho ⊢
        split at ho
        · cases ho
        · rename_i h0
          have := (List.getElem?_eq_some_iff.mp ho).1
          refine ⟨by omega, by simpa using h0, ho⟩
      | false =>
        simp only [Bool.false_eq_true, if_false] at ho ⊢
        have := (List.getElem?_eq_some_iff.mp ho).1
        exact ⟨by omega, by simp, ho⟩
    obtain ⟨hs1, hs2, hs3⟩ := hsel
    have htm : t ∈ opts := List.mem_of_getElem? hs3
    have htw : t.wf = true := wfAll_mem opts hwf t htm
    have hs256 : (UInt8.ofNat sel).toNat = sel := by
      rw [UInt8.toNat_ofNat']
      apply Nat.mod_eq_of_lt
      have : (if hasNone = true then 1 else 0) ≤ 1 := by split <;> omega
      omega
    have hdec := ih t htm Val.none w hv (by omega)
    obtain ⟨dr', h1, h2, h3, h4⟩ := hdec (adv dr 1 (serialize t w ++ rest)) rest rfl (by
      simp only [adv_i, adv_max]
      split <;> omega)
    refine ⟨dr', ?_, h2, h3, by simp only [adv_i, List.length_cons] at h4 ⊢; omega⟩
    rw [flatDecode]
    simp only [decUnion, hread _ hav, R.bind_ok, List.headD_cons, hs256]
    rw [if_neg (by omega), if_neg hs2, flatSelect_some opts _ t hs3]
    simp only [R.bind_ok]
    have hfl : ¬ (flatFixedLength t ≠ 0 ∧ flatFixedLength t ≠ (adv dr 1 (serialize t w ++ rest)).scope) := by
      intro ⟨hc1, hc2⟩
      have hfx := (flatFixedLength_ne_zero_iff htw).mp hc1
      apply hc2
      rw [flatFixedLength_fixed htw hfx, ← serialize_fixed_length w t hfx hv]
      simp only [DR.scope, adv_i, adv_max]; omega
    rw [if_neg hfl, h1]
    rfl

/-! ### the type recursion -/

theorem flatDecode_DComplete : (t : Ty) → t.wf = true → ∀ prior, DComplete t (flatDecode t prior)
  | .uint b, _ => uint_case b
  | .bool, _ => bool_case
  | .bytesN n, _ => bytesN_case n
  | .bitvector n, hw => bitvector_case n hw
  | .bitlist lim, _ => bitlist_case lim
  | .vector e n, hw =>
    vector_case e n hw (flatDecode_DComplete e (by
      simp only [Ty.wf, Bool.and_eq_true] at hw; exact hw.2))
  | .list e lim, hw =>
    list_case e lim hw (flatDecode_DComplete e (by simpa [Ty.wf] using hw))
  | .container fs, hw =>
    container_case fs hw (fun t ht => flatDecode_DComplete t (by
      simp only [Ty.wf, Bool.and_eq_true] at hw; exact wfAll_mem fs hw.2 t ht))
  | .union hasNone opts, hw =>
    union_case hasNone opts hw (fun t ht => flatDecode_DComplete t (by
      simp only [Ty.wf, Bool.and_eq_true] at hw; exact wfAll_mem opts hw.1.2 t ht))
termination_by t => sizeOf t
decreasing_by
  all_goals simp_wf
  · omega
  · omega
  · have := List.sizeOf_lt_of_mem ht; omega
  · have := List.sizeOf_lt_of_mem ht; omega

end Dec
open Dec in
/-- **C09 decoder completeness.**  Decoding the spec encoding of a well-typed value `v` of a
    well-formed type into a destination that held ANY prior content succeeds and the destination
    then holds exactly `v`.  (`2^32`: offsets are 4-byte words.) -/
theorem flatDecode_complete (t : Ty) (v : Val) (hw : t.wf = true) (hv : hasType t v = true)
    (hlen : (serialize t v).length < 2 ^ 32) (prior : Val) :
    ∃ dr', flatDecode t prior (DR.new (serialize t v) (serialize t v).length) = .ok (v, dr') := by
  have h := Dec.flatDecode_DComplete t hw prior v hv hlen
  obtain ⟨dr', h1, _, _, _⟩ := h (DR.new (serialize t v) (serialize t v).length) []
    (by simp [DR.new]) (by split <;> simp [DR.new])
  exact ⟨dr', h1⟩

/-- top-level form -/
theorem flatDecodeTop_complete (t : Ty) (v : Val) (hw : t.wf = true) (hv : hasType t v = true)
    (hlen : (serialize t v).length < 2 ^ 32) (prior : Val) :
    flatDecodeTop t prior (serialize t v) = .ok v := by
  obtain ⟨dr', h⟩ := flatDecode_complete t v hw hv hlen prior
  unfold flatDecodeTop
  rw [h]
  rfl

#print axioms ZtypV.FlatProofs.flatDecode_complete
#print axioms ZtypV.FlatProofs.flatDecodeTop_complete
-- 'ZtypV.FlatProofs.flatDecode_complete' depends on axioms: [propext, Classical.choice, Quot.sound]

end ZtypV.FlatProofs
