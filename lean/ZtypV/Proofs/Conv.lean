/-
Helper lemmas for property C19 (text/JSON number and hex conversions).
Core Lean only.
-/
import ZtypV.Model.Conv
namespace ZtypV.Conv

/-! ## byte tables -/

theorem u8_table (P : UInt8 → Prop) (h : ∀ n, n < 256 → P (UInt8.ofNat n)) : ∀ c, P c := by
  intro c
  have := h c.toNat c.toNat_lt
  simpa using this

set_option maxRecDepth 100000 in
theorem strconvDigit_eq (c : UInt8) : (strconvDigit c).map UInt8.toNat = charVal c := by
  revert c; apply u8_table; decide

set_option maxRecDepth 100000 in
theorem bigDigit_eq (c : UInt8) : bigDigit c = (charVal c).getD 63 := by
  revert c; apply u8_table; decide

set_option maxRecDepth 100000 in
theorem charVal_lt (c : UInt8) : ∀ d, charVal c = some d → d < 36 := by
  revert c; apply u8_table; decide

set_option maxRecDepth 100000 in
theorem usDigit_dec (c : UInt8) : (0x30 ≤ c ∧ c ≤ 0x39) ↔ isDig 10 c = true := by
  revert c; apply u8_table; decide

set_option maxRecDepth 100000 in
theorem usDigit_hex (c : UInt8) :
    ((0x30 ≤ c ∧ c ≤ 0x39) ∨ (0x61 ≤ lower c ∧ lower c ≤ 0x66)) ↔ isDig 16 c = true := by
  revert c; apply u8_table; decide

set_option maxRecDepth 100000 in
theorem lower_b (c : UInt8) : lower c = 0x62 ↔ (c = 0x62 ∨ c = 0x42) := by
  revert c; apply u8_table; decide

set_option maxRecDepth 100000 in
theorem lower_o (c : UInt8) : lower c = 0x6f ↔ (c = 0x6f ∨ c = 0x4f) := by
  revert c; apply u8_table; decide

set_option maxRecDepth 100000 in
theorem lower_x (c : UInt8) : lower c = 0x78 ↔ (c = 0x78 ∨ c = 0x58) := by
  revert c; apply u8_table; decide


/-! ## digit strings -/

/-- all characters are digits of the base or underscores -/
def good (base : Nat) (body : Text) : Bool := body.all fun c => c = 0x5f || isDig base c

theorem isDig_us (base : Nat) : isDig base 0x5f = false := by
  simp [isDig, charVal]

theorem isDig_ne_us {base : Nat} {c : UInt8} (h : isDig base c = true) : c ≠ 0x5f := by
  intro hc; subst hc; rw [isDig_us] at h; cases h

theorem isDig_iff {base : Nat} {c : UInt8} : isDig base c = true ↔ ∃ d, charVal c = some d ∧ d < base := by
  unfold isDig
  cases h : charVal c with
  | none => simp
  | some d => simp

theorem isDig_mono {b b' : Nat} {c : UInt8} (h : isDig b c = true) (hb : b ≤ b') : isDig b' c = true := by
  rw [isDig_iff] at *
  obtain ⟨d, h1, h2⟩ := h
  exact ⟨d, h1, by omega⟩

@[simp] theorem good_nil (base : Nat) : good base [] = true := rfl

theorem good_cons (base : Nat) (c : UInt8) (r : Text) :
    good base (c :: r) = ((c = 0x5f || isDig base c) && good base r) := by
  simp [good]

theorem sepTail_good (base : Nat) (body : Text) : sepTail base body = true → good base body = true := by
  fun_induction sepTail base body with
  | case1 => simp
  | case2 c => intro h; simp [good_cons, h]
  | case3 d r ih =>
    intro h
    simp only [Bool.and_eq_true] at h
    simp [good_cons, h.1, ih h.2]
  | case4 c d r hc ih =>
    intro h
    simp only [Bool.and_eq_true] at h
    rw [good_cons, ih h.2]; simp [h.1]

theorem digitsVal_mono (base : Nat) (hb : 1 ≤ base) (body : Text) (acc : Nat) :
    acc ≤ digitsVal base acc body := by
  induction body generalizing acc with
  | nil => simp [digitsVal]
  | cons c r ih =>
    unfold digitsVal
    split
    · exact ih acc
    · have := ih (acc * base + (charVal c).getD 0)
      have h2 : acc ≤ acc * base := Nat.le_mul_of_pos_right acc hb
      omega

theorem digitsVal_mono_acc (base : Nat) (body : Text) (a b : Nat) (h : a ≤ b) :
    digitsVal base a body ≤ digitsVal base b body := by
  induction body generalizing a b with
  | nil => simpa [digitsVal]
  | cons c r ih =>
    unfold digitsVal
    split
    · exact ih a b h
    · apply ih
      have := Nat.mul_le_mul_right base h
      omega

theorem digitsVal_append (base : Nat) (a b : Text) (acc : Nat) :
    digitsVal base acc (a ++ b) = digitsVal base (digitsVal base acc a) b := by
  induction a generalizing acc with
  | nil => rfl
  | cons c r ih =>
    simp only [List.cons_append, digitsVal]
    split <;> exact ih _

/-! ## the ParseUint loop -/

theorem strconvDigit_of_charVal {c : UInt8} {d : Nat} (h : charVal c = some d) :
    ∃ d', strconvDigit c = some d' ∧ d'.toNat = d := by
  have := strconvDigit_eq c
  rw [h] at this
  cases hs : strconvDigit c with
  | none => rw [hs] at this; cases this
  | some d' => rw [hs] at this; simp at this; exact ⟨d', rfl, this⟩

theorem charVal_us : charVal 0x5f = none := by decide

theorem parseLoop_digit (base maxVal : Nat) (hb : 0 < base ∧ base ≤ 36)
    (hm : maxVal < 2^64) (c : UInt8) (d : Nat) (hc : charVal c = some d) (hd : d < base)
    (rest : Text) (n : Nat) (us : Bool) :
    parseLoop base (maxUint64 / base + 1) maxVal (c :: rest) n us =
      if n * base + d ≤ maxVal then parseLoop base (maxUint64 / base + 1) maxVal rest (n * base + d) us
      else .error .range := by
  have hne : c ≠ 0x5f := by intro h; subst h; rw [charVal_us] at hc; cases hc
  obtain ⟨d', hs, hd'⟩ := strconvDigit_of_charVal hc
  rw [parseLoop, if_neg hne, hs]
  simp only [hd']
  have h1 : ¬ d ≥ base := by omega
  rw [if_neg h1]
  have hbpos : 0 < base := by omega
  have hcut : (n ≥ maxUint64 / base + 1) ↔ 2^64 - 1 < n * base := by
    rw [ge_iff_le, Nat.succ_le_iff]
    exact Nat.div_lt_iff_lt_mul hbpos
  generalize n * base = p at *
  generalize maxUint64 / base + 1 = cutoff at *
  by_cases hp : 2^64 - 1 < p
  · rw [if_pos (hcut.2 hp), if_neg (by omega)]
  · rw [if_neg (fun h => hp (hcut.1 h))]
    have hnb : p % 2^64 = p := Nat.mod_eq_of_lt (by omega)
    simp only [hnb]
    by_cases hov : p + d < 2^64
    · rw [Nat.mod_eq_of_lt hov]
      by_cases hle : p + d ≤ maxVal
      · rw [if_neg (by omega), if_pos hle]
      · rw [if_pos (by omega), if_neg hle]
    · rw [if_pos (by omega), if_neg (by omega)]

theorem parseLoop_us (base cutoff maxVal : Nat) (rest : Text) (n : Nat) (us : Bool) :
    parseLoop base cutoff maxVal (0x5f :: rest) n us = parseLoop base cutoff maxVal rest n true := by
  rw [parseLoop, if_pos rfl]

/-- on a well-formed digit string the loop computes the value, or reports a range error exactly
when the value exceeds `maxVal` -/
theorem parseLoop_good (base maxVal : Nat) (hb : 0 < base ∧ base ≤ 36) (hm : maxVal < 2^64)
    (body : Text) (hg : good base body = true) (n : Nat) (hn : n ≤ maxVal) (us : Bool) :
    parseLoop base (maxUint64 / base + 1) maxVal body n us =
      if digitsVal base n body ≤ maxVal then .ok (digitsVal base n body, us || body.contains 0x5f)
      else .error .range := by
  induction body generalizing n us with
  | nil => simp [parseLoop, digitsVal, hn]
  | cons c r ih =>
    rw [good_cons, Bool.and_eq_true] at hg
    by_cases hc : c = 0x5f
    · subst hc
      rw [parseLoop_us, ih hg.2 n hn, digitsVal, if_pos rfl]
      simp
    · have hd : isDig base c = true := by simpa [hc] using hg.1
      obtain ⟨d, hcv, hdb⟩ := isDig_iff.1 hd
      rw [parseLoop_digit base maxVal hb hm c d hcv hdb, digitsVal, if_neg hc, hcv]
      simp only [Option.getD_some]
      have hcont : (c :: r).contains 0x5f = r.contains 0x5f := by
        simp only [List.contains_cons, Bool.or_eq_right_iff_imp, beq_iff_eq]
        intro h; exact absurd h.symm hc
      by_cases hle : n * base + d ≤ maxVal
      · rw [if_pos hle, ih hg.2 _ hle, hcont]
      · rw [if_neg hle, if_neg]
        have := digitsVal_mono base hb.1 r (n * base + d)
        omega

/-- the loop succeeds only on well-formed digit strings -/
theorem parseLoop_ok_good (base maxVal : Nat) (hb : 0 < base ∧ base ≤ 36) (hm : maxVal < 2^64)
    (body : Text) (n : Nat) (us : Bool) (r : Nat × Bool)
    (h : parseLoop base (maxUint64 / base + 1) maxVal body n us = .ok r) : good base body = true := by
  induction body generalizing n us with
  | nil => rfl
  | cons c rest ih =>
    rw [good_cons]
    by_cases hc : c = 0x5f
    · subst hc
      rw [parseLoop_us] at h
      simp [ih _ _ h]
    · cases hcv : charVal c with
      | none =>
        have := strconvDigit_eq c
        rw [hcv] at this
        rw [parseLoop, if_neg hc] at h
        cases hs : strconvDigit c with
        | none => rw [hs] at h; cases h
        | some d' => rw [hs] at this; cases this
      | some d =>
        by_cases hdb : d < base
        · rw [parseLoop_digit base maxVal hb hm c d hcv hdb] at h
          split at h
          · have hd : isDig base c = true := isDig_iff.2 ⟨d, hcv, hdb⟩
            simp [hd, ih _ _ h]
          · cases h
        · obtain ⟨d', hs, hd'⟩ := strconvDigit_of_charVal hcv
          rw [parseLoop, if_neg hc, hs] at h
          simp only [hd'] at h
          rw [if_pos (by omega)] at h
          cases h




/-! ## underscoreOK -/

/-- `[ "_" ] digit { [ "_" ] digit }` with the underscore already consumed: a digit must follow -/
def sepUs (base : Nat) : Text → Bool
  | [] => false
  | d :: r => isDig base d && sepTail base r

theorem sepTail_cons (base : Nat) (c : UInt8) (rest : Text) :
    sepTail base (c :: rest) = if c = 0x5f then sepUs base rest else (isDig base c && sepTail base rest) := by
  cases rest with
  | nil =>
    by_cases hc : c = 0x5f
    · subst hc; simp [sepTail, sepUs, isDig_us]
    · simp [sepTail, hc]
  | cons d r =>
    by_cases hc : c = 0x5f
    · subst hc; simp [sepTail, sepUs]
    · simp [sepTail, hc]

/-- the digit test of `underscoreOK`'s loop -/
def usTest (hex : Bool) (c : UInt8) : Prop :=
  (0x30 ≤ c ∧ c ≤ 0x39) ∨ (hex = true ∧ 0x61 ≤ lower c ∧ lower c ≤ 0x66)

theorem usTest_us (hex : Bool) : ¬ usTest hex 0x5f := by
  unfold usTest; cases hex <;> decide

theorem usLoop_digit (hex : Bool) (c : UInt8) (rest : Text) (saw : Saw) (h : usTest hex c) :
    usLoop hex (c :: rest) saw = usLoop hex rest .digit := by
  rw [usLoop]; exact if_pos h

theorem usLoop_us (hex : Bool) (rest : Text) (saw : Saw) :
    usLoop hex (0x5f :: rest) saw = if saw ≠ .digit then false else usLoop hex rest .us := by
  rw [usLoop]
  have h := usTest_us hex
  unfold usTest at h
  rw [if_neg h, if_pos rfl]

/-- the digit test of `underscoreOK` recognises every digit of the base -/
def UsCompat (base : Nat) (hex : Bool) : Prop := ∀ c, isDig base c = true → usTest hex c

theorem usCompat_le10 (base : Nat) (h : base ≤ 10) : UsCompat base false := by
  intro c hc
  exact Or.inl ((usDigit_dec c).2 (isDig_mono hc h))

theorem usCompat_16 : UsCompat 16 true := by
  intro c hc
  rcases (usDigit_hex c).2 hc with h | h
  · exact Or.inl h
  · exact Or.inr ⟨rfl, h⟩

theorem usLoop_good (base : Nat) (hex : Bool) (hcompat : UsCompat base hex) (body : Text)
    (hg : good base body = true) :
    usLoop hex body .digit = sepTail base body ∧ usLoop hex body .us = sepUs base body := by
  induction body with
  | nil => simp [usLoop, sepTail, sepUs]
  | cons c rest ih =>
    rw [good_cons, Bool.and_eq_true] at hg
    have ih := ih hg.2
    by_cases hc : c = 0x5f
    · subst hc
      rw [usLoop_us, usLoop_us, sepTail_cons, if_pos rfl, sepUs, isDig_us]
      simp [ih.2]
    · have hd : isDig base c = true := by simpa [hc] using hg.1
      rw [usLoop_digit hex c rest _ (hcompat c hd), usLoop_digit hex c rest _ (hcompat c hd),
        sepTail_cons, if_neg hc, sepUs, hd]
      simp [ih.1]

theorem usLoop_start (base : Nat) (hex : Bool) (hcompat : UsCompat base hex) (c : UInt8) (t : Text)
    (hg : good base (c :: t) = true) :
    usLoop hex (c :: t) .start = (isDig base c && sepTail base t) := by
  rw [good_cons, Bool.and_eq_true] at hg
  by_cases hc : c = 0x5f
  · subst hc
    rw [usLoop_us, isDig_us]; simp
  · have hd : isDig base c = true := by simpa [hc] using hg.1
    rw [usLoop_digit hex c t _ (hcompat c hd), (usLoop_good base hex hcompat t hg.2).1, hd]
    simp




/-! ## ParseUint = denotation -/

theorem underscoreOK_one (c : UInt8) (h1 : c ≠ 0x2d) (h2 : c ≠ 0x2b) :
    underscoreOK [c] = usLoop false [c] .start := by
  simp [underscoreOK, h1, h2]

theorem underscoreOK_two (c0 c1 : UInt8) (t : Text) (h1 : c0 ≠ 0x2d) (h2 : c0 ≠ 0x2b) :
    underscoreOK (c0 :: c1 :: t) =
      if c0 = 0x30 ∧ (lower c1 = 0x62 ∨ lower c1 = 0x6f ∨ lower c1 = 0x78) then
        usLoop (decide (lower c1 = 0x78)) t .digit
      else usLoop false (c0 :: c1 :: t) .start := by
  simp [underscoreOK, h1, h2]

theorem maxValOf_eq (w : Nat) (h1 : 1 ≤ w) (h2 : w ≤ 64) : maxValOf w = 2^w - 1 := by
  have : ∀ w, w < 65 → 1 ≤ w → maxValOf w = 2^w - 1 := by decide
  exact this w (by omega) h1


theorem pow_le_pow64 (w : Nat) (h2 : w ≤ 64) : 2^w ≤ 2^64 := Nat.pow_le_pow_right (by decide) h2

/-- `ParseUint` on a text whose base/body split, and the underscore verdict `gram`, are known -/
theorem parseUint_shape (s : Text) (hs : s ≠ []) (w : Nat) (h1 : 1 ≤ w) (h2 : w ≤ 64)
    (base : Nat) (body : Text) (hsplit : splitBase s = (base, body)) (hb : 0 < base ∧ base ≤ 36)
    (gram : Bool)
    (hus : good base body = true → body.contains 0x5f = true → underscoreOK s = gram)
    (hnous : good base body = true → body.contains 0x5f = false → gram = true)
    (hgram : gram = true → good base body = true) (n : Nat) :
    parseUint s w = .ok n ↔ (gram = true ∧ digitsVal base 0 body = n ∧ n < 2^w) := by
  have hpos : 0 < 2^w := Nat.pow_pos (by decide)
  have hle := pow_le_pow64 w h2
  have hempty : s.isEmpty = false := by cases s <;> simp_all
  have hw0 : ¬ w = 0 := by omega
  have hw64 : ¬ w > 64 := by omega
  unfold parseUint
  simp only [hempty, hsplit, hw0, hw64, if_false, Bool.false_eq_true]
  rw [maxValOf_eq w h1 h2]
  by_cases hg : good base body = true
  · rw [parseLoop_good base (2^w - 1) hb (by omega) body hg 0 (by omega) false]
    by_cases hv : digitsVal base 0 body ≤ 2^w - 1
    · rw [if_pos hv]
      simp only [Bool.false_or]
      cases hc : body.contains 0x5f with
      | true =>
        rw [hus hg hc]
        cases gram with
        | true => simp; omega
        | false => simp
      | false =>
        rw [hnous hg hc]
        simp; omega
    · rw [if_neg hv]
      simp; omega
  · cases hl : parseLoop base (maxUint64 / base + 1) (2^w - 1) body 0 false with
    | ok r => exact absurd (parseLoop_ok_good base (2^w - 1) hb (by omega) body 0 false r hl) hg
    | error e =>
      simp
      intro hgr
      exact absurd (hgram hgr) hg


theorem good_nous_sepTail (base : Nat) (body : Text) (hg : good base body = true)
    (hc : body.contains 0x5f = false) : sepTail base body = true := by
  induction body with
  | nil => rfl
  | cons c r ih =>
    rw [good_cons, Bool.and_eq_true] at hg
    simp only [List.contains_cons, Bool.or_eq_false_iff, beq_eq_false_iff_ne] at hc
    have hne : c ≠ 0x5f := fun h => hc.1 h.symm
    have hd : isDig base c = true := by simpa [hne] using hg.1
    rw [sepTail_cons, if_neg hne, hd, ih hg.2 hc.2]; rfl

theorem good_head_ne_sign {base : Nat} {c : UInt8} (h : (c = 0x5f || isDig base c) = true) :
    c ≠ 0x2d ∧ c ≠ 0x2b := by
  constructor <;> intro hc <;> subst hc <;> simp [isDig, charVal] at h

set_option maxRecDepth 100000 in
theorem isDig8_not_prefix (c : UInt8) :
    (c = 0x5f || isDig 8 c) = true → ¬ (lower c = 0x62 ∨ lower c = 0x6f ∨ lower c = 0x78) := by
  revert c; apply u8_table; decide

theorem usTest_zero (hex : Bool) : usTest hex 0x30 := Or.inl (by decide)

/-- decimal shape: first character is not '0' -/
theorem parseUint_dec (c0 : UInt8) (t : Text) (h0 : c0 ≠ 0x30) (w : Nat) (h1 : 1 ≤ w) (h2 : w ≤ 64)
    (n : Nat) : parseUint (c0 :: t) w = .ok n ↔ (denotes (c0 :: t) = some n ∧ n < 2^w) := by
  have hsplit : splitBase (c0 :: t) = (10, c0 :: t) := by simp [splitBase, h0]
  have hshape := parseUint_shape (c0 :: t) (by simp) w h1 h2 10 (c0 :: t) hsplit (by omega)
    (isDig 10 c0 && sepTail 10 t)
    (by
      intro hg _
      have hsign := good_head_ne_sign (by rw [good_cons, Bool.and_eq_true] at hg; exact hg.1)
      have : underscoreOK (c0 :: t) = usLoop false (c0 :: t) .start := by
        cases t with
        | nil => exact underscoreOK_one c0 hsign.1 hsign.2
        | cons c1 t' => rw [underscoreOK_two c0 c1 t' hsign.1 hsign.2, if_neg (by simp [h0])]
      rw [this, usLoop_start 10 false (usCompat_le10 10 (by omega)) c0 t hg])
    (by
      intro hg hc
      have hst := good_nous_sepTail 10 (c0 :: t) hg hc
      have hne : c0 ≠ 0x5f := by intro h; subst h; simp at hc
      rwa [sepTail_cons, if_neg hne] at hst)
    (by
      intro hgr
      rw [Bool.and_eq_true] at hgr
      rw [good_cons, hgr.1, sepTail_good 10 t hgr.2]; simp)
    n
  rw [hshape]
  simp only [denotes, h0, if_false]
  constructor
  · rintro ⟨hg, hv, hn⟩
    rw [if_pos hg, hv]; exact ⟨rfl, hn⟩
  · rintro ⟨hd, hn⟩
    split at hd
    · rename_i hg
      exact ⟨hg, by simpa using hd, hn⟩
    · cases hd


theorem usLoop_zero_start (t : Text) (hg : good 8 t = true) :
    usLoop false (0x30 :: t) .start = sepTail 8 t := by
  rw [usLoop_digit false 0x30 t _ (usTest_zero false), (usLoop_good 8 false (usCompat_le10 8 (by omega)) t hg).1]

/-- legacy octal shape: "0" followed by something that is not a complete base prefix -/
theorem parseUint_oct (t : Text) (hsplit : splitBase (0x30 :: t) = (8, t)) (w : Nat) (h1 : 1 ≤ w) (h2 : w ≤ 64)
    (n : Nat) :
    parseUint (0x30 :: t) w = .ok n ↔ (sepTail 8 t = true ∧ digitsVal 8 0 t = n ∧ n < 2^w) := by
  apply parseUint_shape (0x30 :: t) (by simp) w h1 h2 8 t hsplit (by omega) (sepTail 8 t)
  · intro hg _
    cases t with
    | nil => simp [underscoreOK, usLoop, sepTail]
    | cons c1 t' =>
      rw [underscoreOK_two 0x30 c1 t' (by decide) (by decide), if_neg, usLoop_zero_start _ hg]
      intro h
      rw [good_cons, Bool.and_eq_true] at hg
      exact isDig8_not_prefix c1 hg.1 h.2
  · exact good_nous_sepTail 8 t
  · exact sepTail_good 8 t

/-- prefixed shape: "0b…", "0o…", "0x…" with a non-empty rest -/
theorem parseUint_pre (c1 : UInt8) (b : Text) (hb : b ≠ []) (base : Nat) (hex : Bool)
    (hsplit : splitBase (0x30 :: c1 :: b) = (base, b))
    (hpre : lower c1 = 0x62 ∨ lower c1 = 0x6f ∨ lower c1 = 0x78)
    (hhex : decide (lower c1 = 0x78) = hex) (hcompat : UsCompat base hex) (hbase : 0 < base ∧ base ≤ 36)
    (w : Nat) (h1 : 1 ≤ w) (h2 : w ≤ 64) (n : Nat) :
    parseUint (0x30 :: c1 :: b) w = .ok n ↔ (prefixedLit base b = some n ∧ n < 2^w) := by
  have hshape := parseUint_shape (0x30 :: c1 :: b) (by simp) w h1 h2 base b hsplit hbase (sepTail base b)
    (by
      intro hg _
      rw [underscoreOK_two 0x30 c1 b (by decide) (by decide), if_pos ⟨rfl, hpre⟩, hhex,
        (usLoop_good base hex hcompat b hg).1])
    (good_nous_sepTail base b) (sepTail_good base b) n
  rw [hshape, prefixedLit]
  constructor
  · rintro ⟨hg, hv, hn⟩
    rw [if_pos ⟨hb, hg⟩, hv]; exact ⟨rfl, hn⟩
  · rintro ⟨hd, hn⟩
    split at hd
    · rename_i hg
      exact ⟨hg.2, by simpa using hd, hn⟩
    · cases hd


theorem splitBase_short (c1 : UInt8) : splitBase [0x30, c1] = (8, [c1]) := by
  simp [splitBase]

theorem splitBase_b (c1 : UInt8) (b : Text) (hb : b ≠ []) (h : lower c1 = 0x62) :
    splitBase (0x30 :: c1 :: b) = (2, b) := by
  cases b with
  | nil => exact absurd rfl hb
  | cons x y => simp [splitBase, h]

theorem splitBase_o (c1 : UInt8) (b : Text) (hb : b ≠ []) (h : lower c1 = 0x6f) :
    splitBase (0x30 :: c1 :: b) = (8, b) := by
  cases b with
  | nil => exact absurd rfl hb
  | cons x y => simp [splitBase, h]

theorem splitBase_x (c1 : UInt8) (b : Text) (hb : b ≠ []) (h : lower c1 = 0x78) :
    splitBase (0x30 :: c1 :: b) = (16, b) := by
  cases b with
  | nil => exact absurd rfl hb
  | cons x y => simp [splitBase, h]

theorem splitBase_oct (c1 : UInt8) (b : Text) (hb : ¬ lower c1 = 0x62) (ho : ¬ lower c1 = 0x6f)
    (hx : ¬ lower c1 = 0x78) : splitBase (0x30 :: c1 :: b) = (8, c1 :: b) := by
  simp [splitBase, hb, ho, hx]

/-- "0b", "0o", "0x" alone: parsed as octal with a bad digit, and not a literal -/
theorem parseUint_short (c1 : UInt8) (hpre : lower c1 = 0x62 ∨ lower c1 = 0x6f ∨ lower c1 = 0x78)
    (w : Nat) (h1 : 1 ≤ w) (h2 : w ≤ 64) (n : Nat) : ¬ parseUint [0x30, c1] w = .ok n := by
  rw [parseUint_oct [c1] (splitBase_short c1) w h1 h2 n]
  rintro ⟨hs, _⟩
  simp only [sepTail] at hs
  exact isDig8_not_prefix c1 (by simp [hs]) hpre

theorem prefixedLit_nil (base : Nat) : prefixedLit base [] = none := by
  simp [prefixedLit]

/-- **`strconv.ParseUint(s, 0, w)` accepts exactly the Go integer literals whose value fits `w`
bits, and returns that value.** -/
theorem parseUint_ok_iff (s : Text) (w : Nat) (h1 : 1 ≤ w) (h2 : w ≤ 64) (n : Nat) :
    parseUint s w = .ok n ↔ (denotes s = some n ∧ n < 2^w) := by
  cases s with
  | nil => simp [parseUint, denotes]
  | cons c0 t =>
    by_cases h0 : c0 = 0x30
    · subst h0
      cases t with
      | nil =>
        rw [parseUint_oct [] (by simp [splitBase]) w h1 h2 n]
        simp [denotes, sepTail, digitsVal]
      | cons c1 b =>
        by_cases hb : lower c1 = 0x62
        · have hd : denotes (0x30 :: c1 :: b) = prefixedLit 2 b := by
            simp [denotes, (lower_b c1).1 hb]
          rw [hd]
          by_cases hnil : b = []
          · subst hnil
            rw [prefixedLit_nil]
            simp
            exact parseUint_short c1 (Or.inl hb) w h1 h2 n
          · exact parseUint_pre c1 b hnil 2 false (splitBase_b c1 b hnil hb) (Or.inl hb)
              (by rw [hb]; decide) (usCompat_le10 2 (by omega)) (by omega) w h1 h2 n
        · by_cases ho : lower c1 = 0x6f
          · have hd : denotes (0x30 :: c1 :: b) = prefixedLit 8 b := by
              have := mt (lower_b c1).2 hb
              simp [denotes, (lower_o c1).1 ho, this]
            rw [hd]
            by_cases hnil : b = []
            · subst hnil
              rw [prefixedLit_nil]
              simp
              exact parseUint_short c1 (Or.inr (Or.inl ho)) w h1 h2 n
            · exact parseUint_pre c1 b hnil 8 false (splitBase_o c1 b hnil ho) (Or.inr (Or.inl ho))
                (by rw [ho]; decide) (usCompat_le10 8 (by omega)) (by omega) w h1 h2 n
          · by_cases hx : lower c1 = 0x78
            · have hd : denotes (0x30 :: c1 :: b) = prefixedLit 16 b := by
                have := mt (lower_b c1).2 hb
                have := mt (lower_o c1).2 ho
                simp [denotes, (lower_x c1).1 hx, *]
              rw [hd]
              by_cases hnil : b = []
              · subst hnil
                rw [prefixedLit_nil]
                simp
                exact parseUint_short c1 (Or.inr (Or.inr hx)) w h1 h2 n
              · exact parseUint_pre c1 b hnil 16 true (splitBase_x c1 b hnil hx) (Or.inr (Or.inr hx))
                  (by rw [hx]; decide) usCompat_16 (by omega) w h1 h2 n
            · have hd : denotes (0x30 :: c1 :: b) =
                  if sepTail 8 (c1 :: b) = true then some (digitsVal 8 0 (c1 :: b)) else none := by
                have := mt (lower_b c1).2 hb
                have := mt (lower_o c1).2 ho
                have := mt (lower_x c1).2 hx
                simp [denotes, *]
              rw [hd, parseUint_oct (c1 :: b) (splitBase_oct c1 b hb ho hx) w h1 h2 n]
              constructor
              · rintro ⟨hg, hv, hn⟩
                rw [if_pos hg, hv]; exact ⟨rfl, hn⟩
              · rintro ⟨hd, hn⟩
                split at hd
                · rename_i hg
                  exact ⟨hg, by simpa using hd, hn⟩
                · cases hd
    · exact parseUint_dec c0 t h0 w h1 h2 n




/-! ## decimal rendering -/

theorem decDigits_lt (n : Nat) (h : n < 10) : decDigits n = [UInt8.ofNat (48 + n)] := by
  rw [decDigits, dif_pos h]

theorem decDigits_ge (n : Nat) (h : ¬ n < 10) :
    decDigits n = decDigits (n / 10) ++ [UInt8.ofNat (48 + n % 10)] := by
  rw [decDigits, dif_neg h]

theorem charVal_decDigit : ∀ d, d < 10 → charVal (UInt8.ofNat (48 + d)) = some d := by decide

theorem decDigit_zero : ∀ d, d < 10 → UInt8.ofNat (48 + d) = 0x30 → d = 0 := by decide

theorem isDig_decDigit (d : Nat) (h : d < 10) : isDig 10 (UInt8.ofNat (48 + d)) = true :=
  isDig_iff.2 ⟨d, charVal_decDigit d h, h⟩

theorem decDigits_allDig (n : Nat) : ∀ c ∈ decDigits n, isDig 10 c = true := by
  fun_induction decDigits n with
  | case1 n h => intro c hc; rw [List.mem_singleton.1 hc]; exact isDig_decDigit n h
  | case2 n h ih =>
    intro c hc
    rw [List.mem_append] at hc
    rcases hc with hc | hc
    · exact ih c hc
    · rw [List.mem_singleton.1 hc]; exact isDig_decDigit _ (Nat.mod_lt _ (by decide : 0 < 10))

theorem digitsVal_single (base acc : Nat) (c : UInt8) (d : Nat) (hcv : charVal c = some d) :
    digitsVal base acc [c] = acc * base + d := by
  have hne : c ≠ 0x5f := by intro h; subst h; rw [charVal_us] at hcv; cases hcv
  rw [digitsVal, if_neg hne, hcv, digitsVal, Option.getD_some]

theorem digitsVal_decDigits (n : Nat) : digitsVal 10 0 (decDigits n) = n := by
  fun_induction decDigits n with
  | case1 n h =>
    rw [digitsVal_single 10 0 _ n (charVal_decDigit n h)]; omega
  | case2 n h ih =>
    have hm : n % 10 < 10 := Nat.mod_lt _ (by decide)
    rw [digitsVal_append, ih, digitsVal_single 10 _ _ _ (charVal_decDigit _ hm)]
    omega

theorem decDigits_head (n : Nat) : ∃ c t, decDigits n = c :: t ∧ (c = 0x30 → n = 0) := by
  fun_induction decDigits n with
  | case1 n h => exact ⟨_, [], rfl, decDigit_zero n h⟩
  | case2 n h ih =>
    obtain ⟨c, t, heq, hz⟩ := ih
    refine ⟨c, t ++ [UInt8.ofNat (48 + n % 10)], by rw [heq]; rfl, ?_⟩
    intro hc
    have := hz hc
    omega

theorem good_of_allDig (base : Nat) (body : Text) (h : ∀ c ∈ body, isDig base c = true) :
    good base body = true ∧ body.contains 0x5f = false := by
  induction body with
  | nil => simp
  | cons c r ih =>
    have hc := h c (by simp)
    have ihr := ih (fun x hx => h x (by simp [hx]))
    rw [good_cons, hc, ihr.1]
    have hne : c ≠ 0x5f := isDig_ne_us hc
    simp only [List.contains_cons, ihr.2, Bool.or_false, Bool.or_true, Bool.and_self, true_and]
    simp only [beq_eq_false_iff_ne, ne_eq]
    exact fun h => hne h.symm

/-- the canonical decimal rendering denotes the number -/
theorem denotes_decDigits (n : Nat) : denotes (decDigits n) = some n := by
  obtain ⟨c, t, heq, hz⟩ := decDigits_head n
  have hall := decDigits_allDig n
  have hval := digitsVal_decDigits n
  rw [heq] at hall hval ⊢
  have hg := good_of_allDig 10 (c :: t) hall
  have hst := good_nous_sepTail 10 (c :: t) hg.1 hg.2
  have hc : isDig 10 c = true := hall c (by simp)
  rw [sepTail_cons, if_neg (isDig_ne_us hc), hc, Bool.true_and] at hst
  by_cases h0 : c = 0x30
  · have hn := hz h0
    subst hn
    have : decDigits 0 = [0x30] := by rw [decDigits_lt 0 (by decide)]; rfl
    rw [this] at heq
    injection heq with h1 h2
    subst h1; subst h2
    rfl
  · simp only [denotes, h0, if_false, hc, hst, Bool.and_self, if_true, hval]




/-! ## quotes -/

theorem stripQuotes_quoted (m : Text) : stripQuotes (0x22 :: (m ++ [0x22])) = some m := by
  have hlen : (0x22 :: (m ++ [0x22]) : Text).length - 1 = (0x22 :: m : Text).length := by simp
  have htake : ((0x22 :: (m ++ [0x22]) : Text).take ((0x22 :: (m ++ [0x22]) : Text).length - 1)) = 0x22 :: m := by
    rw [hlen, ← List.cons_append, List.take_left']
    rfl
  have hlast : (0x22 :: (m ++ [0x22]) : Text).getLast? = some 0x22 := by
    rw [← List.cons_append, List.getLast?_append]; simp
  unfold stripQuotes
  simp only [if_true, htake, hlast]
  simp

theorem stripQuotes_eq_some_iff (b s' : Text) : stripQuotes b = some s' ↔ Unquoted b s' := by
  unfold Unquoted
  cases b with
  | nil => simp [stripQuotes]
  | cons b0 t =>
    by_cases hq : b0 = 0x22
    · subst hq
      rcases List.eq_nil_or_concat t with ht | ⟨m, q, ht⟩
      · subst ht
        simp [stripQuotes]
      · rw [List.concat_eq_append] at ht
        subst ht
        by_cases hq2 : q = 0x22
        · subst hq2
          rw [stripQuotes_quoted]
          simp
        · have hlast : (0x22 :: (m ++ [q]) : Text).getLast? = some q := by
            rw [← List.cons_append, List.getLast?_append]; simp
          have hne : some q ≠ some (0x22 : UInt8) := by simpa using hq2
          have : stripQuotes (0x22 :: (m ++ [q])) = none := by
            unfold stripQuotes
            simp only [if_true]
            rw [hlast, if_pos (Or.inr hne)]
          rw [this]
          simp [hq2]
    · simp [stripQuotes, hq]
      constructor
      · intro h; exact h.symm
      · intro h; exact h.symm

theorem unquote_eq_some_iff (s s' : Text) : unquote s = some s' ↔ Unquoted s s' := by
  unfold Unquoted
  cases s with
  | nil => simp [unquote]
  | cons c t =>
    by_cases hq : c = 0x22
    · subst hq
      rcases List.eq_nil_or_concat t with ht | ⟨m, q, ht⟩
      · subst ht; simp [unquote]
      · rw [List.concat_eq_append] at ht
        subst ht
        by_cases hq2 : q = 0x22
        · subst hq2
          simp [unquote]
        · simp [unquote, hq2]
    · simp [unquote, hq]
      constructor
      · intro h; exact h.symm
      · intro h; exact h.symm




/-! ## math/big scan -/

/-- what the separator bookkeeping of `nat.scan` accepts, by the state before the text -/
def sepState (b : Nat) : Prev → Text → Bool
  | .digit, body => sepTail b body
  | .us, body => sepUs b body
  | .other, [] => true
  | .other, c :: t => isDig b c && sepTail b t

/-- number of digit characters -/
def nDigits (body : Text) : Nat := body.countP (· ≠ 0x5f)

theorem bigDigit_of_isDig {b : Nat} {c : UInt8} (h : isDig b c = true) :
    bigDigit c < b ∧ bigDigit c = (charVal c).getD 0 := by
  obtain ⟨d, hcv, hd⟩ := isDig_iff.1 h
  rw [bigDigit_eq, hcv]; simp [hd]

theorem bigDigit_of_not_isDig {b : Nat} (hb : b ≤ 36) {c : UInt8} (h : isDig b c = false) : bigDigit c ≥ b := by
  rw [bigDigit_eq]
  unfold isDig at h
  cases hcv : charVal c with
  | none => simp; omega
  | some d => rw [hcv] at h; simp at h; simpa using h

theorem bigLoop_us (b : Nat) (rest : Text) (prev : Prev) (inv : Bool) (count acc : Nat) :
    bigLoop b (0x5f :: rest) prev inv count acc =
      bigLoop b rest .us (inv || decide (prev ≠ .digit)) count acc := by
  rw [bigLoop, if_pos rfl]

theorem bigLoop_digit (b : Nat) (c : UInt8) (hd : isDig b c = true) (rest : Text) (prev : Prev) (inv : Bool)
    (count acc : Nat) :
    bigLoop b (c :: rest) prev inv count acc =
      bigLoop b rest .digit inv (count + 1) (acc * b + (charVal c).getD 0) := by
  have h := bigDigit_of_isDig hd
  rw [bigLoop, if_neg (isDig_ne_us hd)]
  simp only
  rw [if_neg (by omega), h.2]

theorem bigLoop_good (b : Nat) (body : Text) (hg : good b body = true) (prev : Prev) (inv : Bool)
    (count acc : Nat) :
    (bigLoop b body prev inv count acc).left = [] ∧
    (bigLoop b body prev inv count acc).acc = digitsVal b acc body ∧
    (bigLoop b body prev inv count acc).count = count + nDigits body ∧
    (!(bigLoop b body prev inv count acc).invalSep && decide ((bigLoop b body prev inv count acc).prev ≠ .us))
      = (!inv && sepState b prev body) := by
  induction body generalizing prev inv count acc with
  | nil =>
    refine ⟨rfl, rfl, rfl, ?_⟩
    cases prev <;> simp [bigLoop, sepState, sepTail, sepUs]
  | cons c r ih =>
    rw [good_cons, Bool.and_eq_true] at hg
    by_cases hc : c = 0x5f
    · subst hc
      rw [bigLoop_us]
      obtain ⟨h1, h2, h3, h4⟩ := ih hg.2 .us (inv || decide (prev ≠ .digit)) count acc
      refine ⟨h1, ?_, ?_, ?_⟩
      · rw [h2, digitsVal, if_pos rfl]
      · rw [h3]; simp [nDigits]
      · rw [h4]
        cases prev <;> simp [sepState, sepTail_cons, sepUs, isDig_us]
    · have hd : isDig b c = true := by simpa [hc] using hg.1
      rw [bigLoop_digit b c hd]
      obtain ⟨h1, h2, h3, h4⟩ := ih hg.2 .digit inv (count + 1) (acc * b + (charVal c).getD 0)
      refine ⟨h1, ?_, ?_, ?_⟩
      · rw [h2, digitsVal, if_neg hc]
      · rw [h3]; simp [nDigits, hc]; omega
      · rw [h4]
        cases prev <;> simp [sepState, sepTail_cons, sepUs, hc, hd]

theorem bigLoop_not_good (b : Nat) (hb : b ≤ 36) (body : Text) (hg : good b body = false) (prev : Prev)
    (inv : Bool) (count acc : Nat) : (bigLoop b body prev inv count acc).left ≠ [] := by
  induction body generalizing prev inv count acc with
  | nil => simp at hg
  | cons c r ih =>
    by_cases hc : c = 0x5f
    · subst hc
      rw [bigLoop_us]
      apply ih
      simpa [good_cons] using hg
    · cases hd : isDig b c with
      | true =>
        rw [bigLoop_digit b c hd]
        apply ih
        simpa [good_cons, hd] using hg
      | false =>
        have := bigDigit_of_not_isDig hb hd
        rw [bigLoop, if_neg hc]
        simp only
        rw [if_pos this]
        simp


/-- result of `nat.scan` + the all-consumed check of `setFromScanner`, from the loop's final state -/
def scanResult (prefix0 : Bool) (st : ScanState) : Option Nat :=
  if (bigFinish prefix0 st).2 = true then none
  else if st.left ≠ [] then none
  else some (bigFinish prefix0 st).1

theorem scanResult_spec (b : Nat) (hb : b ≤ 36) (body : Text) (prev : Prev) (prefix0 : Bool)
    (hcount : good b body = true → sepState b prev body = true → nDigits body > 0) :
    scanResult prefix0 (bigLoop b body prev false 0 0) =
      if good b body = true ∧ sepState b prev body = true then some (digitsVal b 0 body) else none := by
  cases hg : good b body with
  | false =>
    have hl := bigLoop_not_good b hb body hg prev false 0 0
    simp only [scanResult, hl, ne_eq, not_false_eq_true, if_true]
    simp
  | true =>
    obtain ⟨h1, h2, h3, h4⟩ := bigLoop_good b body hg prev false 0 0
    generalize bigLoop b body prev false 0 0 = st at *
    have herr : (st.invalSep || decide (st.prev = .us)) = !(sepState b prev body) := by
      have : (st.invalSep || decide (st.prev = .us)) = !(!st.invalSep && decide (st.prev ≠ .us)) := by
        cases st.invalSep <;> cases st.prev <;> simp
      rw [this, h4]; simp
    cases hs : sepState b prev body with
    | false =>
      rw [hs] at herr
      have : (bigFinish prefix0 st).2 = true := by
        unfold bigFinish
        simp only [herr]
        split
        · split <;> rfl
        · rfl
      simp [scanResult, this]
    | true =>
      rw [hs] at herr
      have hc := hcount hg hs
      have hcnt : ¬ st.count = 0 := by omega
      have : bigFinish prefix0 st = (st.acc, false) := by
        unfold bigFinish
        simp only [herr, hcnt, if_false]
        rfl
      simp [scanResult, this, h1, h2]


theorem nDigits_pos_of_sepTail (b : Nat) (body : Text) (hne : body ≠ []) (h : sepTail b body = true) :
    nDigits body > 0 := by
  cases body with
  | nil => exact absurd rfl hne
  | cons c r =>
    rw [sepTail_cons] at h
    by_cases hc : c = 0x5f
    · subst hc
      rw [if_pos rfl] at h
      cases r with
      | nil => simp [sepUs] at h
      | cons d r' =>
        simp only [sepUs, Bool.and_eq_true] at h
        have := isDig_ne_us h.1
        simp [nDigits, this]
    · simp [nDigits, hc]

/-- the unsigned part of `big.Int.UnmarshalText`: scan, error flag, everything consumed -/
def bigNat (s : Text) : Option Nat :=
  if (natScan0 s).2.1 = true then none
  else if (natScan0 s).2.2 ≠ [] then none
  else some (natScan0 s).1

theorem bigNat_prefixed (b : Nat) (hb : b ≤ 36) (body : Text) :
    scanResult false (bigLoop b body .digit false 0 0) = prefixedLit b body := by
  by_cases hne : body = []
  · subst hne
    simp [scanResult, bigLoop, bigFinish, prefixedLit]
  · rw [scanResult_spec b hb body .digit false (fun _ h => nDigits_pos_of_sepTail b body hne h), prefixedLit]
    simp only [sepState]
    by_cases hs : sepTail b body = true
    · simp [hs, hne, sepTail_good b body hs]
    · simp [hs]

theorem bigNat_eq_denotes (s : Text) : bigNat s = denotes s := by
  cases s with
  | nil => simp [bigNat, natScan0, denotes]
  | cons ch r1 =>
    by_cases h0 : ch = 0x30
    · subst h0
      cases r1 with
      | nil => simp [bigNat, natScan0, denotes]
      | cons c2 r2 =>
        by_cases hb : c2 = 0x62 ∨ c2 = 0x42
        · have : bigNat (0x30 :: c2 :: r2) = scanResult false (bigLoop 2 r2 .digit false 0 0) := by
            simp [bigNat, natScan0, hb, scanResult]
          rw [this, bigNat_prefixed 2 (by omega)]
          simp [denotes, hb]
        · by_cases ho : c2 = 0x6f ∨ c2 = 0x4f
          · have : bigNat (0x30 :: c2 :: r2) = scanResult false (bigLoop 8 r2 .digit false 0 0) := by
              simp [bigNat, natScan0, hb, ho, scanResult]
            rw [this, bigNat_prefixed 8 (by omega)]
            simp [denotes, hb, ho]
          · by_cases hx : c2 = 0x78 ∨ c2 = 0x58
            · have : bigNat (0x30 :: c2 :: r2) = scanResult false (bigLoop 16 r2 .digit false 0 0) := by
                simp [bigNat, natScan0, hb, ho, hx, scanResult]
              rw [this, bigNat_prefixed 16 (by omega)]
              simp [denotes, hb, ho, hx]
            · have : bigNat (0x30 :: c2 :: r2) = scanResult true (bigLoop 8 (c2 :: r2) .digit false 0 0) := by
                simp [bigNat, natScan0, hb, ho, hx, scanResult]
              rw [this, scanResult_spec 8 (by omega) (c2 :: r2) .digit true
                (fun _ h => nDigits_pos_of_sepTail 8 (c2 :: r2) (by simp) h)]
              simp only [sepState, denotes, hb, ho, hx, if_false, if_true]
              by_cases hs : sepTail 8 (c2 :: r2) = true
              · simp [hs, sepTail_good 8 _ hs]
              · simp [hs]
    · have : bigNat (ch :: r1) = scanResult false (bigLoop 10 (ch :: r1) .other false 0 0) := by
        simp [bigNat, natScan0, h0, scanResult]
      rw [this, scanResult_spec 10 (by omega) (ch :: r1) .other false]
      · simp only [sepState, denotes, h0, if_false]
        by_cases hs : (isDig 10 ch && sepTail 10 r1) = true
        · have hs' := hs
          rw [Bool.and_eq_true] at hs'
          have hg : good 10 (ch :: r1) = true := by
            rw [good_cons, hs'.1, sepTail_good 10 r1 hs'.2]; simp
          simp [hs, hg]
        · simp [hs]
      · intro _ hs
        simp only [sepState, Bool.and_eq_true] at hs
        simp [nDigits, isDig_ne_us hs.1]


theorem bigSetString0_cons (ch : UInt8) (rest : Text) :
    bigSetString0 (ch :: rest) =
      (bigNat (if ch = 0x2d ∨ ch = 0x2b then rest else ch :: rest)).map
        (fun v => if v ≠ 0 ∧ decide (ch = 0x2d) = true then -(v : Int) else (v : Int)) := by
  simp only [bigSetString0, bigNat]
  generalize natScan0 (if ch = 0x2d ∨ ch = 0x2b then rest else ch :: rest) = r
  obtain ⟨v, e, left⟩ := r
  cases e with
  | true => simp
  | false =>
    by_cases hl : left = []
    · simp [hl]
    · simp [hl]

/-- **`big.Int.UnmarshalText` accepts exactly the signed Go integer literals and returns their value** -/
theorem bigSetString0_eq (s : Text) : bigSetString0 s = denotesInt s := by
  cases s with
  | nil => rfl
  | cons ch rest =>
    rw [bigSetString0_cons]
    by_cases hm : ch = 0x2d
    · subst hm
      simp only [denotesInt, if_true, true_or, bigNat_eq_denotes]
      cases denotes rest with
      | none => rfl
      | some v =>
        simp only [decide_true, and_true]
        by_cases hv : v = 0
        · subst hv; simp
        · simp [hv]
    · by_cases hp : ch = 0x2b
      · subst hp
        simp only [denotesInt, if_true, or_true, bigNat_eq_denotes]
        cases denotes rest with
        | none => rfl
        | some v => simp
      · simp only [denotesInt, hm, hp, or_self, if_false, bigNat_eq_denotes]
        cases denotes (ch :: rest) with
        | none => rfl
        | some v => simp




/-! ## hex -/

set_option maxRecDepth 100000 in
theorem fromHex_spec (c : UInt8) :
    if (charVal c).getD 99 < 16 then fromHex c = UInt8.ofNat ((charVal c).getD 99) else fromHex c = 0xff := by
  revert c; apply u8_table; decide

theorem hexPair : ∀ a, a < 16 → ∀ b, b < 16 →
    ((UInt8.ofNat a <<< 4) ||| UInt8.ofNat b) = UInt8.ofNat (16 * a + b) := by decide

set_option maxRecDepth 100000 in
theorem hexDigit_spec (v : UInt8) :
    (charVal (hexDigit (v >>> 4))).isSome = true ∧ (charVal (hexDigit (v &&& 0x0f))).isSome = true ∧
    (charVal (hexDigit (v >>> 4))).getD 99 < 16 ∧ (charVal (hexDigit (v &&& 0x0f))).getD 99 < 16 ∧
    UInt8.ofNat (16 * (charVal (hexDigit (v >>> 4))).getD 99 + (charVal (hexDigit (v &&& 0x0f))).getD 99) = v := by
  revert v; apply u8_table; decide

theorem fromHex_valid {c : UInt8} {d : Nat} (h : charVal c = some d) (hd : d < 16) :
    fromHex c = UInt8.ofNat d ∧ ¬ fromHex c > 0x0f := by
  have := fromHex_spec c
  rw [h] at this
  simp only [Option.getD_some, hd, if_true] at this
  refine ⟨this, ?_⟩
  rw [this]
  have : ∀ d, d < 16 → ¬ UInt8.ofNat d > 0x0f := by decide
  exact this d hd

theorem fromHex_invalid {c : UInt8} (h : ∀ d, charVal c = some d → ¬ d < 16) : fromHex c > 0x0f := by
  have := fromHex_spec c
  cases hc : charVal c with
  | none => rw [hc] at this; simp at this; rw [this]; decide
  | some d => rw [hc] at this; simp only [Option.getD_some, h d hc, if_false] at this; rw [this]; decide

theorem hexDenotes_cons2 (p q : UInt8) (rest : Text) :
    hexDenotes (p :: q :: rest) =
      (charVal p).bind fun a => (charVal q).bind fun b => (hexDenotes rest).bind fun bs =>
        if a < 16 ∧ b < 16 then some (UInt8.ofNat (16 * a + b) :: bs) else none := by
  rw [hexDenotes]
  cases charVal p <;> cases charVal q <;> cases hexDenotes rest <;> rfl

/-- `hexDenotes` on two characters and a rest, as an equivalence -/
theorem hexDenotes_cons2_iff (p q : UInt8) (rest : Text) (out : Bytes) :
    hexDenotes (p :: q :: rest) = some out ↔
      ∃ a b bs, charVal p = some a ∧ charVal q = some b ∧ hexDenotes rest = some bs ∧ a < 16 ∧ b < 16 ∧
        out = UInt8.ofNat (16 * a + b) :: bs := by
  rw [hexDenotes_cons2]
  cases hp : charVal p with
  | none => simp
  | some a =>
    cases hq : charVal q with
    | none => simp
    | some b =>
      cases hr : hexDenotes rest with
      | none => simp
      | some bs =>
        simp only [Option.bind_some]
        by_cases hab : a < 16 ∧ b < 16
        · rw [if_pos hab]
          constructor
          · intro h; injection h with h; exact ⟨a, b, bs, rfl, rfl, rfl, hab.1, hab.2, h.symm⟩
          · rintro ⟨a', b', bs', h1, h2, h3, _, _, h6⟩
            injection h1 with h1; injection h2 with h2; injection h3 with h3
            subst h1; subst h2; subst h3; rw [h6]
        · rw [if_neg hab]
          constructor
          · intro h; cases h
          · rintro ⟨a', b', bs', h1, h2, h3, h4, h5, _⟩
            injection h1 with h1; injection h2 with h2
            subst h1; subst h2
            exact absurd ⟨h4, h5⟩ hab

theorem hexDecodeLoop_spec (dstLen : Nat) : ∀ (src : Text) (acc : Bytes),
    acc.length + src.length / 2 ≤ dstLen →
    hexDecodeLoop dstLen src acc = ((hexDenotes src).map fun bs => Res.ok (acc ++ bs)).getD .err
  | [], acc, _ => by simp [hexDecodeLoop, hexDenotes]
  | [p], acc, _ => by simp [hexDecodeLoop, hexDenotes]
  | p :: q :: rest, acc, h => by
    have hlen : acc.length < dstLen := by simp at h; omega
    rw [hexDecodeLoop, hexDenotes_cons2]
    by_cases hp : ∃ a, charVal p = some a ∧ a < 16
    · obtain ⟨a, hpa, ha⟩ := hp
      have hfp := fromHex_valid hpa ha
      rw [if_neg hfp.2]
      by_cases hq : ∃ b, charVal q = some b ∧ b < 16
      · obtain ⟨b, hqb, hb⟩ := hq
        have hfq := fromHex_valid hqb hb
        rw [if_neg hfq.2, if_neg (by omega), hfp.1, hfq.1, hexPair a ha b hb, hpa, hqb]
        have ih := hexDecodeLoop_spec dstLen rest (acc ++ [UInt8.ofNat (16 * a + b)])
          (by simp at h ⊢; omega)
        rw [ih]
        cases hexDenotes rest with
        | none => rfl
        | some bs => simp [ha, hb]
      · have hfq : fromHex q > 0x0f := fromHex_invalid (fun d hd hlt => hq ⟨d, hd, hlt⟩)
        rw [if_pos hfq, hpa]
        cases hqv : charVal q with
        | none => rfl
        | some b =>
          have : ¬ b < 16 := fun hlt => hq ⟨b, hqv, hlt⟩
          cases hexDenotes rest <;> simp [this]
    · have hfp : fromHex p > 0x0f := fromHex_invalid (fun d hd hlt => hp ⟨d, hd, hlt⟩)
      rw [if_pos hfp]
      cases hpv : charVal p with
      | none => rfl
      | some a =>
        have : ¬ a < 16 := fun hlt => hp ⟨a, hpv, hlt⟩
        cases charVal q <;> cases hexDenotes rest <;> simp [this]

theorem hexDenotes_length : ∀ (t : Text) (bs : Bytes), hexDenotes t = some bs → t.length = 2 * bs.length
  | [], bs, h => by simp [hexDenotes] at h; subst h; rfl
  | [p], bs, h => by simp [hexDenotes] at h
  | p :: q :: rest, bs, h => by
    obtain ⟨a, b, bs', _, _, hr, _, _, hout⟩ := (hexDenotes_cons2_iff p q rest bs).1 h
    have := hexDenotes_length rest bs' hr
    subst hout
    simp [this]; omega

theorem hexDenotes_allHex : ∀ (t : Text) (bs : Bytes), hexDenotes t = some bs → ∀ c ∈ t, isDig 16 c = true
  | [], _, _ => by simp
  | [p], bs, h => by simp [hexDenotes] at h
  | p :: q :: rest, bs, h => by
    obtain ⟨a, b, bs', hp, hq, hr, ha, hb, _⟩ := (hexDenotes_cons2_iff p q rest bs).1 h
    have ih := hexDenotes_allHex rest bs' hr
    intro c hc
    simp only [List.mem_cons] at hc
    rcases hc with rfl | rfl | hc
    · exact isDig_iff.2 ⟨a, hp, ha⟩
    · exact isDig_iff.2 ⟨b, hq, hb⟩
    · exact ih c hc

theorem hexEncode_cons (v : UInt8) (r : Bytes) :
    hexEncode (v :: r) = hexDigit (v >>> 4) :: hexDigit (v &&& 0x0f) :: hexEncode r := by
  simp [hexEncode]

theorem hexEncode_length (bs : Bytes) : (hexEncode bs).length = 2 * bs.length := by
  induction bs with
  | nil => rfl
  | cons v r ih => rw [hexEncode_cons]; simp [ih]; omega

theorem hexDenotes_hexEncode (bs : Bytes) : hexDenotes (hexEncode bs) = some bs := by
  induction bs with
  | nil => rfl
  | cons v r ih =>
    obtain ⟨s1, s2, ha, hb, hv⟩ := hexDigit_spec v
    rw [hexEncode_cons, hexDenotes_cons2_iff]
    cases h1 : charVal (hexDigit (v >>> 4)) with
    | none => rw [h1] at s1; cases s1
    | some a =>
      cases h2 : charVal (hexDigit (v &&& 0x0f)) with
      | none => rw [h2] at s2; cases s2
      | some b =>
        simp only [h1, h2, Option.getD_some] at hv ha hb
        exact ⟨a, b, r, rfl, rfl, ih, ha, hb, by rw [hv]⟩

theorem stripHexPrefix_eq (s : Text) : stripHexPrefix s = unprefix s := by
  unfold stripHexPrefix unprefix
  split
  · rename_i c0 c1 t
    by_cases h0 : c0 = 0x30
    · subst h0
      by_cases hx : c1 = 0x78
      · subst hx; simp
      · by_cases hX : c1 = 0x58
        · subst hX; simp
        · simp [hx, hX]
    · simp [h0]
  · rename_i h
    split
    · rename_i t; exact absurd rfl (h _ _ t)
    · rename_i t; exact absurd rfl (h _ _ t)
    · rfl





/-- `HexPairAt t bs i`: characters `2i`, `2i+1` of `t` are hex digits and byte `i` of `bs` is their value -/
def HexPairAt (t : Text) (bs : Bytes) (i : Nat) : Prop :=
  ∃ a b, (t[2 * i]?).bind charVal = some a ∧ (t[2 * i + 1]?).bind charVal = some b ∧
    a < 16 ∧ b < 16 ∧ bs[i]? = some (UInt8.ofNat (16 * a + b))

/-- position-wise reading of `hexDenotes` -/
theorem hexDenotes_iff_index : ∀ (t : Text) (bs : Bytes),
    hexDenotes t = some bs ↔ (t.length = 2 * bs.length ∧ ∀ i, i < bs.length → HexPairAt t bs i)
  | [], bs => by
    constructor
    · intro h; simp [hexDenotes] at h; subst h; simp
    · rintro ⟨h, _⟩
      have : bs = [] := by cases bs with
        | nil => rfl
        | cons x y => simp at h
      subst this; rfl
  | [p], bs => by
    constructor
    · intro h; simp [hexDenotes] at h
    · rintro ⟨h, _⟩; simp at h; omega
  | p :: q :: rest, bs => by
    rw [hexDenotes_cons2_iff]
    constructor
    · rintro ⟨a, b, bs', hp, hq, hr, ha, hb, rfl⟩
      obtain ⟨hlen, hidx⟩ := (hexDenotes_iff_index rest bs').1 hr
      refine ⟨by simp [hlen]; omega, ?_⟩
      intro i hi
      cases i with
      | zero => exact ⟨a, b, by simpa using hp, by simpa using hq, ha, hb, rfl⟩
      | succ j =>
        obtain ⟨a', b', h1, h2, h3, h4, h5⟩ := hidx j (by simpa using hi)
        refine ⟨a', b', ?_, ?_, h3, h4, by simpa using h5⟩
        · have : 2 * (j + 1) = (2 * j) + 1 + 1 := by omega
          rw [this]; simpa using h1
        · have : 2 * (j + 1) + 1 = (2 * j + 1) + 1 + 1 := by omega
          rw [this]; simpa using h2
    · rintro ⟨hlen, hidx⟩
      cases bs with
      | nil => simp at hlen
      | cons b0 bs' =>
        obtain ⟨a, b, h1, h2, ha, hb, h5⟩ := hidx 0 (by simp)
        have hr : hexDenotes rest = some bs' := by
          apply (hexDenotes_iff_index rest bs').2
          refine ⟨by simp at hlen; omega, ?_⟩
          intro j hj
          obtain ⟨a', b', g1, g2, g3, g4, g5⟩ := hidx (j + 1) (by simpa using hj)
          refine ⟨a', b', ?_, ?_, g3, g4, by simpa using g5⟩
          · have : 2 * (j + 1) = (2 * j) + 1 + 1 := by omega
            rw [this] at g1; simpa using g1
          · have : 2 * (j + 1) + 1 = (2 * j + 1) + 1 + 1 := by omega
            rw [this] at g2; simpa using g2
        refine ⟨a, b, bs', by simpa using h1, by simpa using h2, hr, ha, hb, ?_⟩
        rw [List.getElem?_cons_zero] at h5
        injection h5 with h5; rw [h5]



/-! ## the ztyp layer against the specification -/

/-- the widths of the basic unsigned views -/
def StdWidth (w : Nat) : Prop := w = 8 ∨ w = 16 ∨ w = 32 ∨ w = 64

instance (w : Nat) : Decidable (StdWidth w) := by unfold StdWidth; infer_instance

theorem StdWidth.bounds {w : Nat} (h : StdWidth w) : 1 ≤ w ∧ w ≤ 64 := by
  rcases h with rfl | rfl | rfl | rfl <;> omega

/-- what the property demands for an unsigned literal text and a width: the denoted number if it
fits, failure otherwise -/
def specNum (w : Nat) (s : Text) : Res Nat :=
  match denotes s with
  | some n => if n < 2^w then .ok n else .err
  | none => .err

/-- the same for the big-integer route (sign allowed) into 256 bits -/
def specInt256 (s : Text) : Res Nat :=
  match denotesInt s with
  | some v => if 0 ≤ v ∧ v < 2^256 then .ok v.toNat else .err
  | none => .err

theorem specNum_ok_iff (w : Nat) (s : Text) (n : Nat) :
    specNum w s = .ok n ↔ (denotes s = some n ∧ n < 2^w) := by
  unfold specNum
  cases denotes s with
  | none => simp
  | some m =>
    by_cases hm : m < 2^w
    · simp only [hm, if_true]
      constructor
      · intro h; injection h with h; subst h; exact ⟨rfl, hm⟩
      · intro h; injection h.1 with h1; rw [h1]
    · simp only [hm, if_false]
      constructor
      · intro h; cases h
      · rintro ⟨h, hn⟩; injection h with h; subst h; exact absurd hn hm

theorem specNum_ne_panic (w : Nat) (s : Text) : specNum w s ≠ .panic := by
  unfold specNum
  cases denotes s with
  | none => simp
  | some m => by_cases hm : m < 2^w <;> simp [hm]

theorem parseUint_class (s : Text) (w : Nat) (h1 : 1 ≤ w) (h2 : w ≤ 64) :
    (match parseUint s w with
     | .ok n => Res.ok (n % 2^w)
     | .error _ => Res.err) = specNum w s := by
  cases hp : parseUint s w with
  | ok n =>
    have := (parseUint_ok_iff s w h1 h2 n).1 hp
    simp only [specNum, this.1, this.2, if_true, Nat.mod_eq_of_lt this.2]
  | error e =>
    simp only [specNum]
    cases hd : denotes s with
    | none => rfl
    | some m =>
      by_cases hm : m < 2^w
      · have := (parseUint_ok_iff s w h1 h2 m).2 ⟨hd, hm⟩
        rw [hp] at this; cases this
      · simp [hm]

theorem uintViewUnmarshalText_eq (w : Nat) (h1 : 1 ≤ w) (h2 : w ≤ 64) (s : Text) :
    uintViewUnmarshalText w s = specNum w s := by
  rw [← parseUint_class s w h1 h2, uintViewUnmarshalText]
  cases parseUint s w <;> rfl

theorem uintUnmarshal_eq (w : Nat) (h1 : 1 ≤ w) (h2 : w ≤ 64) (s : Text) :
    (match uintUnmarshal s w with
     | .ok x => Res.ok (x % 2^w)
     | .err => .err
     | .panic => .panic) =
      match stripQuotes s with
      | none => .err
      | some s' => specNum w s' := by
  unfold uintUnmarshal
  cases stripQuotes s with
  | none => rfl
  | some s' =>
    simp only
    rw [← parseUint_class s' w h1 h2]
    cases parseUint s' w <;> rfl

theorem uintUnmarshalJSON_eq (w : Nat) (hw : StdWidth w) (s : Text) :
    uintUnmarshalJSON w s =
      match stripQuotes s with
      | none => .err
      | some s' => specNum w s' := by
  rcases hw with rfl | rfl | rfl | rfl
  · exact uintUnmarshal_eq 8 (by omega) (by omega) s
  · exact uintUnmarshal_eq 16 (by omega) (by omega) s
  · exact uintUnmarshal_eq 32 (by omega) (by omega) s
  · have := uintUnmarshal_eq 64 (by omega) (by omega) s
    rw [← this]
    show uintUnmarshal s 64 = _
    unfold uintUnmarshal
    cases stripQuotes s with
    | none => rfl
    | some s' =>
      simp only
      cases hp : parseUint s' 64 with
      | error e => rfl
      | ok n =>
        have := ((parseUint_ok_iff s' 64 (by omega) (by omega) n).1 hp).2
        simp [Nat.mod_eq_of_lt this]

theorem uintUnmarshalText_eq (w : Nat) (hw : StdWidth w) (s : Text) :
    uintUnmarshalText w s = specNum w s := by
  rcases hw with rfl | rfl | rfl | rfl
  · exact uintViewUnmarshalText_eq 8 (by omega) (by omega) s
  · exact uintViewUnmarshalText_eq 16 (by omega) (by omega) s
  · exact uintViewUnmarshalText_eq 32 (by omega) (by omega) s
  · exact uintViewUnmarshalText_eq 64 (by omega) (by omega) s

theorem specInt256_ok_iff (s : Text) (n : Nat) :
    specInt256 s = .ok n ↔ (denotesInt s = some (n : Int) ∧ n < 2^256) := by
  unfold specInt256
  cases denotesInt s with
  | none => simp
  | some v =>
    simp only
    by_cases hv : 0 ≤ v ∧ v < 2^256
    · rw [if_pos hv]
      constructor
      · intro h; injection h with h; subst h
        refine ⟨by congr 1; omega, ?_⟩
        omega
      · rintro ⟨h, _⟩; injection h with h; subst h; simp
    · rw [if_neg hv]
      constructor
      · intro h; cases h
      · rintro ⟨h, hn⟩; injection h with h; subst h; exact absurd ⟨by omega, by omega⟩ hv

theorem bigTo256 (x : Int) :
    (if x < 0 then Res.err
     else if (setFromBig x).2 = true then Res.err else Res.ok (setFromBig x).1) =
      if 0 ≤ x ∧ x < 2^256 then Res.ok x.toNat else Res.err := by
  unfold setFromBig
  by_cases hneg : x < 0
  · rw [if_pos hneg, if_neg (by omega)]
  · rw [if_neg hneg]
    by_cases hov : x.natAbs ≥ 2^256
    · simp only [hov, decide_true, if_true]
      rw [if_neg (by omega)]
    · simp only [hov, decide_false, hneg, if_false, Bool.false_eq_true]
      rw [if_pos (by omega)]
      congr 1
      rw [Nat.mod_eq_of_lt (by omega)]
      omega

theorem uint256ViewUnmarshalText_eq (s : Text) : uint256ViewUnmarshalText s = specInt256 s := by
  unfold uint256ViewUnmarshalText specInt256
  rw [bigSetString0_eq]
  cases denotesInt s with
  | none => rfl
  | some x =>
    simp only [uint256ViewSetFromBig]
    rw [← bigTo256 x]
    by_cases hneg : x < 0
    · simp [hneg]
    · simp [hneg]

theorem uint256Unmarshal_eq (s : Text) :
    uint256Unmarshal s =
      match stripQuotes s with
      | none => .err
      | some s' => specInt256 s' := by
  unfold uint256Unmarshal
  cases stripQuotes s with
  | none => rfl
  | some s' =>
    simp only [specInt256]
    rw [bigSetString0_eq]
    cases denotesInt s' with
    | none => rfl
    | some x =>
      simp only
      rw [← bigTo256 x]

/-! ### marshalling -/

theorem uint64Marshal_eq (n : Nat) : uint64Marshal n = 0x22 :: (decDigits n ++ [0x22]) := by
  simp [uint64Marshal, appendUintDec]

theorem uint256Marshal_eq (n : Nat) : uint256Marshal n = 0x22 :: (decDigits n ++ [0x22]) := by
  simp [uint256Marshal, fmtU256]

theorem denotesInt_decDigits (n : Nat) : denotesInt (decDigits n) = some (n : Int) := by
  obtain ⟨c, t, heq, _⟩ := decDigits_head n
  have hd := denotes_decDigits n
  have hc : isDig 10 c = true := decDigits_allDig n c (by rw [heq]; simp)
  have hsign := good_head_ne_sign (base := 10) (c := c) (by simp [hc])
  rw [heq] at hd ⊢
  simp [denotesInt, hsign.1, hsign.2, hd]


/-! ### hex layer -/

/-- what the property demands of hex decoding: the denoted bytes, or failure -/
def specHex (t : Text) : Res Bytes :=
  match hexDenotes t with
  | some bs => .ok bs
  | none => .err

theorem hexDecode_eq (dstLen : Nat) (src : Text) (h : src.length / 2 ≤ dstLen) :
    hexDecode dstLen src = specHex src := by
  rw [hexDecode, hexDecodeLoop_spec dstLen src [] (by simpa using h), specHex]
  cases hexDenotes src <;> simp

theorem fixedBytesUnmarshalText_eq (len : Nat) (s : Text) :
    fixedBytesUnmarshalText len s =
      if (unprefix s).length = 2 * len then specHex (unprefix s) else .err := by
  unfold fixedBytesUnmarshalText
  simp only [stripHexPrefix_eq]
  by_cases hl : (unprefix s).length = 2 * len
  · rw [if_neg (by simpa using hl), if_pos hl, hexDecode_eq len _ (by omega)]
  · rw [if_pos (by simpa using hl), if_neg hl]

theorem dynamicBytesUnmarshalText_eq (s : Text) :
    dynamicBytesUnmarshalText s = specHex (unprefix s) := by
  unfold dynamicBytesUnmarshalText
  simp only [stripHexPrefix_eq]
  exact hexDecode_eq _ _ (Nat.le_refl _)

theorem bytesMarshalText_eq (bs : Bytes) : bytesMarshalText bs = .ok (0x30 :: 0x78 :: hexEncode bs) := by
  simp [bytesMarshalText, hexEncodeInto]

theorem unprefix_0x (t : Text) : unprefix (0x30 :: 0x78 :: t) = t := rfl

theorem specHex_ok_iff (t : Text) (bs : Bytes) : specHex t = .ok bs ↔ hexDenotes t = some bs := by
  unfold specHex
  cases hexDenotes t with
  | none => simp
  | some b =>
    constructor
    · intro h; injection h with h; rw [h]
    · intro h; injection h with h; rw [h]



end ZtypV.Conv

