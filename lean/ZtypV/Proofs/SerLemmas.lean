/-
Pure list / byte / bit lemmas about the Spec's serialization helpers (`chunkOf`, `chunks`,
`packBits`, `byteOfBits`, `offsetsOf`, `serContainerParts`) and the `Except` plumbing
(`mapM` over successful steps).  Core Lean only.  Used by Proofs/ViewSer.lean (C02).
-/
import ZtypV.Spec
import ZtypV.Model.Tree
namespace ZtypV

/-! ### `Except` plumbing -/

@[simp] theorem R.bind_ok {α β : Type} (a : α) (f : α → R β) : (Except.ok a >>= f) = f a := rfl
@[simp] theorem R.bind_error {α β : Type} (e : Err) (f : α → R β) :
    ((Except.error e : R α) >>= f) = .error e := rfl

/-- `mapM` over steps that all succeed is the list of results -/
theorem mapM_ok_of_getElem {α β : Type} (f : α → R β) : ∀ (l : List α) (out : List β),
    l.length = out.length →
    (∀ j (h1 : j < l.length) (h2 : j < out.length), f l[j] = .ok out[j]) →
    l.mapM f = .ok out := by
  intro l
  induction l with
  | nil =>
    intro out hl _
    have : out = [] := List.eq_nil_of_length_eq_zero hl.symm
    subst this; rfl
  | cons a l ih =>
    intro out hl hj
    cases out with
    | nil => simp at hl
    | cons b out =>
      rw [List.mapM_cons]
      have h0 := hj 0 (by simp) (by simp)
      simp only [List.getElem_cons_zero] at h0
      rw [h0, ih out (by simpa using hl) (fun j h1 h2 => by
        have := hj (j + 1) (by simp; omega) (by simp; omega)
        simpa using this)]
      rfl

theorem mapM_range_ok {β : Type} (f : Nat → R β) (out : List β)
    (hf : ∀ i (hi : i < out.length), f i = .ok out[i]) :
    (List.range out.length).mapM f = .ok out := by
  apply mapM_ok_of_getElem
  · simp
  · intro j h1 h2
    simp only [List.getElem_range]
    exact hf j h2

theorem mapM_range_ok' {β : Type} (f : Nat → R β) (k : Nat) (out : List β) (hk : out.length = k)
    (hf : ∀ i (hi : i < out.length), f i = .ok out[i]) :
    (List.range k).mapM f = .ok out := by
  subst hk; exact mapM_range_ok f out hf

/-! ### chunks -/

@[simp] theorem chunkOf_length (bs : Bytes) : (chunkOf bs).length = 32 := by
  simp [chunkOf]

theorem chunkOf_getElem? (bs : Bytes) (j : Nat) (hj : j < 32) :
    (chunkOf bs)[j]? = some (bs.getD j 0) := by
  unfold chunkOf
  rw [List.getElem?_take, if_pos hj, List.getElem?_append, List.getD_eq_getElem?_getD]
  split
  · rename_i hlt
    rw [List.getElem?_eq_getElem hlt]; rfl
  · rename_i hge
    rw [List.getElem?_replicate, if_pos (by omega), List.getElem?_eq_none (by omega)]; rfl

theorem chunkOf_getD (bs : Bytes) (j : Nat) (hj : j < 32) :
    (chunkOf bs).getD j 0 = bs.getD j 0 := by
  rw [List.getD_eq_getElem?_getD, chunkOf_getElem? bs j hj]; rfl

theorem chunkOf_take (bs : Bytes) (k : Nat) (hk : k ≤ bs.length) (hk32 : k ≤ 32) :
    (chunkOf bs).take k = bs.take k := by
  unfold chunkOf
  rw [List.take_take, Nat.min_eq_left hk32, List.take_append_of_le_length hk]

theorem chunkOf_take_self (bs : Bytes) (h32 : bs.length ≤ 32) :
    (chunkOf bs).take bs.length = bs := by
  rw [chunkOf_take bs _ (Nat.le_refl _) h32, List.take_length]

theorem chunkOf_of_ge (bs : Bytes) (h32 : 32 ≤ bs.length) : chunkOf bs = bs.take 32 := by
  unfold chunkOf
  rw [List.take_append_of_le_length h32]

theorem chunkOf_drop_take (bs : Bytes) (a k : Nat) (hk : a + k ≤ bs.length) (hk32 : a + k ≤ 32) :
    ((chunkOf bs).drop a).take k = (bs.drop a).take k := by
  rw [List.take_drop, List.take_drop, chunkOf_take bs (a + k) hk hk32]

@[simp] theorem chunks_length (bs : Bytes) : (chunks bs).length = (bs.length + 31) / 32 := by
  simp [chunks]

theorem chunks_getElem (bs : Bytes) (k : Nat) (hk : k < (chunks bs).length) :
    (chunks bs)[k] = chunkOf (bs.drop (32 * k)) := by
  simp [chunks]

theorem chunks_nil : chunks [] = [] := rfl

/-- recursion equation of `chunks` -/
theorem chunks_cons (bs : Bytes) (hne : 0 < bs.length) :
    chunks bs = chunkOf bs :: chunks (bs.drop 32) := by
  apply List.ext_getElem
  · simp only [chunks_length, List.length_cons, List.length_drop]; omega
  · intro i h1 h2
    rw [chunks_getElem]
    cases i with
    | zero => simp
    | succ i =>
      simp only [List.getElem_cons_succ]
      rw [chunks_getElem, List.drop_drop]
      congr 2; omega

/-- concatenating the chunks and cutting to the original length gives the bytes back -/
theorem chunks_flatten_take (bs : Bytes) : (chunks bs).flatten.take bs.length = bs := by
  generalize hn : bs.length = n
  induction n using Nat.strongRecOn generalizing bs with
  | _ n ih =>
    by_cases h0 : n = 0
    · subst h0
      have : bs = [] := List.eq_nil_of_length_eq_zero hn
      subst this; rfl
    · rw [chunks_cons bs (by omega), List.flatten_cons]
      by_cases h32 : n ≤ 32
      · rw [List.take_append_of_le_length (by simp; omega), ← hn, chunkOf_take_self bs (by omega)]
      · rw [chunkOf_of_ge bs (by omega), List.take_append]
        have hl : (bs.take 32).length = 32 := by simp; omega
        rw [hl, List.take_of_length_le (by omega : (bs.take 32).length ≤ n)]
        rw [ih (n - 32) (by omega) (bs.drop 32) (by simp; omega)]
        exact List.take_append_drop 32 bs

/-- longer cut: only the zero padding of the last chunk is added -/
theorem chunks_flatten_take_ge (bs : Bytes) (L : Nat) (hL : bs.length ≤ L)
    (hL2 : L ≤ 32 * ((bs.length + 31) / 32)) :
    (chunks bs).flatten.take L = bs ++ List.replicate (L - bs.length) 0 := by
  generalize hn : bs.length = n at hL hL2
  induction n using Nat.strongRecOn generalizing bs L with
  | _ n ih =>
    by_cases h0 : n = 0
    · subst h0
      have : bs = [] := List.eq_nil_of_length_eq_zero hn
      subst this
      have : L = 0 := by omega
      subst this; rfl
    · rw [chunks_cons bs (by omega), List.flatten_cons]
      by_cases h32 : n ≤ 32
      · have hL32 : L ≤ 32 := by omega
        rw [List.take_append_of_le_length (by simp; omega)]
        unfold chunkOf
        rw [List.take_take, Nat.min_eq_left hL32, List.take_append, hn,
          List.take_of_length_le (by omega), List.take_replicate]
        congr 2; omega
      · rw [chunkOf_of_ge bs (by omega), List.take_append]
        have hl : (bs.take 32).length = 32 := by simp; omega
        rw [hl, List.take_of_length_le (by omega : (bs.take 32).length ≤ L)]
        rw [ih (n - 32) (by omega) (bs.drop 32) (L - 32) (by simp; omega) (by omega) (by omega)]
        rw [← List.append_assoc, List.take_append_drop]
        congr 2; omega

/-! ### uniform-length pieces (packed basic elements) -/

theorem flatten_uniform_length {α : Type} (b : Nat) : ∀ (ls : List (List α)),
    (∀ l ∈ ls, l.length = b) → ls.flatten.length = ls.length * b := by
  intro ls
  induction ls with
  | nil => simp
  | cons l ls ih =>
    intro hall
    rw [List.flatten_cons, List.length_append, ih (fun x hx => hall x (List.mem_cons_of_mem _ hx)),
      hall l List.mem_cons_self, List.length_cons, Nat.succ_mul]
    omega

theorem flatten_uniform_drop_take {α : Type} (b : Nat) : ∀ (ls : List (List α)) (i : Nat)
    (hi : i < ls.length), (∀ l ∈ ls, l.length = b) → (ls.flatten.drop (b * i)).take b = ls[i] := by
  intro ls
  induction ls with
  | nil => intro i hi; simp at hi
  | cons l ls ih =>
    intro i hi hall
    have hl : l.length = b := hall l List.mem_cons_self
    cases i with
    | zero =>
      simp only [Nat.mul_zero, List.drop_zero, List.flatten_cons, List.getElem_cons_zero]
      rw [List.take_append_of_le_length (by omega), ← hl, List.take_length]
    | succ i =>
      simp only [List.flatten_cons, List.getElem_cons_succ]
      have : b * (i + 1) = l.length + b * i := by rw [Nat.mul_succ, hl]; omega
      rw [this, ← List.drop_drop, List.drop_left]
      exact ih i (by simpa using hi) (fun x hx => hall x (List.mem_cons_of_mem _ hx))

/-! ### bits -/

/-- numeric value of a little-endian bit list -/
def bitsVal (bs : List Bool) : Nat := bs.foldr (fun b acc => 2 * acc + (if b then 1 else 0)) 0

theorem byteOfBits_eq (bs : List Bool) : byteOfBits bs = UInt8.ofNat (bitsVal bs) := rfl

@[simp] theorem bitsVal_nil : bitsVal [] = 0 := rfl
theorem bitsVal_cons (b : Bool) (bs : List Bool) :
    bitsVal (b :: bs) = 2 * bitsVal bs + (if b then 1 else 0) := rfl

theorem bitsVal_lt (bs : List Bool) : bitsVal bs < 2 ^ bs.length := by
  induction bs with
  | nil => simp
  | cons b bs ih =>
    rw [bitsVal_cons, List.length_cons, Nat.pow_succ]
    split <;> omega

theorem bitsVal_bit : ∀ (bs : List Bool) (m : Nat),
    bitsVal bs / 2 ^ m % 2 = if bs.getD m false then 1 else 0 := by
  intro bs
  induction bs with
  | nil => intro m; simp
  | cons b bs ih =>
    intro m
    cases m with
    | zero =>
      rw [bitsVal_cons]
      simp only [Nat.pow_zero, Nat.div_one, List.getD_cons_zero]
      cases b <;> simp <;> omega
    | succ m =>
      rw [bitsVal_cons, List.getD_cons_succ, ← ih m, Nat.pow_succ, Nat.mul_comm (2 ^ m) 2,
        ← Nat.div_div_eq_div_mul]
      congr 2
      cases b <;> simp <;> omega

theorem bitsVal_snoc_true (bs : List Bool) : bitsVal (bs ++ [true]) = bitsVal bs + 2 ^ bs.length := by
  induction bs with
  | nil => rfl
  | cons b bs ih =>
    rw [List.cons_append, bitsVal_cons, ih, bitsVal_cons, List.length_cons, Nat.pow_succ]
    omega

theorem byteOfBits_toNat (bs : List Bool) (h8 : bs.length ≤ 8) :
    (byteOfBits bs).toNat = bitsVal bs := by
  rw [byteOfBits_eq, UInt8.toNat_ofNat']
  apply Nat.mod_eq_of_lt
  have h1 := bitsVal_lt bs
  have h2 : 2 ^ bs.length ≤ 2 ^ 8 := Nat.pow_le_pow_right (by omega) h8
  omega

@[simp] theorem byteOfBits_nil : byteOfBits [] = 0 := rfl

/-- bit `m` of a packed byte -/
theorem byteOfBits_bit (bs : List Bool) (m : Nat) (h8 : bs.length ≤ 8) :
    ((byteOfBits bs).toNat / 2 ^ m % 2 == 1) = bs.getD m false := by
  rw [byteOfBits_toNat bs h8, bitsVal_bit]
  cases bs.getD m false <;> rfl

/-- appending the delimiter bit to fewer than 8 bits sets bit `length` -/
theorem byteOfBits_snoc_true (bs : List Bool) (h8 : bs.length < 8) :
    byteOfBits (bs ++ [true]) = byteOfBits bs ||| UInt8.ofNat (2 ^ bs.length) := by
  apply UInt8.toNat_inj.mp
  rw [UInt8.toNat_or, byteOfBits_toNat bs (by omega), byteOfBits_toNat _ (by simp; omega),
    UInt8.toNat_ofNat', bitsVal_snoc_true]
  have hlt := bitsVal_lt bs
  have h2 : 2 ^ bs.length < 2 ^ 8 := Nat.pow_lt_pow_right (by omega) h8
  rw [Nat.mod_eq_of_lt h2]
  have := Nat.two_pow_add_eq_or_of_lt hlt 1
  rw [Nat.mul_one] at this
  rw [Nat.add_comm, this, Nat.or_comm]

@[simp] theorem packBits_length (bs : List Bool) : (packBits bs).length = (bs.length + 7) / 8 := by
  simp [packBits]

theorem packBits_getElem (bs : List Bool) (k : Nat) (hk : k < (packBits bs).length) :
    (packBits bs)[k] = byteOfBits ((bs.drop (8 * k)).take 8) := by
  simp [packBits]

theorem packBits_getD (bs : List Bool) (k : Nat) :
    (packBits bs).getD k 0 = byteOfBits ((bs.drop (8 * k)).take 8) := by
  rw [List.getD_eq_getElem?_getD]
  by_cases hk : k < (packBits bs).length
  · rw [List.getElem?_eq_getElem hk, packBits_getElem]; rfl
  · rw [List.getElem?_eq_none (by omega)]
    rw [packBits_length] at hk
    rw [List.drop_of_length_le (by omega)]; rfl

@[simp] theorem packBits_nil : packBits [] = [] := rfl

theorem packBits_short (bs : List Bool) (h0 : 0 < bs.length) (h8 : bs.length ≤ 8) :
    packBits bs = [byteOfBits bs] := by
  apply List.ext_getElem
  · rw [packBits_length]; simp; omega
  · intro i h1 h2
    have : i = 0 := by simpa using h2
    subst this
    rw [packBits_getElem]
    simp [List.take_of_length_le h8]

/-- packing distributes over a byte-aligned split -/
theorem packBits_append_aligned (a b : List Bool) (q : Nat) (ha : a.length = 8 * q) :
    packBits (a ++ b) = packBits a ++ packBits b := by
  apply List.ext_getElem
  · simp only [packBits_length, List.length_append, ha]; omega
  · intro i h1 h2
    rw [packBits_getElem]
    have hla : (packBits a).length = q := by rw [packBits_length, ha]; omega
    by_cases hi : i < q
    · rw [List.getElem_append_left (by omega), packBits_getElem,
        List.drop_append_of_le_length (by omega),
        List.take_append_of_le_length (by simp; omega)]
    · rw [List.getElem_append_right (by omega), packBits_getElem, List.drop_append,
        List.drop_of_length_le (by omega), List.nil_append, hla, ha]
      congr 3; omega

/-- the bitlist encoding (`bs` then the delimiter bit) in the form the Go code produces it:
    pack the bits, extend to `(len+8)/8` bytes, OR the delimiter into the last byte -/
theorem packBits_delimiter (bs : List Bool) (padded : Bytes)
    (hp : padded = packBits bs ++ List.replicate ((bs.length + 8) / 8 - (bs.length + 7) / 8) 0) :
    ∃ last, padded.getLast? = some last ∧
      padded.dropLast ++ [last ||| UInt8.ofNat (2 ^ (bs.length % 8))] = packBits (bs ++ [true]) := by
  have hsplit : bs = bs.take (8 * (bs.length / 8)) ++ bs.drop (8 * (bs.length / 8)) :=
    (List.take_append_drop _ _).symm
  have hfl : (bs.take (8 * (bs.length / 8))).length = 8 * (bs.length / 8) := by simp; omega
  have htl : (bs.drop (8 * (bs.length / 8))).length = bs.length % 8 := by simp; omega
  generalize bs.take (8 * (bs.length / 8)) = full at hsplit hfl
  generalize bs.drop (8 * (bs.length / 8)) = tail at hsplit htl
  have hpad : padded = packBits full ++ [byteOfBits tail] := by
    generalize hk : (bs.length + 8) / 8 - (bs.length + 7) / 8 = k at hp
    rw [hp, hsplit, packBits_append_aligned full tail _ hfl]
    by_cases hr : bs.length % 8 = 0
    · have : tail = [] := List.eq_nil_of_length_eq_zero (by omega)
      subst this
      have : k = 1 := by omega
      rw [this]; simp [List.replicate]
    · have : k = 0 := by omega
      rw [this, packBits_short tail (by omega) (by omega)]; simp
  refine ⟨byteOfBits tail, ?_, ?_⟩
  · rw [hpad, List.getLast?_concat]
  · rw [hpad, List.dropLast_concat]
    conv => rhs; rw [hsplit, List.append_assoc]
    rw [packBits_append_aligned full _ _ hfl, packBits_short (tail ++ [true]) (by simp) (by simp; omega),
      byteOfBits_snoc_true tail (by omega), htl]

/-- bit `i` read from the chunk that holds it (`bitFromChunk` arithmetic): byte `(i%256)/8` of
    chunk `i/256` of the packed bytes is byte `i/8`, and bit `i%8` of it is `bits[i]` -/
theorem packed_bit (bits : List Bool) (i : Nat) :
    (((chunkOf ((packBits bits).drop (32 * (i / 256)))).getD (i % 256 / 8) 0).toNat
        / 2 ^ (i % 256 % 8) % 2 == 1) = bits.getD i false := by
  rw [chunkOf_getD _ _ (by omega), List.getD_eq_getElem?_getD, List.getElem?_drop,
    ← List.getD_eq_getElem?_getD]
  have h1 : 32 * (i / 256) + i % 256 / 8 = i / 8 := by omega
  have h2 : i % 256 % 8 = i % 8 := by omega
  rw [h1, h2, packBits_getD, byteOfBits_bit _ _ (by simp; omega)]
  rw [List.getD_eq_getElem?_getD, List.getElem?_take, if_pos (by omega), List.getElem?_drop,
    ← List.getD_eq_getElem?_getD]
  congr 1; omega

/-! ### offsets and container layout -/

theorem offsetsOf_flatten_length : ∀ (ps : List Bytes) (s : Nat),
    (offsetsOf s ps).flatten.length = 4 * ps.length := by
  intro ps
  induction ps with
  | nil => intro s; rfl
  | cons p ps ih =>
    intro s
    rw [offsetsOf, List.flatten_cons, List.length_append, ih, leBytes_length, List.length_cons]
    omega

theorem serVarParts_length (ps : List Bytes) :
    (serVarParts ps).length = 4 * ps.length + ps.flatten.length := by
  rw [serVarParts, List.length_append, offsetsOf_flatten_length]

theorem serFixedPart_length : ∀ (ps : List (Bool × Bytes)) (off : Nat),
    (serFixedPart off ps).length = fixedPartLen ps := by
  intro ps
  induction ps with
  | nil => intro off; rfl
  | cons p ps ih =>
    intro off
    obtain ⟨fx, p⟩ := p
    cases fx
    · rw [serFixedPart, List.length_append, leBytes_length, ih]; simp [fixedPartLen]
    · rw [serFixedPart, List.length_append, ih]; simp [fixedPartLen]

theorem serContainerParts_length (ps : List (Bool × Bytes)) :
    (serContainerParts ps).length = fixedPartLen ps + (serVarPart ps).length := by
  rw [serContainerParts, List.length_append, serFixedPart_length]

theorem serVarPart_eq_filter : ∀ (ps : List (Bool × Bytes)),
    serVarPart ps = ((ps.filter (fun x => !x.1)).map (·.2)).flatten := by
  intro ps
  induction ps with
  | nil => rfl
  | cons p ps ih =>
    obtain ⟨fx, p⟩ := p
    cases fx <;> simp [serVarPart, ih]

/-- every part's encoding is no longer than the container's -/
theorem part_le_serContainerParts : ∀ (ps : List (Bool × Bytes)) (x : Bool × Bytes), x ∈ ps →
    x.2.length ≤ fixedPartLen ps + (serVarPart ps).length := by
  intro ps
  induction ps with
  | nil => intro x hx; cases hx
  | cons p ps ih =>
    intro x hx
    obtain ⟨fx, p⟩ := p
    rcases List.mem_cons.mp hx with rfl | hx
    · cases fx <;> simp [fixedPartLen, serVarPart] <;> omega
    · have := ih x hx
      cases fx <;> simp [fixedPartLen, serVarPart] <;> omega

theorem mem_le_flatten_length {α : Type} : ∀ (ls : List (List α)) (l : List α), l ∈ ls →
    l.length ≤ ls.flatten.length := by
  intro ls
  induction ls with
  | nil => intro l hl; cases hl
  | cons a ls ih =>
    intro l hl
    rw [List.flatten_cons, List.length_append]
    rcases List.mem_cons.mp hl with rfl | hl
    · omega
    · have := ih l hl; omega

/-! ### induction principle for the nested inductive `Val` -/

theorem Val.induct {P : Val → Prop}
    (num : ∀ n, P (.num n)) (bool : ∀ b, P (.bool b)) (bytes : ∀ bs, P (.bytes bs))
    (bits : ∀ bs, P (.bits bs)) (seq : ∀ vs, (∀ v ∈ vs, P v) → P (.seq vs)) (none : P .none)
    (union : ∀ sel v, P v → P (.union sel v)) : ∀ v, P v := by
  intro v
  exact Val.rec (motive_1 := P) (motive_2 := fun vs => ∀ v ∈ vs, P v)
    num bool bytes bits seq none union
    (by intro v hv; cases hv)
    (by
      intro head tail ih1 ih2 v hv
      rcases List.mem_cons.mp hv with rfl | hv
      · exact ih1
      · exact ih2 v hv)
    v

/-- induction principle for the nested inductive `Ty` -/
theorem Ty.induct {P : Ty → Prop}
    (uint : ∀ b, P (.uint b)) (bool : P .bool) (bytesN : ∀ n, P (.bytesN n))
    (bitvector : ∀ n, P (.bitvector n)) (bitlist : ∀ n, P (.bitlist n))
    (vector : ∀ e n, P e → P (.vector e n)) (list : ∀ e n, P e → P (.list e n))
    (container : ∀ fs, (∀ t ∈ fs, P t) → P (.container fs))
    (union : ∀ hn opts, (∀ t ∈ opts, P t) → P (.union hn opts)) : ∀ t, P t := by
  intro t
  exact Ty.rec (motive_1 := P) (motive_2 := fun ts => ∀ t ∈ ts, P t)
    uint bool bytesN bitvector bitlist vector list container union
    (by intro t ht; cases ht)
    (by
      intro head tail ih1 ih2 t ht
      rcases List.mem_cons.mp ht with rfl | ht
      · exact ih1
      · exact ih2 t ht)
    t

end ZtypV
