/-
C20, flat side, part 4: allocation bounds of the codec helpers `ByteVector … BitList`,
`ReadRoots(Limited)`, `Vector`, `List`, `FixedLenContainer`, `Container`, `Union`, generic in the
item / field deserializers (`Good`).
-/
import ZtypV.Proofs.FlatCostLoops
namespace ZtypV.FlatCostProofs
open ZtypV ZtypV.View ZtypV.Flat ZtypV.DecodeProofs ZtypV.CostProofs ZtypV.FlatProofs

variable {α β : Type}

/-! ### destination slices: every run -/

theorem resizeC_cost_le (s : Slice) (n : Nat) : (s.resizeC n).cost ≤ n := by
  unfold Slice.resizeC
  dsimp only
  split <;> omega

theorem decByteVectorC_cost (dst : Slice) (n : Nat) (dr : DR) : (decByteVectorC dst n dr).cost ≤ n := by
  unfold decByteVectorC
  rw [cost_bind_zero _ _ (fun _ => rfl)]
  exact resizeC_cost_le dst n

theorem decByteListC_cost (dst : Slice) (lim : Nat) (dr : DR) :
    (decByteListC dst lim dr).cost ≤ dr.scope := by
  unfold decByteListC
  dsimp only
  split
  · rw [cost_fail]; omega
  · rw [cost_bind_zero _ _ (fun _ => rfl)]
    exact resizeC_cost_le dst _

theorem cost_check (c : Bool) (a : α) (e : Err) :
    (if c = true then (pure a : CR α) else CR.fail e).cost = 0 := by
  split <;> rfl

theorem read_check_cost (d : Slice) (dr : DR) (chk : Slice → Bool) :
    (do
      let (s, dr') ← CR.lift (d.readFull dr)
      if chk s = true then (pure (s, dr') : CR (Slice × DR)) else CR.fail .other).cost = 0 := by
  rw [cost_bind_zero _ _ (fun p => by obtain ⟨s, d'⟩ := p; exact cost_check _ _ _)]
  rfl

theorem decBitVectorC_cost (dst : Slice) (n : Nat) (dr : DR) :
    (decBitVectorC dst n dr).cost ≤ (n + 7) / 8 := by
  unfold decBitVectorC
  dsimp only
  rw [cost_bind_zero _ _ (fun d => read_check_cost d dr (fun s => bitvectorCheck s.bytes n))]
  exact resizeC_cost_le dst _

theorem decBitListC_cost (dst : Slice) (lim : Nat) (dr : DR) :
    (decBitListC dst lim dr).cost ≤ dr.scope := by
  unfold decBitListC
  dsimp only
  split
  · rw [cost_fail]; omega
  · rw [cost_bind_zero _ _ (fun d => read_check_cost d dr (fun s => bitlistCheck s.bytes lim))]
    exact resizeC_cost_le dst _

theorem readRootsC_cost (dst : RSlice) (n : Nat) (dr : DR) : (readRootsC dst n dr).cost ≤ 32 * n := by
  unfold readRootsC
  rw [cost_bind_ok (a := ()) rfl, cost_tick, cost_lift]
  split <;> omega

theorem readRootsLimitedC_cost (dst : RSlice) (lim : Nat) (dr : DR) :
    (readRootsLimitedC dst lim dr).cost ≤ dr.scope := by
  unfold readRootsLimitedC
  dsimp only
  split
  · rw [cost_fail]; omega
  split
  · rw [cost_fail]; omega
  · have := readRootsC_cost dst (dr.scope / 32) dr
    omega

/-! ### `Vector` -/

theorem readOffsetsNC_cost (n : Nat) (dr : DR) : (readOffsetsNC n dr).cost = 0 := rfl

theorem decVectorC_ok {e : Ty} {r F : Nat} (hwe : e.wf = true) (items : List DesC)
    (hg : ∀ it ∈ items, Good e r F it.run) {dr dr' : DR} {vs : List Val}
    (hr : (decVectorC items (flatFixedLength e) dr).res = .ok (vs, dr')) :
    dr'.avail.length ≤ dr.avail.length ∧ (e.isFixed = false → 4 * items.length ≤ dr.scope) ∧
      (decVectorC items (flatFixedLength e) dr).cost + r * dr'.avail.length ≤
        104 * items.length + r * dr.avail.length := by
  unfold decVectorC at hr ⊢
  cases hf : e.isFixed with
  | true =>
    have hfl := flatFixedLength_fixed hwe hf
    have hpos := FlatProofs.fixedSize_pos hwe hf
    rw [if_pos (by omega)] at hr ⊢
    obtain ⟨b1, b2, b3⟩ := fixedItemsG_ok 0 (flatFixedLength e) (fun _ => hfl) items dr vs dr' hg hr
    simp only [Nat.zero_add] at b3
    refine ⟨by omega, (fun h => by cases h), by omega⟩
  | false =>
    have hfl := flatFixedLength_var hwe hf
    rw [if_neg (by omega)] at hr ⊢
    dsimp only at hr ⊢
    rw [res_bind_ok (a := ()) rfl] at hr
    rw [cost_bind_ok (a := ()) rfl, cost_tick]
    obtain ⟨⟨offs, d1⟩, h1, hr, hc1⟩ := bind_ok_inv hr
    rw [hc1, readOffsetsNC_cost]
    dsimp only at hr ⊢
    rw [res_readOffsetsNC] at h1
    obtain ⟨ol, s1, v1⟩ := readOffsetsN_ok' _ _ _ _ h1
    by_cases hh : items.length > 0 ∧ offs.headD 0 ≠ items.length * 4
    · rw [if_pos hh] at hr; cases hr
    rw [if_neg hh] at hr ⊢
    obtain ⟨b1, b2, b3⟩ := offsetItemsG_ok hf 0 true dr.scope offs items 0 d1 vs dr' hg hr
    simp only [Nat.zero_add, ol] at b3
    have e2 : r * d1.avail.length ≤ r * dr.avail.length := Nat.mul_le_mul_left r (by omega)
    refine ⟨by omega, (fun _ => by omega), by omega⟩

theorem decVectorC_any {e : Ty} {r F : Nat} (hwe : e.wf = true) (items : List DesC)
    (hg : ∀ it ∈ items, Good e r F it.run) (dr : DR) :
    (decVectorC items (flatFixedLength e) dr).cost ≤
      104 * items.length + r * dr.avail.length + r * dr.scope + F := by
  unfold decVectorC
  cases hf : e.isFixed with
  | true =>
    have hfl := flatFixedLength_fixed hwe hf
    have hpos := FlatProofs.fixedSize_pos hwe hf
    rw [if_pos (by omega)]
    have := fixedItemsG_any 0 (flatFixedLength e) (fun _ => hfl) items dr hg
    simp only [Nat.zero_add] at this
    omega
  | false =>
    have hfl := flatFixedLength_var hwe hf
    rw [if_neg (by omega)]
    dsimp only
    rw [cost_bind_ok (a := ()) rfl, cost_tick]
    apply acc_bind_le
    · rw [readOffsetsNC_cost]; omega
    rintro ⟨offs, d1⟩ h1
    rw [readOffsetsNC_cost]
    rw [res_readOffsetsNC] at h1
    obtain ⟨ol, s1, v1⟩ := readOffsetsN_ok' _ _ _ _ h1
    dsimp only
    split
    · rw [cost_fail]; omega
    have := offsetItemsG_any hf 0 true dr.scope offs items 0 d1 hg
    simp only [Nat.zero_add, ol] at this
    have e2 : r * d1.avail.length ≤ r * dr.avail.length := Nat.mul_le_mul_left r (by omega)
    have e3 : r * d1.scope ≤ r * dr.scope := Nat.mul_le_mul_left r (by omega)
    omega

/-! ### `List` -/

theorem mem_replicate_good {e : Ty} {r F : Nat} {add : DR → CR (Val × DR)} (ha : Good e r F add)
    (k fl : Nat) : ∀ it ∈ List.replicate k (⟨fl, add⟩ : DesC), Good e r F it.run := by
  intro it hit
  rw [(List.mem_replicate.mp hit).2]; exact ha

theorem decListC_ok {e : Ty} {r F : Nat} (hwe : e.wf = true) (A : Nat) {add : DR → CR (Val × DR)}
    (ha : Good e r F add) (lim : Nat) {dr dr' : DR} {vs : List Val}
    (hr : (decListC A add (flatFixedLength e) lim dr).res = .ok (vs, dr')) :
    dr'.avail.length ≤ dr.avail.length ∧
      (decListC A add (flatFixedLength e) lim dr).cost + r * dr'.avail.length ≤
        (A + 104) * dr.scope + r * dr.avail.length := by
  unfold decListC at hr ⊢
  dsimp only at hr ⊢
  by_cases hs0 : dr.scope = 0
  · rw [if_pos hs0] at hr ⊢
    cases hr
    rw [cost_pure]; omega
  rw [if_neg hs0] at hr ⊢
  cases hf : e.isFixed with
  | true =>
    have hfl := flatFixedLength_fixed hwe hf
    have hpos := FlatProofs.fixedSize_pos hwe hf
    rw [if_pos (by omega)] at hr ⊢
    by_cases c1 : dr.scope % flatFixedLength e ≠ 0
    · rw [if_pos c1] at hr; cases hr
    rw [if_neg c1] at hr ⊢
    by_cases c2 : dr.scope / flatFixedLength e > lim
    · rw [if_pos c2] at hr; cases hr
    rw [if_neg c2] at hr ⊢
    obtain ⟨b1, b2, b3⟩ := fixedItemsG_ok A (flatFixedLength e) (fun _ => hfl) _ dr vs dr'
      (mem_replicate_good ha _ _) hr
    simp only [List.length_replicate] at b1 b3
    have hL : dr.scope / flatFixedLength e ≤ dr.scope := Nat.div_le_self _ _
    have e1 : (A + 96) * (dr.scope / flatFixedLength e) ≤ (A + 96) * dr.scope :=
      Nat.mul_le_mul_left _ hL
    have e2 : (A + 104) * dr.scope = (A + 96) * dr.scope + 8 * dr.scope := by
      rw [← Nat.add_mul]
    refine ⟨by omega, by omega⟩
  | false =>
    have hfl := flatFixedLength_var hwe hf
    rw [if_neg (by omega)] at hr ⊢
    obtain ⟨⟨first, d1⟩, h1, hr, hc1⟩ := bind_ok_inv hr
    rw [hc1, cost_lift]
    dsimp only at hr ⊢
    rw [res_lift] at h1
    obtain ⟨s1, v1⟩ := readOffset_ok' h1
    by_cases c1 : first % 4 ≠ 0
    · rw [if_pos c1] at hr; cases hr
    rw [if_neg c1] at hr ⊢
    by_cases c2 : first = 0 ∨ first > dr.scope
    · rw [if_pos c2] at hr; cases hr
    rw [if_neg c2] at hr ⊢
    by_cases c3 : first / 4 > lim
    · rw [if_pos c3] at hr; cases hr
    rw [if_neg c3] at hr ⊢
    generalize hL : first / 4 = L at hr c3 ⊢
    have hL4 : 4 * L ≤ dr.scope ∧ 1 ≤ L := by omega
    rw [res_bind_ok (a := ()) rfl] at hr
    rw [cost_bind_ok (a := ()) rfl, cost_tick]
    obtain ⟨⟨os, d2⟩, h2, hr, hc2⟩ := bind_ok_inv hr
    rw [hc2, readOffsetsNC_cost]
    dsimp only at hr ⊢
    rw [res_readOffsetsNC] at h2
    obtain ⟨ol, s2, v2⟩ := readOffsetsN_ok' _ _ _ _ h2
    obtain ⟨b1, b2, b3⟩ := offsetItemsG_ok hf A false dr.scope (first :: os) _ 0 d2 vs dr'
      (mem_replicate_good ha _ _) hr
    simp only [List.length_cons, ol] at b3
    have hlen : L - 1 + 1 = L := by omega
    rw [hlen] at b3
    have e1 : (A + 96) * L ≤ (A + 96) * dr.scope := Nat.mul_le_mul_left _ (by omega)
    have e2 : (A + 104) * dr.scope = (A + 96) * dr.scope + 8 * dr.scope := by
      rw [← Nat.add_mul]
    have e3 : r * d2.avail.length ≤ r * dr.avail.length := Nat.mul_le_mul_left r (by omega)
    refine ⟨by omega, by omega⟩

theorem decListC_any {e : Ty} {r F : Nat} (hwe : e.wf = true) (A : Nat) {add : DR → CR (Val × DR)}
    (ha : Good e r F add) (lim : Nat) (dr : DR) :
    (decListC A add (flatFixedLength e) lim dr).cost ≤
      (A + 104) * dr.scope + r * dr.avail.length + r * dr.scope + F := by
  unfold decListC
  dsimp only
  by_cases hs0 : dr.scope = 0
  · rw [if_pos hs0, cost_pure]; omega
  rw [if_neg hs0]
  have e2 : (A + 104) * dr.scope = (A + 96) * dr.scope + 8 * dr.scope := by
    rw [← Nat.add_mul]
  cases hf : e.isFixed with
  | true =>
    have hfl := flatFixedLength_fixed hwe hf
    have hpos := FlatProofs.fixedSize_pos hwe hf
    rw [if_pos (by omega)]
    split
    · rw [cost_fail]; omega
    split
    · rw [cost_fail]; omega
    have := fixedItemsG_any A (flatFixedLength e) (fun _ => hfl) _ dr
      (mem_replicate_good ha (dr.scope / flatFixedLength e) (flatFixedLength e))
    simp only [List.length_replicate] at this
    have hL : dr.scope / flatFixedLength e ≤ dr.scope := Nat.div_le_self _ _
    have e1 : (A + 96) * (dr.scope / flatFixedLength e) ≤ (A + 96) * dr.scope :=
      Nat.mul_le_mul_left _ hL
    omega
  | false =>
    have hfl := flatFixedLength_var hwe hf
    rw [if_neg (by omega)]
    apply bind_le
    · rw [cost_lift]; omega
    rintro ⟨first, d1⟩ h1
    rw [res_lift] at h1
    obtain ⟨s1, v1⟩ := readOffset_ok' h1
    rw [cost_lift]
    dsimp only
    split
    · rw [cost_fail]; omega
    split
    · rw [cost_fail]; omega
    split
    · rw [cost_fail]; omega
    rename_i c1 c2 c3
    generalize hL : first / 4 = L at c3 ⊢
    have hL4 : 4 * L ≤ dr.scope ∧ 1 ≤ L := by omega
    rw [acc_tick]
    apply acc_bind_le
    · rw [readOffsetsNC_cost]; omega
    rintro ⟨os, d2⟩ h2
    rw [readOffsetsNC_cost]
    rw [res_readOffsetsNC] at h2
    obtain ⟨ol, s2, v2⟩ := readOffsetsN_ok' _ _ _ _ h2
    dsimp only
    have := offsetItemsG_any hf A false dr.scope (first :: os) _ 0 d2
      (mem_replicate_good ha L 0)
    simp only [List.length_cons, ol] at this
    have hlen : L - 1 + 1 = L := by omega
    rw [hlen] at this
    have e1 : (A + 96) * L ≤ (A + 96) * dr.scope := Nat.mul_le_mul_left _ (by omega)
    have e3 : r * d2.avail.length ≤ r * dr.avail.length := Nat.mul_le_mul_left r (by omega)
    have e4 : r * d2.scope ≤ r * dr.scope := Nat.mul_le_mul_left r (by omega)
    omega

end ZtypV.FlatCostProofs
