/-
Helper lemmas for property C15 (Props/C15.lean): the spec's size functions, the lengths of spec
encodings, and the agreement of the Go size constructors (Model/Sizes.lean) with the spec.
Core Lean only.
-/
import ZtypV.Model.Sizes
namespace ZtypV.Sizes
open ZtypV

/-- a non-trivial well-formed type used by the non-vacuity examples of Props/C15.lean:
    Container{uint64, List[Bitlist[9], 3], Union[None, Vector[boolean, 3]], Vector[List[uint16, 2^40], 2]} -/
def exTy : Ty :=
  .container [.uint 8, .list (.bitlist 9) 3, .union true [.vector .bool 3],
    .vector (.list (.uint 2) (2 ^ 40)) 2]

/-! ### induction over the nested inductive `Ty` -/

theorem tyInd {P : Ty → Prop}
    (uint : ∀ b, P (.uint b)) (bool : P .bool) (bytesN : ∀ n, P (.bytesN n))
    (bitvector : ∀ n, P (.bitvector n)) (bitlist : ∀ n, P (.bitlist n))
    (vector : ∀ e n, P e → P (.vector e n)) (list : ∀ e n, P e → P (.list e n))
    (container : ∀ fs, (∀ t, t ∈ fs → P t) → P (.container fs))
    (union : ∀ hn fs, (∀ t, t ∈ fs → P t) → P (.union hn fs)) : ∀ t, P t :=
  @Ty.rec (motive_1 := P) (motive_2 := fun ts => ∀ t, t ∈ ts → P t)
    uint bool bytesN bitvector bitlist vector list container union
    (fun _ h => nomatch h)
    (fun _ _ hh ht t hm => by
      cases hm with
      | head => exact hh
      | tail _ h => exact ht t h)

/-! ### the spec's size functions -/

theorem allFixed_iff (fs : List Ty) : Ty.allFixed fs = true ↔ ∀ t, t ∈ fs → t.isFixed = true := by
  induction fs with
  | nil => simp [Ty.allFixed]
  | cons t ts ih => simp [Ty.allFixed, ih]

theorem wfAll_iff (fs : List Ty) : Ty.wfAll fs = true ↔ ∀ t, t ∈ fs → t.wf = true := by
  induction fs with
  | nil => simp [Ty.wfAll]
  | cons t ts ih => simp [Ty.wfAll, ih]

/-- fixed-size types: minimum = maximum = fixed size -/
theorem fixed_min_max : ∀ t : Ty, t.isFixed = true → t.minSize = t.fixedSize ∧ t.maxSize = t.fixedSize := by
  apply tyInd
  · intro b _; simp [Ty.minSize, Ty.maxSize, Ty.fixedSize]
  · intro _; simp [Ty.minSize, Ty.maxSize, Ty.fixedSize]
  · intro n _; simp [Ty.minSize, Ty.maxSize, Ty.fixedSize]
  · intro n _; simp [Ty.minSize, Ty.maxSize, Ty.fixedSize]
  · intro n h; simp [Ty.isFixed] at h
  · intro e n _ h
    rw [Ty.isFixed] at h
    simp [Ty.minSize, Ty.maxSize, Ty.fixedSize, h]
  · intro e n _ h; simp [Ty.isFixed] at h
  · intro fs ih h
    rw [Ty.isFixed] at h
    rw [Ty.minSize, Ty.maxSize, Ty.fixedSize]
    induction fs with
    | nil => simp [Ty.minFields, Ty.maxFields, Ty.fixedPart]
    | cons t ts iht =>
      simp only [Ty.allFixed, Bool.and_eq_true] at h
      have h1 := ih t (List.mem_cons_self ..) h.1
      have h2 := iht (fun t ht => ih t (List.mem_cons_of_mem _ ht)) h.2
      simp [Ty.minFields, Ty.maxFields, Ty.fixedPart, h.1, h2.1, h2.2]
  · intro hn fs _ h; simp [Ty.isFixed] at h

theorem minOpts_cons_cons (t t2 : Ty) (ts : List Ty) :
    Ty.minOpts (t :: t2 :: ts) = min t.minSize (Ty.minOpts (t2 :: ts)) := by
  rw [Ty.minOpts]; simp

theorem minOpts_le_maxOpts (fs : List Ty) (h : ∀ t, t ∈ fs → t.minSize ≤ t.maxSize) :
    Ty.minOpts fs ≤ Ty.maxOpts fs := by
  induction fs with
  | nil => simp [Ty.minOpts, Ty.maxOpts]
  | cons t ts ih =>
    have ht := h t (List.mem_cons_self ..)
    cases ts with
    | nil => simp [Ty.minOpts, Ty.maxOpts]; omega
    | cons t2 ts =>
      rw [minOpts_cons_cons, Ty.maxOpts]
      have := ih (fun t ht => h t (List.mem_cons_of_mem _ ht))
      omega

/-- minimum ≤ maximum (all types) -/
theorem min_le_max : ∀ t : Ty, t.minSize ≤ t.maxSize := by
  apply tyInd
  · intro b; simp [Ty.minSize, Ty.maxSize]
  · simp [Ty.minSize, Ty.maxSize]
  · intro n; simp [Ty.minSize, Ty.maxSize]
  · intro n; simp [Ty.minSize, Ty.maxSize]
  · intro n; simp [Ty.minSize, Ty.maxSize]
  · intro e n ih
    rw [Ty.minSize, Ty.maxSize]
    split
    · exact Nat.le_refl _
    · exact Nat.mul_le_mul_left _ (by omega)
  · intro e n _; simp [Ty.minSize]
  · intro fs ih
    rw [Ty.minSize, Ty.maxSize]
    induction fs with
    | nil => simp [Ty.minFields, Ty.maxFields]
    | cons t ts iht =>
      have h1 := ih t (List.mem_cons_self ..)
      have h2 := iht (fun t ht => ih t (List.mem_cons_of_mem _ ht))
      rw [Ty.minFields, Ty.maxFields]
      split <;> omega
  · intro hn fs ih
    rw [Ty.minSize, Ty.maxSize]
    have := minOpts_le_maxOpts fs ih
    split <;> omega


/-! ### the Go constructors against the spec -/

/-- the spec's four numbers, as `UInt64` -/
def specInfo (t : Ty) : SizeInfo :=
  ⟨t.isFixed, UInt64.ofNat t.typeByteLength, UInt64.ofNat t.minSize, UInt64.ofNat t.maxSize⟩

theorem sizeInfos_eq_map (ts : List Ty) : sizeInfos ts = ts.map sizeInfo := by
  induction ts with
  | nil => rfl
  | cons t ts ih => rw [sizeInfos, ih]; rfl

theorem sizeInfos_eq_spec (ts : List Ty) (h : ∀ t, t ∈ ts → sizeInfo t = specInfo t) :
    sizeInfos ts = ts.map specInfo := by
  rw [sizeInfos_eq_map]
  exact List.map_congr_left h

theorem toNat_ofNat_lt {n : Nat} (h : n < 2 ^ 64) : (UInt64.ofNat n).toNat = n :=
  UInt64.toNat_ofNat_of_lt' h

theorem ofNat_lt_ofNat {a b : Nat} (ha : a < 2 ^ 64) (hb : b < 2 ^ 64) :
    UInt64.ofNat a < UInt64.ofNat b ↔ a < b := by
  rw [UInt64.lt_iff_toNat_lt, UInt64.toNat_ofNat_of_lt' ha, UInt64.toNat_ofNat_of_lt' hb]

theorem bitVectorType_spec (n : Nat) (h : n + 7 < 2 ^ 64) :
    bitVectorType (UInt64.ofNat n) = specInfo (.bitvector n) := by
  have e : (UInt64.ofNat n + 7) / 8 = UInt64.ofNat ((n + 7) / 8) := by
    apply UInt64.toNat.inj
    rw [UInt64.toNat_div, UInt64.toNat_add, toNat_ofNat_lt (by omega),
      toNat_ofNat_lt (by omega)]
    have h7 : (7 : UInt64).toNat = 7 := rfl
    have h8 : (8 : UInt64).toNat = 8 := rfl
    rw [h7, h8, Nat.mod_eq_of_lt h]
  simp only [bitVectorType, specInfo, Ty.isFixed, Ty.typeByteLength, Ty.fixedSize, Ty.minSize,
    Ty.maxSize, e, if_true]

theorem bitListType_spec (lim : Nat) (h : lim + 8 < 2 ^ 64) :
    bitListType (UInt64.ofNat lim) = specInfo (.bitlist lim) := by
  have e : (UInt64.ofNat lim + 7 + 1) / 8 = UInt64.ofNat (lim / 8 + 1) := by
    apply UInt64.toNat.inj
    rw [UInt64.toNat_div, UInt64.toNat_add, UInt64.toNat_add, toNat_ofNat_lt (by omega),
      toNat_ofNat_lt (by omega)]
    have h7 : (7 : UInt64).toNat = 7 := rfl
    have h8 : (8 : UInt64).toNat = 8 := rfl
    have h1 : (1 : UInt64).toNat = 1 := rfl
    rw [h7, h8, h1, Nat.mod_eq_of_lt (by omega), Nat.mod_eq_of_lt (by omega)]
    omega
  simp only [bitListType, specInfo, Ty.isFixed, Ty.typeByteLength, Ty.minSize, Ty.maxSize, e]
  rfl

theorem isBasicElem_isFixed (e : Ty) (h : isBasicElem e = true) : e.isFixed = true := by
  cases e <;> simp [isBasicElem] at h
  simp [Ty.isFixed]

theorem ofNat4 : UInt64.ofNat 4 = offsetByteLength := rfl

/-- `VectorType` on a spec-exact element: pure ring homomorphism, no bound needed -/
theorem vectorType_spec (e : Ty) (n : Nat) :
    vectorType (isBasicElem e) (specInfo e) (UInt64.ofNat n) = specInfo (.vector e n) := by
  cases hb : isBasicElem e
  · cases hf : e.isFixed
    · simp [vectorType, complexVectorType, specInfo, Ty.isFixed, Ty.typeByteLength, Ty.minSize,
        Ty.maxSize, hf, UInt64.ofNat_mul, UInt64.ofNat_add, ← ofNat4, UInt64.add_comm]
    · simp [vectorType, complexVectorType, specInfo, Ty.isFixed, Ty.typeByteLength, Ty.minSize,
        Ty.maxSize, Ty.fixedSize, hf, UInt64.ofNat_mul]
  · have hf := isBasicElem_isFixed e hb
    simp [vectorType, basicVectorType, specInfo, Ty.isFixed, Ty.typeByteLength, Ty.minSize,
      Ty.maxSize, Ty.fixedSize, hf, UInt64.ofNat_mul]

theorem listType_spec (e : Ty) (lim : Nat) :
    listType (isBasicElem e) (specInfo e) (UInt64.ofNat lim) = specInfo (.list e lim) := by
  cases hb : isBasicElem e
  · cases hf : e.isFixed
    · simp [listType, complexListType, specInfo, Ty.isFixed, Ty.typeByteLength, Ty.minSize,
        Ty.maxSize, hf, UInt64.ofNat_mul, UInt64.ofNat_add, ← ofNat4, UInt64.add_comm]
    · simp [listType, complexListType, specInfo, Ty.isFixed, Ty.typeByteLength, Ty.minSize,
        Ty.maxSize, hf, UInt64.ofNat_mul]
  · have hf := isBasicElem_isFixed e hb
    simp [listType, basicListType, specInfo, Ty.isFixed, Ty.typeByteLength, Ty.minSize,
      Ty.maxSize, hf, UInt64.ofNat_mul]

/-- a zero limit makes the element's numbers irrelevant (they may have overflowed) -/
theorem listType_zero (b : Bool) (si : SizeInfo) : listType b si 0 = ⟨false, 0, 0, 0⟩ := by
  cases b <;> simp [listType, basicListType, complexListType]

theorem specInfo_list_zero (e : Ty) : specInfo (.list e 0) = ⟨false, 0, 0, 0⟩ := by
  simp [specInfo, Ty.isFixed, Ty.typeByteLength, Ty.minSize, Ty.maxSize]


/-- number of variable-size fields -/
def nVar : List Ty → Nat
  | [] => 0
  | t :: ts => (if t.isFixed then 0 else 1) + nVar ts

theorem nVar_eq_zero (ts : List Ty) : (nVar ts == 0) = Ty.allFixed ts := by
  induction ts with
  | nil => rfl
  | cons t ts ih =>
    cases hf : t.isFixed
    · have : (1 + nVar ts == 0) = false := by simp
      simp [nVar, Ty.allFixed, hf, this]
    · simp [nVar, Ty.allFixed, hf, ih]

/-- the `ContainerType` loop on spec-exact fields: wrapped sums of the spec's summands -/
theorem containerLoop_spec (ts : List Ty) (a : ContainerAcc) :
    containerLoop (ts.map specInfo) a =
      ⟨a.minSize + UInt64.ofNat (Ty.minFields ts), a.maxSize + UInt64.ofNat (Ty.maxFields ts),
       a.fixedPart + UInt64.ofNat (Ty.fixedPart ts), a.offsetsCount + nVar ts⟩ := by
  induction ts generalizing a with
  | nil => simp [containerLoop, Ty.minFields, Ty.maxFields, Ty.fixedPart, nVar]
  | cons t ts ih =>
    rw [List.map_cons, containerLoop, ih]
    cases hf : t.isFixed
    · simp [containerStep, specInfo, hf, Ty.minFields, Ty.maxFields, Ty.fixedPart, nVar,
        UInt64.ofNat_add, ← ofNat4, UInt64.add_assoc, Nat.add_assoc]
    · simp [containerStep, specInfo, hf, Ty.minFields, Ty.maxFields, Ty.fixedPart, nVar,
        Ty.typeByteLength, UInt64.ofNat_add, UInt64.add_assoc]

theorem containerType_spec (ts : List Ty) :
    containerType (ts.map specInfo) = specInfo (.container ts) := by
  simp only [containerType, containerLoop_spec, specInfo, Ty.isFixed, Ty.typeByteLength,
    Ty.fixedSize, Ty.minSize, Ty.maxSize, Nat.zero_add, UInt64.zero_add, nVar_eq_zero]
  by_cases h : Ty.allFixed ts = true <;> simp [h]


/-- the `UnionType` loop as left folds over `Nat` -/
def minWith (a : Nat) : List Ty → Nat
  | [] => a
  | t :: ts => minWith (min a t.minSize) ts
def maxWith (b : Nat) : List Ty → Nat
  | [] => b
  | t :: ts => maxWith (max b t.maxSize) ts

theorem minWith_min (c a : Nat) (ts : List Ty) : minWith (min c a) ts = min c (minWith a ts) := by
  induction ts generalizing a with
  | nil => rfl
  | cons t ts ih => rw [minWith, minWith, Nat.min_assoc, ih]

theorem minOpts_cons (t : Ty) (ts : List Ty) : Ty.minOpts (t :: ts) = minWith t.minSize ts := by
  induction ts generalizing t with
  | nil => simp [Ty.minOpts, minWith]
  | cons t2 ts ih => rw [minOpts_cons_cons, ih, minWith, minWith_min]

theorem minWith_zero (ts : List Ty) : minWith 0 ts = 0 := by
  induction ts with
  | nil => rfl
  | cons t ts ih => rw [minWith, Nat.zero_min, ih]

theorem maxWith_eq (b : Nat) (ts : List Ty) : maxWith b ts = max b (Ty.maxOpts ts) := by
  induction ts generalizing b with
  | nil => simp [maxWith, Ty.maxOpts]
  | cons t ts ih => rw [maxWith, ih, Ty.maxOpts, Nat.max_assoc]

theorem minWith_le (a : Nat) (ts : List Ty) : minWith a ts ≤ a := by
  induction ts generalizing a with
  | nil => exact Nat.le_refl _
  | cons t ts ih => exact Nat.le_trans (ih _) (Nat.min_le_left ..)

theorem le_maxOpts (ts : List Ty) : ∀ t, t ∈ ts → t.maxSize ≤ Ty.maxOpts ts := by
  induction ts with
  | nil => intro t h; cases h
  | cons t2 ts ih =>
    intro t h
    rw [Ty.maxOpts]
    cases h with
    | head => exact Nat.le_max_left ..
    | tail _ h => exact Nat.le_trans (ih t h) (Nat.le_max_right ..)

/-- the `UnionType` loop on spec-exact options whose bounds fit 64 bits -/
theorem unionLoop_spec (ts : List Ty) (a b : Nat) (ha : a < 2 ^ 64) (hb : b < 2 ^ 64)
    (h : ∀ t, t ∈ ts → t.maxSize < 2 ^ 64) :
    unionLoop (ts.map specInfo) (UInt64.ofNat a, UInt64.ofNat b) =
      (UInt64.ofNat (minWith a ts), UInt64.ofNat (maxWith b ts)) := by
  induction ts generalizing a b with
  | nil => rfl
  | cons t ts ih =>
    have hmx := h t (List.mem_cons_self ..)
    have hmn : t.minSize < 2 ^ 64 := Nat.lt_of_le_of_lt (min_le_max t) hmx
    have e1 : (if (specInfo t).min < UInt64.ofNat a then (specInfo t).min else UInt64.ofNat a)
        = UInt64.ofNat (min a t.minSize) := by
      simp only [specInfo, ofNat_lt_ofNat hmn ha]
      split
      · rw [Nat.min_eq_right (by omega)]
      · rw [Nat.min_eq_left (by omega)]
    have e2 : (if (specInfo t).max > UInt64.ofNat b then (specInfo t).max else UInt64.ofNat b)
        = UInt64.ofNat (max b t.maxSize) := by
      simp only [specInfo, GT.gt, ofNat_lt_ofNat hb hmx]
      split
      · rw [Nat.max_eq_right (by omega)]
      · rw [Nat.max_eq_left (by omega)]
    rw [List.map_cons, unionLoop]
    simp only [e1, e2]
    rw [ih _ _ (by omega) (by omega) (fun t ht => h t (List.mem_cons_of_mem _ ht))]
    rfl

theorem unionType_none_spec (ts : List Ty) (h : ∀ t, t ∈ ts → t.maxSize < 2 ^ 64) :
    unionType none (ts.map specInfo) = specInfo (.union true ts) := by
  have := unionLoop_spec ts 0 0 (by omega) (by omega) h
  simp only [unionType]
  rw [show ((0 : UInt64), (0 : UInt64)) = (UInt64.ofNat 0, UInt64.ofNat 0) from rfl, this,
    minWith_zero, maxWith_eq]
  simp [specInfo, Ty.isFixed, Ty.typeByteLength, Ty.minSize, Ty.maxSize, UInt64.ofNat_add,
    UInt64.add_comm]

theorem unionType_some_spec (t : Ty) (ts : List Ty) (h : ∀ u, u ∈ t :: ts → u.maxSize < 2 ^ 64) :
    unionType (some (specInfo t)) (ts.map specInfo) = specInfo (.union false (t :: ts)) := by
  have hmx := h t (List.mem_cons_self ..)
  have hmn : t.minSize < 2 ^ 64 := Nat.lt_of_le_of_lt (min_le_max t) hmx
  have := unionLoop_spec ts t.minSize t.maxSize hmn hmx (fun u hu => h u (List.mem_cons_of_mem _ hu))
  simp only [unionType]
  rw [show ((specInfo t).min, (specInfo t).max) = (UInt64.ofNat t.minSize, UInt64.ofNat t.maxSize) from rfl,
    this, maxWith_eq, ← minOpts_cons]
  rw [show max t.maxSize (Ty.maxOpts ts) = Ty.maxOpts (t :: ts) by rw [Ty.maxOpts]]
  simp [specInfo, Ty.isFixed, Ty.typeByteLength, Ty.minSize, Ty.maxSize, UInt64.ofNat_add,
    UInt64.add_comm]


/-! ### sub-type bounds are below the bound of the whole type -/

theorem allBitLensOk_iff (fs : List Ty) : allBitLensOk fs = true ↔ ∀ t, t ∈ fs → bitLensOk t = true := by
  induction fs with
  | nil => simp [allBitLensOk]
  | cons t ts ih => simp [allBitLensOk, ih]

theorem elem_max_le_series (e : Ty) (n : Nat) (hn : 1 ≤ n) :
    e.maxSize ≤ (if e.isFixed then n * e.fixedSize else n * (4 + e.maxSize)) := by
  split
  · next hf =>
    rw [(fixed_min_max e hf).2]
    exact Nat.le_mul_of_pos_left _ hn
  · exact Nat.le_trans (Nat.le_add_left _ 4) (Nat.le_mul_of_pos_left _ hn)

theorem field_max_le (fs : List Ty) : ∀ t, t ∈ fs → t.maxSize ≤ Ty.maxFields fs := by
  induction fs with
  | nil => intro t h; cases h
  | cons t2 ts ih =>
    intro t h
    rw [Ty.maxFields]
    cases h with
    | head =>
      split
      · next hf => rw [(fixed_min_max _ hf).2]; omega
      · omega
    | tail _ h => have := ih t h; omega

/-- **Model = Spec.**  On every well-formed type whose maximum encoded size fits 64 bits and whose
    bit lengths leave room for the `+7` / `+8` rounding, the Go constructors compute exactly the
    spec's flag and three lengths. -/
theorem sizeInfo_eq : ∀ t : Ty, t.wf = true → t.maxSize < 2 ^ 64 → bitLensOk t = true →
    sizeInfo t = specInfo t := by
  apply tyInd
  · intro b _ _ _
    simp [sizeInfo, uintMeta, specInfo, Ty.isFixed, Ty.typeByteLength, Ty.fixedSize, Ty.minSize, Ty.maxSize]
  · intro _ _ _
    simp [sizeInfo, boolMeta, specInfo, Ty.isFixed, Ty.typeByteLength, Ty.fixedSize, Ty.minSize, Ty.maxSize]
  · intro n hwf _ _
    simp only [Ty.wf, Bool.and_eq_true, decide_eq_true_eq] at hwf
    have e : (UInt8.ofNat n).toUInt64 = UInt64.ofNat n := by
      apply UInt64.toNat.inj
      rw [UInt8.toNat_toUInt64, UInt8.toNat_ofNat', toNat_ofNat_lt (by omega)]
      omega
    simp only [sizeInfo, smallByteVecMeta, rootMeta, e, specInfo, Ty.isFixed, Ty.typeByteLength,
      Ty.fixedSize, Ty.minSize, Ty.maxSize, if_true]
    split
    · next h => subst h; rfl
    · rfl
  · intro n _ _ hb
    rw [sizeInfo]
    exact bitVectorType_spec n (by simpa [bitLensOk] using hb)
  · intro n _ _ hb
    rw [sizeInfo]
    exact bitListType_spec n (by simpa [bitLensOk] using hb)
  · intro e n ih hwf hmax hb
    simp only [Ty.wf, Bool.and_eq_true, decide_eq_true_eq] at hwf
    rw [Ty.maxSize] at hmax
    rw [bitLensOk] at hb
    have := elem_max_le_series e n hwf.1
    rw [sizeInfo, ih hwf.2 (by omega) hb]
    exact vectorType_spec e n
  · intro e lim ih hwf hmax hb
    rw [Ty.wf] at hwf
    rw [Ty.maxSize] at hmax
    rw [bitLensOk] at hb
    rw [sizeInfo]
    by_cases h0 : lim = 0
    · subst h0
      rw [show UInt64.ofNat 0 = 0 from rfl, listType_zero, specInfo_list_zero]
    · have := elem_max_le_series e lim (by omega)
      rw [ih hwf (by omega) hb]
      exact listType_spec e lim
  · intro fs ih hwf hmax hb
    simp only [Ty.wf, Bool.and_eq_true] at hwf
    rw [Ty.maxSize] at hmax
    rw [bitLensOk] at hb
    have hfs : ∀ t, t ∈ fs → sizeInfo t = specInfo t := fun t ht =>
      ih t ht ((wfAll_iff fs).1 hwf.2 t ht) (Nat.lt_of_le_of_lt (field_max_le fs t ht) hmax)
        ((allBitLensOk_iff fs).1 hb t ht)
    rw [sizeInfo, sizeInfos_eq_spec fs hfs]
    exact containerType_spec fs
  · intro hn fs ih hwf hmax hb
    simp only [Ty.wf, Bool.and_eq_true] at hwf
    rw [Ty.maxSize] at hmax
    rw [bitLensOk] at hb
    have hmx : ∀ t, t ∈ fs → t.maxSize < 2 ^ 64 := fun t ht => by
      have := le_maxOpts fs t ht; omega
    have hfs : ∀ t, t ∈ fs → sizeInfo t = specInfo t := fun t ht =>
      ih t ht ((wfAll_iff fs).1 hwf.1.2 t ht) (hmx t ht) ((allBitLensOk_iff fs).1 hb t ht)
    rw [sizeInfo, sizeInfos_eq_spec fs hfs]
    cases hn with
    | true => simpa using unionType_none_spec fs hmx
    | false =>
      cases fs with
      | nil => simp at hwf
      | cons t ts => simpa using unionType_some_spec t ts hmx

/-- well-formed types are constructed without panic -/
theorem wf_not_panics : ∀ t : Ty, t.wf = true → panics t = false := by
  apply tyInd
  · intro _ _; rfl
  · intro _; rfl
  · intro _ _; rfl
  · intro _ _; rfl
  · intro _ _; rfl
  · intro e n ih hwf
    simp only [Ty.wf, Bool.and_eq_true] at hwf
    rw [panics]; exact ih hwf.2
  · intro e n ih hwf
    rw [Ty.wf] at hwf
    rw [panics]; exact ih hwf
  · intro fs ih hwf
    simp only [Ty.wf, Bool.and_eq_true] at hwf
    rw [panics]
    have h2 := (wfAll_iff fs).1 hwf.2
    clear hwf
    induction fs with
    | nil => rfl
    | cons t ts iht =>
      rw [anyPanics, ih t (List.mem_cons_self ..) (h2 t (List.mem_cons_self ..)),
        iht (fun t ht => ih t (List.mem_cons_of_mem _ ht)) (fun t ht => h2 t (List.mem_cons_of_mem _ ht))]
      rfl
  · intro hn fs ih hwf
    simp only [Ty.wf, Bool.and_eq_true] at hwf
    rw [panics]
    have h2 := (wfAll_iff fs).1 hwf.1.2
    have h1 : fs.isEmpty = false := by simpa using hwf.1.1
    rw [h1]
    clear hwf h1
    have : anyPanics fs = false := by
      induction fs with
      | nil => rfl
      | cons t ts iht =>
        rw [anyPanics, ih t (List.mem_cons_self ..) (h2 t (List.mem_cons_self ..)),
          iht (fun t ht => ih t (List.mem_cons_of_mem _ ht)) (fun t ht => h2 t (List.mem_cons_of_mem _ ht))]
        rfl
    simp [this]


/-! ### lengths of spec encodings -/

@[simp] theorem packBits_length (bs : List Bool) : (packBits bs).length = (bs.length + 7) / 8 := by
  simp [packBits]

theorem offsetsOf_flatten_length (ps : List Bytes) (start : Nat) :
    (offsetsOf start ps).flatten.length = 4 * ps.length := by
  induction ps generalizing start with
  | nil => rfl
  | cons p ps ih => simp [offsetsOf, ih]; omega

theorem serVarParts_length (ps : List Bytes) :
    (serVarParts ps).length = 4 * ps.length + ps.flatten.length := by
  rw [serVarParts, List.length_append, offsetsOf_flatten_length]

/-- total encoded length of a container given its parts -/
def partsLen : List (Bool × Bytes) → Nat
  | [] => 0
  | (fx, p) :: ps => (if fx then p.length else 4 + p.length) + partsLen ps

theorem serFixedPart_length (ps : List (Bool × Bytes)) (off : Nat) :
    (serFixedPart off ps).length = fixedPartLen ps := by
  induction ps generalizing off with
  | nil => rfl
  | cons q ps ih =>
    obtain ⟨fx, p⟩ := q
    cases fx <;> simp [serFixedPart, fixedPartLen, ih]

theorem serContainerParts_length (ps : List (Bool × Bytes)) :
    (serContainerParts ps).length = partsLen ps := by
  rw [serContainerParts, List.length_append, serFixedPart_length]
  induction ps with
  | nil => rfl
  | cons q ps ih =>
    obtain ⟨fx, p⟩ := q
    cases fx <;> simp [serVarPart, fixedPartLen, partsLen] <;> omega

/-- a series of elements whose encodings lie in `[lo, hi]` -/
theorem serList_bounds (e : Ty) (lo hi : Nat)
    (h : ∀ v, hasType e v = true → lo ≤ (serialize e v).length ∧ (serialize e v).length ≤ hi) :
    ∀ vs, allHaveType e vs = true →
      (serList e vs).length = vs.length ∧
      vs.length * lo ≤ (serList e vs).flatten.length ∧
      (serList e vs).flatten.length ≤ vs.length * hi := by
  intro vs
  induction vs with
  | nil => intro _; simp [serList]
  | cons v vs ih =>
    intro ht
    simp only [allHaveType, Bool.and_eq_true] at ht
    have h1 := h v ht.1
    have h2 := ih ht.2
    simp only [serList, List.length_cons, List.flatten_cons, List.length_append, Nat.succ_mul]
    omega

theorem unionOpt_mem {hn : Bool} {opts : List Ty} {sel : Nat} {t : Ty}
    (h : unionOpt hn opts sel = some t) : t ∈ opts := by
  unfold unionOpt at h
  split at h
  · split at h
    · cases h
    · exact List.mem_of_getElem? h
  · exact List.mem_of_getElem? h

theorem minOpts_le (ts : List Ty) : ∀ t, t ∈ ts → Ty.minOpts ts ≤ t.minSize := by
  induction ts with
  | nil => intro t h; cases h
  | cons t2 ts ih =>
    intro t h
    cases ts with
    | nil =>
      cases h with
      | head => simp [Ty.minOpts]
      | tail _ h => cases h
    | cons t3 ts =>
      rw [minOpts_cons_cons]
      cases h with
      | head => exact Nat.min_le_left ..
      | tail _ h => exact Nat.le_trans (Nat.min_le_right ..) (ih t h)

/-- encoded length of a container value, field by field -/
theorem fields_bounds (fs : List Ty)
    (ih : ∀ t, t ∈ fs → ∀ v, hasType t v = true →
      t.minSize ≤ (serialize t v).length ∧ (serialize t v).length ≤ t.maxSize) :
    ∀ vs, fieldsHaveType fs vs = true →
      Ty.minFields fs ≤ partsLen (serFields fs vs) ∧ partsLen (serFields fs vs) ≤ Ty.maxFields fs := by
  induction fs with
  | nil =>
    intro vs h
    cases vs with
    | nil => simp [serFields, partsLen, Ty.minFields, Ty.maxFields]
    | cons v vs => simp [fieldsHaveType] at h
  | cons t ts iht =>
    intro vs h
    cases vs with
    | nil => simp [fieldsHaveType] at h
    | cons v vs =>
      simp only [fieldsHaveType, Bool.and_eq_true] at h
      have h1 := ih t (List.mem_cons_self ..) v h.1
      have h2 := iht (fun t ht => ih t (List.mem_cons_of_mem _ ht)) vs h.2
      rw [serFields, partsLen, Ty.minFields, Ty.maxFields]
      by_cases hf : t.isFixed = true
      · have := fixed_min_max t hf
        simp only [hf, if_true]
        omega
      · simp only [hf]
        simp only [Bool.false_eq_true, if_false]
        omega

/-- **Soundness of the spec bounds**: every value's encoding has a length within `[minSize, maxSize]`. -/
theorem ser_bounds : ∀ (t : Ty) (v : Val), hasType t v = true →
    t.minSize ≤ (serialize t v).length ∧ (serialize t v).length ≤ t.maxSize := by
  apply tyInd
  · intro b v h
    cases v <;> simp [hasType] at h
    simp [serialize, Ty.minSize, Ty.maxSize]
  · intro v h
    cases v <;> simp [hasType] at h
    simp [serialize, Ty.minSize, Ty.maxSize]
  · intro n v h
    cases v <;> simp [hasType] at h
    simp [serialize, Ty.minSize, Ty.maxSize, h]
  · intro n v h
    cases v <;> simp [hasType] at h
    simp [serialize, Ty.minSize, Ty.maxSize, h]
  · intro lim v h
    cases v <;> simp [hasType] at h
    simp only [serialize, Ty.minSize, Ty.maxSize, packBits_length, List.length_append,
      List.length_singleton]
    omega
  · intro e n ih v h
    cases v <;> simp [hasType] at h
    next vs =>
    obtain ⟨hl, ha⟩ := h
    have hb := serList_bounds e _ _ ih vs ha
    rw [serialize, Ty.minSize, Ty.maxSize]
    by_cases hf : e.isFixed = true
    · have := fixed_min_max e hf
      simp only [hf, if_true]
      rw [this.1, hl] at hb
      rw [this.2] at hb
      omega
    · simp only [hf, Bool.false_eq_true, if_false, serVarParts_length]
      rw [hb.1, hl, Nat.mul_add, Nat.mul_add, Nat.mul_comm n 4]
      rw [hl] at hb
      omega
  · intro e lim ih v h
    cases v <;> simp [hasType] at h
    next vs =>
    obtain ⟨hl, ha⟩ := h
    have hb := serList_bounds e _ _ ih vs ha
    rw [serialize, Ty.minSize, Ty.maxSize]
    refine ⟨Nat.zero_le _, ?_⟩
    by_cases hf : e.isFixed = true
    · have := fixed_min_max e hf
      simp only [hf, if_true]
      rw [this.2] at hb
      exact Nat.le_trans hb.2.2 (Nat.mul_le_mul_right _ hl)
    · simp only [hf, Bool.false_eq_true, if_false, serVarParts_length]
      rw [hb.1]
      have h3 : 4 * vs.length + (serList e vs).flatten.length ≤ vs.length * (4 + e.maxSize) := by
        rw [Nat.mul_add, Nat.mul_comm vs.length 4]; omega
      exact Nat.le_trans h3 (Nat.mul_le_mul_right _ hl)
  · intro fs ih v h
    cases v <;> simp [hasType] at h
    next vs =>
    rw [serialize, serContainerParts_length, Ty.minSize, Ty.maxSize]
    exact fields_bounds fs ih vs h
  · intro hn fs ih v h
    cases v <;> simp only [hasType, Bool.false_eq_true] at h
    next sel v =>
    rw [serialize, Ty.minSize, Ty.maxSize, List.length_cons]
    cases ho : unionOpt hn fs sel with
    | none =>
      rw [ho] at h
      simp only [Bool.and_eq_true] at h
      simp [h.1.1]
    | some t =>
      rw [ho] at h
      have hm := unionOpt_mem ho
      have h1 := ih t hm v h
      have h2 := minOpts_le fs t hm
      have h3 := le_maxOpts fs t hm
      simp only
      split <;> omega


/-! ### tightness: witnesses of the minimum and of the maximum -/

theorem serList_replicate (e : Ty) (v : Val) (hv : hasType e v = true) (k : Nat) :
    allHaveType e (List.replicate k v) = true ∧
    (serList e (List.replicate k v)).length = k ∧
    (serList e (List.replicate k v)).flatten.length = k * (serialize e v).length := by
  induction k with
  | zero => simp [allHaveType, serList]
  | succ k ih =>
    simp only [List.replicate_succ, allHaveType, serList, hv, ih.1, ih.2.1, List.length_cons,
      List.flatten_cons, List.length_append, ih.2.2, Nat.succ_mul]
    simp; omega

/-- sum of the fields' contributions for a per-type length `f` -/
def genFields (f : Ty → Nat) : List Ty → Nat
  | [] => 0
  | t :: ts => (if t.isFixed then f t else 4 + f t) + genFields f ts

theorem minFields_eq_gen (fs : List Ty) : Ty.minFields fs = genFields Ty.minSize fs := by
  induction fs with
  | nil => rfl
  | cons t ts ih =>
    rw [Ty.minFields, genFields, ih]
    by_cases hf : t.isFixed = true
    · simp [hf, (fixed_min_max t hf).1]
    · simp [hf]

theorem maxFields_eq_gen (fs : List Ty) : Ty.maxFields fs = genFields Ty.maxSize fs := by
  induction fs with
  | nil => rfl
  | cons t ts ih =>
    rw [Ty.maxFields, genFields, ih]
    by_cases hf : t.isFixed = true
    · simp [hf, (fixed_min_max t hf).2]
    · simp [hf]

theorem fields_exact (f : Ty → Nat) (fs : List Ty)
    (h : ∀ t, t ∈ fs → ∃ v, hasType t v = true ∧ (serialize t v).length = f t) :
    ∃ vs, fieldsHaveType fs vs = true ∧ partsLen (serFields fs vs) = genFields f fs := by
  induction fs with
  | nil => exact ⟨[], rfl, rfl⟩
  | cons t ts ih =>
    obtain ⟨v, hv, hl⟩ := h t (List.mem_cons_self ..)
    obtain ⟨vs, hvs, hls⟩ := ih (fun t ht => h t (List.mem_cons_of_mem _ ht))
    refine ⟨v :: vs, ?_, ?_⟩
    · simp [fieldsHaveType, hv, hvs]
    · rw [serFields, partsLen, genFields, hls, hl]

theorem minOpts_attained (fs : List Ty) (hne : fs ≠ []) :
    ∃ (i : Nat) (t : Ty), fs[i]? = some t ∧ Ty.minOpts fs = t.minSize := by
  induction fs with
  | nil => exact absurd rfl hne
  | cons t ts ih =>
    cases ts with
    | nil => exact ⟨0, t, rfl, by simp [Ty.minOpts]⟩
    | cons t2 ts =>
      obtain ⟨i, u, hi, hu⟩ := ih (by simp)
      rw [minOpts_cons_cons]
      by_cases hle : t.minSize ≤ Ty.minOpts (t2 :: ts)
      · exact ⟨0, t, rfl, Nat.min_eq_left hle⟩
      · exact ⟨i + 1, u, by simp [hi], by rw [Nat.min_eq_right (by omega), hu]⟩

theorem maxOpts_attained (fs : List Ty) (hne : fs ≠ []) :
    ∃ (i : Nat) (t : Ty), fs[i]? = some t ∧ Ty.maxOpts fs = t.maxSize := by
  induction fs with
  | nil => exact absurd rfl hne
  | cons t ts ih =>
    rw [Ty.maxOpts]
    cases ts with
    | nil => exact ⟨0, t, rfl, by simp [Ty.maxOpts]⟩
    | cons t2 ts =>
      obtain ⟨i, u, hi, hu⟩ := ih (by simp)
      by_cases hle : Ty.maxOpts (t2 :: ts) ≤ t.maxSize
      · exact ⟨0, t, rfl, Nat.max_eq_left hle⟩
      · exact ⟨i + 1, u, by simp [hi], by rw [Nat.max_eq_right (by omega), hu]⟩

theorem unionOpt_false (opts : List Ty) (sel : Nat) : unionOpt false opts sel = opts[sel]? := by
  simp [unionOpt]

theorem unionOpt_true_succ (opts : List Ty) (i : Nat) : unionOpt true opts (i + 1) = opts[i]? := by
  simp [unionOpt]

theorem unionOpt_true_zero (opts : List Ty) : unionOpt true opts 0 = none := by
  simp [unionOpt]

/-- the minimum is attained -/
theorem tight_min : ∀ t : Ty, t.wf = true →
    ∃ v, hasType t v = true ∧ (serialize t v).length = t.minSize := by
  apply tyInd
  · intro b _
    exact ⟨.num 0, by simp [hasType, Nat.pow_pos], by simp [serialize, Ty.minSize]⟩
  · intro _
    exact ⟨.bool false, by simp [hasType], by simp [serialize, Ty.minSize]⟩
  · intro n _
    exact ⟨.bytes (List.replicate n 0), by simp [hasType], by simp [serialize, Ty.minSize]⟩
  · intro n _
    exact ⟨.bits (List.replicate n false), by simp [hasType], by simp [serialize, Ty.minSize]⟩
  · intro lim _
    exact ⟨.bits [], by simp [hasType], by simp [serialize, Ty.minSize]⟩
  · intro e n ih hwf
    simp only [Ty.wf, Bool.and_eq_true] at hwf
    obtain ⟨v, hv, hl⟩ := ih hwf.2
    obtain ⟨h1, h2, h3⟩ := serList_replicate e v hv n
    refine ⟨.seq (List.replicate n v), by simp [hasType, h1], ?_⟩
    rw [serialize, Ty.minSize]
    by_cases hf : e.isFixed = true
    · simp only [hf, if_true]
      rw [h3, hl, (fixed_min_max e hf).1]
    · simp only [hf, Bool.false_eq_true, if_false, serVarParts_length]
      rw [h2, h3, hl, Nat.mul_add, Nat.mul_comm n 4]
  · intro e lim _ _
    refine ⟨.seq [], by simp [hasType, allHaveType], ?_⟩
    rw [serialize, Ty.minSize]
    split <;> simp [serList, serVarParts, offsetsOf]
  · intro fs ih hwf
    simp only [Ty.wf, Bool.and_eq_true] at hwf
    have h2 := (wfAll_iff fs).1 hwf.2
    obtain ⟨vs, hvs, hl⟩ := fields_exact Ty.minSize fs (fun t ht => ih t ht (h2 t ht))
    refine ⟨.seq vs, by simpa [hasType] using hvs, ?_⟩
    rw [serialize, serContainerParts_length, hl, Ty.minSize, minFields_eq_gen]
  · intro hn fs ih hwf
    simp only [Ty.wf, Bool.and_eq_true] at hwf
    have h2 := (wfAll_iff fs).1 hwf.1.2
    cases hn with
    | true =>
      refine ⟨.union 0 .none, by simp [hasType, unionOpt_true_zero], ?_⟩
      rw [serialize, Ty.minSize, unionOpt_true_zero]
      simp
    | false =>
      have hne : fs ≠ [] := by
        intro h; subst h; simp at hwf
      obtain ⟨i, t, hi, hm⟩ := minOpts_attained fs hne
      obtain ⟨v, hv, hl⟩ := ih t (List.mem_of_getElem? hi) (h2 t (List.mem_of_getElem? hi))
      refine ⟨.union i v, by simp [hasType, unionOpt_false, hi, hv], ?_⟩
      rw [serialize, Ty.minSize, unionOpt_false, hi]
      simp [hl, hm]; omega

/-- the maximum is attained -/
theorem tight_max : ∀ t : Ty, t.wf = true →
    ∃ v, hasType t v = true ∧ (serialize t v).length = t.maxSize := by
  apply tyInd
  · intro b _
    exact ⟨.num 0, by simp [hasType, Nat.pow_pos], by simp [serialize, Ty.maxSize]⟩
  · intro _
    exact ⟨.bool false, by simp [hasType], by simp [serialize, Ty.maxSize]⟩
  · intro n _
    exact ⟨.bytes (List.replicate n 0), by simp [hasType], by simp [serialize, Ty.maxSize]⟩
  · intro n _
    exact ⟨.bits (List.replicate n false), by simp [hasType], by simp [serialize, Ty.maxSize]⟩
  · intro lim _
    refine ⟨.bits (List.replicate lim false), by simp [hasType], ?_⟩
    simp only [serialize, Ty.maxSize, packBits_length, List.length_append, List.length_replicate,
      List.length_singleton]
    omega
  · intro e n ih hwf
    simp only [Ty.wf, Bool.and_eq_true] at hwf
    obtain ⟨v, hv, hl⟩ := ih hwf.2
    obtain ⟨h1, h2, h3⟩ := serList_replicate e v hv n
    refine ⟨.seq (List.replicate n v), by simp [hasType, h1], ?_⟩
    rw [serialize, Ty.maxSize]
    by_cases hf : e.isFixed = true
    · simp only [hf, if_true]
      rw [h3, hl, (fixed_min_max e hf).2]
    · simp only [hf, Bool.false_eq_true, if_false, serVarParts_length]
      rw [h2, h3, hl, Nat.mul_add, Nat.mul_comm n 4]
  · intro e lim ih hwf
    rw [Ty.wf] at hwf
    obtain ⟨v, hv, hl⟩ := ih hwf
    obtain ⟨h1, h2, h3⟩ := serList_replicate e v hv lim
    refine ⟨.seq (List.replicate lim v), by simp [hasType, h1], ?_⟩
    rw [serialize, Ty.maxSize]
    by_cases hf : e.isFixed = true
    · simp only [hf, if_true]
      rw [h3, hl, (fixed_min_max e hf).2]
    · simp only [hf, Bool.false_eq_true, if_false, serVarParts_length]
      rw [h2, h3, hl, Nat.mul_add, Nat.mul_comm lim 4]
  · intro fs ih hwf
    simp only [Ty.wf, Bool.and_eq_true] at hwf
    have h2 := (wfAll_iff fs).1 hwf.2
    obtain ⟨vs, hvs, hl⟩ := fields_exact Ty.maxSize fs (fun t ht => ih t ht (h2 t ht))
    refine ⟨.seq vs, by simpa [hasType] using hvs, ?_⟩
    rw [serialize, serContainerParts_length, hl, Ty.maxSize, maxFields_eq_gen]
  · intro hn fs ih hwf
    simp only [Ty.wf, Bool.and_eq_true] at hwf
    have h2 := (wfAll_iff fs).1 hwf.1.2
    have hne : fs ≠ [] := by
      intro h; subst h; simp at hwf
    obtain ⟨i, t, hi, hm⟩ := maxOpts_attained fs hne
    obtain ⟨v, hv, hl⟩ := ih t (List.mem_of_getElem? hi) (h2 t (List.mem_of_getElem? hi))
    cases hn with
    | true =>
      refine ⟨.union (i + 1) v, by simp [hasType, unionOpt_true_succ, hi, hv], ?_⟩
      rw [serialize, Ty.maxSize, unionOpt_true_succ, hi]
      simp [hl, hm]; omega
    | false =>
      refine ⟨.union i v, by simp [hasType, unionOpt_false, hi, hv], ?_⟩
      rw [serialize, Ty.maxSize, unionOpt_false, hi]
      simp [hl, hm]; omega

end ZtypV.Sizes
