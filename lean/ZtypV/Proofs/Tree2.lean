/-
Helper lemmas for C11b: the two-stage link model of `ZtypV.Model.Tree2` (closures built with
`Link.wrap`, interface-method descent) coincides with the one-stage functions of
`ZtypV.Model.Tree` (`getNode`, `setNode`, `summarizeInto`).  Core Lean only.
-/
import ZtypV.Model.Tree2
import ZtypV.Proofs.Tree
namespace ZtypV.TreeNav2
open ZtypV ZtypV.TreeNav

/-! ### small facts about `R` -/

theorem R.bind_ok {α β : Type} (a : α) (f : α → R β) : ((Except.ok a : R α) >>= f) = f a := rfl
theorem R.bind_error {α β : Type} (e : Err) (f : α → R β) : ((Except.error e : R α) >>= f) = Except.error e := rfl

/-! ### links -/

theorem wrap_apply (outer inner : Link) (v : Node) : Link.wrap outer inner v = (inner v >>= outer) := by
  unfold Link.wrap
  cases inner v <;> rfl

theorem wrap_identity_left (a : Link) : Link.wrap identity a = a := by
  funext v
  rw [wrap_apply]
  cases a v <;> rfl

theorem wrap_identity_right (a : Link) : Link.wrap a identity = a := by
  funext v
  rw [wrap_apply]; rfl

theorem wrap_assoc (a b c : Link) : Link.wrap (Link.wrap a b) c = Link.wrap a (Link.wrap b c) := by
  funext v
  simp only [wrap_apply]
  cases c v with
  | error e => rfl
  | ok x => simp only [R.bind_ok, wrap_apply]

/-! ### getters -/

theorem getLoop_eq (n : Node) (p : List Bool) : getLoop n p = getNode n p := by
  induction p generalizing n with
  | nil => simp [getLoop]
  | cons b bs ih =>
    cases n with
    | leaf x => cases b <;> simp [getLoop, Node.left, Node.right]
    | pair l r => cases b <;> simp [getLoop, Node.left, Node.right, ih]

theorem getter_eq (n : Node) (p : List Bool) : n.getter p = getNode n p := by
  cases n with
  | leaf x => cases p <;> simp [Node.getter, rootGetter]
  | pair l r =>
    match p with
    | [] => simp [Node.getter, pairGetter]
    | [b] => cases b <;> simp [Node.getter, pairGetter]
    | b :: c :: bs => simp only [Node.getter, pairGetter]; exact getLoop_eq _ _

/-! ### one step of the expansion -/

theorem expandStep_ok (h : HashFn) (node : Node) (bs : List Bool) (e : Bool) (node' : Node) :
    expandStep h node bs.length e = .ok node' →
    ∃ l r, node' = .pair l r ∧ ∀ b v, setNode h node (b :: bs) e v = setNode h (.pair l r) (b :: bs) e v := by
  intro hs
  cases node with
  | pair l r =>
    simp only [expandStep] at hs
    cases hs
    exact ⟨l, r, rfl, fun _ _ => rfl⟩
  | leaf x =>
    simp only [expandStep] at hs
    split at hs
    · cases hs
    · split at hs
      · cases hs
      · rename_i he hx
        cases hs
        have he' : e = true := by simpa using he
        have hx' : (x == zh h (bs.length + 1)) = true := by simpa using hx
        refine ⟨zeroNode h bs.length, zeroNode h bs.length, rfl, ?_⟩
        intro b v
        rw [setNode_leaf_cons]
        simp only [he', hx', Bool.and_self, if_true, setNode_pair_cons]

theorem expandStep_error (h : HashFn) (node : Node) (bs : List Bool) (e : Bool) (er : Err) :
    expandStep h node bs.length e = .error er →
    ∀ b v, setNode h node (b :: bs) e v = .error er := by
  intro hs b v
  cases node with
  | pair l r => simp [expandStep] at hs
  | leaf x =>
    simp only [expandStep] at hs
    rw [setNode_leaf_cons]
    split at hs
    · rename_i he
      have he' : e = false := by simpa using he
      cases hs
      simp [he']
    · split at hs
      · rename_i hx
        have hx' : (x == zh h (bs.length + 1)) = false := by simpa using hx
        cases hs
        simp [hx']
      · cases hs

/-- the loop on a pair: one more `Wrap` around the rebind of this pair, continue in the child -/
theorem deeperLoop_pair (h : HashFn) (k : Link) (l r : Node) (b : Bool) (bs : List Bool) (e : Bool) :
    deeperLoop h k (.pair l r) (b :: bs) e =
      deeperLoop h (Link.wrap k (if b then (Node.pair l r).rebindRight else (Node.pair l r).rebindLeft))
        (if b then r else l) bs e := by
  cases b <;> simp [deeperLoop, expandStep, Node.left, Node.right]

theorem deeperLoop_cons_ok (h : HashFn) (k : Link) (node : Node) (b : Bool) (bs : List Bool) (e : Bool)
    (l r : Node) (hs : expandStep h node bs.length e = .ok (.pair l r)) :
    deeperLoop h k node (b :: bs) e = deeperLoop h k (.pair l r) (b :: bs) e := by
  cases b <;> simp only [deeperLoop, hs] <;> simp [expandStep]

theorem deeperLoop_cons_error (h : HashFn) (k : Link) (node : Node) (b : Bool) (bs : List Bool) (e : Bool)
    (er : Err) (hs : expandStep h node bs.length e = .error er) :
    deeperLoop h k node (b :: bs) e = .error er := by
  simp [deeperLoop, hs]

/-- a link produced by the loop is: write the remaining path below `node`, then the old link -/
theorem deeperLoop_ok (h : HashFn) (bs : List Bool) (k : Link) (node : Node) (e : Bool) (k' : Link) :
    deeperLoop h k node bs e = .ok k' → ∀ v, k' v = (setNode h node bs e v >>= k) := by
  induction bs generalizing k node with
  | nil =>
    intro hs v
    simp only [deeperLoop] at hs
    cases hs
    simp [R.bind_ok]
  | cons b bs ih =>
    intro hs v
    cases hx : expandStep h node bs.length e with
    | error er => rw [deeperLoop_cons_error h k node b bs e er hx] at hs; cases hs
    | ok node' =>
      obtain ⟨l, r, rfl, hset⟩ := expandStep_ok h node bs e node' hx
      rw [deeperLoop_cons_ok h k node b bs e l r hx, deeperLoop_pair] at hs
      rw [hset b v, ih _ _ hs v]
      cases b
      · simp only [setNode_pair_cons, Bool.false_eq_true, if_false]
        cases setNode h l bs e v with
        | error er => rfl
        | ok s => simp [R.bind_ok, wrap_apply, Node.rebindLeft, newPairNode]
      · simp only [setNode_pair_cons, if_true]
        cases setNode h r bs e v with
        | error er => rfl
        | ok s => simp [R.bind_ok, wrap_apply, Node.rebindRight, newPairNode]

/-- the loop fails exactly like the one-stage write (whatever value would be bound) -/
theorem deeperLoop_error (h : HashFn) (bs : List Bool) (k : Link) (node : Node) (e : Bool) (er : Err) :
    deeperLoop h k node bs e = .error er → ∀ v, setNode h node bs e v = .error er := by
  induction bs generalizing k node with
  | nil => intro hs; simp [deeperLoop] at hs
  | cons b bs ih =>
    intro hs v
    cases hx : expandStep h node bs.length e with
    | error er' =>
      rw [deeperLoop_cons_error h k node b bs e er' hx] at hs
      cases hs
      exact expandStep_error h node bs e _ hx b v
    | ok node' =>
      obtain ⟨l, r, rfl, hset⟩ := expandStep_ok h node bs e node' hx
      rw [deeperLoop_cons_ok h k node b bs e l r hx, deeperLoop_pair] at hs
      rw [hset b v]
      cases b
      · simp only [Bool.false_eq_true, if_false] at hs
        simp only [setNode_pair_cons, Bool.false_eq_true, if_false]
        rw [ih _ _ hs v]; rfl
      · simp only [if_true] at hs
        simp only [setNode_pair_cons, if_true]
        rw [ih _ _ hs v]; rfl

/-- if the loop yields a link, the one-stage write succeeds for every value -/
theorem deeperLoop_total (h : HashFn) (bs : List Bool) (k : Link) (node : Node) (e : Bool) (k' : Link) :
    deeperLoop h k node bs e = .ok k' → ∀ v, ∃ s, setNode h node bs e v = .ok s := by
  induction bs generalizing k node with
  | nil => intro _ v; exact ⟨v, by simp⟩
  | cons b bs ih =>
    intro hs v
    cases hx : expandStep h node bs.length e with
    | error er => rw [deeperLoop_cons_error h k node b bs e er hx] at hs; cases hs
    | ok node' =>
      obtain ⟨l, r, rfl, hset⟩ := expandStep_ok h node bs e node' hx
      rw [deeperLoop_cons_ok h k node b bs e l r hx, deeperLoop_pair] at hs
      rw [hset b v]
      obtain ⟨s, hs'⟩ := ih _ _ hs v
      cases b
      · simp only [Bool.false_eq_true, if_false] at hs'
        exact ⟨_, by simp only [setNode_pair_cons, Bool.false_eq_true, if_false, hs']; rfl⟩
      · simp only [if_true] at hs'
        exact ⟨_, by simp only [setNode_pair_cons, if_true, hs']; rfl⟩

/-! ### `DeeperSetter` -/

theorem deeperSetter_short (h : HashFn) (k : Link) (node : Node) (p : List Bool) (e : Bool)
    (hp : p.length < 2) : deeperSetter h k node p e = .error .panic := by
  simp [deeperSetter, hp]

theorem deeperSetter_long (h : HashFn) (k : Link) (node : Node) (a b : Bool) (p : List Bool) (e : Bool) :
    deeperSetter h k node (a :: b :: p) e = deeperLoop h k node (b :: p) e := by
  unfold deeperSetter
  rw [if_neg (by simp only [List.length_cons]; omega)]
  rfl

/-! ### `Setter` of both node kinds -/

theorem pairSetter_ok (h : HashFn) (l r : Node) (p : List Bool) (e : Bool) (k : Link) :
    pairSetter h l r p e = .ok k → ∀ v, k v = setNode h (.pair l r) p e v := by
  intro hs v
  match p with
  | [] => simp only [pairSetter] at hs; cases hs; simp [identity]
  | [b] =>
    simp only [pairSetter] at hs; cases hs
    cases b <;> simp [Node.rebindLeft, Node.rebindRight, newPairNode]
  | b :: c :: bs =>
    simp only [pairSetter, deeperSetter_long] at hs
    cases b
    · simp only [Bool.not_false, if_true] at hs
      rw [deeperLoop_ok h _ _ _ _ _ hs v]
      simp only [setNode_pair_cons, Bool.false_eq_true, if_false]
      cases setNode h l (c :: bs) e v <;> simp [R.bind_ok, R.bind_error, Node.rebindLeft, newPairNode]
    · simp only [Bool.not_true, Bool.false_eq_true, if_false] at hs
      rw [deeperLoop_ok h _ _ _ _ _ hs v]
      simp only [setNode_pair_cons, if_true]
      cases setNode h r (c :: bs) e v <;> simp [R.bind_ok, R.bind_error, Node.rebindRight, newPairNode]

theorem pairSetter_error (h : HashFn) (l r : Node) (p : List Bool) (e : Bool) (er : Err) :
    pairSetter h l r p e = .error er → ∀ v, setNode h (.pair l r) p e v = .error er := by
  intro hs v
  match p with
  | [] => simp [pairSetter] at hs
  | [b] => simp [pairSetter] at hs
  | b :: c :: bs =>
    simp only [pairSetter, deeperSetter_long] at hs
    cases b
    · simp only [Bool.not_false, if_true] at hs
      simp only [setNode_pair_cons, Bool.false_eq_true, if_false]
      rw [deeperLoop_error h _ _ _ _ _ hs v]; rfl
    · simp only [Bool.not_true, Bool.false_eq_true, if_false] at hs
      simp only [setNode_pair_cons, if_true]
      rw [deeperLoop_error h _ _ _ _ _ hs v]; rfl

theorem pairSetter_total (h : HashFn) (l r : Node) (p : List Bool) (e : Bool) (k : Link) :
    pairSetter h l r p e = .ok k → ∀ v, ∃ s, setNode h (.pair l r) p e v = .ok s := by
  intro hs v
  match p with
  | [] => exact ⟨v, by simp⟩
  | [b] => cases b <;> simp
  | b :: c :: bs =>
    simp only [pairSetter, deeperSetter_long] at hs
    cases b
    · simp only [Bool.not_false, if_true] at hs
      obtain ⟨s, hs'⟩ := deeperLoop_total h _ _ _ _ _ hs v
      exact ⟨_, by simp only [setNode_pair_cons, Bool.false_eq_true, if_false, hs']; rfl⟩
    · simp only [Bool.not_true, Bool.false_eq_true, if_false] at hs
      obtain ⟨s, hs'⟩ := deeperLoop_total h _ _ _ _ _ hs v
      exact ⟨_, by simp only [setNode_pair_cons, if_true, hs']; rfl⟩

/-- a zero summary of the right height, written with expansion, behaves as the pair of zero nodes -/
theorem setNode_leaf_expand (h : HashFn) (x : Root) (b : Bool) (bs : List Bool) (v : Node)
    (hx : (x == zh h (bs.length + 1)) = true) :
    setNode h (.leaf x) (b :: bs) true v =
      setNode h (.pair (zeroNode h bs.length) (zeroNode h bs.length)) (b :: bs) true v := by
  rw [setNode_leaf_cons]
  simp only [hx, Bool.and_self, if_true, setNode_pair_cons]

theorem rootSetter_cases (h : HashFn) (x : Root) (b : Bool) (bs : List Bool) (e : Bool) :
    rootSetter h x (b :: bs) e =
      if e then
        (if (x == zh h (bs.length + 1)) = true then
          pairSetter h (zeroNode h bs.length) (zeroNode h bs.length) (b :: bs) e
         else .error .nav)
      else .error .nav := by
  cases e
  · simp [rootSetter]
  · by_cases hx : (x == zh h (bs.length + 1)) = true
    · have : (x != zh h (bs.length + 1)) = false := by simp [bne, hx]
      simp [rootSetter, hx, this]
    · have hx' : (x == zh h (bs.length + 1)) = false := by simpa using hx
      have : (x != zh h (bs.length + 1)) = true := by simp [bne, hx']
      simp [rootSetter, hx', this]

theorem setter_ok (h : HashFn) (n : Node) (p : List Bool) (e : Bool) (k : Link) :
    n.setter h p e = .ok k → ∀ v, k v = setNode h n p e v := by
  intro hs v
  cases n with
  | pair l r => exact pairSetter_ok h l r p e k hs v
  | leaf x =>
    cases p with
    | nil => simp only [Node.setter, rootSetter] at hs; cases hs; simp [identity]
    | cons b bs =>
      simp only [Node.setter, rootSetter_cases] at hs
      cases e with
      | false => simp at hs
      | true =>
        simp only [if_true] at hs
        split at hs
        · rename_i hx
          rw [setNode_leaf_expand h x b bs v hx]
          exact pairSetter_ok h _ _ _ _ k hs v
        · cases hs

theorem setter_error (h : HashFn) (n : Node) (p : List Bool) (e : Bool) (er : Err) :
    n.setter h p e = .error er → ∀ v, setNode h n p e v = .error er := by
  intro hs v
  cases n with
  | pair l r => exact pairSetter_error h l r p e er hs v
  | leaf x =>
    cases p with
    | nil => simp [Node.setter, rootSetter] at hs
    | cons b bs =>
      simp only [Node.setter, rootSetter_cases] at hs
      cases e with
      | false => simp at hs; subst hs; simp
      | true =>
        simp only [if_true] at hs
        split at hs
        · rename_i hx
          rw [setNode_leaf_expand h x b bs v hx]
          exact pairSetter_error h _ _ _ _ er hs v
        · rename_i hx
          have hx' : (x == zh h (bs.length + 1)) = false := by simpa using hx
          cases hs
          simp [setNode_leaf_cons, hx']

theorem setter_total (h : HashFn) (n : Node) (p : List Bool) (e : Bool) (k : Link) :
    n.setter h p e = .ok k → ∀ v, ∃ s, setNode h n p e v = .ok s := by
  intro hs v
  cases n with
  | pair l r => exact pairSetter_total h l r p e k hs v
  | leaf x =>
    cases p with
    | nil => exact ⟨v, by simp⟩
    | cons b bs =>
      simp only [Node.setter, rootSetter_cases] at hs
      cases e with
      | false => simp at hs
      | true =>
        simp only [if_true] at hs
        split at hs
        · rename_i hx
          rw [setNode_leaf_expand h x b bs v hx]
          exact pairSetter_total h _ _ _ _ k hs v
        · cases hs

/-- the two-stage setter followed by applying the link is the one-stage write -/
theorem setter_apply (h : HashFn) (n : Node) (p : List Bool) (e : Bool) (v : Node) :
    (n.setter h p e >>= fun k => k v) = setNode h n p e v := by
  cases hs : n.setter h p e with
  | error er => rw [R.bind_error]; exact (setter_error h n p e er hs v).symm
  | ok k => rw [R.bind_ok]; exact setter_ok h n p e k hs v

/-- the setter fails iff the one-stage write fails (for one, equivalently every, value) -/
theorem setter_error_iff (h : HashFn) (n : Node) (p : List Bool) (e : Bool) (er : Err) (v : Node) :
    n.setter h p e = .error er ↔ setNode h n p e v = .error er := by
  constructor
  · exact fun hs => setter_error h n p e er hs v
  · intro hs
    cases hk : n.setter h p e with
    | error er' =>
      have := setter_error h n p e er' hk v
      rw [hs] at this; cases this; rfl
    | ok k =>
      obtain ⟨s, hs'⟩ := setter_total h n p e k hk v
      rw [hs] at hs'; cases hs'

/-! ### writes along concatenated paths -/

theorem setNode_ok_of_get (h : HashFn) (n : Node) (q : List Bool) (e : Bool) (v s : Node) :
    getNode n q = .ok s → ∃ n', setNode h n q e v = .ok n' := by
  induction q generalizing n with
  | nil => intro _; exact ⟨v, by simp⟩
  | cons a q ih =>
    intro hg
    cases n with
    | leaf x => simp at hg
    | pair l r =>
      cases a <;> simp at hg <;> obtain ⟨t, ht⟩ := ih _ hg <;> exact ⟨_, by simp [ht]; rfl⟩

/-- a write along `q ++ r` where the position `q` exists: write at `r` inside the subtree found
    at `q`, then write the result back at `q` (the expansion flag of the write-back is
    irrelevant: nothing is missing on `q`) -/
theorem setNode_append_of_get (h : HashFn) (n : Node) (q r : List Bool) (e e' : Bool) (v s : Node) :
    getNode n q = .ok s →
    setNode h n (q ++ r) e v = (setNode h s r e v >>= fun s' => setNode h n q e' s') := by
  induction q generalizing n with
  | nil =>
    intro hg
    simp at hg; subst hg
    simp only [List.nil_append]
    cases hs : setNode h n r e v <;> simp [R.bind_ok, R.bind_error]
  | cons a q ih =>
    intro hg
    cases n with
    | leaf x => simp at hg
    | pair l rr =>
      cases a <;> simp at hg <;> simp only [List.cons_append, setNode_pair_cons, if_true, if_false,
        Bool.false_eq_true, ih _ hg] <;>
      · cases setNode h s r e v with
        | error er => rfl
        | ok s' => simp [R.bind_ok]

/-! ### summaries -/

theorem summaryInto_apply (h : HashFn) (n : Node) (p : List Bool) :
    (summaryInto h n p >>= fun sl => sl ()) = summarizeInto h n p := by
  unfold summaryInto summarizeInto
  cases hs : n.setter h p false with
  | error er =>
    have := setter_error h n p false er hs n
    simp [this, bind, Except.bind]
  | ok k =>
    obtain ⟨t, ht⟩ := setter_total h n p false k hs n
    rw [getter_eq]
    cases hg : getNode n p with
    | error er => simp [ht, bind, Except.bind]
    | ok sub =>
      simp only [ht, bind, Except.bind]
      exact setter_ok h n p false k hs _

theorem summarizeInto_method_apply (h : HashFn) (n : Node) (p : List Bool) :
    (n.summarizeInto h p >>= fun sl => sl ()) = summarizeInto h n p := by
  cases n with
  | pair l r => exact summaryInto_apply h _ p
  | leaf x =>
    cases p with
    | nil => simp [Node.summarizeInto, summarizeInto, bind, Except.bind, Node.root]
    | cons b bs => simp [Node.summarizeInto, summarizeInto, bind, Except.bind]

/-! ### raw indices -/

theorem setterG_apply (h : HashFn) (n : Node) (g : UInt64) (e : Bool) (v : Node) :
    (setterG h n g e >>= fun k => k v) = setG h n g e v := by
  unfold setterG setG
  by_cases hg : g = 0
  · simp only [hg, if_true]
    cases n with
    | pair l r => simp [R.bind_ok, Node.rebindLeft, newPairNode]
    | leaf x =>
      cases e
      · simp [R.bind_error]
      · by_cases hx : (x == zh h 0) = true
        · have : (x != zh h 0) = false := by simp [bne, hx]
          simp [hx, this, R.bind_error]
        · have hx' : (x == zh h 0) = false := by simpa using hx
          have : (x != zh h 0) = true := by simp [bne, hx']
          simp [hx', this, R.bind_error]
  · simp only [hg, if_false]
    exact setter_apply h n _ e v

theorem getterG_eq (n : Node) (g : UInt64) : getterG n g = getG n g := by
  by_cases hg : g = 0
  · subst hg; cases n <;> rfl
  · simp only [getterG, getG, hg, if_false]; exact getter_eq n _

/-- `setterG` fails iff `setG` fails, with the same error, for any value -/
theorem setterG_error_iff (h : HashFn) (n : Node) (g : UInt64) (e : Bool) (er : Err) (v : Node) :
    setterG h n g e = .error er ↔ setG h n g e v = .error er := by
  unfold setterG setG
  by_cases hg : g = 0
  · simp only [hg, if_true]
    cases n with
    | pair l r => simp
    | leaf x =>
      cases e
      · simp
      · by_cases hx : (x == zh h 0) = true
        · have : (x != zh h 0) = false := by simp [bne, hx]
          simp [hx, this]
        · have hx' : (x == zh h 0) = false := by simpa using hx
          have : (x != zh h 0) = true := by simp [bne, hx']
          simp [hx', this]
  · simp only [hg, if_false]
    exact setter_error_iff h n _ e er v

theorem setterG_ok (h : HashFn) (n : Node) (g : UInt64) (e : Bool) (k : Link) :
    setterG h n g e = .ok k → ∀ v, k v = setG h n g e v := by
  intro hs v
  have := setterG_apply h n g e v
  rw [hs, R.bind_ok] at this
  exact this

theorem setterG_total (h : HashFn) (n : Node) (g : UInt64) (e : Bool) (k : Link) :
    setterG h n g e = .ok k → ∀ v, ∃ s, setG h n g e v = .ok s := by
  intro hs v
  cases hv : setG h n g e v with
  | ok s => exact ⟨s, rfl⟩
  | error er =>
    have := (setterG_error_iff h n g e er v).2 hv
    rw [hs] at this; cases this

theorem summaryIntoG_apply (h : HashFn) (n : Node) (g : UInt64) :
    (summaryIntoG h n g >>= fun sl => sl ()) = sumG h n g := by
  by_cases hg : g = 0
  · subst hg
    cases n with
    | pair l r => simp [summaryIntoG, setterG, getterG, sumG, R.bind_ok, Node.rebindLeft, newPairNode]
    | leaf x => simp [summaryIntoG, setterG, sumG, R.bind_error]
  · have h1 : summaryIntoG h n g = summaryInto h n (gbits g.toNat) := by
      simp [summaryIntoG, summaryInto, setterG, getterG, hg]
    rw [h1, summaryInto_apply]
    simp [sumG, hg]

theorem gbits_length_lt_two (g : Nat) : (gbits g).length < 2 ↔ g < 4 := by
  rw [gbits_length]
  by_cases hg : g = 0
  · subst hg; decide
  · rw [Nat.log2_lt hg]

/-! ### composition of setter links -/

theorem setter_exists_of_get (h : HashFn) (n : Node) (q : List Bool) (e : Bool) (s : Node) :
    getNode n q = .ok s → ∃ k, n.setter h q e = .ok k := by
  intro hg
  cases hk : n.setter h q e with
  | ok k => exact ⟨k, rfl⟩
  | error er =>
    obtain ⟨n', hn⟩ := setNode_ok_of_get h n q e n s hg
    rw [setter_error h n q e er hk n] at hn; cases hn

/-- `parent.Setter(q).Wrap(child.Setter(r))` is `parent.Setter(q ++ r)` when `child` is the node
    at `q` -/
theorem setter_compose (h : HashFn) (n s : Node) (q r : List Bool) (e1 e : Bool) (k1 k2 : Link) :
    getNode n q = .ok s → n.setter h q e1 = .ok k1 → s.setter h r e = .ok k2 →
    ∃ k12, n.setter h (q ++ r) e = .ok k12 ∧ ∀ v, k12 v = Link.wrap k1 k2 v := by
  intro hg h1 h2
  cases h12 : n.setter h (q ++ r) e with
  | error er =>
    have h3 := setter_error h n (q ++ r) e er h12 n
    rw [setNode_append_of_get h n q r e e1 n s hg] at h3
    obtain ⟨s', hs'⟩ := setter_total h s r e k2 h2 n
    rw [hs', R.bind_ok] at h3
    obtain ⟨t, ht⟩ := setter_total h n q e1 k1 h1 s'
    rw [ht] at h3; cases h3
  | ok k12 =>
    refine ⟨k12, rfl, fun v => ?_⟩
    rw [setter_ok h n (q ++ r) e k12 h12 v, setNode_append_of_get h n q r e e1 v s hg, wrap_apply,
      setter_ok h s r e k2 h2 v]
    cases setNode h s r e v with
    | error er => rfl
    | ok s' => rw [R.bind_ok, R.bind_ok]; exact (setter_ok h n q e1 k1 h1 s').symm

/-- conversely the composed setter exists only if the inner one does -/
theorem setter_compose_inner (h : HashFn) (n s : Node) (q r : List Bool) (e : Bool) (k12 : Link) :
    getNode n q = .ok s → n.setter h (q ++ r) e = .ok k12 → ∃ k2, s.setter h r e = .ok k2 := by
  intro hg h12
  cases h2 : s.setter h r e with
  | ok k2 => exact ⟨k2, rfl⟩
  | error er =>
    obtain ⟨t, ht⟩ := setter_total h n (q ++ r) e k12 h12 n
    rw [setNode_append_of_get h n q r e false n s hg, setter_error h s r e er h2 n] at ht
    cases ht

/-! ### concatenation of generalized indices -/

theorem foldl_bits (q : List Bool) (a : Nat) :
    q.foldl (fun a b => 2 * a + b.toNat) a = a * 2 ^ q.length + q.foldl (fun a b => 2 * a + b.toNat) 0 := by
  induction q generalizing a with
  | nil => simp
  | cons b q ih =>
    simp only [List.foldl_cons, List.length_cons]
    rw [ih (2 * a + b.toNat), ih (2 * 0 + b.toNat), Nat.pow_succ, Nat.add_mul, Nat.add_mul]
    have : 2 * a * 2 ^ q.length = a * (2 ^ q.length * 2) := by
      rw [Nat.mul_comm 2 a, Nat.mul_assoc, Nat.mul_comm 2]
    rw [this]
    simp only [Nat.mul_zero, Nat.zero_mul, Nat.zero_add, Nat.add_assoc]

theorem gindexOfPath_concat (p q : List Bool) :
    gindexOfPath (p ++ q) = gindexOfPath p * 2 ^ q.length + (gindexOfPath q - 2 ^ q.length) := by
  unfold gindexOfPath
  rw [List.foldl_append, foldl_bits q (p.foldl _ 1), foldl_bits q 1, Nat.one_mul]
  omega

/-- the index of the concatenated path, as the harness computes it: `g1 << d2 | (g2 - 2^d2)` -/
theorem gbits_concat (g1 g2 : Nat) (h1 : 0 < g1) (h2 : 0 < g2) :
    gbits (g1 * 2 ^ Nat.log2 g2 + (g2 - 2 ^ Nat.log2 g2)) = gbits g1 ++ gbits g2 := by
  have := gindexOfPath_concat (gbits g1) (gbits g2)
  rw [gindexOfPath_gbits g1 h1, gindexOfPath_gbits g2 h2, gbits_length] at this
  rw [← this, gbits_gindexOfPath]

/-! ### client programs -/

theorem gbits_two_bits (g : Nat) (hg : ¬ g < 4) : ∃ a b p, gbits g = a :: b :: p := by
  have hl : ¬ (gbits g).length < 2 := fun hc => hg ((gbits_length_lt_two g).1 hc)
  match hq : gbits g with
  | [] => rw [hq] at hl; simp at hl
  | [a] => rw [hq] at hl; simp at hl
  | a :: b :: p => exact ⟨a, b, p, rfl⟩

/-- the link a client expression builds out of closures is its reference semantics -/
theorem eval_eq_den (h : HashFn) (x : LinkExpr) : x.eval h = x.den h := by
  induction x with
  | id => rfl
  | rebL n =>
    simp only [LinkExpr.eval, LinkExpr.den]
    congr 1; funext v; cases n <;> rfl
  | rebR n =>
    simp only [LinkExpr.eval, LinkExpr.den]
    congr 1; funext v; cases n <;> rfl
  | setter n g e =>
    simp only [LinkExpr.eval, LinkExpr.den]
    cases hs : setterG h n g e with
    | error er => rw [(setterG_error_iff h n g e er n).1 hs]
    | ok k =>
      obtain ⟨s, hs'⟩ := setterG_total h n g e k hs n
      rw [hs']
      simp only
      congr 1; funext v; exact setterG_ok h n g e k hs v
  | deeper k n g e ih =>
    simp only [LinkExpr.eval, LinkExpr.den, ih]
    cases k.den h with
    | error er => rfl
    | ok f =>
      simp only
      by_cases hg : g < 4
      · have hn : g.toNat < 4 := UInt64.lt_iff_toNat_lt.1 hg
        have hl : (gbits g.toNat).length < 2 := (gbits_length_lt_two _).2 hn
        simp only [hg, if_true, deeperSetterG, deeperSetter_short h f n _ e hl]
      · have hn : ¬ g.toNat < 4 := fun hc => hg (UInt64.lt_iff_toNat_lt.2 hc)
        obtain ⟨a, b, p, hp⟩ := gbits_two_bits g.toNat hn
        simp only [hg, if_false, deeperSetterG, hp, deeperSetter_long, List.tail_cons]
        cases hl : deeperLoop h f n (b :: p) e with
        | error er => rw [deeperLoop_error h _ _ _ _ er hl n]
        | ok k' =>
          obtain ⟨s, hs⟩ := deeperLoop_total h _ _ _ _ k' hl n
          rw [hs]
          simp only
          congr 1; funext v; exact deeperLoop_ok h _ _ _ _ k' hl v
  | wrap a b iha ihb =>
    simp only [LinkExpr.eval, LinkExpr.den, iha, ihb]
    cases a.den h with
    | error er => rfl
    | ok f =>
      cases b.den h with
      | error er => rfl
      | ok g => simp only; congr 1; funext v; exact wrap_apply f g v

end ZtypV.TreeNav2
