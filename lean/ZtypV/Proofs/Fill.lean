/-
Merkle roots of the subtree-fill helpers (`SubtreeFillToDepth/Length/Contents`) equal the
SSZ-spec `merk` of the corresponding chunk list.  Core Lean only.
-/
import ZtypV.Model.Tree
namespace ZtypV

theorem zeroNode_root (h : HashFn) (d : Nat) : (zeroNode h d).root h = zh h d := rfl

theorem merk_replicate_full (h : HashFn) (x : Root) (d : Nat) :
    merk h (d + 1) (List.replicate (2 ^ (d + 1)) x)
      = h (merk h d (List.replicate (2 ^ d) x)) (merk h d (List.replicate (2 ^ d) x)) := by
  have h2 : 2 ^ (d + 1) = 2 ^ d + 2 ^ d := by rw [Nat.pow_succ]; omega
  simp only [merk, List.take_replicate, List.drop_replicate, h2]
  generalize 2 ^ d = k
  congr 3 <;> omega

/-- `SubtreeFillToDepth(bottom, d)` is the full vector of `2^d` copies of `bottom` -/
theorem fillToDepth_root (h : HashFn) (b : Node) (d : Nat) :
    (fillToDepth b d).root h = merk h d (List.replicate (2 ^ d) (b.root h)) := by
  induction d with
  | zero => simp [fillToDepth, merk]
  | succ d ih =>
    rw [merk_replicate_full, ← ih]
    simp [fillToDepth, Node.root]

/-- a chunk list that fits in the left half: the right half is the zero subtree -/
theorem merk_succ_le (h : HashFn) (d : Nat) (cs : List Root) (hle : cs.length ≤ 2 ^ d) :
    merk h (d + 1) cs = h (merk h d cs) (zh h d) := by
  simp only [merk, List.take_of_length_le hle, List.drop_of_length_le hle, merk_nil]

/-- `SubtreeFillToLength(bottom, d, len)` is the list of `len` copies of `bottom`, zero padded -/
theorem fillToLength_root (h : HashFn) (b : Node) (d : Nat) :
    ∀ (len : Nat) (n : Node), 0 < len → fillToLength h b d len = .ok n →
      n.root h = merk h d (List.replicate len (b.root h)) := by
  induction d with
  | zero =>
    intro len n hpos hf
    unfold fillToLength at hf
    split at hf; · cases hf
    split at hf
    · rename_i _ he
      have he' : len = 2 ^ 0 := he
      cases hf; rw [he']; exact fillToDepth_root h b 0
    · cases hf
  | succ d ih =>
    intro len n hpos hf
    unfold fillToLength at hf
    split at hf; · cases hf
    split at hf
    · rename_i _ he
      have he' : len = 2 ^ (d + 1) := he
      cases hf; rw [he']; exact fillToDepth_root h b (d + 1)
    · rename_i hgt hne
      simp only at hf
      split at hf
      · rename_i hd; subst hd
        have hlen : len = 1 := by simp at hgt hne; omega
        subst hlen; simp at hf; subst hf
        simp [merk, Node.root, zeroNode, zh]
      · split at hf
        · rename_i hp
          cases hl : fillToLength h b d len with
          | error e => simp [hl, bind, Except.bind] at hf
          | ok l =>
            simp [hl, bind, Except.bind] at hf; subst hf
            rw [merk_succ_le h d _ (by simpa using hp)]
            simp [Node.root, zeroNode, ih len l hpos hl]
        · rename_i hp
          cases hr : fillToLength h b d (len - 2 ^ d) with
          | error e => simp [hr, bind, Except.bind] at hf
          | ok r =>
            simp [hr, bind, Except.bind] at hf; subst hf
            have hmin : min (2 ^ d) len = 2 ^ d := by omega
            simp [Node.root, merk, ih _ r (by omega) hr, fillToDepth_root, List.take_replicate,
              List.drop_replicate, hmin]

/-- Length 0 is NOT the empty vector: for depth ≥ 1 the Go code (and the model) builds the
    same tree as for length 1 (one `bottom` at position 0); at depth 0 it panics.  Hence the
    hypothesis `0 < len` above. -/
theorem fillToLength_step_left (h : HashFn) (b : Node) (d len : Nat) (hle : len ≤ 2 ^ (d + 1)) :
    fillToLength h b (d + 1 + 1) len
      = (do let l ← fillToLength h b (d + 1) len; .ok (.pair l (zeroNode h (d + 1)))) := by
  have hp2 : 2 ^ (d + 1) < 2 ^ (d + 1 + 1) := by
    have : 0 < 2 ^ (d + 1) := Nat.two_pow_pos _
    rw [Nat.pow_succ 2 (d + 1)]; omega
  have h1 : ¬ (len > 2 ^ (d + 1 + 1)) := by omega
  have h2 : ¬ (len = 2 ^ (d + 1 + 1)) := by omega
  have h3 : ¬ (d + 1 = 0) := by omega
  conv => lhs; unfold fillToLength
  simp only [h1, h2, h3, hle, if_false, if_true]

theorem fillToLength_zero_len (h : HashFn) (b : Node) (d : Nat) :
    fillToLength h b (d + 1) 0 = fillToLength h b (d + 1) 1 := by
  induction d with
  | zero => simp [fillToLength]
  | succ d ih =>
    rw [fillToLength_step_left h b d 0 (Nat.zero_le _),
      fillToLength_step_left h b d 1 Nat.one_le_two_pow, ih]

theorem fillToLength_zero_panic (h : HashFn) (b : Node) :
    fillToLength h b 0 0 = .error .panic := by
  simp [fillToLength]

/-- `SubtreeFillToContents(nodes, d)` is the SSZ merkleization of the nodes' roots at depth `d` -/
theorem fill_root (h : HashFn) (d : Nat) : ∀ (ns : List Node) (n : Node),
    fillToContents h d ns = .ok n → n.root h = merk h d (ns.map (Node.root h)) := by
  induction d with
  | zero =>
    intro ns n hf
    unfold fillToContents at hf
    split at hf
    · rename_i h0
      have : ns = [] := List.eq_nil_of_length_eq_zero h0
      subst this; cases hf; simp [zeroNode, Node.root, merk, zh]
    split at hf; · cases hf
    match ns, hf with
    | a :: rest, hf => simp at hf; subst hf; simp [merk]
  | succ d ih =>
    intro ns n hf
    unfold fillToContents at hf
    split at hf
    · rename_i h0
      have : ns = [] := List.eq_nil_of_length_eq_zero h0
      subst this; cases hf; simp [zeroNode, Node.root, merk_nil]
    split at hf; · cases hf
    rename_i hne hle
    simp only at hf
    split at hf
    · rename_i hd; subst hd
      match ns, hf with
      | [a], hf => simp at hf; subst hf; simp [merk, Node.root, zeroNode, zh]
      | a :: b :: rest, hf =>
        simp at hf; subst hf
        simp at hle
        have : rest = [] := by
          cases rest with
          | nil => rfl
          | cons _ _ => simp at hle
        subst this
        simp [merk, Node.root]
    · split at hf
      · rename_i hp
        cases hl : fillToContents h d ns with
        | error e => simp [hl, bind, Except.bind] at hf
        | ok l =>
          simp [hl, bind, Except.bind] at hf; subst hf
          rw [merk_succ_le h d _ (by simpa using hp)]
          simp [Node.root, zeroNode, ih ns l hl]
      · rename_i hp
        cases hl : fillToContents h d (ns.take (2 ^ d)) with
        | error e => simp [hl, bind, Except.bind] at hf
        | ok l =>
          cases hr : fillToContents h d (ns.drop (2 ^ d)) with
          | error e => simp [hl, hr, bind, Except.bind] at hf
          | ok r =>
            simp [hl, hr, bind, Except.bind] at hf; subst hf
            simp [Node.root, merk, ih _ _ hl, ih _ _ hr, List.map_take, List.map_drop]


end ZtypV
