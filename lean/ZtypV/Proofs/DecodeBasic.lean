/-
Basic facts used by the decoder proofs (C03): inversion of the `Except` monad, the reader
model `DR`, `leBytes`/`leNat` round trip, `coverDepth` bound, totality of
`fillToContents` below its capacity.  Core Lean only.
-/
import ZtypV.Model.Decode
namespace ZtypV.DecodeProofs
open ZtypV ZtypV.View

/-! ### Except monad inversion -/

theorem bind_eq_ok {α β : Type} {x : R α} {f : α → R β} {b : β}
    (hb : (x >>= f) = .ok b) : ∃ a, x = .ok a ∧ f a = .ok b := by
  cases x with
  | error e => cases hb
  | ok a => exact ⟨a, rfl, hb⟩

theorem bind_ne_panic {α β : Type} {x : R α} {f : α → R β}
    (hx : x ≠ .error .panic) (hf : ∀ a, x = .ok a → f a ≠ .error .panic) :
    (x >>= f) ≠ .error .panic := by
  cases x with
  | error e =>
    intro hc
    apply hx
    cases e <;> first | rfl | cases hc
  | ok a => exact hf a rfl

theorem ite_err_eq_ok {α : Type} {c : Prop} [Decidable c] {e : Err} {b : R α} {x : α}
    (h : (if c then .error e else b) = .ok x) : ¬ c ∧ b = .ok x := by
  split at h
  · cases h
  · rename_i hc; exact ⟨hc, h⟩

theorem ite_ne_panic {α : Type} {c : Prop} [Decidable c] {a b : R α}
    (ha : c → a ≠ .error .panic) (hb : ¬ c → b ≠ .error .panic) :
    (if c then a else b) ≠ .error .panic := by
  split
  · rename_i hc; exact ha hc
  · rename_i hc; exact hb hc

theorem other_ne_panic {α : Type} : (Except.error Err.other : R α) ≠ .error .panic := by
  intro hc; cases hc

theorem ok_ne_panic {α : Type} (a : α) : (Except.ok a : R α) ≠ .error .panic := by
  intro hc; cases hc

theorem orNil_eq_ok {r : R Node} {n : Node} (h : orNil r = .ok n) : r = .ok n := by
  cases r with
  | error e => cases h
  | ok a => exact h

theorem orNil_ne_panic {r : R Node} (h : ∃ n, r = .ok n) : orNil r ≠ .error .panic := by
  obtain ⟨n, rfl⟩ := h
  intro hc; cases hc

/-! ### the reader -/

theorem read_ok {dr dr' : DR} {n : Nat} {bs : Bytes} (h : dr.read n = .ok (bs, dr')) :
    n ≤ dr.avail.length ∧ bs = dr.avail.take n ∧ dr'.avail = dr.avail.drop n ∧
      dr'.i = dr.i + n ∧ dr'.max = dr.max := by
  unfold DR.read at h
  split at h
  · rename_i h0; subst h0
    cases h
    simp
  split at h; · cases h
  split at h; · cases h
  rename_i h1 h2 h3
  cases h
  refine ⟨by omega, rfl, rfl, rfl, rfl⟩

theorem read_ne_panic (dr : DR) (n : Nat) : dr.read n ≠ .error .panic := by
  unfold DR.read
  split; · intro hc; cases hc
  split; · intro hc; cases hc
  split; · intro hc; cases hc
  intro hc; cases hc

theorem readOffset_ne_panic (dr : DR) : dr.readOffset ≠ .error .panic := by
  unfold DR.readOffset
  apply bind_ne_panic (read_ne_panic dr 4)
  intro a _ hc
  cases hc

theorem sub_ne_panic (dr : DR) (c : Nat) : dr.sub c ≠ .error .panic := by
  unfold DR.sub
  split <;> (intro hc; cases hc)

theorem inSub_ne_panic {α : Type} (dr : DR) (c : Nat) (f : DR → R (α × DR))
    (hf : ∀ d, f d ≠ .error .panic) : dr.inSub c f ≠ .error .panic := by
  unfold DR.inSub
  apply bind_ne_panic (sub_ne_panic dr c)
  intro c0 _
  apply bind_ne_panic (hf c0)
  intro a _ hc
  cases hc

/-- what a successful run in a sub-scope means, given that the child consumed exactly its scope -/
theorem inSub_ok {α : Type} {dr dr' : DR} {count : Nat} {f : DR → R (α × DR)} {a : α}
    (h : dr.inSub count f = .ok (a, dr')) :
    ∃ c1, f { i := 0, max := count, avail := dr.avail.take count } = .ok (a, c1) ∧
      dr'.avail = dr.avail.drop ((dr.avail.take count).length - c1.avail.length) := by
  unfold DR.inSub at h
  obtain ⟨c0, h0, h⟩ := bind_eq_ok h
  obtain ⟨⟨a', c1⟩, h1, h⟩ := bind_eq_ok h
  unfold DR.sub at h0
  split at h0; · cases h0
  cases h0
  cases h
  exact ⟨c1, h1, rfl⟩

/-! ### little-endian numbers -/

theorem leBytes_leNat (x : Bytes) : leBytes x.length (leNat x) = x := by
  induction x with
  | nil => rfl
  | cons b bs ih =>
    have hb : b.toNat < 256 := UInt8.toNat_lt b
    simp only [List.length_cons, leNat, leBytes]
    have h1 : (b.toNat + 256 * leNat bs) % 256 = b.toNat := by omega
    have h2 : (b.toNat + 256 * leNat bs) / 256 = leNat bs := by omega
    rw [h1, h2, ih, UInt8.ofNat_toNat]

theorem leNat_lt (x : Bytes) : leNat x < 256 ^ x.length := by
  induction x with
  | nil => simp [leNat]
  | cons b bs ih =>
    have hb : b.toNat < 256 := UInt8.toNat_lt b
    simp only [List.length_cons, leNat, Nat.pow_succ]
    generalize 256 ^ bs.length = p at ih
    omega

theorem readOffset_ok {dr dr' : DR} {o : Nat} (h : dr.readOffset = .ok (o, dr')) :
    4 ≤ dr.avail.length ∧ leBytes 4 o = dr.avail.take 4 ∧ dr'.avail = dr.avail.drop 4 := by
  unfold DR.readOffset at h
  obtain ⟨⟨bs, d1⟩, h1, h⟩ := bind_eq_ok h
  cases h
  obtain ⟨hl, hbs, hav, _, _⟩ := read_ok h1
  refine ⟨hl, ?_, hav⟩
  have hlen : bs.length = 4 := by rw [hbs, List.length_take]; omega
  have := leBytes_leNat bs
  rw [hlen] at this
  rw [this, hbs]

/-! ### cover depth and fill capacity -/

theorem le_two_pow_coverDepth (n : Nat) : n ≤ 2 ^ coverDepth n := by
  unfold coverDepth
  split
  · rename_i h; simp; omega
  · rename_i h
    have h1 : n - 1 < 2 ^ (Nat.log2 (n - 1) + 1) := Nat.lt_log2_self
    omega

theorem fillToContents_ok (h : HashFn) : ∀ (d : Nat) (ns : List Node), ns.length ≤ 2 ^ d →
    ∃ n, fillToContents h d ns = .ok n := by
  intro d
  induction d with
  | zero =>
    intro ns hl
    unfold fillToContents
    split; · exact ⟨_, rfl⟩
    split; · omega
    exact ⟨_, rfl⟩
  | succ d ih =>
    intro ns hl
    unfold fillToContents
    split; · exact ⟨_, rfl⟩
    split; · omega
    rename_i hne hle
    simp only
    split
    · match ns, hne with
      | [a], _ => exact ⟨_, rfl⟩
      | a :: b :: _, _ => exact ⟨_, rfl⟩
    · split
      · rename_i hp
        obtain ⟨l, hl'⟩ := ih ns hp
        rw [hl']; exact ⟨_, rfl⟩
      · rename_i hp
        have h2 : 2 ^ (d + 1) = 2 ^ d + 2 ^ d := by rw [Nat.pow_succ]; omega
        obtain ⟨l, hl'⟩ := ih (ns.take (2 ^ d)) (by rw [List.length_take]; omega)
        obtain ⟨r, hr'⟩ := ih (ns.drop (2 ^ d)) (by rw [List.length_drop]; omega)
        rw [hl', hr']; exact ⟨_, rfl⟩

theorem fillToContents_nil (h : HashFn) (d : Nat) : fillToContents h d [] = .ok (zeroNode h d) := by
  unfold fillToContents
  simp

theorem bytesIntoNodes_length (bs : Bytes) : (bytesIntoNodes bs).length = (bs.length + 31) / 32 := by
  simp [bytesIntoNodes, chunks]

theorem bytesIntoNodes_nil : bytesIntoNodes [] = [] := by
  simp [bytesIntoNodes, chunks]

theorem lengthNode_zero (h : HashFn) : lengthNode 0 = zeroNode h 0 := by
  have : chunkOf (leBytes 8 0) = z0 := by decide
  simp only [lengthNode, zeroNode, zh, this]

/-- fill of a byte string whose chunk count is below the cover depth's capacity -/
theorem fill_bytes_ok (h : HashFn) (bs : Bytes) (m : Nat) (hm : (bs.length + 31) / 32 ≤ m) :
    ∃ n, fillToContents h (coverDepth m) (bytesIntoNodes bs) = .ok n := by
  apply fillToContents_ok
  rw [bytesIntoNodes_length]
  exact Nat.le_trans hm (le_two_pow_coverDepth m)

/-! ### the statements proved type by type -/

/-- single-chunk leaf types: their decoders are plain fixed-size reads -/
def isLeafTy : Ty → Bool
  | .uint _ | .bool | .bytesN _ => true
  | _ => false

/-- soundness of the decoder of one type: on success the decoder consumed exactly its scope
    (leaf types are always handed their fixed size), the consumed bytes are the encoding of a
    well-typed value, and the returned backing is what the constructor route builds for it -/
def Sound (h : HashFn) (t : Ty) : Prop :=
  ∀ (dr : DR) (n : Node) (dr' : DR), decode h t dr = .ok (n, dr') →
    (isLeafTy t = true → dr.scope = t.fixedSize) →
    ∃ v, hasType t v = true ∧ serialize t v = dr.avail.take dr.scope ∧
      dr.scope ≤ dr.avail.length ∧ dr'.avail = dr.avail.drop dr.scope ∧ construct h t v = .ok n

/-- what the decoder of a leaf type does for any scope: a plain read of `fixedSize` bytes -/
def LeafSound (h : HashFn) (t : Ty) : Prop :=
  ∀ (dr : DR) (n : Node) (dr' : DR), decode h t dr = .ok (n, dr') →
    ∃ v, hasType t v = true ∧ serialize t v = dr.avail.take t.fixedSize ∧
      t.fixedSize ≤ dr.avail.length ∧ dr'.avail = dr.avail.drop t.fixedSize ∧ construct h t v = .ok n

theorem LeafSound.sound {h : HashFn} {t : Ty} (hl : LeafSound h t) (ht : isLeafTy t = true) :
    Sound h t := by
  intro dr n dr' hd hleaf
  rw [hleaf ht]
  exact hl dr n dr' hd

def NoPanic (h : HashFn) (t : Ty) : Prop := ∀ dr : DR, decode h t dr ≠ .error .panic

end ZtypV.DecodeProofs
